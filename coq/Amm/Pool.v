(* x/liquiditypool keeper: the pool state machine (positions, ticks, fee accumulator, swaps,
   claims, incentive allocation) over Amm/Math.v.  One pool at a time: a case carries the
   projection of the module state that concerns one pool plus the balances of the three
   bank accounts an operation can touch (pool account, pool fee account, acting user).
   Denoms are indices: 0 = pool base, 1 = pool quote, 2.. = other (incentive) denoms;
   every DecCoins / Coins value is a vector indexed by denom (0 = absent), which is exactly
   the observable content of sdk.DecCoins (sorted, no zero entries). *)
From Coq Require Import ZArith Bool List.
Import ListNotations.
From Sunrise Require Import Base.Outcome Base.Dec Amm.Math.
Local Open Scope Z_scope.
Local Open Scope res_scope.

(* error classes (compared by class with the implementation) *)
Definition E_GENERIC : Z := 1.
Definition E_UNAUTHORIZED : Z := 2.
Definition E_NOT_FOUND : Z := 3.
Definition E_INSUFFICIENT_FUNDS : Z := 5.

Definition vec := list Z.
Definition vzero : vec := [0; 0; 0; 0].
Fixpoint vmap2 (f : Z -> Z -> option Z) (a b : vec) : option vec :=
  match a, b with
  | x :: a', y :: b' => let? z := f x y in let? r := vmap2 f a' b' in Some (z :: r)
  | _, _ => Some []
  end.
Fixpoint vmap (f : Z -> option Z) (a : vec) : option vec :=
  match a with
  | x :: a' => let? z := f x in let? r := vmap f a' in Some (z :: r)
  | [] => Some []
  end.
Definition vadd := vmap2 dadd.                                  (* DecCoins.Add *)
Definition vsafe_sub (a b : vec) : option vec := vmap2 dsub a b. (* SafeSub, flag dropped *)
Definition vany_neg (a : vec) : bool := existsb (fun x => x <? 0) a.
Definition vsub (a b : vec) : option vec :=                     (* DecCoins.Sub: panics on negative *)
  let? d := vsafe_sub a b in if vany_neg d then None else Some d.
Definition vis_zero (a : vec) : bool := forallb (fun x => x =? 0) a.
Definition vmul_dec (a : vec) (d : Z) : option vec := vmap (fun x => dmul x d) a.
Definition vquo_dec_trunc (a : vec) (d : Z) : option vec :=
  if d =? 0 then None else vmap (fun x => dquoT x d) a.
Definition vtrunc (a : vec) : vec * vec :=                      (* TruncateDecimal: (ints, dust) *)
  (map (fun x => Z.quot x P) a, map (fun x => x - Z.quot x P * P) a).
Definition vset (a : vec) (i : Z) (v : Z) : vec :=
  let n := Z.to_nat i in firstn n a ++ v :: skipn (S n) a.
Definition vget (a : vec) (i : Z) : Z := nth (Z.to_nat i) a 0.
Definition vsingle (i v : Z) : vec := vset vzero i v.

Record pool := { p_fee : Z; p_tp : tick_params; p_tick : Z; p_liq : Z; p_sqrt : Z }.
Record position := { pos_id : Z; pos_owner : Z; pos_lower : Z; pos_upper : Z; pos_liq : Z }.
Record tick := { t_index : Z; t_gross : Z; t_net : Z; t_growth : vec }.
Record accum_pos := { ap_id : Z; ap_shares : Z; ap_value : vec; ap_unclaimed : vec }.

Record amm := {
  a_pool : pool;
  a_positions : list position;     (* positions of this pool, ascending id *)
  a_ticks : list tick;             (* initialised ticks of this pool, ascending index *)
  a_acc_value : vec;               (* fee accumulator: growth per unit of liquidity *)
  a_acc_shares : Z;                (* fee accumulator: total shares *)
  a_acc_pos : list accum_pos;      (* accumulator positions, ascending position id *)
  a_next_id : Z;                   (* next position id (global sequence) *)
  a_bal_pool : vec;                (* bank: pool account *)
  a_bal_fee : vec;                 (* bank: pool fee account *)
  a_bal_user : vec                 (* bank: acting account *)
}.

Definition set_pool (s : amm) (p : pool) : amm :=
  {| a_pool := p; a_positions := a_positions s; a_ticks := a_ticks s; a_acc_value := a_acc_value s;
     a_acc_shares := a_acc_shares s; a_acc_pos := a_acc_pos s; a_next_id := a_next_id s;
     a_bal_pool := a_bal_pool s; a_bal_fee := a_bal_fee s; a_bal_user := a_bal_user s |}.
Definition set_positions (s : amm) (l : list position) : amm :=
  {| a_pool := a_pool s; a_positions := l; a_ticks := a_ticks s; a_acc_value := a_acc_value s;
     a_acc_shares := a_acc_shares s; a_acc_pos := a_acc_pos s; a_next_id := a_next_id s;
     a_bal_pool := a_bal_pool s; a_bal_fee := a_bal_fee s; a_bal_user := a_bal_user s |}.
Definition set_ticks (s : amm) (l : list tick) : amm :=
  {| a_pool := a_pool s; a_positions := a_positions s; a_ticks := l; a_acc_value := a_acc_value s;
     a_acc_shares := a_acc_shares s; a_acc_pos := a_acc_pos s; a_next_id := a_next_id s;
     a_bal_pool := a_bal_pool s; a_bal_fee := a_bal_fee s; a_bal_user := a_bal_user s |}.
Definition set_acc (s : amm) (v : vec) (sh : Z) : amm :=
  {| a_pool := a_pool s; a_positions := a_positions s; a_ticks := a_ticks s; a_acc_value := v;
     a_acc_shares := sh; a_acc_pos := a_acc_pos s; a_next_id := a_next_id s;
     a_bal_pool := a_bal_pool s; a_bal_fee := a_bal_fee s; a_bal_user := a_bal_user s |}.
Definition set_acc_pos (s : amm) (l : list accum_pos) : amm :=
  {| a_pool := a_pool s; a_positions := a_positions s; a_ticks := a_ticks s; a_acc_value := a_acc_value s;
     a_acc_shares := a_acc_shares s; a_acc_pos := l; a_next_id := a_next_id s;
     a_bal_pool := a_bal_pool s; a_bal_fee := a_bal_fee s; a_bal_user := a_bal_user s |}.
Definition set_next_id (s : amm) (n : Z) : amm :=
  {| a_pool := a_pool s; a_positions := a_positions s; a_ticks := a_ticks s; a_acc_value := a_acc_value s;
     a_acc_shares := a_acc_shares s; a_acc_pos := a_acc_pos s; a_next_id := n;
     a_bal_pool := a_bal_pool s; a_bal_fee := a_bal_fee s; a_bal_user := a_bal_user s |}.
Definition set_bals (s : amm) (bp bf bu : vec) : amm :=
  {| a_pool := a_pool s; a_positions := a_positions s; a_ticks := a_ticks s; a_acc_value := a_acc_value s;
     a_acc_shares := a_acc_shares s; a_acc_pos := a_acc_pos s; a_next_id := a_next_id s;
     a_bal_pool := bp; a_bal_fee := bf; a_bal_user := bu |}.

(* ---- bank: SendCoins of a Coins vector between two of the three accounts ---- *)
Inductive acct := APool | AFee | AUser.
Definition get_bal (s : amm) (a : acct) : vec :=
  match a with APool => a_bal_pool s | AFee => a_bal_fee s | AUser => a_bal_user s end.
Definition put_bal (s : amm) (a : acct) (v : vec) : amm :=
  match a with
  | APool => set_bals s v (a_bal_fee s) (a_bal_user s)
  | AFee => set_bals s (a_bal_pool s) v (a_bal_user s)
  | AUser => set_bals s (a_bal_pool s) (a_bal_fee s) v
  end.
Fixpoint vle (a b : vec) : bool :=
  match a, b with x :: a', y :: b' => (x <=? y) && vle a' b' | _, _ => true end.
Definition vplus (a b : vec) : vec := map (fun '(x, y) => x + y) (combine a b).
Definition vminus (a b : vec) : vec := map (fun '(x, y) => x - y) (combine a b).
(* amounts are a sanitised Coins value: all >= 0 (zero = absent) *)
Definition send (s : amm) (from to : acct) (amounts : vec) : res amm :=
  if existsb (fun x => x <? 0) amounts then Err E_GENERIC else
  if negb (vle amounts (get_bal s from)) then Err E_INSUFFICIENT_FUNDS else
  let s1 := put_bal s from (vminus (get_bal s from) amounts) in
  Ok (put_bal s1 to (vplus (get_bal s1 to) amounts)).
(* a raw sdk.Coins{coin}: a zero or negative amount is invalid *)
Definition send_one_raw (s : amm) (from to : acct) (denom amount : Z) : res amm :=
  if amount <=? 0 then Err E_GENERIC else send s from to (vsingle denom amount).

(* ---- ticks ---- *)
Fixpoint find_tick (l : list tick) (i : Z) : option tick :=
  match l with
  | [] => None
  | t :: l' => if t_index t =? i then Some t else find_tick l' i
  end.
Fixpoint put_tick (l : list tick) (t : tick) : list tick :=
  match l with
  | [] => [t]
  | x :: l' => if t_index x =? t_index t then t :: l'
               else if t_index t <? t_index x then t :: x :: l'
               else x :: put_tick l' t
  end.
Fixpoint del_tick (l : list tick) (i : Z) : list tick :=
  match l with
  | [] => []
  | x :: l' => if t_index x =? i then l' else x :: del_tick l' i
  end.

(* GetTickInfo: stored value, or NewTickInfo (growth = accumulator value if currentTick >= tick) *)
Definition get_tick (s : amm) (i : Z) : tick :=
  match find_tick (a_ticks s) i with
  | Some t => t
  | None => {| t_index := i; t_gross := 0; t_net := 0;
               t_growth := if i <=? p_tick (a_pool s) then a_acc_value s else vzero |}
  end.

(* UpsertTick: returns (state, tickIsEmpty) *)
Definition upsert_tick (s : amm) (i delta : Z) (upper : bool) : option (amm * bool) :=
  let t := get_tick s i in
  let? gross := dadd (t_gross t) delta in
  let? net := (if upper then dsub (t_net t) delta else dadd (t_net t) delta) in
  let t' := {| t_index := i; t_gross := gross; t_net := net; t_growth := t_growth t |} in
  Some (set_ticks s (put_tick (a_ticks s) t'), (gross =? 0) && (net =? 0)).

(* ---- positions ---- *)
Fixpoint find_pos (l : list position) (i : Z) : option position :=
  match l with [] => None | p :: l' => if pos_id p =? i then Some p else find_pos l' i end.
Fixpoint del_pos (l : list position) (i : Z) : list position :=
  match l with [] => [] | p :: l' => if pos_id p =? i then l' else p :: del_pos l' i end.
Fixpoint put_pos (l : list position) (p : position) : list position :=
  match l with
  | [] => [p]
  | x :: l' => if pos_id x =? pos_id p then p :: l'
               else if pos_id p <? pos_id x then p :: x :: l' else x :: put_pos l' p
  end.
Fixpoint find_ap (l : list accum_pos) (i : Z) : option accum_pos :=
  match l with [] => None | p :: l' => if ap_id p =? i then Some p else find_ap l' i end.
Fixpoint del_ap (l : list accum_pos) (i : Z) : list accum_pos :=
  match l with [] => [] | p :: l' => if ap_id p =? i then l' else p :: del_ap l' i end.
Fixpoint put_ap (l : list accum_pos) (p : accum_pos) : list accum_pos :=
  match l with
  | [] => [p]
  | x :: l' => if ap_id x =? ap_id p then p :: l'
               else if ap_id p <? ap_id x then p :: x :: l' else x :: put_ap l' p
  end.

Definition has_position (p : pool) : bool := negb ((p_sqrt p =? 0) && (p_tick p =? 0)).
Definition in_range (p : pool) (lo up : Z) : bool := (lo <=? p_tick p) && (p_tick p <? up).

Definition E_ZERO_LIQ : Z := 110.
Definition E_TICKS : Z := 111.

(* TicksToSqrtPrice (upper first) *)
Definition ticks_to_sqrt (lo up : Z) (tp : tick_params) : res (Z * Z) :=
  if up <=? lo then Err E_TICKS else
  let! su := tick_to_sqrt_price up tp in
  let! sl := tick_to_sqrt_price lo tp in
  Ok (sl, su).

(* Pool.CalcActualAmounts *)
Definition calc_actual_amounts (p : pool) (lo up delta : Z) : res (Z * Z) :=
  if delta =? 0 then Err E_ZERO_LIQ else
  let! (sl, su) := ticks_to_sqrt lo up (p_tp p) in
  let ru := 0 <? delta in
  if in_range p lo up then
    let! b := of_opt (calc_amount_base_delta delta (p_sqrt p) su ru) in
    let! q := of_opt (calc_amount_quote_delta delta (p_sqrt p) sl ru) in
    Ok (b, q)
  else if p_tick p <? lo then
    let! b := of_opt (calc_amount_base_delta delta sl su ru) in Ok (b, 0)
  else
    let! q := of_opt (calc_amount_quote_delta delta sl su ru) in Ok (0, q).

(* calculateFeeGrowth *)
Definition calc_fee_growth (target : Z) (tick_growth : vec) (cur : Z) (global : vec) (is_upper : bool) : option vec :=
  if (is_upper && (target <=? cur)) || (negb is_upper && (cur <? target))
  then vsub global tick_growth else Some tick_growth.

(* getFeeGrowthOutside *)
Definition fee_growth_outside (s : amm) (lo up : Z) : option vec :=
  let cur := p_tick (a_pool s) in
  let tl := get_tick s lo in
  let tu := get_tick s up in
  let? above := calc_fee_growth up (t_growth tu) cur (a_acc_value s) true in
  let? below := calc_fee_growth lo (t_growth tl) cur (a_acc_value s) false in
  vadd above below.

(* GetTotalRewards *)
Definition total_rewards (acc_value : vec) (ap : accum_pos) : option vec :=
  if ap_shares ap <=? 0 then Some vzero else
  if existsb (fun '(a, v) => negb (v =? 0) && (a <? v)) (combine acc_value (ap_value ap)) then Some vzero else
  let? d := vsub acc_value (ap_value ap) in
  let? r := vmul_dec d (ap_shares ap) in
  vadd (ap_unclaimed ap) r.

(* SetAccumulatorPositionFeeAccumulator *)
Definition set_accum_position (s : amm) (lo up pid delta : Z) : res amm :=
  let! outside := of_opt (fee_growth_outside s lo up) in
  let! inside := of_opt (vsafe_sub (a_acc_value s) outside) in
  match find_ap (a_acc_pos s) pid with
  | None =>
    if delta <=? 0 then Err E_GENERIC else
    let ap := {| ap_id := pid; ap_shares := delta; ap_value := inside; ap_unclaimed := vzero |} in
    let! sh := of_opt (dadd (a_acc_shares s) delta) in
    Ok (set_acc (set_acc_pos s (put_ap (a_acc_pos s) ap)) (a_acc_value s) sh)
  | Some ap0 =>
    (* updatePositionToInitValuePlusGrowthOutside *)
    let! v1 := of_opt (vadd (ap_value ap0) outside) in
    let ap1 := {| ap_id := pid; ap_shares := ap_shares ap0; ap_value := v1; ap_unclaimed := ap_unclaimed ap0 |} in
    if delta =? 0 then Err E_GENERIC else
    if delta <? 0 then
      let rm := - delta in
      if ap_shares ap1 <? rm then Err E_GENERIC else
      let! un := of_opt (total_rewards (a_acc_value s) ap1) in
      let! sh1 := of_opt (dsub (ap_shares ap1) rm) in
      let ap2 := {| ap_id := pid; ap_shares := sh1; ap_value := inside; ap_unclaimed := un |} in
      let! tot := of_opt (dsub (a_acc_shares s) rm) in
      Ok (set_acc (set_acc_pos s (put_ap (a_acc_pos s) ap2)) (a_acc_value s) tot)
    else
      let! un := of_opt (total_rewards (a_acc_value s) ap1) in
      let! sh1 := of_opt (dadd (ap_shares ap1) delta) in
      let ap2 := {| ap_id := pid; ap_shares := sh1; ap_value := inside; ap_unclaimed := un |} in
      let! tot := of_opt (dadd (a_acc_shares s) delta) in
      Ok (set_acc (set_acc_pos s (put_ap (a_acc_pos s) ap2)) (a_acc_value s) tot)
  end.

Definition E_NEG_LIQ : Z := 112.

(* resetPool, as repaired by the fix commit (also clears the active liquidity) *)
Definition reset_pool (p : pool) : pool :=
  {| p_fee := p_fee p; p_tp := p_tp p; p_tick := 0; p_liq := 0; p_sqrt := 0 |}.
(* pre-fix behaviour, kept for the regression lemma *)
Definition reset_pool_prefix (p : pool) : pool :=
  {| p_fee := p_fee p; p_tp := p_tp p; p_tick := 0; p_liq := p_liq p; p_sqrt := 0 |}.

(* UpdatePosition: returns (state, amountBase, amountQuote (signed Ints), lowerEmpty, upperEmpty) *)
Definition update_position (s0 : amm) (lo up delta pid : Z) : res (amm * Z * Z * bool * bool) :=
  let! (s1, le) := of_opt (upsert_tick s0 lo delta false) in
  let! (s2, ue) := of_opt (upsert_tick s1 up delta true) in
  let p := a_pool s2 in
  match find_pos (a_positions s2) pid with
  | None => Err E_NOT_FOUND
  | Some pos =>
    let! liq := of_opt (dadd (pos_liq pos) delta) in
    if liq <? 0 then Err E_NEG_LIQ else
    let s3 := if liq =? 0 then set_positions s2 (del_pos (a_positions s2) pid)
              else set_positions s2 (put_pos (a_positions s2)
                     {| pos_id := pid; pos_owner := pos_owner pos; pos_lower := pos_lower pos;
                        pos_upper := pos_upper pos; pos_liq := liq |}) in
    let! (ab, aq) := calc_actual_amounts p lo up delta in
    let! s4 :=
      (match a_positions s3 with
       | [] => Ok (set_pool s3 (reset_pool p))
       | _ => if in_range p lo up then
                let! l := of_opt (dadd (p_liq p) delta) in
                Ok (set_pool s3 {| p_fee := p_fee p; p_tp := p_tp p; p_tick := p_tick p; p_liq := l; p_sqrt := p_sqrt p |})
              else Ok s3
       end) in
    let! s5 := set_accum_position s4 lo up pid delta in
    Ok (s5, dtrunc_int ab, dtrunc_int aq, le, ue)
  end.

(* collectFees -> prepareClaimableFees; returns (state, claimed coins) without the bank send *)
Definition prepare_claim (s : amm) (pid : Z) : res (amm * vec) :=
  match find_pos (a_positions s) pid with
  | None => Err E_NOT_FOUND
  | Some pos =>
    match find_ap (a_acc_pos s) pid with
    | None => Err E_GENERIC
    | Some ap0 =>
      let! outside := of_opt (fee_growth_outside s (pos_lower pos) (pos_upper pos)) in
      let! v1 := of_opt (vadd (ap_value ap0) outside) in
      let ap1 := {| ap_id := pid; ap_shares := ap_shares ap0; ap_value := v1; ap_unclaimed := ap_unclaimed ap0 |} in
      let! tot := of_opt (total_rewards (a_acc_value s) ap1) in
      let '(claimed, dust) := vtrunc tot in
      let! inside := of_opt (vsafe_sub (a_acc_value s) outside) in
      let s1 := if ap_shares ap1 =? 0 then set_acc_pos s (del_ap (a_acc_pos s) pid)
                else set_acc_pos s (put_ap (a_acc_pos s)
                       {| ap_id := pid; ap_shares := ap_shares ap1; ap_value := inside; ap_unclaimed := vzero |}) in
      if vis_zero dust then Ok (s1, claimed) else
      if a_acc_shares s1 =? 0 then Ok (s1, claimed) else
      let! per := of_opt (vquo_dec_trunc dust (a_acc_shares s1)) in
      let! v := of_opt (vadd (a_acc_value s1) per) in
      Ok (set_acc s1 v (a_acc_shares s1), claimed)
    end
  end.

Definition E_NOT_OWNER : Z := 113.

Definition collect_fees (s : amm) (sender pid : Z) : res (amm * vec) :=
  match find_pos (a_positions s) pid with
  | None => Err E_NOT_FOUND
  | Some pos =>
    if negb (pos_owner pos =? sender) then Err E_NOT_OWNER else
    let! (s1, claimed) := prepare_claim s pid in
    if vis_zero claimed then Ok (s1, vzero) else
    let! s2 := send s1 AFee AUser claimed in
    Ok (s2, claimed)
  end.

(* Msg/ClaimRewards over a list of position ids *)
Fixpoint claim_rewards_loop (s : amm) (sender : Z) (ids : list Z) (total : vec) : res (amm * vec) :=
  match ids with
  | [] => Ok (s, total)
  | i :: tl => let! (s1, c) := collect_fees s sender i in claim_rewards_loop s1 sender tl (vplus total c)
  end.
Definition msg_claim_rewards (s : amm) (sender : Z) (ids : list Z) : res (amm * vec) :=
  match ids with [] => Err E_GENERIC | _ => claim_rewards_loop s sender ids vzero end.

Definition E_INSUFFICIENT_LIQ : Z := 114.

(* keeper DecreaseLiquidity: returns (state, base, quote) *)
Definition decrease_liquidity (s : amm) (sender pid liquidity : Z) : res (amm * Z * Z) :=
  match find_pos (a_positions s) pid with
  | None => Err E_NOT_FOUND
  | Some pos =>
    if negb (pos_owner pos =? sender) then Err E_UNAUTHORIZED else
    if liquidity <? 0 then Err E_GENERIC else
    if pos_liq pos <? liquidity then Err E_INSUFFICIENT_LIQ else
    let! (s1, _) := collect_fees s sender pid in
    let! (s2, ab, aq, le, ue) := update_position s1 (pos_lower pos) (pos_upper pos) (- liquidity) pid in
    let b := Z.abs ab in let q := Z.abs aq in
    let! _ := of_opt (chk_int b) in
    let! s3 := send s2 APool AUser [b; q; 0; 0] in
    let s4 := if le then set_ticks s3 (del_tick (a_ticks s3) (pos_lower pos)) else s3 in
    let s5 := if ue then set_ticks s4 (del_tick (a_ticks s4) (pos_upper pos)) else s4 in
    Ok (s5, b, q)
  end.

(* Msg/CreatePosition: returns (state, id, base, quote, liquidity) *)
Definition create_position (s : amm) (sender lo up base quote min_base min_quote : Z)
  : res (amm * (Z * Z * Z * Z)) :=
  if (up <=? lo) || (lo <? TICK_MIN) || (TICK_MAX <? up) then Err E_TICKS else
  if (base =? 0) && (quote =? 0) then Err E_GENERIC else
  if (base <? 0) || (quote <? 0) then Err E_GENERIC else
  let p0 := a_pool s in
  let! (sl, su) := ticks_to_sqrt lo up (p_tp p0) in
  let! s1 :=
    (if has_position p0 then Ok s else
     if negb ((0 <? base) && (0 <? quote)) then Err E_GENERIC else
     let! sp := sqrt_price_from_quote_base quote base in
     let! tk := sqrt_price_to_tick sp (p_tp p0) in
     Ok (set_pool s {| p_fee := p_fee p0; p_tp := p_tp p0; p_tick := tk; p_liq := p_liq p0; p_sqrt := sp |})) in
  let p1 := a_pool s1 in
  let! delta := of_opt (liquidity_from_amounts (p_sqrt p1) sl su base quote) in
  if delta =? 0 then Err E_ZERO_LIQ else
  let pid := a_next_id s1 in
  let s2 := set_next_id (set_positions s1 (put_pos (a_positions s1)
              {| pos_id := pid; pos_owner := sender; pos_lower := lo; pos_upper := up; pos_liq := 0 |})) (pid + 1) in
  let! (s3, ab, aq, _, _) := update_position s2 lo up delta pid in
  if ab <? min_base then Err E_GENERIC else
  if aq <? min_quote then Err E_GENERIC else
  if (ab <? 0) || (aq <? 0) then Panic else       (* sdk.NewCoin panics on a negative amount *)
  let! s4 := send s3 AUser APool [ab; aq; 0; 0] in
  Ok (s4, (pid, ab, aq, match find_pos (a_positions s4) pid with Some pos => pos_liq pos | None => 0 end)).

(* Msg/IncreaseLiquidity = full decrease + create with the combined amounts *)
Definition increase_liquidity (s : amm) (sender pid amount_base amount_quote min_base min_quote : Z)
  : res (amm * (Z * Z * Z * Z)) :=
  match find_pos (a_positions s) pid with
  | None => Err E_NOT_FOUND
  | Some pos =>
    if negb (pos_owner pos =? sender) then Err E_UNAUTHORIZED else
    if (amount_base <? 0) || (amount_quote <? 0) then Err E_GENERIC else
    if (amount_base =? 0) && (amount_quote =? 0) then Err E_GENERIC else
    let! (s1, wb, wq) := decrease_liquidity s sender pid (pos_liq pos) in
    create_position s1 sender (pos_lower pos) (pos_upper pos)
      (wb + amount_base) (wq + amount_quote) (wb + min_base) (wq + min_quote)
  end.

(* ---- swaps ---- *)
Definition E_RAN_OUT_OF_TICKS : Z := 120.
Definition E_NO_SQRT_AFTER_SWAP : Z := 121.
Definition E_INVALID_COMPUTED : Z := 122.
Definition E_RAN_OUT_OF_ITER : Z := 123.
Definition E_OVERCHARGE : Z := 124.
Definition E_EMPTY_LIQ : Z := 125.
Definition E_INVALID_SQRT : Z := 126.
Definition E_UNEXPECTED_CALC : Z := 127.

(* GetSqrtPriceLimit *)
Definition sqrt_price_limit (mult_limit : Z) (b4q : bool) : res Z :=
  if mult_limit =? 0 then Ok (if b4q then MIN_SQRT_PRICE else MAX_SQRT_PRICE) else
  if (mult_limit <? MIN_MULT_SPOT) || (MAX_MULT_SPOT <? mult_limit) then Err E_PRICE_OUT_OF_BOUND else
  let! s := approx_sqrt_res mult_limit in
  of_opt (dquo s MULT_SQRT).

(* ticks the iterator will visit, in visiting order *)
Definition iter_ticks (b4q : bool) (l : list tick) (cur : Z) : list tick :=
  if b4q then rev (filter (fun t => t_index t <=? cur) l)
  else filter (fun t => cur <? t_index t) l.

Record swap_state := {
  ss_remaining : Z; ss_calculated : Z; ss_sqrt : Z; ss_tick : Z; ss_liq : Z;
  ss_growth : Z;        (* globalFeeGrowthPerUnitLiquidity *)
  ss_fees : Z;          (* globalFeeGrowth = total fees *)
  ss_ticks : list tick; (* tick store (crossed ticks get their growth flipped) *)
  ss_noprog : Z }.

(* one pass of the loop body; [iter] is the iterator's remaining list *)
Fixpoint swap_loop (fuel : nat) (exact_in b4q update_acc : bool) (fee limit : Z) (tp : tick_params)
         (acc_value : vec) (denom_in : Z) (iter : list tick) (st : swap_state) : res swap_state :=
  if negb ((0 <? ss_remaining st) && negb (ss_sqrt st =? limit)) then Ok st else
  match fuel with
  | O => Err E_FUEL
  | S f =>
    match iter with
    | [] => Err E_RAN_OUT_OF_TICKS
    | nt :: iter' =>
      let next_tick := t_index nt in
      let! next_sp := (match tick_to_sqrt_price next_tick tp with
                       | Ok v => Ok v | Panic => Panic
                       | Err e => if e =? E_FUEL then Err E_FUEL else Err E_GENERIC end) in
      let target := sqrt_target b4q limit next_sp in
      let start := ss_sqrt st in
      let! (computed, spec_used, other, fee_charge) :=
        of_opt ((if exact_in then step_out_given_in b4q else step_in_given_out b4q)
                  fee (ss_sqrt st) target (ss_liq st) (ss_remaining st)) in
      let amt_in := if exact_in then spec_used else other in
      let amt_out := if exact_in then other else spec_used in
      if (computed =? start) && negb ((amt_in =? 0) && (amt_out =? 0)) then Err E_NO_SQRT_AFTER_SWAP else
      (* updateFeeGrowthGlobal *)
      let! (growth, fees) :=
        (if update_acc then
           let! fees' := of_opt (dadd (ss_fees st) fee_charge) in
           if ss_liq st =? 0 then Ok (ss_growth st, fees') else
           let! per := of_opt (dquoT fee_charge (ss_liq st)) in
           let! g := of_opt (dadd (ss_growth st) per) in Ok (g, fees')
         else Ok (ss_growth st, ss_fees st)) in
      let! in_fee := of_opt (dadd amt_in fee_charge) in
      let! remaining := of_opt (if exact_in then dsub (ss_remaining st) in_fee else dsub (ss_remaining st) amt_out) in
      let! calculated := of_opt (if exact_in then dadd (ss_calculated st) amt_out else dadd (ss_calculated st) in_fee) in
      let! (tick', liq', ticks', iter2) :=
        (if next_sp =? computed then
           (* swapCrossTickLogic; the value is read from the store through the iterator *)
           let cur := match find_tick (ss_ticks st) next_tick with Some t => t | None => nt end in
           let! ticks2 :=
             (if update_acc then
                let! g1 := of_opt (vadd acc_value (vsingle denom_in growth)) in
                let! g2 := of_opt (vsub g1 (t_growth cur)) in
                Ok (put_tick (ss_ticks st) {| t_index := next_tick; t_gross := t_gross cur; t_net := t_net cur; t_growth := g2 |})
              else Ok (ss_ticks st)) in
           let net := if b4q then - t_net cur else t_net cur in
           let! l := of_opt (dadd (ss_liq st) net) in
           Ok ((if b4q then next_tick - 1 else next_tick), l, ticks2, iter')
         else if (if b4q then computed <? next_sp else next_sp <? computed) then Err E_INVALID_COMPUTED
         else if negb (start =? computed) then
           let! nt' := sqrt_price_to_tick computed tp in Ok (nt', ss_liq st, ss_ticks st, iter)
         else Ok (ss_tick st, ss_liq st, ss_ticks st, iter)) in
      let zero_progress := if exact_in then amt_in =? 0 else amt_out =? 0 in
      if zero_progress && (100 <=? ss_noprog st) then Err E_RAN_OUT_OF_ITER else
      swap_loop f exact_in b4q update_acc fee limit tp acc_value denom_in iter2
        {| ss_remaining := remaining; ss_calculated := calculated; ss_sqrt := computed; ss_tick := tick';
           ss_liq := liq'; ss_growth := growth; ss_fees := fees; ss_ticks := ticks';
           ss_noprog := if zero_progress then ss_noprog st + 1 else ss_noprog st |}
    end
  end.

(* result of computeOutAmtGivenIn / computeInAmtGivenOut: amounts, fees, pool updates, tick store,
   accumulator growth to add *)
Record swap_result := {
  sr_in : Z; sr_out : Z; sr_fees : Z; sr_tick : Z; sr_liq : Z; sr_sqrt : Z;
  sr_ticks : list tick; sr_growth : Z }.

Definition E_DENOM : Z := 128.

(* mult_limit: Min/MaxMultipliedSpotPrice for messages, 0 for the quote queries *)
Definition compute_swap (s : amm) (exact_in : bool) (denom_in denom_out : Z) (specified fee mult_limit : Z)
           (update_acc : bool) : res swap_result :=
  let p := a_pool s in
  if negb (has_position p) then Err E_EMPTY_LIQ else
  if negb (((denom_in =? 0) && (denom_out =? 1)) || ((denom_in =? 1) && (denom_out =? 0))) then Err E_DENOM else
  let b4q := denom_in =? 0 in
  let! limit := sqrt_price_limit mult_limit b4q in
  if (if b4q then (p_sqrt p <? limit) || (limit <? MIN_SQRT_PRICE)
      else (limit <? p_sqrt p) || (MAX_SQRT_PRICE <? limit)) then Err E_INVALID_SQRT else
  let st0 := {| ss_remaining := dec_of_int specified; ss_calculated := 0; ss_sqrt := p_sqrt p;
                ss_tick := p_tick p; ss_liq := p_liq p; ss_growth := 0; ss_fees := 0;
                ss_ticks := a_ticks s; ss_noprog := 0 |} in
  let iter := iter_ticks b4q (a_ticks s) (p_tick p) in
  let! st := swap_loop (length iter + 300) exact_in b4q update_acc fee limit (p_tp p)
               (a_acc_value s) denom_in iter st0 in
  if ss_remaining st <? 0 then Err E_OVERCHARGE else
  (* fix "fail a pool swap that stops at the price limit": never fill partially *)
  if 0 <? ss_remaining st then Err E_INSUFFICIENT_LIQ else
  if exact_in then
    let! used := of_opt (dsub (dec_of_int specified) (ss_remaining st)) in
    let! c := of_opt (dceil used) in
    Ok {| sr_in := dtrunc_int c; sr_out := dtrunc_int (ss_calculated st); sr_fees := ss_fees st;
          sr_tick := ss_tick st; sr_liq := ss_liq st; sr_sqrt := ss_sqrt st;
          sr_ticks := ss_ticks st; sr_growth := ss_growth st |}
  else
    let! c := of_opt (dceil (ss_calculated st)) in
    let! got := of_opt (dsub (dec_of_int specified) (ss_remaining st)) in
    Ok {| sr_in := dtrunc_int c; sr_out := dtrunc_int got; sr_fees := ss_fees st;
          sr_tick := ss_tick st; sr_liq := ss_liq st; sr_sqrt := ss_sqrt st;
          sr_ticks := ss_ticks st; sr_growth := ss_growth st |}.

(* keeper.SwapExactAmountIn / SwapExactAmountOut with feeEnabled; returns (state, in, out) *)
Definition swap (s : amm) (exact_in : bool) (denom_in denom_out specified : Z) (fee_enabled : bool)
  : res (amm * Z * Z) :=
  if denom_in =? denom_out then Err E_DENOM else
  let b4q := denom_in =? 0 in
  let fee := if fee_enabled then p_fee (a_pool s) else 0 in
  let! r := compute_swap s exact_in denom_in denom_out specified fee
              (if b4q then MIN_MULT_SPOT else MAX_MULT_SPOT) true in
  if (if exact_in then sr_out r <=? 0 else sr_in r <=? 0) then Err E_UNEXPECTED_CALC else
  (* accumulators were written inside compute: tick growth flips and the global growth *)
  let! accv := of_opt (vadd (a_acc_value s) (vsingle denom_in (sr_growth r))) in
  let s1 := set_acc (set_ticks s (sr_ticks r)) accv (a_acc_shares s) in
  (* updatePoolForSwap *)
  let! fc := of_opt (dceil (sr_fees r)) in
  let fee_int := dtrunc_int fc in
  let! s2 := send_one_raw s1 AUser APool denom_in (sr_in r - fee_int) in
  let! s3 := (if fee_int =? 0 then Ok s2 else send_one_raw s2 AUser AFee denom_in fee_int) in
  let! s4 := send_one_raw s3 APool AUser denom_out (sr_out r) in
  if sr_liq r <? 0 then Err E_GENERIC else
  if sr_sqrt r <? 0 then Err E_GENERIC else
  if (sr_tick r <? TICK_MIN) || (TICK_MAX <? sr_tick r) then Err E_GENERIC else
  let p := a_pool s4 in
  Ok (set_pool s4 {| p_fee := p_fee p; p_tp := p_tp p; p_tick := sr_tick r; p_liq := sr_liq r; p_sqrt := sr_sqrt r |},
      sr_in r, sr_out r).

(* CalculateResultExactAmountIn / Out (queries; no state change) *)
Definition quote_swap (s : amm) (exact_in : bool) (denom_in denom_out specified : Z) (fee_enabled : bool) : res Z :=
  let fee := if fee_enabled then p_fee (a_pool s) else 0 in
  let! r := compute_swap s exact_in denom_in denom_out specified fee 0 false in
  Ok (if exact_in then sr_out r else sr_in r).

(* AllocateIncentive *)
Definition allocate_incentive (s : amm) (coins : vec) : res amm :=
  if negb (has_position (a_pool s)) then Err E_EMPTY_LIQ else
  (* fix "no division by zero when allocating incentives": no in-range liquidity is an error *)
  if p_liq (a_pool s) <=? 0 then Err E_EMPTY_LIQ else
  let! g := of_opt (vquo_dec_trunc (map dec_of_int coins) (p_liq (a_pool s))) in
  let! v := of_opt (vadd (a_acc_value s) g) in
  send (set_acc s v (a_acc_shares s)) AUser AFee coins.

(* GetClaimableFees (query) *)
Definition claimable_fees (s : amm) (pid : Z) : res vec :=
  let! (_, c) := prepare_claim s pid in Ok c.

(* ---- operations as messages (transactions) ---- *)
Inductive op :=
| OCreate (sender lo up base quote min_base min_quote : Z)
| OIncrease (sender pid base quote min_base min_quote : Z)
| ODecrease (sender pid liquidity : Z)
| OClaim (sender : Z) (ids : list Z)
| OSwap (exact_in : bool) (denom_in denom_out specified : Z)
| OAllocate (coins : vec).

(* results are flattened to a list of integers for comparison *)
Definition step (s : amm) (o : op) : amm * res (list Z) :=
  let r :=
    match o with
    | OCreate sender lo up b q mb mq =>
        let! (s', (id, ab, aq, l)) := create_position s sender lo up b q mb mq in Ok (s', [id; ab; aq; l])
    | OIncrease sender pid b q mb mq =>
        let! (s', (id, ab, aq, l)) := increase_liquidity s sender pid b q mb mq in Ok (s', [id; ab; aq])
    | ODecrease sender pid l =>
        let! (s', b, q) := decrease_liquidity s sender pid l in Ok (s', [b; q])
    | OClaim sender ids =>
        let! (s', c) := msg_claim_rewards s sender ids in Ok (s', c)
    | OSwap ei di do_ sp =>
        let! (s', i, o') := swap s ei di do_ sp true in Ok (s', [i; o'])
    | OAllocate coins =>
        let! s' := allocate_incentive s coins in Ok (s', [])
    end in
  match r with
  | Ok (s', out) => (s', Ok out)
  | Err e => (s, Err e)
  | Panic => (s, Panic)
  end.
