(* C05: rounding direction of every arithmetic step of a swap.
   All statements are over raw decimals (value x 10^18, P = 10^18) and exact integer arithmetic. *)
From Coq Require Import ZArith Bool Lia ZifyBool.
From Sunrise Require Import Base.Outcome Base.Dec Base.DecLemmas Amm.Math.
Local Open Scope Z_scope.
Ltac Zify.zify_post_hook ::= Z.div_mod_to_equations.

(* ---- brackets of the directed Dec operations on the non-negative cone ---- *)
Lemma dmulT_bracket a b r : 0 <= a -> 0 <= b -> dmulT a b = Some r -> r * P <= a * b < r * P + P.
Proof.
  intros Ha Hb H. unfold dmulT in H. apply chk_some in H. destruct H as [-> _].
  apply chop_trunc_bracket. nia.
Qed.
Lemma dmulU_bracket a b r : 0 <= a -> 0 <= b -> dmulU a b = Some r -> a * b <= r * P < a * b + P.
Proof.
  intros Ha Hb H. unfold dmulU in H. apply chk_some in H. destruct H as [-> _].
  apply chop_roundup_bracket. nia.
Qed.
Lemma dquoT_bracket a b q : 0 <= a -> 0 < b -> dquoT a b = Some q -> q * b <= a * P < q * b + b.
Proof.
  intros Ha Hb H. unfold dquoT in H. destruct (Z.eqb_spec b 0); [lia|].
  apply chk_some in H. destruct H as [-> _].
  assert (0 <= a * P) by (unfold P; nia).
  rewrite Z.quot_div_nonneg by lia. nia.
Qed.
Lemma dquoU_bracket a b q : 0 <= a -> 0 < b -> dquoU a b = Some q -> a * P <= q * b < a * P + b.
Proof.
  intros Ha Hb H. unfold dquoU in H. destruct (Z.eqb_spec b 0); [lia|].
  assert (Hn : 0 <= a * P) by (unfold P; nia).
  rewrite Z.quot_div_nonneg, Z.rem_mod_nonneg in H by lia.
  assert (Hq : 0 <= a * P / b) by (apply Z.div_pos; lia).
  assert (Hr : 0 <= (a * P) mod b < b) by (apply Z.mod_pos_bound; lia).
  assert (Hd : a * P = b * (a * P / b) + (a * P) mod b) by (apply Z.div_mod; lia).
  destruct (a * P / b <? 0) eqn:E1; [lia|]. destruct (b <? 0) eqn:E2; [lia|]. cbn [Bool.eqb negb andb orb] in H.
  destruct (0 <? (a * P) mod b) eqn:E3; cbn [andb orb] in H.
  - apply chk_some in H. destruct H as [-> _]. nia.
  - destruct ((a * P) mod b <? 0) eqn:E4; cbn [andb] in H; [lia|].
    apply chk_some in H. destruct H as [-> _]. nia.
Qed.
Lemma dceil_bracket a c : 0 <= a -> dceil a = Some c -> a <= c < a + P /\ c mod P = 0.
Proof.
  intros Ha H. unfold dceil in H. apply chk_some in H. destruct H as [-> _].
  rewrite Z.quot_div_nonneg, Z.rem_mod_nonneg by (unfold P; lia).
  destruct (0 <? a mod P) eqn:E; unfold P in *; split; try lia.
Qed.

(* ---- the next-price functions move the price in the pool's favour ---- *)
(* quote in, price up: never further than the exact sp + amt/liq *)
Theorem next_quote_in_down_le sp liq amt n :
  0 <= amt -> 0 < liq -> next_sqrt_from_quote_in_down sp liq amt = Some n ->
  sp <= n /\ (n - sp) * liq <= amt * P.
Proof.
  intros Ha Hl H. unfold next_sqrt_from_quote_in_down in H.
  destruct (dquoT amt liq) as [q|] eqn:Eq; cbn [obind] in H; [|discriminate].
  apply dadd_some in H. subst n. pose proof (dquoT_bracket _ _ _ Ha Hl Eq) as B.
  assert (0 <= q) by (unfold P in *; nia). split; [lia|]. replace (q + sp - sp) with q by lia. lia.
Qed.
(* quote out, price down: at least as far as the exact sp - amt/liq *)
Theorem next_quote_out_down_ge sp liq amt n :
  0 <= amt -> 0 < liq -> next_sqrt_from_quote_out_down sp liq amt = Some n ->
  n <= sp /\ amt * P <= (sp - n) * liq < amt * P + liq.
Proof.
  intros Ha Hl H. unfold next_sqrt_from_quote_out_down in H.
  destruct (dquoU amt liq) as [q|] eqn:Eq; cbn [obind] in H; [|discriminate].
  apply dsub_some in H. subst n. pose proof (dquoU_bracket _ _ _ Ha Hl Eq) as B.
  assert (0 <= q) by (unfold P in *; nia). split; [lia|]. replace (sp - (sp - q)) with q by lia. lia.
Qed.
(* base in, price down: never below the exact liq*sp/(liq + amt*sp) *)
Lemma next_base_in_up_raw_ge sp liq amt n :
  0 <= amt -> 0 < sp -> 0 < liq -> next_sqrt_from_base_in_up_raw sp liq amt = Some n ->
  liq * sp * P <= n * (liq * P + amt * sp).
Proof.
  intros Ha Hs Hl H. unfold next_sqrt_from_base_in_up_raw in H.
  destruct (dmulT amt sp) as [pr|] eqn:E1; cbn [obind] in H; [|discriminate].
  destruct (dadd pr liq) as [den|] eqn:E2; cbn [obind] in H; [|discriminate].
  destruct (dmulU liq sp) as [num|] eqn:E3; cbn [obind] in H; [|discriminate].
  apply dadd_some in E2. subst den.
  pose proof (dmulT_bracket _ _ _ Ha (Z.lt_le_incl _ _ Hs) E1) as B1.
  pose proof (dmulU_bracket _ _ _ (Z.lt_le_incl _ _ Hl) (Z.lt_le_incl _ _ Hs) E3) as B3.
  assert (Hpr : 0 <= pr) by (unfold P in *; nia).
  assert (Hnum : 0 <= num) by (unfold P in *; nia).
  pose proof (dquoU_bracket num (pr + liq) n Hnum ltac:(lia) H) as B4.
  (* n*(pr+liq) >= num*P >= liq*sp ; and pr*P <= amt*sp *)
  assert (n * (pr + liq) * P >= liq * sp * P) by (unfold P in *; nia).
  assert (0 <= n) by (unfold P in *; nia).
  unfold P in *. nia.
Qed.
(* the capped result is still at least the exact price, and never above the current one *)
Theorem next_base_in_up_ge sp liq amt n :
  0 <= amt -> 0 < sp -> 0 < liq -> next_sqrt_from_base_in_up sp liq amt = Some n ->
  liq * sp * P <= n * (liq * P + amt * sp) /\ n <= sp.
Proof.
  intros Ha Hs Hl H. unfold next_sqrt_from_base_in_up in H.
  destruct (Z.eqb_spec amt 0) as [->|Hz].
  - injection H as <-. split; [nia|lia].
  - destruct (next_sqrt_from_base_in_up_raw sp liq amt) as [r|] eqn:Er; cbn [obind] in H; [|discriminate].
    pose proof (next_base_in_up_raw_ge _ _ _ _ Ha Hs Hl Er) as Hr.
    injection H as <-. destruct (sp <? r) eqn:Ec.
    + split; [unfold P in *; nia|lia].
    + split; [exact Hr|lia].
Qed.
(* as found: 1.89 units of base into liquidity 1.3e21 at sqrt price 1.8e-11 "moved" the price UP by
   one ulp (and the step paid out liquidity x ulp = 1323 units of quote for it) *)
Example next_base_in_overshoot_witness :
  next_sqrt_from_base_in_up_raw 18131478 1323027827718843346121535534668354600753 1889203203462104181 = Some 18131479 /\
  next_sqrt_from_base_in_up 18131478 1323027827718843346121535534668354600753 1889203203462104181 = Some 18131478.
Proof. split; vm_compute; reflexivity. Qed.
(* base out, price up: at least the exact liq*sp/(liq - amt*sp), whenever that is defined *)
Theorem next_base_out_up_ge sp liq amt n :
  0 <= amt -> 0 < sp -> 0 < liq -> amt * sp < liq * P ->
  next_sqrt_from_base_out_up sp liq amt = Some n ->
  liq * sp * P <= n * (liq * P - amt * sp).
Proof.
  intros Ha Hs Hl Hdef H. unfold next_sqrt_from_base_out_up in H.
  destruct (Z.eqb_spec amt 0) as [->|Hz].
  - injection H as <-. unfold P. nia.
  - destruct (dmulU sp amt) as [pr|] eqn:E1; cbn [obind] in H; [|discriminate].
    destruct (dsub liq pr) as [den|] eqn:E2; cbn [obind] in H; [|discriminate].
    destruct (dmulU liq sp) as [num|] eqn:E3; cbn [obind] in H; [|discriminate].
    apply dsub_some in E2. subst den.
    pose proof (dmulU_bracket _ _ _ (Z.lt_le_incl _ _ Hs) Ha E1) as B1.
    pose proof (dmulU_bracket _ _ _ (Z.lt_le_incl _ _ Hl) (Z.lt_le_incl _ _ Hs) E3) as B3.
    assert (Hnum : 0 <= num) by (unfold P in *; nia).
    assert (Hle : pr <= liq) by (unfold P in *; nia).
    destruct (Z.eq_dec (liq - pr) 0) as [Ez|Enz].
    + unfold dquoU in H. rewrite Ez in H. discriminate.
    + pose proof (dquoU_bracket num (liq - pr) n Hnum ltac:(lia) H) as B4.
      assert (0 <= n) by (unfold P in *; nia).
      assert (n * (liq - pr) * P >= liq * sp * P) by (unfold P in *; nia).
      unfold P in *. nia.
Qed.

(* ---- fee: at least rate x gross input ---- *)
Theorem fee_ge_rate fee a f c :
  0 <= fee < P -> 0 <= a -> fee_over_one_minus_fee fee = Some f -> fee_charge_from_in a f = Some c ->
  a * fee <= c * (P - fee) /\ fee * (a + c) <= c * P.
Proof.
  intros Hf Ha E1 E2. unfold fee_over_one_minus_fee in E1.
  destruct (dsub P fee) as [om|] eqn:Eo; cbn [obind] in E1; [|discriminate].
  apply dsub_some in Eo. subst om.
  pose proof (dquoU_bracket fee (P - fee) f ltac:(lia) ltac:(lia) E1) as B1.
  assert (Hf0 : 0 <= f) by (unfold P in *; nia).
  unfold fee_charge_from_in in E2. pose proof (dmulU_bracket _ _ _ Ha Hf0 E2) as B2.
  assert (H1 : a * fee * P <= a * f * (P - fee)) by (unfold P in *; nia).
  assert (H2 : a * f * (P - fee) <= c * P * (P - fee)) by (unfold P in *; nia).
  split; unfold P in *; nia.
Qed.

(* ---- amounts: quote side is within half an ulp of exact, input sides are rounded up to whole units ---- *)
Theorem quote_delta_half_ulp liq sa sb r :
  calc_amount_quote_delta liq sa sb false = Some r -> 2 * Z.abs (r * P - Z.abs (sb - sa) * liq) <= P.
Proof.
  unfold calc_amount_quote_delta. intros H.
  destruct (dsub sb sa) as [d|] eqn:Ed; cbn [obind] in H; [|discriminate].
  apply dsub_some in Ed. subst d.
  destruct (dmul (Z.abs (sb - sa)) liq) as [m|] eqn:Em; cbn [obind] in H; [|discriminate].
  injection H as <-. apply dmul_some in Em. subst m.
  pose proof (chop_round_bracket (Z.abs (sb - sa) * liq)). unfold P, HALF in *. lia.
Qed.
Theorem quote_delta_roundup liq sa sb r : 0 <= liq ->
  calc_amount_quote_delta liq sa sb true = Some r ->
  Z.abs (sb - sa) * liq - HALF <= r * P /\ r mod P = 0 /\ r * P < Z.abs (sb - sa) * liq + HALF + P * P.
Proof.
  unfold calc_amount_quote_delta. intros Hl H.
  destruct (dsub sb sa) as [d|] eqn:Ed; cbn [obind] in H; [|discriminate].
  apply dsub_some in Ed. subst d.
  destruct (dmul (Z.abs (sb - sa)) liq) as [m|] eqn:Em; cbn [obind] in H; [|discriminate].
  pose proof (dmul_nonneg _ _ _ (Z.abs_nonneg _) Hl Em) as Hm.
  apply dmul_some in Em.
  destruct (dceil_bracket _ _ Hm H) as [B1 B2].
  pose proof (chop_round_bracket (Z.abs (sb - sa) * liq)) as B3. rewrite <- Em in B3.
  unfold P, HALF in *. repeat split; lia.
Qed.

(* ---- final amounts: Ceil for the input, Truncate for the output ---- *)
Theorem final_in_ceil used c : 0 <= used -> dceil used = Some c -> used <= dtrunc_int c * P /\ dtrunc_int c * P < used + P.
Proof.
  intros Hu H. destruct (dceil_bracket _ _ Hu H) as [B1 B2]. unfold dtrunc_int.
  rewrite Z.quot_div_nonneg by (unfold P; lia). unfold P in *. lia.
Qed.
Theorem final_out_trunc calc : 0 <= calc -> dtrunc_int calc * P <= calc < dtrunc_int calc * P + P.
Proof. apply dtrunc_int_bracket. Qed.

(* ---- a step that does not reach its target never charges more than what is left ----
   The amount consumed by such a step is rounded up to a whole unit and then capped at the
   remaining amount, so the fee charge [remaining - amount] is defined and non-negative: the
   explicit panic "fee rate charge must be non-negative" of the swap helper cannot fire.
   (As found, without the cap, it fired whenever a step left less than one unit to spend.) *)
Theorem fee_charge_not_reached_defined a rem fee : 0 <= fee -> 0 <= rem -> in_range rem = true -> 0 <= a ->
  exists fc, fee_charge_out_given_in false (if rem <? a then rem else a) rem fee = Some fc /\
             0 <= fc /\ (if rem <? a then rem else a) + fc <= rem.
Proof.
  intros Hf Hr Hin Ha. unfold fee_charge_out_given_in.
  destruct (fee =? 0) eqn:E0; [exists 0; split; [reflexivity|]; destruct (rem <? a) eqn:E; lia|].
  destruct (fee <? 0) eqn:E1; [lia|].
  set (x := if rem <? a then rem else a).
  assert (Hx : 0 <= x <= rem) by (unfold x; destruct (rem <? a) eqn:E; lia).
  assert (Hs : dsub rem x = Some (rem - x)).
  { unfold dsub, chk. assert (in_range (rem - x) = true) as ->; [|reflexivity].
    unfold in_range in *. lia. }
  rewrite Hs. cbn [obind]. destruct (rem - x <? 0) eqn:E2; [lia|].
  exists (rem - x). split; [reflexivity|lia].
Qed.
(* as found: one unit rounded up against a remainder below one unit panics *)
Example fee_charge_uncapped_panics : fee_charge_out_given_in false P 292929292928101474 10000000000000000 = None.
Proof. vm_compute. reflexivity. Qed.
