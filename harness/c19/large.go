package c19

import (
	"fmt"
	"time"

	sdkmath "cosmossdk.io/math"
	sdk "github.com/cosmos/cosmos-sdk/types"

	datypes "github.com/sunriselayer/sunrise/x/da/types"
	litypes "github.com/sunriselayer/sunrise/x/liquidityincentive/types"
	lptypes "github.com/sunriselayer/sunrise/x/liquiditypool/types"
	sctypes "github.com/sunriselayer/sunrise/x/shareclass/types"
	swaptypes "github.com/sunriselayer/sunrise/x/swap/types"

	"verifharness/apph"
	"verifharness/emit"
)

// Sizes of the large corpus state: every collection of every module holds more entries than any
// default page limit (sdk query.DefaultLimit = 100); the cheap ones hold more than 1000, so that
// an export or import that pages, truncates, caps or batches shows up as missing entries.
const (
	largeN = 130
	hugeN  = 1100
)

// largeHistory populates every store prefix of the eight modules through the keepers' setters
// (going through messages would take minutes): a few real pools/positions first, then bulk.
func largeHistory(h *apph.H, r *emit.Rand) (log []string, err error) {
	log, err = history(h, r, 3)
	if err != nil {
		return nil, err
	}
	ctx := h.Ctx()
	fail := func(what string, e error) error { return fmt.Errorf("large state: %s: %w", what, e) }
	addr := func(tag string, i int) sdk.AccAddress {
		b := make([]byte, 20)
		copy(b, []byte(fmt.Sprintf("%s%07d", tag, i)))
		b[19] = byte(r.Intn(256))
		return sdk.AccAddress(b)
	}
	future := h.Time.Add(200000 * time.Second)
	dc := func(d string, n int) sdk.DecCoins {
		return sdk.NewDecCoins(sdk.NewDecCoinFromDec(d, sdkmath.LegacyNewDecWithPrec(int64(1+n), 6)))
	}

	// ---- liquiditypool
	lp := h.App.LiquiditypoolKeeper
	pc, e := lp.GetPoolCount(ctx)
	if e != nil {
		return nil, fail("pool count", e)
	}
	for i := 0; i < largeN; i++ {
		id := pc + uint64(i)
		if e := lp.SetPool(ctx, lptypes.Pool{Id: id, DenomBase: "uatom", DenomQuote: "uusdc", FeeRate: "0.010000000000000000",
			TickParams: lptypes.TickParams{PriceRatio: "1.000100000000000000", BaseOffset: "0.000000000000000000"},
			CurrentTick: int64(i), CurrentTickLiquidity: "0.000000000000000000", CurrentSqrtPrice: "1.000000000000000000"}); e != nil {
			return nil, fail("pool", e)
		}
		if e := lp.SetAccumulator(ctx, lptypes.AccumulatorObject{Name: lptypes.KeyFeePoolAccumulator(id), AccumValue: dc("uusdc", i), TotalShares: "5.000000000000000000"}); e != nil {
			return nil, fail("accumulator", e)
		}
	}
	if e := lp.SetPoolCount(ctx, pc+largeN); e != nil {
		return nil, fail("pool count", e)
	}
	qc, e := lp.GetPositionCount(ctx)
	if e != nil {
		return nil, fail("position count", e)
	}
	for i := 0; i < hugeN; i++ {
		id := qc + uint64(i)
		pool := pc + uint64(i%largeN)
		if e := lp.SetPosition(ctx, lptypes.Position{Id: id, Address: addr("lp", i%300).String(), PoolId: pool, LowerTick: -int64(i + 1), UpperTick: int64(i + 1),
			Liquidity: sdkmath.LegacyNewDec(int64(1000 + i)).String()}); e != nil {
			return nil, fail("position", e)
		}
		if e := lp.SetAccumulatorPosition(ctx, lptypes.KeyFeePoolAccumulator(pool), dc("uusdc", i), lptypes.KeyFeePositionAccumulator(id),
			sdkmath.LegacyNewDec(int64(1000+i)), sdk.NewDecCoins()); e != nil {
			return nil, fail("accumulator position", e)
		}
		sign := int64(1)
		if i%2 == 1 {
			sign = -1
		}
		lp.SetTickInfo(ctx, lptypes.TickInfo{PoolId: pool, TickIndex: sign * int64(i+1), LiquidityGross: "7.000000000000000000", LiquidityNet: "7.000000000000000000", FeeGrowth: dc("uusdc", i)})
	}
	if e := lp.SetPositionCount(ctx, qc+hugeN); e != nil {
		return nil, fail("position count", e)
	}

	// ---- liquidityincentive
	li := h.App.LiquidityincentiveKeeper
	ec, e := li.GetEpochCount(ctx)
	if e != nil {
		return nil, fail("epoch count", e)
	}
	for i := 0; i < largeN; i++ {
		id := ec + uint64(i)
		if e := li.SetEpoch(ctx, litypes.Epoch{Id: id, StartBlock: int64(10 * i), EndBlock: int64(10*i + 10),
			Gauges: []litypes.Gauge{{PreviousEpochId: id, PoolId: uint64(i % 7), Count: sdkmath.NewInt(int64(i))}}}); e != nil {
			return nil, fail("epoch", e)
		}
	}
	if e := li.SetEpochCount(ctx, ec+largeN); e != nil {
		return nil, fail("epoch count", e)
	}
	for i := 0; i < hugeN; i++ {
		if e := li.SetGauge(ctx, litypes.Gauge{PreviousEpochId: ec + uint64(i%largeN), PoolId: uint64(i / largeN), Count: sdkmath.NewInt(int64(1 + i))}); e != nil {
			return nil, fail("gauge", e)
		}
		if e := li.SetVote(ctx, litypes.Vote{Sender: addr("vt", i).String(), PoolWeights: []litypes.PoolWeight{{PoolId: uint64(i % 5), Weight: "0.500000000000000000"}}}); e != nil {
			return nil, fail("vote", e)
		}
	}

	// ---- swap
	sw := h.App.SwapKeeper
	for i := 0; i < hugeN; i++ {
		idx := swaptypes.PacketIndex{PortId: "transfer", ChannelId: fmt.Sprintf("channel-%d", i%9), Sequence: uint64(1000 + i)}
		if i < largeN {
			if e := sw.SetIncomingInFlightPacket(ctx, swaptypes.IncomingInFlightPacket{Index: idx, Data: []byte(fmt.Sprintf("packet-%d", i)), SrcPortId: "transfer", SrcChannelId: "channel-77",
				TimeoutHeight: "0-100", TimeoutTimestamp: uint64(future.UnixNano()), InterfaceFee: sdkmath.NewInt(int64(i))}); e != nil {
				return nil, fail("incoming packet", e)
			}
		}
		if e := sw.SetOutgoingInFlightPacket(ctx, swaptypes.OutgoingInFlightPacket{Index: swaptypes.PacketIndex{PortId: "transfer", ChannelId: "channel-1", Sequence: uint64(5000 + i)},
			AckWaitingIndex: idx, RetriesRemaining: int32(i % 3)}); e != nil {
			return nil, fail("outgoing packet", e)
		}
	}

	// ---- da
	da := h.App.DaKeeper
	for i := 0; i < hugeN; i++ {
		uri := fmt.Sprintf("ipfs://bulk-%04d", i%largeN)
		if i < largeN {
			if e := da.SetPublishedData(ctx, datypes.PublishedData{MetadataUri: uri, ParityShardCount: 2, ShardDoubleHashes: [][]byte{[]byte(fmt.Sprintf("%032d", i))},
				Timestamp: future.Add(time.Duration(i) * time.Second), Status: datypes.Status(1 + i%4), Publisher: addr("pb", i).String(),
				PublishDataCollateral: sdk.NewCoins(sdk.NewInt64Coin("urise", int64(1+i))), PublishedTimestamp: h.Time}); e != nil {
				return nil, fail("published data", e)
			}
			if e := da.SetFaultCounter(ctx, sdk.ValAddress(addr("fv", i)), uint64(1+i)); e != nil {
				return nil, fail("fault counter", e)
			}
			if e := da.SetProofDeputy(ctx, sdk.ValAddress(addr("dv", i)), addr("dp", i)); e != nil {
				return nil, fail("proof deputy", e)
			}
		}
		if e := da.SetProof(ctx, datypes.Proof{MetadataUri: uri, Sender: addr("pr", i).String(), Indices: []int64{int64(i % 3)}, Proofs: [][]byte{[]byte(fmt.Sprintf("proof-%d", i))}}); e != nil {
			return nil, fail("proof", e)
		}
		if e := da.SetInvalidity(ctx, datypes.Invalidity{MetadataUri: uri, Sender: addr("iv", i).String(), Indices: []int64{int64(i % 3)}}); e != nil {
			return nil, fail("invalidity", e)
		}
	}
	if e := da.SetChallengeCounter(ctx, 4242); e != nil {
		return nil, fail("challenge counter", e)
	}

	// ---- shareclass
	sc := h.App.ShareclassKeeper
	for i := 0; i < hugeN; i++ {
		if _, e := sc.AppendUnbonding(ctx, sctypes.Unbonding{Address: addr("ub", i%400).String(), CompletionTime: future.Add(time.Duration(i%50) * time.Second), Amount: sdk.NewInt64Coin("urise", int64(1+i))}); e != nil {
			return nil, fail("unbonding", e)
		}
		if i < largeN {
			d, _ := sdkmath.NewDecFromString(fmt.Sprintf("1.%04d", 1+i))
			v := sdk.ValAddress(addr("sv", i))
			if e := sc.SetRewardMultiplier(ctx, v, "urise", d); e != nil {
				return nil, fail("reward multiplier", e)
			}
			if e := sc.SetUserLastRewardMultiplier(ctx, addr("su", i), v, "urise", d); e != nil {
				return nil, fail("user's last reward multiplier", e)
			}
			if e := sc.SetLastRewardHandlingTime(ctx, v, h.Time.Add(-time.Duration(i)*time.Second)); e != nil {
				return nil, fail("last reward handling time", e)
			}
		}
	}

	// ---- selfdelegation
	sd := h.App.SelfdelegationKeeper
	for i := 0; i < hugeN; i++ {
		lock := make([]byte, 32)
		copy(lock, []byte(fmt.Sprintf("lockup-account-%09d", i)))
		if e := sd.LockupAccounts.Set(ctx, lock, addr("ow", i)); e != nil {
			return nil, fail("lockup account", e)
		}
		prox := make([]byte, 32)
		copy(prox, []byte(fmt.Sprintf("proxy-account-%09d", i)))
		if e := sd.SelfDelegationProxies.Set(ctx, addr("ow", i), prox); e != nil {
			return nil, fail("self-delegation proxy", e)
		}
	}
	log = append(log, fmt.Sprintf("bulk: every collection >= %d entries through the keepers' setters, the cheap ones %d", largeN, hugeN))
	return log, nil
}
