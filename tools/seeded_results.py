#!/usr/bin/env python3
"""Write seeded/<name>/meta.json and seeded/RESULTS.md.

Inputs per seeded change (directory seeded/<name>/, <name> = Cnn for round 1, Cnn-rK for round K):
  meta.agent.json  what the authoring sub-agent delivered (summary, breaks, needs, what it ran)
  confirm.log      the main session's confirmation run where kept (rounds 2+; round 1 was confirmed
                   with tools/confirm_mutant.sh, log not kept)
  reverify.json    written by tools/reverify_seeded.sh: the check as it is now, run against a fresh
                   worktree of /repo HEAD with patch.diff applied
and the table FIRST below: what the check of that moment did when it first met the change
(filled in by the main session), and what was strengthened when it missed."""
import json, os, re
ROOT = os.path.dirname(os.path.dirname(os.path.abspath(__file__)))
S = os.path.join(ROOT, "seeded")

# first encounter: "caught" (monitor failure = failing input), "corr" (caught as a broken
# correspondence/proof only: VIOLATION ... no-failing-input-found), "missed"; then what was done
FIRST = json.load(open(os.path.join(S, "first_run.json")))

CONFIRM = ("confirmed by the main session in the authoring scratch worktree: `go build ./...` ok; the repository's tests "
           "(`go test ./x/... ./app/...`, demonstration skipped) pass with the change; the demonstration fails with the change and "
           "passes after `git checkout` of the changed source files")
rows = []
for name in sorted(os.listdir(S)):
    d = os.path.join(S, name)
    if not (os.path.isdir(d) and re.match(r"C\d\d", name)):
        continue
    agent = json.load(open(os.path.join(d, "meta.agent.json")))
    first = FIRST.get(name, {})
    rv = json.load(open(os.path.join(d, "reverify.json"))) if os.path.exists(os.path.join(d, "reverify.json")) else {}
    rnd = int(name.split("-r")[1]) if "-r" in name else 1
    meta = {
        "property": name[:3], "round": rnd,
        "summary": agent.get("summary"), "breaks": agent.get("breaks"), "needs": agent.get("needs"),
        "authoring_agent_ran": agent.get("ran") or agent.get("authoring_agent_ran"),
        "confirmed_by_main_session": CONFIRM + (" (log: confirm.log)" if os.path.exists(os.path.join(d, "confirm.log")) else ""),
        "first_run": first.get("result", "?"), "first_run_detail": first.get("detail", ""),
        "strengthened": first.get("strengthened", ""),
        "now": rv.get("result", "not re-run"), "now_summary": rv.get("summary", ""), "now_violation": rv.get("violation", ""),
        "now_repo_head": rv.get("repo_head", ""), "now_command": rv.get("command", ""),
    }
    mp = os.path.join(d, "meta.json")
    if rnd >= 8 and os.path.exists(mp):  # round 8 on: tools/round8.sh records what was actually run per change
        meta["confirmed_by_main_session"] = json.load(open(mp)).get("confirmed_by_main_session", meta["confirmed_by_main_session"])
    json.dump(meta, open(mp, "w"), indent=1)
    rows.append((name, meta))

with open(os.path.join(S, "RESULTS.md"), "w") as f:
    f.write("# Seeded changes and what the checks did with them\n\n"
            "Each change was written by a fresh sub-agent that saw only the property text and a scratch worktree of /repo "
            "(rounds 2+ were also told what earlier rounds had changed, to force different ones). `first run` = the check as it was "
            "when it first met the change; `now` = the check as committed, re-run by tools/reverify_seeded.sh on a fresh worktree of "
            "/repo HEAD with the patch applied (`caught` = a monitor fails: concrete failing input; `corr` = caught only as a broken "
            "correspondence/proof, reported with no-failing-input-found).\n\n")
    tot = {}
    for name, m in rows:
        k = (m["round"], m["first_run"]); tot[k] = tot.get(k, 0) + 1
    f.write("First-run totals: " + "; ".join(f"round {r}: " + ", ".join(f"{v} {k}" for (rr, k), v in sorted(tot.items()) if rr == r) for r in sorted({r for r, _ in tot})) + "\n\n")
    f.write("| Change | First run | Now | What was changed in the repository | Strengthening after a miss |\n|---|---|---|---|---|\n")
    for name, m in rows:
        summ = (m["summary"] or "")[:220].replace("\n", " ").replace("|", "/")
        f.write(f"| {name} | {m['first_run']} | {m['now']} | {summ} | {(m['strengthened'] or '').replace('|','/')} |\n")
print(len(rows), "written")
