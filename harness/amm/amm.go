// Package amm drives x/liquiditypool of the real application with generated histories and
// emits, for every operation, the projection of the module + bank state before and after it
// as a Coq term of Amm/Pool.v's [amm] record (per-step refinement). Shared by C02/C04/C05/C06.
package amm

import (
	"fmt"
	"math/big"
	"sort"
	"strconv"
	"strings"

	sdkmath "cosmossdk.io/math"
	sdk "github.com/cosmos/cosmos-sdk/types"

	lpkeeper "github.com/sunriselayer/sunrise/x/liquiditypool/keeper"
	lptypes "github.com/sunriselayer/sunrise/x/liquiditypool/types"

	"verifharness/apph"
	"verifharness/emit"
)

var AllDenoms = []string{"urise", "uusdc", "uatom", "uosmo"}

// PoolInfo is what the harness knows about a pool it created.
type PoolInfo struct {
	ID     uint64
	Denoms []string // index -> denom: 0 base, 1 quote, 2,3 others
	Ratio  string
	Offset string
	Fee    string
	// Centre is the tick around which the pool's first position (and so its price) is placed:
	// 0 for a price near 1, far from 0 for a price many orders of magnitude away from 1
	Centre int64
}

type World struct {
	H     *apph.H
	K     lpkeeper.Keeper
	Srv   lptypes.MsgServer
	Pools []PoolInfo
	R     *emit.Rand
}

func NewWorld(seed int64) *World {
	h := apph.New(apph.Options{NumAccounts: 4})
	return &World{H: h, K: h.App.LiquiditypoolKeeper, Srv: lpkeeper.NewMsgServerImpl(h.App.LiquiditypoolKeeper), R: emit.NewRand(seed)}
}

func raw(s string) *big.Int {
	if s == "" {
		return big.NewInt(0)
	}
	d, err := sdkmath.LegacyNewDecFromStr(s)
	if err != nil {
		panic(fmt.Sprintf("bad dec %q: %v", s, err))
	}
	return d.BigInt()
}

func decRaw(d sdkmath.LegacyDec) *big.Int {
	if d.IsNil() {
		return big.NewInt(0)
	}
	return d.BigInt()
}

func (w *World) userIndex(addr string) int {
	for i, a := range w.H.Accts {
		if a.Addr.String() == addr {
			return i
		}
	}
	return 99
}

func (p PoolInfo) denomIdx(d string) int {
	for i, x := range p.Denoms {
		if x == d {
			return i
		}
	}
	return -1
}

func (p PoolInfo) decVec(dc sdk.DecCoins) string {
	v := make([]string, 4)
	for i := range v {
		v[i] = "0"
	}
	for _, c := range dc {
		i := p.denomIdx(c.Denom)
		if i < 0 {
			panic("unexpected denom in DecCoins: " + c.Denom)
		}
		v[i] = emit.Z(decRaw(c.Amount))
	}
	return emit.List(v)
}

func (p PoolInfo) coinVec(cs sdk.Coins) []string {
	v := make([]string, 4)
	for i := range v {
		v[i] = "0"
	}
	for _, c := range cs {
		i := p.denomIdx(c.Denom)
		if i < 0 {
			panic("unexpected denom in Coins: " + c.Denom)
		}
		v[i] = emit.Z(c.Amount.BigInt())
	}
	return v
}

func (w *World) balVec(ctx sdk.Context, p PoolInfo, addr sdk.AccAddress) string {
	v := make([]string, 4)
	for i, d := range p.Denoms {
		v[i] = emit.Z(w.H.Bal(ctx, addr, d).BigInt())
	}
	return emit.List(v)
}

// Dump renders the [amm] record for pool p with `user` as the acting account.
func (w *World) Dump(ctx sdk.Context, p PoolInfo, user sdk.AccAddress) string {
	pool, found, err := w.K.GetPool(ctx, p.ID)
	if err != nil || !found {
		panic(fmt.Sprintf("pool %d: %v %v", p.ID, found, err))
	}
	poolT := fmt.Sprintf("{| p_fee := %s; p_tp := {| price_ratio := %s; base_offset := %s |}; p_tick := %s; p_liq := %s; p_sqrt := %s |}",
		emit.Z(raw(pool.FeeRate)), emit.Z(raw(pool.TickParams.PriceRatio)), emit.Z(raw(pool.TickParams.BaseOffset)),
		emit.ZI(pool.CurrentTick), emit.Z(raw(pool.CurrentTickLiquidity)), emit.Z(raw(pool.CurrentSqrtPrice)))
	poss, err := w.K.GetPositionsByPool(ctx, p.ID)
	if err != nil {
		panic(err)
	}
	sort.Slice(poss, func(i, j int) bool { return poss[i].Id < poss[j].Id })
	var posT []string
	for _, q := range poss {
		posT = append(posT, fmt.Sprintf("{| pos_id := %d; pos_owner := %d; pos_lower := %s; pos_upper := %s; pos_liq := %s |}",
			q.Id, w.userIndex(q.Address), emit.ZI(q.LowerTick), emit.ZI(q.UpperTick), emit.Z(raw(q.Liquidity))))
	}
	// ticks in store iteration order (the model keeps them in ascending numeric order)
	var tickT []string
	for _, t := range w.K.GetAllInitializedTicksForPool(ctx, p.ID) {
		tickT = append(tickT, fmt.Sprintf("{| t_index := %s; t_gross := %s; t_net := %s; t_growth := %s |}",
			emit.ZI(t.TickIndex), emit.Z(raw(t.LiquidityGross)), emit.Z(raw(t.LiquidityNet)), p.decVec(t.FeeGrowth)))
	}
	acc, err := w.K.GetFeeAccumulator(ctx, p.ID)
	if err != nil {
		panic(err)
	}
	type apT struct {
		id int64
		s  string
	}
	var aps []apT
	for _, ap := range w.K.GetAllAccumulatorPositions(ctx) {
		if ap.Name != acc.Name {
			continue
		}
		parts := strings.Split(ap.Index, "|")
		id, err := strconv.ParseInt(parts[len(parts)-1], 10, 64)
		if err != nil {
			panic("bad accumulator position index " + ap.Index)
		}
		aps = append(aps, apT{id, fmt.Sprintf("{| ap_id := %d; ap_shares := %s; ap_value := %s; ap_unclaimed := %s |}",
			id, emit.Z(raw(ap.NumShares)), p.decVec(ap.AccumValuePerShare), p.decVec(ap.UnclaimedRewardsTotal))})
	}
	sort.Slice(aps, func(i, j int) bool { return aps[i].id < aps[j].id })
	var apS []string
	for _, a := range aps {
		apS = append(apS, a.s)
	}
	next, err := w.K.GetPositionCount(ctx)
	if err != nil {
		panic(err)
	}
	return fmt.Sprintf("{| a_pool := %s; a_positions := %s; a_ticks := %s; a_acc_value := %s; a_acc_shares := %s; a_acc_pos := %s; a_next_id := %d; a_bal_pool := %s; a_bal_fee := %s; a_bal_user := %s |}",
		poolT, emit.List(posT), emit.List(tickT), p.decVec(acc.AccumValue), emit.Z(raw(acc.TotalShares)), emit.List(apS), next,
		w.balVec(ctx, p, lptypes.NewPoolAddress(p.ID)), w.balVec(ctx, p, lptypes.NewPoolFeesAddress(p.ID)), w.balVec(ctx, p, user))
}

// CreatePool creates a pool through the real message server.
func (w *World) CreatePool(base, quote, fee, ratio, offset string) (PoolInfo, error) {
	return w.CreatePoolAt(base, quote, fee, ratio, offset, 0)
}

// CreatePoolAt creates a pool whose generated first position is centred on tick centre.
func (w *World) CreatePoolAt(base, quote, fee, ratio, offset string, centre int64) (PoolInfo, error) {
	w.discardedTwin(base, quote, ratio, centre)
	ctx := w.H.Ctx()
	var id uint64
	err := apph.Tx(ctx, func(ctx sdk.Context) error {
		res, err := w.Srv.CreatePool(ctx, &lptypes.MsgCreatePool{Authority: w.H.Accts[0].Addr.String(), DenomBase: base, DenomQuote: quote, FeeRate: fee, PriceRatio: ratio, BaseOffset: offset})
		if err == nil {
			id = res.Id
		}
		return err
	})
	if err != nil {
		return PoolInfo{}, err
	}
	den := []string{base, quote}
	for _, d := range AllDenoms {
		if d != base && d != quote {
			den = append(den, d)
		}
	}
	p := PoolInfo{ID: id, Denoms: den[:4], Ratio: ratio, Offset: offset, Fee: fee, Centre: centre}
	w.Pools = append(w.Pools, p)
	return p, nil
}

// discardedTwin plays, in a cache context that is never written, what a rolled-back transaction or a
// gas simulation would do just before the real creation: it creates a pool with the same denoms on
// ANOTHER tick grid (it takes the id the real pool is about to get), opens positions on many ticks
// around the centre and swaps across all of them both ways. Nothing of it may survive: state is
// discarded, and any process-level memory keyed by pool id (a cache, a memoised conversion) would
// now be wrong for the real pool.
func (w *World) discardedTwin(base, quote, ratio string, centre int64) {
	c, _ := w.H.Ctx().CacheContext()
	r2, o2 := "1.01", "0.25"
	if ratio == "1.01" {
		r2, o2 = "1.002", "-0.25"
	}
	defer func() { recover() }()
	res, err := w.Srv.CreatePool(c, &lptypes.MsgCreatePool{Authority: w.H.Accts[0].Addr.String(), DenomBase: base, DenomQuote: quote, FeeRate: "0.003", PriceRatio: r2, BaseOffset: o2})
	if err != nil {
		return
	}
	tmp := PoolInfo{ID: res.Id, Denoms: []string{base, quote, base, quote}, Ratio: r2, Offset: o2, Fee: "0.003"}
	amt := new(big.Int).Exp(big.NewInt(10), big.NewInt(12), nil)
	for k := int64(1); k <= 64; k += 3 {
		_, _ = w.Exec(c, tmp, Op{Kind: "create", Sender: 0, Lower: centre - k, Upper: centre + k, Base: amt, Quote: amt, MinBase: big.NewInt(0), MinQuote: big.NewInt(0)})
		_, _ = w.Exec(c, tmp, Op{Kind: "create", Sender: 0, Lower: centre - k - 1, Upper: centre + k + 1, Base: amt, Quote: amt, MinBase: big.NewInt(0), MinQuote: big.NewInt(0)})
	}
	huge := new(big.Int).Exp(big.NewInt(10), big.NewInt(20), nil)
	for _, din := range []int{0, 1, 1, 0} {
		_, _ = w.Exec(c, tmp, Op{Kind: "swap", Sender: 1, ExactIn: true, DenomIn: din, Amount: huge})
	}
}

// Op is one generated operation on a pool.
type Op struct {
	Kind     string // create | increase | decrease | claim | swap | allocate
	Sender   int
	Lower    int64
	Upper    int64
	Base     *big.Int
	Quote    *big.Int
	MinBase  *big.Int
	MinQuote *big.Int
	Pid      uint64
	Pids     []uint64
	Liq      *big.Int // raw dec
	ExactIn  bool
	DenomIn  int
	Amount   *big.Int
	Coins    []*big.Int // allocate: per denom index
	Tag      string
}

func (o Op) Coq() string {
	switch o.Kind {
	case "create":
		return fmt.Sprintf("(OCreate %d %s %s %s %s %s %s)", o.Sender, emit.ZI(o.Lower), emit.ZI(o.Upper), emit.Z(o.Base), emit.Z(o.Quote), emit.Z(o.MinBase), emit.Z(o.MinQuote))
	case "increase":
		return fmt.Sprintf("(OIncrease %d %d %s %s %s %s)", o.Sender, o.Pid, emit.Z(o.Base), emit.Z(o.Quote), emit.Z(o.MinBase), emit.Z(o.MinQuote))
	case "decrease":
		return fmt.Sprintf("(ODecrease %d %d %s)", o.Sender, o.Pid, emit.Z(o.Liq))
	case "claim":
		ids := make([]string, len(o.Pids))
		for i, x := range o.Pids {
			ids[i] = fmt.Sprint(x)
		}
		return fmt.Sprintf("(OClaim %d %s)", o.Sender, emit.List(ids))
	case "swap":
		return fmt.Sprintf("(OSwap %s %d %d %s)", emit.Bool(o.ExactIn), o.DenomIn, 1-o.DenomIn, emit.Z(o.Amount))
	case "allocate":
		v := make([]string, 4)
		for i := range v {
			v[i] = emit.Z(o.Coins[i])
		}
		return fmt.Sprintf("(OAllocate %s)", emit.List(v))
	}
	panic("bad op kind " + o.Kind)
}

func (o Op) Info() map[string]any {
	m := map[string]any{"kind": o.Kind, "sender": o.Sender, "tag": o.Tag}
	switch o.Kind {
	case "create":
		m["lower"], m["upper"], m["base"], m["quote"] = o.Lower, o.Upper, o.Base.String(), o.Quote.String()
	case "increase":
		m["pid"], m["base"], m["quote"] = o.Pid, o.Base.String(), o.Quote.String()
	case "decrease":
		m["pid"], m["liquidity_raw"] = o.Pid, o.Liq.String()
	case "claim":
		m["pids"] = o.Pids
	case "swap":
		m["exact_in"], m["denom_in"], m["amount"] = o.ExactIn, o.DenomIn, o.Amount.String()
	case "allocate":
		c := []string{}
		for _, x := range o.Coins {
			c = append(c, x.String())
		}
		m["coins"] = c
	}
	return m
}

// errClass maps an error of the liquiditypool module to the model's error classes.
// Only the distinction ok / error / panic is compared for most errors; classes that matter
// to a property (unauthorized, insufficient funds) are kept.
func ErrClass(err error) string {
	if err == nil {
		return ""
	}
	s := err.Error()
	if strings.HasPrefix(s, "panic:") {
		return "Panic"
	}
	return "(Err 1)"
}

func legacyFromRaw(r *big.Int) sdkmath.LegacyDec {
	return sdkmath.LegacyNewDecFromBigIntWithPrec(r, 18)
}

// Exec runs op on pool p inside a transaction on ctx; returns the Coq result term.
func (w *World) Exec(ctx sdk.Context, p PoolInfo, o Op) (string, error) {
	sender := w.H.Accts[o.Sender%len(w.H.Accts)]
	var vals []string
	err := apph.Tx(ctx, func(ctx sdk.Context) error {
		switch o.Kind {
		case "create":
			res, err := w.Srv.CreatePosition(ctx, &lptypes.MsgCreatePosition{Sender: sender.Addr.String(), PoolId: p.ID, LowerTick: o.Lower, UpperTick: o.Upper,
				TokenBase: sdk.Coin{Denom: p.Denoms[0], Amount: sdkmath.NewIntFromBigInt(o.Base)}, TokenQuote: sdk.Coin{Denom: p.Denoms[1], Amount: sdkmath.NewIntFromBigInt(o.Quote)},
				MinAmountBase: sdkmath.NewIntFromBigInt(o.MinBase), MinAmountQuote: sdkmath.NewIntFromBigInt(o.MinQuote)})
			if err != nil {
				return err
			}
			vals = []string{fmt.Sprint(res.Id), emit.Z(res.AmountBase.BigInt()), emit.Z(res.AmountQuote.BigInt()), emit.Z(raw(res.Liquidity))}
		case "increase":
			res, err := w.Srv.IncreaseLiquidity(ctx, &lptypes.MsgIncreaseLiquidity{Sender: sender.Addr.String(), Id: o.Pid,
				AmountBase: sdkmath.NewIntFromBigInt(o.Base), AmountQuote: sdkmath.NewIntFromBigInt(o.Quote),
				MinAmountBase: sdkmath.NewIntFromBigInt(o.MinBase), MinAmountQuote: sdkmath.NewIntFromBigInt(o.MinQuote)})
			if err != nil {
				return err
			}
			vals = []string{fmt.Sprint(res.PositionId), emit.Z(res.AmountBase.BigInt()), emit.Z(res.AmountQuote.BigInt())}
		case "decrease":
			res, err := w.Srv.DecreaseLiquidity(ctx, &lptypes.MsgDecreaseLiquidity{Sender: sender.Addr.String(), Id: o.Pid, Liquidity: legacyFromRaw(o.Liq).String()})
			if err != nil {
				return err
			}
			vals = []string{emit.Z(res.AmountBase.BigInt()), emit.Z(res.AmountQuote.BigInt())}
		case "claim":
			res, err := w.Srv.ClaimRewards(ctx, &lptypes.MsgClaimRewards{Sender: sender.Addr.String(), PositionIds: o.Pids})
			if err != nil {
				return err
			}
			vals = p.coinVec(res.CollectedFees)
		case "swap":
			pool, found, err := w.K.GetPool(ctx, p.ID)
			if err != nil || !found {
				return fmt.Errorf("pool not found")
			}
			din, dout := p.Denoms[o.DenomIn], p.Denoms[1-o.DenomIn]
			if o.ExactIn {
				out, err := w.K.SwapExactAmountIn(ctx, sender.Addr, pool, sdk.Coin{Denom: din, Amount: sdkmath.NewIntFromBigInt(o.Amount)}, dout, true)
				if err != nil {
					return err
				}
				// amount in actually charged = balance delta; the keeper reports only out. The model
				// returns [in; out]: read the charged input from the emitted event-free API: recompute
				// from balances by the caller (see Step). Here: placeholder, patched by Step.
				vals = []string{"IN", emit.Z(out.BigInt())}
			} else {
				in, err := w.K.SwapExactAmountOut(ctx, sender.Addr, pool, sdk.Coin{Denom: dout, Amount: sdkmath.NewIntFromBigInt(o.Amount)}, din, true)
				if err != nil {
					return err
				}
				vals = []string{emit.Z(in.BigInt()), "OUT"}
			}
		case "allocate":
			var cs sdk.Coins
			for i, x := range o.Coins {
				if x.Sign() > 0 {
					cs = cs.Add(sdk.NewCoin(p.Denoms[i], sdkmath.NewIntFromBigInt(x)))
				}
			}
			if err := w.K.AllocateIncentive(ctx, p.ID, sender.Addr, cs); err != nil {
				return err
			}
			vals = []string{}
		default:
			return fmt.Errorf("bad op")
		}
		return nil
	})
	if err != nil {
		return ErrClass(err), err
	}
	return "(Ok " + emit.List(vals) + ")", nil
}

// Step executes op with pre/post dumps and returns the Coq case term
// "{| c_pre := ..; c_op := ..; c_res := ..; c_post := ..; c_must_ok := .. |}".
func (w *World) Step(ctx sdk.Context, p PoolInfo, o Op, mustOK bool) (term string, err error) {
	user := w.H.Accts[o.Sender%len(w.H.Accts)].Addr
	pre := w.Dump(ctx, p, user)
	inBefore := w.H.Bal(ctx, user, p.Denoms[o.DenomIn%2]).BigInt()
	outBefore := w.H.Bal(ctx, user, p.Denoms[1-o.DenomIn%2]).BigInt()
	res, err := w.Exec(ctx, p, o)
	if o.Kind == "swap" && err == nil {
		inAfter := w.H.Bal(ctx, user, p.Denoms[o.DenomIn]).BigInt()
		outAfter := w.H.Bal(ctx, user, p.Denoms[1-o.DenomIn]).BigInt()
		res = strings.Replace(res, "IN", emit.Z(new(big.Int).Sub(inBefore, inAfter)), 1)
		res = strings.Replace(res, "OUT", emit.Z(new(big.Int).Sub(outAfter, outBefore)), 1)
	}
	post := w.Dump(ctx, p, user)
	return fmt.Sprintf("{| c_pre := %s; c_op := %s; c_res := %s; c_post := %s; c_must_ok := %s |}", pre, o.Coq(), res, post, emit.Bool(mustOK)), err
}
