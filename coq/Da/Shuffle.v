(* Executable model of x/da/types/shards.go GetRandomIndicesFromSeed, generic in the random
   source: the model receives the stream [js] of values that rand.Shuffle's
   j := int(r.uint64n(uint64(i+1))) takes for i = n-1, n-2, ..., 1 (math/rand/v2, Go 1.23) and
   performs exactly the swaps arr[i], arr[j] = arr[j], arr[i].  The seed -> stream map
   (MiMC of the validator address, PCG) is an oracle: the harness replays the same generator
   with a recording swap function and hands the recorded stream to the model.
   [None] = Go panics (negative n: "invalid argument to Shuffle"; an index outside the slice;
   negative threshold: slice bounds out of range) or the stream ends before the loop does
   (then it is not the trace of a complete run).  No proofs in this file. *)
From Coq Require Import ZArith List Bool.
Import ListNotations.
Local Open Scope Z_scope.

Fixpoint upd (l : list Z) (i : nat) (v : Z) : list Z :=
  match l, i with
  | [], _ => []
  | _ :: tl, O => v :: tl
  | a :: tl, S i' => a :: upd tl i' v
  end.

(* arr[i], arr[j] = arr[j], arr[i] *)
Definition swap (l : list Z) (i j : nat) : option (list Z) :=
  match nth_error l i, nth_error l j with
  | Some a, Some b => Some (upd (upd l i b) j a)
  | _, _ => None
  end.

(* for i := n-1; i > 0; i-- { j := next draw; swap(i, j) }   -- called with i = n-1 *)
Fixpoint shuffle_loop (i : nat) (js : list Z) (l : list Z) : option (list Z) :=
  match i with
  | O => Some l
  | S i' =>
      match js with
      | [] => None
      | j :: js' =>
          if j <? 0 then None
          else match swap l i (Z.to_nat j) with
               | Some l' => shuffle_loop i' js' l'
               | None => None
               end
      end
  end.

(* GetRandomIndicesFromSeed(n, threshold, seed1, seed2) with the draws of that seed *)
Definition random_indices (n threshold : Z) (js : list Z) : option (list Z) :=
  let t := if n <? threshold then n else threshold in
  let arr := map Z.of_nat (seq 0 (Z.to_nat n)) in
  if n <? 0 then None
  else match shuffle_loop (Z.to_nat n - 1) js arr with
       | None => None
       | Some arr' => if t <? 0 then None else Some (firstn (Z.to_nat t) arr')
       end.

(* the values of i at which rand.Shuffle calls swap: n-1 downto 1 *)
Definition swap_is (n : Z) : list Z := map Z.of_nat (rev (seq 1 (Z.to_nat n - 1))).

(* contract of r.uint64n(i+1): the draw made at loop counter i lies in [0, i] *)
Fixpoint draws_ok (i : nat) (js : list Z) : Prop :=
  match i with
  | O => True
  | S i' => match js with
            | [] => False
            | j :: js' => 0 <= j <= Z.of_nat i /\ draws_ok i' js'
            end
  end.
