#!/bin/sh
# Regenerates coq/Gen/Msgs_gen.v from the Go sources in $VERIF_REPO (default /repo).
# Uses the same generated go.mod as the harness build (exact dependency versions of the
# repository; compiler output shared through the Go build cache).
set -e
HERE="$(cd "$(dirname "$0")" && pwd)"
ROOT="$(cd "$HERE/../../.." && pwd)"
REPO="${VERIF_REPO:-/repo}"
export VERIF_REPO="$REPO"
export GOFLAGS=-mod=mod GOPROXY=off GOSUMDB=off GOTOOLCHAIN=local GOWORK=off
mkdir -p "$ROOT/build" "$ROOT/coq/Gen"
H=$(python3 -c 'import hashlib,sys; print(hashlib.sha256(sys.argv[1].encode()).hexdigest()[:8])' "$REPO")
MODFILE="$ROOT/build/gomod-$H.mod"
VERIF_MODFILE="$MODFILE" "$ROOT/harness/mkmod.sh"
cd "$ROOT/harness"
BIN="$ROOT/build/trans_msgs"
timeout 1500 go build -modfile="$MODFILE" -o "$BIN.$$" ./trans/msgs
mv "$BIN.$$" "$BIN"
timeout 300 "$BIN" -repo "$REPO" -out "$ROOT/coq/Gen/Msgs_gen.v"
