#!/bin/sh
# usage: goal.sh File.v LINE  -- show the proof state after LINE lines of File.v
cd "$(dirname "$0")"
f=$1; n=$2
tmp=$(mktemp -d)
base=Tmpgoal$$
head -n "$n" "$f" > "$tmp/$base.v"
printf '\nShow.\n' >> "$tmp/$base.v"
coqc -R . Sunrise "$tmp/$base.v" 2>&1 | grep -v '^WARNING' | tail -${3:-60}
rm -rf "$tmp"
