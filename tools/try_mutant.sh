#!/bin/sh
# try_mutant.sh <ID> [tier]: rebase the seeded change in /tmp/mut/<ID> onto /repo's HEAD and run
# ./check <ID> against that worktree (VERIF_REPO), keeping the log in /tmp/main/mut/check-<ID>.log
id=$1; tier=${2:-quick}; M=${MUTDIR:-/tmp/mut}; L=${MUTLOG:-/tmp/main/mut}; wt=$M/$id
cd $wt || exit 2
head=$(git -C /repo rev-parse HEAD)
if [ "$(git rev-parse HEAD)" != "$head" ]; then
  # no git stash here: the stash is shared by all worktrees of a repository, and lanes run in parallel
  git diff -- . ':(exclude)*_test.go' > $M/$id.srcpatch
  git checkout -q -- . && git checkout -q --detach $head && git apply --3way $M/$id.srcpatch || { echo "REBASE FAILED"; exit 3; }
  git reset -q
fi
cd /verif && VERIF_HARNESS_CMD=dev_$(echo $id | tr A-Z a-z) VERIF_REPO=$wt timeout 3000 ./check $id --tier $tier > $L/check-$id.log 2>&1
echo "exit=$?" >> $L/check-$id.log
grep -v "^WARNING conda\|^KNOWN-FINDING" $L/check-$id.log | tail -4
