(* Totality of the patched memo decoder / validators (never Panic, for every input and every
   oracle value) and the panicking witnesses of the pristine code. *)
From Coq Require Import ZArith List Bool Lia.
Import ListNotations.
From Sunrise Require Import Base.Outcome Base.Check Swap.Memo.
Local Open Scope Z_scope.
Local Open Scope res_scope.

(* ------------------------------------------------------------------ induction on routes *)
Section RouteInd.
  Variable Q : route -> Prop.
  Hypothesis HNone : forall a b, Q (RNone a b).
  Hypothesis HPool : forall a b p, Q (RPool a b p).
  Hypothesis HSeries : forall a b present rs, Forall Q rs -> Q (RSeries a b present rs).
  Hypothesis HParallel : forall a b present rs ws, Forall Q rs -> Q (RParallel a b present rs ws).
  Fixpoint route_ind' (r : route) : Q r :=
    match r with
    | RNone a b => HNone a b
    | RPool a b p => HPool a b p
    | RSeries a b present rs =>
        HSeries a b present rs
          ((fix go (l : list route) : Forall Q l :=
              match l with [] => Forall_nil Q | x :: tl => Forall_cons x (route_ind' x) (go tl) end) rs)
    | RParallel a b present rs ws =>
        HParallel a b present rs ws
          ((fix go (l : list route) : Forall Q l :=
              match l with [] => Forall_nil Q | x :: tl => Forall_cons x (route_ind' x) (go tl) end) rs)
    end.
End RouteInd.

Lemma rbind_not_panic : forall A B (x : res A) (k : A -> res B),
  x <> Panic -> (forall a, x = Ok a -> k a <> Panic) -> rbind x k <> Panic.
Proof.
  intros A B x k Hx Hk. destruct x as [a|e|]; simpl.
  - apply Hk. reflexivity.
  - discriminate.
  - contradiction.
Qed.

(* ------------------------------------------------------------------ the loops *)
Lemma series_loop_total : forall (f : route -> res unit) l cur,
  Forall (fun x => f x <> Panic) l -> series_loop f l cur <> Panic.
Proof.
  intros f l. induction l as [|x tl IH]; intros cur HF; simpl.
  - discriminate.
  - inversion HF as [|? ? Hx Htl]; subst.
    apply rbind_not_panic; [exact Hx|]. intros _ _.
    destruct (negb (beq (r_din x) cur)); [discriminate|]. apply IH. exact Htl.
Qed.

Lemma par_loop_total : forall (f : route -> res unit) din dout l w,
  Forall (fun x => f x <> Panic) l -> (length l <= length w)%nat ->
  par_loop f din dout l w <> Panic.
Proof.
  intros f din dout l. induction l as [|x tl IH]; intros w HF Hlen; simpl.
  - discriminate.
  - inversion HF as [|? ? Hx Htl]; subst.
    apply rbind_not_panic; [exact Hx|]. intros _ _.
    destruct (negb (beq (r_din x) din)); [discriminate|].
    destruct (negb (beq (r_dout x) dout)); [discriminate|].
    destruct w as [|[|raw] wtl]; simpl in Hlen.
    + lia.
    + discriminate.
    + destruct (raw <=? 0); [discriminate|]. apply IH; [exact Htl|lia].
Qed.

(* ------------------------------------------------------------------ the reuse walk *)
(* no nil pool / series / parallel pointer anywhere in the tree *)
Fixpoint wf (r : route) : Prop :=
  match r with
  | RNone _ _ => True
  | RPool _ _ p => p <> None
  | RSeries _ _ present rs | RParallel _ _ present rs _ =>
      present = true /\ (fix all (l : list route) : Prop :=
                           match l with [] => True | x :: tl => wf x /\ all tl end) rs
  end.
Fixpoint wf_all (l : list route) : Prop :=
  match l with [] => True | x :: tl => wf x /\ wf_all tl end.
Lemma wf_series : forall a b present rs, wf (RSeries a b present rs) <-> present = true /\ wf_all rs.
Proof. intros. simpl. split; intros [H1 H2]; split; auto; induction rs; simpl in *; intuition. Qed.
Lemma wf_parallel : forall a b present rs ws, wf (RParallel a b present rs ws) <-> present = true /\ wf_all rs.
Proof. intros. simpl. split; intros [H1 H2]; split; auto; induction rs; simpl in *; intuition. Qed.

Lemma series_loop_ok_wf : forall fx l cur last,
  Forall (fun x => vrec fx x = Ok tt -> wf x) l ->
  series_loop (vrec fx) l cur = Ok last -> wf_all l.
Proof.
  intros fx l. induction l as [|x tl IH]; intros cur last HF H; simpl in *; [exact I|].
  inversion HF as [|? ? Hx Htl]; subst.
  destruct (vrec fx x) as [[]|e|] eqn:Hv; simpl in H; try discriminate.
  destruct (negb (beq (r_din x) cur)); [discriminate|].
  split; [apply Hx; reflexivity|]. eapply IH; eauto.
Qed.

Lemma par_loop_ok_wf : forall fx din dout l w,
  Forall (fun x => vrec fx x = Ok tt -> wf x) l ->
  par_loop (vrec fx) din dout l w = Ok tt -> wf_all l.
Proof.
  intros fx din dout l. induction l as [|x tl IH]; intros w HF H; simpl in *; [exact I|].
  inversion HF as [|? ? Hx Htl]; subst.
  destruct (vrec fx x) as [[]|e|] eqn:Hv; simpl in H; try discriminate.
  destruct (negb (beq (r_din x) din)); [discriminate|].
  destruct (negb (beq (r_dout x) dout)); [discriminate|].
  destruct w as [|[|raw] wtl]; try discriminate.
  destruct (raw <=? 0); [discriminate|].
  split; [apply Hx; reflexivity|]. eapply IH; eauto.
Qed.

Local Arguments series_loop : simpl never.
Local Arguments par_loop : simpl never.

(* ------------------------------------------------------------------ validateRecursive *)
Theorem vrec_total : forall r, vrec patched r <> Panic.
Proof.
  apply route_ind'.
  - intros a b. simpl. destruct (denom_ok a && denom_ok b); simpl; discriminate.
  - intros a b p. simpl. destruct (denom_ok a && denom_ok b); simpl; [|discriminate].
    destruct p; discriminate.
  - intros a b present rs HF. simpl.
    destruct (denom_ok a && denom_ok b); simpl; [|discriminate].
    destruct present; simpl; [|discriminate].
    destruct rs as [|x tl]; [discriminate|].
    apply rbind_not_panic.
    + apply series_loop_total. exact HF.
    + intros last _. destruct (negb (beq last b)); discriminate.
  - intros a b present rs ws HF. simpl.
    destruct (denom_ok a && denom_ok b); simpl; [|discriminate].
    destruct present; simpl; [|discriminate].
    destruct rs as [|x tl]; [discriminate|].
    destruct (Nat.eqb (length (x :: tl)) (length ws)) eqn:Hlen; simpl; [|discriminate].
    apply par_loop_total; [exact HF|].
    apply PeanoNat.Nat.eqb_eq in Hlen. rewrite Hlen. apply le_n.
Qed.

(* a route accepted by the patched validateRecursive has no nil pointer inside *)
Lemma vrec_ok_wf : forall r, vrec patched r = Ok tt -> wf r.
Proof.
  apply (route_ind' (fun r => vrec patched r = Ok tt -> wf r)).
  - intros; exact I.
  - intros a b p H. simpl in *. destruct (denom_ok a && denom_ok b); simpl in H; [|discriminate].
    destruct p; [discriminate|discriminate].
  - intros a b present rs HF H. apply wf_series. simpl in H.
    destruct (denom_ok a && denom_ok b); simpl in H; [|discriminate].
    destruct present; simpl in H; [|discriminate]. split; [reflexivity|].
    destruct rs as [|x tl]; [discriminate|].
    destruct (series_loop (vrec patched) (x :: tl) a) as [last|e|] eqn:Hl; simpl in H; try discriminate.
    eapply series_loop_ok_wf; eauto.
  - intros a b present rs ws HF H. apply wf_parallel. simpl in H.
    destruct (denom_ok a && denom_ok b); simpl in H; [|discriminate].
    destruct present; simpl in H; [|discriminate]. split; [reflexivity|].
    destruct rs as [|x tl]; [discriminate|].
    destruct (Nat.eqb (length (x :: tl)) (length ws)); simpl in H; [|discriminate].
    eapply par_loop_ok_wf; eauto.
Qed.

Lemma reuse_loop_total : forall (g : route -> list Z -> res (list Z)) l seen,
  (forall x, In x l -> forall s, g x s <> Panic) -> reuse_loop g l seen <> Panic.
Proof.
  intros g l. induction l as [|x tl IH]; intros seen H; simpl; [discriminate|].
  apply rbind_not_panic.
  - apply H. left. reflexivity.
  - intros s _. apply IH. intros y Hy. apply H. right. exact Hy.
Qed.

Lemma wf_all_in : forall l x, wf_all l -> In x l -> wf x.
Proof.
  induction l as [|y tl IH]; simpl; intros x Hwf Hin; [contradiction|].
  destruct Hwf as [Hy Htl]. destruct Hin as [->|Hin]; auto.
Qed.

Lemma reuse_wf_total : forall r, wf r -> forall seen, reuse patched r seen <> Panic.
Proof.
  apply (route_ind' (fun r => wf r -> forall seen, reuse patched r seen <> Panic)).
  - intros; simpl; discriminate.
  - intros a b p Hp seen. simpl in *. destruct p as [id|]; [|contradiction].
    destruct (mem id seen); discriminate.
  - intros a b present rs HF Hwf seen. apply (proj1 (wf_series a b present rs)) in Hwf.
    destruct Hwf as [Hp Hall]. subst present. simpl.
    apply reuse_loop_total. intros x Hin s.
    rewrite Forall_forall in HF. apply HF; [exact Hin|]. eapply wf_all_in; eauto.
  - intros a b present rs ws HF Hwf seen. apply (proj1 (wf_parallel a b present rs ws)) in Hwf.
    destruct Hwf as [Hp Hall]. subst present. simpl.
    apply reuse_loop_total. intros x Hin s.
    rewrite Forall_forall in HF. apply HF; [exact Hin|]. eapply wf_all_in; eauto.
Qed.

(* ------------------------------------------------------------------ Route.Validate *)
Theorem route_validate_total : forall r, route_validate patched r <> Panic.
Proof.
  intros [r|]; simpl; [|discriminate].
  destruct (vrec patched r) as [[]|e|] eqn:Hv; simpl.
  - destruct (reuse patched r []) as [s|e|] eqn:Hr; simpl; try discriminate.
    exfalso. eapply reuse_wf_total; [apply vrec_ok_wf; exact Hv|exact Hr].
  - discriminate.
  - exfalso. eapply vrec_total; eauto.
Qed.

(* an accepted route is present (what OnRecvPacket dereferences next) *)
Lemma route_validate_ok_some : forall fx r, route_validate fx r = Ok tt -> r <> None.
Proof. intros fx [r|] H; [discriminate|]. simpl in H. destruct (fx_route fx); discriminate. Qed.

(* ------------------------------------------------------------------ metadata *)
Lemma fwd_validate_total : forall f, fwd_validate f <> Panic.
Proof.
  intros f. unfold fwd_validate.
  destruct (fw_receiver_empty f); [discriminate|].
  destruct (negb (fw_port_ok f)); [discriminate|].
  destruct (negb (fw_chan_ok f)); discriminate.
Qed.

Lemma amt_validate_total : forall a, amt_validate patched a <> Panic.
Proof.
  intros [|[[z|]|]|[[ao change]|]]; simpl; try discriminate.
  - destruct (0 <? z); discriminate.
  - destruct ao as [z|]; simpl; [|discriminate].
    destruct (0 <? z); simpl; [|discriminate].
    destruct change; [apply fwd_validate_total|discriminate].
Qed.

Theorem meta_validate_total : forall m, meta_validate patched m <> Panic.
Proof.
  intros m. unfold meta_validate.
  apply rbind_not_panic; [apply route_validate_total|]. intros _ _.
  apply rbind_not_panic; [apply amt_validate_total|]. intros _ _.
  destruct (sm_forward m); [apply fwd_validate_total|discriminate].
Qed.

(* ------------------------------------------------------------------ decode *)
Theorem decode_total_patched : forall doc pb, decode patched doc pb <> Panic.
Proof.
  intros [j|] pb; simpl; [|discriminate].
  destruct (negb (nums_ok j)); [discriminate|].
  assert (Hafter : forall b,
    match pb with
    | PbErr => Err E_PB
    | PbOk None => Err E_NOSWAP
    | PbOk (Some m) => Ok (m, match sm_forward m with Some _ => b | None => false end)
    end <> (Panic : res (swap_meta * bool))).
  { intros b. destruct pb as [|[m|]]; discriminate. }
  destruct j as [| | | | |top]; try discriminate.
  destruct (lookup K_swap top) as [[| | | | |sw]|]; try discriminate.
  destruct (lookup K_forward sw) as [[| | | | |fw]|]; try discriminate; apply Hafter.
Qed.

(* ------------------------------------------------------------------ OnRecvPacket head *)
Theorem recv_head_total : forall data_ok doc pb dm, recv_head patched data_ok doc pb dm <> Panic.
Proof.
  intros data_ok doc pb dm. unfold recv_head.
  destruct (negb data_ok); [discriminate|].
  destruct (decode patched doc pb) as [[m b]|e|] eqn:Hd.
  - destruct (meta_validate patched m) as [[]|e|] eqn:Hm.
    + destruct (sm_route m) as [r|] eqn:Hr.
      * destruct dm; discriminate.
      * exfalso. unfold meta_validate in Hm. rewrite Hr in Hm. simpl in Hm. discriminate.
    + discriminate.
    + exfalso. eapply meta_validate_total; eauto.
  - discriminate.
  - exfalso. eapply decode_total_patched; eauto.
Qed.

(* ------------------------------------------------------------------ pristine code: witnesses *)
Definition urise : bytes := [117; 114; 105; 115; 101].
Definition uusdc : bytes := [117; 117; 115; 100; 99].

(* {"swap":1} *)
Lemma memo_swap_not_object :
  decode pristine (Some (JObj [(K_swap, JNum true)])) PbErr = Panic.
Proof. reflexivity. Qed.
(* {"swap":{"forward":1}} *)
Lemma memo_forward_not_object :
  decode pristine (Some (JObj [(K_swap, JObj [(K_forward, JNum true)])])) PbErr = Panic.
Proof. reflexivity. Qed.
(* {"swap":{}} decodes to a SwapMetadata whose Route is nil; Validate dereferences it *)
Definition empty_swap : swap_meta := {| sm_route := None; sm_amt := ANone; sm_forward := None |}.
Lemma memo_empty_swap_nil_route :
  decode pristine (Some (JObj [(K_swap, JObj [])])) (PbOk (Some empty_swap)) = Ok (empty_swap, false) /\
  meta_validate pristine empty_swap = Panic.
Proof. split; reflexivity. Qed.
(* series urise -> uusdc -> urise through pool 0 twice *)
Definition reuse_route : route :=
  RSeries urise urise true [RPool urise uusdc (Some 0); RPool uusdc urise (Some 0)].
Lemma route_reuse_panics : route_validate pristine (Some reuse_route) = Panic.
Proof. reflexivity. Qed.
Lemma route_reuse_is_error_after_repair : route_validate patched (Some reuse_route) = Err E_ROUTE.
Proof. reflexivity. Qed.
(* Route_Pool{Pool: nil} *)
Lemma route_pool_nil : route_validate pristine (Some (RPool urise uusdc None)) = Panic.
Proof. reflexivity. Qed.
(* Route_Series{Series: nil} *)
Lemma route_series_nil : route_validate pristine (Some (RSeries urise uusdc false [])) = Panic.
Proof. reflexivity. Qed.
(* {"swap":{"route":...,"exact_amount_in":{}}}: min_amount_out absent *)
Lemma meta_nil_min_amount_out :
  meta_validate pristine {| sm_route := Some (RPool urise uusdc (Some 0)); sm_amt := AIn (Some None);
                            sm_forward := None |} = Panic.
Proof. reflexivity. Qed.
(* the whole receive head on {"swap":{}} *)
Lemma recv_head_refuted :
  recv_head pristine true (Some (JObj [(K_swap, JObj [])])) (PbOk (Some empty_swap)) true = Panic.
Proof. reflexivity. Qed.

(* a one-character denom passes the pristine validation (sdk.NewCoin then panics inside
   InspectRoute); the patched validation rejects it *)
Lemma route_bad_denom_accepted_pristine :
  route_validate pristine (Some (RPool [97] uusdc (Some 0))) = Ok tt.
Proof. reflexivity. Qed.
Lemma route_bad_denom_rejected_patched :
  route_validate patched (Some (RPool [97] uusdc (Some 0))) = Err E_ROUTE.
Proof. reflexivity. Qed.

(* every denom of an accepted route is a valid sdk denom: NewCoin(denom, non-negative amount)
   inside InspectRoute cannot panic on the denom *)
Fixpoint denoms_ok (r : route) : Prop :=
  denom_ok (r_din r) = true /\ denom_ok (r_dout r) = true /\
  match r with
  | RSeries _ _ _ rs | RParallel _ _ _ rs _ =>
      (fix all (l : list route) : Prop := match l with [] => True | x :: tl => denoms_ok x /\ all tl end) rs
  | _ => True
  end.

Lemma vrec_ok_top_denoms : forall r, vrec patched r = Ok tt ->
  denom_ok (r_din r) = true /\ denom_ok (r_dout r) = true.
Proof.
  intros r H. destruct r; simpl in *;
    match goal with |- context [denom_ok ?a = true /\ denom_ok ?b = true] =>
      destruct (denom_ok a) eqn:Ha; destruct (denom_ok b) eqn:Hb; simpl in H; try discriminate; auto end.
Qed.

(* ------------------------------------------------------------------ InspectRoute on validated routes *)
Definition pos_weight (w : weight) : Prop := match w with WDec raw => 0 < raw | WBad => False end.
Fixpoint all_pos (ws : list weight) : Prop :=
  match ws with [] => True | w :: tl => pos_weight w /\ all_pos tl end.

(* everything the patched validation establishes about the shape of a route *)
Fixpoint vs (r : route) : Prop :=
  denom_ok (r_din r) = true /\ denom_ok (r_dout r) = true /\
  match r with
  | RNone _ _ => False
  | RPool _ _ p => p <> None
  | RSeries _ _ present rs =>
      present = true /\
      (fix all (l : list route) : Prop := match l with [] => True | x :: tl => vs x /\ all tl end) rs
  | RParallel _ _ present rs ws =>
      present = true /\
      (fix all (l : list route) : Prop := match l with [] => True | x :: tl => vs x /\ all tl end) rs /\
      length rs = length ws /\ rs <> [] /\ all_pos ws
  end.
Fixpoint vs_all (l : list route) : Prop :=
  match l with [] => True | x :: tl => vs x /\ vs_all tl end.
Lemma vs_all_eq : forall rs,
  (fix all (l : list route) : Prop := match l with [] => True | x :: tl => vs x /\ all tl end) rs = vs_all rs.
Proof. induction rs; simpl; congruence. Qed.

Lemma series_loop_ok_vs : forall l cur last,
  Forall (fun x => vrec patched x = Ok tt -> vs x) l ->
  series_loop (vrec patched) l cur = Ok last -> vs_all l.
Proof.
  induction l as [|x tl IH]; intros cur last HF H; simpl in *; [exact I|].
  inversion HF as [|? ? Hx Htl]; subst.
  unfold series_loop in H; fold (series_loop (vrec patched)) in H.
  destruct (vrec patched x) as [[]|e|] eqn:Hv; simpl in H; try discriminate.
  destruct (negb (beq (r_din x) cur)); [discriminate|].
  split; [apply Hx; reflexivity|]. eapply IH; eauto.
Qed.

Lemma par_loop_ok_vs : forall din dout l w,
  Forall (fun x => vrec patched x = Ok tt -> vs x) l ->
  par_loop (vrec patched) din dout l w = Ok tt -> length l = length w ->
  vs_all l /\ all_pos w.
Proof.
  intros din dout. induction l as [|x tl IH]; intros w HF H Hlen.
  - destruct w; [simpl; auto|discriminate].
  - inversion HF as [|? ? Hx Htl]; subst.
    unfold par_loop in H; fold (par_loop (vrec patched) din dout) in H.
    destruct (vrec patched x) as [[]|e|] eqn:Hv; simpl in H; try discriminate.
    destruct (negb (beq (r_din x) din)); [discriminate|].
    destruct (negb (beq (r_dout x) dout)); [discriminate|].
    destruct w as [|[|raw] wtl]; try discriminate.
    destruct (raw <=? 0) eqn:Hraw; [discriminate|].
    simpl in Hlen. injection Hlen as Hlen.
    destruct (IH wtl Htl H Hlen) as [Ha Hb].
    simpl. repeat split; auto. apply Z.leb_gt in Hraw. exact Hraw.
Qed.

Lemma vrec_ok_vs : forall r, vrec patched r = Ok tt -> vs r.
Proof.
  apply (route_ind' (fun r => vrec patched r = Ok tt -> vs r)).
  - intros a b H. simpl in H. destruct (denom_ok a && denom_ok b); simpl in H; discriminate.
  - intros a b p H. simpl in *.
    destruct (denom_ok a) eqn:Ha; destruct (denom_ok b) eqn:Hb; simpl in H; try discriminate.
    destruct p; [|discriminate]. repeat split; auto. discriminate.
  - intros a b present rs HF H. simpl in H.
    destruct (denom_ok a) eqn:Ha; destruct (denom_ok b) eqn:Hb; simpl in H; try discriminate.
    destruct present; simpl in H; [|discriminate].
    destruct rs as [|x tl]; [discriminate|].
    destruct (series_loop (vrec patched) (x :: tl) a) as [last|e|] eqn:Hl; simpl in H; try discriminate.
    simpl. rewrite Ha, Hb. repeat split; auto.
    + eapply (series_loop_ok_vs (x :: tl)); eauto.
    + rewrite vs_all_eq. eapply (series_loop_ok_vs (x :: tl)); eauto.
  - intros a b present rs ws HF H. simpl in H.
    destruct (denom_ok a) eqn:Ha; destruct (denom_ok b) eqn:Hb; simpl in H; try discriminate.
    destruct present; simpl in H; [|discriminate].
    destruct rs as [|x tl]; [discriminate|].
    destruct (Nat.eqb (length (x :: tl)) (length ws)) eqn:Hlen; simpl in H; [|discriminate].
    apply PeanoNat.Nat.eqb_eq in Hlen.
    destruct (par_loop_ok_vs a b (x :: tl) ws HF H Hlen) as [Hall Hpos].
    simpl. rewrite Ha, Hb. repeat split; auto.
    + apply Hall.
    + rewrite vs_all_eq. apply Hall.
    + discriminate.
Qed.

Lemma all_pos_no_bad : forall ws, all_pos ws -> has_bad ws = false.
Proof.
  induction ws as [|[|raw] tl IH]; simpl; intros H; auto.
  - destruct H as [[] _].
  - apply IH. apply H.
Qed.
Lemma all_pos_wsum : forall ws, all_pos ws -> ws <> [] -> 0 < wsum ws.
Proof.
  induction ws as [|[|raw] tl IH]; simpl; intros H Hne.
  - contradiction.
  - destruct H as [[] _].
  - destruct H as [Hr Htl]. destruct tl as [|w tl'].
    + unfold wsum. simpl. lia.
    + assert (0 < wsum (w :: tl')) by (apply IH; [exact Htl|discriminate]).
      unfold wsum in *. simpl in *. lia.
Qed.

Lemma inspect_loop_total : forall (f : route -> res unit) l,
  (forall x, In x l -> f x <> Panic) -> inspect_loop f l <> Panic.
Proof.
  intros f l. induction l as [|x tl IH]; intros H; simpl; [discriminate|].
  apply rbind_not_panic; [apply H; left; reflexivity|].
  intros _ _. apply IH. intros y Hy. apply H. right. exact Hy.
Qed.
Lemma vs_all_in : forall l x, vs_all l -> In x l -> vs x.
Proof.
  induction l as [|y tl IH]; simpl; intros x Hv Hin; [contradiction|].
  destruct Hv as [Hy Htl]. destruct Hin as [->|Hin]; auto.
Qed.

Lemma inspect_vs_total : forall r, vs r -> inspect r <> Panic.
Proof.
  apply (route_ind' (fun r => vs r -> inspect r <> Panic)).
  - intros; simpl; discriminate.
  - intros a b p [Ha [Hb Hp]]. simpl in *. destruct p; [|contradiction].
    unfold coins_ok. rewrite Ha, Hb. discriminate.
  - intros a b present rs HF [Ha [Hb [Hp Hall]]]. simpl in Ha, Hb. subst present.
    rewrite vs_all_eq in Hall. simpl.
    apply rbind_not_panic.
    + apply inspect_loop_total. intros x Hin. rewrite Forall_forall in HF.
      apply HF; [exact Hin|]. eapply vs_all_in; eauto.
    + intros _ _. unfold coins_ok. rewrite Ha, Hb. discriminate.
  - intros a b present rs ws HF [Ha [Hb [Hp [Hall [Hlen [Hne Hpos]]]]]]. simpl in Ha, Hb. subst present.
    rewrite vs_all_eq in Hall. simpl.
    rewrite (all_pos_no_bad ws Hpos).
    destruct ws as [|w wtl].
    + destruct rs; [contradiction|discriminate].
    + rewrite Hlen. rewrite PeanoNat.Nat.ltb_irrefl.
      assert (Hs : 0 < wsum (w :: wtl)) by (apply all_pos_wsum; [exact Hpos|discriminate]).
      replace (wsum (w :: wtl) =? 0) with false by (symmetry; apply Z.eqb_neq; lia).
      rewrite andb_false_r.
      apply rbind_not_panic.
      * apply inspect_loop_total. intros x Hin. rewrite Forall_forall in HF.
        apply HF; [exact Hin|]. eapply vs_all_in; eauto.
      * intros _ _. unfold coins_ok. rewrite Ha, Hb. discriminate.
Qed.

(* a route accepted by the patched Validate cannot make InspectRoute's own code panic *)
Theorem inspect_validated_total : forall r,
  route_validate patched (Some r) = Ok tt -> inspect r <> Panic.
Proof.
  intros r H. simpl in H.
  destruct (vrec patched r) as [[]|e|] eqn:Hv; simpl in H; try discriminate.
  apply inspect_vs_total. apply vrec_ok_vs. exact Hv.
Qed.

(* pristine quote queries never validate: the shapes below reach InspectRoute *)
Lemma inspect_zero_weights_panics :
  inspect (RParallel urise uusdc true [RPool urise uusdc (Some 0)] []) = Panic.
Proof. reflexivity. Qed.
Lemma inspect_more_weights_than_routes_panics :
  inspect (RParallel urise uusdc true [RPool urise uusdc (Some 0)] [WDec 1; WDec 1]) = Panic.
Proof. reflexivity. Qed.
Lemma inspect_zero_weight_sum_panics :
  inspect (RParallel urise uusdc true [RPool urise uusdc (Some 0); RPool urise uusdc (Some 1)] [WDec 0; WDec 0]) = Panic.
Proof. reflexivity. Qed.
Lemma inspect_bad_denom_panics : inspect (RPool [97] uusdc (Some 0)) = Panic.
Proof. reflexivity. Qed.
