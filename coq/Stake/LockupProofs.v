(* Proofs about the lockup model of Stake/Lockup.v (property C12). *)
From Coq Require Import ZArith List Bool Lia ZifyBool.
Import ListNotations.
From Sunrise Require Import Base.Outcome Base.Dec Base.DecLemmas Stake.Lockup.
Local Open Scope Z_scope.

(* ================================================================================ *)
(* 1. The schedule: 0 <= locked <= original, and locked never increases with time     *)
(* ================================================================================ *)

Lemma P_pos' : 0 < P. Proof. reflexivity. Qed.

Lemma chop_round_pos_upper a : 0 <= a -> chop_round_pos a <= a / P + 1.
Proof.
  intros Ha. unfold chop_round_pos.
  destruct (a mod P =? 0); [lia|]. destruct (a mod P <? HALF); [lia|].
  destruct (HALF <? a mod P); [lia|]. destruct (Z.even (a / P)); lia.
Qed.
Lemma chop_round_pos_lower a : 0 <= a -> a / P <= chop_round_pos a.
Proof.
  intros Ha. unfold chop_round_pos.
  destruct (a mod P =? 0); [lia|]. destruct (a mod P <? HALF); [lia|].
  destruct (HALF <? a mod P); [lia|]. destruct (Z.even (a / P)); lia.
Qed.

Lemma chop_round_pos_mono a b : 0 <= a -> a <= b -> chop_round_pos a <= chop_round_pos b.
Proof.
  intros Ha Hab.
  pose proof P_pos' as HP.
  pose proof (Z.div_le_mono a b P HP Hab) as Hq.
  destruct (Z.eq_dec (a / P) (b / P)) as [Heq | Hne].
  - assert (Hr : a mod P <= b mod P).
    { pose proof (Z.div_mod a P). pose proof (Z.div_mod b P). rewrite Heq in *. lia. }
    unfold chop_round_pos. rewrite Heq.
    destruct (Z.eqb_spec (a mod P) 0) as [A0|A0];
    destruct (Z.eqb_spec (b mod P) 0) as [B0|B0];
    destruct (Z.ltb_spec (a mod P) HALF) as [A1|A1];
    destruct (Z.ltb_spec (b mod P) HALF) as [B1|B1];
    destruct (Z.ltb_spec HALF (a mod P)) as [A2|A2];
    destruct (Z.ltb_spec HALF (b mod P)) as [B2|B2];
    destruct (Z.even (b / P)); try lia.
  - pose proof (chop_round_pos_upper a Ha). pose proof (chop_round_pos_lower b ltac:(lia)). lia.
Qed.

Lemma chop_round_nn a : 0 <= a -> chop_round a = chop_round_pos a.
Proof. intros. unfold chop_round. destruct (Z.ltb_spec a 0); [lia|reflexivity]. Qed.

Lemma chop_round_mono a b : 0 <= a -> a <= b -> chop_round a <= chop_round b.
Proof. intros. rewrite !chop_round_nn by lia. apply chop_round_pos_mono; lia. Qed.

Lemma chop_round_le_self a : 0 <= a -> chop_round (a * P) = a.
Proof.
  intros Ha. rewrite chop_round_nn by (unfold P; lia).
  unfold chop_round_pos. rewrite Z.mod_mul by (unfold P; lia). simpl.
  rewrite Z.div_mul by (unfold P; lia). reflexivity.
Qed.

(* the unlocked amount in the interior of the schedule, ignoring range checks *)
Definition s_of (x y : Z) : Z := chop_round (Z.quot (x * P * (P * P)) (y * P)).
Definition u_of (orig x y : Z) : Z := chop_round (chop_round (orig * P * s_of x y)).

Lemma nn3 x : 0 <= x -> 0 <= x * P * (P * P).
Proof.
  intros. pose proof P_pos'.
  apply Z.mul_nonneg_nonneg; [apply Z.mul_nonneg_nonneg|apply Z.mul_nonneg_nonneg]; lia.
Qed.
Lemma mono3 x x' : x <= x' -> x * P * (P * P) <= x' * P * (P * P).
Proof.
  intros. pose proof P_pos'.
  apply Z.mul_le_mono_nonneg_r; [apply Z.mul_nonneg_nonneg; lia|].
  apply Z.mul_le_mono_nonneg_r; lia.
Qed.
Lemma yP_pos y : 0 < y -> 0 < y * P.
Proof. intros. pose proof P_pos'. apply Z.mul_pos_pos; lia. Qed.
Lemma s_of_nonneg x y : 0 <= x -> 0 < y -> 0 <= s_of x y.
Proof.
  intros Hx Hy. unfold s_of. apply chop_round_nonneg. apply Z.quot_pos; [apply nn3; lia|apply yP_pos; lia].
Qed.
Lemma s_of_mono x x' y : 0 <= x -> x <= x' -> 0 < y -> s_of x y <= s_of x' y.
Proof.
  intros Hx Hxx Hy. unfold s_of.
  apply chop_round_mono.
  - apply Z.quot_pos; [apply nn3; lia|apply yP_pos; lia].
  - apply Z.quot_le_mono; [apply yP_pos; lia|apply mono3; lia].
Qed.
Lemma s_of_full y : 0 < y -> s_of y y = P.
Proof.
  intros Hy. unfold s_of. pose proof P_pos' as HP.
  replace (y * P * (P * P)) with (P * P * (y * P)) by ring.
  rewrite Z.quot_mul by (pose proof (yP_pos y Hy); lia). apply chop_round_le_self. lia.
Qed.
Lemma oPs_nonneg orig s : 0 <= orig -> 0 <= s -> 0 <= orig * P * s.
Proof. intros. apply Z.mul_nonneg_nonneg; [unfold P|]; lia. Qed.
Lemma oPs_mono orig s s' : 0 <= orig -> s <= s' -> orig * P * s <= orig * P * s'.
Proof. intros. apply Z.mul_le_mono_nonneg_l; [unfold P|]; lia. Qed.
Lemma u_of_nonneg orig x y : 0 <= orig -> 0 <= x -> 0 < y -> 0 <= u_of orig x y.
Proof.
  intros Ho Hx Hy. unfold u_of. pose proof (s_of_nonneg x y Hx Hy).
  apply chop_round_nonneg. apply chop_round_nonneg. apply oPs_nonneg; lia.
Qed.
Lemma u_of_mono orig x x' y : 0 <= orig -> 0 <= x -> x <= x' -> 0 < y -> u_of orig x y <= u_of orig x' y.
Proof.
  intros Ho Hx Hxx Hy. unfold u_of.
  pose proof (s_of_nonneg x y Hx Hy). pose proof (s_of_mono x x' y Hx Hxx Hy).
  apply chop_round_mono; [apply chop_round_nonneg; apply oPs_nonneg; lia|].
  apply chop_round_mono; [apply oPs_nonneg; lia|apply oPs_mono; lia].
Qed.
Lemma u_of_full orig y : 0 <= orig -> 0 < y -> u_of orig y y = orig.
Proof.
  intros Ho Hy. unfold u_of. rewrite s_of_full by lia.
  rewrite (chop_round_le_self (orig * P)) by (unfold P; lia).
  apply chop_round_le_self; lia.
Qed.

(* the interior branch of locked_raw *)
Definition mid (orig x y : Z) : option Z :=
  obind (dquo (x * P) (y * P)) (fun s =>
  obind (dmul (orig * P) s) (fun m =>
  obind (chk_int (dround_int m)) (fun u =>
  if (u <? 0) || (orig <? u) then None else Some (orig - u)))).

Lemma locked_raw_unfold orig st en now :
  locked_raw orig st en now =
  if now <? st then Some orig else if en <? now then Some 0
  else mid orig (unix now - unix st) (unix en - unix st).
Proof. reflexivity. Qed.

Definition val (o : option Z) : Z := match o with Some v => v | None => 0 end.

Lemma chk_spec x : chk x = if Z.abs x <=? DEC_LIM then Some x else None.
Proof. reflexivity. Qed.
Lemma chk_int_spec x : chk_int x = if Z.abs x <=? INT_LIM then Some x else None.
Proof. reflexivity. Qed.

(* value of the interior branch: either a range check / guard failed (0) or orig - u_of *)
Lemma mid_cases orig x y : 0 <= orig -> 0 <= x -> 0 < y ->
  (mid orig x y = None) \/
  (mid orig x y = Some (orig - u_of orig x y) /\ u_of orig x y <= orig /\
   s_of x y <= DEC_LIM /\ chop_round (orig * P * s_of x y) <= DEC_LIM /\ u_of orig x y <= INT_LIM).
Proof.
  intros Ho Hx Hy. pose proof P_pos' as HP.
  pose proof (s_of_nonneg x y Hx Hy) as Hs.
  assert (Hm : 0 <= chop_round (orig * P * s_of x y)) by (apply chop_round_nonneg; apply oPs_nonneg; lia).
  pose proof (u_of_nonneg orig x y Ho Hx Hy) as Hu.
  unfold mid, dquo.
  destruct (Z.eqb_spec (y * P) 0) as [E|E]; [unfold P in E; lia|].
  fold (s_of x y). rewrite chk_spec.
  destruct (Z.leb_spec (Z.abs (s_of x y)) DEC_LIM) as [L1|L1]; [|left; reflexivity].
  cbn [obind]. unfold dmul. rewrite chk_spec.
  destruct (Z.leb_spec (Z.abs (chop_round (orig * P * s_of x y))) DEC_LIM) as [L2|L2]; [|left; reflexivity].
  cbn [obind]. unfold dround_int. fold (u_of orig x y). rewrite chk_int_spec.
  destruct (Z.leb_spec (Z.abs (u_of orig x y)) INT_LIM) as [L3|L3]; [|left; reflexivity].
  cbn [obind].
  destruct (Z.ltb_spec (u_of orig x y) 0) as [N|N]; [lia|].
  destruct (Z.ltb_spec orig (u_of orig x y)) as [G|G]; cbn [orb]; [left; reflexivity|].
  right. repeat split; try lia.
Qed.

Lemma mid_val_bounds orig x y : 0 <= orig -> 0 <= x -> 0 < y -> 0 <= val (mid orig x y) <= orig.
Proof.
  intros Ho Hx Hy. pose proof (u_of_nonneg orig x y Ho Hx Hy).
  destruct (mid_cases orig x y Ho Hx Hy) as [E | [E [Hu _]]]; rewrite E; cbn [val]; lia.
Qed.

Lemma mid_val_mono orig x x' y : 0 <= orig -> 0 <= x -> x <= x' -> 0 < y ->
  val (mid orig x' y) <= val (mid orig x y).
Proof.
  intros Ho Hx Hxx Hy. pose proof P_pos' as HP.
  pose proof (u_of_mono orig x x' y Ho Hx Hxx Hy) as Hum.
  pose proof (s_of_mono x x' y Hx Hxx Hy) as Hsm.
  pose proof (s_of_nonneg x y Hx Hy) as Hs.
  pose proof (u_of_nonneg orig x y Ho Hx Hy) as Hu.
  assert (Hmm : chop_round (orig * P * s_of x y) <= chop_round (orig * P * s_of x' y))
    by (apply chop_round_mono; [apply oPs_nonneg; lia|apply oPs_mono; lia]).
  assert (Hm0 : 0 <= chop_round (orig * P * s_of x y)) by (apply chop_round_nonneg; apply oPs_nonneg; lia).
  destruct (mid_cases orig x' y Ho ltac:(lia) Hy) as [E' | [E' [Hu' [A' [B' C']]]]].
  - rewrite E'. cbn [val]. apply (mid_val_bounds orig x y Ho Hx Hy).
  - destruct (mid_cases orig x y Ho Hx Hy) as [E | [E _]].
    + (* the earlier instant fails a check although the later one passes: impossible *)
      exfalso. revert E. unfold mid, dquo.
      destruct (Z.eqb_spec (y * P) 0) as [E0|E0]; [unfold P in E0; lia|].
      fold (s_of x y). rewrite chk_spec.
      destruct (Z.leb_spec (Z.abs (s_of x y)) DEC_LIM) as [L1|L1]; [|lia].
      cbn [obind]. unfold dmul. rewrite chk_spec.
      destruct (Z.leb_spec (Z.abs (chop_round (orig * P * s_of x y))) DEC_LIM) as [L2|L2]; [|lia].
      cbn [obind]. unfold dround_int. fold (u_of orig x y). rewrite chk_int_spec.
      destruct (Z.leb_spec (Z.abs (u_of orig x y)) INT_LIM) as [L3|L3]; [|lia].
      cbn [obind].
      destruct (Z.ltb_spec (u_of orig x y) 0) as [N|N]; [lia|].
      destruct (Z.ltb_spec orig (u_of orig x y)) as [G|G]; cbn [orb]; [lia|discriminate].
    + rewrite E, E'. cbn [val]. lia.
Qed.

Lemma unix_mono a b : a <= b -> unix a <= unix b.
Proof. intros. unfold unix. apply Z.div_le_mono; lia. Qed.

(* mid with y = 0 is a panic (division by zero) *)
Lemma mid_y0 orig x : mid orig x 0 = None.
Proof. unfold mid, dquo. rewrite Z.mul_0_l. reflexivity. Qed.

Definition lkv (orig st en now : Z) : Z := val (locked_raw orig st en now).

Lemma lkv_bounds orig st en now : 0 <= orig -> 0 <= lkv orig st en now <= orig.
Proof.
  intros Ho. unfold lkv. rewrite locked_raw_unfold.
  destruct (Z.ltb_spec now st) as [A|A]; [cbn [val]; lia|].
  destruct (Z.ltb_spec en now) as [B|B]; [cbn [val]; lia|].
  pose proof (unix_mono st now A). pose proof (unix_mono now en B).
  destruct (Z.eq_dec (unix en - unix st) 0) as [Y|Y].
  - rewrite Y, mid_y0. cbn [val]. lia.
  - apply mid_val_bounds; lia.
Qed.

Lemma lkv_mono orig st en t t' : 0 <= orig -> t <= t' -> lkv orig st en t' <= lkv orig st en t.
Proof.
  intros Ho Htt.
  pose proof (lkv_bounds orig st en t Ho) as Bt. pose proof (lkv_bounds orig st en t' Ho) as Bt'.
  unfold lkv in *. rewrite !locked_raw_unfold in *.
  destruct (Z.ltb_spec t' st) as [A'|A'].
  - destruct (Z.ltb_spec t st) as [A|A]; [cbn [val]; lia|lia].
  - destruct (Z.ltb_spec t st) as [A|A]; [cbn [val] in *; lia|].
    destruct (Z.ltb_spec en t') as [B'|B'].
    + cbn [val] in *. lia.
    + destruct (Z.ltb_spec en t) as [B|B]; [lia|].
      pose proof (unix_mono st t A). pose proof (unix_mono t t' Htt). pose proof (unix_mono t' en B').
      destruct (Z.eq_dec (unix en - unix st) 0) as [Y|Y].
      * rewrite Y, !mid_y0. cbn [val]. lia.
      * apply mid_val_mono; lia.
Qed.

Lemma lim_P : Z.abs P <= DEC_LIM. Proof. vm_compute. discriminate. Qed.
Lemma lim_rel : INT_LIM * P <= DEC_LIM. Proof. vm_compute. discriminate. Qed.

(* at (and within the last second before) the end time everything is unlocked *)
Lemma lkv_end orig st en : 0 <= orig -> orig <= INT_LIM -> st <= en -> unix st < unix en ->
  locked_raw orig st en en = Some 0.
Proof.
  intros Ho Hlim Hse Hu. rewrite locked_raw_unfold.
  destruct (Z.ltb_spec en st); [lia|]. destruct (Z.ltb_spec en en); [lia|].
  pose proof P_pos' as HP.
  set (y := unix en - unix st). assert (Hy : 0 < y) by (unfold y; lia).
  unfold mid, dquo. destruct (Z.eqb_spec (y * P) 0) as [E0|E0]; [unfold P in E0; lia|].
  fold (s_of y y). rewrite s_of_full by lia. rewrite chk_spec.
  destruct (Z.leb_spec (Z.abs P) DEC_LIM) as [L|L]; [|pose proof lim_P; lia].
  cbn [obind]. unfold dmul.
  rewrite (chop_round_le_self (orig * P)) by (unfold P; lia). rewrite chk_spec.
  destruct (Z.leb_spec (Z.abs (orig * P)) DEC_LIM) as [L2|L2].
  2:{ pose proof lim_rel. assert (orig * P <= INT_LIM * P) by (apply Z.mul_le_mono_nonneg_r; lia).
      assert (0 <= orig * P) by (apply Z.mul_nonneg_nonneg; lia). lia. }
  cbn [obind]. unfold dround_int. rewrite chop_round_le_self by lia. rewrite chk_int_spec.
  destruct (Z.leb_spec (Z.abs orig) INT_LIM) as [L3|L3]; [|lia].
  cbn [obind]. destruct (Z.ltb_spec orig 0); [lia|]. destruct (Z.ltb_spec orig orig); [lia|].
  cbn [orb]. f_equal. lia.
Qed.

(* ================================================================================ *)
(* 2. Sums over unbonding lists and unbond entries                                    *)
(* ================================================================================ *)

Fixpoint uafter (tau : Z) (l : list (Z * Z)) : Z :=
  match l with [] => 0 | (t, a) :: tl => (if tau <? t then a else 0) + uafter tau tl end.
Fixpoint esum (l : list entry) : Z := match l with [] => 0 | e :: tl => e_amt e + esum tl end.
Fixpoint eafter (tau : Z) (l : list entry) : Z :=
  match l with [] => 0 | e :: tl => (if tau <? e_end e then e_amt e else 0) + eafter tau tl end.
Fixpoint ssum (st : store) : Z := match st with [] => 0 | (_, l) :: tl => esum l + ssum tl end.
Fixpoint safter (tau : Z) (st : store) : Z :=
  match st with [] => 0 | (_, l) :: tl => eafter tau l + safter tau tl end.

Definition pos_unb (l : list (Z * Z)) : Prop := Forall (fun p => 0 <= snd p) l.
Definition pos_ent (l : list entry) : Prop := Forall (fun e => 0 < e_amt e) l.
Fixpoint sorted (l : list entry) : Prop :=
  match l with
  | [] => True
  | a :: tl => (match tl with [] => True | b :: _ => e_end a <= e_end b end) /\ sorted tl
  end.
Definition list_ok (l : list entry) : Prop := l <> [] /\ pos_ent l /\ sorted l.
Definition ent_ok (st : store) : Prop := Forall (fun kl => list_ok (snd kl)) st.

Lemma sum2_app l1 l2 : sum2 (l1 ++ l2) = sum2 l1 + sum2 l2.
Proof. induction l1 as [|[t a] tl IH]; cbn; [reflexivity|rewrite IH; lia]. Qed.
Lemma uafter_app tau l1 l2 : uafter tau (l1 ++ l2) = uafter tau l1 + uafter tau l2.
Proof. induction l1 as [|[t a] tl IH]; cbn; [reflexivity|rewrite IH; lia]. Qed.
Lemma pos_unb_app l1 l2 : pos_unb l1 -> pos_unb l2 -> pos_unb (l1 ++ l2).
Proof. unfold pos_unb. intros. apply Forall_app; split; assumption. Qed.
Lemma sum2_nonneg l : pos_unb l -> 0 <= sum2 l.
Proof. induction 1 as [|[t a] tl H _ IH]; cbn in *; lia. Qed.
Lemma uafter_le_sum2 tau l : pos_unb l -> 0 <= uafter tau l <= sum2 l.
Proof. induction 1 as [|[t a] tl H _ IH]; cbn in *; [lia|]. destruct (tau <? t); lia. Qed.

Lemma due_split now l : sum2 l = due_sum now l + sum2 (not_due now l).
Proof.
  induction l as [|[t a] tl IH]; cbn; [reflexivity|].
  destruct (Z.leb_spec t now); cbn; lia.
Qed.
Lemma not_due_pos now l : pos_unb l -> pos_unb (not_due now l).
Proof.
  induction 1 as [|[t a] tl H _ IH]; cbn; [constructor|].
  destruct (t <=? now); [assumption|constructor; assumption].
Qed.
Lemma due_sum_nonneg now l : pos_unb l -> 0 <= due_sum now l.
Proof. induction 1 as [|[t a] tl H _ IH]; cbn in *; [lia|]. destruct (t <=? now); lia. Qed.
Lemma uafter_not_due now tau l : now <= tau -> uafter tau (not_due now l) = uafter tau l.
Proof.
  intros Hn. induction l as [|[t a] tl IH]; cbn; [reflexivity|].
  destruct (Z.leb_spec t now) as [A|A]; cbn; rewrite IH; [|reflexivity].
  destruct (Z.ltb_spec tau t); lia.
Qed.

Lemma esum_nonneg l : pos_ent l -> 0 <= esum l.
Proof. induction 1 as [|e tl H _ IH]; cbn; lia. Qed.
Lemma eafter_bounds tau l : pos_ent l -> 0 <= eafter tau l <= esum l.
Proof. induction 1 as [|e tl H _ IH]; cbn; [lia|]. destruct (tau <? e_end e); lia. Qed.
Lemma ssum_nonneg st : ent_ok st -> 0 <= ssum st.
Proof.
  induction 1 as [|[k l] tl [_ [H _]] _ IH]; cbn in *; [lia|]. pose proof (esum_nonneg l H). lia.
Qed.
Lemma safter_bounds tau st : ent_ok st -> 0 <= safter tau st <= ssum st.
Proof.
  induction 1 as [|[k l] tl [_ [H _]] _ IH]; cbn in *; [lia|]. pose proof (eafter_bounds tau l H). lia.
Qed.

(* in a sorted list whose head is not yet mature nothing is mature *)
Lemma sorted_head_after now e tl : sorted (e :: tl) -> now < e_end e -> eafter now (e :: tl) = esum (e :: tl).
Proof.
  revert e. induction tl as [|b tl IH]; intros e Hs Hn; cbn.
  - destruct (Z.ltb_spec now (e_end e)); lia.
  - cbn in Hs. destruct Hs as [Hab Hs].
    specialize (IH b Hs ltac:(lia)). cbn in IH.
    destruct (Z.ltb_spec now (e_end e)); lia.
Qed.
Lemma sorted_tail a tl : sorted (a :: tl) -> sorted tl.
Proof. cbn. tauto. Qed.

(* ================================================================================ *)
(* 3. TrackDelegation / TrackUndelegation / the maturity sweep                        *)
(* ================================================================================ *)

Lemma track_undelegation_spec amt dl df : 0 < amt -> 0 <= dl -> 0 <= df ->
  exists dl' df', track_undelegation amt dl df = Ok (dl', df') /\
    0 <= dl' <= dl /\ 0 <= df' <= df /\ dl' + df' = Z.max 0 (dl + df - amt).
Proof.
  intros Ha Hl Hf. unfold track_undelegation.
  destruct (Z.eqb_spec amt 0); [lia|].
  destruct (Z.ltb_spec (Z.min df amt) 0); [lia|].
  destruct (Z.ltb_spec (Z.min dl (amt - Z.min df amt)) 0); [lia|].
  cbn [orb]. eexists _, _. split; [reflexivity|]. lia.
Qed.

Lemma track_delegation_ok bal L amt dl df dl' df' : 0 <= dl -> 0 <= df ->
  track_delegation bal L amt dl df = Ok (dl', df') ->
  0 < amt <= bal /\ dl <= dl' /\ df <= df' /\ dl' + df' = dl + df + amt /\
  (dl' = dl + Z.min (Z.max (L - dl) 0) amt).
Proof.
  intros Hl Hf. unfold track_delegation.
  destruct (Z.eqb_spec amt 0); [discriminate|].
  destruct (Z.ltb_spec bal amt); [discriminate|]. cbn [orb].
  destruct (Z.ltb_spec (Z.min (Z.max (L - dl) 0) amt) 0); [discriminate|].
  destruct (Z.ltb_spec (amt - Z.min (Z.max (L - dl) 0) amt) 0); [discriminate|].
  cbn [orb]. intros Hres. injection Hres as <- <-. lia.
Qed.

(* one validator's list *)
Lemma sweep_list_spec now l : pos_ent l -> sorted l -> forall dl df, 0 <= dl -> 0 <= df ->
  exists l' dl' df' s, sweep_list now l dl df = (l', dl', df', s) /\
    (s = SwDone \/ s = SwEarly) /\
    0 <= dl' <= dl /\ 0 <= df' <= df /\
    dl' + df' = Z.max 0 (dl + df - (esum l - eafter now l)) /\
    (s = SwDone -> eafter now l = 0).
Proof.
  induction l as [|e tl IH]; intros Hp Hs dl df Hl Hf.
  - cbn. eexists _, _, _, _. split; [reflexivity|]. repeat split; try lia; left; reflexivity.
  - inversion Hp as [|? ? He Hp']; subst.
    cbn [sweep_list].
    destruct (Z.ltb_spec now (e_end e)) as [A|A].
    + eexists _, _, _, _. split; [reflexivity|].
      rewrite (sorted_head_after now e tl Hs A).
      repeat split; try lia; try (right; reflexivity); try (intros X; discriminate).
    + destruct (track_undelegation_spec (e_amt e) dl df He Hl Hf) as (dl1 & df1 & E1 & B1 & B2 & B3).
      rewrite E1.
      destruct (IH Hp' (sorted_tail _ _ Hs) dl1 df1 ltac:(lia) ltac:(lia))
        as (l' & dl' & df' & s & E & Hs' & C1 & C2 & C3 & C4).
      eexists _, _, _, _. split; [exact E|].
      cbn [esum eafter]. destruct (Z.ltb_spec now (e_end e)); [lia|].
      pose proof (eafter_bounds now tl Hp').
      repeat split; try lia; try exact Hs'.
Qed.

(* the walk over all validators *)
Lemma sweep_walk_spec now st : ent_ok st -> forall dl df, 0 <= dl -> 0 <= df ->
  exists st' dl' df' rm s, sweep_walk now st dl df = (st', dl', df', rm, s) /\
    (s = SwDone \/ s = SwEarly) /\
    0 <= dl' <= dl /\ 0 <= df' <= df /\
    dl' + df' = Z.max 0 (dl + df - (ssum st - safter now st)) /\
    ent_ok st' /\ (forall tau, now <= tau -> safter tau st' = safter tau st) /\
    ssum st' <= ssum st.
Proof.
  induction st as [|[k l] tl IH]; intros Hok dl df Hl Hf.
  - cbn. eexists _, _, _, _, _. split; [reflexivity|]. repeat split; cbn; try lia; try (left; reflexivity); try constructor.
  - inversion Hok as [|? ? [Hne [Hp Hs]] Hok']; subst. cbn [snd] in *.
    cbn [sweep_walk].
    destruct (sweep_list_spec now l Hp Hs dl df Hl Hf) as (l1 & dl1 & df1 & s1 & E1 & Hs1 & B1 & B2 & B3 & B4).
    rewrite E1.
    destruct (IH Hok' dl1 df1 ltac:(lia) ltac:(lia)) as (tl' & dl' & df' & rm & s & E & Hs' & C1 & C2 & C3 & C4 & C5 & C6).
    pose proof (eafter_bounds now l Hp) as Hb.
    pose proof (safter_bounds now tl Hok') as Hb2.
    destruct Hs1 as [-> | ->].
    + rewrite E. eexists _, _, _, _, _. split; [reflexivity|].
      specialize (B4 eq_refl).
      cbn [ssum safter].
      repeat split; try lia; try assumption.
      * intros tau Ht. rewrite (C5 tau Ht).
        (* everything in l is mature: nothing of it is after tau >= now *)
        assert (eafter tau l = 0).
        { clear - Hp B4 Ht. induction Hp as [|e tl0 He Hp0 IH]; cbn in *; [reflexivity|].
          pose proof (eafter_bounds now tl0 Hp0).
          destruct (Z.ltb_spec now (e_end e)); [lia|].
          destruct (Z.ltb_spec tau (e_end e)); [lia|]. rewrite IH; lia. }
        lia.
    + rewrite E. eexists _, _, _, _, _. split; [reflexivity|].
      cbn [ssum safter].
      repeat split; try lia; try assumption.
      all: try (constructor; [cbn; repeat split; assumption|assumption]).
      all: try (intros tau Ht; rewrite (C5 tau Ht); reflexivity).
Qed.

Lemma sweep_spec now st dl df : ent_ok st -> 0 <= dl -> 0 <= df ->
  exists st' dl' df', sweep now st dl df = Ok (st', dl', df') /\
    0 <= dl' <= dl /\ 0 <= df' <= df /\
    dl' + df' = Z.max 0 (dl + df - (ssum st - safter now st)) /\
    ent_ok st' /\ (forall tau, now <= tau -> safter tau st' = safter tau st) /\
    ssum st' <= ssum st.
Proof.
  intros Hok Hl Hf.
  destruct (sweep_walk_spec now st Hok dl df Hl Hf) as (st' & dl' & df' & rm & s & E & Hs & R).
  unfold sweep. rewrite E. exists st', dl', df'.
  destruct Hs as [-> | ->]; (split; [reflexivity|exact R]).
Qed.

(* ================================================================================ *)
(* 4. Balances and coins                                                              *)
(* ================================================================================ *)

Fixpoint fee_of (cs : list (Z * Z)) : Z :=
  match cs with [] => 0 | (d, a) :: tl => (if d =? FEE then a else 0) + fee_of tl end.
Fixpoint bond_of (cs : list (Z * Z)) : Z :=
  match cs with [] => 0 | (d, a) :: tl => (if d =? BOND then a else 0) + bond_of tl end.

Lemma coins_val_split cs : coins_val cs = fee_of cs + bond_of cs.
Proof.
  induction cs as [|[d a] tl IH]; cbn; [reflexivity|]. rewrite IH.
  destruct (Z.eqb_spec d FEE) as [E1|]; destruct (Z.eqb_spec d BOND) as [E2|]; cbn; try lia.
  subst d. discriminate E2.
Qed.

Lemma b_fee_badd b d x : b_fee (badd b d x) = b_fee b + (if d =? FEE then x else 0).
Proof. unfold badd. destruct (d =? FEE); [cbn; lia|]. destruct (d =? BOND); cbn; lia. Qed.
Lemma b_bond_badd b d x : b_bond (badd b d x) = b_bond b + (if d =? BOND then x else 0).
Proof.
  unfold badd. destruct (Z.eqb_spec d FEE) as [->|]; [cbn; lia|]. destruct (d =? BOND); cbn; lia.
Qed.
Lemma b_fee_badd_coins cs : forall b, b_fee (badd_coins b cs) = b_fee b + fee_of cs.
Proof. induction cs as [|[d a] tl IH]; intros b; cbn; [lia|]. rewrite IH, b_fee_badd. lia. Qed.
Lemma b_bond_badd_coins cs : forall b, b_bond (badd_coins b cs) = b_bond b + bond_of cs.
Proof. induction cs as [|[d a] tl IH]; intros b; cbn; [lia|]. rewrite IH, b_bond_badd. lia. Qed.
Lemma b_fee_bsub_coins cs : forall b, b_fee (bsub_coins b cs) = b_fee b - fee_of cs.
Proof.
  induction cs as [|[d a] tl IH]; intros b; cbn; [lia|]. rewrite IH, b_fee_badd.
  destruct (d =? FEE); lia.
Qed.
Lemma b_bond_bsub_coins cs : forall b, b_bond (bsub_coins b cs) = b_bond b - bond_of cs.
Proof.
  induction cs as [|[d a] tl IH]; intros b; cbn; [lia|]. rewrite IH, b_bond_badd.
  destruct (d =? BOND); lia.
Qed.

Lemma no_bond cs : has_denom BOND cs = false -> bond_of cs = 0.
Proof.
  induction cs as [|[d a] tl IH]; cbn; [reflexivity|].
  destruct (d =? BOND); cbn; [discriminate|]. intros H. rewrite IH by exact H. lia.
Qed.

Lemma sorted_above lo cs d : coins_sorted lo cs = true -> d <= lo ->
  (forall a, ~ In (d, a) cs).
Proof.
  revert lo. induction cs as [|[k v] tl IH]; intros lo Hs Hd a Hin; [exact Hin|].
  cbn in Hs. apply andb_prop in Hs as [Hs Hs2]. apply andb_prop in Hs as [Hlo Hpos].
  destruct Hin as [E|Hin].
  - injection E as -> ->. lia.
  - apply (IH k Hs2 ltac:(lia) a Hin).
Qed.
Lemma fee_of_absent cs : (forall a, ~ In (FEE, a) cs) -> fee_of cs = 0.
Proof.
  induction cs as [|[k v] tl IH]; intros H; cbn; [reflexivity|].
  destruct (Z.eqb_spec k FEE) as [->|].
  - exfalso. apply (H v). left; reflexivity.
  - rewrite IH; [lia|]. intros a Hin. apply (H a). right; exact Hin.
Qed.
Lemma bond_of_absent cs : (forall a, ~ In (BOND, a) cs) -> bond_of cs = 0.
Proof.
  induction cs as [|[k v] tl IH]; intros H; cbn; [reflexivity|].
  destruct (Z.eqb_spec k BOND) as [->|].
  - exfalso. apply (H v). left; reflexivity.
  - rewrite IH; [lia|]. intros a Hin. apply (H a). right; exact Hin.
Qed.

(* in a valid coin list a denom occurs at most once: its total is 0 or the amount of its one coin *)
Lemma fee_once lo cs : coins_sorted lo cs = true ->
  (fee_of cs = 0 /\ forall a, ~ In (FEE, a) cs) \/ (exists a, In (FEE, a) cs /\ fee_of cs = a /\ 0 < a).
Proof.
  revert lo. induction cs as [|[k v] tl IH]; intros lo Hs.
  - left. split; [reflexivity|]. intros a H; exact H.
  - cbn in Hs. apply andb_prop in Hs as [Hs Hs2]. apply andb_prop in Hs as [Hlo Hpos].
    cbn [fee_of]. destruct (Z.eqb_spec k FEE) as [->|Hne].
    + right. exists v. split; [left; reflexivity|].
      rewrite (fee_of_absent tl) by (apply (sorted_above FEE tl FEE Hs2); lia). lia.
    + destruct (IH k Hs2) as [[E Hno] | (a & Hin & E & Ha)].
      * left. split; [lia|]. intros a [X|X]; [injection X as -> ->; lia|apply (Hno a X)].
      * right. exists a. split; [right; exact Hin|lia].
Qed.
Lemma bond_once lo cs : coins_sorted lo cs = true ->
  (bond_of cs = 0) \/ (exists a, In (BOND, a) cs /\ bond_of cs = a /\ 0 < a).
Proof.
  revert lo. induction cs as [|[k v] tl IH]; intros lo Hs.
  - left. reflexivity.
  - cbn in Hs. apply andb_prop in Hs as [Hs Hs2]. apply andb_prop in Hs as [Hlo Hpos].
    cbn [bond_of]. destruct (Z.eqb_spec k BOND) as [->|Hne].
    + right. exists v. split; [left; reflexivity|].
      rewrite (bond_of_absent tl) by (apply (sorted_above BOND tl BOND Hs2); lia). lia.
    + destruct (IH k Hs2) as [E | (a & Hin & E & Ha)].
      * left. lia.
      * right. exists a. split; [right; exact Hin|lia].
Qed.

Lemma covers_in b cs d a : covers b cs = true -> In (d, a) cs -> a <= bget b d.
Proof.
  induction cs as [|[k v] tl IH]; intros Hc Hin; [destruct Hin|].
  cbn in Hc. apply andb_prop in Hc as [H1 H2].
  destruct Hin as [E|Hin]; [injection E as -> ->; lia|apply IH; assumption].
Qed.

Lemma find_get d l v : find d l = Some v -> get d l = v.
Proof.
  induction l as [|[k x] tl IH]; cbn; [discriminate|].
  destruct (k =? d); [intros H; injection H as ->; reflexivity|exact IH].
Qed.

Lemma bget_fee b : bget b FEE = b_fee b. Proof. reflexivity. Qed.
Lemma bget_bond b : bget b BOND = b_bond b. Proof. reflexivity. Qed.

Lemma bval_badd_coins cs b : bval (badd_coins b cs) = bval b + coins_val cs.
Proof. unfold bval. rewrite b_fee_badd_coins, b_bond_badd_coins, coins_val_split. lia. Qed.
Lemma bval_bsub_coins cs b : bval (bsub_coins b cs) = bval b - coins_val cs.
Proof. unfold bval. rewrite b_fee_bsub_coins, b_bond_bsub_coins, coins_val_split. lia. Qed.

(* ================================================================================ *)
(* 5. The invariant                                                                   *)
(* ================================================================================ *)

(* custody that counts towards DL / DF: bond tokens held by the proxy, the proxy's stake and its
   staking unbondings, the share-class principal and the pending share-class unbondings *)
Definition sd_cust (w : world) : Z := b_bond (w_pb w) + w_stk_del w + sum2 (w_stk_unb w) + w_sc_del w.
Lemma custody_b_eq w : custody_b w = sd_cust w + sum2 (w_sc_unb w).
Proof. reflexivity. Qed.
(* everything that is still "inside": account and proxy balances (fee + bond denom) plus custody *)
Definition inside (w : world) : Z :=
  bval (w_ab w) + bval (w_pb w) + w_stk_del w + sum2 (w_stk_unb w) + w_sc_del w + sum2 (w_sc_unb w).
Definition lk (w : world) : Z := lkv (orig_fee w) (w_start w) (w_end w) (w_now w).

Definition lkok (X now : Z) (scu : list (Z * Z)) (st : store) (dl df : Z) : Prop :=
  ent_ok st /\ 0 <= dl /\ 0 <= df /\ dl + df <= X + ssum st /\
  (forall tau, now <= tau -> safter tau st <= uafter tau scu).

Record inv (w : world) : Prop := {
  i_af : 0 <= b_fee (w_ab w); i_abd : 0 <= b_bond (w_ab w);
  i_pf : 0 <= b_fee (w_pb w); i_pbd : 0 <= b_bond (w_pb w);
  i_sd : 0 <= w_stk_del w; i_cd : 0 <= w_sc_del w;
  i_su : pos_unb (w_stk_unb w); i_cu : pos_unb (w_sc_unb w);
  i_orig : 0 <= orig_fee w;
  i_ident : inside w = orig_fee w + bval (w_rew w) + bval (w_dep w) - bval (w_out w);
  i_lk : lkok (sd_cust w) (w_now w) (w_sc_unb w) (w_ent w) (w_DL w) (w_DF w);
  i_K : lk w <= b_fee (w_ab w) + custody_b w
}.

Lemma sweep_lkok X now scu st dl df st' dl' df' :
  lkok X now scu st dl df -> 0 <= X -> pos_unb scu ->
  sweep now st dl df = Ok (st', dl', df') ->
  lkok X now scu st' dl' df' /\ dl' <= dl /\ df' <= df /\ dl' + df' <= X + uafter now scu.
Proof.
  intros (Hok & Hl & Hf & Ht & Hp) HX Hs E.
  destruct (sweep_spec now st dl df Hok Hl Hf) as (st1 & dl1 & df1 & E1 & B1 & B2 & B3 & B4 & B5 & B6).
  rewrite E1 in E. injection E as <- <- <-.
  pose proof (safter_bounds now st Hok) as S0.
  pose proof (safter_bounds now st1 B4) as S1.
  pose proof (B5 now ltac:(lia)) as S2.
  pose proof (Hp now ltac:(lia)) as S3.
  pose proof (uafter_le_sum2 now scu Hs) as S4.
  repeat split; try lia; try assumption.
  all: try (intros tau Ht'; rewrite (B5 tau Ht'); apply Hp; exact Ht').
Qed.

Lemma locked_list_fee w cs lks a : locked_list w cs = Ok lks -> In (FEE, a) cs ->
  locked_of w FEE = Some (get FEE lks).
Proof.
  revert lks. induction cs as [|[d x] tl IH]; intros lks E Hin; [destruct Hin|].
  cbn [locked_list] in E.
  destruct (find d (w_orig w)) as [o|] eqn:Ef; [|discriminate].
  destruct (locked_raw o (w_start w) (w_end w) (w_now w)) as [L|] eqn:El; [|discriminate].
  destruct (locked_list w tl) as [r| |] eqn:Er; cbn in E; try discriminate.
  injection E as <-. cbn [get].
  destruct (Z.eqb_spec d FEE) as [->|Hne].
  - unfold locked_of. rewrite (find_get _ _ _ Ef). exact El.
  - destruct Hin as [X|Hin]; [injection X as -> ->; lia|]. apply (IH r eq_refl Hin).
Qed.

Lemma sendable_spec w lks cs X scu : 0 <= X -> pos_unb scu ->
  forall st dl df st' dl' df',
  lkok X (w_now w) scu st dl df ->
  sendable w lks cs st dl df = Ok (st', dl', df') ->
  lkok X (w_now w) scu st' dl' df' /\ dl' <= dl /\ df' <= df /\
  (forall a, In (FEE, a) cs -> a + (get FEE lks - X - uafter (w_now w) scu) <= b_fee (w_ab w)).
Proof.
  intros HX Hs. induction cs as [|[d a] tl IH]; intros st dl df st' dl' df' Hk E.
  - cbn in E. injection E as <- <- <-.
    split; [exact Hk|]. split; [lia|]. split; [lia|]. intros a [].
  - cbn [sendable] in E.
    destruct (sweep (w_now w) st dl df) as [[[st1 dl1] df1]| |] eqn:Es; cbn in E; try discriminate.
    destruct (sweep_lkok _ _ _ _ _ _ _ _ _ Hk HX Hs Es) as (Hk1 & M1 & M2 & M3).
    destruct (Z.ltb_spec (bget (w_ab w) d) (if d =? FEE then get d lks - Z.min (get d lks) dl1 else get d lks)) as [A|A];
      [discriminate|].
    destruct (Z.ltb_spec (bget (w_ab w) d - (if d =? FEE then get d lks - Z.min (get d lks) dl1 else get d lks)) a) as [B|B];
      [discriminate|].
    destruct (IH _ _ _ _ _ _ Hk1 E) as (Hk' & N1 & N2 & N3).
    split; [exact Hk'|]. split; [lia|]. split; [lia|].
    intros a0 [X0|Hin]; [|apply (N3 a0 Hin)].
    injection X0 as -> ->. rewrite Z.eqb_refl in B. rewrite bget_fee in B.
    destruct Hk1 as (_ & Hl1 & Hf1 & _). lia.
Qed.

(* ---------- recording an unbond entry ---------- *)
Definition ends_le (t : Z) (l : list entry) : Prop := Forall (fun e => e_end e <= t) l.
Definition all_ends_le (t : Z) (st : store) : Prop := Forall (fun kl => ends_le t (snd kl)) st.

Lemma merge_entry_spec h t amt l l' : merge_entry h t amt l = Some l' ->
  esum l' = esum l + amt /\ (forall tau, eafter tau l' = eafter tau l + (if tau <? t then amt else 0)) /\
  (0 < amt -> pos_ent l -> pos_ent l') /\ (sorted l -> sorted l') /\ l' <> [] /\
  (match l, l' with a :: _, b :: _ => e_end a = e_end b | _, _ => True end).
Proof.
  revert l'. induction l as [|e tl IH]; intros l' E; cbn in E; [discriminate|].
  destruct ((e_h e =? h) && (e_end e =? t)) eqn:C.
  - injection E as <-. apply andb_prop in C as [_ C2]. apply Z.eqb_eq in C2.
    cbn. rewrite C2.
    split; [lia|]. split; [intros tau; destruct (tau <? t); lia|].
    split; [intros Ha Hp; inversion Hp; subst; constructor; [cbn; lia|assumption]|].
    split; [intros [Hh Hs]; split; [destruct tl; [exact I|cbn; lia]|exact Hs]|].
    split; [discriminate|reflexivity].
  - destruct (merge_entry h t amt tl) as [tl'|] eqn:Em; [|discriminate]. injection E as <-.
    destruct (IH tl' eq_refl) as (S1 & S2 & S3 & S4 & S5 & S6).
    cbn.
    split; [lia|]. split; [intros tau; rewrite S2; lia|].
    split; [intros Ha Hp; inversion Hp; subst; constructor; [assumption|apply S3; assumption]|].
    split; [|split; [discriminate|reflexivity]].
    intros [Hh Hs]. split; [|apply S4; exact Hs].
    destruct tl as [|a tl0]; [discriminate Em|]. destruct tl' as [|b tl1]; [congruence|]. rewrite <- S6. exact Hh.
Qed.

Lemma sorted_snoc l e : sorted l -> ends_le (e_end e) l -> sorted (l ++ [e]).
Proof.
  induction l as [|a tl IH]; intros Hs He; cbn; [tauto|].
  inversion He; subst. destruct Hs as [Hh Hs]. split; [|apply IH; assumption].
  destruct tl as [|b tl0]; cbn; [assumption|exact Hh].
Qed.
Lemma esum_app l1 l2 : esum (l1 ++ l2) = esum l1 + esum l2.
Proof. induction l1; cbn; lia. Qed.
Lemma eafter_app tau l1 l2 : eafter tau (l1 ++ l2) = eafter tau l1 + eafter tau l2.
Proof. induction l1; cbn; lia. Qed.

Lemma add_entry_spec h t amt l : 0 < amt -> ends_le t l -> (l = [] \/ list_ok l) ->
  esum (add_entry h t amt l) = esum l + amt /\
  (forall tau, eafter tau (add_entry h t amt l) = eafter tau l + (if tau <? t then amt else 0)) /\
  list_ok (add_entry h t amt l).
Proof.
  intros Ha He Hl. unfold add_entry.
  assert (Hp : pos_ent l) by (destruct Hl as [->|[_ [H _]]]; [constructor|exact H]).
  assert (Hs : sorted l) by (destruct Hl as [->|[_ [_ H]]]; [exact I|exact H]).
  destruct (merge_entry h t amt l) as [l'|] eqn:Em.
  - destruct (merge_entry_spec _ _ _ _ _ Em) as (S1 & S2 & S3 & S4 & S5 & _).
    split; [exact S1|]. split; [exact S2|]. split; [exact S5|]. split; [apply S3; assumption|apply S4; assumption].
  - rewrite esum_app. split; [cbn; lia|]. split.
    + intros tau. rewrite eafter_app. cbn. lia.
    + split; [destruct l; discriminate|]. split.
      * apply Forall_app. split; [exact Hp|constructor; [cbn; lia|constructor]].
      * apply sorted_snoc; [exact Hs|exact He].
Qed.

Lemma store_add_spec val h t amt st : 0 < amt -> all_ends_le t st -> ent_ok st ->
  ssum (store_add val h t amt st) = ssum st + amt /\
  (forall tau, safter tau (store_add val h t amt st) = safter tau st + (if tau <? t then amt else 0)) /\
  ent_ok (store_add val h t amt st).
Proof.
  intros Ha. induction st as [|[k l] tl IH]; intros He Hok.
  - cbn [store_add]. destruct (add_entry_spec h t amt [] Ha ltac:(constructor) ltac:(left; reflexivity)) as (S1 & S2 & S3).
    cbn [ssum safter esum eafter] in *. split; [lia|]. split.
    + intros tau. rewrite S2. lia.
    + constructor; [exact S3|constructor].
  - inversion He as [|? ? He1 He2]; subst. inversion Hok as [|? ? Hl Hok2]; subst. cbn [snd] in *.
    cbn [store_add]. destruct (k =? val).
    + destruct (add_entry_spec h t amt l Ha He1 ltac:(right; exact Hl)) as (S1 & S2 & S3).
      cbn [ssum safter]. split; [lia|]. split.
      * intros tau. rewrite S2. lia.
      * constructor; [exact S3|exact Hok2].
    + destruct (val <? k).
      * destruct (add_entry_spec h t amt [] Ha ltac:(constructor) ltac:(left; reflexivity)) as (S1 & S2 & S3).
        cbn [ssum safter esum eafter] in *. split; [lia|]. split.
        -- intros tau. rewrite S2. lia.
        -- constructor; [exact S3|exact Hok].
      * destruct (IH He2 Hok2) as (S1 & S2 & S3).
        cbn [ssum safter]. split; [lia|]. split.
        -- intros tau. rewrite S2. lia.
        -- constructor; [exact Hl|exact S3].
Qed.

(* ================================================================================ *)
(* 6. Every operation preserves the invariant                                         *)
(* ================================================================================ *)

(* what is assumed about the values the oracles (staking, distribution, share-class) return *)
Definition op_ok (w : world) (o : op) : Prop :=
  match o with
  | ODelegate _ _ _ _ _ (Ok (rf, rb)) => 0 <= rf /\ 0 <= rb
  | OUndelegate _ _ _ _ _ (Ok (t, ramt, rf, rb)) =>
      0 < ramt /\ 0 <= rf /\ 0 <= rb /\ all_ends_le t (w_ent w)      (* completion times do not decrease *)
  | OWithdrawReward _ _ _ (Ok (rf, rb)) => 0 <= rf /\ 0 <= rb
  | OSelfDelegate _ _ _ (Ok (rf, rb)) => 0 <= rf /\ 0 <= rb
  | OPUndelegate _ _ amt (Ok (_, rf, rb)) => 0 < amt <= w_stk_del w /\ 0 <= rf /\ 0 <= rb
  | OPWithdrawReward _ _ _ (Ok (rf, rb)) => 0 <= rf /\ 0 <= rb
  | _ => True
  end.

Ltac simp_w :=
  unfold add_rew, set_lk, set_bk, set_cust, set_gh, set_clk in *;
  cbn [w_sd w_owner w_start w_end w_orig w_now w_height w_DL w_DF w_ent w_ab w_has_proxy w_pb
       w_stk_del w_stk_unb w_sc_del w_sc_unb w_out w_rew w_dep b_fee b_bond b_oth] in *.

Lemma bfee_FEE b x : b_fee (badd b FEE x) = b_fee b + x. Proof. reflexivity. Qed.
Lemma bbond_FEE b x : b_bond (badd b FEE x) = b_bond b. Proof. reflexivity. Qed.
Lemma bfee_BOND b x : b_fee (badd b BOND x) = b_fee b. Proof. reflexivity. Qed.
Lemma bbond_BOND b x : b_bond (badd b BOND x) = b_bond b + x. Proof. reflexivity. Qed.

Ltac bal_rw := repeat first [rewrite bfee_FEE in * | rewrite bbond_FEE in * | rewrite bfee_BOND in * | rewrite bbond_BOND in *].

Lemma lkok_mono X X' now scu st dl df : lkok X now scu st dl df -> X <= X' -> lkok X' now scu st dl df.
Proof. intros (A & B & C & D & E) H. repeat split; try assumption; lia. Qed.

Definition lk_static (w w' : world) : Prop :=
  w_orig w' = w_orig w /\ w_start w' = w_start w /\ w_end w' = w_end w /\ w_now w' = w_now w.
Lemma lk_same w w' : lk_static w w' -> lk w' = lk w /\ orig_fee w' = orig_fee w.
Proof. intros (A & B & C & D). unfold lk, orig_fee. rewrite A, B, C, D. split; reflexivity. Qed.

(* rewards credited to the account or to the proxy *)
Lemma add_rew_inv w tp rf rb : inv w -> 0 <= rf -> 0 <= rb -> inv (add_rew w tp rf rb).
Proof.
  intros I Hf Hb. destruct I.
  assert (LS : lk_static w (add_rew w tp rf rb)) by (destruct tp; repeat split).
  destruct (lk_same _ _ LS) as [Lk Of].
  constructor; rewrite ?Lk, ?Of; destruct tp; unfold custody_b, sd_cust, inside, bval in *; simp_w; bal_rw; try lia; try assumption.
  all: eapply lkok_mono; [exact i_lk0|lia].
Qed.

Lemma inv_sd_cust_nonneg w : inv w -> 0 <= sd_cust w.
Proof. intros I. destruct I. unfold sd_cust. pose proof (sum2_nonneg _ i_su0). lia. Qed.

(* Send from the account *)
Lemma bank_send_inv c w w0 fp to cs : bond_sendable c = false -> inv w0 ->
  (* w differs from w0 only in the refreshed DL / DF / entries, already re-established *)
  lk_static w0 w -> w_ab w = w_ab w0 -> w_pb w = w_pb w0 -> w_stk_del w = w_stk_del w0 ->
  w_stk_unb w = w_stk_unb w0 -> w_sc_del w = w_sc_del w0 -> w_sc_unb w = w_sc_unb w0 ->
  w_out w = w_out w0 -> w_rew w = w_rew w0 -> w_dep w = w_dep w0 ->
  lkok (sd_cust w0) (w_now w0) (w_sc_unb w0) (w_ent w) (w_DL w) (w_DF w) ->
  (* the sendable check, when the account itself sends *)
  (fp = false -> forall a, In (FEE, a) cs -> a + lk w0 <= b_fee (w_ab w0) + custody_b w0) ->
  forall w', bank_msg_send c w fp to cs = Ok w' -> inv w'.
Proof.
  intros Hc I LS Eab Epb Esd Esu Ecd Ecu Eo Er Ed Hk Hchk w' E.
  destruct (lk_same _ _ LS) as [Lk Of]. destruct LS as (L1 & L2 & L3 & L4).
  unfold bank_msg_send in E.
  destruct (coins_valid cs) eqn:Hv; cbn [negb] in E; [|discriminate].
  destruct cs as [|c0 cs0]; [discriminate|]. cbv beta iota in E. remember (c0 :: cs0) as cs eqn:Ecs.
  rewrite Hc in E. cbn [negb] in E. rewrite andb_true_r in E.
  destruct (has_denom BOND cs) eqn:Hb; [discriminate|].
  pose proof (no_bond cs Hb) as Hnb.
  assert (Hcv : coins_val cs = fee_of cs) by (rewrite coins_val_split; lia).
  unfold coins_valid in Hv.
  destruct I.
  assert (Hsrc : forall b, covers b cs = true -> 0 <= b_fee b -> 0 <= fee_of cs <= b_fee b).
  { intros b Hcov Hb0. destruct (fee_once 0 cs Hv) as [[E0 _] | (a & Hin & E0 & Ha)]; [lia|].
    pose proof (covers_in b cs FEE a Hcov Hin) as Hle. rewrite bget_fee in Hle. lia. }
  assert (HK : fp = false -> fee_of cs + lk w0 <= b_fee (w_ab w0) + custody_b w0).
  { intros Hfp. destruct (fee_once 0 cs Hv) as [[E0 _] | (a & Hin & E0 & Ha)]; [lia|].
    rewrite E0. apply (Hchk Hfp a Hin). }
  destruct to; try discriminate.
  all: destruct fp; rewrite ?Eab, ?Epb in E.
  all: match type of E with context[covers ?b ?c] => destruct (covers b c) eqn:Hcov; cbn [negb] in E; [|discriminate] end.
  all: try (destruct (w_has_proxy w); [|discriminate]).
  all: injection E as <-.
  all: try (pose proof (Hsrc _ Hcov i_pf0) as Hfee); try (pose proof (Hsrc _ Hcov i_af0) as Hfee).
  all: try specialize (HK eq_refl).
  all: constructor; unfold lk, orig_fee, custody_b, sd_cust, inside in *; simp_w;
       rewrite ?L1, ?L2, ?L3, ?L4, ?Eab, ?Epb, ?Esd, ?Esu, ?Ecd, ?Ecu, ?Eo, ?Er, ?Ed in *;
       rewrite ?bval_badd_coins, ?bval_bsub_coins, ?b_fee_badd_coins, ?b_fee_bsub_coins,
               ?b_bond_badd_coins, ?b_bond_bsub_coins in *; unfold bval in *;
       rewrite ?b_fee_badd_coins, ?b_fee_bsub_coins, ?b_bond_badd_coins, ?b_bond_bsub_coins in *;
       try lia; try assumption.
  all: eapply lkok_mono; [exact Hk|lia].
Qed.

Lemma lkok_change X X' now scu st dl df dl' df' :
  lkok X now scu st dl df -> 0 <= dl' -> 0 <= df' -> dl' + df' - (dl + df) <= X' - X ->
  lkok X' now scu st dl' df'.
Proof. intros (A & B & C & D & E) H1 H2 H3. repeat split; try assumption; lia. Qed.

Lemma lk_is_val w : lk w = val (locked_of w FEE).
Proof. reflexivity. Qed.

Lemma do_send_inv c w es ms to cs w' :
  bond_sendable c = false -> inv w -> do_send c w es ms to cs = Ok w' -> inv w'.
Proof.
  intros Hc I E. unfold do_send in E.
  destruct (auth c w es ms); cbn [negb] in E; [|discriminate].
  destruct (coins_valid cs) eqn:Hv; cbn [negb] in E; [|discriminate].
  destruct (locked_list w cs) as [lks| |] eqn:El; cbn in E; try discriminate.
  destruct (sendable w lks cs (w_ent w) (w_DL w) (w_DF w)) as [[[st dl] df]| |] eqn:Es; cbn in E; try discriminate.
  pose proof I as I0. destruct I.
  destruct (sendable_spec w lks cs (sd_cust w) (w_sc_unb w) (inv_sd_cust_nonneg w I0) i_cu0 _ _ _ _ _ _ i_lk0 Es)
    as (Hk & M1 & M2 & M3).
  eapply (bank_send_inv c (set_lk w dl df st) w false to cs Hc I0); try reflexivity; try exact E.
  - repeat split.
  - exact Hk.
  - intros _ a Hin. specialize (M3 a Hin).
    pose proof (locked_list_fee w cs lks a El Hin) as HL.
    rewrite lk_is_val, HL. cbn [val].
    pose proof (uafter_le_sum2 (w_now w) (w_sc_unb w) i_cu0). rewrite custody_b_eq. lia.
Qed.

Lemma do_p_send_inv c w es ms to cs w' :
  bond_sendable c = false -> inv w -> do_p_send c w es ms to cs = Ok w' -> inv w'.
Proof.
  intros Hc I E. unfold do_p_send in E.
  destruct (w_has_proxy w); cbn [negb] in E; [|discriminate].
  destruct (auth c w es ms); cbn [negb] in E; [|discriminate].
  pose proof I as I0. destruct I.
  eapply (bank_send_inv c w w true to cs Hc I0); try reflexivity; try exact E.
  - repeat split.
  - exact i_lk0.
  - intros X; discriminate X.
Qed.

Ltac fin := unfold lk, orig_fee, custody_b, sd_cust, inside, bval in *; simp_w; bal_rw;
            rewrite ?sum2_app in *; cbn [sum2] in *; try lia; try assumption.

Lemma do_delegate_inv c w es ms v d amt orc w' :
  inv w -> op_ok w (ODelegate es ms v d amt orc) -> do_delegate c w es ms v d amt orc = Ok w' -> inv w'.
Proof.
  intros I Hop E. unfold do_delegate in E.
  destruct (w_sd w); [discriminate|].
  destruct (auth c w es ms); cbn [negb] in E; [|discriminate].
  destruct (find d (w_orig w)) as [o|] eqn:Ef; [|discriminate].
  destruct (locked_raw o (w_start w) (w_end w) (w_now w)) as [L|] eqn:EL; [|discriminate].
  destruct (sweep (w_now w) (w_ent w) (w_DL w) (w_DF w)) as [[[st dl] df]| |] eqn:Es; cbn in E; try discriminate.
  pose proof I as I0. destruct I.
  destruct (sweep_lkok _ _ _ _ _ _ _ _ _ i_lk0 (inv_sd_cust_nonneg w I0) i_cu0 Es) as (Hk & M1 & M2 & M3).
  destruct (track_delegation (if d =? FEE then bget (w_ab w) d else 0) (if d =? FEE then L else 0)
              (if d =? FEE then amt else 0) dl df) as [[dl' df']| |] eqn:Et; cbn in E; try discriminate.
  destruct Hk as (K1 & K2 & K3 & K4 & K5).
  destruct (track_delegation_ok _ _ _ _ _ _ _ K2 K3 Et) as (T1 & T2 & T3 & T4 & _).
  destruct (Z.eqb_spec d FEE) as [->|]; [|lia]. rewrite bget_fee in T1.
  destruct orc as [[rf rb]| |]; cbn in E; try discriminate. injection E as <-.
  cbn in Hop. destruct Hop as [Hrf Hrb].
  apply add_rew_inv; [|exact Hrf|exact Hrb].
  constructor; fin.
  eapply (lkok_change (b_bond (w_pb w) + w_stk_del w + sum2 (w_stk_unb w) + w_sc_del w) _ _ _ _ dl df);
    [unfold lkok; repeat split; assumption|lia|lia|lia].
Qed.

Lemma do_self_delegate_inv c w es ms amt orc w' :
  inv w -> op_ok w (OSelfDelegate es ms amt orc) -> do_self_delegate c w es ms amt orc = Ok w' -> inv w'.
Proof.
  intros I Hop E. unfold do_self_delegate in E.
  destruct (w_sd w); cbn [negb] in E; [|discriminate].
  destruct (auth c w es ms); cbn [negb] in E; [|discriminate].
  destruct (amt <? 0); [discriminate|].
  destruct (find FEE (w_orig w)) as [o|] eqn:Ef; [|discriminate].
  destruct (locked_raw o (w_start w) (w_end w) (w_now w)) as [L|] eqn:EL; [|discriminate].
  destruct (sweep (w_now w) (w_ent w) (w_DL w) (w_DF w)) as [[[st dl] df]| |] eqn:Es; cbn in E; try discriminate.
  pose proof I as I0. destruct I.
  destruct (sweep_lkok _ _ _ _ _ _ _ _ _ i_lk0 (inv_sd_cust_nonneg w I0) i_cu0 Es) as (Hk & M1 & M2 & M3).
  destruct (track_delegation (b_fee (w_ab w)) L amt dl df) as [[dl' df']| |] eqn:Et; cbn in E; try discriminate.
  destruct Hk as (K1 & K2 & K3 & K4 & K5).
  destruct (track_delegation_ok _ _ _ _ _ _ _ K2 K3 Et) as (T1 & T2 & T3 & T4 & _).
  destruct (b_fee (w_ab w) <? amt); [discriminate|].
  destruct orc as [[rf rb]| |]; cbn in E; try discriminate. injection E as <-.
  cbn in Hop. destruct Hop as [Hrf Hrb].
  apply add_rew_inv; [|exact Hrf|exact Hrb].
  constructor; fin.
  eapply (lkok_change (b_bond (w_pb w) + w_stk_del w + sum2 (w_stk_unb w) + w_sc_del w) _ _ _ _ dl df);
    [unfold lkok; repeat split; assumption|lia|lia|lia].
Qed.

Lemma do_undelegate_inv c w es ms v d amt orc w' :
  inv w -> op_ok w (OUndelegate es ms v d amt orc) -> do_undelegate c w es ms v d amt orc = Ok w' -> inv w'.
Proof.
  intros I Hop E. unfold do_undelegate in E.
  destruct (w_sd w); [discriminate|].
  destruct (auth c w es ms); cbn [negb] in E; [|discriminate].
  destruct orc as [[[[t ramt] rf] rb]| |]; cbn in E; try discriminate. injection E as <-.
  cbn in Hop. destruct Hop as (Hr & Hrf & Hrb & Hends).
  apply add_rew_inv; [|exact Hrf|exact Hrb].
  pose proof I as I0. destruct I. destruct i_lk0 as (K1 & K2 & K3 & K4 & K5).
  destruct (store_add_spec v (w_height w) t ramt (w_ent w) Hr Hends K1) as (S1 & S2 & S3).
  constructor; fin.
  - apply pos_unb_app; [assumption|constructor; [cbn; lia|constructor]].
  - repeat split; try assumption; try lia.
    intros tau Ht. rewrite S2, uafter_app. cbn [uafter]. specialize (K5 tau Ht). lia.
Qed.

Lemma do_withdraw_reward_inv c w es ms v orc w' :
  inv w -> op_ok w (OWithdrawReward es ms v orc) -> do_withdraw_reward c w es ms v orc = Ok w' -> inv w'.
Proof.
  intros I Hop E. unfold do_withdraw_reward in E.
  destruct (w_sd w); [discriminate|].
  destruct (auth c w es ms); cbn [negb] in E; [|discriminate].
  destruct orc as [[rf rb]| |]; cbn in E; try discriminate. injection E as <-.
  cbn in Hop. destruct Hop. apply add_rew_inv; assumption.
Qed.

Lemma do_p_withdraw_reward_inv c w es ms v orc w' :
  inv w -> op_ok w (OPWithdrawReward es ms v orc) -> do_p_withdraw_reward c w es ms v orc = Ok w' -> inv w'.
Proof.
  intros I Hop E. unfold do_p_withdraw_reward in E.
  destruct (w_has_proxy w); cbn [negb] in E; [|discriminate].
  destruct (auth c w es ms); cbn [negb] in E; [|discriminate].
  destruct orc as [[rf rb]| |]; cbn in E; try discriminate. injection E as <-.
  cbn in Hop. destruct Hop. apply add_rew_inv; assumption.
Qed.

Lemma do_p_undelegate_inv c w es ms amt orc w' :
  inv w -> op_ok w (OPUndelegate es ms amt orc) -> do_p_undelegate c w es ms amt orc = Ok w' -> inv w'.
Proof.
  intros I Hop E. unfold do_p_undelegate in E.
  destruct (w_has_proxy w); cbn [negb] in E; [|discriminate].
  destruct (auth c w es ms); cbn [negb] in E; [|discriminate].
  destruct (amt <? 0); [discriminate|].
  destruct orc as [[[t rf] rb]| |]; cbn in E; try discriminate. injection E as <-.
  cbn in Hop. destruct Hop as (Ha & Hrf & Hrb).
  apply add_rew_inv; [|exact Hrf|exact Hrb].
  destruct I.
  constructor; fin.
  - apply pos_unb_app; [assumption|constructor; [cbn; lia|constructor]].
  - eapply lkok_mono; [exact i_lk0|lia].
Qed.

Lemma do_withdraw_unbonded_inv c w es ms amt w' :
  inv w -> do_withdraw_unbonded c w es ms amt = Ok w' -> inv w'.
Proof.
  intros I E. unfold do_withdraw_unbonded in E.
  destruct (w_sd w); cbn [negb] in E; [|discriminate].
  destruct (auth c w es ms); cbn [negb] in E; [|discriminate].
  destruct (Z.ltb_spec amt 0) as [|Hge]; [discriminate|].
  destruct (sweep (w_now w) (w_ent w) (w_DL w) (w_DF w)) as [[[st dl] df]| |] eqn:Es; cbn in E; try discriminate.
  pose proof I as I0. destruct I.
  destruct (sweep_lkok _ _ _ _ _ _ _ _ _ i_lk0 (inv_sd_cust_nonneg w I0) i_cu0 Es) as (Hk & M1 & M2 & M3).
  destruct Hk as (K1 & K2 & K3 & K4 & K5).
  destruct (Z.eq_dec amt 0) as [->|Hne]; [cbn in E; discriminate|].
  destruct (track_undelegation_spec amt dl df ltac:(lia) K2 K3) as (dl' & df' & Et & T1 & T2 & T3).
  rewrite Et in E. cbn in E.
  destruct (w_has_proxy w); cbn [negb] in E; [|discriminate].
  destruct (Z.ltb_spec (b_bond (w_pb w)) amt); [discriminate|]. injection E as <-.
  pose proof (ssum_nonneg st K1). pose proof (sum2_nonneg _ i_su0).
  constructor; fin.
  repeat split; try assumption; lia.
Qed.

Lemma do_deposit_inv c w tp cs w' :
  bond_sendable c = false -> inv w -> do_deposit c w tp cs = Ok w' -> inv w'.
Proof.
  intros Hc I E. unfold do_deposit in E.
  destruct (coins_valid cs) eqn:Hv; cbn [negb] in E; [|discriminate].
  destruct cs as [|c0 cs0]; [discriminate|]. cbv beta iota in E. remember (c0 :: cs0) as cs eqn:Ecs.
  rewrite Hc in E. cbn [negb] in E. rewrite andb_true_r in E.
  destruct (has_denom BOND cs) eqn:Hb; [discriminate|].
  pose proof (no_bond cs Hb) as Hnb.
  assert (Hcv : coins_val cs = fee_of cs) by (rewrite coins_val_split; lia).
  assert (Hf : 0 <= fee_of cs).
  { unfold coins_valid in Hv. destruct (fee_once 0 cs Hv) as [[E0 _] | (a & _ & E0 & Ha)]; lia. }
  destruct (tp && negb (w_has_proxy w)); [discriminate|]. injection E as <-.
  destruct I.
  destruct tp; constructor; unfold lk, orig_fee, custody_b, sd_cust, inside in *; simp_w;
    rewrite ?bval_badd_coins, ?b_fee_badd_coins, ?b_bond_badd_coins in *; unfold bval in *;
    try lia; try assumption.
  all: eapply lkok_mono; [exact i_lk0|lia].
Qed.

Lemma do_advance_inv w t h : inv w -> inv (do_advance w t h).
Proof.
  intros I. unfold do_advance. destruct (Z.ltb_spec t (w_now w)) as [|Hge]; [exact I|].
  destruct I.
  pose proof (lkv_mono (orig_fee w) (w_start w) (w_end w) (w_now w) t i_orig0 Hge) as Hm.
  constructor; fin.
  destruct i_lk0 as (K1 & K2 & K3 & K4 & K5). repeat split; try assumption.
  intros tau Ht. apply K5. lia.
Qed.

Lemma do_settle_inv w : inv w -> inv (do_settle w).
Proof.
  intros I. destruct I. unfold do_settle.
  pose proof (due_split (w_now w) (w_stk_unb w)) as D1.
  pose proof (due_split (w_now w) (w_sc_unb w)) as D2.
  pose proof (due_sum_nonneg (w_now w) _ i_su0). pose proof (due_sum_nonneg (w_now w) _ i_cu0).
  constructor; fin.
  - apply not_due_pos; assumption.
  - apply not_due_pos; assumption.
  - destruct i_lk0 as (K1 & K2 & K3 & K4 & K5). repeat split; try assumption; try lia.
    intros tau Ht. rewrite uafter_not_due by exact Ht. apply K5; exact Ht.
Qed.

Theorem exec_inv c w o w' :
  bond_sendable c = false -> inv w -> op_ok w o -> exec c w o = Ok w' -> inv w'.
Proof.
  intros Hc I Hop E. destruct o; cbn [exec] in E.
  - eapply do_send_inv; eassumption.
  - eapply do_delegate_inv; eassumption.
  - eapply do_undelegate_inv; eassumption.
  - eapply do_withdraw_reward_inv; eassumption.
  - eapply do_self_delegate_inv; eassumption.
  - eapply do_withdraw_unbonded_inv; eassumption.
  - eapply do_p_undelegate_inv; eassumption.
  - eapply do_p_withdraw_reward_inv; eassumption.
  - eapply do_p_send_inv; eassumption.
  - eapply do_deposit_inv; eassumption.
  - injection E as <-. apply do_advance_inv; exact I.
  - injection E as <-. apply do_settle_inv; exact I.
  - injection E as <-. apply do_settle_inv, do_advance_inv; exact I.
Qed.

Lemma step_inv c w o : bond_sendable c = false -> inv w -> op_ok w o -> inv (fst (step c w o)).
Proof.
  intros Hc I Hop. unfold step. destruct (exec c w o) as [w'| |] eqn:E; cbn [fst]; try exact I.
  eapply exec_inv; eassumption.
Qed.

(* ================================================================================ *)
(* 7. Histories                                                                       *)
(* ================================================================================ *)

(* the oracle values of every operation of the history meet their contract, in the state in
   which the operation is executed *)
Fixpoint hist_ok (c : conf) (w : world) (os : list op) : Prop :=
  match os with
  | [] => True
  | o :: tl => op_ok w o /\ hist_ok c (fst (step c w o)) tl
  end.

(* a freshly initialised lockup account: nothing delegated, the funds attached at Init are in
   the account; anything the account's or the proxy's address held before is a third-party deposit *)
Definition init_ok (w : world) : Prop :=
  w_DL w = 0 /\ w_DF w = 0 /\ w_ent w = [] /\
  w_stk_del w = 0 /\ w_stk_unb w = [] /\ w_sc_del w = 0 /\ w_sc_unb w = [] /\
  0 <= orig_fee w <= b_fee (w_ab w) /\ 0 <= b_bond (w_ab w) /\
  0 <= b_fee (w_pb w) /\ 0 <= b_bond (w_pb w) /\
  bval (w_out w) = 0 /\ bval (w_rew w) = 0 /\
  bval (w_dep w) = bval (w_ab w) + bval (w_pb w) - orig_fee w.

Lemma init_inv w : init_ok w -> inv w.
Proof.
  intros (A1 & A2 & A3 & A4 & A5 & A6 & A7 & A8 & A9 & A10 & A11 & A12 & A13 & A14).
  pose proof (lkv_bounds (orig_fee w) (w_start w) (w_end w) (w_now w) ltac:(lia)) as HB.
  assert (HL : lkok (sd_cust w) (w_now w) (w_sc_unb w) (w_ent w) (w_DL w) (w_DF w)).
  { unfold lkok, sd_cust. rewrite A1, A2, A3, A4, A5, A6, A7. cbn [sum2 ssum safter uafter].
    split; [constructor|]. split; [lia|]. split; [lia|]. split; [lia|]. intros; lia. }
  constructor; try exact HL; unfold lk, custody_b, inside in *; rewrite ?A4, ?A5, ?A6, ?A7 in *;
    cbn [sum2] in *; try lia; try (constructor; fail).
Qed.

Lemma run_inv c os : forall w, bond_sendable c = false -> inv w -> hist_ok c w os -> inv (run c w os).
Proof.
  induction os as [|o tl IH]; intros w Hc I H; cbn; [exact I|].
  destruct H as [Ho Ht]. apply IH; [exact Hc| |exact Ht]. apply step_inv; assumption.
Qed.

Lemma inv_outflow w : inv w ->
  bval (w_out w) <= orig_fee w - lk w + bval (w_rew w) + bval (w_dep w).
Proof.
  intros I. destruct I. unfold inside, custody_b, bval in *. lia.
Qed.

(* outflow_bounded *)
Theorem outflow_bounded c w0 os :
  bond_sendable c = false -> init_ok w0 -> hist_ok c w0 os ->
  let w := run c w0 os in
  bval (w_out w) <= orig_fee w - lk w + bval (w_rew w) + bval (w_dep w).
Proof. intros Hc Hi Hh. apply inv_outflow. apply run_inv; [exact Hc|apply init_inv; exact Hi|exact Hh]. Qed.

(* the same with the schedule value whenever the schedule computation itself does not panic *)
Corollary outflow_bounded_locked c w0 os L :
  bond_sendable c = false -> init_ok w0 -> hist_ok c w0 os ->
  let w := run c w0 os in
  locked_of w FEE = Some L ->
  bval (w_out w) <= orig_fee w - L + bval (w_rew w) + bval (w_dep w).
Proof.
  intros Hc Hi Hh w HL. pose proof (outflow_bounded c w0 os Hc Hi Hh) as H. cbv zeta in H. fold w in H.
  rewrite lk_is_val, HL in H. exact H.
Qed.

(* the immutable part of the account *)
Definition same_cfg (w w' : world) : Prop :=
  w_sd w' = w_sd w /\ w_owner w' = w_owner w /\ w_start w' = w_start w /\ w_end w' = w_end w /\ w_orig w' = w_orig w.

Lemma bank_send_cfg c w fp to cs w' : bank_msg_send c w fp to cs = Ok w' -> same_cfg w w'.
Proof.
  unfold bank_msg_send.
  destruct (negb (coins_valid cs)); [discriminate|]. destruct cs; [discriminate|].
  destruct (has_denom BOND (p :: cs) && negb (bond_sendable c)); [discriminate|].
  destruct to; try discriminate;
  (destruct (negb (covers (if fp then w_pb w else w_ab w) (p :: cs))); [discriminate|]);
  try (destruct (w_has_proxy w); [|discriminate]);
  intros H; injection H as <-; repeat split.
Qed.

Lemma exec_cfg c w o w' : exec c w o = Ok w' -> same_cfg w w'.
Proof.
  destruct o; cbn [exec].
  - unfold do_send. destruct (negb (auth c w es ms)); [discriminate|].
    destruct (negb (coins_valid cs)); [discriminate|].
    destruct (locked_list w cs); cbn; try discriminate.
    destruct (sendable w a cs (w_ent w) (w_DL w) (w_DF w)) as [[[st dl] df]| |]; cbn; try discriminate.
    intros H. apply bank_send_cfg in H. exact H.
  - unfold do_delegate. destruct (w_sd w); [discriminate|]. destruct (negb (auth c w es ms)); [discriminate|].
    destruct (find d (w_orig w)); [|discriminate]. destruct (locked_raw _ _ _ _); [|discriminate].
    destruct (sweep _ _ _ _) as [[[st dl] df]| |]; cbn; try discriminate.
    destruct (track_delegation _ _ _ _ _) as [[dl' df']| |]; cbn; try discriminate.
    destruct orc as [[rf rb]| |]; cbn; try discriminate. intros H; injection H as <-. repeat split.
  - unfold do_undelegate. destruct (w_sd w); [discriminate|]. destruct (negb (auth c w es ms)); [discriminate|].
    destruct orc as [[[[t ramt] rf] rb]| |]; cbn; try discriminate. intros H; injection H as <-. repeat split.
  - unfold do_withdraw_reward. destruct (w_sd w); [discriminate|]. destruct (negb (auth c w es ms)); [discriminate|].
    destruct orc as [[rf rb]| |]; cbn; try discriminate. intros H; injection H as <-. repeat split.
  - unfold do_self_delegate. destruct (negb (w_sd w)); [discriminate|]. destruct (negb (auth c w es ms)); [discriminate|].
    destruct (amt <? 0); [discriminate|].
    destruct (find FEE (w_orig w)); [|discriminate]. destruct (locked_raw _ _ _ _); [|discriminate].
    destruct (sweep _ _ _ _) as [[[st dl] df]| |]; cbn; try discriminate.
    destruct (track_delegation _ _ _ _ _) as [[dl' df']| |]; cbn; try discriminate.
    destruct (b_fee (w_ab w) <? amt); [discriminate|].
    destruct orc as [[rf rb]| |]; cbn; try discriminate. intros H; injection H as <-. repeat split.
  - unfold do_withdraw_unbonded. destruct (negb (w_sd w)); [discriminate|]. destruct (negb (auth c w es ms)); [discriminate|].
    destruct (amt <? 0); [discriminate|].
    destruct (sweep _ _ _ _) as [[[st dl] df]| |]; cbn; try discriminate.
    destruct (track_undelegation _ _ _) as [[dl' df']| |]; cbn; try discriminate.
    destruct (negb (w_has_proxy w)); [discriminate|]. destruct (b_bond (w_pb w) <? amt); [discriminate|].
    intros H; injection H as <-. repeat split.
  - unfold do_p_undelegate. destruct (negb (w_has_proxy w)); [discriminate|]. destruct (negb (auth c w es ms)); [discriminate|].
    destruct (amt <? 0); [discriminate|].
    destruct orc as [[[t rf] rb]| |]; cbn; try discriminate. intros H; injection H as <-. repeat split.
  - unfold do_p_withdraw_reward. destruct (negb (w_has_proxy w)); [discriminate|]. destruct (negb (auth c w es ms)); [discriminate|].
    destruct orc as [[rf rb]| |]; cbn; try discriminate. intros H; injection H as <-. repeat split.
  - unfold do_p_send. destruct (negb (w_has_proxy w)); [discriminate|]. destruct (negb (auth c w es ms)); [discriminate|].
    apply bank_send_cfg.
  - unfold do_deposit. destruct (negb (coins_valid cs)); [discriminate|]. destruct cs; [discriminate|].
    destruct (has_denom BOND (p :: cs) && negb (bond_sendable c)); [discriminate|].
    destruct (to_proxy && negb (w_has_proxy w)); [discriminate|].
    intros H; injection H as <-. destruct to_proxy; repeat split.
  - intros H; injection H as <-. unfold do_advance. destruct (t <? w_now w); repeat split.
  - intros H; injection H as <-. repeat split.
  - intros H; injection H as <-. unfold do_advance. destruct (t <? w_now w); repeat split.
Qed.

Lemma run_cfg c os : forall w, same_cfg w (run c w os).
Proof.
  induction os as [|o tl IH]; intros w; cbn; [repeat split|].
  unfold step. destruct (exec c w o) as [w'| |] eqn:E; cbn [fst]; try apply IH.
  destruct (exec_cfg c w o w' E) as (A & B & C & D & F).
  destruct (IH w') as (A' & B' & C' & D' & F'). repeat split; congruence.
Qed.

(* tracked_le_actual *)
Lemma matured_split now l : esum l = matured now l + eafter now l.
Proof.
  induction l as [|e tl IH]; cbn; [reflexivity|].
  destruct (Z.leb_spec (e_end e) now); destruct (Z.ltb_spec now (e_end e)); lia.
Qed.
Lemma matured_st_split now st : ssum st = matured_st now st + safter now st.
Proof.
  induction st as [|[k l] tl IH]; cbn; [reflexivity|]. rewrite (matured_split now l). lia.
Qed.

Lemma inv_tracked w : inv w ->
  0 <= w_DL w /\ 0 <= w_DF w /\
  w_DL w + w_DF w <= custody_b w + matured_st (w_now w) (w_ent w).
Proof.
  intros I. destruct I. destruct i_lk0 as (K1 & K2 & K3 & K4 & K5).
  pose proof (matured_st_split (w_now w) (w_ent w)).
  pose proof (K5 (w_now w) ltac:(lia)).
  pose proof (uafter_le_sum2 (w_now w) (w_sc_unb w) i_cu0).
  rewrite custody_b_eq. lia.
Qed.

Theorem tracked_le_actual c w0 os :
  bond_sendable c = false -> init_ok w0 -> hist_ok c w0 os ->
  let w := run c w0 os in
  0 <= w_DL w /\ 0 <= w_DF w /\
  w_DL w + w_DF w <= custody_b w + matured_st (w_now w) (w_ent w).
Proof. intros Hc Hi Hh. apply inv_tracked. apply run_inv; [exact Hc|apply init_inv; exact Hi|exact Hh]. Qed.

(* ... and with no slack at all for the refreshed values, which are the ones every handler uses *)
Theorem tracked_le_actual_refreshed c w0 os st dl df :
  bond_sendable c = false -> init_ok w0 -> hist_ok c w0 os ->
  let w := run c w0 os in
  sweep (w_now w) (w_ent w) (w_DL w) (w_DF w) = Ok (st, dl, df) ->
  dl + df <= custody_b w.
Proof.
  intros Hc Hi Hh w Es.
  assert (I : inv w) by (apply run_inv; [exact Hc|apply init_inv; exact Hi|exact Hh]).
  pose proof I as I0. destruct I.
  destruct (sweep_lkok _ _ _ _ _ _ _ _ _ i_lk0 (inv_sd_cust_nonneg w I0) i_cu0 Es) as (_ & _ & _ & M3).
  pose proof (uafter_le_sum2 (w_now w) (w_sc_unb w) i_cu0). rewrite custody_b_eq. lia.
Qed.

(* the refresh never fails on a reachable state *)
Theorem sweep_never_fails c w0 os :
  bond_sendable c = false -> init_ok w0 -> hist_ok c w0 os ->
  let w := run c w0 os in
  exists st dl df, sweep (w_now w) (w_ent w) (w_DL w) (w_DF w) = Ok (st, dl, df).
Proof.
  intros Hc Hi Hh w.
  assert (I : inv w) by (apply run_inv; [exact Hc|apply init_inv; exact Hi|exact Hh]).
  destruct I. destruct i_lk0 as (K1 & K2 & K3 & _).
  destruct (sweep_spec (w_now w) (w_ent w) (w_DL w) (w_DF w) K1 K2 K3) as (st & dl & df & E & _).
  exists st, dl, df. exact E.
Qed.

(* only_owner_acts *)
Theorem only_owner_acts c w o es ms :
  fixed_sender c = true -> op_senders o = Some (es, ms) ->
  (es <> w_owner w \/ ms <> w_owner w) ->
  step c w o = (w, 1).
Proof.
  intros Hc Hs Hne.
  assert (Ha : auth c w es ms = false).
  { unfold auth. rewrite Hc. destruct (Z.eqb_spec ms (w_owner w)); destruct (Z.eqb_spec es (w_owner w)); cbn; try reflexivity. lia. }
  unfold step.
  destruct o; cbn in Hs; try discriminate; injection Hs as -> ->; cbn [exec].
  - unfold do_send. rewrite Ha. reflexivity.
  - unfold do_delegate. rewrite Ha. destruct (w_sd w); reflexivity.
  - unfold do_undelegate. rewrite Ha. destruct (w_sd w); reflexivity.
  - unfold do_withdraw_reward. rewrite Ha. destruct (w_sd w); reflexivity.
  - unfold do_self_delegate. rewrite Ha. destruct (w_sd w); reflexivity.
  - unfold do_withdraw_unbonded. rewrite Ha. destruct (w_sd w); reflexivity.
  - unfold do_p_undelegate. rewrite Ha. destruct (w_has_proxy w); reflexivity.
  - unfold do_p_withdraw_reward. rewrite Ha. destruct (w_has_proxy w); reflexivity.
  - unfold do_p_send. rewrite Ha. destruct (w_has_proxy w); reflexivity.
Qed.

(* a failing message changes nothing (transaction semantics), whatever the reason *)
Theorem failed_step_no_change c w o : snd (step c w o) <> 0 -> fst (step c w o) = w.
Proof. unfold step. destruct (exec c w o); cbn; intros H; [congruence|reflexivity|reflexivity]. Qed.

(* ================================================================================ *)
(* 8. Witnesses: what the two hypotheses are needed for, and non-vacuity              *)
(* ================================================================================ *)

Definition b0 : bals := {| b_fee := 0; b_bond := 0; b_oth := [] |}.
Definition w_init (sdv : bool) (orig now st en : Z) : world :=
  {| w_sd := sdv; w_owner := 1; w_start := st; w_end := en; w_orig := [(FEE, orig)];
     w_now := now; w_height := 1; w_DL := 0; w_DF := 0; w_ent := [];
     w_ab := {| b_fee := orig; b_bond := 0; b_oth := [] |}; w_has_proxy := false; w_pb := b0;
     w_stk_del := 0; w_stk_unb := []; w_sc_del := 0; w_sc_unb := [];
     w_out := b0; w_rew := b0; w_dep := b0 |}.

Lemma w_init_ok sdv orig now st en : 0 <= orig -> init_ok (w_init sdv orig now st en).
Proof. intros H. unfold init_ok, w_init, orig_fee, bval, b0. cbn. repeat split; lia. Qed.

Definition SEC : Z := 1000000000.

(* (1) checkSender as in the pinned tree (only the msg.Sender field is compared): a stranger
       (account 7) executes Send on account 1's fully unlocked lockup and is paid *)
Definition conf_prefix : conf := {| fixed_sender := false; bond_sendable := false |}.
Lemma only_owner_prefix_refuted :
  exists w o es ms, op_senders o = Some (es, ms) /\ es <> w_owner w /\
    snd (step conf_prefix w o) = 0 /\
    bval (w_out (fst (step conf_prefix w o))) = bval (w_out w) + 7.
Proof.
  exists (w_init false 1000 (200 * SEC) 0 (100 * SEC)), (OSend 7 1 TOut [(FEE, 7)]), 7, 1.
  split; [reflexivity|]. split; [cbn; lia|]. split; vm_compute; reflexivity.
Qed.

(* (2) if the bond denom were send-enabled the proxy could forward unbonded stake: everything is
       still locked (the schedule has not started) and 100 leave *)
Definition conf_bond_sendable : conf := {| fixed_sender := true; bond_sendable := true |}.
Definition hist_bond : list op :=
  [OSelfDelegate 1 1 100 (Ok (0, 0)); OPUndelegate 1 1 100 (Ok (5 * SEC, 0, 0)); OBlock (6 * SEC) 2;
   OPSend 1 1 TOut [(BOND, 100)]].
Lemma outflow_needs_bond_send_disabled :
  exists w0 os, init_ok w0 /\ hist_ok conf_bond_sendable w0 os /\
    let w := run conf_bond_sendable w0 os in
    lk w = 100 /\ bval (w_out w) = 100 /\ bval (w_rew w) = 0 /\ bval (w_dep w) = 0 /\ orig_fee w = 100.
Proof.
  exists (w_init true 100 0 (10 * SEC) (1000 * SEC)), hist_bond.
  split; [apply w_init_ok; lia|]. split.
  - cbn [hist_ok hist_bond]. repeat split; try (vm_compute; discriminate); try (vm_compute; reflexivity);
      try (vm_compute; intros X; discriminate X).
  - vm_compute. repeat split; reflexivity.
Qed.

(* non-vacuity: a self-delegatable account half way through its schedule; the owner self-delegates
   (rewards arrive), sends part of the unlocked half out, undelegates, settles, withdraws *)
Definition conf_prod : conf := {| fixed_sender := true; bond_sendable := false |}.
Definition hist_nv : list op :=
  [OSelfDelegate 1 1 600 (Ok (3, 2)); OSend 1 1 TOut [(FEE, 200)];
   OPUndelegate 1 1 100 (Ok (600 * SEC, 1, 0)); OBlock (600 * SEC) 2;
   OWithdrawUnbonded 1 1 60; OPSend 1 1 TOut [(FEE, 4)]; OSend 7 7 TOut [(FEE, 1)]].
Lemma nonvacuous_sd :
  let w0 := w_init true 1000 (500 * SEC) 0 (1000 * SEC) in
  init_ok w0 /\ hist_ok conf_prod w0 hist_nv /\
  let w := run conf_prod w0 hist_nv in
  lk w = 400 /\ w_DL w = 500 /\ w_DF w = 40 /\ bval (w_out w) = 204 /\ bval (w_rew w) = 6 /\
  custody_b w = 542.
Proof.
  split; [apply w_init_ok; lia|]. split.
  - cbn [hist_ok hist_nv]. repeat split; try (vm_compute; discriminate); try (vm_compute; reflexivity);
      try (vm_compute; intros X; discriminate X).
  - vm_compute. repeat split; reflexivity.
Qed.

(* non-vacuity for the non-voting variant: delegate, undelegate twice, let the first unbonding
   mature and be paid out, refresh by sending *)
Definition hist_nv2 : list op :=
  [ODelegate 1 1 3 FEE 600 (Ok (0, 0)); OUndelegate 1 1 3 FEE 100 (Ok (700 * SEC, 100, 5, 0));
   OUndelegate 1 1 3 FEE 50 (Ok (900 * SEC, 50, 0, 0)); OBlock (750 * SEC) 2;
   OSend 1 1 TOut [(FEE, 300)]; ODeposit false [(FEE, 10)]].
Lemma nonvacuous_nv :
  let w0 := w_init false 1000 (500 * SEC) 0 (1000 * SEC) in
  init_ok w0 /\ hist_ok conf_prod w0 hist_nv2 /\
  let w := run conf_prod w0 hist_nv2 in
  lk w = 250 /\ w_DL w = 500 /\ w_DF w = 0 /\ bval (w_out w) = 300 /\ custody_b w = 500 /\
  w_ent w = [(3, [{| e_end := 700 * SEC; e_amt := 100; e_h := 1 |}; {| e_end := 900 * SEC; e_amt := 50; e_h := 1 |}])].
Proof.
  split; [apply w_init_ok; lia|]. split.
  - cbn [hist_ok hist_nv2]. repeat split.
    1-4: vm_compute; discriminate.
    + match goal with |- all_ends_le _ ?x => let v := eval vm_compute in x in change x with v end. constructor.
    + vm_compute; discriminate.
    + vm_compute; discriminate.
    + match goal with |- all_ends_le _ ?x => let v := eval vm_compute in x in change x with v end.
      constructor; [|constructor]. constructor; [|constructor]. cbn. vm_compute; discriminate.
  - vm_compute. repeat split; reflexivity.
Qed.

(* ================================================================================ *)
(* 9. Denominations other than the fee / bond denom (e.g. uusdc attached at Init)      *)
(* ================================================================================ *)

Definition other (d : Z) : Prop := d <> FEE /\ d <> BOND.

Fixpoint amt_of (d : Z) (cs : list (Z * Z)) : Z :=
  match cs with [] => 0 | (k, a) :: tl => (if k =? d then a else 0) + amt_of d tl end.

Lemma get_addl d k x l : get d (addl k x l) = get d l + (if k =? d then x else 0).
Proof.
  induction l as [|[k0 v] tl IH]; cbn.
  - destruct (k =? d); lia.
  - destruct (Z.eqb_spec k0 k) as [->|Hne]; cbn.
    + destruct (Z.eqb_spec k d); lia.
    + destruct (Z.eqb_spec k0 d) as [->|]; [|exact IH].
      destruct (Z.eqb_spec k d); [congruence|lia].
Qed.

Lemma bget_badd b k x d : bget (badd b k x) d = bget b d + (if k =? d then x else 0).
Proof.
  unfold bget, badd.
  destruct (Z.eqb_spec k FEE) as [Ek1|Ek1]; [|destruct (Z.eqb_spec k BOND) as [Ek2|Ek2]];
  destruct (Z.eqb_spec d FEE) as [Ed1|Ed1]; destruct (Z.eqb_spec d BOND) as [Ed2|Ed2];
  cbn [b_fee b_bond b_oth]; try rewrite get_addl;
  destruct (Z.eqb_spec k d) as [Ekd|Ekd]; try lia; try congruence;
  exfalso; unfold FEE, BOND in *; lia.
Qed.
Lemma bget_badd_coins d cs : forall b, bget (badd_coins b cs) d = bget b d + amt_of d cs.
Proof. induction cs as [|[k a] tl IH]; intros b; cbn; [lia|]. rewrite IH, bget_badd. lia. Qed.
Lemma bget_bsub_coins d cs : forall b, bget (bsub_coins b cs) d = bget b d - amt_of d cs.
Proof.
  induction cs as [|[k a] tl IH]; intros b; cbn; [lia|]. rewrite IH, bget_badd. destruct (k =? d); lia.
Qed.
Lemma amt_of_absent d cs : (forall a, ~ In (d, a) cs) -> amt_of d cs = 0.
Proof.
  induction cs as [|[k v] tl IH]; intros H; cbn; [reflexivity|].
  destruct (Z.eqb_spec k d) as [->|].
  - exfalso. apply (H v). left; reflexivity.
  - rewrite IH; [lia|]. intros a Hin. apply (H a). right; exact Hin.
Qed.
Lemma amt_once d lo cs : coins_sorted lo cs = true ->
  (amt_of d cs = 0) \/ (exists a, In (d, a) cs /\ amt_of d cs = a /\ 0 < a).
Proof.
  revert lo. induction cs as [|[k v] tl IH]; intros lo Hs.
  - left. reflexivity.
  - cbn in Hs. apply andb_prop in Hs as [Hs Hs2]. apply andb_prop in Hs as [Hlo Hpos].
    cbn [amt_of]. destruct (Z.eqb_spec k d) as [->|Hne].
    + right. exists v. split; [left; reflexivity|].
      rewrite (amt_of_absent d tl) by (apply (sorted_above d tl d Hs2); lia). lia.
    + destruct (IH k Hs2) as [E | (a & Hin & E & Ha)].
      * left. lia.
      * right. exists a. split; [right; exact Hin|lia].
Qed.

Lemma locked_list_d w cs lks d a : locked_list w cs = Ok lks -> In (d, a) cs ->
  locked_of w d = Some (get d lks).
Proof.
  revert lks. induction cs as [|[k x] tl IH]; intros lks E Hin; [destruct Hin|].
  cbn [locked_list] in E.
  destruct (find k (w_orig w)) as [o|] eqn:Ef; [|discriminate].
  destruct (locked_raw o (w_start w) (w_end w) (w_now w)) as [L|] eqn:El; [|discriminate].
  destruct (locked_list w tl) as [r| |] eqn:Er; cbn in E; try discriminate.
  injection E as <-. cbn [get].
  destruct (Z.eqb_spec k d) as [->|Hne].
  - unfold locked_of. rewrite (find_get _ _ _ Ef). exact El.
  - destruct Hin as [X|Hin]; [injection X as -> ->; lia|]. apply (IH r eq_refl Hin).
Qed.

Lemma sendable_other w lks cs d : d <> FEE ->
  forall st dl df r, sendable w lks cs st dl df = Ok r ->
  forall a, In (d, a) cs -> a + get d lks <= bget (w_ab w) d.
Proof.
  intros Hd. induction cs as [|[k x] tl IH]; intros st dl df r E a Hin; [destruct Hin|].
  cbn [sendable] in E.
  destruct (sweep (w_now w) st dl df) as [[[st1 dl1] df1]| |]; cbn in E; try discriminate.
  destruct (Z.ltb_spec (bget (w_ab w) k) (if k =? FEE then get k lks - Z.min (get k lks) dl1 else get k lks)) as [A|A];
    [discriminate|].
  destruct (Z.ltb_spec (bget (w_ab w) k - (if k =? FEE then get k lks - Z.min (get k lks) dl1 else get k lks)) x) as [B|B];
    [discriminate|].
  destruct Hin as [X|Hin]; [|apply (IH _ _ _ _ E a Hin)].
  injection X as -> ->. destruct (Z.eqb_spec d FEE); [congruence|]. lia.
Qed.

Definition lk_d (d : Z) (w : world) : Z := lkv (get d (w_orig w)) (w_start w) (w_end w) (w_now w).

Record inv_o (d : Z) (w : world) : Prop := {
  o_a : 0 <= bget (w_ab w) d; o_p : 0 <= bget (w_pb w) d; o_orig : 0 <= get d (w_orig w);
  o_ident : bget (w_ab w) d + bget (w_pb w) d =
            get d (w_orig w) + bget (w_rew w) d + bget (w_dep w) d - bget (w_out w) d;
  o_K : lk_d d w <= bget (w_ab w) d
}.

(* the parts of a world the other-denom invariant reads *)
Definition oth_same (d : Z) (w w' : world) : Prop :=
  bget (w_ab w') d = bget (w_ab w) d /\ bget (w_pb w') d = bget (w_pb w) d /\
  bget (w_out w') d = bget (w_out w) d /\ bget (w_rew w') d = bget (w_rew w) d /\
  bget (w_dep w') d = bget (w_dep w) d /\
  w_orig w' = w_orig w /\ w_start w' = w_start w /\ w_end w' = w_end w /\ w_now w' = w_now w.

Lemma inv_o_same d w w' : oth_same d w w' -> inv_o d w -> inv_o d w'.
Proof.
  intros (A & B & C & D & E & F & G & H & I) J. destruct J.
  constructor; unfold lk_d in *; rewrite ?A, ?B, ?C, ?D, ?E, ?F, ?G, ?H, ?I; assumption.
Qed.

Lemma bget_oth_badd_fb b x y d : other d -> bget (badd (badd b FEE x) BOND y) d = bget b d.
Proof.
  intros [H1 H2]. rewrite !bget_badd.
  destruct (Z.eqb_spec BOND d); [congruence|]. destruct (Z.eqb_spec FEE d); [congruence|]. lia.
Qed.
Lemma bget_oth_badd_f b x d : other d -> bget (badd b FEE x) d = bget b d.
Proof. intros [H1 H2]. rewrite bget_badd. destruct (Z.eqb_spec FEE d); [congruence|]. lia. Qed.
Lemma bget_oth_badd_b b x d : other d -> bget (badd b BOND x) d = bget b d.
Proof. intros [H1 H2]. rewrite bget_badd. destruct (Z.eqb_spec BOND d); [congruence|]. lia. Qed.

Lemma bget_oth b d : other d -> bget b d = get d (b_oth b).
Proof.
  intros [H1 H2]. unfold bget. destruct (Z.eqb_spec d FEE); [congruence|].
  destruct (Z.eqb_spec d BOND); [congruence|]. reflexivity.
Qed.
Ltac oth_tac Hd d := unfold oth_same, do_settle; simp_w; rewrite !(bget_oth _ d Hd); unfold badd; cbn; repeat split.

Lemma add_rew_oth d w tp rf rb : other d -> oth_same d w (add_rew w tp rf rb).
Proof.
  intros Hd. unfold oth_same, add_rew. destruct tp; simp_w; rewrite ?bget_oth_badd_fb by exact Hd; repeat split.
Qed.
Lemma oth_same_trans d w1 w2 w3 : oth_same d w1 w2 -> oth_same d w2 w3 -> oth_same d w1 w3.
Proof.
  intros (A & B & C & D & E & F & G & H & I) (A' & B' & C' & D' & E' & F' & G' & H' & I').
  repeat split; congruence.
Qed.

Lemma bank_send_inv_o c d w w0 fp to cs : other d -> inv_o d w0 ->
  oth_same d w0 w ->
  (fp = false -> forall a, In (d, a) cs -> a + lk_d d w0 <= bget (w_ab w0) d) ->
  forall w', bank_msg_send c w fp to cs = Ok w' -> inv_o d w'.
Proof.
  intros Hd I (A & B & C & D & E & F & G & H & J) Hchk w' Es.
  unfold bank_msg_send in Es.
  destruct (coins_valid cs) eqn:Hv; cbn [negb] in Es; [|discriminate].
  destruct cs as [|c0 cs0]; [discriminate|]. cbv beta iota in Es. remember (c0 :: cs0) as cs eqn:Ecs.
  destruct (has_denom BOND cs && negb (bond_sendable c)); [discriminate|].
  unfold coins_valid in Hv. destruct I.
  assert (Hsrc : forall b, covers b cs = true -> 0 <= bget b d -> 0 <= amt_of d cs <= bget b d).
  { intros b Hcov Hb0. destruct (amt_once d 0 cs Hv) as [E0 | (a & Hin & E0 & Ha)]; [lia|].
    pose proof (covers_in b cs d a Hcov Hin). lia. }
  assert (HK : fp = false -> amt_of d cs + lk_d d w0 <= bget (w_ab w0) d).
  { intros Hfp. destruct (amt_once d 0 cs Hv) as [E0 | (a & Hin & E0 & Ha)]; [lia|].
    rewrite E0. apply (Hchk Hfp a Hin). }
  destruct to; try discriminate.
  all: destruct fp.
  all: match type of Es with context[covers ?b ?c] => destruct (covers b c) eqn:Hcov; cbn [negb] in Es; [|discriminate] end.
  all: try (destruct (w_has_proxy w); [|discriminate]).
  all: injection Es as <-.
  all: try (assert (Hp0 : 0 <= bget (w_pb w) d) by lia; pose proof (Hsrc _ Hcov Hp0) as Hamt).
  all: try (assert (Ha0 : 0 <= bget (w_ab w) d) by lia; pose proof (Hsrc _ Hcov Ha0) as Hamt).
  all: try specialize (HK eq_refl).
  all: constructor; unfold lk_d in *; simp_w;
       rewrite ?bget_badd_coins, ?bget_bsub_coins, ?F, ?G, ?H, ?J in *; try lia.
Qed.

Theorem exec_inv_o c d w o w' : other d -> inv_o d w -> exec c w o = Ok w' -> inv_o d w'.
Proof.
  intros Hd I E. destruct o; cbn [exec] in E.
  - unfold do_send in E. destruct (negb (auth c w es ms)); [discriminate|].
    destruct (negb (coins_valid cs)); [discriminate|].
    destruct (locked_list w cs) as [lks| |] eqn:El; cbn in E; try discriminate.
    destruct (sendable w lks cs (w_ent w) (w_DL w) (w_DF w)) as [[[st dl] df]| |] eqn:Es; cbn in E; try discriminate.
    eapply (bank_send_inv_o c d (set_lk w dl df st) w false to cs Hd I); [repeat split| |exact E].
    intros _ a Hin.
    pose proof (sendable_other w lks cs d (proj1 Hd) _ _ _ _ Es a Hin) as Hs.
    pose proof (locked_list_d w cs lks d a El Hin) as HL.
    unfold lk_d, lkv. unfold locked_of in HL. rewrite HL. cbn [val]. exact Hs.
  - unfold do_delegate in E. destruct (w_sd w); [discriminate|]. destruct (negb (auth c w es ms)); [discriminate|].
    destruct (find d0 (w_orig w)); [|discriminate]. destruct (locked_raw _ _ _ _); [|discriminate].
    destruct (sweep _ _ _ _) as [[[st dl] df]| |]; cbn in E; try discriminate.
    destruct (track_delegation _ _ _ _ _) as [[dl' df']| |]; cbn in E; try discriminate.
    destruct orc as [[rf rb]| |]; cbn in E; try discriminate. injection E as <-.
    eapply inv_o_same; [|exact I]. eapply oth_same_trans; [|apply add_rew_oth; exact Hd].
    oth_tac Hd d.
  - unfold do_undelegate in E. destruct (w_sd w); [discriminate|]. destruct (negb (auth c w es ms)); [discriminate|].
    destruct orc as [[[[t ramt] rf] rb]| |]; cbn in E; try discriminate. injection E as <-.
    eapply inv_o_same; [|exact I]. eapply oth_same_trans; [|apply add_rew_oth; exact Hd].
    oth_tac Hd d.
  - unfold do_withdraw_reward in E. destruct (w_sd w); [discriminate|]. destruct (negb (auth c w es ms)); [discriminate|].
    destruct orc as [[rf rb]| |]; cbn in E; try discriminate. injection E as <-.
    eapply inv_o_same; [|exact I]. apply add_rew_oth; exact Hd.
  - unfold do_self_delegate in E. destruct (negb (w_sd w)); [discriminate|]. destruct (negb (auth c w es ms)); [discriminate|].
    destruct (amt <? 0); [discriminate|].
    destruct (find FEE (w_orig w)); [|discriminate]. destruct (locked_raw _ _ _ _); [|discriminate].
    destruct (sweep _ _ _ _) as [[[st dl] df]| |]; cbn in E; try discriminate.
    destruct (track_delegation _ _ _ _ _) as [[dl' df']| |]; cbn in E; try discriminate.
    destruct (b_fee (w_ab w) <? amt); [discriminate|].
    destruct orc as [[rf rb]| |]; cbn in E; try discriminate. injection E as <-.
    eapply inv_o_same; [|exact I]. eapply oth_same_trans; [|apply add_rew_oth; exact Hd].
    oth_tac Hd d.
  - unfold do_withdraw_unbonded in E. destruct (negb (w_sd w)); [discriminate|]. destruct (negb (auth c w es ms)); [discriminate|].
    destruct (amt <? 0); [discriminate|].
    destruct (sweep _ _ _ _) as [[[st dl] df]| |]; cbn in E; try discriminate.
    destruct (track_undelegation _ _ _) as [[dl' df']| |]; cbn in E; try discriminate.
    destruct (negb (w_has_proxy w)); [discriminate|]. destruct (b_bond (w_pb w) <? amt); [discriminate|].
    injection E as <-. eapply inv_o_same; [|exact I].
    oth_tac Hd d.
  - unfold do_p_undelegate in E. destruct (negb (w_has_proxy w)); [discriminate|]. destruct (negb (auth c w es ms)); [discriminate|].
    destruct (amt <? 0); [discriminate|].
    destruct orc as [[[t rf] rb]| |]; cbn in E; try discriminate. injection E as <-.
    eapply inv_o_same; [|exact I]. eapply oth_same_trans; [|apply add_rew_oth; exact Hd]. repeat split.
  - unfold do_p_withdraw_reward in E. destruct (negb (w_has_proxy w)); [discriminate|]. destruct (negb (auth c w es ms)); [discriminate|].
    destruct orc as [[rf rb]| |]; cbn in E; try discriminate. injection E as <-.
    eapply inv_o_same; [|exact I]. apply add_rew_oth; exact Hd.
  - unfold do_p_send in E. destruct (negb (w_has_proxy w)); [discriminate|]. destruct (negb (auth c w es ms)); [discriminate|].
    eapply (bank_send_inv_o c d w w true to cs Hd I); [repeat split| |exact E]. intros X; discriminate X.
  - unfold do_deposit in E. destruct (coins_valid cs) eqn:Hv; cbn [negb] in E; [|discriminate].
    destruct cs as [|c0 cs0]; [discriminate|]. cbv beta iota in E. remember (c0 :: cs0) as cs1 eqn:Ecs.
    destruct (has_denom BOND cs1 && negb (bond_sendable c)); [discriminate|].
    destruct (to_proxy && negb (w_has_proxy w)); [discriminate|]. injection E as <-.
    assert (Hf : 0 <= amt_of d cs1).
    { unfold coins_valid in Hv. destruct (amt_once d 0 cs1 Hv) as [E0 | (a & _ & E0 & Ha)]; lia. }
    destruct I. destruct to_proxy; constructor; unfold lk_d in *; simp_w; rewrite ?bget_badd_coins in *; try lia.
  - injection E as <-. unfold do_advance. destruct (Z.ltb_spec t (w_now w)) as [|Hge]; [exact I|].
    destruct I. pose proof (lkv_mono (get d (w_orig w)) (w_start w) (w_end w) (w_now w) t o_orig0 Hge).
    constructor; unfold lk_d in *; simp_w; try lia.
  - injection E as <-. eapply inv_o_same; [|exact I].
    oth_tac Hd d.
  - injection E as <-.
    assert (I1 : inv_o d (do_advance w t h)).
    { unfold do_advance. destruct (Z.ltb_spec t (w_now w)) as [|Hge]; [exact I|].
      destruct I. pose proof (lkv_mono (get d (w_orig w)) (w_start w) (w_end w) (w_now w) t o_orig0 Hge).
      constructor; unfold lk_d in *; simp_w; try lia. }
    eapply inv_o_same; [|exact I1].
    oth_tac Hd d.
Qed.

Definition init_ok_o (d : Z) (w : world) : Prop :=
  0 <= get d (w_orig w) <= bget (w_ab w) d /\ 0 <= bget (w_pb w) d /\
  bget (w_out w) d = 0 /\ bget (w_rew w) d = 0 /\
  bget (w_dep w) d = bget (w_ab w) d + bget (w_pb w) d - get d (w_orig w).

Lemma run_inv_o c d os : forall w, other d -> inv_o d w -> inv_o d (run c w os).
Proof.
  induction os as [|o tl IH]; intros w Hd I; cbn; [exact I|].
  apply IH; [exact Hd|]. unfold step. destruct (exec c w o) as [w'| |] eqn:E; cbn [fst]; try exact I.
  eapply exec_inv_o; eassumption.
Qed.

(* outflow_bounded for every other denomination, with no hypothesis on the oracles at all *)
Theorem outflow_bounded_other c d w0 os :
  other d -> init_ok_o d w0 ->
  let w := run c w0 os in
  bget (w_out w) d <= get d (w_orig w) - lk_d d w + bget (w_rew w) d + bget (w_dep w) d.
Proof.
  intros Hd (A & B & C & D & E).
  assert (I0 : inv_o d w0).
  { pose proof (lkv_bounds (get d (w_orig w0)) (w_start w0) (w_end w0) (w_now w0) ltac:(lia)).
    constructor; unfold lk_d; lia. }
  pose proof (run_inv_o c d os w0 Hd I0) as I. destruct I. cbv zeta. lia.
Qed.
