(* Theorems about the mint model (C13). *)
From Coq Require Import ZArith Bool Lia ZifyBool.
From Sunrise Require Import Base.Outcome Base.Dec Base.DecLemmas Econ.Mint.
Local Open Scope Z_scope.
Ltac Zify.zify_post_hook ::= Z.div_mod_to_equations.

Ltac inv_obind :=
  repeat match goal with
  | H : obind ?x _ = Some _ |- _ =>
      let E := fresh "E" in destruct x eqn:E; [cbn [obind] in H | discriminate H]
  end.

Lemma rate_cap_ge_min y r : inflation_rate_cap y = Some r -> RATE_MINIMUM <= r.
Proof.
  unfold inflation_rate_cap. intros H. inv_obind.
  injection H as <-. destruct (Z.ltb_spec z1 RATE_MINIMUM); lia.
Qed.

(* annual provision: never negative, never past the cap, never above rate * supply *)
Lemma annual_bounds cap g now total a :
  0 <= total -> annual_provision cap g now total = Some a ->
  0 <= a /\ (total <= cap -> total + a <= cap) /\ (cap < total -> a = 0) /\
  exists rate, inflation_rate_cap (years_since_genesis g now) = Some rate /\ a * P <= rate * total.
Proof.
  intros Ht H. unfold annual_provision in H. inv_obind.
  apply chk_int_some in H. destruct H as [-> _].
  apply dadd_some in E0. apply dmul_int_some in E1. subst z0 z1.
  pose proof (rate_cap_ge_min _ _ E) as Hr. unfold RATE_MINIMUM in Hr.
  assert (Hnn : 0 <= (P + z) * total) by (unfold P; nia).
  pose proof (dtrunc_int_bracket _ Hnn) as Hb.
  set (n0 := dtrunc_int ((P + z) * total)) in *.
  remember (if (if cap <? n0 then cap else n0) <? total then total else (if cap <? n0 then cap else n0)) as c eqn:Hc.
  assert (Hcases: total <= c /\ (total <= cap -> c <= cap) /\ (cap < total -> c = total) /\ (c = total \/ c <= n0)).
  { subst c. destruct (cap <? n0) eqn:E1; destruct (_ <? total) eqn:E2; lia. }
  clear Hc. destruct Hcases as (Hc2 & Hc3 & Hc4 & Hc5).
  split; [lia|]. split; [intros Hx; specialize (Hc3 Hx); lia|]. split; [intros Hx; specialize (Hc4 Hx); lia|].
  exists z. split; [reflexivity|]. unfold P in *. destruct Hc5 as [->|Hc5]; nia.
Qed.

Lemma block_bounds annual secs b :
  0 <= annual -> 0 <= secs -> block_provision annual secs = Some b ->
  0 <= b /\ b * SECONDS_PER_YEAR <= annual * secs /\ b <= annual.
Proof.
  intros Ha Hs H. unfold block_provision, block_provision_raw in H.
  destruct (chk_int (annual * secs)) as [m|] eqn:E; [cbn [obind] in H|discriminate H].
  injection H as <-.
  apply chk_int_some in E. destruct E as [-> _].
  assert (0 <= annual * secs) by nia.
  rewrite Z.quot_div_nonneg by (unfold SECONDS_PER_YEAR; lia).
  unfold SECONDS_PER_YEAR.
  destruct (annual <? annual * secs / 31536000) eqn:Ec; repeat split; lia.
Qed.

(* the split loses nothing and both parts are non-negative for ratio in [0,1] *)
Lemma split_exact ratio block fee bond :
  0 <= ratio <= P -> 0 <= block -> split ratio block = Some (fee, bond) ->
  fee + bond = block /\ 0 <= fee /\ 0 <= bond /\ fee * P <= ratio * block < fee * P + P.
Proof.
  intros Hr Hb H. unfold split in H. inv_obind. injection H as <- <-.
  apply dmul_int_some in E. subst z. apply chk_int_some in E0. destruct E0 as [-> _].
  assert (Hnn : 0 <= ratio * block) by nia.
  pose proof (dtrunc_int_bracket _ Hnn). pose proof (dtrunc_int_nonneg _ Hnn).
  repeat split; try lia. unfold P in *. nia.
Qed.

Definition total_in (i : mint_in) : Z := mi_fee_supply i + mi_bond_supply i.
Definition secs_of (i : mint_in) : Z :=
  match mi_last i with Some l => unix (mi_now_ns i) - l | None => 60 end.
Definition minted (o : mint_out) : Z := mo_fee_minted o + mo_bond_minted o.

Definition last_of (i : mint_in) : Z :=
  match mi_last i with Some l => l | None => unix (mi_now_ns i) - 60 end.
Lemma secs_last i : unix (mi_now_ns i) - last_of i = secs_of i.
Proof. unfold secs_of, last_of. destruct (mi_last i); lia. Qed.

(* structure of one invocation, with explicit names *)
Lemma mint_fn_inv i o : mint_fn i = Some o ->
  exists annual block,
    Z.abs (total_in i) <= INT_LIM /\
    annual_provision SUPPLY_CAP GENESIS_NS (mi_now_ns i) (total_in i) = Some annual /\
    block_provision annual (secs_of i) = Some block /\
    ((0 < block /\ exists fee bond, split (mi_ratio i) block = Some (fee, bond) /\
        o = {| mo_fee_minted := (if 0 <? fee then fee else 0);
               mo_bond_minted := (if 0 <? bond then bond else 0);
               mo_last := unix (mi_now_ns i) |})
     \/ (block <= 0 /\ o = {| mo_fee_minted := 0; mo_bond_minted := 0; mo_last := unix (mi_now_ns i) |})).
Proof.
  unfold mint_fn. fold (last_of i). rewrite secs_last. intros H.
  destruct (chk_int (mi_bond_supply i + mi_fee_supply i)) as [total|] eqn:Et; [cbn [obind] in H|discriminate H].
  apply chk_int_some in Et. destruct Et as [-> Hlim].
  replace (mi_bond_supply i + mi_fee_supply i) with (total_in i) in * by (unfold total_in; lia).
  destruct (annual_provision _ _ _ _) as [annual|] eqn:Ea; [cbn [obind] in H|discriminate H].
  destruct (block_provision _ _) as [block|] eqn:Eb; [cbn [obind] in H|discriminate H].
  exists annual, block. repeat split; try assumption.
  destruct (Z.ltb_spec 0 block) as [Hpos|Hnp].
  - left. split; [assumption|].
    destruct (split _ _) as [[fee bond]|] eqn:Es; [cbn [obind] in H|discriminate H].
    exists fee, bond. split; [reflexivity|]. injection H as <-. reflexivity.
  - right. split; [assumption|]. injection H as <-. reflexivity.
Qed.

Lemma mint_nonneg i o : mint_fn i = Some o -> 0 <= mo_fee_minted o /\ 0 <= mo_bond_minted o.
Proof.
  intros H. destruct (mint_fn_inv i o H) as (annual & block & _ & _ & _ & [(Hp & fee & bond & _ & ->)|(_ & ->)]); cbn.
  - destruct (0 <? fee) eqn:?; destruct (0 <? bond) eqn:?; lia.
  - lia.
Qed.

(* Everything the model says about one invocation, for supplies and ratios in their domain. *)
Lemma mint_fn_spec i o :
  0 <= mi_fee_supply i -> 0 <= mi_bond_supply i -> 0 <= mi_ratio i <= P -> 0 <= secs_of i ->
  mint_fn i = Some o ->
  exists annual block rate,
    annual_provision SUPPLY_CAP GENESIS_NS (mi_now_ns i) (total_in i) = Some annual /\
    inflation_rate_cap (years_since_genesis GENESIS_NS (mi_now_ns i)) = Some rate /\
    block_provision annual (secs_of i) = Some block /\
    minted o = block /\ 0 <= block /\
    mo_fee_minted o * P <= mi_ratio i * block < mo_fee_minted o * P + P /\
    block * SECONDS_PER_YEAR <= annual * secs_of i /\
    annual * P <= rate * total_in i /\
    (total_in i <= SUPPLY_CAP -> total_in i + annual <= SUPPLY_CAP) /\
    block <= annual.
Proof.
  intros Hf Hbd Hr Hs H.
  destruct (mint_fn_inv i o H) as (annual & block & _ & Ea & Eb & Hcase).
  assert (Ht0 : 0 <= total_in i) by (unfold total_in; lia).
  destruct (annual_bounds _ _ _ _ _ Ht0 Ea) as (Ha0 & Hcap & _ & rate & Hrate & Hrb).
  destruct (block_bounds _ _ _ Ha0 Hs Eb) as (Hb0 & Hpro & Hle).
  exists annual, block, rate.
  assert (Hm : minted o = block /\ mo_fee_minted o * P <= mi_ratio i * block < mo_fee_minted o * P + P).
  { destruct Hcase as [(Hp & fee & bond & Es & ->)|(Hnp & ->)]; unfold minted; cbn.
    - destruct (split_exact _ _ _ _ Hr Hb0 Es) as (Hsum & Hfe & Hbo & Hbr).
      destruct (0 <? fee) eqn:?; destruct (0 <? bond) eqn:?; split; try lia.
      all: assert (fee = 0) by lia; subst fee; lia.
    - assert (block = 0) by lia. subst block. unfold P. lia. }
  destruct Hm as [Hm1 Hm2]. repeat split; try assumption; lia.
Qed.

(* Supply cap: holds whatever the time since the last mint. *)
Theorem mint_respects_cap i o :
  0 <= mi_fee_supply i -> 0 <= mi_bond_supply i -> 0 <= mi_ratio i <= P ->
  0 <= secs_of i -> total_in i <= SUPPLY_CAP ->
  mint_fn i = Some o -> total_in i + minted o <= SUPPLY_CAP.
Proof.
  intros Hf Hb Hr Hs0 Hc H.
  destruct (mint_fn_spec i o Hf Hb Hr Hs0 H) as (annual & block & rate & _ & _ & _ & Hm & _ & _ & _ & _ & Hcap & Hle).
  specialize (Hcap Hc). lia.
Qed.

(* above the cap nothing is minted *)
Theorem mint_nothing_above_cap i o :
  0 <= mi_fee_supply i -> 0 <= mi_bond_supply i -> 0 <= mi_ratio i <= P ->
  0 <= secs_of i -> SUPPLY_CAP < total_in i ->
  mint_fn i = Some o -> minted o = 0.
Proof.
  intros Hf Hb Hr Hs0 Hc H.
  destruct (mint_fn_inv i o H) as (annual & block & _ & Ea & Eb & _).
  assert (Ht0 : 0 <= total_in i) by (unfold total_in; lia).
  destruct (annual_bounds _ _ _ _ _ Ht0 Ea) as (Ha0 & _ & Hz & _).
  specialize (Hz Hc). subst annual.
  destruct (mint_fn_spec i o Hf Hb Hr Hs0 H) as (annual & block' & rate & Ea' & _ & Eb' & Hm & Hb0 & _ & _ & _ & _ & Hle).
  rewrite Ea in Ea'. injection Ea' as <-. lia.
Qed.

(* never more than the inflation cap pro-rated to the elapsed time *)
Theorem mint_le_prorated_inflation i o :
  0 <= mi_fee_supply i -> 0 <= mi_bond_supply i -> 0 <= mi_ratio i <= P -> 0 <= secs_of i ->
  mint_fn i = Some o ->
  exists rate, inflation_rate_cap (years_since_genesis GENESIS_NS (mi_now_ns i)) = Some rate /\
    minted o * SECONDS_PER_YEAR * P <= rate * total_in i * secs_of i.
Proof.
  intros Hf Hb Hr Hs0 H.
  destruct (mint_fn_spec i o Hf Hb Hr Hs0 H) as (annual & block & rate & _ & Hrate & _ & Hm & Hb0 & _ & Hpro & Hrb & _ & _).
  exists rate. split; [assumption|]. rewrite Hm. unfold SECONDS_PER_YEAR, P in *. nia.
Qed.

(* the split: fee part = floor(ratio * minted), the rest is the bond part, nothing lost *)
Theorem mint_split_exact i o :
  0 <= mi_fee_supply i -> 0 <= mi_bond_supply i -> 0 <= mi_ratio i <= P -> 0 <= secs_of i ->
  mint_fn i = Some o ->
  mo_fee_minted o * P <= mi_ratio i * minted o < mo_fee_minted o * P + P /\
  mo_bond_minted o = minted o - mo_fee_minted o.
Proof.
  intros Hf Hb Hr Hs0 H.
  destruct (mint_fn_spec i o Hf Hb Hr Hs0 H) as (annual & block & rate & _ & _ & _ & Hm & _ & Hsp & _).
  rewrite Hm. split; [assumption|]. unfold minted in Hm. lia.
Qed.

(* nothing lost: the two parts together are the whole provision the invocation is due *)
Theorem mint_total_is_provision i o :
  0 <= mi_fee_supply i -> 0 <= mi_bond_supply i -> 0 <= mi_ratio i <= P -> 0 <= secs_of i ->
  mint_fn i = Some o -> provision_of i = Some (minted o).
Proof.
  intros Hf Hb Hr Hs0 H.
  destruct (mint_fn_spec i o Hf Hb Hr Hs0 H) as (annual & block & rate & Ea & _ & Eb & Hm & _).
  unfold provision_of. unfold total_in in Ea. rewrite Ea. cbn [obind].
  unfold secs_of in Eb. rewrite Eb. rewrite Hm. reflexivity.
Qed.

(* Regression witness: before the fix (no clamp) a gap above one year passed the cap. *)
Definition mint_fn_prefix_unclamped (i : mint_in) : option Z :=
  match chk_int (mi_bond_supply i + mi_fee_supply i) with
  | Some total =>
    match annual_provision SUPPLY_CAP GENESIS_NS (mi_now_ns i) total with
    | Some annual => block_provision_raw annual (secs_of i)
    | None => None end
  | None => None end.
Definition long_gap_witness : mint_in :=
  {| mi_fee_supply := 999999998000000; mi_bond_supply := 1000000;
     mi_last := Some (1800000000 - 3 * 31536000); mi_now_ns := 1800000000 * 1000000000;
     mi_ratio := 500000000000000000 |}.
Lemma unclamped_provision_passes_cap :
  exists b, mint_fn_prefix_unclamped long_gap_witness = Some b /\
            SUPPLY_CAP < total_in long_gap_witness + b.
Proof. eexists. split; [vm_compute; reflexivity|]. vm_compute. reflexivity. Qed.
(* ... and the clamped function is fine on the same input *)
Example long_gap_now_fine :
  exists o, mint_fn long_gap_witness = Some o /\ total_in long_gap_witness + minted o <= SUPPLY_CAP.
Proof. eexists. split; [vm_compute; reflexivity|]. vm_compute. congruence. Qed.
