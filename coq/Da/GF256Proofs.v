(* GF(2^8) of Da/GF256.v is a field.
   Laws in one or two variables are established by exhaustive evaluation over all 256 (resp.
   65536) elements with vm_compute, lifted to a universal statement by [forallb_forall] and
   the completeness of [all_bytes] (the carrier [byte] has exactly 256 inhabitants, so this IS
   a proof, the bound being the size of the type).  The three-variable laws are derived:
   associativity of + from bitwise xor, associativity of * from the log/exp representation,
   distributivity from additivity of [xtime] by induction on the logarithm. *)
From Coq Require Import NArith List Bool Lia Field FMapPositive.
From Coq Require Import Init.Byte Strings.Byte.
From Sunrise Require Import Da.GF256.
Import ListNotations.

(* ---------- exhaustive-check infrastructure ---------- *)

Lemma all_bytes_nth : forall b, nth (to_nat b) all_bytes x00 = b.
Proof. destruct b; reflexivity. Qed.

Lemma all_bytes_complete : forall b, In b all_bytes.
Proof.
  intro b. rewrite <- (all_bytes_nth b). apply nth_In.
  change (length all_bytes) with 256. pose proof (to_nat_bounded b). lia.
Qed.

Lemma forall_byte (P : byte -> bool) :
  forallb P all_bytes = true -> forall b, P b = true.
Proof. intros H b. rewrite forallb_forall in H. apply H, all_bytes_complete. Qed.

Lemma forall_byte2 (P : byte -> byte -> bool) :
  forallb (fun a => forallb (P a) all_bytes) all_bytes = true -> forall a b, P a b = true.
Proof.
  intros H a b. rewrite forallb_forall in H. specialize (H a (all_bytes_complete a)).
  rewrite forallb_forall in H. apply H, all_bytes_complete.
Qed.

Definition idx510 : list N := Eval vm_compute in map N.of_nat (seq 0 510).

Lemma idx510_complete : forall i, (i < 510)%N -> In i idx510.
Proof.
  intros i Hi.
  assert (E : idx510 = map N.of_nat (seq 0 510)) by (vm_compute; reflexivity).
  rewrite E. rewrite <- (N2Nat.id i). apply in_map. apply in_seq. lia.
Qed.

Lemma forall_idx (P : N -> bool) :
  forallb P idx510 = true -> forall i, (i < 510)%N -> P i = true.
Proof. intros H i Hi. rewrite forallb_forall in H. apply H, idx510_complete, Hi. Qed.

Lemma is_zero_true : forall a, is_zero a = true -> a = x00.
Proof. intros a H. apply byte_dec_bl. exact H. Qed.
Lemma is_zero_false : forall a, is_zero a = false -> a <> x00.
Proof. intros a H. apply Byte.eqb_false. exact H. Qed.
Lemma is_zero_nz : forall a, a <> x00 -> is_zero a = false.
Proof.
  intros a H. destruct (is_zero a) eqn:E; [|reflexivity].
  exfalso. apply H. apply is_zero_true. exact E.
Qed.

(* ---------- addition ---------- *)

Lemma gadd_0_l : forall a, gadd x00 a = a.
Proof.
  intro a. apply byte_dec_bl. revert a.
  apply (forall_byte (fun a => Byte.eqb (gadd x00 a) a)). vm_compute. reflexivity.
Qed.

Lemma gadd_comm : forall a b, gadd a b = gadd b a.
Proof.
  intros a b. apply byte_dec_bl. revert a b.
  apply (forall_byte2 (fun a b => Byte.eqb (gadd a b) (gadd b a))). vm_compute. reflexivity.
Qed.

Lemma gadd_assoc : forall a b c, gadd a (gadd b c) = gadd (gadd a b) c.
Proof.
  intros a b c. unfold gadd. rewrite !to_bits_of_bits. f_equal.
  destruct (to_bits a) as [a0 [a1 [a2 [a3 [a4 [a5 [a6 a7]]]]]]].
  destruct (to_bits b) as [b0 [b1 [b2 [b3 [b4 [b5 [b6 b7]]]]]]].
  destruct (to_bits c) as [c0 [c1 [c2 [c3 [c4 [c5 [c6 c7]]]]]]].
  unfold xor8. rewrite !xorb_assoc. reflexivity.
Qed.

Lemma gadd_self : forall a, gadd a a = x00.
Proof.
  intro a. apply byte_dec_bl. revert a.
  apply (forall_byte (fun a => Byte.eqb (gadd a a) x00)). vm_compute. reflexivity.
Qed.

(* ---------- tables ---------- *)

Lemma exp_log : forall a, a <> x00 -> gexp (glog a) = a.
Proof.
  intros a Ha.
  assert (H : is_zero a || Byte.eqb (gexp (glog a)) a = true).
  { revert a Ha. intros a _. revert a.
    apply (forall_byte (fun a => is_zero a || Byte.eqb (gexp (glog a)) a)). vm_compute. reflexivity. }
  rewrite (is_zero_nz a Ha) in H. simpl in H. apply byte_dec_bl. exact H.
Qed.

Lemma glog_lt : forall a, (glog a < 255)%N.
Proof.
  intro a. apply N.ltb_lt. revert a.
  apply (forall_byte (fun a => (glog a <? 255)%N)). vm_compute. reflexivity.
Qed.

Lemma log_exp : forall i, (i < 510)%N -> glog (gexp i) = (i mod 255)%N.
Proof.
  intros i Hi. apply N.eqb_eq. revert i Hi.
  apply (forall_idx (fun i => (glog (gexp i) =? i mod 255)%N)). vm_compute. reflexivity.
Qed.

Lemma exp_mod : forall i, (i < 510)%N -> gexp i = gexp (i mod 255)%N.
Proof.
  intros i Hi. apply byte_dec_bl. revert i Hi.
  apply (forall_idx (fun i => Byte.eqb (gexp i) (gexp (i mod 255)%N))). vm_compute. reflexivity.
Qed.

Lemma exp_nz : forall i, (i < 510)%N -> gexp i <> x00.
Proof.
  intros i Hi. apply is_zero_false. revert i Hi.
  intros i Hi.
  assert (H : negb (is_zero (gexp i)) = true).
  { revert i Hi. apply (forall_idx (fun i => negb (is_zero (gexp i)))). vm_compute. reflexivity. }
  destruct (is_zero (gexp i)); [discriminate|reflexivity].
Qed.

(* the exp table really is the powers of the generator: 2^(i+1) = xtime (2^i), 2^0 = 1 *)
Lemma exp_0 : gexp 0 = x01.
Proof. reflexivity. Qed.

Lemma exp_succ : forall i, (i < 509)%N -> gexp (i + 1) = xtime (gexp i).
Proof.
  intros i Hi.
  assert (H : (509 <=? i)%N || Byte.eqb (gexp (i + 1)) (xtime (gexp i)) = true).
  { assert (Hi' : (i < 510)%N) by lia. revert i Hi' Hi. intros i Hi' _. revert i Hi'.
    apply (forall_idx (fun i => (509 <=? i)%N || Byte.eqb (gexp (i + 1)) (xtime (gexp i)))).
    vm_compute. reflexivity. }
  destruct (509 <=? i)%N eqn:E.
  - apply N.leb_le in E. lia.
  - simpl in H. apply byte_dec_bl. exact H.
Qed.

(* ---------- multiplication ---------- *)

Lemma gmul_0_l : forall a, gmul x00 a = x00.
Proof. reflexivity. Qed.

Lemma gmul_0_r : forall a, gmul a x00 = x00.
Proof. intro a. unfold gmul. destruct (is_zero a); reflexivity. Qed.

Lemma gmul_nz : forall a b, a <> x00 -> b <> x00 -> gmul a b = gexp (glog a + glog b).
Proof. intros a b Ha Hb. unfold gmul. rewrite (is_zero_nz a Ha), (is_zero_nz b Hb). reflexivity. Qed.

Lemma gmul_nonzero : forall a b, a <> x00 -> b <> x00 -> gmul a b <> x00.
Proof.
  intros a b Ha Hb. rewrite (gmul_nz a b Ha Hb). apply exp_nz.
  pose proof (glog_lt a). pose proof (glog_lt b). lia.
Qed.

Lemma glog_gmul : forall a b, a <> x00 -> b <> x00 ->
  glog (gmul a b) = ((glog a + glog b) mod 255)%N.
Proof.
  intros a b Ha Hb. rewrite (gmul_nz a b Ha Hb). apply log_exp.
  pose proof (glog_lt a). pose proof (glog_lt b). lia.
Qed.

Lemma gmul_1_l : forall a, gmul x01 a = a.
Proof.
  intro a. apply byte_dec_bl. revert a.
  apply (forall_byte (fun a => Byte.eqb (gmul x01 a) a)). vm_compute. reflexivity.
Qed.

Lemma gmul_comm : forall a b, gmul a b = gmul b a.
Proof.
  intros a b. apply byte_dec_bl. revert a b.
  apply (forall_byte2 (fun a b => Byte.eqb (gmul a b) (gmul b a))). vm_compute. reflexivity.
Qed.

Lemma gmul_assoc : forall a b c, gmul a (gmul b c) = gmul (gmul a b) c.
Proof.
  intros a b c.
  destruct (byte_eq_dec a x00) as [->|Ha]; [reflexivity|].
  destruct (byte_eq_dec b x00) as [->|Hb]; [rewrite !gmul_0_r; reflexivity|].
  destruct (byte_eq_dec c x00) as [->|Hc]; [rewrite !gmul_0_r; reflexivity|].
  pose proof (glog_lt a) as La. pose proof (glog_lt b) as Lb. pose proof (glog_lt c) as Lc.
  rewrite (gmul_nz a (gmul b c) Ha (gmul_nonzero b c Hb Hc)).
  rewrite (gmul_nz (gmul a b) c (gmul_nonzero a b Ha Hb) Hc).
  rewrite (glog_gmul b c Hb Hc), (glog_gmul a b Ha Hb).
  assert (B1 : ((glog b + glog c) mod 255 < 255)%N) by (apply N.mod_lt; discriminate).
  assert (B2 : ((glog a + glog b) mod 255 < 255)%N) by (apply N.mod_lt; discriminate).
  rewrite (exp_mod (glog a + (glog b + glog c) mod 255)%N) by lia.
  rewrite (exp_mod ((glog a + glog b) mod 255 + glog c)%N) by lia.
  rewrite N.add_mod_idemp_r by discriminate.
  rewrite N.add_mod_idemp_l by discriminate.
  rewrite N.add_assoc. reflexivity.
Qed.

Lemma xtime_add : forall a b, xtime (gadd a b) = gadd (xtime a) (xtime b).
Proof.
  intros a b. apply byte_dec_bl. revert a b.
  apply (forall_byte2 (fun a b => Byte.eqb (xtime (gadd a b)) (gadd (xtime a) (xtime b)))).
  vm_compute. reflexivity.
Qed.

Lemma gmul_xtime : forall a b, gmul a (xtime b) = xtime (gmul a b).
Proof.
  intros a b. apply byte_dec_bl. revert a b.
  apply (forall_byte2 (fun a b => Byte.eqb (gmul a (xtime b)) (xtime (gmul a b)))).
  vm_compute. reflexivity.
Qed.

Lemma gmul_1_r : forall a, gmul a x01 = a.
Proof. intro a. rewrite gmul_comm. apply gmul_1_l. Qed.

Lemma gmul_exp_iter : forall n, n < 255 -> forall a,
  gmul a (gexp (N.of_nat n)) = Nat.iter n xtime a.
Proof.
  induction n as [|n IH]; intros Hn a.
  - simpl. change (gexp 0) with x01. apply gmul_1_r.
  - replace (N.of_nat (S n)) with (N.of_nat n + 1)%N by lia.
    rewrite exp_succ by lia. rewrite gmul_xtime, IH by lia. reflexivity.
Qed.

Lemma iter_xtime_add : forall n a b,
  Nat.iter n xtime (gadd a b) = gadd (Nat.iter n xtime a) (Nat.iter n xtime b).
Proof.
  induction n as [|n IH]; intros a b; simpl; [reflexivity|].
  rewrite IH, xtime_add. reflexivity.
Qed.

Lemma gmul_distr_r : forall a b c, gmul (gadd a b) c = gadd (gmul a c) (gmul b c).
Proof.
  intros a b c.
  destruct (byte_eq_dec c x00) as [->|Hc].
  - rewrite !gmul_0_r. reflexivity.
  - rewrite <- (exp_log c Hc). rewrite <- (N2Nat.id (glog c)).
    pose proof (glog_lt c) as Lc.
    rewrite !gmul_exp_iter by lia. apply iter_xtime_add.
Qed.

Lemma ginv_l : forall a, a <> x00 -> gmul (ginv a) a = x01.
Proof.
  intros a Ha.
  assert (H : is_zero a || Byte.eqb (gmul (ginv a) a) x01 = true).
  { clear Ha. revert a.
    apply (forall_byte (fun a => is_zero a || Byte.eqb (gmul (ginv a) a) x01)). vm_compute. reflexivity. }
  rewrite (is_zero_nz a Ha) in H. simpl in H. apply byte_dec_bl. exact H.
Qed.

(* ---------- the field ---------- *)

Lemma gf_ring : ring_theory x00 x01 gadd gmul gadd gopp eq.
Proof.
  constructor.
  - exact gadd_0_l.
  - exact gadd_comm.
  - exact gadd_assoc.
  - exact gmul_1_l.
  - exact gmul_comm.
  - exact gmul_assoc.
  - exact gmul_distr_r.
  - reflexivity.
  - intro a. unfold gopp. apply gadd_self.
Qed.

Theorem gf_field : field_theory x00 x01 gadd gmul gadd gopp gdiv ginv eq.
Proof.
  constructor.
  - exact gf_ring.
  - discriminate.
  - reflexivity.
  - exact ginv_l.
Qed.

(* evaluation points: pt is injective below 256 *)
Lemma pt_to_nat : forall i, i < 256 -> to_nat (pt i) = i.
Proof.
  intros i Hi. unfold pt. destruct (of_nat i) as [b|] eqn:E.
  - apply to_of_nat. exact E.
  - apply of_nat_None_iff in E. lia.
Qed.

Lemma pt_inj : forall i j, i < 256 -> j < 256 -> pt i = pt j -> i = j.
Proof.
  intros i j Hi Hj E. rewrite <- (pt_to_nat i Hi), <- (pt_to_nat j Hj), E. reflexivity.
Qed.
