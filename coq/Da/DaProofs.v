(* Proofs about the x/da model of Da.v used by C07 (state machine, windows, deadlines). *)
From Coq Require Import ZArith List Bool Lia Permutation.
From Coq Require Import ZifyBool.
Import ListNotations.
From Sunrise Require Import Base.Outcome Base.Dec Base.Bank Da.Da.
Local Open Scope Z_scope.
Ltac Zify.zify_post_hook ::= Z.div_mod_to_equations.

(* ------------------------------------------------------------------ time *)
Lemma unix_mono a b : a <= b -> unix a <= unix b.
Proof. intros H. unfold unix, NS. apply Z.div_le_mono; lia. Qed.

Lemma due_status fx st d now it : due fx st d now it = true -> i_status it = st.
Proof.
  unfold due, in_index. intros H.
  apply andb_true_iff in H as [H _]. apply andb_true_iff in H as [H _]. lia.
Qed.

(* with the exact-deadline guard the second-truncated index test is implied by the guard *)
Lemma due_repaired_iff st d now it :
  due repaired st d now it = true <-> i_status it = st /\ i_ts it + d <= now.
Proof.
  unfold due, in_index, expired. cbn [fx_deadline repaired negb orb].
  split.
  - intros H. apply andb_true_iff in H as [H1 H2]. apply andb_true_iff in H1 as [H1 _]. lia.
  - intros [H1 H2]. apply andb_true_iff. split.
    + apply andb_true_iff. split; [lia|]. apply Z.leb_le. apply unix_mono. lia.
    + lia.
Qed.

Lemma due_repaired_false st d now it :
  due repaired st d now it = false <-> (i_status it <> st \/ now < i_ts it + d).
Proof.
  destruct (due repaired st d now it) eqn:E.
  - apply due_repaired_iff in E. split; [discriminate|lia].
  - split; [|reflexivity]. intros _.
    destruct (Z.eq_dec (i_status it) st) as [e|e]; [|left; exact e].
    destruct (Z_lt_dec now (i_ts it + d)) as [l|l]; [right; exact l|].
    exfalso. assert (due repaired st d now it = true) by (apply due_repaired_iff; lia). congruence.
Qed.

(* the code as found: an item can be due strictly before its deadline *)
Lemma due_legacy_iff st d now it :
  due legacy st d now it = true <-> i_status it = st /\ unix (i_ts it) <= unix (now - d).
Proof.
  unfold due, in_index. cbn [fx_deadline legacy negb orb]. rewrite andb_true_r.
  rewrite andb_true_iff, Z.eqb_eq, Z.leb_le. tauto.
Qed.

(* ------------------------------------------------------------------ lists *)
Lemma map_opt_filter_flat_map {A B C} (c : A -> option B) (g : B -> C) (k1 k2 : A -> bool) :
  forall items items3,
    map_opt c (filter k2 (filter k1 items)) = Some items3 ->
    map g items3 =
    flat_map (fun x => if k1 x && k2 x then match c x with Some y => [g y] | None => [] end else []) items.
Proof.
  induction items as [|a items IH]; intros items3 H; simpl in *.
  - inversion H. reflexivity.
  - destruct (k1 a) eqn:K1; simpl in *.
    + destruct (k2 a) eqn:K2; simpl in *.
      * destruct (c a) eqn:Ca; [|discriminate].
        destruct (map_opt c (filter k2 (filter k1 items))) eqn:M; [|discriminate].
        inversion H; subst. simpl. f_equal. apply IH. reflexivity.
      * apply IH. exact H.
    + apply IH. exact H.
Qed.

Lemma find_item_some u items it : find_item u items = Some it -> In it items /\ i_uri it = u.
Proof.
  unfold find_item. intros H. apply find_some in H as [H1 H2]. split; [exact H1|lia].
Qed.

Lemma find_item_none u items : find_item u items = None -> forall it, In it items -> i_uri it <> u.
Proof.
  unfold find_item. intros H it Hin e. pose proof (find_none _ _ H it Hin) as F. simpl in F. lia.
Qed.

Lemma has_item_false u items : has_item u items = false -> forall it, In it items -> i_uri it <> u.
Proof.
  unfold has_item. intros H it Hin e.
  assert (existsb (fun it => i_uri it =? u) items = true) by (apply existsb_exists; exists it; split; [exact Hin|lia]).
  congruence.
Qed.

Lemma upsert_in_fresh {A} (kf : A -> key) (x : A) :
  forall l, (forall y, In y l -> key_eqb (kf y) (kf x) = false) ->
            forall z, In z (upsert kf x l) <-> z = x \/ In z l.
Proof.
  induction l as [|y l IH]; intros Hf z; simpl.
  - split; intros [H|[]]; left; congruence.
  - rewrite (Hf y (or_introl eq_refl)).
    destruct (key_ltb (kf x) (kf y)); simpl.
    + split; intros H; intuition congruence.
    + rewrite IH by (intros y' Hy'; apply Hf; right; exact Hy'). split; intros H; intuition congruence.
Qed.

(* ------------------------------------------------------------------ messages *)
Definition fresh_item (sender uri n parity now : Z) (p : params) : item :=
  It uri ST_CP now n parity sender (pr_pc p) (pr_ic p).

Lemma charge_ok b sender v s' s'' b'' : charge b sender v s' = Ok (s'', b'') -> s'' = s'.
Proof.
  unfold charge. destruct (all_positive v).
  - destruct (send_vec b sender MODULE v) as [b1 [|]]; intros H; inversion H; reflexivity.
  - intros H; inversion H; reflexivity.
Qed.

(* a message never touches an existing item; the only new item is a fresh publication, in the
   challenge period, stamped with the block time *)
Lemma msg_items fx o now s b s' b' :
  is_msg o = true -> step fx o now s b = Ok (s', b') ->
  s_prm s' = s_prm s /\
  (s_items s' = s_items s \/
   exists sender uri n parity,
     o = OPublish sender uri n parity /\ parity < n /\
     (forall it, In it (s_items s) -> i_uri it <> uri) /\
     forall z, In z (s_items s') <-> z = fresh_item sender uri n parity now (s_prm s) \/ In z (s_items s)).
Proof.
  intros Hm H. destruct o; simpl in *; try discriminate.
  - (* publish *)
    unfold msg_publish in H.
    destruct (n <=? parity) eqn:E1; [discriminate|].
    destruct (has_item uri (s_items s)) eqn:E2; [discriminate|].
    apply charge_ok in H. subst s'. simpl. split; [reflexivity|]. right.
    exists sender, uri, n, parity. split; [reflexivity|]. split; [lia|].
    split; [apply has_item_false; exact E2|].
    intros z. apply upsert_in_fresh. intros y Hy.
    pose proof (has_item_false _ _ E2 y Hy) as Hne.
    unfold key_eqb, item_key. simpl. lia.
  - (* invalidity *)
    unfold msg_inval in H. destruct idx as [|i idx]; [discriminate|].
    destruct (find_item uri (s_items s)); [|discriminate].
    destruct (negb (i_status i0 =? ST_CP)); [discriminate|].
    destruct (fx_dup fx && has_inv uri sender (s_invs s)); [discriminate|].
    destruct (i_ts i0 + pr_cp (s_prm s) <? now); [discriminate|].
    destruct (fx_irange fx && negb (forallb (idx_in_range (i_n i0)) (i :: idx))); [discriminate|].
    apply charge_ok in H. subst s'. simpl. auto.
  - (* proof *)
    unfold msg_proof in H.
    destruct (negb known); [discriminate|]. destruct (negb bonded); [discriminate|].
    destruct (authorised sender val (s_deps s)); simpl in H; try discriminate.
    destruct (negb (Nat.eqb (length idx) (length orc))); [discriminate|].
    destruct (find_item uri (s_items s)); [|discriminate].
    destruct (negb (i_status i =? ST_CH)); [discriminate|].
    destruct (i_ts i + pr_pp (s_prm s) <? now); [discriminate|].
    destruct (check_proofs fx (i_n i) idx orc); simpl in H; try discriminate.
    inversion H; subst. simpl. auto.
  - unfold msg_reg in H. inversion H; subst. simpl. auto.
  - unfold msg_unreg in H. destruct (lookup sender (s_deps s)); [|discriminate].
    inversion H; subst. simpl. auto.
Qed.

(* acceptance of a challenge *)
Lemma inval_accepted fx sender uri idx now s b s' b' :
  step fx (OInval sender uri idx) now s b = Ok (s', b') ->
  exists it, find_item uri (s_items s) = Some it /\ i_status it = ST_CP /\
             now <= i_ts it + pr_cp (s_prm s) /\ idx <> [] /\
             (fx_irange fx = true -> Forall (fun i => 0 <= i < i_n it) idx) /\
             (fx_dup fx = true -> has_inv uri sender (s_invs s) = false).
Proof.
  simpl. unfold msg_inval. intros H. destruct idx as [|i idx]; [discriminate|].
  destruct (find_item uri (s_items s)) as [it|]; [|discriminate].
  destruct (i_status it =? ST_CP) eqn:E1; cbn [negb] in H; [|discriminate].
  destruct (fx_dup fx && has_inv uri sender (s_invs s)) eqn:E2; [discriminate|].
  destruct (i_ts it + pr_cp (s_prm s) <? now) eqn:E3; [discriminate|].
  destruct (fx_irange fx && negb (forallb (idx_in_range (i_n it)) (i :: idx))) eqn:E4; [discriminate|].
  exists it. split; [reflexivity|]. split; [lia|]. split; [lia|]. split; [discriminate|]. split.
  - intros Hr. rewrite Hr in E4. cbn [andb] in E4. apply negb_false_iff in E4.
    rewrite forallb_forall in E4. apply Forall_forall. intros x Hx. specialize (E4 x Hx).
    unfold idx_in_range in E4. lia.
  - intros Hd. rewrite Hd in E2. simpl in E2. exact E2.
Qed.

Lemma check_proofs_ok fx n : forall idx orc,
  length idx = length orc -> check_proofs fx n idx orc = Ok tt ->
  Forall (fun j => j < n /\ (fx_range fx = true -> 0 <= j)) idx /\ Forall (fun o => fst o = true /\ snd o = true) orc.
Proof.
  induction idx as [|j idx IH]; intros [|[parse ver] orc] Hl H; simpl in *; try discriminate.
  - split; constructor.
  - destruct parse; simpl in H; [|discriminate].
    destruct (n <=? j) eqn:E1; [discriminate|].
    destruct (j <? 0) eqn:E2.
    + destruct (fx_range fx); discriminate.
    + destruct ver; simpl in H; [|discriminate].
      destruct (IH orc) as [A B]; [lia|exact H|].
      split; constructor; auto. split; [lia|intros _; lia].
Qed.

(* acceptance of a validity proof *)
Lemma proof_accepted fx sender val uri idx orc known bonded now s b s' b' :
  step fx (OProof sender val uri idx orc known bonded) now s b = Ok (s', b') ->
  known = true /\ bonded = true /\
  (sender = val \/ lookup val (s_deps s) = Some sender) /\
  exists it, find_item uri (s_items s) = Some it /\ i_status it = ST_CH /\
             now <= i_ts it + pr_pp (s_prm s) /\
             Forall (fun j => j < i_n it /\ (fx_range fx = true -> 0 <= j)) idx /\
             Forall (fun o => fst o = true /\ snd o = true) orc.
Proof.
  simpl. unfold msg_proof. intros H.
  destruct known; simpl in H; [|discriminate]. destruct bonded; simpl in H; [|discriminate].
  split; [reflexivity|]. split; [reflexivity|].
  assert (Ha : authorised sender val (s_deps s) = Ok tt /\
               (sender = val \/ lookup val (s_deps s) = Some sender)).
  { unfold authorised in *. destruct (sender =? val) eqn:E; [split; [reflexivity|left; lia]|].
    destruct (lookup val (s_deps s)) as [d|]; [|discriminate].
    destruct (d =? sender) eqn:E2; [|discriminate]. split; [reflexivity|]. right. f_equal. lia. }
  destruct Ha as [Ha1 Ha2]. rewrite Ha1 in H. simpl in H. split; [exact Ha2|].
  destruct (Nat.eqb (length idx) (length orc)) eqn:El; simpl in H; [|discriminate].
  apply Nat.eqb_eq in El.
  destruct (find_item uri (s_items s)) as [it|]; [|discriminate].
  destruct (i_status it =? ST_CH) eqn:E1; simpl in H; [|discriminate].
  destruct (i_ts it + pr_pp (s_prm s) <? now) eqn:E2; [discriminate|].
  destruct (check_proofs fx (i_n it) idx orc) as [[]| |] eqn:E3; simpl in H; try discriminate.
  exists it. split; [reflexivity|]. split; [lia|]. split; [lia|].
  apply check_proofs_ok; assumption.
Qed.

(* ------------------------------------------------------------------ block end *)
Section EndBlock.
  Variable vd : verdict.
  Variable now : Z.
  Variable s : dstate.
  Let p := s_prm s.

  Definition keep (x : item) : bool :=
    negb (due repaired ST_REJ (pr_rej p) now x) && negb (due repaired ST_VER (pr_ver p) now x).

  (* what the block end at [now] makes of item x: nothing (pruned) or one item *)
  Definition fate (x : item) : list item :=
    if keep x then
      match chal_one now (pr_thr p) (s_invs s) x with
      | Some y => [tally_one repaired vd (pr_pp p) now (s_prfs s) (expire_one repaired (pr_cp p) now y)]
      | None => []
      end
    else [].

  Lemma end_block_items b s' b' :
    end_block repaired vd now s b = Ok (s', b') ->
    s_items s' = flat_map fate (s_items s) /\ s_prm s' = s_prm s /\ s_deps s' = s_deps s.
  Proof.
    unfold end_block. fold p.
    destruct (map_opt (chal_one now (pr_thr p) (s_invs s)) _) as [items3|] eqn:E; [|discriminate].
    match goal with |- context [existsb ?f ?l] => destruct (existsb f l) end; [discriminate|].
    match goal with |- context [fold_left ?f ?l ?a] => destruct (fold_left f l a) as [b5 cleaned] end.
    intros H. inversion H; subst. simpl. split; [|split; reflexivity].
    rewrite map_map.
    rewrite (map_opt_filter_flat_map _
               (fun y => tally_one repaired vd (pr_pp p) now (s_prfs s) (expire_one repaired (pr_cp p) now y))
               _ _ _ _ E).
    reflexivity.
  Qed.

  Definition verdict_status (x : item) : Z :=
    if rejected x (safe_of vd (s_prfs s) x) then ST_REJ else ST_VER.

  Hypothesis pp_pos : 0 < pr_pp p.

  Lemma fate_terminal x :
    i_status x = ST_VER \/ i_status x = ST_REJ ->
    fate x = if i_ts x + (if i_status x =? ST_VER then pr_ver p else pr_rej p) <=? now then [] else [x].
  Proof.
    intros Hst. unfold fate, keep.
    assert (Hc : chal_one now (pr_thr p) (s_invs s) x = Some x).
    { unfold chal_one. replace (i_status x =? ST_CP) with false; [reflexivity|]. unfold ST_CP, ST_VER, ST_REJ in *. lia. }
    assert (He : expire_one repaired (pr_cp p) now x = x).
    { unfold expire_one. replace (due repaired ST_CP (pr_cp p) now x) with false; [reflexivity|].
      symmetry. apply due_repaired_false. left. unfold ST_CP, ST_VER, ST_REJ in *. lia. }
    assert (Ht : tally_one repaired vd (pr_pp p) now (s_prfs s) x = x).
    { unfold tally_one. replace (due repaired ST_CH (pr_pp p) now x) with false; [reflexivity|].
      symmetry. apply due_repaired_false. left. unfold ST_CH, ST_VER, ST_REJ in *. lia. }
    rewrite Hc, He, Ht.
    destruct Hst as [Hst|Hst]; rewrite Hst.
    - replace (due repaired ST_REJ (pr_rej p) now x) with false
        by (symmetry; apply due_repaired_false; left; unfold ST_VER, ST_REJ in *; lia).
      simpl. destruct (due repaired ST_VER (pr_ver p) now x) eqn:D.
      + apply due_repaired_iff in D. simpl. replace (i_ts x + pr_ver p <=? now) with true by lia. reflexivity.
      + apply due_repaired_false in D. simpl. replace (i_ts x + pr_ver p <=? now) with false by lia. reflexivity.
    - replace (due repaired ST_VER (pr_ver p) now x) with false
        by (symmetry; apply due_repaired_false; left; unfold ST_VER, ST_REJ in *; lia).
      rewrite andb_true_r.
      replace (ST_REJ =? ST_VER) with false by reflexivity.
      destruct (due repaired ST_REJ (pr_rej p) now x) eqn:D.
      + apply due_repaired_iff in D. simpl. replace (i_ts x + pr_rej p <=? now) with true by lia. reflexivity.
      + apply due_repaired_false in D. simpl. replace (i_ts x + pr_rej p <=? now) with false by lia. reflexivity.
  Qed.

  Lemma keep_unresolved x : i_status x = ST_CP \/ i_status x = ST_CH -> keep x = true.
  Proof.
    intros H. unfold keep.
    replace (due repaired ST_REJ (pr_rej p) now x) with false
      by (symmetry; apply due_repaired_false; left; unfold ST_CP, ST_CH, ST_REJ in *; lia).
    replace (due repaired ST_VER (pr_ver p) now x) with false
      by (symmetry; apply due_repaired_false; left; unfold ST_CP, ST_CH, ST_VER in *; lia).
    reflexivity.
  Qed.

  Lemma fate_cp x :
    i_status x = ST_CP ->
    match reaches (pr_thr p) x (s_invs s) with
    | None => fate x = []
    | Some true => fate x = [set_status x ST_CH now]
    | Some false => fate x = [if i_ts x + pr_cp p <=? now then set_status x ST_VER now else x]
    end.
  Proof.
    intros Hst. unfold fate. rewrite keep_unresolved by (left; exact Hst).
    unfold chal_one. replace (i_status x =? ST_CP) with true by lia.
    destruct (reaches (pr_thr p) x (s_invs s)) as [[|]|]; [| |reflexivity].
    - (* to challenging; stamped now, so neither expiry nor tally applies in this block *)
      f_equal.
      assert (He : expire_one repaired (pr_cp p) now (set_status x ST_CH now) = set_status x ST_CH now).
      { unfold expire_one. replace (due repaired ST_CP (pr_cp p) now (set_status x ST_CH now)) with false; [reflexivity|].
        symmetry. apply due_repaired_false. left. simpl. unfold ST_CH, ST_CP. lia. }
      rewrite He. unfold tally_one.
      replace (due repaired ST_CH (pr_pp p) now (set_status x ST_CH now)) with false; [reflexivity|].
      symmetry. apply due_repaired_false. right. simpl. lia.
    - f_equal. unfold expire_one.
      destruct (due repaired ST_CP (pr_cp p) now x) eqn:D.
      + apply due_repaired_iff in D. replace (i_ts x + pr_cp p <=? now) with true by lia.
        unfold tally_one.
        replace (due repaired ST_CH (pr_pp p) now (set_status x ST_VER now)) with false; [reflexivity|].
        symmetry. apply due_repaired_false. left. simpl. unfold ST_CH, ST_VER. lia.
      + apply due_repaired_false in D. replace (i_ts x + pr_cp p <=? now) with false by lia.
        unfold tally_one.
        replace (due repaired ST_CH (pr_pp p) now x) with false; [reflexivity|].
        symmetry. apply due_repaired_false. left. unfold ST_CH, ST_CP in *. lia.
  Qed.

  Lemma fate_ch x :
    i_status x = ST_CH ->
    fate x = [if i_ts x + pr_pp p <=? now then set_status x (verdict_status x) now else x].
  Proof.
    intros Hst. unfold fate. rewrite keep_unresolved by (right; exact Hst).
    unfold chal_one. replace (i_status x =? ST_CP) with false by (unfold ST_CP, ST_CH in *; lia).
    f_equal. unfold expire_one.
    replace (due repaired ST_CP (pr_cp p) now x) with false
      by (symmetry; apply due_repaired_false; left; unfold ST_CP, ST_CH in *; lia).
    unfold tally_one, verdict_status.
    destruct (due repaired ST_CH (pr_pp p) now x) eqn:D.
    - apply due_repaired_iff in D. replace (i_ts x + pr_pp p <=? now) with true by lia. reflexivity.
    - apply due_repaired_false in D. replace (i_ts x + pr_pp p <=? now) with false by lia. reflexivity.
  Qed.

  Lemma fate_other x :
    i_status x <> ST_VER -> i_status x <> ST_REJ -> i_status x <> ST_CP -> i_status x <> ST_CH -> fate x = [x].
  Proof.
    intros H1 H2 H3 H4. unfold fate, keep.
    replace (due repaired ST_REJ (pr_rej p) now x) with false by (symmetry; apply due_repaired_false; left; lia).
    replace (due repaired ST_VER (pr_ver p) now x) with false by (symmetry; apply due_repaired_false; left; lia).
    simpl. unfold chal_one. replace (i_status x =? ST_CP) with false by lia.
    unfold expire_one.
    replace (due repaired ST_CP (pr_cp p) now x) with false by (symmetry; apply due_repaired_false; left; lia).
    unfold tally_one.
    replace (due repaired ST_CH (pr_pp p) now x) with false by (symmetry; apply due_repaired_false; left; lia).
    reflexivity.
  Qed.

  (* every image keeps the uri and everything except status and timestamp *)
  Lemma fate_uri x y : In y (fate x) -> i_uri y = i_uri x /\ i_n y = i_n x /\ i_parity y = i_parity x /\
                                          i_pub y = i_pub x /\ i_pc y = i_pc x /\ i_ic y = i_ic x.
  Proof.
    unfold fate. destruct (keep x); [|intros []].
    unfold chal_one. destruct (i_status x =? ST_CP).
    - destruct (reaches (pr_thr p) x (s_invs s)) as [[|]|]; [| |intros []];
        intros [H|[]]; subst y; unfold tally_one, expire_one;
        repeat match goal with |- context [if ?c then _ else _] => destruct c end; simpl; repeat split; reflexivity.
    - intros [H|[]]; subst y; unfold tally_one, expire_one;
        repeat match goal with |- context [if ?c then _ else _] => destruct c end; simpl; repeat split; reflexivity.
  Qed.
End EndBlock.

(* ------------------------------------------------------------------ block end: consequences *)
Lemma map_opt_all_some {A B} (f : A -> option B) : forall l l', map_opt f l = Some l' -> forall x, In x l -> f x <> None.
Proof.
  induction l as [|a l IH]; intros l' H x Hx; simpl in *; [contradiction|].
  destruct (f a) eqn:Fa; [|discriminate].
  destruct (map_opt f l) eqn:M; [|discriminate].
  destruct Hx as [e|Hx]; [subst; congruence|]. eapply IH; eauto.
Qed.

Lemma end_block_no_chal_panic vd now s b s' b' :
  end_block repaired vd now s b = Ok (s', b') ->
  forall x, In x (s_items s) -> keep now s x = true -> chal_one now (pr_thr (s_prm s)) (s_invs s) x <> None.
Proof.
  unfold end_block.
  destruct (map_opt (chal_one now (pr_thr (s_prm s)) (s_invs s)) _) as [items3|] eqn:E; [|discriminate].
  intros _ x Hx Hk. eapply map_opt_all_some; [exact E|].
  unfold keep in Hk. apply andb_true_iff in Hk as [K1 K2].
  apply filter_In. split; [|exact K2]. apply filter_In. split; [exact Hx|exact K1].
Qed.

Lemma end_block_in vd now s b s' b' :
  end_block repaired vd now s b = Ok (s', b') ->
  forall y, In y (s_items s') <-> exists x, In x (s_items s) /\ In y (fate vd now s x).
Proof.
  intros H y. destruct (end_block_items vd now s b s' b' H) as [E _]. rewrite E. apply in_flat_map.
Qed.

(* threshold test of the code = exact rational comparison (no rounding is involved) *)
Definition reach_prop (p : params) (x : item) (invs : list inval) : Prop :=
  pr_thr p * i_n x <= Z.of_nat (length (disputed (i_uri x) invs)) * P.

Lemma reaches_spec thr x invs r :
  reaches thr x invs = Some r -> (r = true <-> thr * i_n x <= Z.of_nat (length (disputed (i_uri x) invs)) * P).
Proof.
  unfold reaches, dmul_int, chk, dec_of_int.
  destruct (in_range (thr * i_n x)); [|discriminate].
  intros H. inversion H; subst. split; intros; lia.
Qed.

(* the allowed moves of one block end *)
Definition step_rel (a b : Z) : Prop :=
  (a = ST_CP /\ (b = ST_CH \/ b = ST_VER)) \/ (a = ST_CH /\ (b = ST_VER \/ b = ST_REJ)).

Definition retention_of (p : params) (st : Z) : Z := if st =? ST_VER then pr_ver p else pr_rej p.

(* Closed description of what a successful block end does to each item. *)
Theorem end_block_fate vd now s b s' b' :
  0 < pr_pp (s_prm s) ->
  end_block repaired vd now s b = Ok (s', b') ->
  forall x, In x (s_items s) ->
    let p := s_prm s in
    (* terminal: untouched until the retention period is over, then pruned *)
    ((i_status x = ST_VER \/ i_status x = ST_REJ) ->
       (i_ts x + retention_of p (i_status x) <= now -> fate vd now s x = []) /\
       (now < i_ts x + retention_of p (i_status x) -> fate vd now s x = [x])) /\
    (* challenge period *)
    (i_status x = ST_CP ->
       (reach_prop p x (s_invs s) -> fate vd now s x = [set_status x ST_CH now]) /\
       (~ reach_prop p x (s_invs s) -> i_ts x + pr_cp p <= now -> fate vd now s x = [set_status x ST_VER now]) /\
       (~ reach_prop p x (s_invs s) -> now < i_ts x + pr_cp p -> fate vd now s x = [x])) /\
    (* challenging *)
    (i_status x = ST_CH ->
       (i_ts x + pr_pp p <= now -> fate vd now s x = [set_status x (verdict_status vd s x) now]) /\
       (now < i_ts x + pr_pp p -> fate vd now s x = [x])).
Proof.
  intros Hpp H x Hx p. split; [|split].
  - intros Hst. rewrite (fate_terminal vd now s x Hst). fold p. unfold retention_of.
    split; intros Ht.
    + replace (i_ts x + (if i_status x =? ST_VER then pr_ver p else pr_rej p) <=? now) with true by lia. reflexivity.
    + replace (i_ts x + (if i_status x =? ST_VER then pr_ver p else pr_rej p) <=? now) with false by lia. reflexivity.
  - intros Hst. pose proof (fate_cp vd now s Hpp x Hst) as F. fold p in F.
    pose proof (end_block_no_chal_panic vd now s b s' b' H x Hx (keep_unresolved now s x (or_introl Hst))) as Hnp.
    fold p in Hnp. unfold chal_one in Hnp. replace (i_status x =? ST_CP) with true in Hnp by lia.
    destruct (reaches (pr_thr p) x (s_invs s)) as [r|] eqn:R; [|congruence].
    pose proof (reaches_spec _ _ _ _ R) as RS. unfold reach_prop.
    destruct r.
    + split; [intros _; exact F|]. split; intros Hn; exfalso; apply Hn; apply RS; reflexivity.
    + assert (Hn : ~ pr_thr p * i_n x <= Z.of_nat (length (disputed (i_uri x) (s_invs s))) * P).
      { intros C. apply RS in C. discriminate. }
      split; [intros C; contradiction|]. split; intros _ Ht; rewrite F.
      * replace (i_ts x + pr_cp p <=? now) with true by lia. reflexivity.
      * replace (i_ts x + pr_cp p <=? now) with false by lia. reflexivity.
  - intros Hst. rewrite (fate_ch vd now s x Hst). fold p. split; intros Ht.
    + replace (i_ts x + pr_pp p <=? now) with true by lia. reflexivity.
    + replace (i_ts x + pr_pp p <=? now) with false by lia. reflexivity.
Qed.

Definition status_ok (x : item) : Prop :=
  i_status x = ST_VER \/ i_status x = ST_REJ \/ i_status x = ST_CP \/ i_status x = ST_CH.

(* allowed transitions, in one statement *)
Theorem end_block_transitions vd now s b s' b' :
  0 < pr_pp (s_prm s) ->
  end_block repaired vd now s b = Ok (s', b') ->
  (forall x, In x (s_items s) -> status_ok x ->
     fate vd now s x = [x] \/
     (exists st', fate vd now s x = [set_status x st' now] /\ step_rel (i_status x) st') \/
     (fate vd now s x = [] /\ (i_status x = ST_VER \/ i_status x = ST_REJ) /\
      i_ts x + retention_of (s_prm s) (i_status x) <= now)) /\
  (forall y, In y (s_items s') -> exists x, In x (s_items s) /\ In y (fate vd now s x)).
Proof.
  intros Hpp H. split.
  - intros x Hx Hok. destruct (end_block_fate vd now s b s' b' Hpp H x Hx) as (T & C & G).
    destruct Hok as [Hs|[Hs|[Hs|Hs]]].
    + destruct (T (or_introl Hs)) as [T1 T2].
      destruct (Z_le_gt_dec (i_ts x + retention_of (s_prm s) (i_status x)) now) as [l|g].
      * right; right. split; [apply T1; exact l|]. split; [left; exact Hs|exact l].
      * left. apply T2. lia.
    + destruct (T (or_intror Hs)) as [T1 T2].
      destruct (Z_le_gt_dec (i_ts x + retention_of (s_prm s) (i_status x)) now) as [l|g].
      * right; right. split; [apply T1; exact l|]. split; [right; exact Hs|exact l].
      * left. apply T2. lia.
    + destruct (C Hs) as (C1 & C2 & C3).
      destruct (Z_le_gt_dec (pr_thr (s_prm s) * i_n x) (Z.of_nat (length (disputed (i_uri x) (s_invs s))) * P)) as [r|r].
      * right; left. exists ST_CH. split; [apply C1; exact r|]. left. split; [exact Hs|left; reflexivity].
      * assert (Hn : ~ reach_prop (s_prm s) x (s_invs s)) by (unfold reach_prop; lia).
        destruct (Z_le_gt_dec (i_ts x + pr_cp (s_prm s)) now) as [l|g].
        -- right; left. exists ST_VER. split; [apply C2; assumption|]. left. split; [exact Hs|right; reflexivity].
        -- left. apply C3; [exact Hn|lia].
    + destruct (G Hs) as [G1 G2].
      destruct (Z_le_gt_dec (i_ts x + pr_pp (s_prm s)) now) as [l|g].
      * right; left. exists (verdict_status vd s x). split; [apply G1; exact l|]. right. split; [exact Hs|].
        unfold verdict_status. destruct (rejected x (safe_of vd (s_prfs s) x)); [right|left]; reflexivity.
      * left. apply G2. lia.
  - intros y Hy. apply (end_block_in vd now s b s' b' H). exact Hy.
Qed.

(* nothing is left unresolved past a deadline after a successful block end *)
Theorem end_block_resolved_on_time vd now s b s' b' :
  0 < pr_pp (s_prm s) ->
  end_block repaired vd now s b = Ok (s', b') ->
  forall y, In y (s_items s') ->
    (i_status y = ST_CP -> now < i_ts y + pr_cp (s_prm s)) /\
    (i_status y = ST_CH -> now < i_ts y + pr_pp (s_prm s)).
Proof.
  intros Hpp H y Hy. apply (end_block_in vd now s b s' b' H) in Hy as (x & Hx & Hf).
  destruct (end_block_fate vd now s b s' b' Hpp H x Hx) as (T & C & G).
  destruct (Z.eq_dec (i_status x) ST_VER) as [e1|n1]; [|destruct (Z.eq_dec (i_status x) ST_REJ) as [e2|n2]].
  - destruct (T (or_introl e1)) as [T1 T2].
    destruct (Z_le_gt_dec (i_ts x + retention_of (s_prm s) (i_status x)) now) as [l|g].
    + rewrite (T1 l) in Hf. destruct Hf.
    + rewrite T2 in Hf by lia. destruct Hf as [e|[]]; subst y. unfold ST_CP, ST_CH, ST_VER in *. split; intros; lia.
  - destruct (T (or_intror e2)) as [T1 T2].
    destruct (Z_le_gt_dec (i_ts x + retention_of (s_prm s) (i_status x)) now) as [l|g].
    + rewrite (T1 l) in Hf. destruct Hf.
    + rewrite T2 in Hf by lia. destruct Hf as [e|[]]; subst y. unfold ST_CP, ST_CH, ST_REJ in *. split; intros; lia.
  - destruct (Z.eq_dec (i_status x) ST_CP) as [e3|n3]; [|destruct (Z.eq_dec (i_status x) ST_CH) as [e4|n4]].
    + destruct (C e3) as (C1 & C2 & C3).
      destruct (Z_le_gt_dec (pr_thr (s_prm s) * i_n x) (Z.of_nat (length (disputed (i_uri x) (s_invs s))) * P)) as [r|r].
      * rewrite (C1 r) in Hf. destruct Hf as [e|[]]; subst y. simpl. unfold ST_CP, ST_CH. split; intros; lia.
      * assert (Hn : ~ reach_prop (s_prm s) x (s_invs s)) by (unfold reach_prop; lia).
        destruct (Z_le_gt_dec (i_ts x + pr_cp (s_prm s)) now) as [l|g].
        -- rewrite (C2 Hn l) in Hf. destruct Hf as [e|[]]; subst y. simpl. unfold ST_CP, ST_CH, ST_VER. split; intros; lia.
        -- rewrite C3 in Hf by (auto; lia). destruct Hf as [e|[]]; subst y. unfold ST_CP, ST_CH in *. split; intros; lia.
    + destruct (G e4) as [G1 G2].
      destruct (Z_le_gt_dec (i_ts x + pr_pp (s_prm s)) now) as [l|g].
      * rewrite (G1 l) in Hf. destruct Hf as [e|[]]; subst y. simpl. unfold verdict_status.
        destruct (rejected x (safe_of vd (s_prfs s) x)); unfold ST_CP, ST_CH, ST_VER, ST_REJ; split; intros; lia.
      * rewrite G2 in Hf by lia. destruct Hf as [e|[]]; subst y. unfold ST_CP, ST_CH in *. split; intros; lia.
    + rewrite (fate_other vd now s x n1 n2 n3 n4) in Hf. destruct Hf as [e|[]]; subst y. split; intros; lia.
Qed.

(* ------------------------------------------------------------------ well-formedness along histories *)
Definition wf (s : dstate) : Prop := NoDup (map i_uri (s_items s)) /\ 0 < pr_pp (s_prm s).

Lemma fate_length vd now s x : (length (fate vd now s x) <= 1)%nat.
Proof.
  unfold fate. destruct (keep now s x); [|simpl; lia].
  destruct (chal_one now (pr_thr (s_prm s)) (s_invs s) x); simpl; lia.
Qed.

Lemma NoDup_flat_map_uri (f : item -> list item) :
  (forall x y, In y (f x) -> i_uri y = i_uri x) -> (forall x, (length (f x) <= 1)%nat) ->
  forall items, NoDup (map i_uri items) -> NoDup (map i_uri (flat_map f items)).
Proof.
  intros Hu Hl. induction items as [|a items IH]; intros Hnd; simpl in *; [constructor|].
  inversion Hnd as [|? ? Hnotin Hnd']; subst. specialize (IH Hnd').
  rewrite map_app.
  pose proof (Hl a) as La. pose proof (Hu a) as Ua.
  destruct (f a) as [|y [|z l]]; simpl in *; [exact IH| |lia].
  constructor; [|exact IH].
  intros Hin. apply in_map_iff in Hin as (w & Hw1 & Hw2). apply in_flat_map in Hw2 as (x & Hx1 & Hx2).
  apply Hnotin. apply in_map_iff. exists x. split; [|exact Hx1].
  rewrite <- (Hu x w Hx2). rewrite Hw1. apply Ua. left; reflexivity.
Qed.

Lemma end_block_wf vd now s b s' b' : wf s -> end_block repaired vd now s b = Ok (s', b') -> wf s'.
Proof.
  intros [Hnd Hpp] H. destruct (end_block_items vd now s b s' b' H) as (E & Ep & _).
  split; [|rewrite Ep; exact Hpp]. rewrite E.
  apply NoDup_flat_map_uri; [|apply fate_length|exact Hnd].
  intros x y Hy. apply (fate_uri vd now s x y Hy).
Qed.

Lemma upsert_perm_fresh {A} (kf : A -> key) (x : A) :
  forall l, (forall y, In y l -> key_eqb (kf y) (kf x) = false) -> Permutation (upsert kf x l) (x :: l).
Proof.
  induction l as [|y l IH]; intros Hf; simpl; [apply Permutation_refl|].
  rewrite (Hf y (or_introl eq_refl)).
  destruct (key_ltb (kf x) (kf y)); [apply Permutation_refl|].
  eapply perm_trans; [apply perm_skip; apply IH; intros y' Hy'; apply Hf; right; exact Hy'|apply perm_swap].
Qed.

Lemma msg_wf o now s b s' b' : is_msg o = true -> wf s -> step repaired o now s b = Ok (s', b') -> wf s'.
Proof.
  intros Hm [Hnd Hpp] H.
  pose proof (msg_items repaired o now s b s' b' Hm H) as [Ep Hi].
  split; [|rewrite Ep; exact Hpp].
  destruct Hi as [E|(sender & uri & n & parity & Eo & _ & Hfresh & _)]; [rewrite E; exact Hnd|].
  subst o. simpl in H. unfold msg_publish in H.
  destruct (n <=? parity); [discriminate|]. destruct (has_item uri (s_items s)) eqn:E2; [discriminate|].
  apply charge_ok in H. subst s'. simpl.
  eapply Permutation_NoDup; [apply Permutation_map; apply Permutation_sym; apply upsert_perm_fresh|].
  - intros y Hy. pose proof (Hfresh y Hy). unfold key_eqb, item_key; simpl. lia.
  - simpl. constructor; [|exact Hnd].
    intros Hin. apply in_map_iff in Hin as (w & Hw1 & Hw2). apply (Hfresh w Hw2). exact Hw1.
Qed.

(* histories: operations at chosen block times, interleaved with parameter changes *)
Inductive hev := HOp (o : op) (now : Z) | HParams (p : params).
Definition hstep (e : hev) (st : dstate * bank) : dstate * bank :=
  match e with
  | HOp o now => let '(s', b', _) := apply_step repaired o now (fst st) (snd st) in (s', b')
  | HParams p => (St p (s_items (fst st)) (s_invs (fst st)) (s_prfs (fst st)) (s_deps (fst st)), snd st)
  end.
Definition hrun (h : list hev) (st : dstate * bank) : dstate * bank := fold_left (fun st e => hstep e st) h st.
(* Params.Validate: the proof period is positive *)
Definition valid_hist (h : list hev) : Prop :=
  Forall (fun e => match e with HParams p => 0 < pr_pp p | HOp _ _ => True end) h.

Lemma hstep_wf e st : match e with HParams p => 0 < pr_pp p | HOp _ _ => True end -> wf (fst st) -> wf (fst (hstep e st)).
Proof.
  destruct st as [s b]. destruct e as [o now|p]; simpl; intros Hv Hwf.
  - unfold apply_step. destruct (step repaired o now s b) as [[s' b']| |] eqn:E; simpl; try exact Hwf.
    destruct (is_msg o) eqn:Hm.
    + eapply msg_wf; eauto.
    + destruct o; try discriminate. simpl in E. eapply end_block_wf; eauto.
  - destruct Hwf as [Hnd _]. split; simpl; assumption.
Qed.

Theorem hrun_wf h : forall st, valid_hist h -> wf (fst st) -> wf (fst (hrun h st)).
Proof.
  induction h as [|e h IH]; intros st Hv Hwf; simpl; [exact Hwf|].
  inversion Hv; subst. apply IH; [assumption|]. apply hstep_wf; assumption.
Qed.

(* verified / rejected items never change again: along any history the very same record is still
   there, or it was pruned at a block end not before its retention period was over *)
Theorem terminal_is_final h : forall st x,
  wf (fst st) -> valid_hist h -> In x (s_items (fst st)) -> (i_status x = ST_VER \/ i_status x = ST_REJ) ->
  In x (s_items (fst (hrun h st))) \/
  exists h1 now h2, h = h1 ++ HOp OEndBlock now :: h2 /\
    In x (s_items (fst (hrun h1 st))) /\
    i_ts x + retention_of (s_prm (fst (hrun h1 st))) (i_status x) <= now.
Proof.
  induction h as [|e h IH] using rev_ind; intros st x Hwf Hv Hx Hst; [left; exact Hx|].
  apply Forall_app in Hv as [Hv He]. inversion He as [|? ? He1 _]; subst.
  destruct (IH st x Hwf Hv Hx Hst) as [Hin|(h1 & now & h2 & Eh & Hin & Ht)].
  - unfold hrun. rewrite fold_left_app. fold (hrun h st). simpl.
    pose proof (hrun_wf h st Hv Hwf) as Hwf'.
    destruct (hrun h st) as [s b] eqn:Es. simpl in *.
    destruct e as [o now|p]; simpl; [|left; exact Hin].
    unfold apply_step. destruct (step repaired o now s b) as [[s' b']| |] eqn:E; simpl; try (left; exact Hin).
    destruct (is_msg o) eqn:Hm.
    + left. pose proof (msg_items repaired o now s b s' b' Hm E) as [_ [Ei|(sd & u & n & pa & _ & _ & _ & Hz)]].
      * rewrite Ei; exact Hin.
      * apply Hz. right; exact Hin.
    + destruct o; try discriminate. simpl in E.
      destruct Hwf' as [_ Hpp].
      destruct (end_block_fate _ now s b s' b' Hpp E x Hin) as (T & _ & _).
      destruct (T Hst) as [T1 T2].
      destruct (Z_le_gt_dec (i_ts x + retention_of (s_prm s) (i_status x)) now) as [l|g].
      * right. exists h, now, []. split; [reflexivity|]. fold (hrun h st). rewrite Es. simpl. split; assumption.
      * left. apply (end_block_in _ now s b s' b' E). exists x. split; [exact Hin|]. rewrite T2 by lia. left; reflexivity.
  - right. exists h1, now, (h2 ++ [e]). split; [rewrite Eh, <- app_assoc; reflexivity|]. split; assumption.
Qed.

(* ------------------------------------------------------------------ a block end does not fail *)
Lemma map_opt_total {A B} (f : A -> option B) : forall l, (forall x, In x l -> f x <> None) -> exists l', map_opt f l = Some l'.
Proof.
  induction l as [|a l IH]; intros H; simpl; [eexists; reflexivity|].
  destruct (f a) eqn:Fa; [|exfalso; apply (H a (or_introl eq_refl)); exact Fa].
  destruct IH as [l' E]; [intros x Hx; apply H; right; exact Hx|]. rewrite E. eexists; reflexivity.
Qed.

Lemma reward_vec_repaired_total pc k : 0 <= k -> reward_vec repaired pc k <> None.
Proof.
  intros Hk. unfold reward_vec. cbn [fx_zero repaired andb].
  destruct (k =? 0) eqn:E; [discriminate|].
  assert (T : forall l, exists r, map_opt (fun a => if a =? 0 then Some 0 else reward_amt a k) l = Some r).
  { intros l. apply map_opt_total. intros a _. destruct (a =? 0); [discriminate|].
    unfold reward_amt, dquo_int. rewrite E. discriminate. }
  destruct (T pc) as [r Er]. rewrite Er. discriminate.
Qed.

Theorem end_block_total vd now s b :
  (forall x, In x (s_items s) -> i_status x = ST_CP -> in_range (pr_thr (s_prm s) * i_n x) = true) ->
  (forall x pi, vd x pi <> None) ->
  exists s' b', end_block repaired vd now s b = Ok (s', b').
Proof.
  intros Hthr Hvd. unfold end_block.
  destruct (map_opt_total (chal_one now (pr_thr (s_prm s)) (s_invs s))
              (filter (fun it => negb (due repaired ST_VER (pr_ver (s_prm s)) now it))
                 (filter (fun it => negb (due repaired ST_REJ (pr_rej (s_prm s)) now it)) (s_items s)))) as [items3 E].
  { intros x Hx. apply filter_In in Hx as [Hx _]. apply filter_In in Hx as [Hx _].
    unfold chal_one. destruct (i_status x =? ST_CP) eqn:Es; [|discriminate].
    unfold reaches, dmul_int, chk. rewrite (Hthr x Hx) by lia.
    match goal with |- context [if ?c then _ else _] => destruct c end; discriminate. }
  rewrite E.
  match goal with |- context [existsb ?f ?l] => destruct (existsb f l) eqn:Ex end.
  - exfalso. apply existsb_exists in Ex as (x & _ & Hp). unfold tally_panics in Hp.
    destruct (vd x (prfs_of (i_uri x) (s_prfs s))) as [safe|] eqn:Ev; [|eapply Hvd; eauto].
    destruct (rejected x safe); [|discriminate].
    destruct (reward_vec repaired (i_pc x) (Z.of_nat (length (invs_of (i_uri x) (s_invs s))))) eqn:Er; [discriminate|].
    eapply reward_vec_repaired_total; [|exact Er]. lia.
  - match goal with |- context [fold_left ?f ?l ?a] => destruct (fold_left f l a) as [b5 cleaned] end.
    eexists; eexists; reflexivity.
Qed.

(* ------------------------------------------------------------------ the code as found: witnesses *)
Definition w_prm : params :=
  Pm 330000000000000000 1000000000000000000 10000000000 10000000000 20000000000 20000000000 [1000; 0] [100; 0].
Definition w_item : item := It 1 ST_CP 10900000000 10 0 4 [1000; 0] [100; 0].
Definition w_state : dstate := St w_prm [w_item] [] [] [].
Definition w_bank : bank := bank_of [[1000; 0]; [0; 0]; [0; 0]; [0; 0]; [5000; 0]; [5000; 0]].
Definition w_now : Z := 20100000000.    (* 0.8 s before the challenge deadline 20.9 s *)

Definition status_after (r : res (dstate * bank)) (u : Z) : option Z :=
  match r with
  | Ok (s', _) => match find_item u (s_items s') with Some y => Some (i_status y) | None => None end
  | _ => None
  end.

(* independent truncation of both sides to seconds: verified 0.8 s early *)
Lemma legacy_expires_early :
  w_now < i_ts w_item + pr_cp w_prm /\
  status_after (end_block legacy (code_verdict legacy (pr_rf w_prm)) w_now w_state w_bank) 1 = Some ST_VER.
Proof. split; [reflexivity|vm_compute; reflexivity]. Qed.
Lemma repaired_waits_for_deadline :
  status_after (end_block repaired (code_verdict repaired (pr_rf w_prm)) w_now w_state w_bank) 1 = Some ST_CP /\
  status_after (end_block repaired (code_verdict repaired (pr_rf w_prm)) (i_ts w_item + pr_cp w_prm) w_state w_bank) 1 = Some ST_VER.
Proof. split; vm_compute; reflexivity. Qed.

(* indices that name no shard are accepted and counted: challenging without one disputed shard *)
Definition w_phantom : list Z := [100; 101; 102; -1].
Lemma legacy_phantom_shards :
  match step legacy (OInval 5 1 w_phantom) 11000000000 w_state w_bank with
  | Ok (s1, b1) =>
      status_after (end_block legacy (code_verdict legacy (pr_rf w_prm)) 12000000000 s1 b1) 1 = Some ST_CH /\
      filter (idx_in_range (i_n w_item)) (disputed 1 (s_invs s1)) = []
  | _ => False
  end.
Proof. vm_compute. split; reflexivity. Qed.
(* the same on the code as it is now: the range check of SubmitInvalidity is not applied *)
Lemma repaired_phantom_shards :
  match step repaired (OInval 5 1 w_phantom) 11000000000 w_state w_bank with
  | Ok (s1, b1) =>
      status_after (end_block repaired (code_verdict repaired (pr_rf w_prm)) 12000000000 s1 b1) 1 = Some ST_CH /\
      filter (idx_in_range (i_n w_item)) (disputed 1 (s_invs s1)) = []
  | _ => False
  end.
Proof. vm_compute. split; reflexivity. Qed.
Lemma range_check_rejects_phantom_shards :
  step with_range_check (OInval 5 1 w_phantom) 11000000000 w_state w_bank = Err E_BAD_IDX.
Proof. vm_compute. reflexivity. Qed.

(* ------------------------------------------------------------------ the repaired handlers, specialised *)
Lemma inval_accepted_repaired sender uri idx now s b s' b' :
  step repaired (OInval sender uri idx) now s b = Ok (s', b') ->
  exists it, find_item uri (s_items s) = Some it /\ i_status it = ST_CP /\
             now <= i_ts it + pr_cp (s_prm s) /\ idx <> [] /\ has_inv uri sender (s_invs s) = false.
Proof.
  intros H. destruct (inval_accepted repaired sender uri idx now s b s' b' H) as (it & A & B & C & D & E & F).
  exists it. repeat split; auto.
Qed.

(* with the range check of notes/patches/C07-shard-index-range.patch every accepted index is a shard *)
Lemma inval_accepted_with_range_check sender uri idx now s b s' b' :
  step with_range_check (OInval sender uri idx) now s b = Ok (s', b') ->
  exists it, find_item uri (s_items s) = Some it /\ Forall (fun i => 0 <= i < i_n it) idx.
Proof.
  intros H. destruct (inval_accepted with_range_check sender uri idx now s b s' b' H) as (it & A & B & C & D & E & F).
  exists it. split; auto.
Qed.

Lemma proof_accepted_repaired sender val uri idx orc known bonded now s b s' b' :
  step repaired (OProof sender val uri idx orc known bonded) now s b = Ok (s', b') ->
  known = true /\ bonded = true /\
  (sender = val \/ lookup val (s_deps s) = Some sender) /\
  exists it, find_item uri (s_items s) = Some it /\ i_status it = ST_CH /\
             now <= i_ts it + pr_pp (s_prm s) /\
             Forall (fun j => 0 <= j < i_n it) idx /\
             Forall (fun o => fst o = true /\ snd o = true) orc.
Proof.
  intros H. destruct (proof_accepted repaired sender val uri idx orc known bonded now s b s' b' H)
    as (A & B & C & it & D & E & F & G & I).
  split; [exact A|]. split; [exact B|]. split; [exact C|]. exists it. repeat split; auto.
  apply Forall_forall. intros j Hj. pose proof (proj1 (Forall_forall _ _) G j Hj) as [G1 G2].
  specialize (G2 eq_refl). lia.
Qed.

Lemma w_state_wf : wf w_state.
Proof. split; [repeat constructor; simpl; tauto|reflexivity]. Qed.

(* ------------------------------------------------------------------ the monitors hold on the model *)
(* Monitors 2 and 4 of Da/C07Check.v, evaluated on the model's own step, are true: a faithful
   implementation can never make them fire. *)
From Sunrise Require Import Da.C07Check.

Lemma mon_no_overdue_on_model vd now s b s' b' preb postb :
  0 < pr_pp (s_prm s) -> end_block repaired vd now s b = Ok (s', b') ->
  mon_no_overdue (Case s preb OEndBlock now 0 s' postb) = true.
Proof.
  intros Hpp H. unfold mon_no_overdue. simpl. apply forallb_forall. intros y Hy.
  destruct (end_block_resolved_on_time vd now s b s' b' Hpp H y Hy) as [A B].
  destruct (i_status y =? ST_CP) eqn:E1; [specialize (A ltac:(lia)); lia|].
  destruct (i_status y =? ST_CH) eqn:E2; [specialize (B ltac:(lia)); lia|reflexivity].
Qed.

Lemma mon_acceptance_on_model o now s b s' b' preb postb :
  step repaired o now s b = Ok (s', b') ->
  mon_acceptance (Case s preb o now 0 s' postb) = true.
Proof.
  intros H. unfold mon_acceptance. simpl. destruct o; try reflexivity.
  - destruct (inval_accepted_repaired sender uri idx now s b s' b' H) as (it & F & A & B & _).
    rewrite F. lia.
  - destruct (proof_accepted_repaired sender val uri idx orc known bonded now s b s' b' H)
      as (K & Bd & Au & it & F & A & B & _).
    rewrite F, K, Bd. destruct Au as [Au|Au].
    + replace (sender =? val) with true by lia. simpl. lia.
    + rewrite Au. rewrite Z.eqb_refl. rewrite orb_true_r. lia.
Qed.

(* ------------------------------------------------------------------ disputed indices and shards *)
(* Off the trigger of finding C07-F1 (every recorded index of the item names one of its shards) the
   threshold test of the code is the test of the property on distinct disputed shards. *)
Lemma nodup_in_iff (l : list Z) x : In x (nodup Z.eq_dec l) <-> In x l.
Proof. apply nodup_In. Qed.

Lemma filter_all_true {A} (P : A -> bool) l : (forall x, In x l -> P x = true) -> filter P l = l.
Proof.
  induction l as [|a l IH]; intros H; simpl; [reflexivity|].
  rewrite (H a (or_introl eq_refl)). f_equal. apply IH. intros x Hx. apply H. right; exact Hx.
Qed.

Lemma disputed_shards_all x invs :
  has_phantom x invs = false -> disputed_shards x invs = disputed (i_uri x) invs.
Proof.
  intros H. unfold disputed_shards. apply filter_all_true. intros i Hi.
  unfold disputed in Hi. apply nodup_In in Hi. apply in_concat in Hi as (l & Hl & Hil).
  apply in_map_iff in Hl as (v & Ev & Hv). subst l.
  unfold has_phantom in H.
  destruct (forallb (idx_in_range (i_n x)) (v_idx v)) eqn:F.
  - rewrite forallb_forall in F. apply F. exact Hil.
  - exfalso. assert (existsb (fun v => negb (forallb (idx_in_range (i_n x)) (v_idx v))) (invs_of (i_uri x) invs) = true).
    { apply existsb_exists. exists v. split; [exact Hv|]. rewrite F. reflexivity. }
    congruence.
Qed.

Theorem reach_is_threshold_on_shards p x invs :
  has_phantom x invs = false ->
  (reach_prop p x invs <-> threshold_reached p x invs = true).
Proof.
  intros H. unfold reach_prop, threshold_reached. rewrite (disputed_shards_all x invs H). lia.
Qed.

(* the finding on the current code: an accepted challenge with indices that name no shard fires the
   trigger and fails monitor 6; the block end that follows lifts the item to challenging with zero
   disputed shards, fires the trigger and fails monitor 3 *)
Definition w_rows : list (list Z) := [[1000; 0]; [0; 0]; [0; 0]; [0; 0]; [5000; 0]; [5000; 0]].
Lemma finding_phantom_shards :
  match apply_step repaired (OInval 5 1 w_phantom) 11000000000 w_state (bank_of w_rows) with
  | (s1, b1, r1) =>
      let c1 := Case w_state w_rows (OInval 5 1 w_phantom) 11000000000 r1 s1 (view w_rows b1) in
      r1 = 0 /\ trig_phantom_shards c1 = true /\ mon_real_shards c1 = false /\
      match apply_step repaired OEndBlock 12000000000 s1 b1 with
      | (s2, b2, r2) =>
          let c2 := Case s1 (view w_rows b1) OEndBlock 12000000000 r2 s2 (view w_rows b2) in
          r2 = 0 /\ trig_phantom_shards c2 = true /\ mon_on_time c2 = false /\
          status_after (Ok (s2, b2)) 1 = Some ST_CH
      end
  end.
Proof. vm_compute. repeat split; reflexivity. Qed.
