(* The run-time monitor [liq_inv_b] never demands more than the proved invariant:
   Inv s -> liq_inv_b s = true.  So a false monitor on an implementation state means the
   invariant itself fails there. *)
From Coq Require Import ZArith Bool List Lia Sorted ZifyBool.
Import ListNotations.
From Sunrise Require Import Base.Outcome Base.Dec Amm.Math Amm.Pool Amm.LiqDefs Amm.LiqLists Amm.LiqInv Amm.LiqSwap.
Local Open Scope Z_scope.

Lemma sorted_b_of_strongly {A} (key : A -> Z) (l : list A) :
  StronglySorted (fun a b => key a < key b) l -> sorted_b key l = true.
Proof.
  intros H. induction H as [|x l Hs IH Hall]; [reflexivity|]. cbn [sorted_b].
  destruct l as [|y r]; [reflexivity|]. rewrite IH, andb_true_r.
  inversion Hall; subst. lia.
Qed.

Theorem liq_inv_b_complete s : Inv s -> liq_inv_b s = true.
Proof.
  intros [[[H1 H2 H3 H4 H5 H6 H7 H8 H9 H10] Hp] Hst]. unfold liq_inv_b.
  repeat (apply andb_true_intro; split).
  - apply forallb_forall. intros p Hin. unfold StrictPos in Hst.
    rewrite Forall_forall in H1, H3, Hst. destruct (H1 _ Hin). specialize (H3 _ Hin). specialize (Hst _ Hin). lia.
  - apply (sorted_b_of_strongly pos_id). exact H2.
  - apply (sorted_b_of_strongly t_index). exact H4.
  - unfold all_ticks_ok. apply forallb_forall. intros x Hin.
    pose proof (in_find_tick_sorted _ _ H4 Hin) as Hf.
    specialize (H5 (t_index x)). specialize (H6 (t_index x)). unfold stored_gross in H5. unfold stored_net in H6.
    rewrite Hf in H5, H6. specialize (Hp _ _ Hf). lia.
  - unfold all_bounds_present. apply forallb_forall. intros p Hin.
    unfold StrictPos in Hst. rewrite Forall_forall in Hst. specialize (Hst _ Hin).
    assert (Hl : gross_at (a_positions s) (pos_lower p) <> 0).
    { pose proof (gross_at_ge _ (pos_lower p) p H1 Hin) as Hge. unfold bnd in Hge. rewrite Z.eqb_refl in Hge. specialize (Hge eq_refl). lia. }
    assert (Hu : gross_at (a_positions s) (pos_upper p) <> 0).
    { pose proof (gross_at_ge _ (pos_upper p) p H1 Hin) as Hge. unfold bnd in Hge. rewrite Z.eqb_refl, orb_true_r in Hge. specialize (Hge eq_refl). lia. }
    rewrite <- H5 in Hl, Hu. unfold stored_gross in Hl, Hu.
    destruct (find_tick (a_ticks s) (pos_lower p)); [|contradiction].
    destruct (find_tick (a_ticks s) (pos_upper p)); [reflexivity|contradiction].
  - lia.
  - lia.
  - destruct (a_positions s) eqn:E; [destruct (H9 eq_refl); lia|apply H10; discriminate].
Qed.
