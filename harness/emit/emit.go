// Package emit holds what every property harness shares: the PRNG (one splitmix64
// stream per run), Coq term formatting for cases.v files, and the stats file.
package emit

import (
	"encoding/json"
	"fmt"
	"math/big"
	"os"
	"path/filepath"
	"sort"
	"strings"
)

// ---------- PRNG ----------

type Rand struct{ s uint64 }

// NewRand derives the stream state from the seed through one finalising mix, so that
// consecutive seeds give unrelated streams (state = seed*G would make seed k+1 the same
// stream as seed k shifted by one draw).
func NewRand(seed int64) *Rand {
	z := uint64(seed) + 0x632BE59BD9B4E019
	z = (z ^ (z >> 30)) * 0xBF58476D1CE4E5B9
	z = (z ^ (z >> 27)) * 0x94D049BB133111EB
	z ^= z >> 31
	return &Rand{s: z}
}

func (r *Rand) U64() uint64 {
	r.s += 0x9E3779B97F4A7C15
	z := r.s
	z = (z ^ (z >> 30)) * 0xBF58476D1CE4E5B9
	z = (z ^ (z >> 27)) * 0x94D049BB133111EB
	return z ^ (z >> 31)
}
func (r *Rand) Intn(n int) int {
	if n <= 0 {
		return 0
	}
	return int(r.U64() % uint64(n))
}
func (r *Rand) Int63n(n int64) int64 {
	if n <= 0 {
		return 0
	}
	return int64(r.U64() % uint64(n))
}
func (r *Rand) Bool() bool           { return r.U64()&1 == 1 }
func (r *Rand) Chance(p, q int) bool { return r.Intn(q) < p }

// Big returns a uniformly random integer in [0, n).
func (r *Rand) Big(n *big.Int) *big.Int {
	if n.Sign() <= 0 {
		return big.NewInt(0)
	}
	words := (n.BitLen() + 63) / 64
	x := new(big.Int)
	for i := 0; i < words+1; i++ {
		x.Lsh(x, 64)
		x.Or(x, new(big.Int).SetUint64(r.U64()))
	}
	return x.Mod(x, n)
}

// LogUniform returns an integer whose magnitude is spread over [1, 10^maxDigits].
func (r *Rand) LogUniform(maxDigits int) *big.Int {
	d := 1 + r.Intn(maxDigits)
	lim := new(big.Int).Exp(big.NewInt(10), big.NewInt(int64(d)), nil)
	x := r.Big(lim)
	if x.Sign() == 0 {
		x.SetInt64(1)
	}
	return x
}

// Pick returns one of the given values.
func Pick[T any](r *Rand, xs ...T) T { return xs[r.Intn(len(xs))] }

// ---------- Coq terms ----------

func Z(x *big.Int) string {
	if x.Sign() < 0 {
		return "(" + x.String() + ")"
	}
	return x.String()
}
func ZI(x int64) string { return Z(big.NewInt(x)) }
func Bool(b bool) string {
	if b {
		return "true"
	}
	return "false"
}
func List(xs []string) string { return "[" + strings.Join(xs, "; ") + "]" }
func Some(x string) string    { return "(Some " + x + ")" }
func None() string            { return "None" }
func Tuple(xs ...string) string {
	return "(" + strings.Join(xs, ", ") + ")"
}
func App(f string, args ...string) string {
	return "(" + f + " " + strings.Join(args, " ") + ")"
}

// Hex bytes as a Coq list of Z.
func Bytes(b []byte) string {
	xs := make([]string, len(b))
	for i, c := range b {
		xs[i] = fmt.Sprintf("%d", c)
	}
	return List(xs)
}

// ---------- cases.v writer ----------

// CasesFile accumulates case terms and writes a Coq file that evaluates
// `runner cases` with vm_compute and prints the verdict list.
type CasesFile struct {
	Import string // e.g. "Econ.C13Check"
	Runner string // function : list case -> list (Z * Z)
	Type   string // case type
	Cases  []string
	Base   int // index of Cases[0] in the run's global case numbering
}

func (c *CasesFile) Add(term string) int { c.Cases = append(c.Cases, term); return len(c.Cases) - 1 }

// Write emits shards of at most shard cases each: <dir>/<name>_<k>.v
func (c *CasesFile) Write(dir, name string, shard int) ([]string, error) {
	if shard <= 0 {
		shard = 400
	}
	var files []string
	for k, off := 0, 0; off < len(c.Cases) || k == 0; k, off = k+1, off+shard {
		end := off + shard
		if end > len(c.Cases) {
			end = len(c.Cases)
		}
		var sb strings.Builder
		sb.WriteString("From Coq Require Import ZArith List String.\nImport ListNotations.\n")
		sb.WriteString("From Sunrise Require Import Base.Outcome " + c.Import + ".\n")
		sb.WriteString("Local Open Scope Z_scope.\n")
		sb.WriteString(fmt.Sprintf("Definition base : Z := %d.\n", off+c.Base))
		sb.WriteString("Definition cases : list " + c.Type + " := [\n")
		for i := off; i < end; i++ {
			sb.WriteString("  " + c.Cases[i])
			if i+1 < end {
				sb.WriteString(";")
			}
			sb.WriteString("\n")
		}
		sb.WriteString("].\n")
		sb.WriteString("Definition verdicts := Eval vm_compute in (" + c.Runner + " base cases).\n")
		sb.WriteString("Print verdicts.\n")
		fn := filepath.Join(dir, fmt.Sprintf("%s_%d.v", name, k))
		if err := os.WriteFile(fn, []byte(sb.String()), 0o644); err != nil {
			return nil, err
		}
		files = append(files, fn)
		if end >= len(c.Cases) {
			break
		}
	}
	return files, nil
}

// ---------- stats ----------

type Stats struct {
	Property    string         `json:"property"`
	Seed        int64          `json:"seed"`
	Evaluations int            `json:"evaluations"`
	Nontrivial  map[string]int `json:"-"`
	Hist        map[string]int `json:"histogram"`
	Samples     []any          `json:"samples"`
	Rule        string         `json:"rule"`
	// CaseInfo[i] describes case i (for replay files): free-form JSON.
	CaseInfo []any             `json:"case_info"`
	Notes    []string          `json:"notes,omitempty"`
	Extra    map[string]any    `json:"extra,omitempty"`
	distinct map[string]bool
}

func NewStats(prop string, seed int64, rule string) *Stats {
	return &Stats{Property: prop, Seed: seed, Rule: rule, Hist: map[string]int{}, distinct: map[string]bool{}, Extra: map[string]any{}}
}
func (s *Stats) Count(k string) { s.Hist[k]++ }

// Nontriv records a non-trivial case under a distinctness key.
func (s *Stats) Nontriv(key string) { s.distinct[key] = true }
func (s *Stats) Sample(v any) {
	if len(s.Samples) < 5 {
		s.Samples = append(s.Samples, v)
	}
}
func (s *Stats) Info(v any) { s.CaseInfo = append(s.CaseInfo, v) }

func (s *Stats) Write(dir string) error {
	keys := make([]string, 0, len(s.Hist))
	for k := range s.Hist {
		keys = append(keys, k)
	}
	sort.Strings(keys)
	out := map[string]any{
		"property": s.Property, "seed": s.Seed, "evaluations": s.Evaluations,
		"distinct_nontrivial": len(s.distinct), "histogram": s.Hist, "samples": s.Samples,
		"rule": s.Rule, "case_info": s.CaseInfo, "notes": s.Notes, "extra": s.Extra,
	}
	b, err := json.MarshalIndent(out, "", " ")
	if err != nil {
		return err
	}
	return os.WriteFile(filepath.Join(dir, "stats.json"), b, 0o644)
}
