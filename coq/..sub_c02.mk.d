Amm/CustodyProofs.vo Amm/CustodyProofs.glob Amm/CustodyProofs.v.beautified Amm/CustodyProofs.required_vo: Amm/CustodyProofs.v Base/Outcome.vo Base/Dec.vo Base/DecLemmas.vo Amm/Math.vo Amm/Pool.vo Amm/LiqDefs.vo Amm/LiqLists.vo Amm/LiqInv.vo Amm/LiqSwap.vo Amm/Custody.vo
Amm/CustodyProofs.vio: Amm/CustodyProofs.v Base/Outcome.vio Base/Dec.vio Base/DecLemmas.vio Amm/Math.vio Amm/Pool.vio Amm/LiqDefs.vio Amm/LiqLists.vio Amm/LiqInv.vio Amm/LiqSwap.vio Amm/Custody.vio
Amm/CustodyProofs.vos Amm/CustodyProofs.vok Amm/CustodyProofs.required_vos: Amm/CustodyProofs.v Base/Outcome.vos Base/Dec.vos Base/DecLemmas.vos Amm/Math.vos Amm/Pool.vos Amm/LiqDefs.vos Amm/LiqLists.vos Amm/LiqInv.vos Amm/LiqSwap.vos Amm/Custody.vos
Amm/C02Check.vo Amm/C02Check.glob Amm/C02Check.v.beautified Amm/C02Check.required_vo: Amm/C02Check.v Amm/AmmCheck.vo Amm/Custody.vo
Amm/C02Check.vio: Amm/C02Check.v Amm/AmmCheck.vio Amm/Custody.vio
Amm/C02Check.vos Amm/C02Check.vok Amm/C02Check.required_vos: Amm/C02Check.v Amm/AmmCheck.vos Amm/Custody.vos
Props/C02.vo Props/C02.glob Props/C02.v.beautified Props/C02.required_vo: Props/C02.v Base/Outcome.vo Base/Dec.vo Amm/Math.vo Amm/Pool.vo Amm/LiqDefs.vo Amm/LiqInv.vo Amm/LiqSwap.vo Amm/Custody.vo Amm/CustodyProofs.vo
Props/C02.vio: Props/C02.v Base/Outcome.vio Base/Dec.vio Amm/Math.vio Amm/Pool.vio Amm/LiqDefs.vio Amm/LiqInv.vio Amm/LiqSwap.vio Amm/Custody.vio Amm/CustodyProofs.vio
Props/C02.vos Props/C02.vok Props/C02.required_vos: Props/C02.v Base/Outcome.vos Base/Dec.vos Amm/Math.vos Amm/Pool.vos Amm/LiqDefs.vos Amm/LiqInv.vos Amm/LiqSwap.vos Amm/Custody.vos Amm/CustodyProofs.vos
