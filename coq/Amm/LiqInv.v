(* Preservation of the liquidity bookkeeping invariant by the position operations (C04). *)
From Coq Require Import ZArith Bool List Lia Sorted ZifyBool.
Import ListNotations.
From Sunrise Require Import Base.Outcome Base.Dec Base.DecLemmas Amm.Math Amm.Pool Amm.LiqDefs Amm.LiqLists.
Local Open Scope Z_scope.

Ltac rb H x E :=
  match type of H with
  | rbind ?c _ = Ok _ => destruct c as [x| |] eqn:E; cbn [rbind] in H; [|discriminate H|discriminate H]
  end.
Lemma of_opt_ok {A} (c : option A) x : of_opt c = Ok x -> c = Some x.
Proof. destruct c; cbn; intros H; [injection H as <-; reflexivity|discriminate]. Qed.

(* ---- upsert_tick ---- *)
Lemma upsert_tick_spec s i delta upper s' e :
  upsert_tick s i delta upper = Some (s', e) ->
  a_positions s' = a_positions s /\ a_pool s' = a_pool s /\ a_acc_shares s' = a_acc_shares s /\
  a_acc_value s' = a_acc_value s /\ a_acc_pos s' = a_acc_pos s /\ a_next_id s' = a_next_id s /\
  (forall t, stored_gross (a_ticks s') t = stored_gross (a_ticks s) t + (if t =? i then delta else 0)) /\
  (forall t, stored_net (a_ticks s') t = stored_net (a_ticks s) t + (if t =? i then (if upper then - delta else delta) else 0)) /\
  (forall t, (exists x, find_tick (a_ticks s') t = Some x) <-> (t = i \/ exists x, find_tick (a_ticks s) t = Some x)) /\
  (StronglySorted tick_lt (a_ticks s) -> StronglySorted tick_lt (a_ticks s')) /\
  e = ((stored_gross (a_ticks s') i =? 0) && (stored_net (a_ticks s') i =? 0)).
Proof.
  unfold upsert_tick. intros H.
  destruct (dadd (t_gross (get_tick s i)) delta) as [g|] eqn:Eg; cbn [obind] in H; [|discriminate].
  destruct (if upper then dsub (t_net (get_tick s i)) delta else dadd (t_net (get_tick s i)) delta) as [n|] eqn:En;
    cbn [obind] in H; [|discriminate].
  injection H as <- <-. cbn [a_positions a_pool a_acc_shares a_acc_value a_acc_pos a_next_id a_ticks set_ticks].
  apply dadd_some in Eg.
  assert (Hn : n = t_net (get_tick s i) + (if upper then - delta else delta)).
  { destruct upper; [apply dsub_some in En|apply dadd_some in En]; lia. }
  assert (Hg0 : t_gross (get_tick s i) = stored_gross (a_ticks s) i).
  { unfold get_tick, stored_gross. destruct (find_tick (a_ticks s) i); reflexivity. }
  assert (Hn0 : t_net (get_tick s i) = stored_net (a_ticks s) i).
  { unfold get_tick, stored_net. destruct (find_tick (a_ticks s) i); reflexivity. }
  repeat split; try reflexivity.
  - intros t. rewrite stored_gross_put. cbn [t_index t_gross].
    destruct (Z.eqb_spec t i) as [->|N]; lia.
  - intros t. rewrite stored_net_put. cbn [t_index t_net].
    destruct (Z.eqb_spec t i) as [->|N]; lia.
  - intros [x Hx]. rewrite find_put_tick in Hx. cbn [t_index] in Hx.
    destruct (Z.eqb_spec t i); [left; assumption|right; exists x; assumption].
  - intros [->|[x Hx]]; rewrite find_put_tick; cbn [t_index].
    + rewrite Z.eqb_refl. eexists; reflexivity.
    + destruct (t =? i); eexists; [reflexivity|exact Hx].
  - apply sorted_put_tick.
  - rewrite stored_gross_put, stored_net_put. cbn [t_index t_gross t_net]. rewrite Z.eqb_refl. reflexivity.
Qed.

Ltac step_res H :=
  match type of H with
  | rbind ?c _ = Ok _ =>
      let x := fresh "x" in let E := fresh "E" in
      destruct c as [x| |] eqn:E; cbn [rbind] in H; [|discriminate H|discriminate H]
  | (if ?c then _ else _) = Ok _ => let E := fresh "Eb" in destruct c eqn:E; try discriminate H
  | (match ?c with Some _ => _ | None => _ end) = Ok _ =>
      let x := fresh "x" in let E := fresh "Eo" in destruct c as [x|] eqn:E; try discriminate H
  | (let (_, _) := ?c in _) = Ok _ => destruct c
  end.
Ltac norm_opt :=
  repeat match goal with
  | H : of_opt _ = Ok _ |- _ => apply of_opt_ok in H
  | H : dadd _ _ = Some _ |- _ => apply dadd_some in H
  | H : dsub _ _ = Some _ |- _ => apply dsub_some in H
  end.

(* ---- set_accum_position only touches the accumulator ---- *)
Lemma set_accum_position_spec s lo up pid delta s' :
  set_accum_position s lo up pid delta = Ok s' ->
  a_positions s' = a_positions s /\ a_pool s' = a_pool s /\ a_ticks s' = a_ticks s /\
  a_next_id s' = a_next_id s /\ a_bal_pool s' = a_bal_pool s /\ a_bal_fee s' = a_bal_fee s /\
  a_bal_user s' = a_bal_user s /\ a_acc_value s' = a_acc_value s /\
  a_acc_shares s' = a_acc_shares s + delta.
Proof.
  unfold set_accum_position. intros H. cbn [ap_shares] in H.
  repeat step_res H; injection H as <-; cbn;
    repeat match goal with
    | H : of_opt (dsub (a_acc_shares s) _) = Ok _ |- _ => apply of_opt_ok in H; apply dsub_some in H
    | H : of_opt (dadd (a_acc_shares s) _) = Ok _ |- _ => apply of_opt_ok in H; apply dadd_some in H
    end; repeat split; try reflexivity; lia.
Qed.

(* ---- update_position ---- *)
Definition new_positions (ps : list position) (pos : position) (pid liq : Z) : list position :=
  if liq =? 0 then del_pos ps pid
  else put_pos ps {| pos_id := pid; pos_owner := pos_owner pos; pos_lower := pos_lower pos;
                     pos_upper := pos_upper pos; pos_liq := liq |}.

Lemma update_position_spec s lo up delta pid s' ab aq le ue :
  lo <> up ->
  update_position s lo up delta pid = Ok (s', ab, aq, le, ue) ->
  exists pos,
    find_pos (a_positions s) pid = Some pos /\ 0 <= pos_liq pos + delta /\ delta <> 0 /\
    a_positions s' = new_positions (a_positions s) pos pid (pos_liq pos + delta) /\
    (forall t, stored_gross (a_ticks s') t = stored_gross (a_ticks s) t + (if t =? lo then delta else 0) + (if t =? up then delta else 0)) /\
    (forall t, stored_net (a_ticks s') t = stored_net (a_ticks s) t + (if t =? lo then delta else 0) - (if t =? up then delta else 0)) /\
    (forall t, (exists x, find_tick (a_ticks s') t = Some x) <-> (t = lo \/ t = up \/ exists x, find_tick (a_ticks s) t = Some x)) /\
    (StronglySorted tick_lt (a_ticks s) -> StronglySorted tick_lt (a_ticks s')) /\
    le = ((stored_gross (a_ticks s') lo =? 0) && (stored_net (a_ticks s') lo =? 0)) /\
    ue = ((stored_gross (a_ticks s') up =? 0) && (stored_net (a_ticks s') up =? 0)) /\
    a_next_id s' = a_next_id s /\
    a_acc_shares s' = a_acc_shares s + delta /\
    a_pool s' = (match a_positions s' with
                 | [] => reset_pool (a_pool s)
                 | _ => if in_range (a_pool s) lo up
                        then {| p_fee := p_fee (a_pool s); p_tp := p_tp (a_pool s); p_tick := p_tick (a_pool s);
                                p_liq := p_liq (a_pool s) + delta; p_sqrt := p_sqrt (a_pool s) |}
                        else a_pool s
                 end).
Proof.
  intros Hne H. unfold update_position in H.
  rb H r1 E1. destruct r1 as [s1 le']. apply of_opt_ok in E1.
  rb H r2 E2. destruct r2 as [s2 ue']. apply of_opt_ok in E2.
  destruct (upsert_tick_spec _ _ _ _ _ _ E1) as (P1 & Q1 & A1 & V1 & AP1 & N1 & G1 & Nt1 & F1 & S1 & L1).
  destruct (upsert_tick_spec _ _ _ _ _ _ E2) as (P2 & Q2 & A2 & V2 & AP2 & N2 & G2 & Nt2 & F2 & S2 & L2).
  rewrite P2, P1 in H.
  destruct (find_pos (a_positions s) pid) as [pos|] eqn:Ef; [|discriminate].
  rb H liq E3. apply of_opt_ok in E3. apply dadd_some in E3. subst liq.
  destruct (pos_liq pos + delta <? 0) eqn:Eneg; [discriminate|].
  rb H amts E4. destruct amts as [ab0 aq0].
  assert (Hd : delta <> 0).
  { unfold calc_actual_amounts in E4. destruct (Z.eqb_spec delta 0); [discriminate|assumption]. }
  (* the pool/positions update *)
  set (ps' := new_positions (a_positions s) pos pid (pos_liq pos + delta)).
  assert (Hps : a_positions (if pos_liq pos + delta =? 0
                 then set_positions s2 (del_pos (a_positions s) pid)
                 else set_positions s2 (put_pos (a_positions s)
                        {| pos_id := pid; pos_owner := pos_owner pos; pos_lower := pos_lower pos;
                           pos_upper := pos_upper pos; pos_liq := pos_liq pos + delta |})) = ps').
  { unfold ps', new_positions. destruct (pos_liq pos + delta =? 0); reflexivity. }
  remember (if pos_liq pos + delta =? 0
            then set_positions s2 (del_pos (a_positions s) pid)
            else set_positions s2 (put_pos (a_positions s)
                   {| pos_id := pid; pos_owner := pos_owner pos; pos_lower := pos_lower pos;
                      pos_upper := pos_upper pos; pos_liq := pos_liq pos + delta |})) as s3 eqn:Es3.
  assert (Hs3 : a_ticks s3 = a_ticks s2 /\ a_pool s3 = a_pool s2 /\ a_next_id s3 = a_next_id s2 /\
                a_acc_shares s3 = a_acc_shares s2).
  { subst s3. destruct (pos_liq pos + delta =? 0); cbn; repeat split; reflexivity. }
  destruct Hs3 as (T3 & Q3 & N3 & A3).
  rb H s4 E5.
  assert (Hs4 : a_positions s4 = ps' /\ a_ticks s4 = a_ticks s2 /\ a_next_id s4 = a_next_id s2 /\
                a_acc_shares s4 = a_acc_shares s2 /\
                a_pool s4 = match ps' with
                            | [] => reset_pool (a_pool s2)
                            | _ => if in_range (a_pool s2) lo up
                                   then {| p_fee := p_fee (a_pool s2); p_tp := p_tp (a_pool s2); p_tick := p_tick (a_pool s2);
                                           p_liq := p_liq (a_pool s2) + delta; p_sqrt := p_sqrt (a_pool s2) |}
                                   else a_pool s2 end).
  { rewrite Hps in E5. destruct ps' as [|q qs] eqn:Eps.
    - injection E5 as <-. cbn. rewrite Hps. repeat split; assumption.
    - destruct (in_range (a_pool s2) lo up).
      + rb E5 l E6. injection E5 as <-. apply of_opt_ok in E6. apply dadd_some in E6. subst l.
        cbn. rewrite Hps. repeat split; try assumption.
      + injection E5 as <-. rewrite Hps. repeat split; try assumption. }
  destruct Hs4 as (P4 & T4 & N4 & A4 & Q4).
  rb H s5 E6. injection H as <- <- <- <- <-.
  destruct (set_accum_position_spec _ _ _ _ _ _ E6) as (P5 & Q5 & T5 & N5 & _ & _ & _ & _ & A5).
  exists pos. split; [reflexivity|]. split; [lia|]. split; [assumption|].
  rewrite P5, T5, N5, A5, Q5, P4, T4, N4, A4, Q4, Q2, Q1, N2, N1, A2, A1.
  split; [reflexivity|].
  split. { intros t. rewrite G2, G1. lia. }
  split. { intros t. rewrite Nt2, Nt1. cbn. destruct (t =? lo); destruct (t =? up); lia. }
  split. { intros t. rewrite F2, F1. tauto. }
  split. { intros Hs. apply S2, S1, Hs. }
  split. { rewrite L1. rewrite !G2, !Nt2. destruct (Z.eqb_spec lo up); [contradiction|]. f_equal; f_equal; lia. }
  split. { exact L2. }
  split; [reflexivity|]. split; [reflexivity|]. reflexivity.
Qed.

(* ---- operations that do not touch the bookkeeping ---- *)
Definition same_book (s s' : amm) : Prop :=
  a_positions s' = a_positions s /\ a_pool s' = a_pool s /\ a_ticks s' = a_ticks s /\
  a_acc_shares s' = a_acc_shares s /\ a_next_id s' = a_next_id s.

Lemma same_book_refl s : same_book s s.
Proof. repeat split. Qed.
Lemma same_book_trans a b c : same_book a b -> same_book b c -> same_book a c.
Proof. unfold same_book. intros (A1&A2&A3&A4&A5) (B1&B2&B3&B4&B5). repeat split; congruence. Qed.
Lemma same_book_core s s' : same_book s s' -> LiqCore s -> LiqCore s'.
Proof.
  intros (P&Q&T&A&N) [H1 H2 H3 H4 H5 H6 H7 H8 H9 H10].
  constructor; rewrite ?P, ?Q, ?T, ?A, ?N; assumption.
Qed.
Lemma same_book_inv s s' : same_book s s' -> LiqInv s -> LiqInv s'.
Proof.
  intros Hb [Hc Hp]. split; [eapply same_book_core; eassumption|].
  destruct Hb as (P&Q&T&A&N). unfold Present. rewrite P, T. exact Hp.
Qed.
Lemma same_book_strict s s' : same_book s s' -> StrictPos s -> StrictPos s'.
Proof. intros (P&_). unfold StrictPos. rewrite P. auto. Qed.

Lemma send_same_book s from to amounts s' : send s from to amounts = Ok s' -> same_book s s'.
Proof.
  unfold send. intros H. repeat step_res H. injection H as <-.
  destruct from; destruct to; cbn; repeat split.
Qed.
Lemma send_one_raw_same_book s from to d a s' : send_one_raw s from to d a = Ok s' -> same_book s s'.
Proof. unfold send_one_raw. intros H. step_res H. eapply send_same_book; eassumption. Qed.

Lemma prepare_claim_same_book s pid s' c : prepare_claim s pid = Ok (s', c) -> same_book s s'.
Proof.
  unfold prepare_claim. intros H.
  repeat step_res H;
  repeat match goal with
  | H : (let '(a, b) := ?x in _) = Ok _ |- _ => destruct x
  end; repeat step_res H; injection H as <- _;
  repeat match goal with |- context [if ?c then _ else _] => destruct c end; cbn; repeat split.
Qed.

Lemma collect_fees_same_book s sender pid s' c : collect_fees s sender pid = Ok (s', c) -> same_book s s'.
Proof.
  unfold collect_fees. intros H. repeat step_res H.
  - injection H as <- _. eapply prepare_claim_same_book; eassumption.
  - injection H as <- _.
    eapply same_book_trans; [eapply prepare_claim_same_book; eassumption|eapply send_same_book; eassumption].
Qed.

(* ---- update_position preserves the bookkeeping ---- *)
Definition present_ok (s : amm) (lo up : Z) (le ue : bool) : Prop :=
  forall t x, find_tick (a_ticks s) t = Some x ->
    gross_at (a_positions s) t <> 0 \/ (t = lo /\ le = true) \/ (t = up /\ ue = true).

Lemma sumf_new_positions f ps pos pid l :
  StronglySorted pos_lt ps -> find_pos ps pid = Some pos ->
  (l = 0 -> f {| pos_id := pid; pos_owner := pos_owner pos; pos_lower := pos_lower pos;
                 pos_upper := pos_upper pos; pos_liq := l |} = 0) ->
  sumf f (new_positions ps pos pid l) =
  sumf f ps - f pos + f {| pos_id := pid; pos_owner := pos_owner pos; pos_lower := pos_lower pos;
                           pos_upper := pos_upper pos; pos_liq := l |}.
Proof.
  intros Hs Hf Hz. unfold new_positions. destruct (Z.eqb_spec l 0) as [E|E].
  - rewrite (sumf_del f ps pid pos Hs Hf). rewrite (Hz E). lia.
  - apply sumf_put_replace; [assumption|]. cbn [pos_id]. exact Hf.
Qed.

Lemma gross_zero_net_zero ps t :
  Forall (fun p => 0 <= pos_liq p /\ pos_lower p < pos_upper p) ps -> gross_at ps t = 0 -> net_at ps t = 0.
Proof.
  intros H. induction H as [|p r [Hp Hlt] Hr0 IH]; cbn [gross_at net_at]; [reflexivity|].
  intros Hg.
  assert (Hr : 0 <= gross_at r t).
  { clear -Hr0. induction Hr0 as [|q r' [Hq _] _ IH']; cbn [gross_at]; [lia|]. destruct (bnd q t); lia. }
  unfold bnd in Hg.
  destruct (Z.eqb_spec (pos_lower p) t); destruct (Z.eqb_spec (pos_upper p) t); cbn [orb] in Hg; try lia.
Qed.

Lemma update_position_inv s lo up delta pid s' ab aq le ue pos :
  LiqCore s -> find_pos (a_positions s) pid = Some pos -> pos_lower pos = lo -> pos_upper pos = up ->
  (forall t x, find_tick (a_ticks s) t = Some x -> gross_at (a_positions s) t <> 0 \/ t = lo \/ t = up) ->
  update_position s lo up delta pid = Ok (s', ab, aq, le, ue) ->
  LiqCore s' /\ present_ok s' lo up le ue /\
  a_positions s' = new_positions (a_positions s) pos pid (pos_liq pos + delta) /\
  0 <= pos_liq pos + delta /\ delta <> 0 /\
  (le = true -> gross_at (a_positions s') lo = 0) /\ (ue = true -> gross_at (a_positions s') up = 0).
Proof.
  intros [H1 H2 H3 H4 H5 H6 H7 H8 H9 H10] Hf Hlo Hup Hpres Hu.
  assert (Hpok : 0 <= pos_liq pos /\ pos_lower pos < pos_upper pos).
  { destruct (find_pos_in _ _ _ Hf) as [Hin _]. rewrite Forall_forall in H1. apply H1. exact Hin. }
  assert (Hne : lo <> up) by lia.
  destruct (update_position_spec _ _ _ _ _ _ _ _ _ _ Hne Hu)
    as (pos' & Hf' & Hl & Hd & Ps & G & N & F & S & Le & Ue & Nx & Sh & Pl).
  rewrite Hf in Hf'. injection Hf' as <-.
  set (l := pos_liq pos + delta) in *.
  set (np := {| pos_id := pid; pos_owner := pos_owner pos; pos_lower := pos_lower pos;
                pos_upper := pos_upper pos; pos_liq := l |}).
  assert (Hpid : pos_id pos = pid) by (apply (find_pos_in _ _ _ Hf)).
  (* sums over the new position list *)
  assert (Gs : forall t, gross_at (a_positions s') t = gross_at (a_positions s) t + (if bnd pos t then delta else 0)).
  { intros t. rewrite Ps, !gross_at_sumf, (sumf_new_positions _ _ _ _ _ H2 Hf).
    - unfold gross_c, bnd; cbn [pos_lower pos_upper pos_liq]. unfold l.
      destruct ((pos_lower pos =? t) || (pos_upper pos =? t)); lia.
    - intros E. unfold gross_c; cbn [pos_liq]. destruct (bnd _ t); lia. }
  assert (Ns : forall t, net_at (a_positions s') t = net_at (a_positions s) t
             + (if pos_lower pos =? t then delta else 0) - (if pos_upper pos =? t then delta else 0)).
  { intros t. rewrite Ps, !net_at_sumf, (sumf_new_positions _ _ _ _ _ H2 Hf).
    - unfold net_c; cbn [pos_lower pos_upper pos_liq]. unfold l.
      destruct (pos_lower pos =? t); destruct (pos_upper pos =? t); lia.
    - intros E. unfold net_c; cbn [pos_liq pos_lower pos_upper]. destruct (_ =? t); destruct (_ =? t); lia. }
  assert (As : forall tk, active (a_positions s') tk = active (a_positions s) tk + (if covers pos tk then delta else 0)).
  { intros tk. rewrite Ps, !active_sumf, (sumf_new_positions _ _ _ _ _ H2 Hf).
    - unfold active_c, covers; cbn [pos_lower pos_upper pos_liq]. unfold l.
      destruct ((pos_lower pos <=? tk) && (tk <? pos_upper pos)); lia.
    - intros E. unfold active_c; cbn [pos_liq]. destruct (covers _ tk); lia. }
  assert (Ts : total (a_positions s') = total (a_positions s) + delta).
  { rewrite Ps, !total_sumf, (sumf_new_positions _ _ _ _ _ H2 Hf); cbn [pos_liq]; unfold l; lia. }
  assert (Hbnd : forall t, bnd pos t = ((t =? lo) || (t =? up))).
  { intros t. unfold bnd. rewrite Hlo, Hup, (Z.eqb_sym lo t), (Z.eqb_sym up t). reflexivity. }
  assert (Core : LiqCore s').
  { constructor.
    - rewrite Ps. unfold new_positions. destruct (l =? 0).
      + apply forall_del_pos; assumption.
      + apply forall_put_pos; [assumption|]. cbn. split; [lia|tauto].
    - rewrite Ps. unfold new_positions. destruct (l =? 0); [apply sorted_del_pos|apply sorted_put_pos]; assumption.
    - rewrite Ps, Nx. unfold new_positions. destruct (l =? 0).
      + apply forall_del_pos; assumption.
      + apply forall_put_pos; [assumption|]. cbn [pos_id]. rewrite <- Hpid.
        rewrite Forall_forall in H3. apply H3. apply (find_pos_in _ _ _ Hf).
    - apply S; assumption.
    - intros t. rewrite G, Gs, H5, Hbnd. destruct (t =? lo) eqn:E1; destruct (t =? up) eqn:E2; cbn [orb]; lia.
    - intros t. rewrite N, Ns, H6, Hlo, Hup, (Z.eqb_sym lo t), (Z.eqb_sym up t). lia.
    - (* active *)
      rewrite Pl. destruct (a_positions s') as [|q qs] eqn:Eps.
      + cbn. reflexivity.
      + cbv iota.
        assert (Hir : in_range (a_pool s) lo up = covers pos (p_tick (a_pool s))).
        { unfold in_range, covers. rewrite Hlo, Hup. reflexivity. }
        rewrite Hir. destruct (covers pos (p_tick (a_pool s))) eqn:Ec; cbn [p_liq p_tick].
        * rewrite As, Ec, H7. reflexivity.
        * rewrite As, Ec, H7. lia.
    - rewrite Sh, Ts, H8. reflexivity.
    - intros Hemp. rewrite Pl, Hemp. cbn. split; reflexivity.
    - intros Hnemp. rewrite Pl. destruct (a_positions s') as [|q qs] eqn:Eps; [contradiction|].
      assert (Hb : has_position (a_pool s) = true).
      { apply H10. intros Hemp. rewrite Hemp in Hf. discriminate. }
      destruct (in_range (a_pool s) lo up); [|exact Hb]. unfold has_position in *. cbn [p_sqrt p_tick]. exact Hb. }
  split; [exact Core|].
  assert (Hle : le = true -> gross_at (a_positions s') lo = 0).
  { intros E. rewrite Le in E. apply andb_prop in E. destruct E as [E _].
    destruct Core as [_ _ _ _ C5 _ _ _ _ _]. rewrite <- C5. lia. }
  assert (Hue : ue = true -> gross_at (a_positions s') up = 0).
  { intros E. rewrite Ue in E. apply andb_prop in E. destruct E as [E _].
    destruct Core as [_ _ _ _ C5 _ _ _ _ _]. rewrite <- C5. lia. }
  split.
  { (* present_ok *)
    intros t x Hx. destruct (Z.eq_dec (gross_at (a_positions s') t) 0) as [Hz|Hnz]; [|left; exact Hnz].
    right.
    assert (Hnet : net_at (a_positions s') t = 0).
    { destruct Core as [C1 _ _ _ _ _ _ _ _ _]. eapply gross_zero_net_zero; eassumption. }
    destruct Core as [_ _ _ _ C5 C6 _ _ _ _].
    assert (Hin : t = lo \/ t = up).
    { destruct (proj1 (F t) (ex_intro _ x Hx)) as [E|[E|[y Hy]]]; [auto|auto|].
      destruct (Hpres _ _ Hy) as [Hg|Hg]; [|exact Hg].
      rewrite Gs, Hbnd in Hz. destruct (t =? lo) eqn:E1; destruct (t =? up) eqn:E2; cbn [orb] in Hz; lia. }
    destruct Hin as [-> | ->]; [left|right]; split; try reflexivity.
    - rewrite Le, C5, C6, Hz, Hnet. reflexivity.
    - rewrite Ue, C5, C6, Hz, Hnet. reflexivity. }
  repeat split; try assumption.
Qed.

(* ---- removing emptied ticks restores the "present" clause ---- *)
Lemma del_tick_core s i : LiqCore s -> gross_at (a_positions s) i = 0 ->
  LiqCore (set_ticks s (del_tick (a_ticks s) i)).
Proof.
  intros [H1 H2 H3 H4 H5 H6 H7 H8 H9 H10] Hz.
  constructor; cbn [a_positions a_ticks a_pool a_acc_shares a_next_id set_ticks]; try assumption.
  - apply sorted_del_tick; assumption.
  - intros t. unfold stored_gross. rewrite find_del_tick by assumption.
    destruct (Z.eqb_spec t i) as [E|E]; [rewrite E; lia|]. apply H5.
  - intros t. unfold stored_net. rewrite find_del_tick by assumption.
    destruct (Z.eqb_spec t i) as [E|E]; [|apply H6].
    rewrite E. symmetry. eapply gross_zero_net_zero; eassumption.
Qed.

Lemma find_put_pos l p i : find_pos (put_pos l p) i = if i =? pos_id p then Some p else find_pos l i.
Proof.
  induction l as [|x l IH]; cbn [put_pos find_pos].
  - rewrite (Z.eqb_sym (pos_id p) i). reflexivity.
  - destruct (Z.eqb_spec (pos_id x) (pos_id p)) as [E|E].
    + cbn [find_pos]. rewrite (Z.eqb_sym (pos_id p) i).
      destruct (Z.eqb_spec i (pos_id p)); [reflexivity|].
      destruct (Z.eqb_spec (pos_id x) i); [lia|reflexivity].
    + destruct (Z.ltb_spec (pos_id p) (pos_id x)).
      * cbn [find_pos]. rewrite (Z.eqb_sym (pos_id p) i). destruct (Z.eqb_spec i (pos_id p)); reflexivity.
      * cbn [find_pos]. destruct (Z.eqb_spec (pos_id x) i).
        -- destruct (Z.eqb_spec i (pos_id p)); [lia|reflexivity].
        -- apply IH.
Qed.

Lemma gross_at_ge ps t p :
  Forall (fun q => 0 <= pos_liq q /\ pos_lower q < pos_upper q) ps -> In p ps -> bnd p t = true ->
  pos_liq p <= gross_at ps t.
Proof.
  intros H. induction H as [|q r [Hq _] Hr IH]; cbn [gross_at]; [intros []|].
  assert (Hnn : 0 <= gross_at r t).
  { clear -Hr. induction Hr as [|z r' [Hz _] _ IH']; cbn [gross_at]; [lia|]. destruct (bnd z t); lia. }
  intros [->|Hin] Hb.
  - rewrite Hb. lia.
  - specialize (IH Hin Hb). destruct (bnd q t); lia.
Qed.

Lemma in_find_sorted l y : StronglySorted pos_lt l -> In y l -> find_pos l (pos_id y) = Some y.
Proof.
  intros H. induction H as [|x l Hs IH Hall]; [intros []|]. cbn [find_pos]. intros [->|Hin].
  - rewrite Z.eqb_refl. reflexivity.
  - rewrite Forall_forall in Hall. specialize (Hall _ Hin). unfold pos_lt in Hall.
    destruct (Z.eqb_spec (pos_id x) (pos_id y)); [lia|]. apply IH. exact Hin.
Qed.

Lemma strict_new_positions ps pos pid l :
  Forall (fun p => 0 < pos_liq p) ps -> 0 <= l ->
  Forall (fun p => 0 < pos_liq p) (new_positions ps pos pid l).
Proof.
  intros H Hl. unfold new_positions. destruct (Z.eqb_spec l 0).
  - apply forall_del_pos; assumption.
  - apply forall_put_pos; [assumption|]. cbn. lia.
Qed.

(* ---- keeper DecreaseLiquidity ---- *)
Theorem decrease_liquidity_inv s sender pid l s' b q :
  Inv s -> decrease_liquidity s sender pid l = Ok (s', b, q) -> Inv s'.
Proof.
  intros [[Hc Hp] Hst] H. unfold decrease_liquidity in H.
  destruct (find_pos (a_positions s) pid) as [pos|] eqn:Ef; [|discriminate].
  repeat step_res H.
  match goal with E : collect_fees _ _ _ = Ok (?s1, _) |- _ => rename E into Ecf; rename s1 into sa end.
  match goal with E : update_position _ _ _ _ _ = Ok (?s2, _, _, ?le, ?ue) |- _ =>
    rename E into Eup; rename s2 into sb; rename le into le0; rename ue into ue0 end.
  match goal with E : send _ _ _ _ = Ok ?s3 |- _ => rename E into Esend; rename s3 into sc end.
  injection H as <- _ _.
  pose proof (collect_fees_same_book _ _ _ _ _ Ecf) as Hb1.
  assert (Hca : LiqCore sa) by (eapply same_book_core; eassumption).
  assert (Hpa : Present sa).
  { destruct Hb1 as (P&_&T&_). unfold Present. rewrite P, T. exact Hp. }
  assert (Hfa : find_pos (a_positions sa) pid = Some pos) by (destruct Hb1 as (P&_); rewrite P; exact Ef).
  assert (Hpres : forall t tx, find_tick (a_ticks sa) t = Some tx ->
            gross_at (a_positions sa) t <> 0 \/ t = pos_lower pos \/ t = pos_upper pos).
  { intros t tx Hx. left. eapply Hpa; eassumption. }
  destruct (update_position_inv sa _ _ _ _ _ _ _ _ _ pos Hca Hfa eq_refl eq_refl Hpres Eup)
    as (Hcb & Hpb & Psb & Hl0 & Hd & Hle & Hue).
  pose proof (send_same_book _ _ _ _ _ Esend) as Hb3.
  assert (Hcc : LiqCore sc) by (eapply same_book_core; eassumption).
  assert (Hpc : present_ok sc (pos_lower pos) (pos_upper pos) le0 ue0).
  { destruct Hb3 as (P&_&T&_). unfold present_ok. rewrite P, T. exact Hpb. }
  assert (Hposc : a_positions sc = a_positions sb) by (destruct Hb3 as (P&_); exact P).
  assert (Hstrict : Forall (fun p => 0 < pos_liq p) (a_positions sc)).
  { rewrite Hposc, Psb. apply strict_new_positions; [|exact Hl0].
    destruct Hb1 as (P&_). rewrite P. exact Hst. }
  (* the two conditional deletions *)
  set (sd := if le0 then set_ticks sc (del_tick (a_ticks sc) (pos_lower pos)) else sc).
  assert (Hcd : LiqCore sd /\ a_positions sd = a_positions sc /\
                (forall t tx, find_tick (a_ticks sd) t = Some tx ->
                   gross_at (a_positions sd) t <> 0 \/ (t = pos_upper pos /\ ue0 = true))).
  { unfold sd. destruct le0 eqn:El.
    - split; [apply del_tick_core; [assumption|rewrite Hposc; apply Hle; reflexivity]|].
      split; [reflexivity|]. cbn [a_ticks a_positions set_ticks]. intros t tx Hx.
      rewrite find_del_tick in Hx by (destruct Hcc; assumption).
      destruct (Z.eqb_spec t (pos_lower pos)) as [E|E]; [discriminate|].
      destruct (Hpc _ _ Hx) as [Hg|[[E2 _]|Hu]]; [left; exact Hg|contradiction|right; exact Hu].
    - split; [assumption|]. split; [reflexivity|]. intros t tx Hx.
      destruct (Hpc _ _ Hx) as [Hg|[[_ E2]|Hu]]; [left; exact Hg|discriminate|right; exact Hu]. }
  destruct Hcd as (Hcd & Pd & Hpd).
  fold sd.
  assert (Hfin : LiqCore (if ue0 then set_ticks sd (del_tick (a_ticks sd) (pos_upper pos)) else sd) /\
                 Present (if ue0 then set_ticks sd (del_tick (a_ticks sd) (pos_upper pos)) else sd) /\
                 a_positions (if ue0 then set_ticks sd (del_tick (a_ticks sd) (pos_upper pos)) else sd) = a_positions sd).
  { destruct ue0 eqn:Eu.
    - split; [apply del_tick_core; [assumption|rewrite Pd, Hposc; apply Hue; reflexivity]|].
      split; [|reflexivity]. unfold Present. cbn [a_ticks a_positions set_ticks]. intros t tx Hx.
      rewrite find_del_tick in Hx by (destruct Hcd; assumption).
      destruct (Z.eqb_spec t (pos_upper pos)) as [E|E]; [discriminate|].
      destruct (Hpd _ _ Hx) as [Hg|[E2 _]]; [exact Hg|contradiction].
    - split; [assumption|]. split; [|reflexivity]. unfold Present. intros t tx Hx.
      destruct (Hpd _ _ Hx) as [Hg|[_ E2]]; [exact Hg|discriminate]. }
  destruct Hfin as (Hc' & Hp' & Ppos).
  split; [split; assumption|]. unfold StrictPos. rewrite Ppos, Pd. exact Hstrict.
Qed.

(* ---- Msg/CreatePosition ---- *)
Lemma sqrt_price_to_tick_zero tp : sqrt_price_to_tick 0 tp = Err E_PRICE_OUT_OF_BOUND.
Proof. reflexivity. Qed.

Lemma sumf_zero_liq f ps p : Forall (fun y => pos_id y < pos_id p) ps -> f p = 0 ->
  sumf f (put_pos ps p) = sumf f ps.
Proof. intros H Hz. rewrite sumf_put_fresh by assumption. lia. Qed.

(* state after the optional first-position initialisation and the insertion of the
   zero-liquidity record, as built inside create_position *)
Definition with_new_pos (s1 : amm) (sender lo up : Z) : amm :=
  set_next_id (set_positions s1 (put_pos (a_positions s1)
     {| pos_id := a_next_id s1; pos_owner := sender; pos_lower := lo; pos_upper := up; pos_liq := 0 |}))
     (a_next_id s1 + 1).

Lemma with_new_pos_core s1 sender lo up :
  lo < up ->
  Forall (fun p => 0 <= pos_liq p /\ pos_lower p < pos_upper p) (a_positions s1) ->
  StronglySorted pos_lt (a_positions s1) ->
  Forall (fun p => pos_id p < a_next_id s1) (a_positions s1) ->
  StronglySorted tick_lt (a_ticks s1) ->
  (forall t, stored_gross (a_ticks s1) t = gross_at (a_positions s1) t) ->
  (forall t, stored_net (a_ticks s1) t = net_at (a_positions s1) t) ->
  p_liq (a_pool s1) = active (a_positions s1) (p_tick (a_pool s1)) ->
  a_acc_shares s1 = total (a_positions s1) ->
  has_position (a_pool s1) = true ->
  LiqCore (with_new_pos s1 sender lo up) /\
  (forall t, gross_at (a_positions (with_new_pos s1 sender lo up)) t = gross_at (a_positions s1) t) /\
  find_pos (a_positions (with_new_pos s1 sender lo up)) (a_next_id s1) =
    Some {| pos_id := a_next_id s1; pos_owner := sender; pos_lower := lo; pos_upper := up; pos_liq := 0 |}.
Proof.
  intros Hlt H1 H2 H3 H4 H5 H6 H7 H8 Hhp.
  set (np := {| pos_id := a_next_id s1; pos_owner := sender; pos_lower := lo; pos_upper := up; pos_liq := 0 |}).
  assert (Hfresh : Forall (fun y => pos_id y < pos_id np) (a_positions s1)) by exact H3.
  unfold with_new_pos. fold np.
  assert (G : forall t, gross_at (put_pos (a_positions s1) np) t = gross_at (a_positions s1) t).
  { intros t. rewrite !gross_at_sumf. apply sumf_zero_liq; [assumption|]. unfold gross_c. cbn. destruct (bnd np t); reflexivity. }
  split; [|split].
  - constructor; cbn [a_positions a_ticks a_pool a_acc_shares a_next_id set_next_id set_positions].
    + apply forall_put_pos; [assumption|]. cbn. lia.
    + apply sorted_put_pos; assumption.
    + apply forall_put_pos; [|cbn; lia]. eapply Forall_impl; [|exact H3]. cbn. intros; lia.
    + assumption.
    + intros t. rewrite G. apply H5.
    + intros t. rewrite H6, !net_at_sumf. symmetry. apply sumf_zero_liq; [assumption|].
      unfold net_c. cbn. destruct (lo =? t); destruct (up =? t); reflexivity.
    + rewrite H7, !active_sumf. symmetry. apply sumf_zero_liq; [assumption|].
      unfold active_c. cbn. destruct (covers np _); reflexivity.
    + rewrite H8, !total_sumf. symmetry. apply sumf_zero_liq; [assumption|]. reflexivity.
    + intros Hemp. exfalso. assert (Hin : In np (put_pos (a_positions s1) np)).
      { assert (Hf : find_pos (put_pos (a_positions s1) np) (pos_id np) = Some np)
          by (rewrite find_put_pos, Z.eqb_refl; reflexivity).
        apply (find_pos_in _ _ _ Hf). }
      rewrite Hemp in Hin. exact Hin.
    + intros _. exact Hhp.
  - cbn [a_positions set_next_id set_positions]. exact G.
  - cbn [a_positions set_next_id set_positions]. rewrite find_put_pos. cbn [pos_id]. rewrite Z.eqb_refl. reflexivity.
Qed.

Theorem create_position_inv s sender lo up base quote mb mq s' r :
  Inv s -> create_position s sender lo up base quote mb mq = Ok (s', r) -> Inv s'.
Proof.
  intros [[Hc Hp] Hst] H. unfold create_position in H.
  destruct ((up <=? lo) || (lo <? TICK_MIN) || (TICK_MAX <? up)) eqn:Echk; [discriminate|].
  assert (Hlt : lo < up) by lia.
  repeat step_res H.
  (* name the pieces *)
  match goal with E : ticks_to_sqrt _ _ _ = Ok _ |- _ => clear E end.
  match goal with E : update_position ?s2 lo up ?d ?pid = Ok (?s3, ?ab, ?aq, ?le, ?ue) |- _ =>
    rename E into Eup; set (S2 := s2) in *; rename s3 into sc; rename le into le0; rename ue into ue0;
    rename d into delta; rename ab into ab0; rename aq into aq0 end.
  match goal with E : send _ _ _ _ = Ok ?s4 |- _ => rename E into Esend; rename s4 into sd end.
  assert (Hs' : a_positions s' = a_positions sd /\ a_pool s' = a_pool sd /\ a_ticks s' = a_ticks sd /\
                a_acc_shares s' = a_acc_shares sd /\ a_next_id s' = a_next_id sd).
  { injection H as <- _; repeat split. }
  clear H.
  match goal with E : (if has_position (a_pool s) then _ else _) = Ok ?s1 |- _ => rename E into Einit; rename s1 into sa end.
  (* the state after the optional initialisation *)
  assert (Ha : a_positions sa = a_positions s /\ a_ticks sa = a_ticks s /\ a_acc_shares sa = a_acc_shares s /\
               a_next_id sa = a_next_id s /\ has_position (a_pool sa) = true /\
               p_liq (a_pool sa) = active (a_positions sa) (p_tick (a_pool sa))).
  { destruct Hc as [H1 H2 H3 H4 H5 H6 H7 H8 H9 H10].
    assert (Hemp0 : has_position (a_pool s) = false -> a_positions s = []).
    { intros Ef. destruct (a_positions s) eqn:Eps; [reflexivity|]. exfalso.
      assert (Ht : has_position (a_pool s) = true) by (apply H10; discriminate). congruence. }
    destruct (has_position (a_pool s)) eqn:Ehp.
    - injection Einit as <-. repeat split; assumption.
    - repeat step_res Einit. injection Einit as <-. cbn [a_positions a_ticks a_acc_shares a_next_id a_pool set_pool p_liq p_tick].
      assert (Hemp : a_positions s = []) by (apply Hemp0; reflexivity).
      repeat split.
      + unfold has_position. cbn [p_sqrt p_tick].
        match goal with E : sqrt_price_to_tick ?sp _ = Ok _ |- _ =>
          destruct (Z.eqb_spec sp 0) as [Ez|Ez]; [rewrite Ez, sqrt_price_to_tick_zero in E; discriminate|reflexivity] end.
      + rewrite H7, Hemp. reflexivity. }
  destruct Ha as (Pa & Ta & Aa & Na & Hhpa & Hacta).
  assert (HS2 : S2 = with_new_pos sa sender lo up) by reflexivity.
  destruct Hc as [H1 H2 H3 H4 H5 H6 H7 H8 H9 H10].
  destruct (with_new_pos_core sa sender lo up Hlt) as (Hc2 & G2 & F2);
    rewrite ?Pa, ?Ta, ?Aa, ?Na; try assumption.
  { rewrite <- Pa. exact Hacta. }
  rewrite <- HS2 in Hc2, G2, F2.
  assert (Hpres : forall t tx, find_tick (a_ticks S2) t = Some tx ->
            gross_at (a_positions S2) t <> 0 \/ t = lo \/ t = up).
  { intros t tx Hx. left. rewrite G2, Pa. apply (Hp t tx). rewrite HS2 in Hx.
    cbn [a_ticks with_new_pos set_next_id set_positions] in Hx. rewrite Ta in Hx. exact Hx. }
  rewrite Na in F2.
  assert (Eup' : update_position S2 lo up delta (a_next_id s) = Ok (sc, ab0, aq0, le0, ue0)).
  { rewrite <- Na. exact Eup. }
  destruct (update_position_inv S2 lo up _ _ _ _ _ _ _ _ Hc2 F2 eq_refl eq_refl Hpres Eup')
    as (Hcc & Hpc & Psc & Hl0 & Hd & Hle & Hue).
  cbn [pos_liq] in Psc, Hl0.
  assert (Hdpos : 0 < delta) by lia.
  (* the new position is present with positive liquidity, so neither tick is empty *)
  set (np := {| pos_id := a_next_id s; pos_owner := sender; pos_lower := lo; pos_upper := up; pos_liq := 0 + delta |}).
  assert (Hnp : In np (a_positions sc)).
  { rewrite Psc. unfold new_positions. destruct (Z.eqb_spec (0 + delta) 0); [lia|].
    assert (Hf : find_pos (put_pos (a_positions S2) np) (pos_id np) = Some np)
      by (rewrite find_put_pos, Z.eqb_refl; reflexivity).
    apply (find_pos_in _ _ _ Hf). }
  assert (Hglo : gross_at (a_positions sc) lo <> 0).
  { destruct Hcc as [C1 _ _ _ _ _ _ _ _ _].
    pose proof (gross_at_ge _ lo np C1 Hnp) as Hge. unfold bnd in Hge. cbn in Hge. rewrite Z.eqb_refl in Hge.
    specialize (Hge eq_refl). lia. }
  assert (Hgup : gross_at (a_positions sc) up <> 0).
  { destruct Hcc as [C1 _ _ _ _ _ _ _ _ _].
    pose proof (gross_at_ge _ up np C1 Hnp) as Hge. unfold bnd in Hge. cbn in Hge. rewrite Z.eqb_refl, orb_true_r in Hge.
    specialize (Hge eq_refl). lia. }
  assert (Hpresc : Present sc).
  { intros t tx Hx. destruct (Hpc _ _ Hx) as [Hg|[[-> El]|[-> Eu]]]; [exact Hg| |].
    - specialize (Hle El). contradiction.
    - specialize (Hue Eu). contradiction. }
  pose proof (send_same_book _ _ _ _ _ Esend) as Hb.
  assert (Hinvd : LiqInv sd) by (eapply same_book_inv; [exact Hb|split; assumption]).
  assert (Hb' : same_book sd s') by (destruct Hs' as (A&B&C&D&E); repeat split; assumption).
  split; [eapply same_book_inv; eassumption|].
  eapply same_book_strict; [exact Hb'|]. eapply same_book_strict; [exact Hb|].
  unfold StrictPos. apply Forall_forall. intros y Hy.
  assert (Hsorted : StronglySorted pos_lt (a_positions sc)) by (destruct Hcc; assumption).
  pose proof (in_find_sorted _ _ Hsorted Hy) as Hfy.
  rewrite Psc in Hfy. unfold new_positions in Hfy. destruct (Z.eqb_spec (0 + delta) 0); [lia|].
  rewrite find_put_pos in Hfy. cbn [pos_id] in Hfy.
  destruct (Z.eqb_spec (pos_id y) (a_next_id s)) as [Ey|Ey].
  - injection Hfy as <-. cbn. lia.
  - rewrite HS2 in Hfy. cbn [a_positions with_new_pos set_next_id set_positions] in Hfy.
    rewrite find_put_pos in Hfy. cbn [pos_id] in Hfy. rewrite Na in Hfy.
    destruct (Z.eqb_spec (pos_id y) (a_next_id s)); [contradiction|].
    rewrite Pa in Hfy. unfold StrictPos in Hst. rewrite Forall_forall in Hst. apply Hst.
    apply (find_pos_in _ _ _ Hfy).
Qed.

(* ---- increase = full decrease + create ---- *)
Theorem increase_liquidity_inv s sender pid ab aq mb mq s' r :
  Inv s -> increase_liquidity s sender pid ab aq mb mq = Ok (s', r) -> Inv s'.
Proof.
  intros Hi H. unfold increase_liquidity in H.
  destruct (find_pos (a_positions s) pid) as [pos|]; [|discriminate].
  repeat step_res H.
  eapply create_position_inv; [|exact H]. eapply decrease_liquidity_inv; eassumption.
Qed.

(* ---- claims and incentive allocation do not touch the bookkeeping ---- *)
Lemma claim_loop_same_book ids : forall s sender tot s' c,
  claim_rewards_loop s sender ids tot = Ok (s', c) -> same_book s s'.
Proof.
  induction ids as [|i tl IH]; cbn [claim_rewards_loop]; intros s sender tot s' c H.
  - injection H as <- _. apply same_book_refl.
  - repeat step_res H. eapply same_book_trans; [eapply collect_fees_same_book; eassumption|eapply IH; eassumption].
Qed.
Lemma msg_claim_same_book s sender ids s' c : msg_claim_rewards s sender ids = Ok (s', c) -> same_book s s'.
Proof. unfold msg_claim_rewards. destruct ids; [discriminate|]. apply claim_loop_same_book. Qed.

Lemma allocate_same_book s coins s' : allocate_incentive s coins = Ok s' -> same_book s s'.
Proof.
  unfold allocate_incentive. intros H. repeat step_res H.
  apply send_same_book in H. destruct H as (P&Q&T&A&N). repeat split; assumption.
Qed.

Lemma same_book_Inv s s' : same_book s s' -> Inv s -> Inv s'.
Proof. intros Hb [Hi Hs]. split; [eapply same_book_inv|eapply same_book_strict]; eassumption. Qed.

(* ---- a freshly created pool ---- *)
Definition fresh_pool (fee : Z) (tp : tick_params) (next_id : Z) (bp bf bu : vec) : amm :=
  {| a_pool := {| p_fee := fee; p_tp := tp; p_tick := 0; p_liq := 0; p_sqrt := 0 |};
     a_positions := []; a_ticks := []; a_acc_value := vzero; a_acc_shares := 0; a_acc_pos := [];
     a_next_id := next_id; a_bal_pool := bp; a_bal_fee := bf; a_bal_user := bu |}.
Lemma fresh_pool_inv fee tp n bp bf bu : Inv (fresh_pool fee tp n bp bf bu).
Proof.
  split; [split|].
  - constructor; cbn [fresh_pool a_positions a_ticks a_pool a_acc_shares a_next_id p_liq p_tick p_sqrt active total].
    + constructor.
    + constructor.
    + constructor.
    + constructor.
    + intros t. reflexivity.
    + intros t. reflexivity.
    + reflexivity.
    + reflexivity.
    + intros _. split; reflexivity.
    + intros Hne. contradiction.
  - intros t x Hx. discriminate.
  - constructor.
Qed.

(* ---- crossing an initialised tick: the heart of clause (1) ----
   Moving the cursor from tick [cur] up to [t] over a stretch that contains no position bound
   strictly between them changes the active liquidity by exactly liquidity_net(t); symmetric
   downwards. *)
Lemma active_cross_up ps cur t :
  cur < t ->
  Forall (fun p => pos_lower p < pos_upper p /\
                   ~ (cur < pos_lower p < t) /\ ~ (cur < pos_upper p < t)) ps ->
  active ps t = active ps cur + net_at ps t.
Proof.
  intros Hlt H. induction H as [|p r (Hp & Hl & Hu) _ IH]; cbn [active net_at]; [lia|].
  rewrite IH. unfold covers.
  destruct (Z.leb_spec (pos_lower p) t); destruct (Z.ltb_spec t (pos_upper p));
  destruct (Z.leb_spec (pos_lower p) cur); destruct (Z.ltb_spec cur (pos_upper p));
  destruct (Z.eqb_spec (pos_lower p) t); destruct (Z.eqb_spec (pos_upper p) t); cbn [andb]; lia.
Qed.
Lemma active_cross_down ps cur t :
  t <= cur ->
  Forall (fun p => pos_lower p < pos_upper p /\
                   ~ (t < pos_lower p <= cur) /\ ~ (t < pos_upper p <= cur)) ps ->
  active ps (t - 1) = active ps cur - net_at ps t.
Proof.
  intros Hlt H. induction H as [|p r (Hp & Hl & Hu) _ IH]; cbn [active net_at]; [lia|].
  rewrite IH. unfold covers.
  destruct (Z.leb_spec (pos_lower p) (t - 1)); destruct (Z.ltb_spec (t - 1) (pos_upper p));
  destruct (Z.leb_spec (pos_lower p) cur); destruct (Z.ltb_spec cur (pos_upper p));
  destruct (Z.eqb_spec (pos_lower p) t); destruct (Z.eqb_spec (pos_upper p) t); cbn [andb]; lia.
Qed.
