#!/bin/sh
# usage: dbgcase.sh <cases_file.v> <global index>  -- print corr_debug of that case
f=$1; idx=$2
d=$(mktemp -d)
python3 - "$f" "$idx" "$d/dbg.v" <<'PY'
import sys,re
src=open(sys.argv[1]).read()
idx=int(sys.argv[2])
base=int(re.search(r'Definition base : Z := (\d+)\.',src).group(1))
head=src.split('Definition verdicts')[0]
open(sys.argv[3],'w').write(head+f"\nDefinition dbg := Eval vm_compute in (option_map corr_debug (nth_error cases {idx-base})).\nPrint dbg.\n")
PY
(cd $d && coqc -R /verif/coq Sunrise dbg.v 2>&1 | grep -v '^WARNING' | tail -30)
rm -rf $d
