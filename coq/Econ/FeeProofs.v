(* C18: what the fee decorator admits, whom it charges, and what Burn destroys. *)
From Coq Require Import ZArith List Bool Lia ZifyBool.
Import ListNotations.
From Sunrise Require Import Base.Outcome Base.Dec Base.DecLemmas Base.Bank Econ.ConvertProofs Econ.FeeAnte.
Local Open Scope Z_scope.
Ltac Zify.zify_post_hook ::= Z.div_mod_to_equations.

Lemma rbind_ok {A B} (x : res A) (f : A -> res B) y :
  rbind x f = Ok y -> exists a, x = Ok a /\ f a = Ok y.
Proof. destruct x as [a| |]; cbn; intros H; try discriminate. exists a. split; [reflexivity|exact H]. Qed.

(* ---------------------------------------------------------------- the decision *)

Lemma ante_decide_fee i f p : ante_decide i = Ok (f, p) -> f = ai_fee i.
Proof.
  unfold ante_decide.
  destruct (negb (is_sim (ai_mode i)) && (0 <? ai_height i) && (ai_gas i =? 0)); [discriminate|].
  destruct (is_sim (ai_mode i)).
  - intros H. injection H as <- _. reflexivity.
  - unfold check_fee. intros H.
    apply rbind_ok in H. destruct H as [u [_ H]].
    apply rbind_ok in H. destruct H as [q [_ H]]. injection H as <- _. reflexivity.
Qed.

(* in check mode an admitted transaction went through the denom filter and the price check *)
Lemma ante_decide_check i f p :
  ai_mode i = MCheck -> ante_decide i = Ok (f, p) ->
  denom_filter i = Ok tt /\ min_price_check i = Ok tt.
Proof.
  intros Hm. unfold ante_decide. rewrite Hm. cbn [is_sim negb andb].
  destruct ((0 <? ai_height i) && (ai_gas i =? 0)); [discriminate|].
  unfold check_fee. rewrite Hm. cbn [is_check]. intros H.
  apply rbind_ok in H. destruct H as [u [H _]].
  apply rbind_ok in H. destruct H as [v [H1 H2]].
  destruct v, u. split; assumption.
Qed.

Lemma denom_filter_shape i :
  0 < ai_height i -> denom_filter i = Ok tt ->
  exists d a fd byp, ai_fee i = [(d, a)] /\ ai_params i = Some (fd, byp) /\ (d = fd \/ In d byp).
Proof.
  intros Hh. unfold denom_filter.
  destruct (Z.ltb_spec 0 (ai_height i)) as [_|Hc]; [|lia].
  destruct (ai_fee i) as [|[d a] [|c tl]]; try discriminate.
  destruct (ai_params i) as [[fd byp]|]; try discriminate.
  destruct ((d =? fd) || existsb (Z.eqb d) byp) eqn:E; [|discriminate].
  intros _. exists d, a, fd, byp. repeat split.
  apply orb_true_iff in E. destruct E as [E|E].
  - left. apply Z.eqb_eq. exact E.
  - right. apply existsb_exists in E. destruct E as [x [Hin Hx]]. apply Z.eqb_eq in Hx. subst. exact Hin.
Qed.

Lemma ante_tx_ok i b b' p : ante_tx i b = (b', Ok p) -> ante_body i b = Ok (b', p).
Proof.
  unfold ante_tx, tx. destruct (ante_body i b) as [[b1 p1]| |]; intros H; inversion H; subst; reflexivity.
Qed.
Lemma ante_body_decide i b b' p :
  ante_body i b = Ok (b', p) -> exists f, ante_decide i = Ok (f, p).
Proof.
  unfold ante_body. intros H. apply rbind_ok in H. destruct H as [[f q] [Hd H]].
  apply rbind_ok in H. destruct H as [src [_ H]].
  apply rbind_ok in H. destruct H as [b1 [_ H]]. cbn [snd] in H. injection H as _ <-.
  exists f. exact Hd.
Qed.

Theorem admitted_fee_shape i b b' p :
  ai_mode i = MCheck -> 0 < ai_height i -> ante_tx i b = (b', Ok p) ->
  exists d a fd byp, ai_fee i = [(d, a)] /\ ai_params i = Some (fd, byp) /\ (d = fd \/ In d byp).
Proof.
  intros Hm Hh H. apply ante_tx_ok in H. apply ante_body_decide in H. destruct H as [f Hd].
  apply (ante_decide_check _ _ _ Hm) in Hd. destruct Hd as [Hf _].
  apply denom_filter_shape; assumption.
Qed.

(* ---------------------------------------------------------------- minimum price *)

Lemma chop_round_mul_P x : chop_round (x * P) = x.
Proof.
  pose proof P_pos as HP.
  unfold chop_round. destruct (Z.ltb_spec (x * P) 0) as [Hn|Hn].
  - unfold chop_round_pos.
    replace (- (x * P)) with ((- x) * P) by ring.
    rewrite Z.mod_mul by lia. cbn [Z.eqb]. rewrite Z.div_mul by lia. lia.
  - unfold chop_round_pos. rewrite Z.mod_mul by lia. cbn [Z.eqb]. rewrite Z.div_mul by lia. reflexivity.
Qed.

(* the coin required for one configured price: its amount n covers price * gas, and it is
   positive only for a positive price *)
Lemma required_fee_spec bad gl d price d' n :
  0 <= gl -> required_fee bad gl (d, price) = Ok (d', n) ->
  d' = d /\ 0 <= n /\ price * gl <= n * P /\ (0 < n -> 0 < price).
Proof.
  intros Hgl. unfold required_fee. cbn [fst snd].
  destruct (dmul price (dec_of_int gl)) as [f|] eqn:Ef; [|discriminate].
  destruct (dceil f) as [c|] eqn:Ec; [|discriminate].
  destruct (chk_int (dtrunc_int c)) as [m|] eqn:Em; [|discriminate].
  destruct (valid_denom bad d && (0 <=? m)) eqn:Ev; [|discriminate].
  intros H. injection H as <- <-.
  apply dmul_some in Ef. unfold dec_of_int in Ef.
  replace (price * (gl * P)) with ((price * gl) * P) in Ef by ring.
  rewrite chop_round_mul_P in Ef. subst f.
  unfold dceil in Ec. apply chk_some in Ec. destruct Ec as [-> _].
  apply chk_int_some in Em. destruct Em as [-> _].
  apply andb_true_iff in Ev. destruct Ev as [_ Hm0].
  pose proof P_pos as HP.
  unfold dtrunc_int in *. rewrite Z.quot_mul in * by lia.
  set (f := price * gl) in *.
  pose proof (Z.quot_rem' f P) as Hqr.
  assert (Hsign : (0 <= f -> 0 <= Z.rem f P < P) /\ (f <= 0 -> - P < Z.rem f P <= 0)).
  { split; intros Hf.
    - apply Z.rem_bound_pos; lia.
    - pose proof (Z.rem_nonpos f P ltac:(lia) Hf) as Hb1.
      pose proof (Z.rem_bound_abs f P ltac:(lia)) as Hb2. lia. }
  destruct Hsign as [Hpos Hneg].
  split; [reflexivity|]. split; [lia|].
  destruct (Z.ltb_spec 0 (Z.rem f P)) as [Hr|Hr].
  - split; [lia|]. intros _. destruct (Z.lt_ge_cases 0 price) as [|Hp]; [assumption|].
    assert (f <= 0) by (unfold f; nia). specialize (Hneg H). lia.
  - split.
    + destruct (Z.le_ge_cases 0 f) as [Hf|Hf]; [specialize (Hpos Hf)|specialize (Hneg Hf)]; lia.
    + intros Hn. destruct (Z.lt_ge_cases 0 price) as [|Hp]; [assumption|].
      assert (Hf : f <= 0) by (unfold f; nia). specialize (Hneg Hf).
      assert (Z.quot f P <= 0) by nia.
      lia.
Qed.

Lemma required_fees_in bad gl mgp req d n :
  0 <= gl -> required_fees bad gl mgp = Ok req -> find_amt req d = n -> n <> 0 ->
  exists price, In (d, price) mgp /\ 0 < price /\ price * gl <= n * P.
Proof.
  intros Hgl. revert req. induction mgp as [|[d0 p0] tl IH]; intros req H Hf Hn.
  - cbn in H. injection H as <-. cbn in Hf. congruence.
  - cbn [required_fees] in H. apply rbind_ok in H. destruct H as [[d1 n1] [H1 H]].
    apply rbind_ok in H. destruct H as [r [H2 H]]. injection H as <-.
    apply (required_fee_spec _ _ _ _ _ _ Hgl) in H1. destruct H1 as [-> [Hn0 [Hle Hpos]]].
    cbn [find_amt] in Hf. destruct (Z.eqb_spec d0 d) as [->|Hne].
    + subst n1. exists p0. split; [left; reflexivity|]. split; [apply Hpos; lia|exact Hle].
    + destruct (IH r H2 Hf Hn) as [price [Hin Hp]]. exists price. split; [right; exact Hin|exact Hp].
Qed.

Lemma any_gte_true bad fee req :
  any_gte_loop bad fee req = Ok true ->
  exists d a, In (d, a) fee /\ find_amt req d <= a /\ find_amt req d <> 0.
Proof.
  induction fee as [|[d a] tl IH]; cbn [any_gte_loop]; [discriminate|].
  destruct (valid_denom bad d); [|discriminate].
  destruct ((find_amt req d <=? a) && negb (find_amt req d =? 0)) eqn:E.
  - intros _. exists d, a. apply andb_true_iff in E. destruct E as [E1 E2].
    split; [left; reflexivity|]. split; [lia|]. apply negb_true_iff in E2. lia.
  - intros H. destruct (IH H) as [d' [a' [Hin Hr]]]. exists d', a'. split; [right; exact Hin|exact Hr].
Qed.

Theorem admitted_meets_min_price i b b' p :
  ai_mode i = MCheck -> 0 <= ai_gas i < 2 ^ 63 -> all_zero (ai_mgp i) = false ->
  ante_tx i b = (b', Ok p) ->
  exists d a price, In (d, a) (ai_fee i) /\ In (d, price) (ai_mgp i) /\ 0 < price /\
                    price * ai_gas i <= a * P.
Proof.
  intros Hm Hg Hz H. apply ante_tx_ok in H. apply ante_body_decide in H. destruct H as [f Hd].
  apply (ante_decide_check _ _ _ Hm) in Hd. destruct Hd as [_ Hp].
  unfold min_price_check in Hp. rewrite Hz in Hp.
  apply rbind_ok in Hp. destruct Hp as [req [Hreq Hp]].
  apply rbind_ok in Hp. destruct Hp as [ok [Hgte Hp]].
  destruct ok; [|discriminate].
  assert (Hgl : int64_of_uint64 (ai_gas i) = ai_gas i).
  { unfold int64_of_uint64. destruct (Z.ltb_spec (ai_gas i) (2 ^ 63)); lia. }
  rewrite Hgl in Hreq.
  unfold is_any_gte in Hgte. destruct req as [|r0 rtl] eqn:Er; [discriminate|]. rewrite <- Er in *.
  apply any_gte_true in Hgte. destruct Hgte as [d [a [Hin [Hle Hnz]]]].
  destruct (required_fees_in _ _ _ _ d _ (proj1 Hg) Hreq eq_refl Hnz) as [price [Hpin [Hpos Hcov]]].
  exists d, a, price. repeat split; try assumption.
  apply Z.le_trans with (find_amt req d * P); [exact Hcov|].
  apply Z.mul_le_mono_nonneg_r; [pose proof P_pos; lia|exact Hle].
Qed.

(* ---------------------------------------------------------------- collection *)

Definition paid_by (i : ante_in) (src : Z) : Prop :=
  (ai_granter i = None /\ src = ai_payer i) \/
  (ai_granter i = Some src /\ (src = ai_payer i \/ ai_allow i = Ok tt)).

(* the declared fee has moved, in full, from [src] to [dst]; nothing else changed *)
Definition fee_moved (fee : coins) (src dst : Z) (b b' : bank) : Prop :=
  forall d,
    bal b' src d = bal b src d - amount_of fee d /\
    bal b' dst d = bal b dst d + amount_of fee d /\
    (forall a, a <> src -> a <> dst -> bal b' a d = bal b a d) /\
    sup b' d = sup b d.

Lemma all_zero_amount_of fee d : all_zero fee = true -> amount_of fee d = 0.
Proof.
  induction fee as [|[d0 a0] tl IH]; cbn [all_zero forallb amount_of snd]; [reflexivity|].
  intros H. apply andb_true_iff in H. destruct H as [H1 H2]. fold (all_zero tl) in H2.
  rewrite (IH H2). destruct (d0 =? d); lia.
Qed.

Lemma send_coins_spec from to cs : from <> to -> forall b b',
  send_coins b from to cs = Ok b' -> fee_moved cs from to b b'.
Proof.
  intros Hne. induction cs as [|[d0 a0] tl IH]; intros b b' H.
  - cbn in H. injection H as <-. intros d. cbn [amount_of]. repeat split; intros; lia.
  - cbn [send_coins] in H. apply rbind_ok in H. destruct H as [b1 [H1 H2]].
    apply bank_send_ok in H1. destruct H1 as [_ ->].
    specialize (IH _ _ H2). intros d. destruct (IH d) as [I1 [I2 [I3 I4]]].
    cbn [amount_of]. unfold bank_add in *. cbn [bal sup] in *.
    repeat split.
    + rewrite I1. bank_solve.
    + rewrite I2. bank_solve.
    + intros a Ha1 Ha2. rewrite (I3 a Ha1 Ha2). bank_solve.
    + rewrite I4. reflexivity.
Qed.

Theorem fee_collected_in_full_or_rejected i b :
  (forall src, paid_by i src -> src <> ai_collector i) ->
  match ante_tx i b with
  | (b', Ok _) => exists src, paid_by i src /\ fee_moved (ai_fee i) src (ai_collector i) b b'
  | (b', _) => b' = b
  end.
Proof.
  intros Hcol. unfold ante_tx, tx.
  destruct (ante_body i b) as [[b' p]| |] eqn:E; [|reflexivity|reflexivity].
  unfold ante_body in E. apply rbind_ok in E. destruct E as [[f q] [Hd E]].
  apply ante_decide_fee in Hd. subst f.
  apply rbind_ok in E. destruct E as [src [Hsrc E]].
  apply rbind_ok in E. destruct E as [b1 [Hded E]]. cbn [fst snd] in *. injection E as <- _.
  assert (Hpb : paid_by i src).
  { unfold deduct_from in Hsrc. unfold paid_by. destruct (ai_granter i) as [g|].
    - right. destruct (Z.eqb_spec g (ai_payer i)) as [Heq|Hneq].
      + injection Hsrc as <-. split; [reflexivity|left; exact Heq].
      + destruct (ai_allow i) as [[]| |] eqn:Ea; try discriminate. injection Hsrc as <-.
        split; [reflexivity|right; reflexivity].
    - left. injection Hsrc as <-. split; reflexivity. }
  exists src. split; [exact Hpb|].
  unfold deduct_fees in Hded.
  destruct (all_zero (ai_fee i)) eqn:Ez.
  - injection Hded as <-. intros d. rewrite (all_zero_amount_of _ _ Ez). repeat split; intros; lia.
  - destruct (negb (coins_valid (ai_bad i) (ai_fee i))); [discriminate|].
    destruct (send_coins b src (ai_collector i) (ai_fee i)) as [b2| |] eqn:Es; try discriminate.
    injection Hded as <-. apply (send_coins_spec _ _ _ (Hcol src Hpb) _ _ Es).
Qed.

(* ---------------------------------------------------------------- burn *)

Lemma burn_loop_skip fd ratio col fm fees b :
  (forall c, In c fees -> fst c <> fd) -> burn_loop fd ratio col fm fees b = (b, Ok tt).
Proof.
  induction fees as [|[d a] tl IH]; intros H; cbn [burn_loop]; [reflexivity|].
  destruct (Z.eqb_spec d fd) as [->|Hne]; cbn [negb].
  - exfalso. apply (H (fd, a)); [left; reflexivity|reflexivity].
  - apply IH. intros c Hc. apply H. right. exact Hc.
Qed.

Lemma find_amt_absent fees d : (forall c, In c fees -> fst c <> d) -> find_amt fees d = 0.
Proof.
  induction fees as [|[d0 a0] tl IH]; intros H; cbn [find_amt]; [reflexivity|].
  destruct (Z.eqb_spec d0 d) as [->|_].
  - exfalso. apply (H (d, a0)); [left; reflexivity|reflexivity].
  - apply IH. intros c Hc. apply H. right. exact Hc.
Qed.

(* exactly [n] of denom [fd] left the collector and the supply; nothing else changed *)
Definition burned (fd col n : Z) (b b' : bank) : Prop :=
  bal b' col fd = bal b col fd - n /\
  sup b' fd = sup b fd - n /\
  (forall a d, (a, d) <> (col, fd) -> bal b' a d = bal b a d) /\
  (forall d, d <> fd -> sup b' d = sup b d).

Lemma burned_zero fd col b : burned fd col 0 b b.
Proof. unfold burned. repeat split; intros; lia. Qed.

Lemma bank_burn_succeeds b m d n : 0 <= n <= bal b m d -> exists b2, bank_burn b m d n = Ok b2.
Proof.
  intros H. unfold bank_burn, bank_sub.
  destruct (Z.ltb_spec n 0); [lia|]. destruct (Z.ltb_spec (bal b m d) n); [lia|].
  cbn [rbind]. eexists. reflexivity.
Qed.
Lemma bank_send_not_ok b from to d n :
  match bank_send b from to d n with
  | Ok _ => True
  | Err _ => n < 0 \/ bal b from d < n
  | Panic => False
  end.
Proof.
  unfold bank_send, bank_sub.
  destruct (Z.ltb_spec n 0); cbn [rbind]; [left; assumption|].
  destruct (Z.ltb_spec (bal b from d) n); cbn [rbind]; [right; assumption|exact I].
Qed.

Theorem burn_exact fd ratio col fm fees b :
  0 <= ratio <= P -> col <> fm -> 0 <= bal b fm fd -> 0 <= bal b col fd ->
  NoDup (map fst fees) -> (forall c, In c fees -> 0 <= snd c <= INT_LIM) ->
  match burn_loop fd ratio col fm fees b with
  | (b', Ok _) => ratio * find_amt fees fd / P <= bal b col fd /\
                  burned fd col (ratio * find_amt fees fd / P) b b'
  | (b', Err _) => b' = b /\ bal b col fd < ratio * find_amt fees fd / P
  | (_, Panic) => False
  end.
Proof.
  intros Hr Hne Hfm Hcol. pose proof P_pos as HP.
  induction fees as [|[d a] tl IH]; intros Hnd Hamt.
  - cbn [burn_loop find_amt]. rewrite Z.mul_0_r, Z.div_0_l by lia.
    split; [lia|apply burned_zero].
  - cbn [burn_loop find_amt]. destruct (Z.eqb_spec d fd) as [->|Hd]; cbn [negb].
    + inversion Hnd as [|x l Hnotin Hnd']; subst.
      assert (Htl : forall c, In c tl -> fst c <> fd).
      { intros c Hc Heq. apply Hnotin. rewrite <- Heq. apply in_map. exact Hc. }
      destruct (Hamt (fd, a) (or_introl eq_refl)) as [Ha0 Ha1]. cbn [snd] in Ha0, Ha1.
      assert (Hrange : in_range (ratio * a) = true).
      { unfold in_range. apply Z.leb_le. rewrite Z.abs_eq by nia.
        assert (H1 : ratio * a <= P * a) by nia.
        assert (H2 : P * a <= P * INT_LIM) by nia.
        assert (H3 : P * INT_LIM <= DEC_LIM) by (vm_compute; discriminate).
        lia. }
      unfold dmul_int, chk. rewrite Hrange. unfold dtrunc_int.
      rewrite Z.quot_div_nonneg by nia.
      set (n := ratio * a / P).
      assert (Hn : 0 <= n <= a).
      { subst n. split; [apply Z.div_pos; nia|]. apply Z.div_le_upper_bound; nia. }
      unfold chk_int, int_ok. rewrite Z.abs_eq by lia.
      destruct (Z.leb_spec n INT_LIM) as [_|Hbad]; [|lia].
      destruct (Z.eqb_spec n 0) as [Hz|Hnz].
      * rewrite burn_loop_skip by exact Htl. rewrite Hz. split; [lia|apply burned_zero].
      * destruct (Z.ltb_spec n 0) as [Hneg|_]; [lia|].
        pose proof (bank_send_not_ok b col fm fd n) as Hs.
        destruct (bank_send b col fm fd n) as [b1|e|] eqn:Es.
        -- apply bank_send_ok in Es. destruct Es as [Hle ->].
           destruct (bank_burn_succeeds (bank_add {| bal := upd2 (bal b) col fd (bal b col fd - n); sup := sup b |} fm fd n) fm fd n) as [b2 Hb2].
           { unfold bank_add. cbn [bal]. bank_solve. }
           rewrite Hb2. apply bank_burn_ok in Hb2. destruct Hb2 as [_ ->].
           rewrite burn_loop_skip by exact Htl. split; [lia|].
           unfold burned, bank_add. cbn [bal sup]. repeat split; intros; bank_solve.
        -- split; [reflexivity|]. destruct Hs as [Hs|Hs]; lia.
        -- exact Hs.
    + apply IH.
      * inversion Hnd; assumption.
      * intros c Hc. apply Hamt. right. exact Hc.
Qed.
