// Package c14: harness for property C14 (stub until built).
package c14

import "fmt"

// Run generates n cases from seed, runs them on the real application and writes
// cases_*.v and stats.json into outDir.
func Run(seed int64, n int, outDir string) error {
	return fmt.Errorf("c14: harness not built yet")
}
