(* C04, clause (1) across swaps: the hypothesis "the cursor is consistent after the swap" of
   LiqSwap.swap_inv_partial is reduced to a hypothesis about the tick<->price conversion alone:
   every tick that the loop RECOMPUTES from a price (CalculateSqrtPriceToTick, when a step stops
   inside a bucket) lies in the bucket the loop was walking (Fees.cursor_ok). That is what
   monotonicity of the tick->price map gives; it is the one thing about the swap loop that is not
   proved for arbitrary tick parameters. The loop invariant (active liquidity = liquidity of the
   positions covering the cursor, through every crossing) is FeesSwapBacking.swap_loop_accrual_liq. *)
From Coq Require Import ZArith Bool List Lia Sorted.
Import ListNotations.
From Sunrise Require Import Base.Outcome Base.Dec Amm.Math Amm.Pool Amm.LiqDefs Amm.LiqLists Amm.LiqInv Amm.LiqSwap
  Amm.Fees Amm.FeesSwap Amm.FeesSwapBacking.
Local Open Scope Z_scope.

Theorem swap_inv_cursor s ei din dout specified s' i o :
  Inv s -> FeeWF s -> swap_cursor_ok s ei din specified ->
  swap s ei din dout specified true = Ok (s', i, o) ->
  has_position (a_pool s') = true ->
  Inv s'.
Proof.
  intros HI W Hcur H Hhp.
  destruct (swap_backed s ei din dout specified s' i o HI W Hcur H) as (evs & _ & _ & _ & Hact & _).
  eapply swap_inv_partial; [exact HI|exact H|]. split; assumption.
Qed.
