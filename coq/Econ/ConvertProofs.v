(* Conversion is exactly 1:1, atomic, and touches nothing else (C13). *)
From Coq Require Import ZArith Bool Lia ZifyBool.
From Sunrise Require Import Base.Outcome Base.Bank Econ.Convert.
Local Open Scope Z_scope.

Lemma upd2_same f a d v : upd2 f a d v a d = v.
Proof. unfold upd2. rewrite !Z.eqb_refl. reflexivity. Qed.
Lemma upd2_other f a d v a' d' : (a', d') <> (a, d) -> upd2 f a d v a' d' = f a' d'.
Proof.
  unfold upd2. intros H. destruct (Z.eqb_spec a' a); destruct (Z.eqb_spec d' d); cbn; try reflexivity.
  subst. congruence.
Qed.
Lemma upd1_same f d v : upd1 f d v d = v.
Proof. unfold upd1. rewrite Z.eqb_refl. reflexivity. Qed.
Lemma upd1_other f d v d' : d' <> d -> upd1 f d v d' = f d'.
Proof. unfold upd1. intros H. destruct (Z.eqb_spec d' d); congruence. Qed.

Ltac bank_solve :=
  unfold upd2, upd1 in *;
  repeat match goal with
  | |- context [?x =? ?y] => destruct (Z.eqb_spec x y); subst; cbn [andb]
  | H : context [?x =? ?y] |- _ => destruct (Z.eqb_spec x y); subst; cbn [andb] in H
  end; try lia; try congruence.

Section Proofs.
Variables (bond fee modacc : Z).
Hypothesis denoms_distinct : bond <> fee.

(* generic one-directional statement: burn [src] mint [dst] *)
Definition converted (src dst : Z) (b b' : bank) (addr amount : Z) : Prop :=
  bal b' addr src = bal b addr src - amount /\
  bal b' addr dst = bal b addr dst + amount /\
  sup b' src = sup b src - amount /\
  sup b' dst = sup b dst + amount /\
  sup b' src + sup b' dst = sup b src + sup b dst /\
  bal b' addr src + bal b' addr dst = bal b addr src + bal b addr dst /\
  (forall a d, a <> addr -> bal b' a d = bal b a d) /\
  (forall d, d <> src -> d <> dst -> bal b' addr d = bal b addr d) /\
  (forall d, d <> src -> d <> dst -> sup b' d = sup b d).

Lemma bank_sub_ok b a d amt b1 : bank_sub b a d amt = Ok b1 ->
  0 <= amt <= bal b a d /\ b1 = {| bal := upd2 (bal b) a d (bal b a d - amt); sup := sup b |}.
Proof.
  unfold bank_sub. destruct (amt <? 0) eqn:E0; [discriminate|].
  destruct (bal b a d <? amt) eqn:E1; [discriminate|]. intros H; injection H as <-. split; [lia|reflexivity].
Qed.
Lemma bank_send_ok b from to d amt b2 : bank_send b from to d amt = Ok b2 ->
  0 <= amt <= bal b from d /\
  b2 = bank_add {| bal := upd2 (bal b) from d (bal b from d - amt); sup := sup b |} to d amt.
Proof.
  unfold bank_send. destruct (bank_sub b from d amt) as [b1| |] eqn:E; cbn [rbind]; try discriminate.
  apply bank_sub_ok in E. destruct E as [Hr ->]. intros H; injection H as <-. split; [exact Hr|reflexivity].
Qed.
Lemma bank_burn_ok b m d amt b2 : bank_burn b m d amt = Ok b2 ->
  0 <= amt <= bal b m d /\
  b2 = {| bal := upd2 (bal b) m d (bal b m d - amt); sup := upd1 (sup b) d (sup b d - amt) |}.
Proof.
  unfold bank_burn. destruct (bank_sub b m d amt) as [b1| |] eqn:E; cbn [rbind]; try discriminate.
  apply bank_sub_ok in E. destruct E as [Hr ->]. intros H; injection H as <-. split; [exact Hr|reflexivity].
Qed.

Lemma k_convert_spec amount addr b b' :
  addr <> modacc -> k_convert bond fee modacc amount addr b = Ok (b', tt) ->
  0 <= amount <= bal b addr bond /\ converted bond fee b b' addr amount.
Proof.
  intros Hne. unfold k_convert.
  destruct (bank_send b addr modacc bond amount) as [b1| |] eqn:E1; cbn [rbind]; try discriminate.
  destruct (bank_burn b1 modacc bond amount) as [b2| |] eqn:E2; cbn [rbind]; try discriminate.
  destruct (bank_send _ modacc addr fee amount) as [b4| |] eqn:E3; cbn [rbind]; try discriminate.
  intros H; injection H as <-.
  apply bank_send_ok in E1. destruct E1 as [Hamt ->].
  apply bank_burn_ok in E2. destruct E2 as [_ ->].
  apply bank_send_ok in E3. destruct E3 as [_ ->].
  split; [assumption|]. unfold converted, bank_add, bank_mint. cbn [bal sup].
  repeat split; intros; bank_solve.
Qed.
End Proofs.

(* the reverse direction is the same function with the two denoms exchanged *)
Lemma k_convert_reverse_is_swap bond fee modacc amount addr b :
  k_convert_reverse bond fee modacc amount addr b = k_convert fee bond modacc amount addr b.
Proof. reflexivity. Qed.

Theorem convert_exact bond fee modacc amount addr b :
  bond <> fee -> addr <> modacc ->
  match msg_convert bond fee modacc amount addr b with
  | (b', Ok _) => 0 < amount <= bal b addr bond /\ converted bond fee b b' addr amount
  | (b', _) => b' = b
  end.
Proof.
  intros Hd Ha. unfold msg_convert, tx.
  destruct (amount <=? 0) eqn:E; [reflexivity|].
  destruct (k_convert bond fee modacc amount addr b) as [[b' []]| |] eqn:Ek; try reflexivity.
  destruct (k_convert_spec bond fee modacc Hd amount addr b b' Ha Ek). split; [lia|assumption].
Qed.

Theorem convert_reverse_exact bond fee modacc amount addr b :
  bond <> fee -> addr <> modacc ->
  match do_convert_reverse bond fee modacc amount addr b with
  | (b', Ok _) => 0 <= amount <= bal b addr fee /\ converted fee bond b b' addr amount
  | (b', _) => b' = b
  end.
Proof.
  intros Hd Ha. unfold do_convert_reverse, tx. rewrite k_convert_reverse_is_swap.
  destruct (k_convert fee bond modacc amount addr b) as [[b' []]| |] eqn:Ek; try reflexivity.
  apply (k_convert_spec fee bond modacc (not_eq_sym Hd) amount addr b b' Ha Ek).
Qed.

(* a conversion the holder can afford succeeds *)
Lemma bank_sub_succeeds b a d amt : 0 <= amt <= bal b a d -> exists b1, bank_sub b a d amt = Ok b1.
Proof.
  intros H. unfold bank_sub. destruct (amt <? 0) eqn:E0; [lia|].
  destruct (bal b a d <? amt) eqn:E1; [lia|]. eexists; reflexivity.
Qed.

Theorem convert_succeeds bond fee modacc amount addr b :
  bond <> fee -> addr <> modacc -> 0 < amount <= bal b addr bond -> 0 <= bal b modacc bond -> 0 <= bal b modacc fee ->
  exists b', msg_convert bond fee modacc amount addr b = (b', Ok tt).
Proof.
  intros Hd Ha Hamt Hm1 Hm2. unfold msg_convert, tx.
  destruct (amount <=? 0) eqn:E; [lia|].
  unfold k_convert, bank_send, bank_burn.
  destruct (bank_sub_succeeds b addr bond amount) as [b1 E1]; [lia|]. rewrite E1. cbn [rbind].
  apply bank_sub_ok in E1. destruct E1 as [_ ->].
  match goal with |- context [bank_sub ?bb modacc bond amount] =>
    destruct (bank_sub_succeeds bb modacc bond amount) as [b2 E2] end.
  { unfold bank_add; cbn [bal]. bank_solve. }
  rewrite E2. cbn [rbind]. apply bank_sub_ok in E2. destruct E2 as [_ ->].
  match goal with |- context [bank_sub ?bb modacc fee amount] =>
    destruct (bank_sub_succeeds bb modacc fee amount) as [b3 E3] end.
  { unfold bank_add, bank_mint; cbn [bal sup]. bank_solve. }
  rewrite E3. cbn [rbind]. eexists. reflexivity.
Qed.
