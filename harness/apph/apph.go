// Package apph runs the real sunrise application in-process on a MemDB.
// All correspondence checks drive the implementation through this package.
package apph

import (
	"encoding/json"
	"fmt"
	"os"
	"time"

	"cosmossdk.io/core/header"
	coretesting "cosmossdk.io/core/testing"
	"cosmossdk.io/log"
	sdkmath "cosmossdk.io/math"
	banktypes "cosmossdk.io/x/bank/types"
	abci "github.com/cometbft/cometbft/abci/types"
	cmtproto "github.com/cometbft/cometbft/api/cometbft/types/v1"
	cmttypes "github.com/cometbft/cometbft/types"
	"github.com/cosmos/cosmos-sdk/baseapp"
	cryptocodec "github.com/cosmos/cosmos-sdk/crypto/codec"
	"github.com/cosmos/cosmos-sdk/crypto/keys/ed25519"
	"github.com/cosmos/cosmos-sdk/crypto/keys/secp256k1"
	simtestutil "github.com/cosmos/cosmos-sdk/testutil/sims"
	sdk "github.com/cosmos/cosmos-sdk/types"
	authtypes "github.com/cosmos/cosmos-sdk/x/auth/types"

	"cosmossdk.io/core/appmodule"
	"github.com/cosmos/cosmos-sdk/types/module"

	"github.com/sunriselayer/sunrise/app"
	"github.com/sunriselayer/sunrise/app/custom"
)

const ChainID = "verif-1"

// Acct is a funded genesis account with its key.
type Acct struct {
	Priv *secp256k1.PrivKey
	Addr sdk.AccAddress
}

func (a Acct) String() string { return a.Addr.String() }

// H is a running application.
type H struct {
	App    *app.App
	Accts  []Acct
	Vals   []*cmttypes.Validator
	Height int64
	Time   time.Time
	home   string
}

// Options for genesis.
type Options struct {
	NumAccounts   int
	NumValidators int
	// Balance given to every account, per denom.
	Balances sdk.Coins
	// GenesisTime of the chain (block 1 time = GenesisTime + 1s by default stepping)
	GenesisTime time.Time
	// Mutate lets a caller edit the genesis state before InitChain.
	Mutate func(gs map[string]json.RawMessage, a *app.App)
}

func detPriv(i int, tag string) *secp256k1.PrivKey {
	return secp256k1.GenPrivKeyFromSecret([]byte(fmt.Sprintf("verif-%s-%d", tag, i)))
}

// New builds the app, runs InitChain and commits block 1.
func New(o Options) *H {
	sdk.DefaultBondDenom = "uvrise"
	if o.NumAccounts == 0 {
		o.NumAccounts = 4
	}
	if o.NumValidators == 0 {
		o.NumValidators = 1
	}
	if o.Balances == nil {
		big, _ := sdkmath.NewIntFromString("1000000000000000000000000000000000000")
		o.Balances = sdk.NewCoins(
			sdk.NewCoin("urise", big), sdk.NewCoin("uvrise", big),
			sdk.NewCoin("uusdc", big), sdk.NewCoin("uatom", big), sdk.NewCoin("uosmo", big),
		)
	}
	if o.GenesisTime.IsZero() {
		o.GenesisTime = time.Unix(1_700_000_000, 0).UTC()
	}
	home, err := os.MkdirTemp("", "verifapp")
	if err != nil {
		panic(err)
	}
	a := app.New(log.NewNopLogger(), coretesting.NewMemDB(), nil, true,
		simtestutil.NewAppOptionsWithFlagHome(home), baseapp.SetChainID(ChainID))

	h := &H{App: a, home: home}
	var vals []*cmttypes.Validator
	for i := 0; i < o.NumValidators; i++ {
		pk := ed25519.GenPrivKeyFromSecret([]byte(fmt.Sprintf("verif-val-%d", i))).PubKey()
		tmpk, err2 := cryptocodec.ToCmtPubKeyInterface(pk)
		if err2 != nil {
			panic(err2)
		}
		vals = append(vals, cmttypes.NewValidator(tmpk, 1))
	}
	valSet := cmttypes.NewValidatorSet(vals)
	h.Vals = vals

	var genAccs []authtypes.GenesisAccount
	var bals []banktypes.Balance
	for i := 0; i < o.NumAccounts; i++ {
		p := detPriv(i, "acct")
		addr := sdk.AccAddress(p.PubKey().Address())
		h.Accts = append(h.Accts, Acct{Priv: p, Addr: addr})
		genAccs = append(genAccs, authtypes.NewBaseAccount(addr, p.PubKey(), uint64(i), 0))
		bals = append(bals, banktypes.Balance{Address: addr.String(), Coins: o.Balances})
	}
	gs := a.DefaultGenesis()
	// production genesis comes from `sunrised init`, which swaps in the custom modules'
	// DefaultGenesis (fee denom urise, uvrise send-disabled, ...): do the same on a copy of
	// the module manager so the running application's wiring is left untouched.
	mm := &module.Manager{Modules: map[string]appmodule.AppModule{}}
	for k, v := range a.ModuleManager.Modules {
		mm.Modules[k] = v
	}
	custom.ReplaceCustomModules(mm, a.AppCodec())
	for _, name := range []string{"bank", "fee", "gov", "mint", "protocolpool", "staking"} {
		if m, ok := mm.Modules[name].(interface{ DefaultGenesis() json.RawMessage }); ok {
			gs[name] = m.DefaultGenesis()
		} else {
			panic("custom module without DefaultGenesis: " + name)
		}
	}
	gs, err = simtestutil.GenesisStateWithValSet(a.AppCodec(), gs, valSet, genAccs, bals...)
	if err != nil {
		panic(err)
	}
	// GenesisStateWithValSet rebuilds the bank genesis from scratch and thereby drops the
	// custom bank DefaultGenesis (uvrise send-disabled, denom metadata): put both back.
	{
		var custom, cur banktypes.GenesisState
		a.AppCodec().MustUnmarshalJSON(mm.Modules["bank"].(interface{ DefaultGenesis() json.RawMessage }).DefaultGenesis(), &custom)
		a.AppCodec().MustUnmarshalJSON(gs["bank"], &cur)
		cur.SendEnabled = custom.SendEnabled
		cur.DenomMetadata = custom.DenomMetadata
		gs["bank"] = a.AppCodec().MustMarshalJSON(&cur)
	}
	if o.Mutate != nil {
		o.Mutate(gs, a)
	}
	stateBytes, err := json.Marshal(gs)
	if err != nil {
		panic(err)
	}
	_, err = a.InitChain(&abci.InitChainRequest{
		ChainId:         ChainID,
		Time:            o.GenesisTime,
		Validators:      []abci.ValidatorUpdate{},
		ConsensusParams: simtestutil.DefaultConsensusParams,
		AppStateBytes:   stateBytes,
		InitialHeight:   1,
	})
	if err != nil {
		panic(err)
	}
	h.Height = 0
	h.Time = o.GenesisTime
	h.NextBlock(time.Second)
	return h
}

// Close removes the temp home.
func (h *H) Close() { os.RemoveAll(h.home) }

// NextBlock runs FinalizeBlock+Commit with time advanced by dt and no txs.
func (h *H) NextBlock(dt time.Duration) (*abci.FinalizeBlockResponse, error) {
	return h.Block(dt, nil)
}

// Block runs FinalizeBlock+Commit with the given raw txs. A panic inside
// FinalizeBlock is converted to an error starting with "panic:".
func (h *H) Block(dt time.Duration, txs [][]byte) (resp *abci.FinalizeBlockResponse, err error) {
	h.Height++
	h.Time = h.Time.Add(dt)
	defer func() {
		if r := recover(); r != nil {
			err = fmt.Errorf("panic: %v", r)
		}
	}()
	resp, err = h.App.FinalizeBlock(&abci.FinalizeBlockRequest{
		Height:             h.Height,
		Time:               h.Time,
		Txs:                txs,
		NextValidatorsHash: nil,
	})
	if err != nil {
		return resp, err
	}
	_, err = h.App.Commit()
	return resp, err
}

// Ctx returns an uncached context on the committed state for direct keeper and
// msg-server calls, at the current height/time.
func (h *H) Ctx() sdk.Context {
	return h.CtxAt(h.Time)
}

// CtxAt returns an uncached context with the given time.
func (h *H) CtxAt(t time.Time) sdk.Context {
	return h.App.NewUncachedContext(false, cmtproto.Header{Height: h.Height, Time: t, ChainID: ChainID}).
		WithHeaderInfo(header.Info{Height: h.Height, Time: t, ChainID: ChainID})
}

// Tx runs f in a cache-wrapped context: writes are kept only if f returns nil
// and does not panic (baseapp's message semantics). Returns the error; a
// panic is returned as an error starting with "panic:".
func Tx(ctx sdk.Context, f func(ctx sdk.Context) error) (err error) {
	cctx, write := ctx.CacheContext()
	defer func() {
		if r := recover(); r != nil {
			err = fmt.Errorf("panic: %v", r)
		}
	}()
	err = f(cctx)
	if err == nil {
		write()
	}
	return err
}

// Bal returns the balance of addr in denom.
func (h *H) Bal(ctx sdk.Context, addr sdk.AccAddress, denom string) sdkmath.Int {
	return h.App.BankKeeper.GetBalance(ctx, addr, denom).Amount
}

// Supply returns the total supply of denom.
func (h *H) Supply(ctx sdk.Context, denom string) sdkmath.Int {
	return h.App.BankKeeper.GetSupply(ctx, denom).Amount
}
