(* C10 — Non-voting delegation (x/shareclass): shares, principal and rewards are accounted exactly
   once.  Only statements, each closed by [exact]; proofs live in Stake/ShareClassProofs.v.

   The model (Stake/ShareClass.v) is the module WITH the two repairs of notes/patches/C10-*.patch
   (checkpoint written when claiming; unbonding entries that complete later in the current second
   are skipped).  [denoms], [users], [vals] are arbitrary duplicate-free lists of reward denoms,
   delegator accounts and validators; a history [tr] is any list of operations (claim, delegate,
   undelegate, bank-send of a share denom, end-block) each with the answers of the oracle modules
   (staking, distribution) for that step; [run_g] executes it from the empty state, failing
   operations leave the state unchanged, and threads the ghost totals
     g_recv v d   what the reward saver of validator v received in denom d,
     g_paid u v d what was paid to delegator u,
     g_ent u v d  the exact pro-rata entitlement  sum_k reward_k * shares_u(k) / supply(k),
     g_und r, g_out r  principal staking unbonded in favour of r (MsgUndelegateResponse.Amount,
                       which the queue records) / paid out to r by end-blocks.
   eta = 1/(2*10^33) is the relative rounding error of one 34-digit decimal operation,
   kappa = (1+eta)^2 - 1. *)
From Coq Require Import ZArith QArith List.
Import ListNotations.
From Sunrise Require Import Base.Outcome Stake.ApdDec Stake.ShareClass Stake.ShareClassProofs.
Local Open Scope Z_scope.

(* Share tokens exist only against stake the module has delegated: along every history that keeps
   the share supplies below 10^34, the supply of a validator's share denom is exactly what the
   delegators hold, and it is positive only while the module's delegation is positive. *)
Theorem C10_shares_backed : forall denoms users vals, NoDup denoms -> NoDup users -> NoDup vals ->
  forall ub sg, Reach denoms users vals ub sg -> forall v,
  let c := cells (fst sg) v in
  cT c = sumZ (csh c) users /\ (forall u, 0 <= csh c u) /\ cmodsh c = 0 /\
  (0 < cT c -> exists b, cB c = Some b /\ 0 < b).
Proof. exact shares_backed. Qed.
Print Assumptions C10_shares_backed.

(* Share tokens cannot be transferred: after any history a bank MsgSend of a share denom never
   succeeds, and for a holder it fails with "send disabled". *)
Theorem C10_share_not_transferable : forall denoms users vals, NoDup denoms -> NoDup users -> NoDup vals ->
  forall ub tr, wf_trace users tr ->
  let s := exec denoms true vals (init ub) tr in
  forall u u' v amt,
    (forall s', send_share s u u' v amt <> Ok s') /\
    (0 < csh (cells s v) u -> send_share s u u' v amt = Err E_SEND_DISABLED).
Proof. exact share_not_transferable. Qed.
Print Assumptions C10_share_not_transferable.

(* A delegator can always undelegate the value of their shares: after any history, an
   undelegation of amt <= floor(B * shares / supply) by a holder of fewer than 10^32 shares goes
   through, provided staking has a free unbonding entry for the module (see finding 1), reports
   an unbonded amount between 0 and the request (it records and later releases that amount), and the
   rewards received per denom stay below 1/kappa (about 10^33). *)
Theorem C10_undelegate_available : forall denoms users vals, NoDup denoms -> NoDup users -> NoDup vals ->
  forall ub tr o u v amt rcp b, wf_trace users tr ->
  let s := fst (run_g denoms vals ub tr) in let g := snd (run_g denoms vals ub tr) in
  In u users -> 0 <= v -> 0 <= rcp -> 0 < amt ->
  cB (cells s v) = Some b -> amt * cT (cells s v) <= b * csh (cells s v) u ->
  0 < cT (cells s v) -> csh (cells s v) u < SHLIM -> cent (cells s v) < o_max o ->
  0 <= o_ret o <= amt ->
  (forall d, In d denoms -> (kappa * inject_Z (g_recv g v d) < 1)%Q) ->
  exists s', undelegate denoms true s o u v amt FEE rcp = Ok s'.
Proof. exact undelegate_available. Qed.
Print Assumptions C10_undelegate_available.

(* ... the value of their shares and not more: the shares an undelegation burns (the module's
   CalculateShareByAmount) are worth the amount taken out of the pooled delegation, up to the floor
   and the two roundings (amount * supply / delegation below 10^32). *)
Theorem C10_undelegate_burns_value : forall T b amt cost,
  0 < T -> 0 < b -> 0 < amt -> amt * T < b * SHLIM ->
  calc_share T b amt = Ok cost -> amt * T <= (cost + 2) * b.
Proof. exact cost_covers_amount. Qed.
Print Assumptions C10_undelegate_burns_value.

(* ... and receives it exactly once, to the chosen recipient: what was undelegated in favour of r
   equals what end-blocks have paid to r plus what is still queued for r. *)
Theorem C10_undelegate_paid_once_to_recipient : forall denoms users vals, NoDup denoms -> NoDup users -> NoDup vals ->
  forall ub tr, wf_trace users tr ->
  forall r, g_und (snd (run_g denoms vals ub tr)) r =
            g_out (snd (run_g denoms vals ub tr)) r + pending (queue (fst (run_g denoms vals ub tr))) r.
Proof. exact undelegate_accounted_once. Qed.
Print Assumptions C10_undelegate_paid_once_to_recipient.

(* ... after unbonding completes: an end-block at time now removes from the queue exactly the
   entries whose completion time is <= now, pays each recipient the fee-denom sum of its removed
   entries, and changes no other balance of anybody. *)
Theorem C10_paid_when_complete_not_before : forall now q ubl mb q' ub' mb', sorted q ->
  gc true now q ubl mb = Ok (q', ub', mb') ->
  (forall e, In e q' <-> In e q /\ now < u_time e) /\
  (forall r, ub' r FEE = ubl r FEE + pending q r - pending q' r) /\
  (forall r d, d <> FEE -> ub' r d = ubl r d).
Proof. exact (end_block_pays_complete_only (fun _ _ => 0)). Qed.
Print Assumptions C10_paid_when_complete_not_before.

(* the payment happens as soon as staking has released the funds to the module account *)
Theorem C10_end_block_pays_when_funded : forall now q ubl mb,
  total (fst (gc_split now q)) <= mb BOND -> (forall e, In e q -> 0 <= u_amt e) ->
  exists r, gc true now q ubl mb = Ok r.
Proof. exact gc_succeeds. Qed.
Print Assumptions C10_end_block_pays_when_funded.

(* A delegator's cumulative claims never exceed their entitlement, up to the two 34-digit
   roundings of the implementation (multiplier increment, claimed product). *)
Theorem C10_claim_le_entitlement : forall denoms users vals, NoDup denoms -> NoDup users -> NoDup vals ->
  forall ub tr u v d, wf_trace users tr ->
  (inject_Z (g_paid (snd (run_g denoms vals ub tr)) u v d)
   <= (1 + eta) * (1 + eta) * g_ent (snd (run_g denoms vals ub tr)) u v d)%Q.
Proof. exact claim_le_entitlement. Qed.
Print Assumptions C10_claim_le_entitlement.

(* All claims together never exceed what was received; and, while the rewards received in a denom
   stay below 1/kappa, the reward saver covers what every delegator could claim now. *)
Theorem C10_claims_le_received : forall denoms users vals, NoDup denoms -> NoDup users -> NoDup vals ->
  forall ub tr v d, wf_trace users tr ->
  sumZ (fun u => g_paid (snd (run_g denoms vals ub tr)) u v d) users <= g_recv (snd (run_g denoms vals ub tr)) v d /\
  ((kappa * inject_Z (g_recv (snd (run_g denoms vals ub tr)) v d) < 1)%Q ->
   sumZ (fun u => payv (cells (fst (run_g denoms vals ub tr)) v) u d) users
   <= cS (cells (fst (run_g denoms vals ub tr)) v) d).
Proof. exact claims_le_received. Qed.
Print Assumptions C10_claims_le_received.

(* A second claim with no new rewards pays nothing: after a claim by u on v, whatever anybody
   does, as long as no end-block intervenes u is paid 0 in every denom. *)
Theorem C10_second_claim_zero : forall (denoms vals : list Z) s u v s1 tr,
  claim denoms true s u v = Ok s1 -> no_endblock tr ->
  forall d, payv (cells (exec denoms true vals s1 tr) v) u d = 0.
Proof. exact (fun denoms => second_claim_zero denoms []). Qed.
Print Assumptions C10_second_claim_zero.

(* One delegator's actions never block another's, reward side: after any history every claim by
   any delegator succeeds (so the claim inside delegate / undelegate never fails either). The
   staking side is finding 1 below. *)
Theorem C10_no_cross_blocking_claims : forall denoms users vals, NoDup denoms -> NoDup users -> NoDup vals ->
  forall ub tr u v, wf_trace users tr -> In u users ->
  (forall d, In d denoms -> (kappa * inject_Z (g_recv (snd (run_g denoms vals ub tr)) v d) < 1)%Q) ->
  exists s', claim denoms true (fst (run_g denoms vals ub tr)) u v = Ok s'.
Proof. exact claim_never_blocked. Qed.
Print Assumptions C10_no_cross_blocking_claims.

(* The bound on rewards is generous: 10^32 coins received keep kappa * received below 1. *)
Theorem C10_bound_is_generous : (kappa * inject_Z (10 ^ 32) < 1)%Q.
Proof. vm_compute. reflexivity. Qed.
Print Assumptions C10_bound_is_generous.

(* ---- what the unrepaired code does (regression witnesses; the same histories are the corpus of
   harness/c10) ---- *)

(* before the repair "checkpoint written when claiming": the same rewards are paid three times and
   the other delegator's claim fails *)
Theorem C10_checkpoint_never_written_refuted :
  let s := exec wD false wV (init ub1000) w_trace in
  cS (cells s 0) 0 = 10 /\ ubal s 1 0 = 930 /\ is_err (claim wD false s 2 0) E_INSUFFICIENT = true.
Proof. exact checkpoint_never_written_refuted. Qed.
Print Assumptions C10_checkpoint_never_written_refuted.

(* before the repair of the second-truncated completion index: the end-blocker fails in the second
   of a completion, before it *)
Theorem C10_subsecond_prefix_refuted :
  (match gc false 10100000000 w_queue ub1000 (fun _ => 0) with Err e => e =? E_INSUFFICIENT | _ => false end) = true /\
  (match gc true 10100000000 w_queue ub1000 (fun _ => 0) with Ok (q, _, _) => length q | _ => 0%nat end) = 1%nat.
Proof. exact subsecond_unfixed_refuted. Qed.
Print Assumptions C10_subsecond_prefix_refuted.

(* ---- known findings (not repaired; triggers 1 and 2 of Stake/C10Check.v) ---- *)
Theorem C10_finding_max_entries :
  let s0 := exec wD true wV (init ub1000) [(ODelegate 1 0 100 0, orc0); (ODelegate 2 0 300 0, orc0)] in
  let s := set_cell s0 0 (let c := cells s0 0 in mkCell (cT c) (csh c) (cmodsh c) (cB c) (csd c) 7 (cS c) (cM c) (cchk c)) in
  csh (cells s 0) 2 = 300 /\ is_err (undelegate wD true s (orc_ret 10) 2 0 10 FEE 2) E_MAX_ENTRIES = true.
Proof. exact max_entries_finding. Qed.
Print Assumptions C10_finding_max_entries.

Theorem C10_finding_zero_cost_undelegate :
  let s := exec wD true wV (init ub1000) [(ODelegate 1 0 3 0, orc0)] in
  let r := undelegate wD true s (orc_ret 1) 2 0 1 FEE 2 in
  csh (cells s 0) 2 = 0 /\ k_calc_share (cells s 0) 1 = Ok 0 /\
  obs r (fun s' => cT (cells s' 0)) (-1) = 3 /\ obs r (fun s' => cB (cells s' 0)) None = Some 2 /\
  obs r (fun s' => map u_amt (queue s')) [] = [1].
Proof. exact zero_cost_finding. Qed.
Print Assumptions C10_finding_zero_cost_undelegate.

(* ---- non-vacuity: a concrete history meeting every hypothesis above, on which rewards were
   received, claims were paid, an undelegation is queued and the bounds hold ---- *)
Definition nv_users : list Z := [1; 2; 3].
Definition nv_trace : list (op * oracle) :=
  [(ODelegate 1 0 100 0, orc0); (ODelegate 2 0 300 0, orc0); (OEndBlock 1000, orc_rw 40);
   (OClaim 1 0, orc0); (OUndelegate 2 0 50 0 3, mkOracle 5000 7 (fun _ => 0) (fun _ _ => 0) 0 50);
   (OEndBlock 6000, mkOracle 0 7 (fun _ => 0) (fun v d => if (v =? 0) && (d =? 0) then 7 else 0) 50 0)].

Example C10_nonvacuous :
  NoDup wD /\ NoDup nv_users /\ NoDup wV /\ wf_trace nv_users nv_trace /\
  let sg := run_g wD wV ub1000 nv_trace in
  g_recv (snd sg) 0 0 = 47 /\ g_paid (snd sg) 1 0 0 = 10 /\ g_paid (snd sg) 2 0 0 = 30 /\
  (g_ent (snd sg) 1 0 0 == 12)%Q /\ g_und (snd sg) 3 = 50 /\ g_out (snd sg) 3 = 50 /\
  ubal (fst sg) 3 0 = 1050 /\ cT (cells (fst sg) 0) = 350 /\ cB (cells (fst sg) 0) = Some 350 /\
  (kappa * inject_Z (g_recv (snd sg) 0 0) < 1)%Q /\ cT (cells (fst sg) 0) < TLIM.
Proof.
  split; [repeat (apply NoDup_cons; [cbn; intuition discriminate|]); apply NoDup_nil|].
  split; [repeat (apply NoDup_cons; [cbn; intuition discriminate|]); apply NoDup_nil|].
  split; [repeat (apply NoDup_cons; [cbn; intuition discriminate|]); apply NoDup_nil|].
  split; [repeat (apply Forall_cons; [cbn; intuition|]); apply Forall_nil|].
  cbv zeta. repeat (split; [vm_compute; reflexivity|]). vm_compute; reflexivity.
Qed.

(* the hypothesis of C10_shares_backed is inhabited by a state with a positive share supply *)
Example C10_reach_nonvacuous :
  let sg := gexec1 wD wV (init ub1000, ghost0) (ODelegate 1 0 100 0, orc0) in
  Reach wD nv_users wV ub1000 sg /\ cT (cells (fst sg) 0) = 100 /\ cB (cells (fst sg) 0) = Some 100.
Proof.
  cbv zeta. split; [|split; vm_compute; reflexivity].
  apply Reach1; [apply Reach0| left; reflexivity |]. intros v. change (0 < TLIM). vm_compute. reflexivity.
Qed.
