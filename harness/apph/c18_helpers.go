package apph

// Helper for C18: the application built the way a node builds it, with the node's minimum gas
// price configured through the app options (app.toml / --minimum-gas-prices, turned into baseapp
// options by server.DefaultBaseappOptions exactly as cmd/sunrised does), through a programmatic
// baseapp option (in-process nodes, testutil/network, tooling), through both, or not at all.

import (
	"encoding/json"
	"fmt"
	"os"
	"time"

	"cosmossdk.io/core/appmodule"
	coretesting "cosmossdk.io/core/testing"
	"cosmossdk.io/log"
	sdkmath "cosmossdk.io/math"
	banktypes "cosmossdk.io/x/bank/types"
	abci "github.com/cometbft/cometbft/abci/types"
	cmttypes "github.com/cometbft/cometbft/types"
	"github.com/cosmos/cosmos-sdk/baseapp"
	"github.com/cosmos/cosmos-sdk/client/flags"
	cryptocodec "github.com/cosmos/cosmos-sdk/crypto/codec"
	"github.com/cosmos/cosmos-sdk/crypto/keys/ed25519"
	"github.com/cosmos/cosmos-sdk/server"
	simtestutil "github.com/cosmos/cosmos-sdk/testutil/sims"
	sdk "github.com/cosmos/cosmos-sdk/types"
	"github.com/cosmos/cosmos-sdk/types/module"
	authtypes "github.com/cosmos/cosmos-sdk/x/auth/types"

	"github.com/sunriselayer/sunrise/app"
	"github.com/sunriselayer/sunrise/app/custom"
)

// NodeConfig: how the node's minimum gas price is configured.
type NodeConfig struct {
	// AppOptsMinGasPrices != nil: `minimum-gas-prices` is present in the app options, and the
	// baseapp options start with server.DefaultBaseappOptions(appOpts), as in cmd/sunrised.
	AppOptsMinGasPrices *string
	// BaseappMinGasPrices != nil: baseapp.SetMinGasPrices(..) is passed by the caller, after
	// the options derived from the app options (the later option is the one that counts).
	BaseappMinGasPrices *string
}

// NewNode builds the application with the given node configuration, runs InitChain on the
// production default genesis with funded accounts, and commits block 1.
func NewNode(o Options, nc NodeConfig) (h *H, err error) {
	defer func() {
		if r := recover(); r != nil {
			err = fmt.Errorf("panic: %v", r)
		}
	}()
	sdk.DefaultBondDenom = "uvrise"
	if o.NumAccounts == 0 {
		o.NumAccounts = 4
	}
	if o.Balances == nil {
		o.Balances = sdk.NewCoins(sdk.NewCoin("urise", sdkmath.NewInt(1_000_000_000_000)), sdk.NewCoin("uvrise", sdkmath.NewInt(1_000_000_000_000)))
	}
	if o.GenesisTime.IsZero() {
		o.GenesisTime = time.Unix(1_700_000_000, 0).UTC()
	}
	home, err := os.MkdirTemp("", "verifapp")
	if err != nil {
		return nil, err
	}
	appOpts := simtestutil.AppOptionsMap{flags.FlagHome: home}
	var bopts []func(*baseapp.BaseApp)
	if nc.AppOptsMinGasPrices != nil {
		appOpts[server.FlagMinGasPrices] = *nc.AppOptsMinGasPrices
		appOpts[flags.FlagChainID] = ChainID
		appOpts[server.FlagPruning] = "nothing"
		bopts = append(bopts, server.DefaultBaseappOptions(appOpts)...)
	}
	bopts = append(bopts, baseapp.SetChainID(ChainID))
	if nc.BaseappMinGasPrices != nil {
		bopts = append(bopts, baseapp.SetMinGasPrices(*nc.BaseappMinGasPrices))
	}
	a := app.New(log.NewNopLogger(), coretesting.NewMemDB(), nil, true, appOpts, bopts...)
	h = &H{App: a, home: home}
	pk := ed25519.GenPrivKeyFromSecret([]byte("verif-val-0")).PubKey()
	tmpk, err := cryptocodec.ToCmtPubKeyInterface(pk)
	if err != nil {
		return nil, err
	}
	vals := []*cmttypes.Validator{cmttypes.NewValidator(tmpk, 1)}
	h.Vals = vals
	var genAccs []authtypes.GenesisAccount
	var bals []banktypes.Balance
	for i := 0; i < o.NumAccounts; i++ {
		p := detPriv(i, "acct")
		addr := sdk.AccAddress(p.PubKey().Address())
		h.Accts = append(h.Accts, Acct{Priv: p, Addr: addr})
		genAccs = append(genAccs, authtypes.NewBaseAccount(addr, p.PubKey(), uint64(i), 0))
		bals = append(bals, banktypes.Balance{Address: addr.String(), Coins: o.Balances})
	}
	gs := a.DefaultGenesis()
	mm := &module.Manager{Modules: map[string]appmodule.AppModule{}}
	for k, v := range a.ModuleManager.Modules {
		mm.Modules[k] = v
	}
	custom.ReplaceCustomModules(mm, a.AppCodec())
	for _, name := range []string{"bank", "fee", "gov", "mint", "protocolpool", "staking"} {
		m, ok := mm.Modules[name].(interface{ DefaultGenesis() json.RawMessage })
		if !ok {
			return nil, fmt.Errorf("custom module without DefaultGenesis: %s", name)
		}
		gs[name] = m.DefaultGenesis()
	}
	gs, err = simtestutil.GenesisStateWithValSet(a.AppCodec(), gs, cmttypes.NewValidatorSet(vals), genAccs, bals...)
	if err != nil {
		return nil, err
	}
	stateBytes, err := json.Marshal(gs)
	if err != nil {
		return nil, err
	}
	if _, err = a.InitChain(&abci.InitChainRequest{ChainId: ChainID, Time: o.GenesisTime, Validators: []abci.ValidatorUpdate{},
		ConsensusParams: simtestutil.DefaultConsensusParams, AppStateBytes: stateBytes, InitialHeight: 1}); err != nil {
		return nil, err
	}
	h.Height, h.Time = 0, o.GenesisTime
	if _, err = h.NextBlock(time.Second); err != nil {
		return nil, err
	}
	return h, nil
}
