(* C19 — genesis export / import of the eight custom modules.

   A module's KV store is a list of fields, one per store prefix that exists in the source
   (x/<m>/types/keys.go, x/<m>/keeper/*.go; the generated Gen/Prefixes_gen.v is checked against
   the field tables below by [prefixes_modelled]).  A field holds its key/value pairs in
   ascending key order.  Keys and values are opaque integers: the harness interns the byte
   strings of one observation so that integer order = byte order of the keys.

   [export] and [init] follow each x/<m>/keeper/genesis.go: which fields are written to the
   GenesisState, and how InitGenesis writes them back (through the module's setters).
   Oracles: what a setter writes for one exported value (its own entry and the entries of the
   secondary indexes, [img]), and the encoding of a zero counter ([cdef]). *)
From Coq Require Import ZArith List Bool String.
Import ListNotations.
Local Open Scope Z_scope.

(* ------------------------------------------------------------ generated prefix entries *)
Inductive gkind := GNewPrefix | GConst.
Record gen_prefix := {
  gp_module : string; gp_name : string; gp_kind : gkind;
  gp_used : bool;              (* consumed by a collections constructor of the module *)
  gp_bytes : list Z }.

(* a size-sensitive construct (paging helper, limit, slice, bounded iteration) found by the
   translator in the call graph of a module's ExportGenesis / InitGenesis *)
Record gen_site := { gs_module : string; gs_func : string; gs_kind : string; gs_detail : string }.

(* ------------------------------------------------------------ stores *)
Definition store := list (Z * Z).          (* (key, value), ascending keys *)
Definition mstate := list store.           (* one store per field of the module *)

Fixpoint insert (k v : Z) (s : store) : store :=
  match s with
  | [] => [(k, v)]
  | (k', v') :: tl =>
    if k <? k' then (k, v) :: s
    else if k =? k' then (k, v) :: tl
    else (k', v') :: insert k v tl
  end.

(* ------------------------------------------------------------ what genesis.go does with a field *)
Inductive role :=
| RParams                 (* Item: export = Get (an error when absent), import = Set *)
| RCounter                (* Sequence: export = Peek (0 when absent), import = Set *)
| RColl                   (* collection: export = all values, import = the module's setter per value *)
| RIndexOf (primary : nat)(* secondary index of the collection at field [primary]: rebuilt by its setter *)
| RLost                   (* neither exported nor imported *)
| RDeclaredOnly.          (* prefix declared in keys.go; no store of the module uses it *)

Record fieldspec := { f_name : string; f_prefix : list Z; f_role : role }.
Record modspec := { m_name : string; m_raw : bool (* opens the raw KV store itself *); m_fields : list fieldspec }.

Definition field (s : mstate) (f : nat) : store := nth f s [].
Definition role_of (m : modspec) (f : nat) : role :=
  match nth_error (m_fields m) f with Some fs => f_role fs | None => RDeclaredOnly end.
Definition nfields (m : modspec) : nat := List.length (m_fields m).

(* oracles *)
Definition image := list (nat * (Z * Z)).                 (* field, key, value *)
Definition img_fn := nat -> Z -> image.                   (* collection field, key of the exported entry *)
Definition cdef_fn := nat -> (Z * Z).                     (* counter field -> entry written for count 0 *)

(* the writes of one setter call that land in field [f] *)
Definition put_image (f : nat) (im : image) (s : store) : store :=
  fold_left (fun acc e => if Nat.eqb (fst e) f then insert (fst (snd e)) (snd (snd e)) acc else acc) im s.
(* field [f] after InitGenesis has replayed the exported entries of collection [c] *)
Definition rebuild (img : img_fn) (c f : nat) (exported : store) : store :=
  fold_left (fun acc kv => put_image f (img c (fst kv)) acc) exported [].

(* ExportGenesis: the content of the GenesisState, field by field ([] for what it omits) *)
Definition export_field (m : modspec) (cdef : cdef_fn) (s : mstate) (f : nat) : store :=
  match role_of m f with
  | RParams => field s f
  | RCounter => match field s f with [] => [cdef f] | x => x end
  | RColl => field s f
  | _ => []
  end.
Definition params_present (m : modspec) (s : mstate) : bool :=
  forallb (fun f => match role_of m f, field s f with RParams, [] => false | _, _ => true end) (seq 0 (nfields m)).
Definition export (m : modspec) (cdef : cdef_fn) (s : mstate) : option mstate :=
  if params_present m s then Some (map (export_field m cdef s) (seq 0 (nfields m))) else None.

(* InitGenesis on an empty store *)
Definition init_field (m : modspec) (img : img_fn) (g : mstate) (f : nat) : store :=
  match role_of m f with
  | RParams => field g f
  | RCounter => field g f
  | RColl => rebuild img f f (field g f)
  | RIndexOf c => rebuild img c f (field g c)
  | RLost => []
  | RDeclaredOnly => []
  end.
Definition init (m : modspec) (img : img_fn) (g : mstate) : mstate :=
  map (init_field m img g) (seq 0 (nfields m)).

(* fields that genesis drops *)
Definition is_lost (r : role) : bool := match r with RLost => true | _ => false end.
Definition lost_fields (m : modspec) : list nat :=
  filter (fun f => is_lost (role_of m f)) (seq 0 (nfields m)).

(* ------------------------------------------------------------ the eight modules *)
Local Open Scope string_scope.
Definition b (s : string) : list Z :=
  (fix go (s : string) : list Z := match s with EmptyString => [] | String c r => Z.of_N (Ascii.N_of_ascii c) :: go r end) s.
Definition F (name pfx : string) (r : role) : fieldspec := {| f_name := name; f_prefix := b pfx; f_role := r |}.

(* x/fee/keeper/genesis.go: Params only *)
Definition fee_spec : modspec := {| m_name := "fee"; m_raw := false; m_fields := [
  F "ParamsKey" "params" RParams ] |}.

(* x/tokenconverter/keeper/genesis.go: Params only; keys.go also declares a prefix no keeper uses *)
Definition tokenconverter_spec : modspec := {| m_name := "tokenconverter"; m_raw := false; m_fields := [
  F "ParamsKey" "params/" RParams;
  F "SelfDelegationProxiesKeyPrefix" "self_delegation_proxies/" RDeclaredOnly ] |}.

(* x/swap/keeper/genesis.go: params, incoming and outgoing in-flight packets *)
Definition swap_spec : modspec := {| m_name := "swap"; m_raw := false; m_fields := [
  F "ParamsKey" "params/" RParams;
  F "IncomingInFlightPacketsKeyPrefix" "incoming_in_flight_packets/" RColl;
  F "OutgoingInFlightPacketsKeyPrefix" "outgoing_in_flight_packets/" RColl ] |}.

(* x/liquidityincentive/keeper/genesis.go: epochs, epoch count, gauges, votes, params *)
Definition liquidityincentive_spec : modspec := {| m_name := "liquidityincentive"; m_raw := false; m_fields := [
  F "ParamsKey" "params/" RParams;
  F "EpochsKeyPrefix" "epochs/" RColl;
  F "EpochIdKey" "epoch_id/" RCounter;
  F "GaugesKeyPrefix" "gauges/" RColl;
  F "VotesKeyPrefix" "votes/" RColl ] |}.

(* x/liquiditypool/keeper/genesis.go: pool count, pools, position count, positions (two
   indexes), accumulators, accumulator positions, params.  Tick infos are not there. *)
Definition liquiditypool_spec : modspec := {| m_name := "liquiditypool"; m_raw := true; m_fields := [
  F "ParamsKey" "params/" RParams;
  F "PoolsKeyPrefix" "pools/" RColl;
  F "PoolIdKey" "pool_id/" RCounter;
  F "PositionsKeyPrefix" "positions/" RColl;
  F "PositionIdKey" "position_id/" RCounter;
  F "PositionsPoolIdIndexPrefix" "positions_by_pool_id/" (RIndexOf 3);
  F "PositionsAddressIndexPrefix" "positions_by_address/" (RIndexOf 3);
  F "TickInfoKey" "tick_info/" RLost;
  F "KeyAccumPrefix" "accumulator/" RColl;
  F "KeyAccumulatorPositionPrefix" "accumulator_position/" RColl ] |}.

(* x/da/keeper/genesis.go: published data (one index), proofs, params *)
Definition da_spec : modspec := {| m_name := "da"; m_raw := false; m_fields := [
  F "ParamsKey" "params/" RParams;
  F "PublishedDataKeyPrefix" "published_data/" RColl;
  F "PublishedDataStatusTimeIndexPrefix" "published_data_by_status_time/" (RIndexOf 1);
  F "ChallengeCountsKeyPrefix" "challenge_counts/" RLost;
  F "FaultCountsKeyPrefix" "fault_counts/" RLost;
  F "ProofKeyPrefix" "proofs/" RColl;
  F "InvalidityKeyPrefix" "invalidities/" RLost;
  F "ProofDeputiesKeyPrefix" "proof_deputies/" RLost ] |}.

(* x/shareclass/keeper/genesis.go: Params only *)
Definition shareclass_spec : modspec := {| m_name := "shareclass"; m_raw := false; m_fields := [
  F "ParamsKey" "params/" RParams;
  F "UnbondingsKeyPrefix" "unbondings/" RLost;
  F "UnbondingsAddressIndexPrefix" "unbondings_by_address/" RLost;
  F "UnbondingsCompletionTimeIndexPrefix" "unbondings_by_completion_time/" RLost;
  F "UnbondingIdKey" "unbonding_id/" RLost;
  F "RewardMultiplierKeyPrefix" "reward_multiplier/" RLost;
  F "UsersLastRewardMultiplierKeyPrefix" "users_last_reward_multiplier/" RLost;
  F "LastRewardHandlingTimeKeyPrefix" "last_reward_handling_time/" RLost ] |}.

(* x/selfdelegation/keeper/genesis.go: Params only *)
Definition selfdelegation_spec : modspec := {| m_name := "selfdelegation"; m_raw := false; m_fields := [
  F "ParamsKey" "params/" RParams;
  F "LockupAccountsKeyPrefix" "lockup_accounts/" RLost;
  F "SelfDelegationProxiesKeyPrefix" "self_delegation_proxies/" RLost ] |}.

Definition all_specs : list modspec :=
  [da_spec; fee_spec; liquidityincentive_spec; liquiditypool_spec;
   selfdelegation_spec; shareclass_spec; swap_spec; tokenconverter_spec].

(* string constants of keys.go that are parts of keys, not store prefixes:
   tick keys are "tick_info/" ++ pool id ++ ("N" | "P") ++ index; accumulator names are
   "fee_pool_accumulator/<pool>" and position names "fee_position_accumulator/|<id>";
   "||" separates accumulator name and position name inside an "accumulator_position/" key *)
Definition key_components : list (string * string) := [
  ("liquiditypool", "TickNegativePrefix"); ("liquiditypool", "TickPositivePrefix");
  ("liquiditypool", "FeePositionAccumulatorPrefix"); ("liquiditypool", "KeyFeePoolAccumulatorPrefix");
  ("liquiditypool", "KeySeparator") ].

(* ------------------------------------------------------------ coverage of the generated list *)
Fixpoint zl_eqb (a c : list Z) : bool :=
  match a, c with
  | [], [] => true
  | x :: a', y :: c' => (x =? y)%Z && zl_eqb a' c'
  | _, _ => false
  end.
Fixpoint is_prefix (p l : list Z) : bool :=
  match p, l with
  | [], _ => true
  | x :: p', y :: l' => (x =? y)%Z && is_prefix p' l'
  | _ :: _, [] => false
  end.
Definition find_spec (name : string) : option modspec := find (fun m => String.eqb (m_name m) name) all_specs.
Definition declared_only (r : role) : bool := match r with RDeclaredOnly => true | _ => false end.

(* a generated entry is modelled: it is a field of its module's table (same Go name, same
   bytes, and "no store uses it" exactly for the declared-only role), or a listed key component *)
Definition entry_modelled (g : gen_prefix) : bool :=
  existsb (fun kc => String.eqb (fst kc) (gp_module g) && String.eqb (snd kc) (gp_name g)) key_components ||
  match find_spec (gp_module g) with
  | None => false
  | Some m =>
    existsb (fun fs => String.eqb (f_name fs) (gp_name g) && zl_eqb (f_prefix fs) (gp_bytes g) &&
                       match gp_kind g with
                       | GNewPrefix => Bool.eqb (gp_used g) (negb (declared_only (f_role fs)))
                       | GConst => m_raw m    (* raw prefixes exist only where the raw store is opened *)
                       end) (m_fields m)
  end.
(* ... and the tables contain nothing the source does not have *)
Definition field_in_source (gen : list gen_prefix) (m : modspec) (fs : fieldspec) : bool :=
  existsb (fun g => String.eqb (gp_module g) (m_name m) && String.eqb (gp_name g) (f_name fs) &&
                    zl_eqb (gp_bytes g) (f_prefix fs)) gen.
(* no field prefix of a module is a prefix of another one: grouping keys by prefix is unambiguous *)
Definition prefix_free (m : modspec) : bool :=
  forallb (fun i => forallb (fun j => Nat.eqb i j ||
     negb (is_prefix (f_prefix (nth i (m_fields m) (F "" "" RLost))) (f_prefix (nth j (m_fields m) (F "" "" RLost)))))
     (seq 0 (nfields m))) (seq 0 (nfields m)).
(* index fields point at collection fields *)
Definition indexes_ok (m : modspec) : bool :=
  forallb (fun f => match role_of m f with
                    | RIndexOf c => match role_of m c with RColl => true | _ => false end
                    | _ => true end) (seq 0 (nfields m)).

(* size-sensitive constructs in the genesis call graphs that have been read and found harmless
   (module, function, kind, detail).  ExportGenesis must list whole collections: anything that
   pages, limits, slices or bounds an iteration has to be justified here before the coverage
   theorem holds again. *)
Definition reviewed_genesis_sites : list (string * string * string * string) := [
  (* x/liquiditypool InitGenesis parses AccumulatorPosition.NumShares and SetAccumulatorPosition
     writes LegacyDec.String() of it back: the identity on every stored value, because the only
     writer of that field is the same String() (harness/c19/images.go replays exactly this call
     for every accumulator position of every observed state, so a value on which
     parse-then-print is not the identity is a correspondence break) *)
  ("liquiditypool", "InitGenesis", "value-rewrite", "call of math.LegacyNewDecFromStr")
]%string.
Definition site_reviewed (g : gen_site) : bool :=
  existsb (fun r => match r with (m, f, k, d) =>
     String.eqb m (gs_module g) && String.eqb f (gs_func g) && String.eqb k (gs_kind g) && String.eqb d (gs_detail g) end)
    reviewed_genesis_sites.

Definition coverage (gen : list gen_prefix) (raw_modules unknown : list string) : bool :=
  forallb entry_modelled gen &&
  forallb (fun m => forallb (field_in_source gen m) (m_fields m)) all_specs &&
  forallb (fun m => Bool.eqb (m_raw m) (existsb (String.eqb (m_name m)) raw_modules)) all_specs &&
  forallb prefix_free all_specs && forallb indexes_ok all_specs &&
  match unknown with [] => true | _ => false end.
