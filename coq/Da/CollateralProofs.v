(* Proofs for C08: the da module account and the collateral of open items. *)
From Coq Require Import ZArith List Bool Lia Permutation.
From Coq Require Import ZifyBool.
Import ListNotations.
From Sunrise Require Import Base.Outcome Base.Dec Base.DecLemmas Base.Bank Da.Da Da.DaProofs Da.Collateral.
Local Open Scope Z_scope.

(* ------------------------------------------------------------------ coin vectors *)
Definition nonneg (v : list Z) : Prop := Forall (fun x => 0 <= x) v.

Lemma vat_below v : forall d0 d, d < d0 -> vat v d0 d = 0.
Proof.
  induction v as [|x v IH]; intros d0 d H; simpl; [reflexivity|].
  rewrite IH by lia. destruct (d =? d0) eqn:E; lia.
Qed.

Lemma vat_nonneg v : nonneg v -> forall d0 d, 0 <= vat v d0 d.
Proof.
  induction 1 as [|x v Hx Hv IH]; intros d0 d; simpl; [lia|].
  specialize (IH (d0 + 1) d). destruct (d =? d0); lia.
Qed.

Lemma vat_vadd a : forall b d0 d, vat (vadd a b) d0 d = vat a d0 d + vat b d0 d.
Proof.
  induction a as [|x a IH]; intros [|y b] d0 d; simpl; try lia.
  rewrite IH. destruct (d =? d0); lia.
Qed.

Lemma nonneg_vadd a : forall b, nonneg a -> nonneg b -> nonneg (vadd a b).
Proof.
  induction a as [|x a IH]; intros [|y b] Ha Hb; simpl; auto.
  inversion Ha; inversion Hb; subst. constructor; [lia|]. apply IH; assumption.
Qed.

Lemma vat_map (f : Z -> Z) v : f 0 = 0 -> forall d0 d, vat (map f v) d0 d = f (vat v d0 d).
Proof.
  intros F0. induction v as [|x v IH]; intros d0 d; simpl; [symmetry; exact F0|].
  rewrite IH. destruct (d =? d0) eqn:E.
  - rewrite (vat_below v (d0 + 1) d) by lia. rewrite F0. replace (x + 0) with x by lia. lia.
  - reflexivity.
Qed.

Lemma all_positive_false_zero v : nonneg v -> all_positive v = false -> forall d0 d, vat v d0 d = 0.
Proof.
  induction 1 as [|x v Hx Hv IH]; intros Hp d0 d; simpl in *; [reflexivity|].
  apply orb_false_iff in Hp as [Hp1 Hp2]. rewrite IH by exact Hp2. destruct (d =? d0); lia.
Qed.

(* ------------------------------------------------------------------ bank: sends *)
Lemma sub_vec_true v : forall b a d0 b',
  sub_vec b a d0 v = (b', true) ->
  forall a' d', bal b' a' d' = bal b a' d' - (if a' =? a then vat v d0 d' else 0).
Proof.
  induction v as [|x v IH]; intros b a d0 b' H a' d'; simpl in *.
  - inversion H; subst. destruct (a' =? a); lia.
  - destruct (x =? 0) eqn:Ex.
    + rewrite (IH _ _ _ _ H). destruct (a' =? a); destruct (d' =? d0); lia.
    + destruct (bal b a d0 <? x) eqn:El; [discriminate|].
      rewrite (IH _ _ _ _ H). simpl. unfold upd2.
      destruct (a' =? a) eqn:Ea; destruct (d' =? d0) eqn:Ed; simpl; try lia.
      replace a' with a by lia. replace d' with d0 by lia. lia.
Qed.

Lemma sub_vec_sufficient v : forall b a d0,
  nonneg v -> (forall d', vat v d0 d' <= bal b a d') -> exists b', sub_vec b a d0 v = (b', true).
Proof.
  induction v as [|x v IH]; intros b a d0 Hn Hs; simpl; [eexists; reflexivity|].
  inversion Hn as [|? ? Hx Hv]; subst.
  destruct (x =? 0) eqn:Ex.
  - apply IH; [exact Hv|]. intros d'. specialize (Hs d'). simpl in Hs. destruct (d' =? d0); lia.
  - pose proof (Hs d0) as H0. simpl in H0. rewrite Z.eqb_refl in H0.
    rewrite (vat_below v (d0 + 1) d0) in H0 by lia.
    replace (bal b a d0 <? x) with false by lia.
    apply IH; [exact Hv|]. intros d'. simpl. unfold upd2. rewrite Z.eqb_refl. simpl.
    destruct (d' =? d0) eqn:Ed.
    + rewrite (vat_below v (d0 + 1) d') by lia. lia.
    + specialize (Hs d'). simpl in Hs. rewrite Ed in Hs. lia.
Qed.

Lemma add_vec_spec v : forall b a d0 a' d',
  bal (add_vec b a d0 v) a' d' = bal b a' d' + (if a' =? a then vat v d0 d' else 0).
Proof.
  induction v as [|x v IH]; intros b a d0 a' d'; simpl.
  - destruct (a' =? a); lia.
  - rewrite IH. simpl. unfold upd2.
    destruct (a' =? a) eqn:Ea; destruct (d' =? d0) eqn:Ed; simpl; try lia.
    replace a' with a by lia. replace d' with d0 by lia. lia.
Qed.

Lemma send_vec_true b from to v b' :
  send_vec b from to v = (b', true) ->
  forall a d, bal b' a d = bal b a d - (if a =? from then amt d v else 0) + (if a =? to then amt d v else 0).
Proof.
  unfold send_vec, amt. destruct (sub_vec b from 0 v) as [b1 ok] eqn:E. destruct ok; [|discriminate].
  intros H a d. inversion H; subst. rewrite add_vec_spec. rewrite (sub_vec_true _ _ _ _ _ E). lia.
Qed.

Lemma send_vec_sufficient b from to v :
  nonneg v -> (forall d, amt d v <= bal b from d) -> exists b', send_vec b from to v = (b', true).
Proof.
  intros Hn Hs. unfold send_vec. destruct (sub_vec_sufficient v b from 0 Hn Hs) as [b1 E].
  rewrite E. eexists; reflexivity.
Qed.

(* a payment out of the module account that the account can afford *)
Lemma pay_from_module b to v :
  to <> MODULE -> nonneg v -> (forall d, amt d v <= bal b MODULE d) ->
  exists b', send_vec b MODULE to v = (b', true) /\ forall d, bal b' MODULE d = bal b MODULE d - amt d v.
Proof.
  intros Hto Hn Hs. destruct (send_vec_sufficient b MODULE to v Hn Hs) as [b' E].
  exists b'. split; [exact E|]. intros d. rewrite (send_vec_true _ _ _ _ _ E).
  rewrite Z.eqb_refl. replace (MODULE =? to) with false by lia. lia.
Qed.

(* ------------------------------------------------------------------ sums *)
Lemma sumf_app {A} (h : A -> Z) l1 l2 : sumf h (l1 ++ l2) = sumf h l1 + sumf h l2.
Proof. induction l1; simpl; lia. Qed.

Lemma sumf_ext_in {A} (h1 h2 : A -> Z) l : (forall x, In x l -> h1 x = h2 x) -> sumf h1 l = sumf h2 l.
Proof.
  induction l as [|a l IH]; intros H; simpl; [reflexivity|].
  rewrite (H a (or_introl eq_refl)), IH; [reflexivity|]. intros x Hx. apply H. right; exact Hx.
Qed.

Lemma sumf_perm {A} (h : A -> Z) l1 l2 : Permutation l1 l2 -> sumf h l1 = sumf h l2.
Proof. induction 1; simpl; lia. Qed.

Lemma sumf_filter {A} (h : A -> Z) (P : A -> bool) l : sumf h (filter P l) = sumf (fun x => if P x then h x else 0) l.
Proof. induction l as [|a l IH]; simpl; [reflexivity|]. destruct (P a); simpl; lia. Qed.

Lemma sumf_flat_map {A B} (h : B -> Z) (f : A -> list B) l : sumf h (flat_map f l) = sumf (fun x => sumf h (f x)) l.
Proof. induction l as [|a l IH]; simpl; [reflexivity|]. rewrite sumf_app. lia. Qed.

Lemma sumf_nonneg {A} (h : A -> Z) l : (forall x, In x l -> 0 <= h x) -> 0 <= sumf h l.
Proof.
  induction l as [|a l IH]; intros H; simpl; [lia|].
  pose proof (H a (or_introl eq_refl)). assert (0 <= sumf h l) by (apply IH; intros x Hx; apply H; right; exact Hx). lia.
Qed.

Lemma sumf_le {A} (h1 h2 : A -> Z) l : (forall x, In x l -> h1 x <= h2 x) -> sumf h1 l <= sumf h2 l.
Proof.
  induction l as [|a l IH]; intros H; simpl; [lia|].
  pose proof (H a (or_introl eq_refl)). assert (sumf h1 l <= sumf h2 l) by (apply IH; intros x Hx; apply H; right; exact Hx). lia.
Qed.

Lemma sumf_plus {A} (h1 h2 : A -> Z) l : sumf (fun x => h1 x + h2 x) l = sumf h1 l + sumf h2 l.
Proof. induction l; simpl; lia. Qed.

Lemma sumf_minus {A} (h1 h2 : A -> Z) l : sumf (fun x => h1 x - h2 x) l = sumf h1 l - sumf h2 l.
Proof. induction l; simpl; lia. Qed.

Lemma sumf_const_mul {A} (c : Z) (l : list A) : sumf (fun _ => c) l = Z.of_nat (length l) * c.
Proof. induction l; simpl length; simpl sumf; [lia|]. rewrite IHl. lia. Qed.

Lemma ins_idx_perm x l : Permutation (ins_idx x l) (x :: l).
Proof.
  induction l as [|y l IH]; simpl; [apply Permutation_refl|].
  destruct (idx_leb x y); [apply Permutation_refl|].
  eapply perm_trans; [apply perm_skip; exact IH|apply perm_swap].
Qed.

Lemma sort_idx_perm l : Permutation (sort_idx l) l.
Proof.
  induction l as [|x l IH]; simpl; [constructor|].
  eapply perm_trans; [apply ins_idx_perm|]. apply perm_skip. exact IH.
Qed.

(* a sequence of payments out of the module account, each affordable in turn *)
Lemma fold_pay {X} (pay : bank -> X -> bank) (cost paid : X -> Z -> Z) :
  forall L b,
    (forall x, In x L -> forall d, 0 <= paid x d <= cost x d) ->
    (forall x, In x L -> forall b, (forall d, cost x d <= bal b MODULE d) ->
                                   forall d, bal (pay b x) MODULE d = bal b MODULE d - paid x d) ->
    (forall d, sumf (fun x => cost x d) L <= bal b MODULE d) ->
    forall d, bal (fold_left pay L b) MODULE d = bal b MODULE d - sumf (fun x => paid x d) L.
Proof.
  induction L as [|x L IH]; intros b Hc Hp Hs d; simpl; [lia|].
  assert (Hrest : forall d, 0 <= sumf (fun x => cost x d) L).
  { intros d0. apply sumf_nonneg. intros y Hy. pose proof (Hc y (or_intror Hy) d0). lia. }
  assert (Hx : forall d, cost x d <= bal b MODULE d).
  { intros d0. specialize (Hs d0). simpl in Hs. specialize (Hrest d0). lia. }
  pose proof (Hp x (or_introl eq_refl) b Hx) as E.
  rewrite IH.
  - rewrite E. lia.
  - intros y Hy. apply Hc. right; exact Hy.
  - intros y Hy. apply Hp. right; exact Hy.
  - intros d0. rewrite E. specialize (Hs d0). simpl in Hs. pose proof (Hc x (or_introl eq_refl) d0). lia.
Qed.

(* ------------------------------------------------------------------ well-formed states *)
Definition item_ok (x : item) : Prop := nonneg (i_pc x) /\ nonneg (i_ic x) /\ i_pub x <> MODULE.
Definition cwf (s : dstate) : Prop :=
  wf s /\ Forall item_ok (s_items s) /\ Forall (fun v => v_sender v <> MODULE) (s_invs s) /\
  nonneg (pr_pc (s_prm s)) /\ nonneg (pr_ic (s_prm s)).
(* every invalidity record belongs to an item that is still unresolved *)
Definition no_orphans (s : dstate) : Prop := orphans s = [].

Lemma no_orphans_item s v : no_orphans s -> In v (s_invs s) ->
  exists it, find_item (v_uri v) (s_items s) = Some it /\ unresolved it = true.
Proof.
  unfold no_orphans, orphans. intros H Hv.
  destruct (orphan (s_items s) v) eqn:E.
  - assert (In v (filter (orphan (s_items s)) (s_invs s))) by (apply filter_In; split; assumption).
    rewrite H in H0. destruct H0.
  - unfold orphan in E. destruct (find_item (v_uri v) (s_items s)) as [it|]; [|discriminate].
    exists it. split; [reflexivity|]. destruct (unresolved it); [reflexivity|discriminate].
Qed.

Lemma length_filter_sumf {A} (P : A -> bool) l : Z.of_nat (length (filter P l)) = sumf (fun x => if P x then 1 else 0) l.
Proof. induction l as [|a l IH]; simpl; [reflexivity|]. destruct (P a); simpl length; lia. Qed.

Lemma n_invs_sumf u invs : n_invs u invs = sumf (fun v => if v_uri v =? u then 1 else 0) invs.
Proof. unfold n_invs, invs_of. apply length_filter_sumf. Qed.

Lemma n_invs_nonneg u invs : 0 <= n_invs u invs.
Proof. unfold n_invs. lia. Qed.

Lemma n_invs_upsert_fresh u a idx invs u' :
  has_inv u a invs = false ->
  n_invs u' (upsert inv_key (Iv u a idx) invs) = n_invs u' invs + (if u =? u' then 1 else 0).
Proof.
  intros H. rewrite !n_invs_sumf.
  assert (Hf : forall y, In y invs -> key_eqb (inv_key y) (inv_key (Iv u a idx)) = false).
  { intros y Hy. unfold key_eqb, inv_key. simpl.
    unfold has_inv in H.
    destruct ((v_uri y =? u) && (v_sender y =? a)) eqn:E; [|reflexivity].
    assert (existsb (fun v => (v_uri v =? u) && (v_sender v =? a)) invs = true)
      by (apply existsb_exists; exists y; split; assumption).
    congruence. }
  rewrite (sumf_perm _ _ _ (upsert_perm_fresh inv_key (Iv u a idx) invs Hf)).
  simpl. lia.
Qed.

Lemma sumf_single (g : item -> Z) it : forall items,
  NoDup (map i_uri items) -> In it items ->
  sumf (fun x => if i_uri x =? i_uri it then g x else 0) items = g it.
Proof.
  induction items as [|a items IH]; intros Hnd Hin; [destruct Hin|].
  simpl in *. inversion Hnd as [|? ? Hn Hnd']; subst.
  destruct Hin as [e|Hin].
  - subst a. rewrite Z.eqb_refl.
    assert (sumf (fun x => if i_uri x =? i_uri it then g x else 0) items = 0).
    { rewrite (sumf_ext_in _ (fun _ => 0)); [rewrite sumf_const_mul; lia|].
      intros x Hx. destruct (i_uri x =? i_uri it) eqn:E; [|reflexivity].
      exfalso. apply Hn. apply in_map_iff. exists x. split; [lia|exact Hx]. }
    lia.
  - rewrite IH by assumption.
    destruct (i_uri a =? i_uri it) eqn:E; [|lia].
    exfalso. apply Hn. apply in_map_iff. exists it. split; [lia|exact Hin].
Qed.

Lemma nodup_uri_eq : forall (l : list item) x y,
  NoDup (map i_uri l) -> In x l -> In y l -> i_uri x = i_uri y -> x = y.
Proof.
  induction l as [|a l IH]; intros x y Hnd Hx Hy E; [destruct Hx|].
  simpl in *. inversion Hnd as [|? ? Hn Hnd']; subst.
  destruct Hx as [e1|Hx]; destruct Hy as [e2|Hy]; subst; auto.
  - exfalso. apply Hn. apply in_map_iff. exists y. split; [lia|exact Hy].
  - exfalso. apply Hn. apply in_map_iff. exists x. split; [lia|exact Hx].
Qed.

Lemma charge_module b sender v s0 s'' b'' :
  charge b sender v s0 = Ok (s'', b'') -> nonneg v -> sender <> MODULE ->
  forall d, bal b'' MODULE d = bal b MODULE d + amt d v.
Proof.
  unfold charge. intros H Hn Hs d. destruct (all_positive v) eqn:Ep.
  - destruct (send_vec b sender MODULE v) as [b1 ok] eqn:E. destruct ok; [|discriminate].
    inversion H; subst. rewrite (send_vec_true _ _ _ _ _ E). rewrite Z.eqb_refl.
    replace (MODULE =? sender) with false by lia. lia.
  - inversion H; subst. unfold amt. rewrite (all_positive_false_zero v Hn Ep). lia.
Qed.

Definition sender_of (o : op) : Z :=
  match o with
  | OPublish sender _ _ _ | OInval sender _ _ | OProof sender _ _ _ _ _ _ | OReg sender _ | OUnreg sender => sender
  | OEndBlock => 1
  end.

(* a message leaves the excess of the module account unchanged: what it takes is exactly what the
   open collateral grows by *)
Theorem msg_excess o now s b s' b' :
  cwf s -> no_orphans s -> is_msg o = true -> sender_of o <> MODULE ->
  step repaired o now s b = Ok (s', b') ->
  forall d, excess d s' b' = excess d s b.
Proof.
  intros (Hwf & Hitems & Hinvs & Hpc & Hic) Hno Hm Hsender H d. destruct Hwf as [Hnd Hpp].
  unfold excess. destruct o; simpl in *; try discriminate.
  - (* publish *)
    unfold msg_publish in H.
    destruct (n <=? parity); [discriminate|]. destruct (has_item uri (s_items s)) eqn:E2; [discriminate|].
    pose proof (charge_ok _ _ _ _ _ _ H) as Es. pose proof (charge_module _ _ _ _ _ _ H Hpc Hsender d) as Eb.
    subst s'. rewrite Eb. unfold open_coll. simpl.
    set (it := It uri ST_CP now n parity sender (pr_pc (s_prm s)) (pr_ic (s_prm s))).
    assert (Hf : forall y, In y (s_items s) -> key_eqb (item_key y) (item_key it) = false).
    { intros y Hy. pose proof (has_item_false _ _ E2 y Hy). unfold key_eqb, item_key. simpl. lia. }
    rewrite (sumf_perm _ _ _ (upsert_perm_fresh item_key it (s_items s) Hf)).
    simpl. unfold posted. simpl.
      assert (Hz : n_invs uri (s_invs s) = 0).
      { unfold n_invs, invs_of. destruct (filter (fun v => v_uri v =? uri) (s_invs s)) as [|v l] eqn:F; [reflexivity|].
        exfalso. assert (Hv : In v (filter (fun v => v_uri v =? uri) (s_invs s))) by (rewrite F; left; reflexivity).
        apply filter_In in Hv as [Hv1 Hv2].
        destruct (no_orphans_item s v Hno Hv1) as (x & Fx & _). apply find_item_some in Fx as [Fx1 Fx2].
        apply (has_item_false _ _ E2 x Fx1). lia. }
      rewrite Hz. lia.
  - (* invalidity *)
    pose proof (inval_accepted repaired sender uri idx now s b s' b' H) as (it & Fi & Hst & _ & _ & _ & Hdup).
    specialize (Hdup eq_refl).
    unfold msg_inval in H. destruct idx as [|i idx]; [discriminate|]. rewrite Fi in H.
    replace (i_status it =? ST_CP) with true in H by lia. cbn [negb] in H.
    rewrite Hdup in H. cbn [fx_dup repaired andb] in H.
    destruct (i_ts it + pr_cp (s_prm s) <? now); [discriminate|].
    destruct (fx_irange repaired && negb (forallb (idx_in_range (i_n it)) (i :: idx))); [discriminate|].
    apply find_item_some in Fi as [Hin Hu].
    pose proof (proj1 (Forall_forall _ _) Hitems it Hin) as (_ & Hicn & _).
    pose proof (charge_ok _ _ _ _ _ _ H) as Es. pose proof (charge_module _ _ _ _ _ _ H Hicn Hsender d) as Eb.
    subst s'. rewrite Eb. unfold open_coll. simpl.
    rewrite (sumf_ext_in _ (fun x => (if unresolved x then posted d (s_invs s) x else 0) +
                                    (if i_uri x =? i_uri it then amt d (i_ic x) else 0))).
    + rewrite sumf_plus. rewrite (sumf_single (fun x => amt d (i_ic x)) it _ Hnd Hin). lia.
    + intros x Hx. unfold posted. rewrite n_invs_upsert_fresh by exact Hdup.
      destruct (i_uri x =? i_uri it) eqn:E.
      * assert (x = it) by (apply (nodup_uri_eq (s_items s)); auto; lia).
        subst x. replace (uri =? i_uri it) with true by lia.
        replace (unresolved it) with true by (unfold unresolved; lia). lia.
      * replace (uri =? i_uri x) with false by lia. destruct (unresolved x); lia.
  - (* proof *)
    unfold msg_proof in H.
    destruct (negb known); [discriminate|]. destruct (negb bonded); [discriminate|].
    destruct (authorised sender val (s_deps s)); simpl in H; try discriminate.
    destruct (negb (Nat.eqb (length idx) (length orc))); [discriminate|].
    destruct (find_item uri (s_items s)); [|discriminate].
    destruct (negb (i_status i =? ST_CH)); [discriminate|].
    destruct (i_ts i + pr_pp (s_prm s) <? now); [discriminate|].
    destruct (check_proofs repaired (i_n i) idx orc); simpl in H; try discriminate.
    inversion H; subst. reflexivity.
  - unfold msg_reg in H. inversion H; subst. reflexivity.
  - unfold msg_unreg in H. destruct (lookup sender (s_deps s)); [|discriminate]. inversion H; subst. reflexivity.
Qed.

(* ------------------------------------------------------------------ the reward split *)
Lemma reward_amt_div a k : 0 <= a -> 0 < k -> reward_amt a k = Some (a / k).
Proof.
  intros Ha Hk. unfold reward_amt, dquo_int, dec_of_int, dtrunc_int.
  replace (k =? 0) with false by lia.
  assert (HP : 0 < P) by reflexivity.
  rewrite (Z.quot_div_nonneg (a * P) k) by nia.
  assert (0 <= a * P / k) by (apply Z.div_pos; nia).
  rewrite (Z.quot_div_nonneg (a * P / k) P) by lia.
  rewrite Z.div_div by lia. rewrite Z.div_mul_cancel_r by lia. reflexivity.
Qed.

Lemma reward_vec_pos pc k : nonneg pc -> 0 < k -> reward_vec repaired pc k = Some (map (fun a => a / k) pc).
Proof.
  intros Hn Hk. unfold reward_vec. cbn [fx_zero repaired andb]. replace (k =? 0) with false by lia.
  induction Hn as [|a pc Ha Hpc IH]; simpl; [reflexivity|].
  destruct (a =? 0) eqn:E.
  - rewrite IH. replace a with 0 by lia. rewrite Z.div_0_l by lia. reflexivity.
  - rewrite (reward_amt_div a k) by lia. rewrite IH. reflexivity.
Qed.

Lemma reward_of_amt d x k : nonneg (i_pc x) -> 0 <= k -> amt d (reward_of repaired x k) = share d x k.
Proof.
  intros Hn Hk. unfold reward_of, share, amt. destruct (k =? 0) eqn:E.
  - unfold reward_vec. cbn [fx_zero repaired andb]. rewrite E. rewrite (vat_map (fun _ => 0)); reflexivity.
  - rewrite reward_vec_pos by (auto; lia). rewrite (vat_map (fun a => a / k)); [reflexivity|apply Z.div_0_l; lia].
Qed.

Lemma reward_of_nonneg x k : nonneg (i_pc x) -> 0 <= k -> nonneg (reward_of repaired x k).
Proof.
  intros Hn Hk. unfold reward_of. destruct (k =? 0) eqn:E.
  - unfold reward_vec. cbn [fx_zero repaired andb]. rewrite E. apply Forall_forall. intros y Hy.
    apply in_map_iff in Hy as (z & Hz & _). lia.
  - rewrite reward_vec_pos by (auto; lia). apply Forall_forall. intros y Hy.
    apply in_map_iff in Hy as (z & Hz & Hin). pose proof (proj1 (Forall_forall _ _) Hn z Hin) as Hz0.
    cbv beta in Hz0. subst y. apply Z.div_pos; lia.
Qed.

Lemma share_bounds d x k : nonneg (i_pc x) -> 0 <= k -> 0 <= share d x k /\ k * share d x k <= amt d (i_pc x).
Proof.
  intros Hn Hk. unfold share. pose proof (vat_nonneg _ Hn 0 d) as Hp. fold (amt d (i_pc x)) in Hp.
  destruct (k =? 0) eqn:E; [lia|].
  split; [apply Z.div_pos; lia|apply Z.mul_div_le; lia].
Qed.

(* ------------------------------------------------------------------ payouts of one tallied item *)
Lemma pay_rejected_spec x vi b :
  item_ok x -> Forall (fun v => v_sender v <> MODULE) vi ->
  let k := Z.of_nat (length vi) in
  (forall d, amt d (i_pc x) + k * amt d (i_ic x) <= bal b MODULE d) ->
  forall d, bal (pay_rejected repaired b x vi) MODULE d = bal b MODULE d - k * (amt d (i_ic x) + share d x k).
Proof.
  intros (Hpc & Hic & _) Hs k Hsuf d. unfold pay_rejected. fold k.
  set (rw := reward_of repaired x k).
  assert (Hk : 0 <= k) by (unfold k; lia).
  assert (Hrw : nonneg rw) by (apply reward_of_nonneg; assumption).
  assert (Hamt : forall d, amt d (vadd (i_ic x) rw) = amt d (i_ic x) + share d x k).
  { intros d0. unfold amt. rewrite vat_vadd. fold (amt d0 rw). unfold rw. rewrite reward_of_amt by assumption. reflexivity. }
  rewrite (fold_pay (fun b v => fst (send_vec b MODULE (v_sender v) (vadd (i_ic x) rw)))
                    (fun _ d => amt d (i_ic x) + share d x k) (fun _ d => amt d (i_ic x) + share d x k)).
  - rewrite sumf_const_mul. fold k. lia.
  - intros v _ d0. pose proof (vat_nonneg _ Hic 0 d0). fold (amt d0 (i_ic x)) in *.
    pose proof (share_bounds d0 x k Hpc Hk). lia.
  - intros v Hv b0 Hb d0.
    destruct (pay_from_module b0 (v_sender v) (vadd (i_ic x) rw)) as (b' & E & Eb).
    + apply (proj1 (Forall_forall _ _) Hs v Hv).
    + apply nonneg_vadd; assumption.
    + intros d1. rewrite Hamt. apply Hb.
    + rewrite E. simpl. rewrite Eb, Hamt. reflexivity.
  - intros d0. rewrite sumf_const_mul. fold k. specialize (Hsuf d0).
    pose proof (share_bounds d0 x k Hpc Hk). lia.
Qed.

Lemma pay_verified_fold x safe : forall vi b r,
  nonneg (i_ic x) -> Forall (fun v => v_sender v <> MODULE) vi -> nonneg r ->
  (forall d, amt d r + Z.of_nat (length vi) * amt d (i_ic x) <= bal b MODULE d) ->
  forall b1 refund,
    fold_left (fun '(b, r) v =>
                 if correct v safe then (fst (send_vec b MODULE (v_sender v) (i_ic x)), r)
                 else (b, vadd r (i_ic x))) vi (b, r) = (b1, refund) ->
    nonneg refund /\
    forall d, bal b1 MODULE d - amt d refund = bal b MODULE d - amt d r - Z.of_nat (length vi) * amt d (i_ic x).
Proof.
  induction vi as [|v vi IH]; intros b r Hic Hs Hr Hsuf b1 refund H; simpl in H.
  - inversion H; subst. split; [exact Hr|]. intros d. simpl. lia.
  - inversion Hs as [|? ? Hv Hs']; subst.
    assert (Hicn : forall d, 0 <= amt d (i_ic x)) by (intros d; apply vat_nonneg; exact Hic).
    assert (Hrn : forall d, 0 <= amt d r) by (intros d; apply vat_nonneg; exact Hr).
    destruct (correct v safe).
    + destruct (pay_from_module b (v_sender v) (i_ic x) Hv Hic) as (b' & E & Eb).
      { intros d. specialize (Hsuf d). specialize (Hicn d). specialize (Hrn d). simpl length in Hsuf. nia. }
      rewrite E in H. simpl in H.
      destruct (IH b' r Hic Hs' Hr) with (b1 := b1) (refund := refund) as [A B]; [|exact H|].
      { intros d. rewrite Eb. specialize (Hsuf d). simpl length in Hsuf. lia. }
      split; [exact A|]. intros d. rewrite B, Eb. simpl length. lia.
    + destruct (IH b (vadd r (i_ic x)) Hic Hs') with (b1 := b1) (refund := refund) as [A B]; [| |exact H|].
      { apply nonneg_vadd; assumption. }
      { intros d. unfold amt. rewrite vat_vadd. fold (amt d r) (amt d (i_ic x)). specialize (Hsuf d). simpl length in Hsuf. lia. }
      split; [exact A|]. intros d. rewrite B. unfold amt. rewrite vat_vadd. simpl length. lia.
Qed.

Lemma pay_verified_spec x vi safe b :
  item_ok x -> Forall (fun v => v_sender v <> MODULE) vi ->
  let k := Z.of_nat (length vi) in
  (forall d, amt d (i_pc x) + k * amt d (i_ic x) <= bal b MODULE d) ->
  exists b', pay_verified b x vi safe = (b', true) /\
             forall d, bal b' MODULE d = bal b MODULE d - (amt d (i_pc x) + k * amt d (i_ic x)).
Proof.
  intros (Hpc & Hic & Hpub) Hs k Hsuf. unfold pay_verified.
  destruct (fold_left _ vi (b, i_pc x)) as [b1 refund] eqn:F.
  destruct (pay_verified_fold x safe vi b (i_pc x) Hic Hs Hpc Hsuf b1 refund F) as [Hrn Hb].
  destruct (pay_from_module b1 (i_pub x) refund Hpub Hrn) as (b' & E & Eb).
  { intros d. specialize (Hb d). specialize (Hsuf d). fold k in Hb. lia. }
  exists b'. split; [exact E|]. intros d. rewrite Eb. specialize (Hb d). fold k in Hb. lia.
Qed.

(* ------------------------------------------------------------------ the tally fold *)
Lemma posted_nonneg d invs x : item_ok x -> 0 <= posted d invs x.
Proof.
  intros (Hpc & Hic & _). unfold posted.
  pose proof (vat_nonneg _ Hpc 0 d). pose proof (vat_nonneg _ Hic 0 d). pose proof (n_invs_nonneg (i_uri x) invs).
  unfold amt. nia.
Qed.

Lemma dust_bounds d vd s x : item_ok x ->
  0 <= dust d vd s x <= amt d (i_pc x) /\
  (0 < n_invs (i_uri x) (s_invs s) -> dust d vd s x < n_invs (i_uri x) (s_invs s)).
Proof.
  intros (Hpc & _ & _). unfold dust.
  pose proof (n_invs_nonneg (i_uri x) (s_invs s)) as Hk. set (k := n_invs (i_uri x) (s_invs s)) in *.
  pose proof (vat_nonneg _ Hpc 0 d) as Hp. fold (amt d (i_pc x)) in Hp.
  destruct (rejected x (safe_of vd (s_prfs s) x)); [|lia].
  pose proof (share_bounds d x k Hpc Hk) as [S1 S2].
  split; [nia|]. intros Hpos. unfold share in *. replace (k =? 0) with false in * by lia.
  pose proof (Z.div_mod (amt d (i_pc x)) k ltac:(lia)). pose proof (Z.mod_pos_bound (amt d (i_pc x)) k Hpos). lia.
Qed.

Lemma pay_tally_spec vd s x b cl :
  item_ok x -> Forall (fun v => v_sender v <> MODULE) (s_invs s) ->
  (forall d, posted d (s_invs s) x <= bal b MODULE d) ->
  exists b', pay_tally repaired vd (s_invs s) (s_prfs s) (b, cl) x = (b', i_uri x :: cl) /\
             forall d, bal b' MODULE d = bal b MODULE d - (posted d (s_invs s) x - dust d vd s x).
Proof.
  intros Hok Hs Hsuf. unfold pay_tally.
  assert (Hvi : Forall (fun v => v_sender v <> MODULE) (invs_of (i_uri x) (s_invs s))).
  { apply Forall_forall. intros v Hv. apply filter_In in Hv as [Hv _]. apply (proj1 (Forall_forall _ _) Hs v Hv). }
  unfold posted, n_invs in Hsuf.
  destruct (rejected x (safe_of vd (s_prfs s) x)) eqn:R.
  - eexists. split; [reflexivity|]. intros d.
    rewrite (pay_rejected_spec x _ b Hok Hvi Hsuf). unfold posted, dust, n_invs. rewrite R. lia.
  - destruct (pay_verified_spec x _ (safe_of vd (s_prfs s) x) b Hok Hvi Hsuf) as (b' & E & Eb).
    rewrite E. exists b'. split; [reflexivity|]. intros d. rewrite Eb. unfold posted, dust, n_invs. rewrite R. lia.
Qed.

Lemma fold_tally vd s : forall L b cl,
  (forall x, In x L -> item_ok x) -> Forall (fun v => v_sender v <> MODULE) (s_invs s) ->
  (forall d, sumf (posted d (s_invs s)) L <= bal b MODULE d) ->
  exists b', fold_left (pay_tally repaired vd (s_invs s) (s_prfs s)) L (b, cl) = (b', rev (map i_uri L) ++ cl) /\
             forall d, bal b' MODULE d = bal b MODULE d - sumf (fun x => posted d (s_invs s) x - dust d vd s x) L.
Proof.
  induction L as [|x L IH]; intros b cl Hok Hs Hsuf; cbn [fold_left map rev].
  - exists b. split; [reflexivity|]. intros d. simpl. lia.
  - assert (Hrest : forall d, 0 <= sumf (posted d (s_invs s)) L).
    { intros d. apply sumf_nonneg. intros y Hy. apply posted_nonneg. apply Hok. right; exact Hy. }
    destruct (pay_tally_spec vd s x b cl (Hok x (or_introl eq_refl)) Hs) as (b1 & E & Eb).
    { intros d. specialize (Hsuf d). simpl in Hsuf. specialize (Hrest d). lia. }
    rewrite E.
    destruct (IH b1 (i_uri x :: cl)) as (b' & E' & Eb'); [intros y Hy; apply Hok; right; exact Hy|exact Hs| |].
    { intros d. rewrite Eb. specialize (Hsuf d). simpl in Hsuf.
      pose proof (dust_bounds d vd s x (Hok x (or_introl eq_refl))). lia. }
    exists b'. split.
    + rewrite E'. rewrite <- app_assoc. reflexivity.
    + intros d. rewrite Eb', Eb. simpl. lia.
Qed.

(* ------------------------------------------------------------------ which items a block end pays *)
Lemma filter_filter {A} (k1 k2 : A -> bool) l : filter k2 (filter k1 l) = filter (fun x => k1 x && k2 x) l.
Proof. induction l as [|a l IH]; simpl; [reflexivity|]. destruct (k1 a); simpl; [destruct (k2 a)|]; rewrite IH; reflexivity. Qed.

Lemma filter_map_opt_char {A} (c : A -> option A) (e : A -> A) (k P Q : A -> bool) :
  forall items items3,
    map_opt c (filter k items) = Some items3 ->
    (forall x, In x items -> k x = false -> Q x = false) ->
    (forall x y, In x items -> k x = true -> c x = Some y -> P (e y) = Q x /\ (Q x = true -> e y = x)) ->
    filter P (map e items3) = filter Q items.
Proof.
  induction items as [|a items IH]; intros items3 H Hk Hc; simpl in *.
  - inversion H. reflexivity.
  - destruct (k a) eqn:Ka.
    + simpl in H. destruct (c a) as [y|] eqn:Ca; [|discriminate].
      destruct (map_opt c (filter k items)) as [r|] eqn:M; [|discriminate]. inversion H; subst. simpl.
      destruct (Hc a y (or_introl eq_refl) Ka Ca) as [E1 E2]. rewrite E1.
      rewrite (IH r eq_refl); [|intros x Hx; apply Hk; right; exact Hx|intros x z Hx; apply Hc; right; exact Hx].
      destruct (Q a) eqn:Qa; [rewrite (E2 eq_refl)|]; reflexivity.
    + rewrite (Hk a (or_introl eq_refl) Ka).
      apply IH; [exact H|intros x Hx; apply Hk; right; exact Hx|intros x z Hx; apply Hc; right; exact Hx].
Qed.

Lemma chal_one_cases now thr invs x y :
  chal_one now thr invs x = Some y ->
  (y = x /\ (i_status x <> ST_CP \/ (i_status x = ST_CP /\ reaches thr x invs = Some false))) \/
  (y = set_status x ST_CH now /\ i_status x = ST_CP /\ reaches thr x invs = Some true).
Proof.
  unfold chal_one. destruct (i_status x =? ST_CP) eqn:E.
  - destruct (reaches thr x invs) as [[|]|]; intros H; inversion H; subst.
    + right. split; [reflexivity|]. split; [lia|reflexivity].
    + left. split; [reflexivity|]. right. split; [lia|reflexivity].
  - intros H; inversion H; subst. left. split; [reflexivity|]. left. lia.
Qed.

Lemma keep_false_terminal now s x : keep now s x = false -> i_status x = ST_VER \/ i_status x = ST_REJ.
Proof.
  unfold keep. intros H. apply andb_false_iff in H as [H|H]; apply negb_false_iff in H; apply due_status in H; auto.
Qed.

(* internals of a successful block end *)
Lemma end_block_inv vd now s b s' b' :
  end_block repaired vd now s b = Ok (s', b') ->
  exists items3 cleaned,
    map_opt (chal_one now (pr_thr (s_prm s)) (s_invs s)) (filter (keep now s) (s_items s)) = Some items3 /\
    let items4 := map (expire_one repaired (pr_cp (s_prm s)) now) items3 in
    let b4 := fold_left pay_expired (sort_idx (filter (due repaired ST_CP (pr_cp (s_prm s)) now) items3)) b in
    let dueL := sort_idx (filter (due repaired ST_CH (pr_pp (s_prm s)) now) items4) in
    fold_left (pay_tally repaired vd (s_invs s) (s_prfs s)) dueL (b4, []) = (b', cleaned) /\
    s_invs s' = filter (fun v => negb (mem (v_uri v) cleaned)) (s_invs s).
Proof.
  unfold end_block. rewrite filter_filter.
  change (fun x => negb (due repaired ST_REJ (pr_rej (s_prm s)) now x) && negb (due repaired ST_VER (pr_ver (s_prm s)) now x))
    with (keep now s).
  destruct (map_opt (chal_one now (pr_thr (s_prm s)) (s_invs s)) (filter (keep now s) (s_items s))) as [items3|] eqn:E; [|discriminate].
  match goal with |- context [existsb ?f ?l] => destruct (existsb f l) end; [discriminate|].
  match goal with |- context [fold_left ?f ?l ?a] => destruct (fold_left f l a) as [b5 cleaned] eqn:F end.
  intros H. inversion H; subst. exists items3, cleaned. split; [reflexivity|]. split; [exact F|reflexivity].
Qed.

Lemma expiring_iff s now x :
  expiring s now x = true <->
  i_status x = ST_CP /\ i_ts x + pr_cp (s_prm s) <= now /\ reaches (pr_thr (s_prm s)) x (s_invs s) = Some false.
Proof.
  unfold expiring. rewrite andb_true_iff, due_repaired_iff.
  destruct (reaches (pr_thr (s_prm s)) x (s_invs s)) as [[|]|]; split; intros H; try tauto;
    try (destruct H as [_ H]; discriminate); try (destruct H as (_ & _ & H); discriminate).
Qed.

Lemma tallied_iff s now x : tallied s now x = true <-> i_status x = ST_CH /\ i_ts x + pr_pp (s_prm s) <= now.
Proof. unfold tallied. apply due_repaired_iff. Qed.

Lemma due4_char now s items3 :
  map_opt (chal_one now (pr_thr (s_prm s)) (s_invs s)) (filter (keep now s) (s_items s)) = Some items3 ->
  filter (due repaired ST_CP (pr_cp (s_prm s)) now) items3 = filter (expiring s now) (s_items s).
Proof.
  intros H. rewrite <- (map_id items3) at 1.
  apply (filter_map_opt_char _ (fun y => y) _ _ _ _ _ H).
  - intros x _ Hk. apply keep_false_terminal in Hk.
    destruct (expiring s now x) eqn:E; [|reflexivity]. apply expiring_iff in E as (E & _).
    unfold ST_CP, ST_VER, ST_REJ in *. lia.
  - intros x y _ _ Hc. apply chal_one_cases in Hc as [[Ey [Hs|[Hs Hr]]]|(Ey & Hs & Hr)]; subst y.
    + split; [|reflexivity].
      replace (due repaired ST_CP (pr_cp (s_prm s)) now x) with false by (symmetry; apply due_repaired_false; left; exact Hs).
      unfold expiring.
      replace (due repaired ST_CP (pr_cp (s_prm s)) now x) with false by (symmetry; apply due_repaired_false; left; exact Hs).
      reflexivity.
    + split; [|reflexivity]. unfold expiring. rewrite Hr. rewrite andb_true_r. reflexivity.
    + split.
      * unfold expiring. rewrite Hr. rewrite andb_false_r. apply due_repaired_false. left. simpl. unfold ST_CH, ST_CP. lia.
      * unfold expiring. rewrite Hr. rewrite andb_false_r. discriminate.
Qed.

Lemma dueL_char now s items3 :
  0 < pr_pp (s_prm s) ->
  map_opt (chal_one now (pr_thr (s_prm s)) (s_invs s)) (filter (keep now s) (s_items s)) = Some items3 ->
  filter (due repaired ST_CH (pr_pp (s_prm s)) now) (map (expire_one repaired (pr_cp (s_prm s)) now) items3)
  = filter (tallied s now) (s_items s).
Proof.
  intros Hpp H.
  apply (filter_map_opt_char _ _ _ _ _ _ _ H).
  - intros x _ Hk. apply keep_false_terminal in Hk.
    destruct (tallied s now x) eqn:E; [|reflexivity]. apply tallied_iff in E as (E & _).
    unfold ST_CH, ST_VER, ST_REJ in *. lia.
  - intros x y _ _ Hc. unfold tallied.
    apply chal_one_cases in Hc as [[Ey [Hs|[Hs Hr]]]|(Ey & Hs & Hr)]; subst y.
    + unfold expire_one.
      replace (due repaired ST_CP (pr_cp (s_prm s)) now x) with false by (symmetry; apply due_repaired_false; left; exact Hs).
      split; reflexivity.
    + replace (due repaired ST_CH (pr_pp (s_prm s)) now x) with false
        by (symmetry; apply due_repaired_false; left; unfold ST_CP, ST_CH in *; lia).
      split; [|discriminate]. unfold expire_one.
      destruct (due repaired ST_CP (pr_cp (s_prm s)) now x); apply due_repaired_false; left; simpl;
        unfold ST_CP, ST_CH, ST_VER in *; lia.
    + replace (due repaired ST_CH (pr_pp (s_prm s)) now x) with false
        by (symmetry; apply due_repaired_false; left; unfold ST_CP, ST_CH in *; lia).
      split; [|discriminate]. unfold expire_one.
      replace (due repaired ST_CP (pr_cp (s_prm s)) now (set_status x ST_CH now)) with false
        by (symmetry; apply due_repaired_false; left; simpl; unfold ST_CP, ST_CH; lia).
      apply due_repaired_false. right. simpl. lia.
Qed.

Lemma mem_In x l : mem x l = true <-> In x l.
Proof.
  unfold mem. rewrite existsb_exists. split.
  - intros (y & Hy & E). replace x with y by lia. exact Hy.
  - intros H. exists x. split; [exact H|lia].
Qed.

Lemma n_invs_cleaned u cl invs :
  ~ In u cl -> n_invs u (filter (fun v => negb (mem (v_uri v) cl)) invs) = n_invs u invs.
Proof.
  intros Hn. rewrite !n_invs_sumf, sumf_filter. apply sumf_ext_in. intros v _.
  destruct (v_uri v =? u) eqn:E; [|destruct (negb (mem (v_uri v) cl)); reflexivity].
  replace (v_uri v) with u by lia.
  destruct (mem u cl) eqn:M; [apply mem_In in M; contradiction|reflexivity].
Qed.

(* the weight of an item in the open collateral *)
Definition weight (d : Z) (invs : list inval) (x : item) : Z := if unresolved x then posted d invs x else 0.

Lemma open_coll_weight d s : open_coll d s = sumf (weight d (s_invs s)) (s_items s).
Proof. reflexivity. Qed.

(* The exact account of a block end: the module balance and the open collateral move together
   except for the invalidity collateral of below-threshold challengers (stuck) and the division
   dust of rejected items. *)
Theorem end_block_excess vd now s b s' b' :
  cwf s -> (forall d, 0 <= excess d s b) ->
  end_block repaired vd now s b = Ok (s', b') ->
  forall d, excess d s' b' = excess d s b + stuck d s now + dust_total d vd s now.
Proof.
  intros (Hwf & Hitems & Hinvs & _ & _) Hex H d. destruct Hwf as [Hnd Hpp].
  destruct (end_block_inv vd now s b s' b' H) as (items3 & cleaned & M & F & Einvs).
  cbv zeta in F.
  rewrite (due4_char now s items3 M) in F. rewrite (dueL_char now s items3 Hpp M) in F.
  set (E4 := sort_idx (filter (expiring s now) (s_items s))) in *.
  set (DL := sort_idx (filter (tallied s now) (s_items s))) in *.
  assert (Hok : forall x, In x (s_items s) -> item_ok x) by (apply Forall_forall; exact Hitems).
  (* sums over the two sorted lists as sums over all items *)
  assert (SE : forall g : item -> Z, sumf g E4 = sumf (fun x => if expiring s now x then g x else 0) (s_items s)).
  { intros g. unfold E4. rewrite (sumf_perm _ _ _ (sort_idx_perm _)). apply sumf_filter. }
  assert (SD : forall g : item -> Z, sumf g DL = sumf (fun x => if tallied s now x then g x else 0) (s_items s)).
  { intros g. unfold DL. rewrite (sumf_perm _ _ _ (sort_idx_perm _)). apply sumf_filter. }
  assert (InE : forall x, In x E4 -> In x (s_items s) /\ expiring s now x = true).
  { intros x Hx. unfold E4 in Hx. apply (Permutation_in _ (sort_idx_perm _)) in Hx. apply filter_In in Hx. exact Hx. }
  assert (InD : forall x, In x DL <-> In x (s_items s) /\ tallied s now x = true).
  { intros x. unfold DL. split; intros Hx.
    - apply (Permutation_in _ (sort_idx_perm _)) in Hx. apply filter_In in Hx. exact Hx.
    - apply (Permutation_in _ (Permutation_sym (sort_idx_perm _))). apply filter_In. exact Hx. }
  (* the open collateral covers everything that is about to be paid *)
  assert (Hcover : forall d, sumf (fun x => if expiring s now x then posted d (s_invs s) x else 0) (s_items s)
                             + sumf (fun x => if tallied s now x then posted d (s_invs s) x else 0) (s_items s)
                             <= open_coll d s).
  { intros d0. rewrite open_coll_weight, <- sumf_plus. apply sumf_le. intros x Hx. unfold weight.
    pose proof (posted_nonneg d0 (s_invs s) x (Hok x Hx)).
    destruct (expiring s now x) eqn:Ee; destruct (tallied s now x) eqn:Et.
    - apply expiring_iff in Ee as (Ee & _). apply tallied_iff in Et as (Et & _). unfold ST_CP, ST_CH in *. lia.
    - apply expiring_iff in Ee as (Ee & _). replace (unresolved x) with true by (unfold unresolved; lia). lia.
    - apply tallied_iff in Et as (Et & _). replace (unresolved x) with true by (unfold unresolved; lia). lia.
    - destruct (unresolved x); lia. }
  assert (Hpc_le : forall d x, In x (s_items s) -> 0 <= amt d (i_pc x) <= posted d (s_invs s) x).
  { intros d0 x Hx. destruct (Hok x Hx) as (Hpc & Hic & _). unfold posted.
    pose proof (vat_nonneg _ Hpc 0 d0). pose proof (vat_nonneg _ Hic 0 d0). pose proof (n_invs_nonneg (i_uri x) (s_invs s)).
    unfold amt. nia. }
  assert (Hmb : forall d, open_coll d s <= bal b MODULE d).
  { intros d0. specialize (Hex d0). unfold excess in Hex. lia. }
  (* phase 4: unchallenged expiry refunds the publishers *)
  set (b4 := fold_left pay_expired E4 b) in *.
  assert (B4 : forall d, bal b4 MODULE d = bal b MODULE d - sumf (fun x => amt d (i_pc x)) E4).
  { unfold b4. apply (fold_pay pay_expired (fun x d => amt d (i_pc x)) (fun x d => amt d (i_pc x))).
    - intros x Hx d0. destruct (InE x Hx) as [Hx' _]. pose proof (Hpc_le d0 x Hx'). lia.
    - intros x Hx b0 Hb d0. destruct (InE x Hx) as [Hx' _]. destruct (Hok x Hx') as (Hpc & _ & Hpub).
      destruct (pay_from_module b0 (i_pub x) (i_pc x) Hpub Hpc Hb) as (b1 & E1 & Eb1).
      unfold pay_expired. rewrite E1. simpl. apply Eb1.
    - intros d0. rewrite SE. specialize (Hcover d0). specialize (Hmb d0).
      assert (sumf (fun x => if expiring s now x then amt d0 (i_pc x) else 0) (s_items s)
              <= sumf (fun x => if expiring s now x then posted d0 (s_invs s) x else 0) (s_items s)).
      { apply sumf_le. intros x Hx. pose proof (Hpc_le d0 x Hx). destruct (expiring s now x); lia. }
      assert (0 <= sumf (fun x => if tallied s now x then posted d0 (s_invs s) x else 0) (s_items s)).
      { apply sumf_nonneg. intros x Hx. pose proof (posted_nonneg d0 (s_invs s) x (Hok x Hx)). destruct (tallied s now x); lia. }
      lia. }
  (* phase 5: the tally *)
  destruct (fold_tally vd s DL b4 []) as (b5 & F5 & B5).
  { intros x Hx. apply Hok. apply InD in Hx. tauto. }
  { exact Hinvs. }
  { intros d0. rewrite B4, SE, SD. specialize (Hcover d0). specialize (Hmb d0).
    assert (sumf (fun x => if expiring s now x then amt d0 (i_pc x) else 0) (s_items s)
            <= sumf (fun x => if expiring s now x then posted d0 (s_invs s) x else 0) (s_items s)).
    { apply sumf_le. intros x Hx. pose proof (Hpc_le d0 x Hx). destruct (expiring s now x); lia. }
    lia. }
  rewrite F5 in F. inversion F; subst b' cleaned. clear F.
  (* the open collateral after the block end *)
  assert (Hclean : forall x, In x (s_items s) -> tallied s now x = false -> ~ In (i_uri x) (rev (map i_uri DL) ++ [])).
  { intros x Hx Ht Hin. rewrite app_nil_r in Hin. apply in_rev in Hin. apply in_map_iff in Hin as (x' & Eu & Hx').
    apply InD in Hx' as [Hx1 Hx2]. assert (x' = x) by (apply (nodup_uri_eq (s_items s)); auto). subst x'. congruence. }
  assert (Hopen : open_coll d s' = open_coll d s
                    - sumf (fun x => if expiring s now x then posted d (s_invs s) x else 0) (s_items s)
                    - sumf (fun x => if tallied s now x then posted d (s_invs s) x else 0) (s_items s)).
  { rewrite !open_coll_weight. destruct (end_block_items vd now s b s' b5 H) as (Ei & _). rewrite Ei.
    rewrite sumf_flat_map, <- !sumf_minus. apply sumf_ext_in. intros x Hx.
    destruct (end_block_fate vd now s b s' b5 Hpp H x Hx) as (T & C & G).
    (* weight of an image of x that keeps uri and collateral, when x is not tallied *)
    assert (Wimg : forall y, tallied s now x = false -> i_uri y = i_uri x -> i_pc y = i_pc x -> i_ic y = i_ic x ->
                             posted d (s_invs s') y = posted d (s_invs s) x).
    { intros y Ht Eu Epc Eic. unfold posted. rewrite Eu, Epc, Eic, Einvs. rewrite n_invs_cleaned by (apply Hclean; assumption). reflexivity. }
    destruct (Z.eq_dec (i_status x) ST_VER) as [e1|n1]; [|destruct (Z.eq_dec (i_status x) ST_REJ) as [e2|n2]].
    - (* verified *)
      assert (Ee : expiring s now x = false).
      { destruct (expiring s now x) eqn:Q; [|reflexivity]. apply expiring_iff in Q as (Q & _). unfold ST_CP, ST_VER in *; lia. }
      assert (Et : tallied s now x = false).
      { destruct (tallied s now x) eqn:Q; [|reflexivity]. apply tallied_iff in Q as (Q & _). unfold ST_CH, ST_VER in *; lia. }
      rewrite Ee, Et. unfold weight at 2. replace (unresolved x) with false by (unfold unresolved, ST_CP, ST_CH, ST_VER in *; lia).
      destruct (T (or_introl e1)) as [T1 T2].
      destruct (Z_le_gt_dec (i_ts x + retention_of (s_prm s) (i_status x)) now) as [l|g].
      + rewrite (T1 l). simpl. lia.
      + rewrite T2 by lia. simpl. unfold weight. replace (unresolved x) with false by (unfold unresolved, ST_CP, ST_CH, ST_VER in *; lia). lia.
    - (* rejected *)
      assert (Ee : expiring s now x = false).
      { destruct (expiring s now x) eqn:Q; [|reflexivity]. apply expiring_iff in Q as (Q & _). unfold ST_CP, ST_REJ in *; lia. }
      assert (Et : tallied s now x = false).
      { destruct (tallied s now x) eqn:Q; [|reflexivity]. apply tallied_iff in Q as (Q & _). unfold ST_CH, ST_REJ in *; lia. }
      rewrite Ee, Et. unfold weight at 2. replace (unresolved x) with false by (unfold unresolved, ST_CP, ST_CH, ST_REJ in *; lia).
      destruct (T (or_intror e2)) as [T1 T2].
      destruct (Z_le_gt_dec (i_ts x + retention_of (s_prm s) (i_status x)) now) as [l|g].
      + rewrite (T1 l). simpl. lia.
      + rewrite T2 by lia. simpl. unfold weight. replace (unresolved x) with false by (unfold unresolved, ST_CP, ST_CH, ST_REJ in *; lia). lia.
    - destruct (Z.eq_dec (i_status x) ST_CP) as [e3|n3]; [|destruct (Z.eq_dec (i_status x) ST_CH) as [e4|n4]].
      + (* challenge period *)
        assert (Et : tallied s now x = false).
        { destruct (tallied s now x) eqn:Q; [|reflexivity]. apply tallied_iff in Q as (Q & _). unfold ST_CH, ST_CP in *; lia. }
        rewrite Et. unfold weight at 2. replace (unresolved x) with true by (unfold unresolved; lia).
        destruct (C e3) as (C1 & C2 & C3).
        pose proof (end_block_no_chal_panic vd now s b s' b5 H x Hx (keep_unresolved now s x (or_introl e3))) as Hnp.
        unfold chal_one in Hnp. replace (i_status x =? ST_CP) with true in Hnp by lia.
        destruct (reaches (pr_thr (s_prm s)) x (s_invs s)) as [r|] eqn:R; [|congruence].
        pose proof (reaches_spec _ _ _ _ R) as RS.
        destruct r.
        * assert (Ee : expiring s now x = false).
          { destruct (expiring s now x) eqn:Q; [|reflexivity]. apply expiring_iff in Q as (_ & _ & Q). congruence. }
          rewrite Ee. rewrite C1 by (unfold reach_prop; apply RS; reflexivity). simpl. unfold weight.
          replace (unresolved (set_status x ST_CH now)) with true by reflexivity.
          rewrite (Wimg (set_status x ST_CH now)) by (auto; reflexivity). lia.
        * assert (Hn : ~ reach_prop (s_prm s) x (s_invs s)).
          { unfold reach_prop. intros Q. apply RS in Q. discriminate. }
          destruct (Z_le_gt_dec (i_ts x + pr_cp (s_prm s)) now) as [l|g].
          -- assert (Ee : expiring s now x = true) by (apply expiring_iff; auto).
             rewrite Ee. rewrite (C2 Hn l). simpl. unfold weight.
             replace (unresolved (set_status x ST_VER now)) with false by reflexivity. lia.
          -- assert (Ee : expiring s now x = false).
             { destruct (expiring s now x) eqn:Q; [|reflexivity]. apply expiring_iff in Q as (_ & Q & _). lia. }
             rewrite Ee. rewrite C3 by (auto; lia). simpl. unfold weight.
             replace (unresolved x) with true by (unfold unresolved; lia).
             rewrite (Wimg x) by auto. lia.
      + (* challenging *)
        assert (Ee : expiring s now x = false).
        { destruct (expiring s now x) eqn:Q; [|reflexivity]. apply expiring_iff in Q as (Q & _). unfold ST_CH, ST_CP in *; lia. }
        rewrite Ee. unfold weight at 2. replace (unresolved x) with true by (unfold unresolved; lia).
        destruct (G e4) as [G1 G2].
        destruct (Z_le_gt_dec (i_ts x + pr_pp (s_prm s)) now) as [l|g].
        * assert (Et : tallied s now x = true) by (apply tallied_iff; auto).
          rewrite Et. rewrite (G1 l). simpl. unfold weight.
          replace (unresolved (set_status x (verdict_status vd s x) now)) with false.
          { lia. }
          unfold verdict_status, unresolved. destruct (rejected x (safe_of vd (s_prfs s) x)); reflexivity.
        * assert (Et : tallied s now x = false).
          { destruct (tallied s now x) eqn:Q; [|reflexivity]. apply tallied_iff in Q as (_ & Q). lia. }
          rewrite Et. rewrite G2 by lia. simpl. unfold weight.
          replace (unresolved x) with true by (unfold unresolved; lia).
          rewrite (Wimg x) by auto. lia.
      + (* not a status of the protocol: untouched and weightless *)
        assert (Ee : expiring s now x = false).
        { destruct (expiring s now x) eqn:Q; [|reflexivity]. apply expiring_iff in Q as (Q & _). lia. }
        assert (Et : tallied s now x = false).
        { destruct (tallied s now x) eqn:Q; [|reflexivity]. apply tallied_iff in Q as (Q & _). lia. }
        rewrite Ee, Et. rewrite (fate_other vd now s x n1 n2 n3 n4). simpl. unfold weight.
        replace (unresolved x) with false by (unfold unresolved; lia). lia. }
  unfold excess. rewrite Hopen, B5, B4, SE, SD. unfold stuck, dust_total.
  assert (Hs1 : sumf (fun x => if expiring s now x then n_invs (i_uri x) (s_invs s) * amt d (i_ic x) else 0) (s_items s)
                = sumf (fun x => if expiring s now x then posted d (s_invs s) x else 0) (s_items s)
                  - sumf (fun x => if expiring s now x then amt d (i_pc x) else 0) (s_items s)).
  { rewrite <- sumf_minus. apply sumf_ext_in. intros x _. unfold posted. destruct (expiring s now x); lia. }
  assert (Hs2 : sumf (fun x => if tallied s now x then dust d vd s x else 0) (s_items s)
                = sumf (fun x => if tallied s now x then posted d (s_invs s) x else 0) (s_items s)
                  - sumf (fun x => if tallied s now x then posted d (s_invs s) x - dust d vd s x else 0) (s_items s)).
  { rewrite <- sumf_minus. apply sumf_ext_in. intros x _. destruct (tallied s now x); lia. }
  rewrite Hs1, Hs2. lia.
Qed.

(* ------------------------------------------------------------------ bounds: stuck and dust *)
Lemma stuck_zero_off_trigger d s now : trig_stuck_challengers s now = false -> stuck d s now = 0.
Proof.
  intros Ht. unfold stuck. rewrite (sumf_ext_in _ (fun _ => 0)); [rewrite sumf_const_mul; lia|].
  intros x Hx. destruct (expiring s now x) eqn:E; [|reflexivity].
  apply expiring_iff in E as (E1 & E2 & E3).
  unfold trig_stuck_challengers in Ht.
  destruct (n_invs (i_uri x) (s_invs s) =? 0) eqn:K; [replace (n_invs (i_uri x) (s_invs s)) with 0 by lia; lia|].
  exfalso.
  assert (existsb (fun it => (i_status it =? ST_CP) && negb (now <? i_ts it + pr_cp (s_prm s)) &&
             match reaches (pr_thr (s_prm s)) it (s_invs s) with Some true => false | _ => true end &&
             negb (n_invs (i_uri it) (s_invs s) =? 0)) (s_items s) = true).
  { apply existsb_exists. exists x. split; [exact Hx|]. rewrite E3, K.
    replace (i_status x =? ST_CP) with true by lia. replace (now <? i_ts x + pr_cp (s_prm s)) with false by lia. reflexivity. }
  congruence.
Qed.

(* the most dust the rule allows: one less than the number of challengers per rejected item *)
Definition dust_cap (vd : verdict) (s : dstate) (now : Z) : Z :=
  sumf (fun x => if tallied s now x && rejected x (safe_of vd (s_prfs s) x)
                 then Z.max 0 (n_invs (i_uri x) (s_invs s) - 1) else 0) (s_items s).

Lemma dust_total_bounds d vd s now :
  Forall item_ok (s_items s) -> trig_reject_no_challenger vd s now = false ->
  0 <= dust_total d vd s now <= dust_cap vd s now.
Proof.
  intros Hok Ht. unfold dust_total, dust_cap. split.
  - apply sumf_nonneg. intros x Hx. pose proof (dust_bounds d vd s x (proj1 (Forall_forall _ _) Hok x Hx)).
    destruct (tallied s now x); lia.
  - apply sumf_le. intros x Hx. pose proof (proj1 (Forall_forall _ _) Hok x Hx) as Hx_ok.
    pose proof (dust_bounds d vd s x Hx_ok) as [B1 B2].
    destruct (tallied s now x) eqn:T; [|simpl; lia]. simpl.
    destruct (rejected x (safe_of vd (s_prfs s) x)) eqn:R; [|unfold dust; rewrite R; lia].
    pose proof (n_invs_nonneg (i_uri x) (s_invs s)) as Hk.
    destruct (Z.eq_dec (n_invs (i_uri x) (s_invs s)) 0) as [k0|kp]; [|specialize (B2 ltac:(lia)); lia].
    (* no challenger at all: only off the second trigger, i.e. with no publish collateral *)
    assert (Hz : all_positive (i_pc x) = false).
    { destruct (all_positive (i_pc x)) eqn:A; [|reflexivity]. exfalso.
      apply tallied_iff in T as (T1 & T2). unfold trig_reject_no_challenger in Ht.
      assert (existsb (fun it => (i_status it =? ST_CH) && negb (now <? i_ts it + pr_pp (s_prm s)) &&
                 (n_invs (i_uri it) (s_invs s) =? 0) && all_positive (i_pc it) &&
                 rejected it (safe_of vd (s_prfs s) it)) (s_items s) = true).
      { apply existsb_exists. exists x. split; [exact Hx|]. rewrite A, R, k0.
        replace (i_status x =? ST_CH) with true by lia. replace (now <? i_ts x + pr_pp (s_prm s)) with false by lia. reflexivity. }
      congruence. }
    destruct Hx_ok as (Hpc & _ & _).
    pose proof (all_positive_false_zero _ Hpc Hz 0 d) as Hamt. fold (amt d (i_pc x)) in Hamt. lia.
Qed.

(* the property, for one block end: off the two recorded findings the module account keeps holding
   the open collateral; only division dust, less than the number of challengers of each rejected
   item, is added to what it holds beyond *)
Theorem end_block_excess_bounded vd now s b s' b' :
  cwf s -> (forall d, 0 <= excess d s b) ->
  trig_stuck_challengers s now = false -> trig_reject_no_challenger vd s now = false ->
  end_block repaired vd now s b = Ok (s', b') ->
  forall d, exists dust, excess d s' b' = excess d s b + dust /\ 0 <= dust <= dust_cap vd s now.
Proof.
  intros Hc Hex T1 T2 H d. exists (dust_total d vd s now).
  rewrite (end_block_excess vd now s b s' b' Hc Hex H d). rewrite (stuck_zero_off_trigger d s now T1).
  split; [lia|]. apply dust_total_bounds; [|exact T2]. destruct Hc as (_ & Hi & _). exact Hi.
Qed.

(* ------------------------------------------------------------------ invariants along histories *)
Lemma find_item_nodup : forall (l : list item) y, NoDup (map i_uri l) -> In y l -> find_item (i_uri y) l = Some y.
Proof.
  induction l as [|a l IH]; intros y Hnd Hy; [destruct Hy|].
  unfold find_item. simpl in *. inversion Hnd as [|? ? Hn Hnd']; subst.
  destruct Hy as [e|Hy].
  - subst a. rewrite Z.eqb_refl. reflexivity.
  - destruct (i_uri a =? i_uri y) eqn:E.
    + exfalso. apply Hn. apply in_map_iff. exists y. split; [lia|exact Hy].
    + apply IH; assumption.
Qed.

Lemma cwf_end_block vd now s b s' b' : cwf s -> end_block repaired vd now s b = Ok (s', b') -> cwf s'.
Proof.
  intros (Hwf & Hitems & Hinvs & Hpc & Hic) H.
  destruct (end_block_items vd now s b s' b' H) as (Ei & Ep & _).
  destruct (end_block_inv vd now s b s' b' H) as (_ & cleaned & _ & _ & Einvs).
  split; [eapply end_block_wf; eauto|]. split; [|split; [|rewrite Ep; split; assumption]].
  - apply Forall_forall. intros y Hy. rewrite Ei in Hy. apply in_flat_map in Hy as (x & Hx & Hf).
    pose proof (proj1 (Forall_forall _ _) Hitems x Hx) as (A & B & C).
    destruct (fate_uri vd now s x y Hf) as (_ & _ & _ & E1 & E2 & E3). unfold item_ok. rewrite E1, E2, E3. auto.
  - rewrite Einvs. apply Forall_forall. intros v Hv. apply filter_In in Hv as [Hv _].
    apply (proj1 (Forall_forall _ _) Hinvs v Hv).
Qed.

Lemma no_orphans_end_block vd now s b s' b' :
  cwf s -> (forall d, 0 <= excess d s b) -> no_orphans s -> trig_stuck_challengers s now = false ->
  end_block repaired vd now s b = Ok (s', b') -> no_orphans s'.
Proof.
  intros Hc Hex Hno T1 H.
  pose proof (cwf_end_block vd now s b s' b' Hc H) as ((Hnd' & _) & _).
  destruct Hc as (Hwf & Hitems & Hinvs & _ & _). destruct Hwf as [Hnd Hpp].
  destruct (end_block_inv vd now s b s' b' H) as (items3 & cleaned & M & F & Einvs). cbv zeta in F.
  rewrite (due4_char now s items3 M) in F. rewrite (dueL_char now s items3 Hpp M) in F.
  (* the cleaned uris are exactly those of the tallied items *)
  assert (Hcl : forall x, In x (s_items s) -> tallied s now x = true -> In (i_uri x) cleaned).
  { set (E4 := sort_idx (filter (expiring s now) (s_items s))) in *.
    set (DL := sort_idx (filter (tallied s now) (s_items s))) in *.
    set (b4 := fold_left pay_expired E4 b) in *.
    assert (Hok : forall x, In x (s_items s) -> item_ok x) by (apply Forall_forall; exact Hitems).
    (* re-run the affordability argument of end_block_excess to know that no send failed *)
    destruct (fold_tally vd s DL b4 []) as (b5 & F5 & _).
    { intros x Hx. apply Hok. unfold DL in Hx. apply (Permutation_in _ (sort_idx_perm _)) in Hx. apply filter_In in Hx. tauto. }
    { exact Hinvs. }
    { intros d.
      assert (SE : forall g : item -> Z, sumf g E4 = sumf (fun x => if expiring s now x then g x else 0) (s_items s)).
      { intros g. unfold E4. rewrite (sumf_perm _ _ _ (sort_idx_perm _)). apply sumf_filter. }
      assert (SD : forall g : item -> Z, sumf g DL = sumf (fun x => if tallied s now x then g x else 0) (s_items s)).
      { intros g. unfold DL. rewrite (sumf_perm _ _ _ (sort_idx_perm _)). apply sumf_filter. }
      assert (Hpc_le : forall x, In x (s_items s) -> 0 <= amt d (i_pc x) <= posted d (s_invs s) x).
      { intros x Hx. destruct (Hok x Hx) as (Hpc & Hic & _). unfold posted.
        pose proof (vat_nonneg _ Hpc 0 d). pose proof (vat_nonneg _ Hic 0 d). pose proof (n_invs_nonneg (i_uri x) (s_invs s)).
        unfold amt. nia. }
      assert (Hcover : sumf (fun x => if expiring s now x then posted d (s_invs s) x else 0) (s_items s)
                       + sumf (fun x => if tallied s now x then posted d (s_invs s) x else 0) (s_items s)
                       <= open_coll d s).
      { rewrite open_coll_weight, <- sumf_plus. apply sumf_le. intros x Hx. unfold weight.
        pose proof (posted_nonneg d (s_invs s) x (Hok x Hx)).
        destruct (expiring s now x) eqn:Ee; destruct (tallied s now x) eqn:Et.
        - apply expiring_iff in Ee as (Ee & _). apply tallied_iff in Et as (Et & _). unfold ST_CP, ST_CH in *. lia.
        - apply expiring_iff in Ee as (Ee & _). replace (unresolved x) with true by (unfold unresolved; lia). lia.
        - apply tallied_iff in Et as (Et & _). replace (unresolved x) with true by (unfold unresolved; lia). lia.
        - destruct (unresolved x); lia. }
      assert (B4 : bal b4 MODULE d = bal b MODULE d - sumf (fun x => amt d (i_pc x)) E4).
      { unfold b4. apply (fold_pay pay_expired (fun x d => amt d (i_pc x)) (fun x d => amt d (i_pc x))).
        - intros x Hx d0. unfold E4 in Hx. apply (Permutation_in _ (sort_idx_perm _)) in Hx. apply filter_In in Hx as [Hx _].
          destruct (Hok x Hx) as (Hpc & _ & _). pose proof (vat_nonneg _ Hpc 0 d0). unfold amt. lia.
        - intros x Hx b0 Hb d0. unfold E4 in Hx. apply (Permutation_in _ (sort_idx_perm _)) in Hx. apply filter_In in Hx as [Hx _].
          destruct (Hok x Hx) as (Hpc & _ & Hpub).
          destruct (pay_from_module b0 (i_pub x) (i_pc x) Hpub Hpc Hb) as (b1 & E1 & Eb1).
          unfold pay_expired. rewrite E1. simpl. apply Eb1.
        - intros d0. rewrite SE.
          assert (Hmb0 : open_coll d0 s <= bal b MODULE d0) by (specialize (Hex d0); unfold excess in Hex; lia).
          assert (sumf (fun x => if expiring s now x then amt d0 (i_pc x) else 0) (s_items s) <= open_coll d0 s).
          { rewrite open_coll_weight. apply sumf_le. intros x Hx. unfold weight.
            destruct (Hok x Hx) as (Hpc & Hic & _).
            pose proof (vat_nonneg _ Hpc 0 d0). pose proof (vat_nonneg _ Hic 0 d0). pose proof (n_invs_nonneg (i_uri x) (s_invs s)).
            destruct (expiring s now x) eqn:Ee.
            - apply expiring_iff in Ee as (Ee & _). replace (unresolved x) with true by (unfold unresolved; lia).
              unfold posted, amt. nia.
            - destruct (unresolved x); [unfold posted, amt; nia|lia]. }
          lia. }
      rewrite B4, SE, SD.
      assert (Hmb : open_coll d s <= bal b MODULE d) by (specialize (Hex d); unfold excess in Hex; lia).
      assert (sumf (fun x => if expiring s now x then amt d (i_pc x) else 0) (s_items s)
              <= sumf (fun x => if expiring s now x then posted d (s_invs s) x else 0) (s_items s)).
      { apply sumf_le. intros x Hx. pose proof (Hpc_le x Hx). destruct (expiring s now x); lia. }
      lia. }
    rewrite F5 in F. inversion F; subst.
    intros x Hx Ht. rewrite app_nil_r. apply in_rev. rewrite rev_involutive. apply in_map.
    unfold DL. apply (Permutation_in _ (Permutation_sym (sort_idx_perm _))). apply filter_In. split; assumption. }
  (* every surviving record still has an unresolved item *)
  unfold no_orphans, orphans.
  destruct (filter (orphan (s_items s')) (s_invs s')) as [|v l] eqn:Fv; [reflexivity|]. exfalso.
  assert (Hv : In v (filter (orphan (s_items s')) (s_invs s'))) by (rewrite Fv; left; reflexivity).
  apply filter_In in Hv as [Hv Ho]. rewrite Einvs in Hv. apply filter_In in Hv as [Hv Hm].
  destruct (no_orphans_item s v Hno Hv) as (x & Fx & Ux). apply find_item_some in Fx as [Hx Eu].
  assert (Ht : tallied s now x = false).
  { destruct (tallied s now x) eqn:T; [|reflexivity]. exfalso.
    pose proof (Hcl x Hx T) as Hin. rewrite Eu in Hin. apply mem_In in Hin. rewrite Hin in Hm. discriminate. }
  assert (He : expiring s now x = false).
  { destruct (expiring s now x) eqn:E; [|reflexivity]. exfalso.
    pose proof (stuck_zero_off_trigger 0 s now T1) as _.
    apply expiring_iff in E as (E1 & E2 & E3). unfold trig_stuck_challengers in T1.
    assert (existsb (fun it => (i_status it =? ST_CP) && negb (now <? i_ts it + pr_cp (s_prm s)) &&
               match reaches (pr_thr (s_prm s)) it (s_invs s) with Some true => false | _ => true end &&
               negb (n_invs (i_uri it) (s_invs s) =? 0)) (s_items s) = true); [|congruence].
    apply existsb_exists. exists x. split; [exact Hx|]. rewrite E3.
    replace (i_status x =? ST_CP) with true by lia. replace (now <? i_ts x + pr_cp (s_prm s)) with false by lia.
    simpl. apply negb_true_iff. apply Z.eqb_neq. unfold n_invs, invs_of.
    assert (In v (filter (fun v0 => v_uri v0 =? i_uri x) (s_invs s))) by (apply filter_In; split; [exact Hv|lia]).
    destruct (filter (fun v0 => v_uri v0 =? i_uri x) (s_invs s)); [destruct H0|simpl; lia]. }
  (* x stays unresolved *)
  destruct (end_block_fate vd now s b s' b' Hpp H x Hx) as (_ & C & G).
  assert (Hy : exists y, In y (fate vd now s x) /\ unresolved y = true /\ i_uri y = i_uri x).
  { unfold unresolved in Ux. apply orb_true_iff in Ux as [U|U].
    - assert (e3 : i_status x = ST_CP) by lia. destruct (C e3) as (C1 & C2 & C3).
      pose proof (end_block_no_chal_panic vd now s b s' b' H x Hx (keep_unresolved now s x (or_introl e3))) as Hnp.
      unfold chal_one in Hnp. replace (i_status x =? ST_CP) with true in Hnp by lia.
      destruct (reaches (pr_thr (s_prm s)) x (s_invs s)) as [r|] eqn:R; [|congruence].
      pose proof (reaches_spec _ _ _ _ R) as RS. destruct r.
      + exists (set_status x ST_CH now). rewrite C1 by (unfold reach_prop; apply RS; reflexivity).
        split; [left; reflexivity|]. split; reflexivity.
      + assert (Hn : ~ reach_prop (s_prm s) x (s_invs s)) by (unfold reach_prop; intros Q; apply RS in Q; discriminate).
        assert (now < i_ts x + pr_cp (s_prm s)).
        { destruct (Z_le_gt_dec (i_ts x + pr_cp (s_prm s)) now) as [le1|g]; [|lia]. exfalso.
          assert (expiring s now x = true) by (apply expiring_iff; auto). congruence. }
        exists x. rewrite C3 by auto. split; [left; reflexivity|]. split; [unfold unresolved; lia|reflexivity].
    - assert (e4 : i_status x = ST_CH) by lia. destruct (G e4) as [G1 G2].
      assert (now < i_ts x + pr_pp (s_prm s)).
      { destruct (Z_le_gt_dec (i_ts x + pr_pp (s_prm s)) now) as [le1|g]; [|lia]. exfalso.
        assert (tallied s now x = true) by (apply tallied_iff; auto). congruence. }
      exists x. rewrite G2 by auto. split; [left; reflexivity|]. split; [unfold unresolved; lia|reflexivity]. }
  destruct Hy as (y & Hyf & Uy & Euy).
  assert (Hyin : In y (s_items s')) by (apply (end_block_in vd now s b s' b' H); exists x; split; assumption).
  unfold orphan in Ho. rewrite <- Eu, <- Euy in Ho. rewrite (find_item_nodup _ y Hnd' Hyin) in Ho.
  rewrite Uy in Ho. discriminate.
Qed.

(* ------------------------------------------------------------------ messages keep the invariants *)
Lemma upsert_in_sub {A} (kf : A -> key) (x : A) : forall l z, In z (upsert kf x l) -> z = x \/ In z l.
Proof.
  induction l as [|y l IH]; intros z H; simpl in *.
  - destruct H as [H|[]]; left; congruence.
  - destruct (key_eqb (kf y) (kf x)).
    + destruct H as [H|H]; [left; congruence|right; right; exact H].
    + destruct (key_ltb (kf x) (kf y)).
      * destruct H as [H|H]; [left; congruence|right; exact H].
      * destruct H as [H|H]; [right; left; exact H|]. destruct (IH z H); [left|right; right]; assumption.
Qed.

Lemma upsert_in_new {A} (kf : A -> key) (x : A) : forall l, In x (upsert kf x l).
Proof.
  induction l as [|y l IH]; simpl; [left; reflexivity|].
  destruct (key_eqb (kf y) (kf x)); [left; reflexivity|].
  destruct (key_ltb (kf x) (kf y)); [left; reflexivity|right; exact IH].
Qed.

Lemma upsert_in_old_fresh {A} (kf : A -> key) (x : A) : forall l,
  (forall y, In y l -> key_eqb (kf y) (kf x) = false) -> forall z, In z l -> In z (upsert kf x l).
Proof. intros l Hf z Hz. apply upsert_in_fresh; [exact Hf|right; exact Hz]. Qed.

(* what a successful message does to the invalidity records *)
Lemma msg_invs o now s b s' b' :
  is_msg o = true -> step repaired o now s b = Ok (s', b') ->
  s_invs s' = s_invs s \/
  exists sender uri idx it,
    o = OInval sender uri idx /\ s_invs s' = upsert inv_key (Iv uri sender idx) (s_invs s) /\
    find_item uri (s_items s) = Some it /\ i_status it = ST_CP /\ has_inv uri sender (s_invs s) = false.
Proof.
  intros Hm H. destruct o; try discriminate.
  - simpl in H. unfold msg_publish in H.
    destruct (n <=? parity); [discriminate|]. destruct (has_item uri (s_items s)); [discriminate|].
    apply charge_ok in H. subst s'. left; reflexivity.
  - right. pose proof (inval_accepted repaired sender uri idx now s b s' b' H) as (it & Fi & Hst & _ & _ & _ & Hdup).
    specialize (Hdup eq_refl). exists sender, uri, idx, it. split; [reflexivity|].
    simpl in H. unfold msg_inval in H. destruct idx as [|i idx]; [discriminate|]. rewrite Fi in H.
    replace (i_status it =? ST_CP) with true in H by lia. cbn [negb] in H.
    rewrite Hdup in H. cbn [fx_dup repaired andb] in H.
    destruct (i_ts it + pr_cp (s_prm s) <? now); [discriminate|].
    destruct (fx_irange repaired && negb (forallb (idx_in_range (i_n it)) (i :: idx))); [discriminate|].
    apply charge_ok in H. subst s'. simpl. auto.
  - simpl in H. unfold msg_proof in H.
    destruct (negb known); [discriminate|]. destruct (negb bonded); [discriminate|].
    destruct (authorised sender val (s_deps s)); simpl in H; try discriminate.
    destruct (negb (Nat.eqb (length idx) (length orc))); [discriminate|].
    destruct (find_item uri (s_items s)); [|discriminate].
    destruct (negb (i_status i =? ST_CH)); [discriminate|].
    destruct (i_ts i + pr_pp (s_prm s) <? now); [discriminate|].
    destruct (check_proofs repaired (i_n i) idx orc); simpl in H; try discriminate.
    inversion H; subst. left; reflexivity.
  - simpl in H. unfold msg_reg in H. inversion H; subst. left; reflexivity.
  - simpl in H. unfold msg_unreg in H. destruct (lookup sender (s_deps s)); [|discriminate]. inversion H; subst. left; reflexivity.
Qed.

Lemma cwf_msg o now s b s' b' :
  cwf s -> is_msg o = true -> sender_of o <> MODULE -> step repaired o now s b = Ok (s', b') -> cwf s'.
Proof.
  intros (Hwf & Hitems & Hinvs & Hpc & Hic) Hm Hsd H.
  pose proof (msg_wf o now s b s' b' Hm Hwf H) as Hwf'.
  pose proof (msg_items repaired o now s b s' b' Hm H) as [Ep Hi].
  pose proof (msg_invs o now s b s' b' Hm H) as Hv.
  split; [exact Hwf'|]. split; [|split; [|rewrite Ep; split; assumption]].
  - destruct Hi as [E|(sender & uri & n & parity & Eo & _ & _ & Hz)]; [rewrite E; exact Hitems|].
    apply Forall_forall. intros z Hzin. apply Hz in Hzin as [e|Hzin].
    + subst z o. simpl in Hsd. unfold item_ok, fresh_item. simpl. auto.
    + apply (proj1 (Forall_forall _ _) Hitems z Hzin).
  - destruct Hv as [E|(sender & uri & idx & it & Eo & E & _)]; [rewrite E; exact Hinvs|].
    rewrite E. apply Forall_forall. intros z Hz. apply upsert_in_sub in Hz as [e|Hz].
    + subst z o. simpl in *. exact Hsd.
    + apply (proj1 (Forall_forall _ _) Hinvs z Hz).
Qed.

Lemma no_orphans_msg o now s b s' b' :
  cwf s -> no_orphans s -> is_msg o = true -> step repaired o now s b = Ok (s', b') -> no_orphans s'.
Proof.
  intros (Hwf & _) Hno Hm H.
  pose proof (msg_wf o now s b s' b' Hm Hwf H) as [Hnd' _].
  pose proof (msg_items repaired o now s b s' b' Hm H) as [_ Hi].
  pose proof (msg_invs o now s b s' b' Hm H) as Hv.
  (* every old item is still there *)
  assert (Hold : forall x, In x (s_items s) -> In x (s_items s')).
  { intros x Hx. destruct Hi as [E|(sender & uri & n & parity & _ & _ & _ & Hz)]; [rewrite E; exact Hx|].
    apply Hz. right; exact Hx. }
  assert (Hrec : forall v, In v (s_invs s') ->
                  exists x, In x (s_items s) /\ i_uri x = v_uri v /\ unresolved x = true).
  { intros v Hvin. destruct Hv as [E|(sender & uri & idx & it & _ & E & Fi & Hst & _)].
    - rewrite E in Hvin. destruct (no_orphans_item s v Hno Hvin) as (x & Fx & Ux).
      apply find_item_some in Fx as [Hx Eu]. exists x. auto.
    - rewrite E in Hvin. apply upsert_in_sub in Hvin as [e|Hvin].
      + subst v. simpl. apply find_item_some in Fi as [Hx Eu]. exists it.
        split; [exact Hx|]. split; [exact Eu|]. unfold unresolved. lia.
      + destruct (no_orphans_item s v Hno Hvin) as (x & Fx & Ux).
        apply find_item_some in Fx as [Hx Eu]. exists x. auto. }
  unfold no_orphans, orphans.
  destruct (filter (orphan (s_items s')) (s_invs s')) as [|v l] eqn:Fv; [reflexivity|]. exfalso.
  assert (Hvin : In v (filter (orphan (s_items s')) (s_invs s'))) by (rewrite Fv; left; reflexivity).
  apply filter_In in Hvin as [Hvin Ho].
  destruct (Hrec v Hvin) as (x & Hx & Eu & Ux).
  unfold orphan in Ho. rewrite <- Eu in Ho. rewrite (find_item_nodup _ x Hnd' (Hold x Hx)) in Ho.
  rewrite Ux in Ho. discriminate.
Qed.

(* ------------------------------------------------------------------ histories *)
Definition cinv (st : dstate * bank) : Prop :=
  cwf (fst st) /\ no_orphans (fst st) /\ forall d, 0 <= excess d (fst st) (snd st).

(* the events of a history are admissible: messages are signed by accounts (never the module
   account), parameter changes pass Params.Validate, and no block end hits a recorded finding *)
Definition quiet (e : hev) (st : dstate * bank) : Prop :=
  match e with
  | HOp OEndBlock now =>
      trig_stuck_challengers (fst st) now = false /\
      trig_reject_no_challenger (code_verdict repaired (pr_rf (s_prm (fst st)))) (fst st) now = false
  | HOp o _ => sender_of o <> MODULE
  | HParams p => 0 < pr_pp p /\ nonneg (pr_pc p) /\ nonneg (pr_ic p)
  end.
Fixpoint quiet_hist (h : list hev) (st : dstate * bank) : Prop :=
  match h with
  | [] => True
  | e :: h' => quiet e st /\ quiet_hist h' (hstep e st)
  end.
Definition cap_of (e : hev) (st : dstate * bank) : Z :=
  match e with
  | HOp OEndBlock now => dust_cap (code_verdict repaired (pr_rf (s_prm (fst st)))) (fst st) now
  | _ => 0
  end.
Fixpoint cap_hist (h : list hev) (st : dstate * bank) : Z :=
  match h with
  | [] => 0
  | e :: h' => cap_of e st + cap_hist h' (hstep e st)
  end.

Lemma dust_cap_nonneg vd s now : 0 <= dust_cap vd s now.
Proof.
  unfold dust_cap. apply sumf_nonneg. intros x _.
  destruct (tallied s now x && rejected x (safe_of vd (s_prfs s) x)); lia.
Qed.

Theorem hstep_cinv e st :
  cinv st -> quiet e st ->
  cinv (hstep e st) /\
  forall d, exists dust, excess d (fst (hstep e st)) (snd (hstep e st)) = excess d (fst st) (snd st) + dust /\
                         0 <= dust <= cap_of e st.
Proof.
  destruct st as [s b]. intros (Hc & Hno & Hex) Hq. simpl in *.
  destruct e as [o now|p].
  - simpl. unfold apply_step. destruct (step repaired o now s b) as [[s' b']| |] eqn:E; simpl.
    + destruct (is_msg o) eqn:Hm.
      * assert (Hsd : sender_of o <> MODULE) by (destruct o; try discriminate; exact Hq).
        assert (Hex' : forall d, excess d s' b' = excess d s b) by (apply (msg_excess o now s b s' b'); assumption).
        split.
        -- split; [eapply cwf_msg; eauto|]. split; [eapply no_orphans_msg; eauto|].
           intros d. simpl. rewrite Hex'. apply Hex.
        -- intros d. exists 0. rewrite Hex'. split; [lia|]. destruct o; simpl; try lia; discriminate.
      * destruct o; try discriminate. simpl in E. destruct Hq as [T1 T2].
        split.
        -- split; [eapply cwf_end_block; eauto|]. split; [eapply no_orphans_end_block; eauto|].
           intros d. destruct (end_block_excess_bounded _ now s b s' b' Hc Hex T1 T2 E d) as (dd & Ed & Hd).
           simpl. rewrite Ed. specialize (Hex d). lia.
        -- intros d. apply (end_block_excess_bounded _ now s b s' b' Hc Hex T1 T2 E d).
    + split; [split; [exact Hc|split; [exact Hno|exact Hex]]|].
      intros d. exists 0. split; [lia|]. destruct o; simpl; try lia. split; [lia|apply dust_cap_nonneg].
    + split; [split; [exact Hc|split; [exact Hno|exact Hex]]|].
      intros d. exists 0. split; [lia|]. destruct o; simpl; try lia. split; [lia|apply dust_cap_nonneg].
  - simpl. destruct Hq as (Hpp & Hpc & Hic). destruct Hc as ((Hnd & _) & Hitems & Hinvs & _ & _).
    split.
    + split; [split; [split; simpl; assumption|simpl; auto]|]. split; [exact Hno|exact Hex].
    + intros d. exists 0. split; [unfold excess, open_coll; simpl; lia|lia].
Qed.

(* along every admissible history the invariants hold and the module account holds the open
   collateral plus nothing but the accumulated division dust *)
Theorem hrun_cinv h : forall st,
  cinv st -> quiet_hist h st ->
  cinv (hrun h st) /\
  forall d, exists dust, excess d (fst (hrun h st)) (snd (hrun h st)) = excess d (fst st) (snd st) + dust /\
                         0 <= dust <= cap_hist h st.
Proof.
  induction h as [|e h IH]; intros st Hc Hq; simpl.
  - split; [exact Hc|]. intros d. exists 0. lia.
  - destruct Hq as [Hq1 Hq2]. destruct (hstep_cinv e st Hc Hq1) as [Hc1 Hd1].
    destruct (IH (hstep e st) Hc1 Hq2) as [Hc2 Hd2]. split; [exact Hc2|].
    intros d. destruct (Hd1 d) as (d1 & E1 & B1). destruct (Hd2 d) as (d2 & E2 & B2).
    exists (d1 + d2). fold (hrun h (hstep e st)). rewrite E2, E1. lia.
Qed.

(* ------------------------------------------------------------------ the recorded findings: witnesses *)
Definition f_rows : list (list Z) := [[1100; 0]; [0; 0]; [0; 0]; [0; 0]; [5000; 0]; [5000; 0]].
(* F1: one challenger (account 5) below the threshold of 0.33 * 10 shards; the item expires *)
Definition f1_state : dstate := St w_prm [w_item] [Iv 1 5 [0]] [] [].
Definition f1_now : Z := 20900000000.     (* exactly the challenge deadline *)

Lemma f1_wellformed : cwf f1_state /\ no_orphans f1_state /\
                      excess 0 f1_state (bank_of f_rows) = 0 /\ excess 1 f1_state (bank_of f_rows) = 0.
Proof.
  split; [|split; [reflexivity|split; reflexivity]].
  split; [split; [repeat constructor; simpl; tauto|reflexivity]|].
  split; [repeat constructor; simpl; unfold MODULE; lia|].
  split; [repeat constructor; simpl; unfold MODULE; lia|].
  split; repeat constructor; lia.
Qed.

Lemma finding_stuck_challengers :
  trig_stuck_challengers f1_state f1_now = true /\
  match end_block repaired (code_verdict repaired (pr_rf w_prm)) f1_now f1_state (bank_of f_rows) with
  | Ok (s', b') =>
      status_after (Ok (s', b')) 1 = Some ST_VER /\     (* resolved: publisher refunded ... *)
      orphans s' = [Iv 1 5 [0]] /\                      (* ... the challenge record stays for ever *)
      excess 0 s' b' = 100 /\                           (* ... and so does its collateral *)
      dust_cap (code_verdict repaired (pr_rf w_prm)) f1_state f1_now = 0
  | _ => False
  end.
Proof. split; [reflexivity|]. vm_compute. repeat split; reflexivity. Qed.

(* F2: challenge threshold 0, nobody challenged, no proofs: rejected with nobody to pay *)
Definition f2_prm : params :=
  Pm 0 1000000000000000000 10000000000 10000000000 20000000000 20000000000 [1000; 0] [100; 0].
Definition f2_state : dstate := St f2_prm [It 1 ST_CH 10000000000 10 0 4 [1000; 0] [100; 0]] [] [] [].
Definition f2_rows : list (list Z) := [[1000; 0]; [0; 0]; [0; 0]; [0; 0]; [5000; 0]; [5000; 0]].
Lemma finding_reject_no_challenger :
  trig_reject_no_challenger (code_verdict repaired (pr_rf f2_prm)) f2_state 20000000000 = true /\
  match end_block repaired (code_verdict repaired (pr_rf f2_prm)) 20000000000 f2_state (bank_of f2_rows) with
  | Ok (s', b') => status_after (Ok (s', b')) 1 = Some ST_REJ /\ excess 0 f2_state (bank_of f2_rows) = 0 /\
                   excess 0 s' b' = 1000 /\
                   dust_cap (code_verdict repaired (pr_rf f2_prm)) f2_state 20000000000 = 0
  | _ => False
  end.
Proof. split; [reflexivity|]. vm_compute. repeat split; reflexivity. Qed.
(* the code as found panics instead (division by the number of challengers) *)
Lemma legacy_reject_no_challenger_panics :
  end_block legacy (code_verdict legacy (pr_rf f2_prm)) 20000000000 f2_state (bank_of f2_rows) = Panic.
Proof. vm_compute. reflexivity. Qed.

(* the code as found charges the same sender again and keeps one record *)
Lemma legacy_double_charge :
  match step legacy (OInval 5 1 [1]) 12000000000 f1_state (bank_of f_rows) with
  | Ok (s', b') => n_invs 1 (s_invs s') = 1 /\ bal b' 5 0 = bal (bank_of f_rows) 5 0 - 100 /\
                   excess 0 s' b' = excess 0 f1_state (bank_of f_rows) + 100
  | _ => False
  end.
Proof. vm_compute. repeat split; reflexivity. Qed.
Lemma repaired_rejects_second_challenge :
  step repaired (OInval 5 1 [1]) 12000000000 f1_state (bank_of f_rows) = Err E_DUP_INVALIDITY.
Proof. vm_compute. reflexivity. Qed.

(* non-vacuity of the block-end theorems: a state with two challengers whose item is rejected
   with one unit of dust, satisfying every hypothesis *)
Definition nv_state : dstate :=
  St w_prm [It 1 ST_CH 10000000000 10 0 4 [1001; 0] [100; 0]] [Iv 1 5 [0; 1]; Iv 1 6 [2; 3]] [] [].
Definition nv_rows : list (list Z) := [[1201; 0]; [0; 0]; [0; 0]; [0; 0]; [5000; 0]; [5000; 0]; [5000; 0]].
Lemma nv_wellformed : cwf nv_state /\ no_orphans nv_state.
Proof.
  split; [|reflexivity].
  split; [split; [repeat constructor; simpl; tauto|reflexivity]|].
  split; [repeat constructor; simpl; unfold MODULE; lia|].
  split; [repeat constructor; simpl; unfold MODULE; lia|].
  split; repeat constructor; lia.
Qed.
Lemma nv_block :
  trig_stuck_challengers nv_state 20000000000 = false /\
  trig_reject_no_challenger (code_verdict repaired (pr_rf w_prm)) nv_state 20000000000 = false /\
  match end_block repaired (code_verdict repaired (pr_rf w_prm)) 20000000000 nv_state (bank_of nv_rows) with
  | Ok (s', b') => status_after (Ok (s', b')) 1 = Some ST_REJ /\ excess 0 s' b' = 1 /\
                   bal b' 5 0 = 5600 /\ bal b' 6 0 = 5600 /\ s_invs s' = [] /\
                   dust_cap (code_verdict repaired (pr_rf w_prm)) nv_state 20000000000 = 1
  | _ => False
  end.
Proof. split; [reflexivity|]. split; [reflexivity|]. vm_compute. repeat split; reflexivity. Qed.
