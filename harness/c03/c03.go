// Package c03: swaps honour the stated amounts and limits on every route shape.
// Drives Msg/SwapExactAmountIn|Out and Query/CalculationSwapExactAmountIn|Out of the real
// application over real liquidity pools; every call of the swap keeper into the
// liquidity-pool keeper is recorded and handed to the Coq model as its pool oracle.
package c03

import (
	"fmt"
	"math/big"
	"sort"
	"strings"
	"time"

	sdkmath "cosmossdk.io/math"
	sdk "github.com/cosmos/cosmos-sdk/types"
	authtypes "github.com/cosmos/cosmos-sdk/x/auth/types"
	transfertypes "github.com/cosmos/ibc-go/v9/modules/apps/transfer/types"
	channeltypes "github.com/cosmos/ibc-go/v9/modules/core/04-channel/types"

	lptypes "github.com/sunriselayer/sunrise/x/liquiditypool/types"
	swapkeeper "github.com/sunriselayer/sunrise/x/swap/keeper"
	swaptypes "github.com/sunriselayer/sunrise/x/swap/types"

	"verifharness/apph"
	"verifharness/emit"
)

// ---------------------------------------------------------------- routes

type rnode struct {
	kind    string // "pool" "series" "parallel" "none"
	din     string
	dout    string
	pool    uint64
	kids    []*rnode
	weights []string
}

func (n *rnode) toProto() swaptypes.Route {
	r := swaptypes.Route{DenomIn: n.din, DenomOut: n.dout}
	switch n.kind {
	case "pool":
		r.Strategy = &swaptypes.Route_Pool{Pool: &swaptypes.RoutePool{PoolId: n.pool}}
	case "series":
		s := &swaptypes.RouteSeries{}
		for _, k := range n.kids {
			s.Routes = append(s.Routes, k.toProto())
		}
		r.Strategy = &swaptypes.Route_Series{Series: s}
	case "parallel":
		p := &swaptypes.RouteParallel{Weights: append([]string{}, n.weights...)}
		for _, k := range n.kids {
			p.Routes = append(p.Routes, k.toProto())
		}
		r.Strategy = &swaptypes.Route_Parallel{Parallel: p}
	}
	return r
}

func rawDec(s string) *big.Int { return sdkmath.LegacyMustNewDecFromStr(s).BigInt() }

func (n *rnode) coq() string {
	di, do := emit.ZI(denomCode(n.din)), emit.ZI(denomCode(n.dout))
	kids := make([]string, len(n.kids))
	for i, k := range n.kids {
		kids[i] = k.coq()
	}
	switch n.kind {
	case "pool":
		return fmt.Sprintf("(RPool %s %s %d)", di, do, n.pool)
	case "series":
		return fmt.Sprintf("(RSeries %s %s %s)", di, do, emit.List(kids))
	case "parallel":
		ws := make([]string, len(n.weights))
		for i, w := range n.weights {
			ws[i] = emit.Z(rawDec(w))
		}
		return fmt.Sprintf("(RParallel %s %s %s %s)", di, do, emit.List(kids), emit.List(ws))
	}
	return fmt.Sprintf("(RNone %s %s)", di, do)
}

func (n *rnode) String() string {
	switch n.kind {
	case "pool":
		return fmt.Sprintf("P%d(%s>%s)", n.pool, n.din, n.dout)
	case "series", "parallel":
		ks := make([]string, len(n.kids))
		for i, k := range n.kids {
			ks[i] = k.String()
		}
		tag := "S"
		if n.kind == "parallel" {
			tag = "Par" + fmt.Sprint(n.weights)
		}
		return fmt.Sprintf("%s(%s>%s)[%s]", tag, n.din, n.dout, strings.Join(ks, " "))
	}
	return fmt.Sprintf("None(%s>%s)", n.din, n.dout)
}

func (n *rnode) poolIDs(acc *[]uint64) {
	if n.kind == "pool" {
		*acc = append(*acc, n.pool)
	}
	for _, k := range n.kids {
		k.poolIDs(acc)
	}
}
func (n *rnode) hops() int {
	if n.kind == "pool" {
		return 1
	}
	t := 0
	for _, k := range n.kids {
		t += k.hops()
	}
	return t
}
func (n *rnode) depth() int {
	d := 0
	for _, k := range n.kids {
		if x := k.depth(); x > d {
			d = x
		}
	}
	if n.kind == "pool" || n.kind == "none" {
		return 0
	}
	return d + 1
}
func (n *rnode) width() int {
	w := len(n.kids)
	for _, k := range n.kids {
		if x := k.width(); x > w {
			w = x
		}
	}
	return w
}
func (n *rnode) clone() *rnode {
	c := *n
	c.kids = nil
	for _, k := range n.kids {
		c.kids = append(c.kids, k.clone())
	}
	c.weights = append([]string{}, n.weights...)
	return &c
}
func (n *rnode) all(acc *[]*rnode) {
	*acc = append(*acc, n)
	for _, k := range n.kids {
		k.all(acc)
	}
}

func treeCoq(t swaptypes.RouteResult) string {
	hdr := fmt.Sprintf("%d %s %d %s", denomCode(t.TokenIn.Denom), emit.Z(t.TokenIn.Amount.BigInt()), denomCode(t.TokenOut.Denom), emit.Z(t.TokenOut.Amount.BigInt()))
	list := func(rs []swaptypes.RouteResult) string {
		ks := make([]string, len(rs))
		for i := range rs {
			ks[i] = treeCoq(rs[i])
		}
		return emit.List(ks)
	}
	switch s := t.Strategy.(type) {
	case *swaptypes.RouteResult_Pool:
		return fmt.Sprintf("(RRPool %s %d)", hdr, s.Pool.PoolId)
	case *swaptypes.RouteResult_Series:
		return fmt.Sprintf("(RRSeries %s %s)", hdr, list(s.Series.RouteResults))
	case *swaptypes.RouteResult_Parallel:
		return fmt.Sprintf("(RRParallel %s %s)", hdr, list(s.Parallel.RouteResults))
	}
	return "(RRPool 0 0 0 0 (-1))"
}

// ---------------------------------------------------------------- world

type poolInfo struct {
	id          uint64
	base, quote string
	live        bool // has positions
}

type env struct {
	w        *world
	h        *apph.H
	r        *emit.Rand
	pools    []poolInfo
	k        swapkeeper.Keeper
	rec      *recorder
	msgSrv   swaptypes.MsgServer
	qSrv     swaptypes.QueryServer
	lp       sdk.AccAddress
	rich     sdk.AccAddress
	provider sdk.AccAddress
	byst     sdk.AccAddress
	nPoor    int
	partial  uint64 // pool with a position down to TICK_MIN
	partial2 uint64
	module   sdk.AccAddress // the swap module account (swapper of incoming IBC swaps)
	recv     sdk.AccAddress // receiver of incoming swaps
	variant  string // Coq term: which code variant of Validate / the queries is running
	empty    uint64 // pool without positions
}

func mustInt(s string) sdkmath.Int {
	v, ok := sdkmath.NewIntFromString(s)
	if !ok {
		panic("bad int " + s)
	}
	return v
}

func setup(seed int64) (*env, error) {
	h := apph.New(apph.Options{NumAccounts: 4})
	e := &env{h: h, w: newWorld(h), r: emit.NewRand(seed)}
	e.lp, e.rich, e.provider, e.byst = h.Accts[0].Addr, h.Accts[1].Addr, h.Accts[2].Addr, h.Accts[3].Addr
	// the provider and the bystander start with little, the amounts they receive stay readable
	specs := []poolSpec{
		{"urise", "uusdc", "0.01", "1.0001", "0.5"},
		{"uusdc", "uatom", "0.003", "1.0001", "0.5"},
		{"uatom", "uosmo", "0.0005", "1.0001", "0"},
		{"urise", "uatom", "0.01", "1.0001", "0.5"},
		{"uusdc", "urise", "0.001", "1.0001", "0.5"}, // same pair as pool 0, other orientation
		{"uusdc", "uosmo", "0", "1.0001", "0"},
		{"urise", "uosmo", "0.003", "1.0001", "0.5"},
		{"urise", "uusdc", "0.01", "1.0001", "0.5"}, // position down to TICK_MIN
		{"uatom", "uusdc", "0.01", "1.0001", "0.5"}, // stays empty
		{"urise", "uusdc", "0.01", "1.0001", "0.5"}, // second pool with a position down to TICK_MIN
	}
	for i, ps := range specs {
		id, err := e.w.createPool(ps)
		if err != nil {
			return nil, fmt.Errorf("create pool %d: %w", i, err)
		}
		e.pools = append(e.pools, poolInfo{id: id, base: ps.base, quote: ps.quote})
	}
	coin := func(d string, v int64) sdk.Coin { return sdk.NewInt64Coin(d, v) }
	for i := 0; i < 7; i++ {
		p := &e.pools[i]
		// price around 1, +-20%, so that series hops compose to sane amounts
		b := int64(800_000_000_000 + e.r.Int63n(400_000_000_000))
		q := int64(800_000_000_000 + e.r.Int63n(400_000_000_000))
		if _, err := e.w.createPosition(e.lp, p.id, -6000, 6000, coin(p.base, b), coin(p.quote, q)); err != nil {
			return nil, fmt.Errorf("position pool %d: %w", i, err)
		}
		// a narrower and an off-centre position: swaps of 1e9..1e11 cross initialised ticks
		lo, hi := int64(-200-e.r.Intn(300)), int64(200+e.r.Intn(300))
		if _, err := e.w.createPosition(e.lp, p.id, lo, hi, coin(p.base, b/10), coin(p.quote, q/10)); err != nil {
			return nil, fmt.Errorf("position2 pool %d: %w", i, err)
		}
		// one-sided position above the range (rejected when the price already sits above it)
		_, _ = e.w.createPosition(e.rich, p.id, hi+2000, hi+3500, coin(p.base, b/20), coin(p.quote, 0))
		p.live = true
	}
	// pool 7: small, with a position reaching TICK_MIN (price limit reachable)
	e.partial = e.pools[7].id
	if _, err := e.w.createPosition(e.lp, e.partial, -5000, 5000, coin("urise", 1_000_000), coin("uusdc", 1_000_000)); err != nil {
		return nil, err
	}
	if _, err := e.w.createPosition(e.lp, e.partial, -9223372036854775808, -5000, coin("urise", 0), coin("uusdc", 10)); err != nil {
		return nil, err
	}
	e.pools[7].live = true
	e.empty = e.pools[8].id
	e.partial2 = e.pools[9].id
	if _, err := e.w.createPosition(e.lp, e.partial2, -5000, 5000, coin("urise", 1_000_000), coin("uusdc", 1_000_000)); err != nil {
		return nil, err
	}
	if _, err := e.w.createPosition(e.lp, e.partial2, -9223372036854775808, -5000, coin("urise", 0), coin("uusdc", 10)); err != nil {
		return nil, err
	}
	e.pools[9].live = true
	e.k, e.rec = recordingKeeper(h)
	e.msgSrv = swapkeeper.NewMsgServerImpl(e.k)
	e.qSrv = swapkeeper.NewQueryServerImpl(e.k)
	if _, err := h.NextBlock(time.Second); err != nil {
		return nil, err
	}
	e.module = authtypes.NewModuleAddress(swaptypes.ModuleName)
	rb := make([]byte, 20)
	copy(rb, []byte("c03-ibc-receiver"))
	e.recv = sdk.AccAddress(rb)
	e.probeVariant()
	return e, nil
}

// probeVariant asks the running code which variant of Route.Validate and of the calculation
// queries it is (repairs proposed for C15 change both): a reused pool panics or is an error;
// the queries validate their input or not.
func (e *env) probeVariant() {
	reuse := &rnode{kind: "parallel", din: "urise", dout: "uusdc", kids: []*rnode{pool("urise", "uusdc", 0), pool("urise", "uusdc", 0)}, weights: []string{"1", "1"}}
	reuseErr := func() (isErr bool) {
		defer func() {
			if r := recover(); r != nil {
				isErr = false
			}
		}()
		rt := reuse.toProto()
		if err := rt.Validate(); err == nil {
			panic("Route.Validate accepts a reused pool")
		}
		return true
	}()
	emptySeries := (&rnode{kind: "series", din: "urise", dout: "urise"}).toProto()
	q := e.query(false, false, emptySeries, sdkmath.OneInt())
	e.rec.reset()
	e.variant = fmt.Sprintf("{| v_reuse_err := %s; v_query_validates := %s |}", emit.Bool(reuseErr), emit.Bool(!q.ok))
}

func (e *env) setRate(rate string) {
	ctx := e.h.Ctx()
	p, err := e.h.App.SwapKeeper.Params.Get(ctx)
	if err != nil {
		panic(err)
	}
	p.InterfaceFeeRate = sdkmath.LegacyMustNewDecFromStr(rate).String()
	if err := e.h.App.SwapKeeper.Params.Set(ctx, p); err != nil {
		panic(err)
	}
}

// poolsBetween lists live pools (of the first seven) trading the two denoms, not yet used.
func (e *env) poolsBetween(a, b string, used map[uint64]bool) []uint64 {
	var out []uint64
	for _, p := range e.pools[:7] {
		if used[p.id] {
			continue
		}
		if (p.base == a && p.quote == b) || (p.base == b && p.quote == a) {
			out = append(out, p.id)
		}
	}
	return out
}

var weightChoices = []string{"1", "1", "1", "0.333333333333333333", "0.333333333333333333", "0.000000000000000001", "1000000000000000000", "2", "0.5", "3"}

func (e *env) randWeight() string {
	if e.r.Chance(1, 3) {
		// random weight between 0.01 and 100 with 18 decimals (extremes come from the fixed choices)
		raw := new(big.Int).Add(e.r.LogUniform(20), big.NewInt(10_000_000_000_000_000))
		return sdkmath.LegacyNewDecFromBigIntWithPrec(raw, 18).String()
	}
	return emit.Pick(e.r, weightChoices...)
}

// genRoute builds a valid route din -> dout using pools not in used (which it extends).
func (e *env) genRoute(din, dout string, depth int, used map[uint64]bool) *rnode {
	for attempt := 0; attempt < 6; attempt++ {
		snapshot := map[uint64]bool{}
		for k, v := range used {
			snapshot[k] = v
		}
		var n *rnode
		choice := e.r.Intn(10)
		switch {
		case depth == 0 || choice < 2:
			if din != dout {
				if ps := e.poolsBetween(din, dout, used); len(ps) > 0 {
					id := ps[e.r.Intn(len(ps))]
					used[id] = true
					n = &rnode{kind: "pool", din: din, dout: dout, pool: id}
				}
			}
		case choice < 7:
			hops := 2 + e.r.Intn(2)
			if e.r.Chance(1, 8) {
				hops = 1
			}
			n = &rnode{kind: "series", din: din, dout: dout}
			cur := din
			for i := 0; i < hops; i++ {
				next := dout
				if i < hops-1 {
					next = denoms[e.r.Intn(len(denoms))]
					if next == cur {
						next = denoms[(denomCode(cur))%4]
					}
				}
				if next == cur {
					n = nil
					break
				}
				k := e.genRoute(cur, next, depth-1, used)
				if k == nil {
					n = nil
					break
				}
				n.kids = append(n.kids, k)
				cur = next
			}
		default:
			br := 1 + e.r.Intn(3)
			n = &rnode{kind: "parallel", din: din, dout: dout}
			for i := 0; i < br; i++ {
				k := e.genRoute(din, dout, depth-1, used)
				if k == nil {
					if i >= 1 {
						break
					}
					n = nil
					break
				}
				n.kids = append(n.kids, k)
				n.weights = append(n.weights, e.randWeight())
			}
		}
		if n != nil {
			return n
		}
		for k := range used {
			if !snapshot[k] {
				delete(used, k)
			}
		}
	}
	return nil
}

// mutate turns a valid route into a (mostly) invalid one; returns a tag.
func (e *env) mutate(n *rnode) string {
	var nodes []*rnode
	n.all(&nodes)
	pick := func(kind string) *rnode {
		var c []*rnode
		for _, x := range nodes {
			if x.kind == kind {
				c = append(c, x)
			}
		}
		if len(c) == 0 {
			return nil
		}
		return c[e.r.Intn(len(c))]
	}
	switch e.r.Intn(12) {
	case 0: // reuse a pool: Validate panics
		var ps []*rnode
		for _, x := range nodes {
			if x.kind == "pool" {
				ps = append(ps, x)
			}
		}
		if len(ps) >= 2 {
			ps[len(ps)-1].pool = ps[0].pool
			return "reuse"
		}
		x := ps[0].clone()
		*n = rnode{kind: "parallel", din: n.din, dout: n.dout, kids: []*rnode{n.clone(), x}, weights: []string{"1", "1"}}
		if x.din != n.din || x.dout != n.dout {
			return "reuse+denoms"
		}
		return "reuse"
	case 1:
		if s := pick("series"); s != nil {
			s.kids = nil
			return "empty-series"
		}
	case 2:
		if p := pick("parallel"); p != nil {
			p.weights = append(p.weights, "1")
			return "weights-length"
		}
	case 3:
		if p := pick("parallel"); p != nil {
			p.weights[e.r.Intn(len(p.weights))] = emit.Pick(e.r, "0", "-1", "-0.000000000000000001")
			return "weight-nonpositive"
		}
	case 4:
		x := nodes[e.r.Intn(len(nodes))]
		x.kind, x.kids, x.weights = "none", nil, nil
		return "nil-strategy"
	case 5:
		if p := pick("pool"); p != nil {
			p.pool = 99 + uint64(e.r.Intn(3))
			return "unknown-pool"
		}
	case 6:
		if p := pick("pool"); p != nil {
			p.pool = e.empty
			return "empty-pool"
		}
	case 7: // a hop whose denoms the pool does not trade
		if p := pick("pool"); p != nil {
			for _, q := range e.pools[:7] {
				if !((q.base == p.din && q.quote == p.dout) || (q.base == p.dout && q.quote == p.din)) {
					p.pool = q.id
					break
				}
			}
			return "wrong-pool"
		}
	case 8: // broken denom chain
		if s := pick("series"); s != nil && len(s.kids) > 0 {
			k := s.kids[e.r.Intn(len(s.kids))]
			k.din = denoms[(denomCode(k.din))%4]
			return "series-denoms"
		}
	case 9:
		if p := pick("parallel"); p != nil {
			k := p.kids[e.r.Intn(len(p.kids))]
			k.dout = denoms[(denomCode(k.dout))%4]
			return "parallel-denoms"
		}
	case 10:
		if p := pick("parallel"); p != nil {
			p.kids, p.weights = nil, nil
			return "empty-parallel"
		}
	case 11: // a series that declares another input denom than its (self-consistent) first hop takes
		if s := pick("series"); s != nil && len(s.kids) > 0 {
			s.din = denoms[(denomCode(s.din))%4]
			return "series-declared-in"
		}
	}
	n.dout = denoms[(denomCode(n.dout))%4]
	return "root-denom"
}

// ---------------------------------------------------------------- one case

type caseSpec struct {
	tag      string
	out      bool
	route    *rnode
	amount   sdkmath.Int
	limit    *sdkmath.Int // nil: derived from the quote by limitMode
	limitMod int          // 0 exact quote, 1 fails by one, 2 loose, 3 one inside
	provider bool
	rate     string
	poor     int // 0 rich sender; 1 exactly funded; 2 one short; 3 generously funded (input denom only)
	fund     *sdkmath.Int
	incoming bool // Keeper.SwapIncomingFund: the swap module account holds the incoming amount, a receiver gets the output
}

func (e *env) balRows(ctx sdk.Context, sender sdk.AccAddress, pools []uint64) []string {
	var rows []string
	add := func(code int64, a sdk.AccAddress) {
		for _, d := range denoms {
			rows = append(rows, emit.Tuple(emit.ZI(code), emit.ZI(denomCode(d)), emit.Z(e.h.Bal(ctx, a, d).BigInt())))
		}
	}
	add(1, sender)
	add(2, e.provider)
	add(3, e.byst)
	add(4, e.recv)
	for _, p := range pools {
		add(1000+2*int64(p), lptypes.NewPoolAddress(p))
		add(1001+2*int64(p), lptypes.NewPoolFeesAddress(p))
	}
	return rows
}

func kindCode(k string) int64 {
	switch k {
	case "QI":
		return 1
	case "QO":
		return 2
	case "XI":
		return 3
	}
	return 4
}

func zOr0(x sdkmath.Int) string {
	if x.IsNil() {
		return "0"
	}
	return emit.Z(x.BigInt())
}

func (e *env) tableCoq() []string {
	out := make([]string, len(e.rec.calls))
	for i, c := range e.rec.calls {
		res := "0"
		if c.Err == 0 {
			res = zOr0(c.Result)
		}
		out[i] = fmt.Sprintf("HO %d %d %d %d %s %s %s %s %s", kindCode(c.Kind), c.Pool, denomCode(c.DenomIn), denomCode(c.DenomOut),
			zOr0(c.Amount), emit.ZI(c.Err), res, zOr0(c.Debit), zOr0(c.Credit))
	}
	return out
}

type obsResp struct {
	ok    bool
	tree  swaptypes.RouteResult
	fee   sdkmath.Int
	amt   sdkmath.Int
	class int64
	msg   string
}

func (o obsResp) coq() string {
	if o.ok {
		return fmt.Sprintf("(Ok (%s, %s, %s))", treeCoq(o.tree), emit.Z(o.fee.BigInt()), emit.Z(o.amt.BigInt()))
	}
	if o.class == -1 {
		return "Panic"
	}
	return fmt.Sprintf("(Err %s)", emit.ZI(o.class))
}

func (e *env) query(out bool, has bool, route swaptypes.Route, amount sdkmath.Int) (o obsResp) {
	defer func() {
		if r := recover(); r != nil {
			o = obsResp{class: -1, msg: fmt.Sprint(r)}
		}
	}()
	ctx, _ := e.h.Ctx().CacheContext()
	if out {
		r, err := e.qSrv.CalculationSwapExactAmountOut(ctx, &swaptypes.QueryCalculationSwapExactAmountOutRequest{HasInterfaceFee: has, Route: &route, AmountOut: amount.String()})
		if err != nil {
			return obsResp{class: errClass(err), msg: err.Error()}
		}
		return obsResp{ok: true, tree: r.Result, fee: r.InterfaceProviderFee, amt: r.AmountIn}
	}
	r, err := e.qSrv.CalculationSwapExactAmountIn(ctx, &swaptypes.QueryCalculationSwapExactAmountInRequest{HasInterfaceFee: has, Route: &route, AmountIn: amount.String()})
	if err != nil {
		return obsResp{class: errClass(err), msg: err.Error()}
	}
	return obsResp{ok: true, tree: r.Result, fee: r.InterfaceProviderFee, amt: r.AmountOut}
}

// sweepModule empties the swap module account (into the LP's account).
func (e *env) sweepModule() {
	ctx := e.h.Ctx()
	if bal := e.h.App.BankKeeper.GetAllBalances(ctx, e.module); !bal.IsZero() {
		if err := e.h.App.BankKeeper.SendCoins(ctx, e.module, e.lp, bal); err != nil {
			panic(err)
		}
	}
}

func (e *env) newPoor() sdk.AccAddress {
	e.nPoor++
	b := make([]byte, 20)
	copy(b, []byte(fmt.Sprintf("c03-poor-%08d", e.nPoor)))
	return sdk.AccAddress(b)
}

// runCase executes one case and returns the Coq term, the replay info and the outcome.
func (e *env) runCase(cs caseSpec) (string, map[string]any, obsResp) {
	e.setRate(cs.rate)
	route := cs.route.toProto()
	info := map[string]any{"tag": cs.tag, "exact_out": cs.out, "route": cs.route.String(), "amount": cs.amount.String(),
		"provider": cs.provider, "fee_rate": cs.rate, "poor_sender": cs.poor, "incoming_ibc_fund": cs.incoming}
	// unrecorded look at the quote: used to place the limit and to fund a poor sender
	e.rec.reset()
	pre := e.query(cs.out, cs.provider, route, cs.amount)
	var limit sdkmath.Int
	if cs.limit != nil {
		limit = *cs.limit
	} else {
		q := sdkmath.NewInt(1000)
		if pre.ok {
			q = pre.amt // exact-in: net amount out; exact-out: amount in
		}
		switch cs.limitMod {
		case 0:
			limit = q
		case 1:
			if cs.out {
				limit = q.SubRaw(1)
			} else {
				limit = q.AddRaw(1)
			}
		case 2:
			if cs.out {
				limit = q.MulRaw(3).AddRaw(7)
			} else {
				limit = sdkmath.OneInt()
			}
		default:
			if cs.out {
				limit = q.AddRaw(1)
			} else {
				limit = q.SubRaw(1)
			}
		}
	}
	info["limit"] = limit.String()
	sender := e.rich
	if cs.incoming {
		// what the transfer module has done when SwapIncomingFund runs: the module account holds
		// the incoming amount (= amount_in, resp. max_amount_in) of the input denom, and only that
		sender = e.module
		e.sweepModule()
		inc := cs.amount
		if cs.out {
			inc = limit
		}
		if inc.IsPositive() {
			if err := e.h.App.BankKeeper.SendCoins(e.h.Ctx(), e.lp, e.module, sdk.NewCoins(sdk.NewCoin(cs.route.din, inc))); err != nil {
				panic(err)
			}
		}
		info["incoming"] = inc.String() + cs.route.din
	} else if cs.poor > 0 {
		sender = e.newPoor()
		need := cs.amount
		if cs.out {
			need = sdkmath.NewInt(1_000_000)
			if pre.ok {
				need = pre.amt
			}
		}
		switch cs.poor {
		case 2:
			need = need.SubRaw(1)
		case 3:
			need = need.MulRaw(2).AddRaw(5)
		}
		if cs.fund != nil {
			need = *cs.fund
		}
		if need.IsPositive() {
			if err := e.h.App.BankKeeper.SendCoins(e.h.Ctx(), e.lp, sender, sdk.NewCoins(sdk.NewCoin(cs.route.din, need))); err != nil {
				panic(err)
			}
		}
		info["funded"] = need.String() + cs.route.din
	}
	var ids []uint64
	cs.route.poolIDs(&ids)
	sort.Slice(ids, func(i, j int) bool { return ids[i] < ids[j] })
	var found, uniq []uint64
	for i, id := range ids {
		if i > 0 && ids[i-1] == id {
			continue
		}
		uniq = append(uniq, id)
		if _, ok, err := e.h.App.LiquiditypoolKeeper.GetPool(e.h.Ctx(), id); err == nil && ok {
			found = append(found, id)
		}
	}
	_ = uniq
	// the recorded run: query on the pre-state, then the message as a transaction
	e.rec.reset()
	preRows := e.balRows(e.h.Ctx(), sender, found)
	qobs := e.query(cs.out, cs.provider, route, cs.amount)
	prov := ""
	if cs.provider {
		prov = e.provider.String()
	}
	var mobs obsResp
	err := apph.Tx(e.h.Ctx(), func(ctx sdk.Context) error {
		if cs.incoming {
			inc, md := cs.amount, swaptypes.SwapMetadata{InterfaceProvider: prov, Route: &route}
			if cs.out {
				inc = limit
				md.AmountStrategy = &swaptypes.SwapMetadata_ExactAmountOut{ExactAmountOut: &swaptypes.ExactAmountOut{AmountOut: cs.amount}}
			} else {
				md.AmountStrategy = &swaptypes.SwapMetadata_ExactAmountIn{ExactAmountIn: &swaptypes.ExactAmountIn{MinAmountOut: limit}}
			}
			res, fee, er := e.k.SwapIncomingFund(ctx, channeltypes.Packet{}, e.module,
				transfertypes.FungibleTokenPacketData{Denom: cs.route.din, Amount: inc.String(), Sender: "remote", Receiver: e.recv.String()}, md)
			if er == nil {
				mobs = obsResp{ok: true, tree: res, fee: fee, amt: res.TokenOut.Amount.Sub(fee)}
			}
			return er
		}
		if cs.out {
			r, er := e.msgSrv.SwapExactAmountOut(ctx, &swaptypes.MsgSwapExactAmountOut{Sender: sender.String(), InterfaceProvider: prov, Route: route, MaxAmountIn: limit, AmountOut: cs.amount})
			if er == nil {
				mobs = obsResp{ok: true, tree: r.Result, fee: r.InterfaceProviderFee, amt: r.AmountOut}
			}
			return er
		}
		r, er := e.msgSrv.SwapExactAmountIn(ctx, &swaptypes.MsgSwapExactAmountIn{Sender: sender.String(), InterfaceProvider: prov, Route: route, AmountIn: cs.amount, MinAmountOut: limit})
		if er == nil {
			mobs = obsResp{ok: true, tree: r.Result, fee: r.InterfaceProviderFee, amt: r.AmountOut}
		}
		return er
	})
	if err != nil {
		mobs = obsResp{class: errClass(err), msg: err.Error()}
	}
	postRows := e.balRows(e.h.Ctx(), sender, found)
	if cs.incoming {
		e.sweepModule() // the unspent remainder is ProcessSwappedFund's business (C11)
	}
	fl := make([]string, len(found))
	for i, id := range found {
		fl[i] = fmt.Sprint(id)
	}
	term := fmt.Sprintf("{| c_out := %s; c_route := %s; c_amount := %s; c_limit := %s; c_prov := %s; c_rate := %s;\n     c_found := %s; c_table := %s;\n     c_pre := %s;\n     c_post := %s;\n     c_msg := %s;\n     c_query := %s;\n     c_variant := %s; c_incoming := %s |}",
		emit.Bool(cs.out), cs.route.coq(), emit.Z(cs.amount.BigInt()), emit.Z(limit.BigInt()), emit.Bool(cs.provider), emit.Z(rawDec(cs.rate)),
		emit.List(fl), emit.List(e.tableCoq()), emit.List(preRows), emit.List(postRows), mobs.coq(), qobs.coq(), e.variant, emit.Bool(cs.incoming))
	if mobs.ok {
		info["result"] = fmt.Sprintf("in %s out %s fee %s amount_out %s", mobs.tree.TokenIn, mobs.tree.TokenOut, mobs.fee, mobs.amt)
	} else {
		info["error"] = mobs.msg
		info["class"] = mobs.class
	}
	if qobs.ok {
		info["query"] = fmt.Sprintf("in %s out %s fee %s amount %s", qobs.tree.TokenIn, qobs.tree.TokenOut, qobs.fee, qobs.amt)
	} else {
		info["query_error"] = qobs.msg
	}
	hops := make([]string, len(e.rec.calls))
	for i, c := range e.rec.calls {
		hops[i] = fmt.Sprintf("%s pool %d %s>%s amount %s -> %s err %d debit %s credit %s", c.Kind, c.Pool, c.DenomIn, c.DenomOut, c.Amount, c.Result, c.Err, c.Debit, c.Credit)
	}
	info["pool_calls"] = hops
	return term, info, mobs
}

// ---------------------------------------------------------------- generator

var rateChoices = []string{"0.01", "0.01", "0", "0.003", "0.5", "0.999999999999999999", "0.000000000000000001"}

func (e *env) genCase() caseSpec {
	r := e.r
	cs := caseSpec{tag: "gen", out: r.Bool(), provider: r.Chance(1, 2), rate: emit.Pick(r, rateChoices...)}
	if r.Chance(1, 60) {
		cs.rate = "1" // accepted by Params.Validate; exact-out with a provider divides by zero
	}
	din := denoms[r.Intn(4)]
	dout := denoms[r.Intn(4)]
	if din == dout && !r.Chance(1, 10) {
		dout = denoms[denomCode(din)%4]
	}
	depth := emit.Pick(r, 0, 1, 1, 1, 2, 2, 2, 3, 3)
	var n *rnode
	for try := 0; try < 20 && n == nil; try++ {
		n = e.genRoute(din, dout, depth, map[uint64]bool{})
		if n == nil {
			if depth == 0 {
				depth = 1
			}
			if din == dout {
				dout = denoms[denomCode(din)%4]
			}
		}
	}
	if n == nil {
		n = &rnode{kind: "pool", din: "urise", dout: "uusdc", pool: 0}
	}
	cs.route = n
	// amounts: mostly within the liquidity of the pools (~1e12), sometimes tiny or far too large
	switch r.Intn(16) {
	case 0:
		cs.amount = sdkmath.NewInt(int64(1 + r.Intn(5)))
	case 1:
		cs.amount = sdkmath.NewIntFromBigInt(r.LogUniform(30))
	case 2:
		cs.amount = sdkmath.NewIntFromBigInt(r.LogUniform(13))
	default:
		cs.amount = sdkmath.NewIntFromBigInt(r.LogUniform(11)).AddRaw(int64(r.Intn(1000)))
	}
	cs.limitMod = emit.Pick(r, 0, 0, 0, 1, 2, 2, 3, 3)
	cs.poor = emit.Pick(r, 0, 0, 1, 1, 1, 2, 3, 3)
	// malformed stream (direct messages only: the middleware validates the route before SwapIncomingFund)
	if r.Chance(1, 5) {
		cs.incoming = true
		if cs.amount.IsPositive() {
			cs.tag = "gen:incoming"
			return cs
		}
		cs.incoming = false
	}
	if r.Chance(1, 8) {
		cs.tag = "mut:" + e.mutate(n)
	} else if r.Chance(1, 25) {
		cs.tag = "mut:amount"
		cs.amount = sdkmath.NewInt(int64(-r.Intn(3)))
	} else if r.Chance(1, 25) {
		cs.tag = "mut:limit"
		z := sdkmath.NewInt(int64(-r.Intn(3)))
		cs.limit = &z
	}
	return cs
}

func pool(din, dout string, id uint64) *rnode {
	return &rnode{kind: "pool", din: din, dout: dout, pool: id}
}

// corpus: witnesses of the repaired defects and a few fixed shapes; always run first.
func (e *env) corpus() []caseSpec {
	i := func(v int64) sdkmath.Int { return sdkmath.NewInt(v) }
	one := i(1)
	huge := mustInt("100000000000000000000000000000000")
	par11 := &rnode{kind: "parallel", din: "urise", dout: "uusdc", kids: []*rnode{pool("urise", "uusdc", 0), pool("urise", "uusdc", 4)}, weights: []string{"1", "1"}}
	ser2 := &rnode{kind: "series", din: "urise", dout: "uatom", kids: []*rnode{pool("urise", "uusdc", 0), pool("uusdc", "uatom", 1)}}
	ser3 := &rnode{kind: "series", din: "urise", dout: "uosmo", kids: []*rnode{pool("urise", "uusdc", 0), pool("uusdc", "uatom", 1), pool("uatom", "uosmo", 2)}}
	tiny := &rnode{kind: "parallel", din: "urise", dout: "uusdc", kids: []*rnode{pool("urise", "uusdc", 0), pool("urise", "uusdc", 4)}, weights: []string{"0.000000000000000001", "1"}}
	nested := &rnode{kind: "parallel", din: "urise", dout: "uatom", kids: []*rnode{
		{kind: "series", din: "urise", dout: "uatom", kids: []*rnode{par11.clone(), pool("uusdc", "uatom", 1)}},
		pool("urise", "uatom", 3),
		{kind: "series", din: "urise", dout: "uatom", kids: []*rnode{pool("urise", "uosmo", 6), pool("uosmo", "uatom", 2)}},
	}, weights: []string{"0.333333333333333333", "1", "2"}}
	// a series whose declared input denom is not the one its first hop takes (every hop valid in itself):
	// must be refused; executed, it would debit a denom the message never named (seeded C03-r8)
	badSer1 := &rnode{kind: "series", din: "urise", dout: "uatom", kids: []*rnode{pool("uusdc", "uatom", 1)}}
	badSer2 := &rnode{kind: "series", din: "urise", dout: "uosmo", kids: []*rnode{pool("uusdc", "uatom", 1), pool("uatom", "uosmo", 2)}}
	badNested := &rnode{kind: "parallel", din: "urise", dout: "uatom", kids: []*rnode{
		{kind: "series", din: "urise", dout: "uatom", kids: []*rnode{pool("uusdc", "uatom", 1)}},
		pool("urise", "uatom", 3),
	}, weights: []string{"1", "1"}}
	badInner := &rnode{kind: "series", din: "urise", dout: "uosmo", kids: []*rnode{
		pool("urise", "uusdc", 0),
		{kind: "series", din: "uusdc", dout: "uosmo", kids: []*rnode{pool("uatom", "uosmo", 2)}},
	}}
	bad := []caseSpec{
		{tag: "corpus:series-declared-in-1hop", route: badSer1.clone(), amount: i(100_000), limit: &one, rate: "0.01", provider: true, poor: 0},
		{tag: "corpus:series-declared-in-1hop-exact-out", out: true, route: badSer1.clone(), amount: i(100_000), limit: &huge, rate: "0.01", provider: true, poor: 0},
		{tag: "corpus:series-declared-in-2hops", route: badSer2.clone(), amount: i(200_000), limit: &one, rate: "0", poor: 0},
		{tag: "corpus:series-declared-in-2hops-exact-out", out: true, route: badSer2.clone(), amount: i(200_000), limit: &huge, rate: "0.003", poor: 0},
		{tag: "corpus:series-declared-in-nested", route: badNested.clone(), amount: i(300_000), limit: &one, rate: "0.01", provider: true, poor: 0},
		{tag: "corpus:series-declared-in-nested-exact-out", out: true, route: badNested.clone(), amount: i(300_000), limit: &huge, rate: "0.01", poor: 0},
		{tag: "corpus:series-declared-in-inner", route: badInner.clone(), amount: i(150_000), limit: &one, rate: "0.01", poor: 0},
		{tag: "corpus:series-declared-in-inner-exact-out", out: true, route: badInner.clone(), amount: i(150_000), limit: &huge, rate: "0.01", poor: 0},
	}
	return append([]caseSpec{
		// defect 1 (parallel split never accumulated): 100 over 1:1 must be 50 + 50
		{tag: "corpus:parallel-1:1-exact-in", route: par11.clone(), amount: i(100_000), limit: &one, rate: "0.01", provider: true, poor: 1},
		{tag: "corpus:parallel-1:1-exact-out", out: true, route: par11.clone(), amount: i(100_000), limitMod: 0, rate: "0.01", provider: true, poor: 1},
		// defect 2 (exact-out series executed last hop first): sender holds only the input denom
		{tag: "corpus:series2-exact-out-poor", out: true, route: ser2.clone(), amount: i(1_000_000), limitMod: 0, rate: "0", poor: 1},
		{tag: "corpus:series3-exact-out-poor", out: true, route: ser3.clone(), amount: i(777_777), limitMod: 3, rate: "0.003", provider: true, poor: 1},
		{tag: "corpus:series3-exact-in-poor", route: ser3.clone(), amount: i(1_000_000), limitMod: 0, rate: "0.01", provider: true, poor: 1},
		// defect 3 (partial fill at the price limit)
		{tag: "corpus:partial-fill-exact-in", route: pool("urise", "uusdc", e.partial), amount: huge, limit: &one, rate: "0.01", poor: 0},
		{tag: "corpus:partial-fill-exact-out", out: true, route: pool("urise", "uusdc", e.partial2), amount: i(5_000_000), limit: &huge, rate: "0.01", poor: 0},
		// a branch whose share truncates to zero: the quote exists, the execution refuses
		{tag: "corpus:zero-share", route: tiny, amount: i(1000), limit: &one, rate: "0.01", poor: 0},
		{tag: "corpus:nested", route: nested.clone(), amount: i(123_456_789), limitMod: 0, rate: "0.01", provider: true, poor: 1},
		{tag: "corpus:nested-exact-out", out: true, route: nested.clone(), amount: i(98_765_432), limitMod: 0, rate: "0.5", provider: true, poor: 1},
		// settlement of swaps arriving over IBC: the module account holds only the incoming input
		{tag: "corpus:incoming-exact-out-fee", incoming: true, out: true, route: pool("urise", "uusdc", 0), amount: i(100_000), limitMod: 2, rate: "0.01", provider: true},
		{tag: "corpus:incoming-exact-out-series-exact-funds", incoming: true, out: true, route: ser3.clone(), amount: i(250_000), limitMod: 0, rate: "0.01", provider: true},
		{tag: "corpus:incoming-exact-out-one-short", incoming: true, out: true, route: ser2.clone(), amount: i(250_000), limitMod: 1, rate: "0.003", provider: true},
		{tag: "corpus:incoming-exact-in-nested-fee", incoming: true, route: nested.clone(), amount: i(55_555_555), limitMod: 0, rate: "0.01", provider: true},
		{tag: "corpus:incoming-exact-in-no-provider", incoming: true, route: par11.clone(), amount: i(100_001), limitMod: 3, rate: "0.01"},
		{tag: "corpus:fee-rate-one-exact-out", out: true, route: pool("urise", "uusdc", 0), amount: i(1000), limit: &huge, rate: "1", provider: true},
		{tag: "corpus:fee-rate-one-exact-in", route: pool("urise", "uusdc", 0), amount: i(1000), limit: &one, rate: "1", provider: true},
	}, bad...)
}

// Run generates n cases (plus the fixed corpus) and writes cases + stats into outDir.
func Run(seed int64, n int, outDir string) error {
	e, err := setup(seed)
	if err != nil {
		return err
	}
	defer e.h.Close()
	st0 := e.variant
	st := emit.NewStats("C03", seed, "one case = one real Msg/SwapExactAmountIn|Out or Keeper.SwapIncomingFund (plus the matching query on the pre-state) over real pools with traded state; non-trivial when the route has >= 2 pool hops and the message succeeded, distinct by (direction, root strategy, depth, width, hops, provider, poor sender, direct message | incoming IBC fund)")
	cf := &emit.CasesFile{Import: "Swap.C03Check", Runner: "run", Type: "c03_case"}
	st.Extra["code_variant"] = st0
	do := func(cs caseSpec) {
		term, info, m := e.runCase(cs)
		cf.Add(term)
		st.Info(info)
		st.Evaluations++
		dir := "in"
		if cs.out {
			dir = "out"
		}
		kind := "gen"
		if strings.HasPrefix(cs.tag, "corpus") {
			kind = "corpus"
		} else if strings.HasPrefix(cs.tag, "mut") {
			kind = cs.tag
		}
		st.Count("kind:" + kind)
		if m.ok {
			st.Count(dir + ":ok")
			if cs.provider && m.fee.IsPositive() {
				st.Count("ok:interface-fee>0")
			}
			if cs.incoming {
				st.Count("ok:incoming-ibc-fund/" + dir)
			}
			if cs.poor > 0 || cs.incoming {
				st.Count("ok:sender-holds-only-input")
			}
			st.Count(fmt.Sprintf("shape:%s/d%d", cs.route.kind, cs.route.depth()))
			if cs.route.hops() >= 2 {
				st.Nontriv(fmt.Sprintf("%s/%s/d%d/w%d/h%d/p%v/poor%v/inc%v", dir, cs.route.kind, cs.route.depth(), cs.route.width(), cs.route.hops(), cs.provider, cs.poor > 0, cs.incoming))
				st.Sample(info)
			}
		} else {
			st.Count(fmt.Sprintf("%s:err:%d", dir, m.class))
		}
	}
	for _, cs := range e.corpus() {
		do(cs)
	}
	for i := 0; i < n; i++ {
		do(e.genCase())
		if e.r.Chance(1, 15) {
			if _, err := e.h.NextBlock(time.Second * time.Duration(1+e.r.Intn(30))); err != nil {
				return fmt.Errorf("block failed: %w", err)
			}
		}
	}
	if _, err := cf.Write(outDir, "cases", 60); err != nil {
		return err
	}
	return st.Write(outDir)
}
