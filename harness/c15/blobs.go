package c15

import (
	"encoding/base64"
	"encoding/hex"
	"fmt"
	"reflect"
	"strings"

	sdkmath "cosmossdk.io/math"

	"verifharness/emit"
)

// Garbage-but-acceptable values for the bytes / string parameters of create and update messages.
// A validation that only asks "non-empty" (keys, URIs, denoms lists, info strings) accepts values
// that the code using the parameter later cannot decode: random bytes, the base64 / hex TEXT of
// the valid value instead of the value, a truncated or extended valid value, the valid value with
// one byte flipped, and the valid value of another field of the same message (a value of the
// wrong kind: the proving key where the verifying key belongs).

type blobLeaf struct {
	name  string
	isStr bool
	cur   []byte
	set   func(b []byte)
}

func blobLeaves(v reflect.Value, prefix string, out *[]blobLeaf, depth int) {
	t := v.Type()
	if t == tInt || t == tDec || t == tTime || t == tRoute {
		return
	}
	switch t.Kind() {
	case reflect.String:
		s := v.String()
		if _, err := sdkmath.LegacyNewDecFromStr(s); err == nil || s == "" {
			return // decimal / integer places have their own grids
		}
		*out = append(*out, blobLeaf{prefix, true, []byte(s), func(b []byte) { v.SetString(string(b)) }})
	case reflect.Slice:
		if t.Elem().Kind() == reflect.Uint8 {
			if v.Len() > 0 {
				*out = append(*out, blobLeaf{prefix, false, append([]byte{}, v.Bytes()...), func(b []byte) { v.SetBytes(b) }})
			}
			return
		}
		for i := 0; i < v.Len() && i < 2; i++ {
			blobLeaves(v.Index(i), fmt.Sprintf("%s[%d]", prefix, i), out, depth-1)
		}
	case reflect.Ptr:
		if !v.IsNil() && t.Elem().Kind() == reflect.Struct && depth > 0 {
			blobLeaves(v.Elem(), prefix, out, depth-1)
		}
	case reflect.Struct:
		if depth <= 0 {
			return
		}
		for i := 0; i < t.NumField(); i++ {
			sf := t.Field(i)
			if sf.PkgPath != "" || strings.HasPrefix(sf.Name, "XXX_") {
				continue
			}
			name := sf.Name
			if prefix != "" {
				name = prefix + "." + sf.Name
			}
			blobLeaves(v.Field(i), name, out, depth-1)
		}
	}
}

// blobVariants of the valid value cur; others = the valid values of the other places of the same kind.
func blobVariants(cur []byte, others [][]byte, seed int64) [][]byte {
	r := emit.NewRand(seed)
	rnd := make([]byte, 48)
	for i := range rnd {
		rnd[i] = byte(r.Intn(256))
	}
	flip := append([]byte{}, cur...)
	flip[len(flip)/2] ^= 0x40
	out := [][]byte{
		rnd,
		[]byte(base64.StdEncoding.EncodeToString(cur)),
		[]byte(hex.EncodeToString(cur)),
		append([]byte{}, cur[:len(cur)/2]...),
		append([]byte{}, cur[:len(cur)-1]...),
		append(append([]byte{}, cur...), 0),
		flip,
		{0},
	}
	for _, o := range others {
		if string(o) != string(cur) {
			out = append(out, append([]byte{}, o...))
		}
	}
	var res [][]byte
	for _, b := range out {
		if len(b) > 0 {
			res = append(res, b)
		}
	}
	return res
}

// blobProbes: every bytes / string place of every create / update message x the variants,
// everything else valid.
func (w *world) blobProbes() []headCase {
	var out []headCase
	for _, m := range w.ms {
		if !isCreateOrUpdate(m) {
			continue
		}
		seed := int64(len(m.Key()))*15485863 + 3
		probe := w.base(emit.NewRand(seed), m.Key())
		if probe == nil {
			continue
		}
		var ls []blobLeaf
		blobLeaves(reflect.ValueOf(probe).Elem(), "", &ls, 4)
		for li := range ls {
			var others [][]byte
			for lj := range ls {
				if lj != li && ls[lj].isStr == ls[li].isStr {
					others = append(others, ls[lj].cur)
				}
			}
			for vi, b := range blobVariants(ls[li].cur, others, seed+int64(li)) {
				req := w.base(emit.NewRand(seed), m.Key())
				var cur []blobLeaf
				blobLeaves(reflect.ValueOf(req).Elem(), "", &cur, 4)
				if li >= len(cur) {
					continue
				}
				cur[li].set(b)
				out = append(out, headCase{m.Key(), req, fmt.Sprintf("blob:%s#%d", ls[li].name, vi)})
			}
		}
	}
	return out
}
