(* Lemmas about the shared delegator-deduction tally (Stake/TallyCore.v). *)
From Coq Require Import ZArith Bool List Lia ZifyBool.
Import ListNotations.
From Sunrise Require Import Base.Outcome Base.Dec Base.DecLemmas Stake.TallyCore.
Local Open Scope Z_scope.
Ltac Zify.zify_post_hook ::= Z.div_mod_to_equations.

Ltac inv_obind :=
  repeat match goal with
  | H : obind ?x _ = Some _ |- _ =>
      let E := fresh "E" in destruct x eqn:E; [cbn [obind] in H | discriminate H]
  end.

(* ---------- arithmetic ---------- *)

Lemma dquo_some a b r : dquo a b = Some r -> b <> 0 /\ r = chop_round (Z.quot (a * (P * P)) b).
Proof.
  unfold dquo. destruct (Z.eqb_spec b 0) as [->|Hb]; [discriminate|].
  intros H. apply chk_some in H. tauto.
Qed.

(* pure value of shares.MulInt(tokens).Quo(delegatorShares) *)
Definition ppower (sh tok tsh : Z) : Z := chop_round (Z.quot (sh * tok * (P * P)) tsh).

Lemma power_some sh tok tsh r : power sh tok tsh = Some r -> tsh <> 0 /\ r = ppower sh tok tsh.
Proof.
  unfold power. intros H. inv_obind. apply dmul_int_some in E. subst z.
  apply dquo_some in H. exact H.
Qed.

(* truncated quotients of equal fractions are equal *)
Lemma quot_rate_nonneg a b a' b' :
  0 < b -> 0 < b' -> 0 <= a -> a * b' = a' * b -> Z.quot a b = Z.quot a' b'.
Proof.
  intros Hb Hb' Ha He.
  assert (Ha' : 0 <= a') by nia.
  rewrite !Z.quot_div_nonneg by lia.
  pose proof (Z.mul_div_le a' b' Hb') as Hlo.
  pose proof (Z.mul_succ_div_gt a' b' Hb') as Hhi.
  set (q := a' / b') in *.
  symmetry. apply Z.div_unique with (r := a - b * q); [|ring].
  left. split.
  - (* b q <= a  <-  b (b' q) <= b a' = a b' *)
    assert (H1 : b * (b' * q) <= b * a') by (apply Z.mul_le_mono_nonneg_l; lia).
    assert (H2 : (b * q) * b' <= a * b').
    { rewrite He. replace (b * q * b') with (b * (b' * q)) by ring.
      replace (a' * b) with (b * a') by ring. exact H1. }
    apply Z.mul_le_mono_pos_r in H2; lia.
  - assert (H1 : b * a' < b * (b' * Z.succ q)) by (apply Z.mul_lt_mono_pos_l; lia).
    assert (H2 : a * b' < (b * q + b) * b').
    { rewrite He. replace (a' * b) with (b * a') by ring.
      replace ((b * q + b) * b') with (b * (b' * Z.succ q)) by ring. exact H1. }
    apply Z.mul_lt_mono_pos_r in H2; lia.
Qed.
Lemma quot_rate a b a' b' :
  0 < b -> 0 < b' -> a * b' = a' * b -> Z.quot a b = Z.quot a' b'.
Proof.
  intros Hb Hb' He. destruct (Z_le_gt_dec 0 a) as [Ha|Ha].
  - apply quot_rate_nonneg; assumption.
  - assert (Hn : Z.quot (- a) b = Z.quot (- a') b') by (apply quot_rate_nonneg; lia).
    rewrite !Z.quot_opp_l in Hn by lia. lia.
Qed.

(* the voting power of a number of shares depends on tokens/shares only through the rate *)
Lemma ppower_rate x T S T' S' : 0 < S -> 0 < S' -> T * S' = T' * S -> ppower x T S = ppower x T' S'.
Proof.
  intros HS HS' He. unfold ppower. f_equal. apply quot_rate; try assumption.
  replace (x * T * (P * P) * S') with (x * (P * P) * (T * S')) by ring.
  rewrite He. ring.
Qed.

Lemma ppower_nonneg x T S : 0 <= x -> 0 <= T -> 0 < S -> 0 <= ppower x T S.
Proof.
  intros. unfold ppower. apply chop_round_nonneg. apply Z.quot_pos; [|lia]. unfold P. nia.
Qed.

(* Quo is within (1/2 + 10^-18) ulp of the exact quotient *)
Lemma dquo_bracket a b t : 0 < b -> dquo a b = Some t ->
  Z.abs (t * b * P - a * P * P) <= (HALF + 1) * b.
Proof.
  intros Hb H. apply dquo_some in H. destruct H as [_ ->].
  set (n := a * (P * P)).
  pose proof (chop_round_bracket (Z.quot n b)) as Hc.
  pose proof (Z.quot_rem' n b) as Hq.
  assert (Hr : Z.abs (Z.rem n b) < b).
  { pose proof (Z.rem_bound_abs n b ltac:(lia)). lia. }
  set (q := Z.quot n b) in *. set (r := Z.rem n b) in *. set (t := chop_round q) in *.
  replace (a * P * P) with n by (unfold n; ring).
  assert (Hd : t * b * P - n = (t * P - q) * b - r) by (rewrite Hq; ring).
  rewrite Hd.
  assert (Z.abs ((t * P - q) * b) <= HALF * b).
  { rewrite Z.abs_mul. rewrite (Z.abs_eq b) by lia. apply Z.mul_le_mono_nonneg_r; lia. }
  lia.
Qed.

(* Mul is within 1/2 ulp *)
Lemma dmul_bracket a b r : dmul a b = Some r -> a * b - HALF <= r * P <= a * b + HALF.
Proof. intros H. apply dmul_some in H. subst. apply chop_round_bracket. Qed.

(* ---------- option folds ---------- *)

Lemma ofold_cons {A B} (f : A -> B -> option A) x l a :
  ofold f (x :: l) a = obind (f a x) (ofold f l).
Proof. reflexivity. Qed.
Lemma ofold_nil {A B} (f : A -> B -> option A) a : ofold f [] a = Some a.
Proof. reflexivity. Qed.

Lemma ofold_app {A B} (f : A -> B -> option A) l1 l2 a :
  ofold f (l1 ++ l2) a = obind (ofold f l1 a) (ofold f l2).
Proof.
  revert a. induction l1 as [|x l1 IH]; intros a; cbn; [reflexivity|].
  destruct (f a x); cbn; [apply IH|reflexivity].
Qed.

Lemma ofold_inv {A B} (f : A -> B -> option A) (I : A -> Prop) l :
  (forall a x a', I a -> f a x = Some a' -> I a') ->
  forall a a', I a -> ofold f l a = Some a' -> I a'.
Proof.
  intros Hs. induction l as [|x l IH]; intros a a' Ha H; cbn in H.
  - injection H as <-. exact Ha.
  - destruct (f a x) eqn:E; cbn in H; [|discriminate]. eapply IH; [|exact H]. eapply Hs; eauto.
Qed.

(* ---------- the validator map ---------- *)

Definition ids (vis : list vinfo) : list Z := map vi_id vis.

Lemma find_vi_id id vis vi : find_vi id vis = Some vi -> vi_id vi = id.
Proof.
  induction vis as [|x tl IH]; cbn; [discriminate|].
  destruct (Z.eqb_spec (vi_id x) id); [intros H; injection H as <-; assumption|exact IH].
Qed.
Lemma find_vi_in id vis vi : find_vi id vis = Some vi -> In vi vis.
Proof.
  induction vis as [|x tl IH]; cbn; [discriminate|].
  destruct (vi_id x =? id); [intros H; injection H as <-; left; reflexivity|intros H; right; auto].
Qed.
Lemma find_vi_none id vis : find_vi id vis = None <-> ~ In id (ids vis).
Proof.
  induction vis as [|x tl IH]; cbn; [tauto|].
  destruct (Z.eqb_spec (vi_id x) id); [split; [discriminate|tauto]|].
  rewrite IH. tauto.
Qed.
Lemma upd_vi_ids nv vis : ids (upd_vi nv vis) = ids vis.
Proof.
  induction vis as [|x tl IH]; cbn; [reflexivity|].
  destruct (Z.eqb_spec (vi_id x) (vi_id nv)); cbn; [congruence|f_equal; exact IH].
Qed.

Lemma map_id_in {A} (f : A -> A) l : (forall y, In y l -> f y = y) -> map f l = l.
Proof.
  induction l as [|x tl IH]; cbn; intros H; [reflexivity|].
  rewrite H by (left; reflexivity). f_equal. apply IH. intros y Hy. apply H. right. exact Hy.
Qed.

(* replacing the entry of a validator = mapping over the list, when ids are distinct *)
Lemma upd_vi_map nv vis : NoDup (ids vis) -> In (vi_id nv) (ids vis) ->
  upd_vi nv vis = map (fun vi => if vi_id vi =? vi_id nv then nv else vi) vis.
Proof.
  induction vis as [|x tl IH]; cbn; intros Hnd Hin; [reflexivity|].
  inversion Hnd as [|? ? Hnotin Hnd']; subst.
  destruct (Z.eqb_spec (vi_id x) (vi_id nv)) as [e|ne].
  - f_equal. symmetry. apply map_id_in.
    intros y Hy. destruct (Z.eqb_spec (vi_id y) (vi_id nv)) as [e'|]; [|reflexivity].
    exfalso. apply Hnotin. rewrite e, <- e'. apply in_map. exact Hy.
  - f_equal. apply IH; [assumption|]. destruct Hin; [congruence|assumption].
Qed.

(* adding sh to the deductions of validator id *)
Definition ded_add (id sh : Z) (vi : vinfo) : vinfo :=
  if vi_id vi =? id then set_ded vi (vi_ded vi + sh) else vi.
Lemma ded_add_id id sh vi : vi_id (ded_add id sh vi) = vi_id vi.
Proof. unfold ded_add. destruct (vi_id vi =? id); reflexivity. Qed.
Lemma ids_ded_add id sh vis : ids (map (ded_add id sh) vis) = ids vis.
Proof. unfold ids. rewrite map_map. apply map_ext. intros. apply ded_add_id. Qed.

Lemma deduct_map vis id sh vi ded :
  NoDup (ids vis) -> find_vi id vis = Some vi -> dadd (vi_ded vi) sh = Some ded ->
  upd_vi (set_ded vi ded) vis = map (ded_add id sh) vis.
Proof.
  intros Hnd Hf Hd. apply dadd_some in Hd. subst ded.
  pose proof (find_vi_id _ _ _ Hf) as Hid.
  rewrite upd_vi_map; [|assumption|].
  - apply map_ext_in. intros y Hy. unfold ded_add. cbn [vi_id set_ded]. rewrite Hid.
    destruct (Z.eqb_spec (vi_id y) id) as [e|]; [|reflexivity].
    (* y and vi have the same id in a NoDup list: they are the same entry *)
    assert (y = vi) as ->; [|reflexivity].
    clear - Hnd Hf Hy e. induction vis as [|x tl IH]; [contradiction|].
    cbn in Hf. inversion Hnd as [|? ? Hnotin Hnd']; subst.
    destruct (Z.eqb_spec (vi_id x) (vi_id y)) as [e2|ne2].
    + injection Hf as <-. destruct Hy as [->|Hy]; [reflexivity|].
      exfalso. apply Hnotin. rewrite e2. apply in_map. exact Hy.
    + destruct Hy as [->|Hy]; [congruence|]. apply IH; assumption.
  - cbn [vi_id set_ded]. rewrite Hid. apply find_vi_in in Hf.
    rewrite <- Hid. apply in_map. exact Hf.
Qed.
Lemma deduct_map_none vis id sh : find_vi id vis = None -> map (ded_add id sh) vis = vis.
Proof.
  intros Hf. rewrite find_vi_none in Hf. apply map_id_in.
  intros y Hy. unfold ded_add. destruct (Z.eqb_spec (vi_id y) id) as [e|]; [|reflexivity].
  exfalso. apply Hf. rewrite <- e. apply in_map. exact Hy.
Qed.

(* recording a vote *)
Definition vote_set (id : Z) (w : list (Z * Z)) (vi : vinfo) : vinfo :=
  if vi_id vi =? id then set_vote vi w else vi.
Lemma vote_set_id id w vi : vi_id (vote_set id w vi) = vi_id vi.
Proof. unfold vote_set. destruct (vi_id vi =? id); reflexivity. Qed.
Lemma ids_vote_set id w vis : ids (map (vote_set id w) vis) = ids vis.
Proof. unfold ids. rewrite map_map. apply map_ext. intros. apply vote_set_id. Qed.

Lemma record_vote_map vis id w :
  NoDup (ids vis) ->
  match find_vi id vis with Some vi => upd_vi (set_vote vi w) vis | None => vis end
  = map (vote_set id w) vis.
Proof.
  intros Hnd. destruct (find_vi id vis) as [vi|] eqn:Hf.
  - pose proof (find_vi_id _ _ _ Hf) as Hid.
    rewrite upd_vi_map; [|assumption|].
    + apply map_ext_in. intros y Hy. unfold vote_set. cbn [vi_id set_vote]. rewrite Hid.
      destruct (Z.eqb_spec (vi_id y) id) as [e|]; [|reflexivity].
      assert (y = vi) as ->; [|reflexivity].
      clear - Hnd Hf Hy e. induction vis as [|x tl IH]; [contradiction|].
      cbn in Hf. inversion Hnd as [|? ? Hnotin Hnd']; subst.
      destruct (Z.eqb_spec (vi_id x) (vi_id y)) as [e2|ne2].
      * injection Hf as <-. destruct Hy as [->|Hy]; [reflexivity|].
        exfalso. apply Hnotin. rewrite e2. apply in_map. exact Hy.
      * destruct Hy as [->|Hy]; [congruence|]. apply IH; assumption.
    + cbn [vi_id set_vote]. rewrite Hid. apply find_vi_in in Hf. rewrite <- Hid. apply in_map. exact Hf.
  - rewrite find_vi_none in Hf. symmetry. apply map_id_in.
    intros y Hy. unfold vote_set. destruct (Z.eqb_spec (vi_id y) id) as [e|]; [|reflexivity].
    exfalso. apply Hf. rewrite <- e. apply in_map. exact Hy.
Qed.

(* ---------- what pass 1 does to the validator map ---------- *)

Definition st_vis (st : tstate) : list vinfo := fst (fst st).

Lemma deleg_step_vis w st d st' : NoDup (ids (st_vis st)) ->
  deleg_step w st d = Some st' -> st_vis st' = map (ded_add (fst d) (snd d)) (st_vis st).
Proof.
  destruct st as [[vis res] tot], d as [vid sh]. cbn [st_vis fst snd]. intros Hnd H.
  unfold deleg_step in H. destruct (find_vi vid vis) as [vi|] eqn:Hf.
  - inv_obind. injection H as <-. cbn [st_vis fst]. eapply deduct_map; eauto.
  - injection H as <-. cbn [st_vis fst]. symmetry. apply deduct_map_none. exact Hf.
Qed.

Definition apply_dels (ds : list (Z * Z)) (vis : list vinfo) : list vinfo :=
  fold_left (fun v d => map (ded_add (fst d) (snd d)) v) ds vis.
Lemma ids_apply_dels ds vis : ids (apply_dels ds vis) = ids vis.
Proof.
  revert vis. induction ds as [|d tl IH]; intros vis; cbn; [reflexivity|].
  unfold apply_dels in IH. rewrite IH. apply ids_ded_add.
Qed.

Lemma deleg_fold_vis w ds : forall st st', NoDup (ids (st_vis st)) ->
  ofold (deleg_step w) ds st = Some st' -> st_vis st' = apply_dels ds (st_vis st).
Proof.
  induction ds as [|d tl IH]; intros st st' Hnd H; cbn in H.
  - injection H as <-. reflexivity.
  - destruct (deleg_step w st d) as [st1|] eqn:E; cbn in H; [|discriminate].
    pose proof (deleg_step_vis _ _ _ _ Hnd E) as Hv.
    cbn [apply_dels fold_left]. rewrite <- Hv. apply IH; [|exact H].
    rewrite Hv, ids_ded_add. exact Hnd.
Qed.

Definition apply_ballot (b : ballot) (vis : list vinfo) : list vinfo :=
  apply_dels (b_dels b) (map (vote_set (b_voter b) (b_w b)) vis).
Lemma ids_apply_ballot b vis : ids (apply_ballot b vis) = ids vis.
Proof. unfold apply_ballot. rewrite ids_apply_dels. apply ids_vote_set. Qed.

Lemma ballot_step_vis st b st' : NoDup (ids (st_vis st)) ->
  ballot_step st b = Some st' -> st_vis st' = apply_ballot b (st_vis st).
Proof.
  destruct st as [[vis res] tot]. cbn [st_vis fst]. intros Hnd H. unfold ballot_step in H.
  rewrite record_vote_map in H by assumption.
  apply deleg_fold_vis in H; [exact H|]. cbn [st_vis fst]. rewrite ids_vote_set. exact Hnd.
Qed.

Definition apply_ballots (bs : list ballot) (vis : list vinfo) : list vinfo :=
  fold_left (fun v b => apply_ballot b v) bs vis.
Lemma ids_apply_ballots bs vis : ids (apply_ballots bs vis) = ids vis.
Proof.
  revert vis. induction bs as [|b tl IH]; intros vis; cbn; [reflexivity|].
  unfold apply_ballots in IH. rewrite IH. apply ids_apply_ballot.
Qed.

Lemma phase1_vis bs : forall st st', NoDup (ids (st_vis st)) ->
  phase1 bs st = Some st' -> st_vis st' = apply_ballots bs (st_vis st).
Proof.
  unfold phase1. induction bs as [|b tl IH]; intros st st' Hnd H; cbn in H.
  - injection H as <-. reflexivity.
  - destruct (ballot_step st b) as [st1|] eqn:E; cbn in H; [|discriminate].
    pose proof (ballot_step_vis _ _ _ Hnd E) as Hv.
    cbn [apply_ballots fold_left]. rewrite <- Hv. apply IH; [|exact H].
    rewrite Hv, ids_apply_ballot. exact Hnd.
Qed.

(* deductions of validator id after pass 1 = its deductions before + the shares of every
   delegation to it held by a voter *)

Lemma ded_add_fields id sh vi :
  vi_tok (ded_add id sh vi) = vi_tok vi /\ vi_sh (ded_add id sh vi) = vi_sh vi /\
  vi_vote (ded_add id sh vi) = vi_vote vi /\
  vi_ded (ded_add id sh vi) = vi_ded vi + (if vi_id vi =? id then sh else 0).
Proof. unfold ded_add. destruct (vi_id vi =? id); cbn; repeat split; lia. Qed.

Lemma apply_dels_map ds : forall vis,
  apply_dels ds vis = map (fun vi => set_ded vi (vi_ded vi + dels_to (vi_id vi) ds)) vis.
Proof.
  induction ds as [|d tl IH]; intros vis.
  - cbn. symmetry. apply map_id_in. intros [i t s dd v] _. cbn. unfold set_ded. cbn. f_equal. lia.
  - cbn [apply_dels fold_left]. unfold apply_dels in IH. rewrite IH, map_map. apply map_ext.
    intros vi. unfold ded_add. cbn [dels_to fold_right].
    destruct (Z.eqb_spec (vi_id vi) (fst d)) as [e|ne].
    + destruct vi as [i t s dd v]. cbn in *. subst i.
      rewrite Z.eqb_refl. unfold set_ded, dels_to. cbn. f_equal. lia.
    + destruct vi as [i t s dd v]. cbn in *.
      destruct (Z.eqb_spec (fst d) i); [congruence|]. reflexivity.
Qed.

(* ==========================================================================================
   Every bonded token is counted at most once: the results never add up to more than the
   validators' tokens (plus one 10^-18 unit of rounding per accumulated term)
   ========================================================================================== *)
Definition zsum (l : list Z) : Z := fold_right Z.add 0 l.
Definition wsum (w : list (Z * Z)) : Z := zsum (map snd w).
Definition rnn (m : list (Z * Z)) : Prop := Forall (fun kv => 0 <= snd kv) m.
(* weights as MsgVoteGauge (or gov's MsgVoteWeighted) guarantees them *)
Definition wok (w : list (Z * Z)) : Prop := rnn w /\ wsum w <= P.
Definition len {A} (l : list A) : Z := Z.of_nat (length l).

Lemma wsum_cons k v w : wsum ((k, v) :: w) = v + wsum w.
Proof. reflexivity. Qed.
Lemma rsum_cons k v m : rsum ((k, v) :: m) = v + rsum m.
Proof. reflexivity. Qed.
Lemma len_cons {A} (x : A) l : len (x :: l) = 1 + len l.
Proof. unfold len. cbn [length]. lia. Qed.
Lemma len_nonneg {A} (l : list A) : 0 <= len l.
Proof. unfold len. lia. Qed.

Lemma radd_rsum k v : forall m m', radd k v m = Some m' -> rsum m' = rsum m + v.
Proof.
  induction m as [|[k' v'] tl IH]; intros m' H; cbn in H.
  - injection H as <-. cbn. lia.
  - destruct (k =? k').
    + destruct (dadd v' v) as [s|] eqn:E; cbn [obind] in H; [|discriminate]. injection H as <-.
      apply dadd_some in E. subst s. rewrite !rsum_cons. lia.
    + destruct (k <? k').
      * injection H as <-. rewrite !rsum_cons. lia.
      * destruct (radd k v tl) as [tl'|] eqn:E; cbn [obind] in H; [|discriminate]. injection H as <-.
        rewrite !rsum_cons, (IH _ eq_refl). lia.
Qed.
Lemma radd_rnn k v : forall m m', 0 <= v -> rnn m -> radd k v m = Some m' -> rnn m'.
Proof.
  induction m as [|[k' v'] tl IH]; intros m' Hv Hm H; cbn in H.
  - injection H as <-. constructor; [cbn; lia|constructor].
  - inversion Hm as [|? ? Hh Ht]; subst. cbn in Hh. destruct (k =? k').
    + destruct (dadd v' v) as [s|] eqn:E; cbn [obind] in H; [|discriminate]. injection H as <-.
      apply dadd_some in E. subst s. constructor; [cbn; lia|exact Ht].
    + destruct (k <? k').
      * injection H as <-. constructor; [cbn; lia|exact Hm].
      * destruct (radd k v tl) as [tl'|] eqn:E; cbn [obind] in H; [|discriminate]. injection H as <-.
        constructor; [exact Hh|eapply IH; eauto].
Qed.

Lemma apply_w_bound vp : forall w res res', 0 <= vp -> rnn w -> rnn res ->
  apply_w vp w res = Some res' ->
  rnn res' /\ P * (rsum res' - rsum res) <= vp * wsum w + len w * HALF.
Proof.
  induction w as [|[k wt] tl IH]; intros res res' Hvp Hw Hres H; cbn in H.
  - injection H as <-. split; [exact Hres|]. replace (rsum res - rsum res) with 0 by lia.
    change (wsum []) with 0. change (len (@nil (Z * Z))) with 0. lia.
  - inversion Hw as [|? ? Hwt Htl]; subst. cbn in Hwt.
    destruct (dmul vp wt) as [sub|] eqn:E; cbn [obind] in H; [|discriminate].
    destruct (radd k sub res) as [res1|] eqn:E2; cbn [obind] in H; [|discriminate].
    pose proof (dmul_nonneg _ _ _ Hvp Hwt E) as Hsub.
    pose proof (dmul_bracket _ _ _ E) as Hb.
    pose proof (radd_rsum _ _ _ _ E2) as Hr.
    destruct (IH _ _ Hvp Htl (radd_rnn _ _ _ _ Hsub Hres E2) H) as [Hnn Hd].
    split; [exact Hnn|]. rewrite wsum_cons, len_cons. rewrite Hr in Hd.
    replace (vp * (wt + wsum tl)) with (vp * wt + vp * wsum tl) by ring.
    replace ((1 + len tl) * HALF) with (HALF + len tl * HALF) by ring. lia.
Qed.

(* with weights summing to at most one a power is split into at most itself (+ rounding) *)
Lemma apply_w_le vp w res res' : 0 <= vp -> wok w -> rnn res ->
  apply_w vp w res = Some res' -> rnn res' /\ rsum res' - rsum res <= vp + len w.
Proof.
  intros Hvp [Hw Hs] Hres H. destruct (apply_w_bound _ _ _ _ Hvp Hw Hres H) as [Hnn Hd].
  split; [exact Hnn|].
  assert (H1 : vp * wsum w <= vp * P) by (apply Z.mul_le_mono_nonneg_l; assumption).
  pose proof (len_nonneg w) as Hl.
  assert (H2 : len w * HALF <= len w * P) by (apply Z.mul_le_mono_nonneg_l; [exact Hl|unfold HALF, P; lia]).
  assert (H3 : P * (rsum res' - rsum res) <= P * (vp + len w)) by (rewrite Z.mul_add_distr_l; lia).
  apply Z.mul_le_mono_pos_l in H3; [exact H3|reflexivity].
Qed.

(* the rounded power of some shares is at most one unit above its floor *)
Lemma ppower_le x T S : 0 <= x -> 0 <= T -> 0 < S -> ppower x T S <= (x * T * P) / S + 1.
Proof.
  intros Hx HT HS. unfold ppower.
  assert (Hn : 0 <= x * T * (P * P)) by (unfold P; nia).
  rewrite Z.quot_div_nonneg by lia.
  pose proof (chop_round_bracket (x * T * (P * P) / S)) as Hb.
  assert (Hq : x * T * (P * P) / S / P = x * T * P / S).
  { rewrite Z.div_div by (unfold P; lia). replace (x * T * (P * P)) with (x * T * P * P) by ring.
    apply Z.div_mul_cancel_r; unfold P; lia. }
  set (q := x * T * (P * P) / S) in *. set (m := x * T * P / S) in *.
  assert (HP : 0 < P) by reflexivity.
  pose proof (Z.mul_succ_div_gt q P HP) as Hhi. rewrite Hq in Hhi.
  (* chop_round q * P <= q + HALF < P (m + 1) + HALF *)
  rewrite P_val in *. nia.
Qed.

Lemma div_superadd x y S : 0 < S -> x / S + y / S <= (x + y) / S.
Proof.
  intros HS.
  pose proof (Z.mul_div_le x S HS). pose proof (Z.mul_div_le y S HS).
  pose proof (Z.mul_succ_div_gt (x + y) S HS).
  set (a := x / S) in *. set (b := y / S) in *. set (c := (x + y) / S) in *. nia.
Qed.

(* potential: the tokens behind the shares already deducted from a validator *)
Definition gpot (vi : vinfo) : Z := (vi_ded vi * vi_tok vi * P) / vi_sh vi.
Definition Phi (vis : list vinfo) : Z := fold_right (fun vi a => gpot vi + a) 0 vis.
Definition wfv (vi : vinfo) : Prop := 0 <= vi_ded vi /\ 0 <= vi_tok vi /\ 0 < vi_sh vi.

Lemma Phi_upd nv : forall vis vi, find_vi (vi_id nv) vis = Some vi ->
  Phi (upd_vi nv vis) = Phi vis - gpot vi + gpot nv.
Proof.
  induction vis as [|x tl IH]; intros vi H; cbn in H; [discriminate|]. cbn [upd_vi].
  destruct (vi_id x =? vi_id nv).
  - injection H as <-. cbn [Phi fold_right]. lia.
  - cbn [Phi fold_right]. fold (Phi tl). fold (Phi (upd_vi nv tl)). rewrite (IH _ H). lia.
Qed.
Lemma wf_upd nv vis : Forall wfv vis -> wfv nv -> Forall wfv (upd_vi nv vis).
Proof.
  intros Hw Hn. induction Hw as [|x tl Hx Ht IH]; cbn; [constructor|].
  destruct (vi_id x =? vi_id nv); constructor; assumption.
Qed.
Lemma Forall_find (Q : vinfo -> Prop) id vis vi : Forall Q vis -> find_vi id vis = Some vi -> Q vi.
Proof. intros Hw Hf. apply find_vi_in in Hf. rewrite Forall_forall in Hw. auto. Qed.
Lemma Forall_upd (Q : vinfo -> Prop) nv vis : Forall Q vis -> Q nv -> Forall Q (upd_vi nv vis).
Proof.
  intros Hw Hn. induction Hw as [|x tl Hx Ht IH]; cbn; [constructor|].
  destruct (vi_id x =? vi_id nv); constructor; assumption.
Qed.

(* what may sit in a validator's own vote: weights of some ballot, at most W entries *)
Definition wokW (W : Z) (w : list (Z * Z)) : Prop := wok w /\ len w <= W.
Definition dels_nonneg (ds : list (Z * Z)) : Prop := Forall (fun d => 0 <= snd d) ds.

(* the invariant of pass 1: results - potential only grows by the rounding slack *)
Definition inv1 (W : Z) (st : tstate) (K : Z) : Prop :=
  let '(vis, res, tot) := st in
  Forall wfv vis /\ Forall (fun vi => wokW W (vi_vote vi)) vis /\ rnn res /\ rsum res <= Phi vis + K.

Lemma deleg_step_inv W w st d st' K : wok w -> 0 <= snd d ->
  inv1 W st K -> deleg_step w st d = Some st' -> inv1 W st' (K + 1 + len w).
Proof.
  destruct st as [[vis res] tot], d as [vid sh]. cbn [snd]. intros Hw Hsh (Hwf & Hv & Hnn & Hle) H.
  unfold deleg_step in H. destruct (find_vi vid vis) as [vi|] eqn:Hf.
  - inv_obind. injection H as <-.
    match goal with Hd : dadd (vi_ded vi) sh = Some _ |- _ => apply dadd_some in Hd; subst end.
    match goal with Hp : power _ _ _ = Some _ |- _ => apply power_some in Hp; destruct Hp as [_ ->] end.
    destruct (Forall_find _ _ _ _ Hwf Hf) as (Hd0 & Ht0 & Hs0).
    pose proof (ppower_nonneg sh (vi_tok vi) (vi_sh vi) Hsh Ht0 Hs0) as Hp0.
    match goal with Ha : apply_w _ w res = Some ?r |- _ =>
      destruct (apply_w_le _ _ _ _ Hp0 Hw Hnn Ha) as [Hnn' Hd]; rename r into res' end.
    pose proof (ppower_le sh (vi_tok vi) (vi_sh vi) Hsh Ht0 Hs0) as Hpl.
    assert (Hid : vi_id (set_ded vi (vi_ded vi + sh)) = vid) by (cbn; eapply find_vi_id; eauto).
    cbn. repeat split.
    + apply wf_upd; [exact Hwf|]. unfold wfv; cbn. lia.
    + apply Forall_upd; [exact Hv|]. cbn. exact (Forall_find _ _ _ _ Hv Hf).
    + exact Hnn'.
    + rewrite <- Hid in Hf. rewrite (Phi_upd _ _ _ Hf).
      assert (Hg : gpot vi + sh * vi_tok vi * P / vi_sh vi <= gpot (set_ded vi (vi_ded vi + sh))).
      { unfold gpot. cbn [vi_ded vi_tok vi_sh set_ded].
        pose proof (div_superadd (vi_ded vi * vi_tok vi * P) (sh * vi_tok vi * P) (vi_sh vi) Hs0) as Hsa.
        replace ((vi_ded vi + sh) * vi_tok vi * P) with (vi_ded vi * vi_tok vi * P + sh * vi_tok vi * P) by ring.
        exact Hsa. }
      lia.
  - injection H as <-. cbn. pose proof (len_nonneg w). repeat split; try assumption. lia.
Qed.

Lemma deleg_fold_inv W w ds : forall st st' K, wok w -> dels_nonneg ds ->
  inv1 W st K -> ofold (deleg_step w) ds st = Some st' -> inv1 W st' (K + len ds * (1 + len w)).
Proof.
  induction ds as [|d tl IH]; intros st st' K Hw Hd Hi H.
  - rewrite ofold_nil in H. injection H as <-. unfold len at 1; cbn. replace (K + 0) with K by lia. exact Hi.
  - rewrite ofold_cons in H. destruct (deleg_step w st d) as [st1|] eqn:E; cbn [obind] in H; [|discriminate].
    inversion Hd as [|? ? Hd0 Hd']; subst.
    pose proof (deleg_step_inv W _ _ _ _ _ Hw Hd0 Hi E) as Hi1.
    pose proof (IH _ _ _ Hw Hd' Hi1 H) as Hi2. rewrite len_cons.
    replace (K + (1 + len tl) * (1 + len w)) with (K + 1 + len w + len tl * (1 + len w)) by ring. exact Hi2.
Qed.

Definition ballot_ok (W : Z) (b : ballot) : Prop := wokW W (b_w b) /\ dels_nonneg (b_dels b).
Definition slack1 (bs : list ballot) : Z := fold_right (fun b a => len (b_dels b) * (1 + len (b_w b)) + a) 0 bs.

Lemma ballot_step_inv W st b st' K : ballot_ok W b ->
  inv1 W st K -> ballot_step st b = Some st' -> inv1 W st' (K + len (b_dels b) * (1 + len (b_w b))).
Proof.
  destruct st as [[vis res] tot]. intros [[Hw HW] Hd] (Hwf & Hv & Hnn & Hle) H. unfold ballot_step in H.
  eapply deleg_fold_inv; [exact Hw|exact Hd| |exact H].
  destruct (find_vi (b_voter b) vis) as [vi|] eqn:Hf; [|repeat split; assumption].
  assert (Hid : vi_id (set_vote vi (b_w b)) = b_voter b) by (cbn; eapply find_vi_id; eauto).
  repeat split.
  - apply wf_upd; [exact Hwf|]. exact (Forall_find _ _ _ _ Hwf Hf).
  - apply Forall_upd; [exact Hv|]. cbn. split; assumption.
  - exact Hnn.
  - rewrite <- Hid in Hf. rewrite (Phi_upd _ _ _ Hf). unfold gpot. cbn. lia.
Qed.

Lemma phase1_inv W bs : forall st st' K, Forall (ballot_ok W) bs ->
  inv1 W st K -> phase1 bs st = Some st' -> inv1 W st' (K + slack1 bs).
Proof.
  unfold phase1. induction bs as [|b tl IH]; intros st st' K Hb Hi H.
  - rewrite ofold_nil in H. injection H as <-. cbn. replace (K + 0) with K by lia. exact Hi.
  - rewrite ofold_cons in H. destruct (ballot_step st b) as [st1|] eqn:E; cbn [obind] in H; [|discriminate].
    inversion Hb as [|? ? Hb0 Hb']; subst.
    pose proof (ballot_step_inv W _ _ _ _ Hb0 Hi E) as Hi1.
    pose proof (IH _ _ _ Hb' Hi1 H) as Hi2. cbn [slack1 fold_right]. fold (slack1 tl).
    replace (K + (len (b_dels b) * (1 + len (b_w b)) + slack1 tl))
      with (K + len (b_dels b) * (1 + len (b_w b)) + slack1 tl) by ring. exact Hi2.
Qed.

(* pass 2: a validator adds at most the tokens behind its remaining shares *)
Definition toksum (vis : list vinfo) : Z := fold_right (fun vi a => vi_tok vi * P + a) 0 vis.

Lemma phase2_bound W : forall vis res tot res' tot',
  Forall wfv vis -> Forall (fun vi => wokW W (vi_vote vi)) vis -> Forall (fun vi => vi_ded vi <= vi_sh vi) vis ->
  0 <= W -> rnn res ->
  phase2 vis res tot = Some (res', tot') ->
  rnn res' /\ rsum res' + Phi vis <= rsum res + toksum vis + len vis * (1 + W).
Proof.
  unfold phase2. induction vis as [|vi tl IH]; intros res tot res' tot' Hwf Hv Hd HW Hnn H.
  - rewrite ofold_nil in H. injection H as <- <-. split; [exact Hnn|]. cbn. unfold len; cbn. lia.
  - rewrite ofold_cons in H. destruct (val_step (res, tot) vi) as [[res1 tot1]|] eqn:E; cbn [obind] in H; [|discriminate].
    inversion Hwf as [|? ? (Hd0 & Ht0 & Hs0) Hwf']; subst.
    inversion Hv as [|? ? [Hwk HWl] Hv']; subst. inversion Hd as [|? ? Hle Hd']; subst.
    assert (Hstep : rnn res1 /\ rsum res1 + gpot vi <= rsum res + vi_tok vi * P + 1 + W).
    { unfold val_step in E. destruct (vi_vote vi) as [|w0 wl] eqn:Ev.
      - injection E as <- <-. split; [exact Hnn|]. unfold gpot.
        assert (vi_ded vi * vi_tok vi * P / vi_sh vi <= vi_sh vi * vi_tok vi * P / vi_sh vi).
        { apply Z.div_le_mono; [lia|]. unfold P. nia. }
        replace (vi_sh vi * vi_tok vi * P) with (vi_tok vi * P * vi_sh vi) in H0 by ring.
        rewrite Z.div_mul in H0 by lia. lia.
      - inv_obind. injection E as <- <-.
        match goal with Hs : dsub _ _ = Some _ |- _ => apply dsub_some in Hs; subst end.
        match goal with Hp : power _ _ _ = Some _ |- _ => apply power_some in Hp; destruct Hp as [_ ->] end.
        assert (Hrem : 0 <= vi_sh vi - vi_ded vi) by lia.
        pose proof (ppower_nonneg _ (vi_tok vi) (vi_sh vi) Hrem Ht0 Hs0) as Hp0.
        match goal with Ha : apply_w _ _ res = Some _ |- _ =>
          destruct (apply_w_le _ _ _ _ Hp0 Hwk Hnn Ha) as [Hnn' Hdl] end.
        split; [exact Hnn'|].
        pose proof (ppower_le _ (vi_tok vi) (vi_sh vi) Hrem Ht0 Hs0) as Hpl.
        pose proof (div_superadd (vi_ded vi * vi_tok vi * P) ((vi_sh vi - vi_ded vi) * vi_tok vi * P) (vi_sh vi) Hs0) as Hsa.
        replace (vi_ded vi * vi_tok vi * P + (vi_sh vi - vi_ded vi) * vi_tok vi * P)
          with (vi_tok vi * P * vi_sh vi) in Hsa by ring.
        rewrite Z.div_mul in Hsa by lia. unfold gpot. lia. }
    destruct Hstep as [Hnn1 Hs1].
    destruct (IH _ _ _ _ Hwf' Hv' Hd' HW Hnn1 H) as [Hnn' Hb].
    split; [exact Hnn'|]. cbn [Phi toksum fold_right]. fold (Phi tl). fold (toksum tl). rewrite len_cons.
    replace ((1 + len tl) * (1 + W)) with (1 + W + len tl * (1 + W)) by ring. lia.
Qed.

(* closed form of the validator map after pass 1 *)
Definition after_ballot (b : ballot) (vi : vinfo) : vinfo :=
  let v1 := vote_set (b_voter b) (b_w b) vi in set_ded v1 (vi_ded v1 + dels_to (vi_id v1) (b_dels b)).
Lemma apply_ballot_map b vis : apply_ballot b vis = map (after_ballot b) vis.
Proof. unfold apply_ballot. rewrite apply_dels_map, map_map. reflexivity. Qed.

Lemma after_ballot_fields b vi :
  vi_id (after_ballot b vi) = vi_id vi /\ vi_tok (after_ballot b vi) = vi_tok vi /\
  vi_sh (after_ballot b vi) = vi_sh vi /\
  vi_ded (after_ballot b vi) = vi_ded vi + dels_to (vi_id vi) (b_dels b).
Proof.
  unfold after_ballot, vote_set. destruct (vi_id vi =? b_voter b); cbn; repeat split; reflexivity.
Qed.

Definition static_ded (bs : list ballot) (v : val) (vi : vinfo) : Prop :=
  vi_id vi = v_id v /\ vi_tok vi = v_tok v /\ vi_sh vi = v_sh v /\ vi_ded vi = ded_of (v_id v) bs.

Lemma apply_ballots_fields bs : forall vis vals d0,
  Forall2 (fun v vi => vi_id vi = v_id v /\ vi_tok vi = v_tok v /\ vi_sh vi = v_sh v /\ vi_ded vi = d0 v) vals vis ->
  Forall2 (fun v vi => vi_id vi = v_id v /\ vi_tok vi = v_tok v /\ vi_sh vi = v_sh v /\
                       vi_ded vi = d0 v + ded_of (v_id v) bs) vals (apply_ballots bs vis).
Proof.
  induction bs as [|b tl IH]; intros vis vals d0 H.
  - cbn. induction H as [|v vi vs vis' (h1 & h2 & h3 & h4) H' IH']; constructor; [|exact IH'].
    repeat split; try assumption. lia.
  - cbn [apply_ballots fold_left]. fold (apply_ballots tl (apply_ballot b vis)).
    rewrite apply_ballot_map.
    assert (H1 : Forall2 (fun v vi => vi_id vi = v_id v /\ vi_tok vi = v_tok v /\ vi_sh vi = v_sh v /\
                            vi_ded vi = d0 v + dels_to (v_id v) (b_dels b)) vals (map (after_ballot b) vis)).
    { induction H as [|v vi vs vis' (h1 & h2 & h3 & h4) H' IH']; cbn; constructor; [|exact IH'].
      destruct (after_ballot_fields b vi) as (k1 & k2 & k3 & k4).
      repeat split; congruence. }
    pose proof (IH _ _ (fun v => d0 v + dels_to (v_id v) (b_dels b)) H1) as H2.
    clear - H2. induction H2 as [|v vi vs vis' (h1 & h2 & h3 & h4) H' IH']; constructor; [|exact IH'].
    repeat split; try assumption. rewrite h4. cbn [ded_of fold_right]. fold (ded_of (v_id v) tl). lia.
Qed.

Lemma phase1_static vals bs res0 st' : NoDup (map v_id vals) ->
  phase1 bs (map init_vi vals, res0, 0) = Some st' ->
  Forall2 (static_ded bs) vals (st_vis st').
Proof.
  intros Hnd H. apply phase1_vis in H; [|cbn; unfold ids; rewrite map_map; exact Hnd].
  rewrite H. cbn [st_vis fst].
  assert (H0 : Forall2 (fun v vi => vi_id vi = v_id v /\ vi_tok vi = v_tok v /\ vi_sh vi = v_sh v /\ vi_ded vi = 0)
                 vals (map init_vi vals)).
  { clear. induction vals; cbn; constructor; auto. }
  pose proof (apply_ballots_fields bs _ _ (fun _ => 0) H0) as H1.
  clear - H1. induction H1 as [|v vi vs vis' (h1 & h2 & h3 & h4) H' IH']; constructor; [|exact IH'].
  repeat split; try assumption; try lia.
Qed.

(* the graph as staking guarantees it *)
Definition graph_ok (W : Z) (vals : list val) (bs : list ballot) : Prop :=
  NoDup (map v_id vals) /\
  Forall (fun v => 0 <= v_tok v /\ 0 < v_sh v) vals /\
  Forall (ballot_ok W) bs /\
  (* the shares held at a validator by the voters are part of its delegator shares *)
  Forall (fun v => ded_of (v_id v) bs <= v_sh v) vals.

Definition tokens (vals : list val) : Z := fold_right (fun v a => v_tok v + a) 0 vals.

Theorem core_total_le W vals bs tot res vis : 0 <= W -> graph_ok W vals bs ->
  core (map init_vi vals) [] bs = Some (tot, res, vis) ->
  rnn res /\ rsum res <= tokens vals * P + slack1 bs + len vals * (1 + W).
Proof.
  intros HW (Hnd & Hv & Hb & Hded) H. unfold core in H.
  destruct (phase1 bs (map init_vi vals, [], 0)) as [[[vis1 res1] tot1]|] eqn:E1; cbn [obind] in H; [|discriminate].
  destruct (phase2 vis1 res1 tot1) as [[res2 tot2]|] eqn:E2; cbn [obind] in H; [|discriminate].
  injection H as <- <- <-.
  assert (Hi0 : inv1 W (map init_vi vals, [], 0) 0).
  { repeat split.
    - clear - Hv. induction Hv as [|v tl [h1 h2] Ht IH]; cbn; constructor; [|exact IH]. unfold wfv; cbn. lia.
    - clear - HW. induction vals; cbn; constructor; [|assumption]. cbn. repeat split; [constructor|cbn; unfold P; lia|unfold len; cbn; lia].
    - constructor.
    - assert (Hz : forall l, Phi (map init_vi l) = 0).
      { induction l as [|x l IH]; [reflexivity|].
        change (Phi (map init_vi (x :: l))) with (gpot (init_vi x) + Phi (map init_vi l)).
        rewrite IH. unfold gpot. cbn [vi_ded vi_tok vi_sh init_vi]. rewrite !Z.mul_0_l. reflexivity. }
      rewrite (Hz vals). cbn. lia. }
  pose proof (phase1_inv W _ _ _ _ Hb Hi0 E1) as (Hwf & Hvt & Hnn & Hle).
  pose proof (phase1_static _ _ _ _ Hnd E1) as Hst. cbn [st_vis fst] in Hst.
  assert (Hd1 : Forall (fun vi => vi_ded vi <= vi_sh vi) vis1).
  { clear - Hst Hded. induction Hst as [|v vi vs vis' (h1 & h2 & h3 & h4) H' IH']; constructor.
    - inversion Hded; subst. lia.
    - apply IH'. inversion Hded; assumption. }
  destruct (phase2_bound W _ _ _ _ _ Hwf Hvt Hd1 HW Hnn E2) as [Hnn2 Hb2].
  split; [exact Hnn2|].
  assert (Htk : toksum vis1 = tokens vals * P).
  { clear - Hst. induction Hst as [|v vi vs vis' (h1 & h2 & h3 & h4) H' IH']; cbn; [reflexivity|].
    fold (toksum vis'). fold (tokens vs). rewrite IH', h2. ring. }
  assert (Hln : len vis1 = len vals).
  { unfold len. f_equal. clear - Hst. induction Hst; cbn; congruence. }
  rewrite Htk, Hln in Hb2. lia.
Qed.
