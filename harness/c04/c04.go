// Package c04: pool liquidity bookkeeping — histories on the real x/liquiditypool.
package c04

import (
	"verifharness/amm"
	"verifharness/emit"
)

func Run(seed int64, n int, outDir string) error {
	w := amm.NewWorld(seed)
	defer w.H.Close()
	if err := w.SetupPools(4); err != nil {
		return err
	}
	st := emit.NewStats("C04", seed, "generated histories of create/increase/decrease/claim/swap/allocate over 4 pools with different fee and tick parameters, one case per operation (pre-state, op, result, post-state of the real module and bank), then two full drains; non-trivial = the step crossed an initialised tick, removed the last position, created a position on an emptied pool, or moved the price (distinct by pool and resulting price)")
	cf := &emit.CasesFile{Import: "Amm.C04Check", Runner: "run", Type: "amm_case"}
	if err := w.History(cf, st, n); err != nil {
		return err
	}
	if _, err := cf.Write(outDir, "cases", 12); err != nil {
		return err
	}
	return st.Write(outDir)
}
