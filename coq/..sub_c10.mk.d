Props/C10.vo Props/C10.glob Props/C10.v.beautified Props/C10.required_vo: Props/C10.v Base/Outcome.vo Stake/ApdDec.vo Stake/ShareClass.vo Stake/ShareClassProofs.vo
Props/C10.vio: Props/C10.v Base/Outcome.vio Stake/ApdDec.vio Stake/ShareClass.vio Stake/ShareClassProofs.vio
Props/C10.vos Props/C10.vok Props/C10.required_vos: Props/C10.v Base/Outcome.vos Stake/ApdDec.vos Stake/ShareClass.vos Stake/ShareClassProofs.vos
