package c11

import (
	"fmt"
	"os"
	"strings"

	"verifharness/emit"
)

func leg(ch int, retries uint32) *legSpec { return &legSpec{Ch: ch, Retries: retries} }

// corpus: fixed histories run first. They include the witnesses of the defects found in the code as
// it was (notes/C11.md): each of them fails a monitor on the unrepaired code.
func corpus() []history {
	exIn := func(fw *legSpec) pktSpec {
		return pktSpec{Rcv: 0, Amount: 100000, Class: "swap", Prov: 1, Arg: 1, Forward: fw}
	}
	exOut := func(ch, fw *legSpec) pktSpec {
		return pktSpec{Rcv: 1, Amount: 100000, Class: "swap", Prov: 1, ExactOut: true, Arg: 50000, Change: ch, Forward: fw}
	}
	r0 := op{Pkt: 0, Leg: -1}
	hs := []history{
		{Name: "corpus:exact-in-no-legs", Wired: true, Pkts: []pktSpec{exIn(nil)}, Ops: []op{r0}, Drain: true},
		{Name: "corpus:forward-ok", Wired: true, Pkts: []pktSpec{exIn(leg(0, 2))}, Ops: []op{r0}, Drain: true},
		// IbcKeeperFn nil in the application's own wiring: the deferred acknowledgement panics
		{Name: "corpus:native-wiring-forward-ok", Wired: false, Pkts: []pktSpec{exIn(leg(0, 2))}, Ops: []op{r0}, Drain: true},
		{Name: "corpus:native-wiring-forward-timeout", Wired: false, Pkts: []pktSpec{exIn(leg(0, 3))}, Ops: []op{r0}, Drain: true, DrainKinds: []string{"timeout"}},
		// exact-out without change: the remainder must not stay in the module account
		{Name: "corpus:exact-out-no-change", Wired: true, Pkts: []pktSpec{exOut(nil, nil)}, Ops: []op{r0}, Drain: true},
		// change leg: the remainder sits in the module account, the transfer names the receiver
		{Name: "corpus:exact-out-change", Wired: true, Pkts: []pktSpec{exOut(leg(1, 2), nil)}, Ops: []op{r0}, Drain: true},
		{Name: "corpus:exact-out-change-err", Wired: true, Pkts: []pktSpec{exOut(leg(1, 2), nil)}, Ops: []op{r0}, Drain: true, DrainKinds: []string{"err"}},
		// one acknowledgement must not fill both leg slots
		{Name: "corpus:both-legs-change-acked-first", Wired: true, Pkts: []pktSpec{exOut(leg(1, 2), leg(0, 2))},
			Ops: []op{r0, {0, 0, "ok"}, {0, 1, "err"}}, Drain: true},
		{Name: "corpus:both-legs-forward-acked-first", Wired: true, Pkts: []pktSpec{exOut(leg(0, 2), leg(1, 2))},
			Ops: []op{r0, {0, 1, "err"}, {0, 0, "ok"}}, Drain: true},
		// timeout with retries left: re-sent, and not refunded as well
		{Name: "corpus:forward-timeout-then-ok", Wired: true, Pkts: []pktSpec{exIn(leg(0, 3))},
			Ops: []op{r0, {0, 1, "timeout"}, {0, 1, "timeout"}, {0, 1, "ok"}}, Drain: true},
		// retries exhausted after a re-send: the leg slot must follow the re-sent packet
		{Name: "corpus:forward-timeout-exhausted", Wired: true, Pkts: []pktSpec{exIn(leg(0, 2))},
			Ops: []op{r0, {0, 1, "timeout"}, {0, 1, "timeout"}}, Drain: true},
		{Name: "corpus:forward-timeout-then-err", Wired: true, Pkts: []pktSpec{exIn(leg(1, 0))},
			Ops: []op{r0, {0, 1, "timeout"}, {0, 1, "err"}}, Drain: true},
		// refusals
		{Name: "corpus:refused-min-out", Wired: true, Pkts: []pktSpec{{Rcv: 0, Amount: 1000, Class: "swap", Prov: 1, Arg: 1000000}}, Ops: []op{r0}, Drain: true},
		{Name: "corpus:refused-bad-forward-channel", Wired: true, Pkts: []pktSpec{exIn(&legSpec{Ch: 0, Retries: 1, Bad: "channel"})}, Ops: []op{r0}, Drain: true},
		{Name: "corpus:panic-memo", Wired: true, Pkts: []pktSpec{{Rcv: 0, Amount: 1000, Class: "panic", Variant: 0}}, Ops: []op{r0}, Drain: true},
	}
	// every ordering of the outcomes of a change and a forward leg with retries 2 (one re-send each)
	seqs := [][]string{{"ok"}, {"err"}, {"timeout", "ok"}, {"timeout", "err"}, {"timeout", "timeout"}}
	for ci, cs := range seqs {
		for fi, fs := range seqs {
			for _, il := range interleavings(len(cs), len(fs)) {
				var ops []op
				ops = append(ops, r0)
				a, b := 0, 0
				var tag []string
				for _, first := range il {
					if first {
						ops = append(ops, op{0, 0, cs[a]})
						tag = append(tag, "c"+cs[a][:1])
						a++
					} else {
						ops = append(ops, op{0, 1, fs[b]})
						tag = append(tag, "f"+fs[b][:1])
						b++
					}
				}
				hs = append(hs, history{Name: fmt.Sprintf("corpus:order-%d-%d-%s", ci, fi, strings.Join(tag, "")), Wired: true,
					Pkts: []pktSpec{exOut(leg(1, 2), leg(ci%2, 2))}, Ops: ops, Drain: true})
			}
		}
	}
	// two legs over two different channels whose send sequences coincide (sequences are per channel):
	// change back over the incoming channel-1, forward over the second pair; every ordering of outcomes
	for _, fch := range []int{2, 3} {
		for ci, cs := range seqs[:3] {
			for fi, fs := range seqs[:3] {
				for _, il := range interleavings(len(cs), len(fs)) {
					ops := []op{r0}
					a, b := 0, 0
					var tag []string
					for _, first := range il {
						if first {
							ops = append(ops, op{0, 0, cs[a]})
							tag = append(tag, "c"+cs[a][:1])
							a++
						} else {
							ops = append(ops, op{0, 1, fs[b]})
							tag = append(tag, "f"+fs[b][:1])
							b++
						}
					}
					hs = append(hs, history{Name: fmt.Sprintf("corpus:aligned-ch1-ch%d-%d-%d-%s", fch, ci, fi, strings.Join(tag, "")), Wired: true, Align: true,
						Pkts: []pktSpec{exOut(leg(1, 2), leg(fch, 2))}, Ops: ops, Drain: true})
				}
			}
		}
	}
	// outgoing legs whose transfer fails: before any coin moves (unknown channel, port) or after the
	// escrow / burn inside the transfer module (elapsed timeout, blank receiver, closed channel). Either
	// way the packet must be refused and nothing kept: supply, escrow, balances as before
	for _, bad := range []string{"channel", "port", "timeout", "blank", "closed"} {
		for _, ch := range []int{1, 2} { // over the incoming channel the change is burned, elsewhere escrowed
			b := &legSpec{Ch: ch, Retries: 2, Bad: bad}
			hs = append(hs,
				history{Name: fmt.Sprintf("corpus:bad-change-%s-ch%d", bad, ch), Wired: true, Pkts: []pktSpec{exOut(b, nil)}, Ops: []op{r0}, Drain: true},
				history{Name: fmt.Sprintf("corpus:bad-change-%s-ch%d-forward-ok", bad, ch), Wired: true, Pkts: []pktSpec{exOut(b, leg(3, 2))}, Ops: []op{r0}, Drain: true},
				history{Name: fmt.Sprintf("corpus:bad-forward-%s-ch%d", bad, ch), Wired: true, Pkts: []pktSpec{exIn(b)}, Ops: []op{r0}, Drain: true},
				history{Name: fmt.Sprintf("corpus:bad-forward-%s-ch%d-change-ok", bad, ch), Wired: true, Pkts: []pktSpec{exOut(leg(1, 2), b)}, Ops: []op{r0}, Drain: true})
		}
	}
	// parallel and nested routes with amounts the weights do not divide: nothing may stay in the module
	// account, in any denom, at any point of the packet's life
	for rt := 1; rt <= 5; rt++ {
		rt := rt
		in := func(fw *legSpec) pktSpec {
			p := exIn(fw)
			p.Route, p.Amount = rt, 100001
			return p
		}
		out := func(ch, fw *legSpec) pktSpec {
			p := exOut(ch, fw)
			p.Route, p.Amount, p.Arg = rt, 100001, 33333
			return p
		}
		hs = append(hs,
			history{Name: fmt.Sprintf("corpus:route%d-exact-in-odd", rt), Wired: true, Pkts: []pktSpec{in(nil)}, Ops: []op{r0}, Drain: true},
			history{Name: fmt.Sprintf("corpus:route%d-exact-in-odd-forward-ok", rt), Wired: true, Pkts: []pktSpec{in(leg(2, 2))}, Ops: []op{r0}, Drain: true},
			history{Name: fmt.Sprintf("corpus:route%d-exact-in-odd-forward-timeout", rt), Wired: true, Pkts: []pktSpec{in(leg(0, 2))}, Ops: []op{r0}, Drain: true, DrainKinds: []string{"timeout"}},
			history{Name: fmt.Sprintf("corpus:route%d-exact-out-odd", rt), Wired: true, Pkts: []pktSpec{out(nil, nil)}, Ops: []op{r0}, Drain: true},
			history{Name: fmt.Sprintf("corpus:route%d-exact-out-odd-change-forward", rt), Wired: true, Pkts: []pktSpec{out(leg(1, 2), leg(3, 2))},
				Ops: []op{r0, {0, 1, "err"}, {0, 0, "ok"}}, Drain: true},
			history{Name: fmt.Sprintf("corpus:route%d-exact-out-odd-change-timeout", rt), Wired: true, Pkts: []pktSpec{out(leg(1, 2), nil)},
				Ops: []op{r0}, Drain: true, DrainKinds: []string{"timeout"}})
	}
	// the same shape with sequences that differ
	hs = append(hs, history{Name: "corpus:misaligned-ch1-ch2", Wired: true, Pkts: []pktSpec{exOut(leg(1, 2), leg(2, 2))},
		Ops: []op{r0, {0, 0, "ok"}, {0, 1, "err"}}, Drain: true})
	return hs
}

// interleavings of a sequence of n "true" and m "false" steps keeping each side's order
func interleavings(n, m int) [][]bool {
	if n == 0 && m == 0 {
		return [][]bool{{}}
	}
	var out [][]bool
	if n > 0 {
		for _, t := range interleavings(n-1, m) {
			out = append(out, append([]bool{true}, t...))
		}
	}
	if m > 0 {
		for _, t := range interleavings(n, m-1) {
			out = append(out, append([]bool{false}, t...))
		}
	}
	return out
}

func genLeg(r *emit.Rand, malformed bool) *legSpec {
	l := &legSpec{Ch: r.Intn(4), Retries: emit.Pick(r, uint32(0), 1, 2, 2, 3, 3, 4, 256, 257)}
	if r.Chance(1, 10) || (malformed && r.Chance(1, 3)) {
		l.Bad = emit.Pick(r, "channel", "port", "timeout", "timeout", "blank", "blank", "closed", "closed")
	}
	return l
}

func genPkt(r *emit.Rand) pktSpec {
	p := pktSpec{Rcv: r.Intn(3), Class: "swap", Prov: emit.Pick(r, 0, 1, 1, 1), Variant: r.Intn(15)}
	// the pool's quote for small inputs is 0 (refused: below min_amount_out), so mostly larger amounts
	p.Amount = emit.Pick(r, int64(1), 100, 1000, 5000, 99999, 1000000, 1000000, 123456789, 1000000000000)
	if r.Chance(1, 3) {
		p.Amount = 10000 + r.Int63n(10000000)
	}
	p.Route = emit.Pick(r, 0, 0, 0, 1, 1, 2, 3, 4, 4, 5)
	if p.Route != 0 && r.Chance(2, 3) {
		// amounts the weights do not divide
		p.Amount = emit.Pick(r, int64(100001), 99999, 1000003, 7777777, 123456789, 50021) + int64(r.Intn(3))
	}
	malformed := r.Chance(1, 5)
	if malformed {
		switch r.Intn(9) {
		case 0:
			p.Class = "pass"
		case 1:
			p.Class = "invalid"
		case 2:
			p.Class = "panic"
		case 3:
			p.Rcv = -1
		case 4:
			p.Rcv = -2
		case 5:
			p.Prov = 2
		case 6:
			p.BadDenom = true
		case 7:
			p.BadPool = true
		}
	}
	if r.Chance(1, 2) {
		p.ExactOut = true
		// amount out around the amount in (the pool trades near 1:1): sometimes more than can be paid for
		switch r.Intn(6) {
		case 0:
			p.Arg = p.Amount * 2
		case 1:
			p.Arg = p.Amount
		case 2:
			p.Arg = 1
		default:
			p.Arg = 1 + r.Int63n(p.Amount)
		}
		if r.Chance(3, 5) {
			p.Change = genLeg(r, malformed)
		}
	} else {
		p.Arg = 1
		if r.Chance(1, 8) {
			p.Arg = p.Amount * 2 // cannot be met
		}
	}
	if r.Chance(3, 5) {
		p.Forward = genLeg(r, malformed)
	}
	return p
}

func genHistory(r *emit.Rand, n int) history {
	h := history{Name: fmt.Sprintf("gen-%d", n), Wired: !r.Chance(1, 8), Drain: !r.Chance(1, 10), Align: r.Chance(1, 3)}
	np := 1
	if r.Chance(1, 3) {
		np = 2
	}
	for i := 0; i < np; i++ {
		h.Pkts = append(h.Pkts, genPkt(r))
	}
	// the schedule is drawn here without knowing which legs will exist: actions on absent or
	// resolved legs are skipped (absent) or are redundant relays (resolved)
	for i := 0; i < np; i++ {
		h.Ops = append(h.Ops, op{Pkt: i, Leg: -1})
		k := r.Intn(5)
		for j := 0; j < k; j++ {
			h.Ops = append(h.Ops, op{Pkt: r.Intn(i + 1), Leg: r.Intn(2), Kind: emit.Pick(r, "ok", "ok", "err", "timeout", "timeout")})
		}
		if r.Chance(1, 12) {
			h.Ops = append(h.Ops, op{Pkt: i, Leg: -1}) // redundant relay of the incoming packet
		}
	}
	k := r.Intn(4)
	for j := 0; j < k; j++ {
		h.Ops = append(h.Ops, op{Pkt: r.Intn(np), Leg: r.Intn(2), Kind: emit.Pick(r, "ok", "err", "timeout", "timeout")})
	}
	h.DrainKinds = [][]string{{"ok"}, {"err"}, {"timeout"}, {"timeout", "ok"}, {"ok", "err"}, {"timeout", "timeout", "err"}}[r.Intn(6)]
	return h
}

func runAll(seed int64, n int, outDir string) error {
	r := emit.NewRand(seed)
	e := newEnv()
	defer e.h.Close()
	st := emit.NewStats("C11", seed, "one case = one history on the real application: 1-2 incoming ICS-20 packets with swap memos relayed through "+
		"MsgRecvPacket, every outgoing leg relayed by the harness (far end receive, MsgAcknowledgement / MsgTimeout) in a chosen order; "+
		"non-trivial when an incoming packet was accepted with >= 1 outgoing leg; distinct by (memo shape, legs on one channel / two channels with equal / different sequences, sequence of leg outcomes as delivered)")
	cf := &emit.CasesFile{Import: "Swap.C11Check", Runner: "run", Type: "hist"}
	st.Extra["ibc_keeper_fn_wired_by_app"] = e.nativeFn != nil
	st.Extra["model_cfg"] = cfgTerm(true)
	hs := corpus()
	if os.Getenv("C11_ONLY_CORPUS") == "" {
		for i := 0; i < n; i++ {
			hs = append(hs, genHistory(r, i))
		}
	}
	for _, h := range hs {
		term, info, rn := e.runHistory(h)
		cf.Add(term)
		st.Info(info)
		st.Evaluations++
		if h.Wired {
			st.Count("wiring:harness-supplied")
		} else if e.nativeFn != nil {
			st.Count("wiring:application (IbcKeeperFn provided)")
		} else {
			st.Count("wiring:application (IbcKeeperFn nil)")
		}
		st.Hist["steps"] += len(rn.steps)
		for _, p := range rn.pk {
			if !p.Sent {
				continue
			}
			switch {
			case p.Actual != "swap":
				st.Count("packet:" + p.Actual)
			case !p.Accepted:
				st.Count("packet:swap-refused")
			default:
				nl := 0
				var shape []string
				for j, l := range p.Legs {
					if l != nil {
						nl++
						shape = append(shape, []string{"change", "forward"}[j])
					}
				}
				st.Count(fmt.Sprintf("packet:swap-accepted-%d-legs", nl))
				st.Count("route:" + []string{"pool", "parallel-1:1", "parallel-1:1:1", "parallel-0.3:0.7", "parallel-2:1(pool,series)", "series"}[p.Spec.Route])
				if c, f := p.Legs[0], p.Legs[1]; c != nil && f != nil && c.First[0] != f.First[0] {
					if c.First[1] == f.First[1] {
						st.Count("legs:two-channels-same-sequence")
					} else {
						st.Count("legs:two-channels-different-sequences")
					}
				}
				if nl > 0 {
					kind := "in"
					if p.Spec.ExactOut {
						kind = "out"
					}
					// distinct by memo shape and by the ordering of outcomes as delivered to this packet's legs
					chans := "1ch"
					if c, f := p.Legs[0], p.Legs[1]; c != nil && f != nil && c.First[0] != f.First[0] {
						chans = "2ch-seq-differ"
						if c.First[1] == f.First[1] {
							chans = "2ch-seq-equal"
						}
					}
					kind += fmt.Sprintf("-route%d", p.Spec.Route)
					st.Nontriv(fmt.Sprintf("%s/%s/%s/%d/%s", kind, strings.Join(shape, "+"), chans, len(rn.pk), legOrder(rn, p)))
				}
			}
		}
		for _, s := range rn.steps {
			ev := strings.Fields(s.Event)[0]
			st.Count(fmt.Sprintf("event:%s:class%d", ev, s.Class))
		}
		if len(st.Samples) < 5 && len(rn.steps) > 2 {
			st.Sample(map[string]any{"name": h.Name, "trace": rn.trace})
		}
	}
	if _, err := cf.Write(outDir, "cases", 40); err != nil {
		return err
	}
	return st.Write(outDir)
}

// legOrder renders the outcomes delivered to the legs of p in delivery order, e.g. "cT,fO,cE"
func legOrder(rn *runner, p *pktState) string {
	var out []string
	for _, t := range rn.trace {
		for j, tag := range []string{"c", "f"} {
			pi := -1
			for i, q := range rn.pk {
				if q == p {
					pi = i
				}
			}
			if strings.HasPrefix(t, fmt.Sprintf("ack leg %d of pkt %d ", j, pi)) {
				code := "O"
				if strings.Contains(t, "code 2") {
					code = "E"
				}
				out = append(out, tag+code)
			}
			if strings.HasPrefix(t, fmt.Sprintf("timeout leg %d of pkt %d ", j, pi)) {
				out = append(out, tag+"T")
			}
		}
	}
	return strings.Join(out, ",")
}
