#!/bin/sh
# Regenerates coq/Gen/Sites_gen.v from the Go sources in $VERIF_REPO (default /repo).
# Uses the same generated go.mod as the harness build, so the packages analysed are exactly
# the ones the harness links (and the compiler's export data is shared through the Go cache).
set -e
HERE="$(cd "$(dirname "$0")" && pwd)"
ROOT="$(cd "$HERE/../../.." && pwd)"
REPO="${VERIF_REPO:-/repo}"
export VERIF_REPO="$REPO"
export GOFLAGS=-mod=mod GOPROXY=off GOSUMDB=off GOTOOLCHAIN=local GOWORK=off
mkdir -p "$ROOT/build" "$ROOT/coq/Gen"
H=$(python3 -c 'import hashlib,sys; print(hashlib.sha256(sys.argv[1].encode()).hexdigest()[:8])' "$REPO")
MODFILE="$ROOT/build/gomod-$H.mod"
VERIF_MODFILE="$MODFILE" "$ROOT/harness/mkmod.sh"
cd "$ROOT/harness"
BIN="$ROOT/build/trans_sites"
timeout 1500 go build -modfile="$MODFILE" -o "$BIN.$$" ./trans/sites
mv "$BIN.$$" "$BIN"
timeout 1500 "$BIN" -dir "$ROOT/harness" -modfile "$MODFILE" -out "$ROOT/coq/Gen/Sites_gen.v"
