(* No head of the repaired tree can panic, for any request value and any outcome of the
   state-dependent branches: a dominance analysis ("every use that can panic is preceded by
   the validation that excludes the panicking shape") proved sound once, then evaluated on the
   whole table of heads; coverage of the generated method list; the witnesses of the
   pristine tree. *)
From Coq Require Import ZArith List Bool String Lia.
Import ListNotations.
From Sunrise Require Import Base.Outcome Base.Check Base.Dec Swap.Memo Swap.MemoProofs Sys.Inputs Gen.Msgs_gen.
Local Open Scope Z_scope.

(* ------------------------------------------------------------------ facts established by validations *)
Inductive fact :=
| FReq                       (* the request pointer is not nil *)
| FAcc (p : path)            (* string at p is a valid account address *)
| FVal (p : path)            (* string at p is a valid validator address *)
| FIntNotNil (p : path)
| FIntNonNeg (p : path)
| FDecNotNil (p : path)
| FStrInt64 (p : path)       (* the integer parsed from the string at p fits int64 *)
| FStrIntNonNeg (p : path)
| FRouteValid (p : path)     (* the route at p passed the repaired Route.Validate *)
| FLenLe (p q : path)        (* len(list at p) <= len(list at q) *)
| FIdxInRange (p : path)    (* every index of the list at p is within the stored slice *)
| FCoinsNotNil (p : path)
| FFalse.                    (* never established: marks a check that is unsafe by itself *)

Fixpoint path_eqb (a b : path) : bool :=
  match a, b with
  | [], [] => true
  | x :: a', y :: b' => Nat.eqb x y && path_eqb a' b'
  | _, _ => false
  end.
Lemma path_eqb_eq : forall a b, path_eqb a b = true -> a = b.
Proof.
  induction a as [|x a IH]; destruct b as [|y b]; simpl; intros H; try discriminate; auto.
  apply andb_prop in H. destruct H as [H1 H2]. apply PeanoNat.Nat.eqb_eq in H1. f_equal; auto.
Qed.

Definition fact_eqb (a b : fact) : bool :=
  match a, b with
  | FReq, FReq => true
  | FAcc p, FAcc q | FVal p, FVal q | FIntNotNil p, FIntNotNil q | FIntNonNeg p, FIntNonNeg q
  | FDecNotNil p, FDecNotNil q | FStrInt64 p, FStrInt64 q | FStrIntNonNeg p, FStrIntNonNeg q
  | FRouteValid p, FRouteValid q | FIdxInRange p, FIdxInRange q | FCoinsNotNil p, FCoinsNotNil q => path_eqb p q
  | FLenLe p1 q1, FLenLe p2 q2 => path_eqb p1 p2 && path_eqb q1 q2
  | _, _ => false
  end.
Lemma fact_eqb_eq : forall a b, fact_eqb a b = true -> a = b.
Proof.
  destruct a, b; simpl; intros H; try discriminate; auto;
    try (apply path_eqb_eq in H; congruence).
  apply andb_prop in H. destruct H as [H1 H2]. apply path_eqb_eq in H1. apply path_eqb_eq in H2. congruence.
Qed.

Definition holdsb (n : Z) (req : fval) (f : fact) : bool :=
  match f with
  | FReq => match req with VMsg false _ => false | _ => true end
  | FAcc p => match get p req with Some (VStr s) => si_acc s | _ => false end
  | FVal p => match get p req with Some (VStr s) => si_val s | _ => false end
  | FIntNotNil p => match get p req with Some (VInt (Some _)) => true | _ => false end
  | FIntNonNeg p => match get p req with Some (VInt (Some z)) => 0 <=? z | _ => false end
  | FDecNotNil p => match get p req with Some (VDec (Some _)) => true | _ => false end
  | FStrInt64 p =>
      match get p req with
      | Some (VStr s) => match si_int s with Some z => is_int64 z | None => true end
      | _ => false end
  | FStrIntNonNeg p =>
      match get p req with
      | Some (VStr s) => match si_int s with Some z => 0 <=? z | None => true end
      | _ => false end
  | FRouteValid p =>
      match get p req with
      | Some (VRoute r) => match route_validate patched r with Ok _ => true | _ => false end
      | _ => false end
  | FLenLe p q =>
      match get p req, get q req with
      | Some (VList la), Some (VList lb) => (List.length la <=? List.length lb)%nat
      | _, _ => false end
  | FIdxInRange p => match get p req with Some (VList l) => all_in_range n l | _ => false end
  | FCoinsNotNil p => match get p req with Some (VList l) => coin_amounts_not_nil l | _ => false end
  | FFalse => false
  end.

Definition fixes_patched (mf : fixes) : bool := fx_memo mf && fx_meta mf && fx_route mf.

Definition needs (c : check) : list fact :=
  match c with
  | KReqNotNil | KAlwaysErr | KMayStop | KDeep | KDone => []
  | KMustAddr p => [FReq; FAcc p]
  | KIntPositive p | KIntNonNeg p | KIntUse p => [FReq; FIntNotNil p]
  | KNewCoinAmt p => [FReq; FIntNotNil p; FIntNonNeg p]
  | KCoinIsPositive p => [FReq; FIntNotNil (p ++ [1%nat])]
  | KDecUse p => [FReq; FDecNotNil p]
  | KStrInt64Use p => [FReq; FStrInt64 p]
  | KStrIntNewCoin p => [FReq; FStrIntNonNeg p]
  | KIndexPair p q => [FReq; FLenLe p q]
  | KIndexUse p => [FReq; FIdxInRange p]
  | KCoinsValid p => [FReq; FCoinsNotNil p]
  | KWeights fixed _ => if fixed then [FReq] else [FFalse]
  | KRouteValidate mf _ => if fixes_patched mf then [FReq] else [FFalse]
  | KRouteDeref p | KRouteInspect p => [FReq; FRouteValid p]
  | KShareDenomUse p => [FReq; FVal p]
  | KNumInt64Use _ => [FFalse]
  | _ => [FReq]
  end.

Definition gives (c : check) : list fact :=
  match c with
  | KReqNotNil => [FReq]
  | KAddr p => [FAcc p]
  | KValAddr p => [FVal p]
  | KIntNotNil p => [FIntNotNil p]
  | KIntPositive p | KIntNonNeg p => [FIntNotNil p; FIntNonNeg p]
  | KCoinValidate p => [FIntNotNil (p ++ [1%nat]); FIntNonNeg (p ++ [1%nat])]
  | KCoinIsPositive p => [FIntNonNeg (p ++ [1%nat])]
  | KDecNotNil p => [FDecNotNil p]
  | KStrIsInt64 p => [FStrInt64 p]
  | KStrIntPositive p | KStrIntNonNeg p => [FStrIntNonNeg p]
  | KLenEq p q => [FLenLe p q]
  | KIndexGuard p => [FIdxInRange p]
  | KCoinsAmtNotNil p => [FCoinsNotNil p]
  | KRouteValidate mf p => if fixes_patched mf then [FRouteValid p] else []
  | _ => []
  end.

Definition memf (f : fact) (l : list fact) : bool := existsb (fact_eqb f) l.

(* the dominance analysis *)
Fixpoint safe (have : list fact) (cs : list check) : bool :=
  match cs with
  | [] => true
  | c :: tl => forallb (fun f => memf f have) (needs c) && safe (gives c ++ have) tl
  end.

(* ------------------------------------------------------------------ soundness of one check *)
Section WithLen.
  (* the length of the stored slice the request indexes into (read from the state) *)
  Variable n : Z.

Lemma get_app : forall p q v, get (p ++ q) v = match get p v with Some x => get q x | None => None end.
Proof.
  induction p as [|i p IH]; intros q v; simpl; [reflexivity|].
  destruct v; try reflexivity. destruct present; [|reflexivity].
  destruct (nth_error fs i); [apply IH|reflexivity].
Qed.

Lemma rd_req : forall req p k, holdsb n req FReq = true ->
  rd req p k = match get p req with Some v => k v | None => Err E_BADSHAPE end.
Proof. intros req p k H. unfold rd. destruct req; try reflexivity. destruct present; [reflexivity|discriminate]. Qed.

Lemma forallb_nth_error : forall A (f : A -> bool) l i x,
  forallb f l = true -> nth_error l i = Some x -> f x = true.
Proof.
  induction l as [|y l IH]; intros i x H E; destruct i; simpl in *; try discriminate.
  - injection E as ->. apply andb_prop in H. tauto.
  - apply andb_prop in H. eapply IH; [apply H|exact E].
Qed.

Lemma wf_val_msg : forall b fs, wf_val (VMsg b fs) = forallb wf_val fs.
Proof. intros b fs. simpl. induction fs as [|x tl IH]; simpl; [reflexivity|]. rewrite IH. reflexivity. Qed.

Lemma wf_get : forall p v x, wf_val v = true -> get p v = Some x -> wf_val x = true.
Proof.
  induction p as [|i p IH]; intros v x Hw Hg; simpl in Hg.
  - injection Hg as <-. exact Hw.
  - destruct v; try discriminate. destruct present; [|discriminate].
    destruct (nth_error fs i) as [y|] eqn:E; [|discriminate].
    eapply IH; [|exact Hg]. rewrite wf_val_msg in Hw. eapply forallb_nth_error; eauto.
Qed.

Lemma DEC_LIM_two : 2 * P <= DEC_LIM.
Proof. unfold Z.le. vm_compute. discriminate. Qed.

Lemma weights_go_total : forall l total, 0 <= total <= P -> weights_go true l total <> Panic.
Proof.
  induction l as [|x tl IH]; intros total Ht; simpl; [discriminate|].
  destruct x; try discriminate. destruct present; [|discriminate].
  destruct fs as [|f0 [|f1 [|f2 fs]]]; try discriminate; destruct f1; try discriminate.
  destruct (si_dec s) as [w|]; [|discriminate].
  destruct (w <? 0) eqn:Hneg; [discriminate|]. apply Z.ltb_ge in Hneg.
  destruct (P <? w) eqn:Hw; simpl; [discriminate|]. apply Z.ltb_ge in Hw.
  unfold dadd, chk, in_range.
  pose proof DEC_LIM_two as HL.
  destruct (Z.leb_spec (Z.abs (total + w)) DEC_LIM) as [Hin|Hout]; [|exfalso; lia].
  destruct (P <? total + w) eqn:Hs; [discriminate|]. apply Z.ltb_ge in Hs.
  apply IH. lia.
Qed.

Lemma coins_valid_total : forall l, coin_amounts_not_nil l = true -> coins_valid_go l <> Panic.
Proof. intros l H. unfold coins_valid_go. rewrite H. simpl. unfold okif. destruct (forallb _ l); discriminate. Qed.

Ltac bz := repeat match goal with
  | H : (_ <=? _) = true |- _ => apply Z.leb_le in H
  | H : (_ <? _) = true |- _ => apply Z.ltb_lt in H
  | H : (_ <? _) = false |- _ => apply Z.ltb_ge in H
  | H : (_ <=? _) = false |- _ => apply Z.leb_gt in H
  | H : (_ <=? _)%nat = true |- _ => apply PeanoNat.Nat.leb_le in H
  end.
Ltac brk :=
  repeat match goal with
  | H : _ && _ = true |- _ => apply andb_prop in H; destruct H
  | H : true = true |- _ => clear H
  end.
(* destruct the field read by the check and every option / boolean the outcome depends on *)
Ltac cases :=
  repeat (match goal with
          | |- context [match get ?p ?r with _ => _ end] =>
              let G := fresh "G" in destruct (get p r) eqn:G; rewrite ?G in *
          | |- context [match ?v with VStr _ => _ | _ => _ end] => is_var v; destruct v
          | |- context [match ?v with VMsg _ _ => _ | _ => _ end] => is_var v; destruct v
          | |- context [match ?v with VInt _ => _ | _ => _ end] => is_var v; destruct v
          | |- context [match ?v with VList _ => _ | _ => _ end] => is_var v; destruct v
          | |- context [match ?l with [] => _ | _ :: _ => _ end] => is_var l; destruct l
          | |- context [match ?o with Some _ => _ | None => _ end] => is_var o; destruct o
          | |- context [match si_int ?s with _ => _ end] => let E := fresh "E" in destruct (si_int s) eqn:E; rewrite ?E in *
          | |- context [if ?b then _ else _] => let E := fresh "E" in destruct b eqn:E; rewrite ?E in *
          end; simpl in *; try discriminate).

(* when everything a check needs holds, it does not panic *)
Lemma exec_no_panic : forall c req,
  wf_val req = true ->
  forallb (holdsb n req) (needs c) = true -> exec n c req <> Panic.
Proof.
  intros c req Hwf H.
  destruct c; simpl in H; unfold exec;
    try (match goal with H : context [if ?b then _ else _] |- _ => destruct b eqn:Hfx; simpl in H end);
    try discriminate;
    try (apply andb_prop in H; destruct H as [HR H]);
    try (unfold rd2; rewrite !rd_req by exact HR);
    unfold okif, bad; rewrite ?andb_true_r in H; brk; unfold holdsb in *.
  (* KReqNotNil *)
  - destruct req; try discriminate. destruct present; discriminate.
  (* KAddr, KValAddr, KAddrIfNonEmpty *)
  - cases. - cases. - cases.
  (* KMustAddr *)
  - cases.
  (* KAuth *)
  - cases.
  (* KPred *)
  - cases.
  (* KPred2 *)
  - destruct (get p req); [|discriminate]. rewrite rd_req by exact HR. cases.
  (* KIntNotNil, KIntPositive, KIntNonNeg, KIntUse *)
  - cases. - cases. - cases. - cases.
  (* KNewCoinAmt *)
  - cases. bz. lia.
  (* KCoinValidate *)
  - cases.
  (* KCoinIsPositive *)
  - rewrite get_app in *. cases.
  (* KDecNotNil, KDecUse *)
  - destruct (get p req) as [[| | [z|] | | | | | |]|]; discriminate.
  - destruct (get p req) as [[| | [z|] | | | | | |]|]; discriminate.
  (* KStrIntOk, KStrIntPositive, KStrIntNonNeg, KStrIsInt64 *)
  - cases. - cases. - cases. - cases.
  (* KStrInt64Use *)
  - cases.
  (* KStrIntNewCoin *)
  - cases. bz. lia.
  (* KLenEq *)
  - destruct (get p req) as [a|]; [|discriminate]. rewrite rd_req by exact HR.
    destruct (get q req) as [b|]; [|discriminate].
    destruct a; try discriminate; destruct b; try discriminate. destruct (Nat.eqb _ _); discriminate.
  (* KIndexPair *)
  - destruct (get p req) as [a|]; [|discriminate]. rewrite rd_req by exact HR.
    destruct (get q req) as [b|]; [|discriminate].
    destruct a; try discriminate; destruct b; try discriminate. bz.
    destruct (Nat.ltb_spec (List.length l0) (List.length l)); [lia|discriminate].
  (* KIndexGuard, KIndexUpper, KIndexUse, KCoinsAmtNotNil *)
  - cases. - cases. - cases. - cases.
  (* KCoinsValid *)
  - destruct (get p req) as [[]|]; try discriminate. apply coins_valid_total. assumption.
  (* KWeights true *)
  - destruct (get p req) as [[]|]; try discriminate. apply weights_go_total. unfold P. lia.
  (* KRouteValidate patched *)
  - destruct (get p req) as [[]|]; try discriminate.
    assert (mf = patched) as ->.
    { destruct mf as [a b c]. unfold fixes_patched in Hfx. simpl in Hfx.
      apply andb_prop in Hfx. destruct Hfx as [Hab Hc]. apply andb_prop in Hab. destruct Hab as [Ha Hb].
      subst. reflexivity. }
    pose proof (route_validate_total r) as Ht.
    destruct (route_validate patched r); try discriminate. contradiction.
  (* KRouteDeref *)
  - destruct (get p req) as [[]|]; try discriminate.
    destruct r as [r|]; [discriminate|]. simpl in *. discriminate.
  (* KRouteInspect *)
  - destruct (get p req) as [[]|]; try discriminate.
    destruct r as [r|]; [|simpl in *; discriminate].
    destruct (route_validate patched (Some r)) as [[]|e|] eqn:Hv; try discriminate.
    pose proof (inspect_validated_total r Hv) as Hi.
    destruct (inspect r); try discriminate. contradiction.
  (* KShareDenomUse *)
  - destruct (get p req) as [v|] eqn:G; [|discriminate]. destruct v; try discriminate.
    pose proof (wf_get p req _ Hwf G) as Hw. simpl in Hw. unfold wf_str in Hw.
    match goal with H : si_val _ = true |- _ => rewrite H in Hw end. simpl in Hw.
    rewrite Hw. discriminate.
Qed.

(* when a check lets the handler continue, the facts it gives hold *)
Lemma rd_ok_inv : forall req p k, rd req p k = Ok tt -> exists v, get p req = Some v /\ k v = Ok tt.
Proof.
  intros req p k H. unfold rd in H.
  destruct (get p req) as [v|] eqn:G.
  - exists v. split; [reflexivity|]. destruct req; try exact H. destruct present; [exact H|discriminate].
  - destruct req; try discriminate. destruct present; discriminate.
Qed.

Ltac casesH H :=
  repeat (match type of H with
          | context [match ?v with VStr _ => _ | _ => _ end] => is_var v; destruct v
          | context [match ?l with [] => _ | _ :: _ => _ end] => is_var l; destruct l
          | context [match ?o with Some _ => _ | None => _ end] => is_var o; destruct o
          | context [match si_int ?s with _ => _ end] => let E := fresh "E" in destruct (si_int s) eqn:E
          | context [if ?b then _ else _] => let E := fresh "E" in destruct b eqn:E
          end; simpl in H; try discriminate).

Ltac fin :=
  simpl; rewrite ?get_app;
  repeat match goal with H : get _ _ = Some _ |- _ => rewrite H end; simpl;
  repeat match goal with H : ?x = true |- context [?x] => rewrite H end;
  repeat match goal with H : si_int _ = Some _ |- _ => rewrite H end;
  repeat match goal with H : ?x = true |- context [?x] => rewrite H end;
  bz; rewrite ?andb_true_r;
  try match goal with |- (_ <=? _) = true => apply Z.leb_le end; try lia; try reflexivity.

Lemma exec_gives : forall c req, exec n c req = Ok tt -> forallb (holdsb n req) (gives c) = true.
Proof.
  intros c req H.
  destruct c; simpl gives; try reflexivity; unfold exec in H.
  (* KReqNotNil *)
  - simpl. destruct req; try reflexivity. destruct present; [reflexivity|discriminate].
  (* KAddr *)
  - apply rd_ok_inv in H. destruct H as [v [G H]]. unfold okif, bad in H. casesH H.
    fin.
  (* KValAddr *)
  - apply rd_ok_inv in H. destruct H as [v [G H]]. unfold okif, bad in H. casesH H.
    fin.
  (* KIntNotNil *)
  - apply rd_ok_inv in H. destruct H as [v [G H]]. unfold okif, bad in H. casesH H.
    fin.
  (* KIntPositive *)
  - apply rd_ok_inv in H. destruct H as [v [G H]]. unfold okif, bad in H. casesH H.
    fin.
  (* KIntNonNeg *)
  - apply rd_ok_inv in H. destruct H as [v [G H]]. unfold okif, bad in H. casesH H.
    fin.
  (* KCoinValidate *)
  - apply rd_ok_inv in H. destruct H as [v [G H]]. unfold okif, bad in H. casesH H.
    fin.
  (* KCoinIsPositive *)
  - apply rd_ok_inv in H. destruct H as [v [G H]]. unfold okif, bad in H. casesH H.
    fin.
  (* KDecNotNil *)
  - apply rd_ok_inv in H. destruct H as [v [G H]]. unfold okif, bad in H.
    destruct v; try discriminate. destruct v; [|discriminate]. simpl. rewrite G. reflexivity.
  (* KStrIntPositive *)
  - apply rd_ok_inv in H. destruct H as [v [G H]]. unfold okif, bad in H. casesH H.
    fin.
  (* KStrIntNonNeg *)
  - apply rd_ok_inv in H. destruct H as [v [G H]]. unfold okif, bad in H. casesH H.
    fin.
  (* KStrIsInt64 *)
  - apply rd_ok_inv in H. destruct H as [v [G H]]. unfold okif, bad in H. casesH H.
    fin.
  (* KLenEq *)
  - unfold rd2 in H. apply rd_ok_inv in H. destruct H as [a [G H]].
    apply rd_ok_inv in H. destruct H as [b [G2 H]]. unfold okif, bad in H.
    destruct a; try discriminate; destruct b; try discriminate.
    destruct (Nat.eqb (List.length l) (List.length l0)) eqn:E; [|discriminate].
    simpl. rewrite G, G2. apply PeanoNat.Nat.eqb_eq in E. rewrite E.
    rewrite PeanoNat.Nat.leb_refl. reflexivity.
  (* KIndexGuard *)
  - apply rd_ok_inv in H. destruct H as [v [G H]]. unfold okif, bad in H.
    destruct v; try discriminate. destruct (all_in_range n l) eqn:E; [|discriminate]. simpl. rewrite G, E. reflexivity.
  (* KCoinsAmtNotNil *)
  - apply rd_ok_inv in H. destruct H as [v [G H]]. unfold okif, bad in H.
    destruct v; try discriminate. destruct (coin_amounts_not_nil l) eqn:E; [|discriminate]. simpl. rewrite G, E. reflexivity.
  (* KRouteValidate *)
  - destruct (fixes_patched mf) eqn:Hp; [|reflexivity].
    assert (mf = patched) as ->.
    { destruct mf as [a b c]. unfold fixes_patched in Hp. simpl in Hp.
      apply andb_prop in Hp. destruct Hp as [Hab Hc]. apply andb_prop in Hab. destruct Hab as [Ha Hb].
      subst. reflexivity. }
    apply rd_ok_inv in H. destruct H as [v [G H]]. unfold bad in H.
    destruct v; try discriminate. simpl. rewrite G.
    destruct (route_validate patched r); try discriminate. reflexivity.
Qed.

(* ------------------------------------------------------------------ soundness of the analysis *)
Lemma memf_holds : forall req have f,
  (forall x, In x have -> holdsb n req x = true) -> memf f have = true -> holdsb n req f = true.
Proof.
  intros req have f Hall Hm. unfold memf in Hm. apply existsb_exists in Hm.
  destruct Hm as [x [Hin Heq]]. apply fact_eqb_eq in Heq. subst. apply Hall. exact Hin.
Qed.

Theorem safe_sound : forall cs have req o,
  wf_val req = true ->
  safe have cs = true ->
  (forall f, In f have -> holdsb n req f = true) ->
  run n o cs req <> Panic.
Proof.
  induction cs as [|c tl IH]; intros have req o Hwf Hs Hh; simpl; [discriminate|].
  simpl in Hs. apply andb_prop in Hs. destruct Hs as [Hn Hrest].
  assert (Hneeds : forallb (holdsb n req) (needs c) = true).
  { apply forallb_forall. intros f Hf. rewrite forallb_forall in Hn.
    eapply memf_holds; [exact Hh|]. apply Hn. exact Hf. }
  assert (Hstep : forall o', match exec n c req with
                             | Ok _ => run n o' tl req | Err e => Err e | Panic => Panic end <> Panic).
  { intros o'. pose proof (exec_no_panic c req Hwf Hneeds) as Hnp.
    destruct (exec n c req) as [[]|e|] eqn:He; [|discriminate|contradiction].
    apply (IH (gives c ++ have)); auto.
    intros f Hin. apply in_app_or in Hin. destruct Hin as [Hin|Hin]; [|apply Hh; exact Hin].
    pose proof (exec_gives c req He) as Hg. rewrite forallb_forall in Hg. apply Hg. exact Hin. }
  destruct c; try apply Hstep.
  - (* KMayStop *) destruct o as [|[] o']; try discriminate.
    apply (IH (gives KMayStop ++ have)); auto.
  - (* KDeep *) discriminate.
  - (* KDone *) discriminate.
Qed.

(* ------------------------------------------------------------------ the whole table *)
Definition init_facts (is_query : bool) : list fact := if is_query then [] else [FReq].

(* every head of the repaired tree passes the dominance analysis *)
Lemma heads_safe :
  forallb (fun e => match e with (_, q, cs) => safe (init_facts q) cs end) (specs all_on) = true.
Proof. vm_compute. reflexivity. Qed.

Definition req_present (req : fval) : bool := match req with VMsg false _ => false | _ => true end.

(* No modelled head of the repaired tree panics: for every method, every request value
   (a Msg handler is never called with a nil message; a query may be), every outcome of the
   state-dependent branches. *)
Theorem handlers_total : forall name q cs req o,
  In (name, q, cs) (specs all_on) ->
  wf_val req = true ->
  (q = true \/ req_present req = true) ->
  run n o cs req <> Panic.
Proof.
  intros name q cs req o Hin Hwf Hq.
  pose proof heads_safe as Hs. rewrite forallb_forall in Hs. specialize (Hs _ Hin). simpl in Hs.
  destruct q.
  - apply (safe_sound cs (init_facts true)); [exact Hwf|exact Hs|]. intros f [].
  - destruct Hq as [Hq|Hq]; [discriminate|].
    apply (safe_sound cs (init_facts false)); [exact Hwf|exact Hs|].
    intros f [<-|[]]. unfold holdsb. unfold req_present in Hq. exact Hq.
Qed.

(* the static part is a prefix of the head *)
Local Opaque exec.
Lemma run_static_prefix : forall cs req, run_static n cs req = Panic -> forall o, run n o cs req = Panic.
Proof.
  induction cs as [|c tl IH]; intros req H o; simpl in H; [discriminate|].
  destruct c; try discriminate; simpl;
    match goal with |- context [exec n ?k req] =>
      destruct (exec n k req) as [[]|e|]; [apply IH; exact H|discriminate|reflexivity] end.
Qed.
Local Transparent exec.

Theorem handlers_static_total : forall name q cs req,
  In (name, q, cs) (specs all_on) ->
  wf_val req = true ->
  (q = true \/ req_present req = true) ->
  run_static n cs req <> Panic.
Proof.
  intros name q cs req Hin Hwf Hq H.
  eapply (handlers_total name q cs req []); eauto. apply run_static_prefix. exact H.
Qed.

End WithLen.

(* ------------------------------------------------------------------ coverage of the generated method list *)
(* Gen/Msgs_gen.v is regenerated from x/*/types/{tx,query}.pb.go on every run: every service
   method found there has a head, the head's query flag is right, and every field the head
   reads exists in the request type with the kind the check expects. *)
Definition covered (hf : hfixes) (m : string * bool * sig) : bool :=
  match m with
  | (name, q, sg) =>
      match find_spec name (specs hf) with
      | Some (q', cs) => Bool.eqb q q' && forallb (check_typed sg) cs
      | None => false
      end
  end.

Theorem handlers_covered : forallb (covered all_on) methods_gen = true.
Proof. vm_compute. reflexivity. Qed.

(* the pristine heads are typed against the same signatures *)
Lemma handlers_covered_pristine : forallb (covered all_off) methods_gen = true.
Proof. vm_compute. reflexivity. Qed.

(* no head for a method that does not exist *)
Lemma specs_all_generated :
  forallb (fun e => match e with (n, _, _) =>
             existsb (fun m => match m with (n', _, _) => String.eqb n n' end) methods_gen end)
          (specs all_on) = true.
Proof. vm_compute. reflexivity. Qed.

Lemma find_spec_in : forall name l q cs, find_spec name l = Some (q, cs) -> In (name, q, cs) l.
Proof.
  induction l as [|[[n q'] cs'] tl IH]; intros q cs H; simpl in H; [discriminate|].
  destruct (String.eqb name n) eqn:E.
  - apply String.eqb_eq in E. subst. injection H as <- <-. left. reflexivity.
  - right. apply IH. exact H.
Qed.

(* every generated method has a head, and that head never panics *)
Theorem generated_methods_total : forall name q sg,
  In (name, q, sg) methods_gen ->
  exists cs, In (name, q, cs) (specs all_on) /\
    forall n req o, wf_val req = true -> (q = true \/ req_present req = true) -> run n o cs req <> Panic.
Proof.
  intros name q sg Hin.
  pose proof handlers_covered as Hc. rewrite forallb_forall in Hc. specialize (Hc _ Hin).
  unfold covered in Hc.
  destruct (find_spec name (specs all_on)) as [[q' cs]|] eqn:Hf; [|discriminate].
  apply andb_prop in Hc. destruct Hc as [Hq _]. apply Bool.eqb_prop in Hq. subst q'.
  exists cs. apply find_spec_in in Hf. split; [exact Hf|].
  intros n req o Hwf Hp. eapply handlers_total; eauto.
Qed.

(* ------------------------------------------------------------------ swap interface fee rate *)
(* after repair a rate accepted by Params.Validate leaves 1 - rate non-zero *)
Lemma fee_rate_no_division_by_zero : forall rate, swap_rate_ok true rate = true -> P - rate <> 0.
Proof.
  intros rate H. unfold swap_rate_ok in H. apply andb_prop in H. destruct H as [_ H].
  apply Z.ltb_lt in H. lia.
Qed.
Lemma dec_unit_strict_rate : forall s d,
  dec_unit_strict (VStr s) = true -> si_dec s = Some d -> swap_rate_ok true d = true.
Proof. intros s d H E. unfold dec_unit_strict, str_dec in H. rewrite E in H. exact H. Qed.
(* before repair the rate 1 is accepted and the exact-out fee computation divides by zero *)
Lemma interface_fee_rate_one :
  swap_rate_ok false P = true /\ fee_gross P 1000 = None.
Proof. split; vm_compute; reflexivity. Qed.
Lemma interface_fee_rate_one_rejected : swap_rate_ok true P = false.
Proof. vm_compute. reflexivity. Qed.

(* ------------------------------------------------------------------ the pristine tree: witnesses *)
Definition spec_of (hf : hfixes) (name : string) : list check :=
  match find_spec name (specs hf) with Some (_, cs) => cs | None => [] end.

Definition S0 : strinfo :=
  {| si_empty := false; si_acc := false; si_val := false; si_auth := false; si_int := None;
     si_dec := None; si_denom := false; si_suffix := false |}.
(* a valid account address / validator address / integer string / decimal string *)
Definition Sacc : fval := VStr {| si_empty := false; si_acc := true; si_val := false; si_auth := false;
  si_int := None; si_dec := None; si_denom := true; si_suffix := true |}.
Definition Sval : fval := VStr {| si_empty := false; si_acc := false; si_val := true; si_auth := false;
  si_int := None; si_dec := None; si_denom := true; si_suffix := true |}.
Definition Sempty : fval := VStr {| si_empty := true; si_acc := false; si_val := false; si_auth := false;
  si_int := None; si_dec := None; si_denom := false; si_suffix := false |}.
Definition Sint (z : Z) : fval := VStr {| si_empty := false; si_acc := false; si_val := false; si_auth := false;
  si_int := Some z; si_dec := Some (z * P); si_denom := false; si_suffix := true |}.
Definition Sdec (raw : Z) : fval := VStr {| si_empty := false; si_acc := false; si_val := false; si_auth := false;
  si_int := None; si_dec := Some raw; si_denom := false; si_suffix := false |}.
Definition Sjunk : fval := VStr S0.
Definition good_route : route := RPool urise uusdc (Some 0).

Local Open Scope string_scope.
(* absent math.Int fields (nil *big.Int) *)
Lemma nil_int_convert :
  run 3 [] (spec_of all_off "tokenconverter.Msg.Convert") (VMsg true [Sacc; VInt None]) = Panic.
Proof. vm_compute. reflexivity. Qed.
Lemma nil_int_swap_in :
  run 3 [] (spec_of all_off "swap.Msg.SwapExactAmountIn")
      (VMsg true [Sacc; Sempty; VRoute (Some good_route); VInt None; VInt (Some 1)]) = Panic.
Proof. vm_compute. reflexivity. Qed.
Lemma nil_int_self_delegate :
  run 3 [true] (spec_of all_off "selfdelegation.Msg.SelfDelegate") (VMsg true [Sacc; VInt None]) = Panic.
Proof. vm_compute. reflexivity. Qed.
Lemma negative_self_delegate :
  run 3 [true] (spec_of all_off "selfdelegation.Msg.SelfDelegate") (VMsg true [Sacc; VInt (Some (-1))]) = Panic.
Proof. vm_compute. reflexivity. Qed.
Lemma nil_int_create_position :
  run 3 [true] (spec_of all_off "liquiditypool.Msg.CreatePosition")
      (VMsg true [Sacc; VNum 0; VNum (-10); VNum 10; VMsg true [Sjunk; VInt None]; VMsg true [Sjunk; VInt None];
                  VInt (Some 0); VInt (Some 0)]) = Panic.
Proof. vm_compute. reflexivity. Qed.
Lemma nil_int_undelegate :
  run 3 [true] (spec_of all_off "shareclass.Msg.NonVotingUndelegate")
      (VMsg true [Sacc; Sval; VMsg true [Sjunk; VInt None]; Sempty]) = Panic.
Proof. vm_compute. reflexivity. Qed.
Lemma nil_collateral_amount_da_params :
  exists req, run 3 [] (spec_of all_off "da.Msg.UpdateParams") req = Panic.
Proof.
  exists (VMsg true [VStr {| si_empty := false; si_acc := true; si_val := false; si_auth := true; si_int := None;
                           si_dec := None; si_denom := false; si_suffix := true |};
                     VMsg true [Sdec 0; Sdec 1; VNum 1; Sdec 0; Sdec 0; VNum 1; VNum 1; VNum 1; VNum 1;
                                VList [VMsg true [Sjunk; VInt None]]; VList []; VBytes 1; VBytes 1;
                                VNum 1; VNum 1; VNum 1]]).
  vm_compute. reflexivity.
Qed.
(* swap quote queries: nil route, unvalidated parallel, negative amount *)
Lemma query_nil_route :
  run 3 [] (spec_of all_off "swap.Query.CalculationSwapExactAmountIn") (VMsg true [VNum 0; VRoute None; Sint 5]) = Panic.
Proof. vm_compute. reflexivity. Qed.
Lemma query_unvalidated_parallel :
  run 3 [] (spec_of all_off "swap.Query.CalculationSwapExactAmountIn")
      (VMsg true [VNum 0; VRoute (Some (RParallel urise uusdc true [good_route] [])); Sint 5]) = Panic.
Proof. vm_compute. reflexivity. Qed.
Lemma query_negative_amount :
  run 3 [true] (spec_of all_off "swap.Query.CalculationSwapExactAmountOut")
      (VMsg true [VNum 0; VRoute (Some good_route); Sint (-5)]) = Panic.
Proof. vm_compute. reflexivity. Qed.
(* other queries *)
Lemma query_vote_bad_address :
  run 3 [] (spec_of all_off "liquidityincentive.Query.Vote") (VMsg true [Sjunk]) = Panic.
Proof. vm_compute. reflexivity. Qed.
Lemma query_share_bad_validator :
  run 3 [] (spec_of all_off "shareclass.Query.CalculateShare") (VMsg true [Sjunk; VInt (Some 1)]) = Panic.
Proof. vm_compute. reflexivity. Qed.
Lemma query_tick_out_of_int64 :
  run 3 [true] (spec_of all_off "liquiditypool.Query.CalculationCreatePosition")
      (VMsg true [VNum 0; Sint (2 ^ 64); Sint 5; Sint 1; Sjunk]) = Panic.
Proof. vm_compute. reflexivity. Qed.
Lemma query_shard_count_overflow :
  run 3 [] (spec_of all_off "da.Query.ZkpProofThreshold") (VMsg true [VNum (2 ^ 63)]) = Panic.
Proof. vm_compute. reflexivity. Qed.
(* messages *)
Lemma proof_negative_index :
  run 3 [true; true; true] (spec_of all_off "da.Msg.SubmitValidityProof")
      (VMsg true [Sacc; Sval; Sjunk; VList [VNum (-1)]; VList [VBytes 128]]) = Panic.
Proof. vm_compute. reflexivity. Qed.
Lemma vote_gauge_weight_overflow :
  run 3 [] (spec_of all_off "liquidityincentive.Msg.VoteGauge")
      (VMsg true [Sacc; VList [VMsg true [VNum 0; Sdec DEC_LIM]; VMsg true [VNum 1; Sdec DEC_LIM]]]) = Panic.
Proof. vm_compute. reflexivity. Qed.

(* the same requests are answered with an error by the repaired heads *)
Lemma repaired_answers :
  run 3 [] (spec_of all_on "tokenconverter.Msg.Convert") (VMsg true [Sacc; VInt None]) = Err E_HEAD /\
  run 3 [] (spec_of all_on "swap.Query.CalculationSwapExactAmountIn") (VMsg true [VNum 0; VRoute None; Sint 5]) = Err E_HEAD /\
  run 3 [] (spec_of all_on "liquidityincentive.Query.Vote") (VMsg true [Sjunk]) = Err E_HEAD /\
  run 3 [true; true; true] (spec_of all_on "da.Msg.SubmitValidityProof")
      (VMsg true [Sacc; Sval; Sjunk; VList [VNum (-1)]; VList [VBytes 128]]) = Err E_HEAD /\
  run 3 [] (spec_of all_on "liquidityincentive.Msg.VoteGauge")
      (VMsg true [Sacc; VList [VMsg true [VNum 0; Sdec DEC_LIM]; VMsg true [VNum 1; Sdec DEC_LIM]]]) = Err E_HEAD.
Proof. vm_compute. repeat split; reflexivity. Qed.

Local Close Scope string_scope.
(* ------------------------------------------------------------------ LiquidityBase / LiquidityQuote *)
(* the early return on a zero price difference is what keeps them from dividing by zero, for
   every amount and every pair of prices (in particular the zero-width pair a query can send) *)
Theorem liq_base_no_division_by_zero : forall amount sa sb, liq_base true amount sa sb <> DDivZero.
Proof.
  intros amount sa sb. unfold liq_base. destruct (order2 sa sb) as [a b].
  destruct (dmul a b); [|discriminate]. destruct (dsub b a) as [diff|]; [|discriminate].
  destruct (diff =? 0) eqn:E; simpl; [discriminate|].
  destruct (dmul (dec_of_int amount) z); [|discriminate]. destruct (dquo z0 diff); discriminate.
Qed.
Theorem liq_quote_no_division_by_zero : forall amount sa sb, liq_quote true amount sa sb <> DDivZero.
Proof.
  intros amount sa sb. unfold liq_quote. destruct (order2 sa sb) as [a b].
  destruct (dsub b a) as [diff|]; [|discriminate].
  destruct (diff =? 0) eqn:E; simpl; [discriminate|]. destruct (dquo (dec_of_int amount) diff); discriminate.
Qed.
(* zero width gives zero liquidity, not a panic *)
Lemma liq_zero_width : forall amount s, Z.abs (chop_round (s * s)) <= DEC_LIM ->
  liq_base true amount s s = DOk 0 /\ liq_quote true amount s s = DOk 0.
Proof.
  intros amount s H. unfold liq_base, liq_quote, order2. rewrite Z.ltb_irrefl.
  unfold dmul, dsub, chk, in_range. apply Z.leb_le in H. rewrite H. rewrite Z.sub_diag. simpl. split; reflexivity.
Qed.
(* without the early return the zero-width input divides by zero: price 1 on both sides *)
Lemma liq_base_without_guard_divides_by_zero : liq_base false 1000 P P = DDivZero.
Proof. vm_compute. reflexivity. Qed.
Lemma liq_quote_without_guard_divides_by_zero : liq_quote false 1000 P P = DDivZero.
Proof. vm_compute. reflexivity. Qed.

(* the same functions in the AMM model of C02-C06 (Amm/Math.v, None = any panic) *)
From Sunrise Require Amm.Math.
Lemma liq_base_agrees_with_amm : forall amount sa sb,
  Amm.Math.liquidity_base amount sa sb =
  match liq_base true amount sa sb with DOk z => Some z | _ => None end.
Proof.
  intros. unfold Amm.Math.liquidity_base, liq_base, Amm.Math.order, order2.
  destruct (sb <? sa); simpl;
    (destruct (dmul _ _) as [pr|]; simpl; [|reflexivity];
     destruct (dsub _ _) as [diff|]; simpl; [|reflexivity];
     destruct (diff =? 0) eqn:E; simpl; [reflexivity|];
     destruct (dmul (dec_of_int amount) pr) as [m|]; simpl; [|reflexivity];
     destruct (dquo m diff); reflexivity).
Qed.
Lemma liq_quote_agrees_with_amm : forall amount sa sb,
  Amm.Math.liquidity_quote amount sa sb =
  match liq_quote true amount sa sb with DOk z => Some z | _ => None end.
Proof.
  intros. unfold Amm.Math.liquidity_quote, liq_quote, Amm.Math.order, order2.
  destruct (sb <? sa); simpl;
    (destruct (dsub _ _) as [diff|]; simpl; [|reflexivity];
     destruct (diff =? 0) eqn:E; simpl; [reflexivity|];
     destruct (dquo (dec_of_int amount) diff); reflexivity).
Qed.

(* ------------------------------------------------------------------ the shard index check *)
(* the check of the source, on the unbounded index: what it accepts is a valid index *)
Lemma idx_ok_sound : forall n j, idx_ok n j = true -> 0 <= j < n.
Proof. intros n j H. unfold idx_ok in H. apply andb_prop in H. destruct H as [H1 H2]. apply Z.leb_le in H1. apply Z.ltb_lt in H2. lia. Qed.
Lemma idx_ok_complete : forall n j, 0 <= j < n -> idx_ok n j = true.
Proof. intros n j H. unfold idx_ok. apply andb_true_intro. split; [apply Z.leb_le|apply Z.ltb_lt]; lia. Qed.
(* a comparison of the values truncated to 32 unsigned bits accepts indices that are not valid:
   the bound must be checked at the width of the index *)
Lemma idx_ok_u32_unsound :
  idx_ok_u32 3 (2 ^ 32) = true /\ idx_ok 3 (2 ^ 32) = false /\
  idx_ok_u32 3 (- 2 ^ 63) = true /\ idx_ok 3 (- 2 ^ 63) = false /\
  idx_ok_u32 3 (2 ^ 40 + 1) = true /\ idx_ok 3 (2 ^ 40 + 1) = false.
Proof. vm_compute. repeat split; reflexivity. Qed.
(* SubmitValidityProof with every state-dependent branch passed: whatever the stored length and
   the indices, the repaired head answers an out-of-range index with an error and never indexes
   outside the slice *)
Lemma proof_index_checked : forall n idx,
  let req := VMsg true [Sacc; Sval; Sjunk; VList (map VNum idx); VList (map (fun _ => VBytes 128) idx)] in
  run n [true; true; true] (spec_of all_on "da.Msg.SubmitValidityProof"%string) req =
  if forallb (idx_ok n) idx then Ok tt else Err E_HEAD.
Proof.
  intros n idx req. unfold req.
  assert (Hlen : Nat.eqb (List.length (map VNum idx)) (List.length (map (fun _ : Z => VBytes 128) idx)) = true)
    by (rewrite !map_length; apply PeanoNat.Nat.eqb_refl).
  assert (Hlt : (List.length (map (fun _ : Z => VBytes 128) idx) <? List.length (map VNum idx))%nat = false)
    by (rewrite !map_length; apply PeanoNat.Nat.ltb_irrefl).
  assert (Hall : all_in_range n (map VNum idx) = forallb (idx_ok n) idx)
    by (clear Hlen Hlt; unfold all_in_range; induction idx as [|j tl IH]; simpl; [reflexivity|rewrite IH; reflexivity]).
  cbv [spec_of find_spec specs String.eqb Ascii.eqb Bool.eqb g u all_on hf_on app].
  simpl. unfold rd2, rd. simpl. unfold okif. rewrite Hlen, Hlt, Hall.
  destruct (forallb (idx_ok n) idx); reflexivity.
Qed.

(* ------------------------------------------------------------------ pool parameters *)
(* the accepted base offsets form the OPEN interval (-1, 1) ... *)
Lemma pool_offset_open : forall d, pool_offset_ok d = true <-> - P < d < P.
Proof. intros d. unfold pool_offset_ok. rewrite Z.ltb_lt. lia. Qed.
(* ... so the integer part of the exponent handed to Pow is 0: the conversion to uint64 for
   LegacyDec.Power never sees a negative number *)
Lemma pool_offset_integer_part : forall d, pool_offset_ok d = true -> pow_integer_part d = 0.
Proof.
  intros d H. apply pool_offset_open in H. unfold pow_integer_part.
  destruct (Z.le_gt_cases 0 d) as [Hd|Hd].
  - apply Z.quot_small. lia.
  - rewrite <- (Z.opp_involutive d), Z.quot_opp_l by (unfold P; lia).
    rewrite Z.quot_small by lia. reflexivity.
Qed.
(* a closed interval accepts -1, whose integer part is -1 (as a uint64: 2^64 - 1, Power overflows) *)
Lemma pool_offset_closed_interval_unsound :
  pool_offset_ok_closed (- P) = true /\ pool_offset_ok (- P) = false /\ pow_integer_part (- P) = -1.
Proof. vm_compute. repeat split; reflexivity. Qed.
Lemma pool_fee_range : forall d, pool_fee_ok d = true <-> 0 <= d < P.
Proof. intros d. unfold pool_fee_ok. rewrite andb_true_iff, Z.leb_le, Z.ltb_lt. tauto. Qed.
Lemma pool_ratio_range : forall d, pool_ratio_ok d = true <-> MIN_PRICE_RATIO <= d <= MAX_PRICE_RATIO.
Proof. intros d. unfold pool_ratio_ok. rewrite andb_true_iff, !Z.leb_le. tauto. Qed.

(* Msg/CreatePool is accepted exactly when the authority parses, both denoms are valid and the
   three decimals parse into the ranges above *)
Lemma create_pool_accepts : forall n auth db dq fee ratio off,
  static_done n (spec_of all_on "liquiditypool.Msg.CreatePool"%string)
              (VMsg true [VStr auth; VStr db; VStr dq; VStr fee; VStr ratio; VStr off]) = true ->
  si_acc auth = true /\ si_denom db = true /\ si_denom dq = true /\
  (exists f, si_dec fee = Some f /\ 0 <= f < P) /\
  (exists r, si_dec ratio = Some r /\ MIN_PRICE_RATIO <= r <= MAX_PRICE_RATIO) /\
  (exists o, si_dec off = Some o /\ - P < o < P /\ pow_integer_part o = 0).
Proof.
  intros n auth db dq fee ratio off H.
  cbv [spec_of find_spec specs String.eqb Ascii.eqb Bool.eqb g u all_on hf_on app] in H.
  simpl in H. unfold rd, okif in H. simpl in H.
  destruct (si_acc auth); [|discriminate]. destruct (si_denom db); [|discriminate]. destruct (si_denom dq); [|discriminate].
  unfold dec_ok, dec_pool_fee, dec_pool_ratio, dec_pool_offset, str_dec in H.
  destruct (si_dec fee) as [f|]; [|discriminate]. destruct (si_dec ratio) as [r|]; [|discriminate].
  destruct (si_dec off) as [o|]; [|discriminate]. simpl in H.
  destruct (pool_fee_ok f) eqn:Hf; [|discriminate]. destruct (pool_ratio_ok r) eqn:Hr; [|discriminate].
  destruct (pool_offset_ok o) eqn:Ho; [|discriminate].
  repeat split; auto.
  - exists f. split; [reflexivity|]. apply pool_fee_range. exact Hf.
  - exists r. split; [reflexivity|]. apply pool_ratio_range. exact Hr.
  - exists o. split; [reflexivity|]. split; [apply pool_offset_open; exact Ho|apply pool_offset_integer_part; exact Ho].
Qed.
