package c15

import (
	"fmt"
	"strings"

	swaptypes "github.com/sunriselayer/sunrise/x/swap/types"

	"verifharness/c15/shape"
	"verifharness/emit"
)

// pool graph of the world: pool id -> (base, quote)
var poolDenoms = [][2]string{{"urise", "uusdc"}, {"uusdc", "uatom"}}

// every pool of the world, by id (see setup)
var allPoolDenoms = [][2]string{{"urise", "uusdc"}, {"uusdc", "uatom"}, {"uatom", "uosmo"}, {"urise", "uatom"}, {"urise", "uosmo"}, {"uusdc", "uosmo"}}

func poolRoute(in, out string, id uint64) swaptypes.Route {
	return swaptypes.Route{DenomIn: in, DenomOut: out, Strategy: &swaptypes.Route_Pool{Pool: &swaptypes.RoutePool{PoolId: id}}}
}

var weightStrings = []string{"1", "2", "0.5", "0.25", "3", "10", "0.000000000000000001", "1000000"}
var badWeightStrings = []string{"", "0", "-1", "abc", "1e5", "0.0000000000000000001", " 1", "0x1",
	"60000000000000000000000000000000000000000000000000000000000000000000000000000", // ~2^255: parses, overflows in arithmetic
	"115792089237316195423570985008687907853269984665640564039457584007913129639936000"}

// genRoute builds a valid route starting from denomIn (falls back to a single hop through pool 0
// or 1 with matching denoms when denomIn is not in the graph: then the pool lookup fails later).
func (w *world) genRoute(r *emit.Rand, denomIn string, depth int) *swaptypes.Route {
	hop := func(in string) (swaptypes.Route, string) {
		for id, d := range poolDenoms {
			if d[0] == in {
				return poolRoute(in, d[1], uint64(id)), d[1]
			}
			if d[1] == in {
				return poolRoute(in, d[0], uint64(id)), d[0]
			}
		}
		return poolRoute(in, "uusdc", 0), "uusdc"
	}
	switch k := r.Intn(6); {
	case k < 3 || depth <= 0:
		rt, _ := hop(denomIn)
		return &rt
	case k < 5: // series of two hops through distinct pools when possible
		first, mid := hop(denomIn)
		var second swaptypes.Route
		out := mid
		found := false
		for id, d := range poolDenoms {
			used := first.Strategy.(*swaptypes.Route_Pool).Pool.PoolId
			if uint64(id) == used {
				continue
			}
			if d[0] == mid {
				second, out, found = poolRoute(mid, d[1], uint64(id)), d[1], true
			} else if d[1] == mid {
				second, out, found = poolRoute(mid, d[0], uint64(id)), d[0], true
			}
		}
		if !found {
			return &first
		}
		return &swaptypes.Route{DenomIn: denomIn, DenomOut: out, Strategy: &swaptypes.Route_Series{Series: &swaptypes.RouteSeries{Routes: []swaptypes.Route{first, second}}}}
	default: // parallel with a single branch (distinct pools for one denom pair do not exist in the world) or nested
		rt, out := hop(denomIn)
		inner := rt
		if r.Bool() {
			inner = swaptypes.Route{DenomIn: denomIn, DenomOut: out, Strategy: &swaptypes.Route_Series{Series: &swaptypes.RouteSeries{Routes: []swaptypes.Route{rt}}}}
		}
		return &swaptypes.Route{DenomIn: denomIn, DenomOut: out, Strategy: &swaptypes.Route_Parallel{Parallel: &swaptypes.RouteParallel{
			Routes: []swaptypes.Route{inner}, Weights: []string{weightStrings[r.Intn(len(weightStrings))]}}}}
	}
}

var badDenoms = []string{"", "a", "ab", "1abc", "u$d", "urise ", "\xff\xfe", strings.Repeat("a", 129), "💥"}

// mutateRoute damages one place of a route tree: nil pointers, empty lists, weights, denoms, pool reuse.
func mutateRoute(r *emit.Rand, rt *swaptypes.Route, depth int) string {
	// descend into a child sometimes
	switch s := rt.Strategy.(type) {
	case *swaptypes.Route_Series:
		if s.Series != nil && len(s.Series.Routes) > 0 && r.Bool() {
			return mutateRoute(r, &s.Series.Routes[r.Intn(len(s.Series.Routes))], depth+1)
		}
	case *swaptypes.Route_Parallel:
		if s.Parallel != nil && len(s.Parallel.Routes) > 0 && r.Bool() {
			return mutateRoute(r, &s.Parallel.Routes[r.Intn(len(s.Parallel.Routes))], depth+1)
		}
	}
	switch r.Intn(12) {
	case 0:
		rt.Strategy = nil
		return "nostrategy"
	case 1:
		rt.Strategy = &swaptypes.Route_Pool{}
		return "nilpool"
	case 2:
		rt.Strategy = &swaptypes.Route_Series{}
		return "nilseries"
	case 3:
		rt.Strategy = &swaptypes.Route_Parallel{}
		return "nilparallel"
	case 4:
		rt.Strategy = &swaptypes.Route_Series{Series: &swaptypes.RouteSeries{}}
		return "emptyseries"
	case 5:
		rt.Strategy = &swaptypes.Route_Parallel{Parallel: &swaptypes.RouteParallel{}}
		return "emptyparallel"
	case 6: // wrap into a parallel with wrong weights
		inner := *rt
		ws := [][]string{{}, {"1", "1"}, {"0"}, {"0", "0"}, {badWeightStrings[r.Intn(len(badWeightStrings))]}, {"1", "1", "1"}}[r.Intn(6)]
		routes := []swaptypes.Route{inner}
		if r.Bool() {
			routes = append(routes, inner) // same pool twice: reuse
		}
		rt.Strategy = &swaptypes.Route_Parallel{Parallel: &swaptypes.RouteParallel{Routes: routes, Weights: ws}}
		return "badweights"
	case 7: // pool reuse through a there-and-back series
		inner := *rt
		back := inner
		back.DenomIn, back.DenomOut = inner.DenomOut, inner.DenomIn
		rt.DenomOut = inner.DenomIn
		rt.Strategy = &swaptypes.Route_Series{Series: &swaptypes.RouteSeries{Routes: []swaptypes.Route{inner, back}}}
		return "reuse"
	case 8:
		rt.DenomIn = badDenoms[r.Intn(len(badDenoms))]
		return "baddenomin"
	case 9:
		rt.DenomOut = badDenoms[r.Intn(len(badDenoms))]
		return "baddenomout"
	case 10: // denom chain broken
		rt.DenomOut = "uosmo"
		return "denommismatch"
	default: // deep nesting
		n := 1 + r.Intn(30)
		for i := 0; i < n; i++ {
			inner := *rt
			if r.Bool() {
				rt.Strategy = &swaptypes.Route_Series{Series: &swaptypes.RouteSeries{Routes: []swaptypes.Route{inner}}}
			} else {
				rt.Strategy = &swaptypes.Route_Parallel{Parallel: &swaptypes.RouteParallel{Routes: []swaptypes.Route{inner}, Weights: []string{"1"}}}
			}
		}
		return "deep"
	}
}

// genAnyRoute: mostly valid routes, otherwise one mutation; sometimes a nil route.
func (w *world) genAnyRoute(r *emit.Rand) (*swaptypes.Route, string) {
	if r.Chance(1, 25) {
		return nil, "nilroute"
	}
	rt := w.genRoute(r, emit.Pick(r, "urise", "uusdc", "uatom", "uosmo"), 2)
	if r.Chance(2, 5) {
		return rt, "valid"
	}
	return rt, mutateRoute(r, rt, 0)
}

// runRoute calls the real Route.Validate.
func (w *world) runRoute(rt *swaptypes.Route, tag string) (string, map[string]any, string) {
	cls, det := guard(func() error { return rt.Validate() })
	code := map[string]int{clsOk: 0, clsErr: 1, clsPanic: 2}[cls]
	info := map[string]any{"kind": "route", "tag": tag, "route": fmt.Sprintf("%v", rt), "class": cls}
	if det != "" {
		if len(det) > 200 {
			det = det[:200]
		}
		info["detail"] = det
	}
	return fmt.Sprintf("CRoute %s %d", shape.RouteOpt(rt), code), info, cls
}
