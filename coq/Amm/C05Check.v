(* C05: swap pricing vs the exact curve; monitors on observed values. *)
From Coq Require Import ZArith QArith List Bool.
Import ListNotations.
From Sunrise Require Export Amm.AmmCheck Amm.Exact.
Local Open Scope Z_scope.

(* number of initialised ticks the swap can cross (upper bound on loop steps) *)
Definition steps_bound (s : amm) (denom_in : Z) : Z :=
  Z.of_nat (length (iter_ticks (denom_in =? 0) (a_ticks s) (p_tick (a_pool s)))) + 1.

(* probe: [exact_in?; specified; impl_in; impl_out; floor/ceil exact; steps] for Ok swaps *)
Definition c05_probe (c : amm_case) : list Z :=
  match c_op c, c_res c with
  | OSwap true di _ sp, Ok [i; o] =>
      match exact_out_given_in (c_pre c) di sp with
      | Some (out, rem) => [1; sp; i; o; floorQ out; floorQ rem; steps_bound (c_pre c) di]
      | None => [1; sp; i; o; -1; -1; 0]
      end
  | OSwap false di _ sp, Ok [i; o] =>
      match exact_in_given_out (c_pre c) di sp with
      | Some (inp, rem) => [0; sp; i; o; ceilQ inp; floorQ rem; steps_bound (c_pre c) di]
      | None => [0; sp; i; o; -1; -1; 0]
      end
  | _, _ => []
  end.
Definition probe_all (cs : list amm_case) := filter (fun l => match l with [] => false | _ => true end) (map c05_probe cs).

(* ---------------- cases and monitors ---------------- *)
Inductive c05_case :=
| C5Step (c : amm_case)
| C5Mono (s : amm) (exact_in : bool) (di x1 r1 x2 r2 : Z)    (* two quotes on one state, x1 <= x2; r = -1: error *)
| C5Round (s : amm) (di x y x' : Z)                          (* x of denom di -> y of the other; y back -> x' *)
| C5Bucket (b4q exact_in : bool) (fee sp target liq rem : Z) (obs : option (Z * Z * Z * Z)).

Definition total_liq (s : amm) : Z := fold_right (fun p acc => pos_liq p + acc) 0 (a_positions s).
Definition PP : Z := P * P.

(* the stated loss bound (in whole units of the output denom) of an exact-input swap:
   per loop step, three units of final/step rounding, one price ulp (10^-18) times the
   liquidity (for base output further divided by the squared price), and the value of ONE UNIT
   OF THE INPUT token at the pre-swap price (the most favourable price of the path): the input
   consumed by a step that reaches its target is rounded up to a whole unit
   (C05_quote_amount_in_rounded_up). Where one input unit is worth many output units (a quote
   token of few decimals against a base token of many: price far below 1) that term dominates. *)
Definition loss_bound (s : amm) (di : Z) : Z :=
  let steps := steps_bound s di in
  let l := total_liq s + p_liq (a_pool s) in
  let sp2 := p_sqrt (a_pool s) * p_sqrt (a_pool s) in
  if di =? 0 then steps * (4 + l / PP + sp2 / PP)
  else steps * (4 + l / (sp2 + 1) + l / PP + PP / (sp2 + 1)).
(* same for the input of an exact-output swap (base input when di = 0: divided by the squared price,
   which only falls during the swap: use the post-state price) *)
Definition over_bound (pre post : amm) (di : Z) : Z :=
  let steps := steps_bound pre di in
  let l := total_liq pre + p_liq (a_pool pre) in
  let fee_div := P - p_fee (a_pool pre) in
  let core := if di =? 0 then steps * (3 + l / (p_sqrt (a_pool post) * p_sqrt (a_pool post) + 1) + l / PP)
              else steps * (3 + l / PP) in
  (core * P) / fee_div + steps + 3.

(* monitor 1: exact-input output never beats the exact curve; monitor 2: and is within the bound *)
Definition mon_out_le_exact (c : amm_case) : bool :=
  match c_op c, c_res c with
  | OSwap true di _ sp, Ok [i; o] =>
      if negb (i =? sp) then true else
      match exact_out_given_in (c_pre c) di sp with
      | Some (out, rem) => if Qeq_bool rem 0 then o <=? floorQ out else true
      | None => true end
  | _, _ => true end.
Definition mon_out_within_bound (c : amm_case) : bool :=
  match c_op c, c_res c with
  | OSwap true di _ sp, Ok [i; o] =>
      if negb (i =? sp) then true else
      match exact_out_given_in (c_pre c) di sp with
      | Some (out, rem) => if Qeq_bool rem 0 then floorQ out - loss_bound (c_pre c) di <=? o else true
      | None => true end
  | _, _ => true end.
(* monitor 3/4: exact-output input is at least exact, and within the bound *)
Definition mon_in_ge_exact (c : amm_case) : bool :=
  match c_op c, c_res c with
  | OSwap false di _ sp, Ok [i; o] =>
      if negb (o =? sp) then true else
      match exact_in_given_out (c_pre c) di sp with
      | Some (inp, rem) => if Qeq_bool rem 0 then ceilQ inp <=? i else true
      | None => true end
  | _, _ => true end.
Definition mon_in_within_bound (c : amm_case) : bool :=
  match c_op c, c_res c with
  | OSwap false di _ sp, Ok [i; o] =>
      if negb (o =? sp) then true else
      match exact_in_given_out (c_pre c) di sp with
      | Some (inp, rem) => if Qeq_bool rem 0 then i <=? ceilQ inp + over_bound (c_pre c) (c_post c) di else true
      | None => true end
  | _, _ => true end.
(* monitor 5: the price moves in the direction of the trade and stays within the price bounds *)
Definition mon_direction (c : amm_case) : bool :=
  match c_op c, c_res c with
  | OSwap _ di _ _, Ok _ =>
      let s0 := p_sqrt (a_pool (c_pre c)) in let s1 := p_sqrt (a_pool (c_post c)) in
      (if di =? 0 then s1 <=? s0 else s0 <=? s1) && (MIN_SQRT_PRICE <=? s1) && (s1 <=? MAX_SQRT_PRICE)
  | _, _ => true end.

Definition quote_val (r : res Z) : Z := match r with Ok v => v | _ => -1 end.
Definition fuel_out {A} (r : res A) : bool := match r with Err e => e =? E_FUEL | _ => false end.
Definition mono_corr (s : amm) (ei : bool) (di x1 r1 x2 r2 : Z) : bool :=
  let q1 := quote_swap s ei di (1 - di) x1 true in
  let q2 := quote_swap s ei di (1 - di) x2 true in
  (fuel_out q1 || (quote_val q1 =? r1)) && (fuel_out q2 || (quote_val q2 =? r2)).
(* monitor 6: output monotone in input (exact-in); input monotone in output (exact-out) *)
Definition mon_mono (x1 r1 x2 r2 : Z) : bool :=
  if (0 <=? r1) && (0 <=? r2) && (x1 <=? x2) then r1 <=? r2 else true.

Definition round_corr (s : amm) (di x y x' : Z) : bool :=
  match swap s true di (1 - di) x true with
  | Ok (s1, _, o1) =>
      if negb (o1 =? y) then false else
      match swap s1 true (1 - di) di y true with
      | Ok (_, _, o2) => o2 =? x'
      | r => fuel_out r || (x' =? -1)
      end
  | r => fuel_out r || (y =? -1)
  end.
(* monitor 7: there and back never returns more than was put in *)
Definition mon_round (x y x' : Z) : bool := if (0 <=? y) && (0 <=? x') then x' <=? x else true.

Definition bucket_corr (b4q ei : bool) (fee sp target liq rem : Z) (obs : option (Z * Z * Z * Z)) : bool :=
  match (if ei then step_out_given_in b4q else step_in_given_out b4q) fee sp target liq rem, obs with
  | Some (a, b, c, d), Some (a', b', c', d') => (a =? a') && (b =? b') && (c =? c') && (d =? d')
  | None, None => true
  | _, _ => false
  end.
(* monitor 8 (per bucket step, on observed values): the fee is at least rate x gross input on steps
   that reach their target (and on every exact-output step), and the
   quote-side amount is within half an ulp of liquidity x price move *)
Definition mon_bucket (b4q ei : bool) (fee sp target liq rem : Z) (obs : option (Z * Z * Z * Z)) : bool :=
  match obs with
  | None => true
  | Some (next, spec, other, fc) =>
      let amt_in := if ei then spec else other in
      let amt_out := if ei then other else spec in
      let reached := next =? target in
      (if (0 <=? fee) && (fee <? P) && (0 <=? amt_in) && (reached || negb ei)
       then fee * (amt_in + fc) <=? fc * P else true) &&
      (let quote_amt := if b4q then amt_out else amt_in in
       if b4q && ei && (0 <=? liq) then 2 * Z.abs (quote_amt * P - Z.abs (next - sp) * liq) <=? P else true) &&
      (* the price never moves against the trade, and a step that does not move it pays nothing out *)
      (if b4q then next <=? sp else sp <=? next) &&
      (if next =? sp then amt_out =? 0 else true)
  end.

Definition c05_check (c : c05_case) : list Z :=
  match c with
  | C5Step c => flag 0 (corr c) ++ flag 1 (mon_out_le_exact c) ++ flag 2 (mon_out_within_bound c) ++
                flag 3 (mon_in_ge_exact c) ++ flag 4 (mon_in_within_bound c) ++ flag 5 (mon_direction c)
  | C5Mono s ei di x1 r1 x2 r2 => flag 0 (mono_corr s ei di x1 r1 x2 r2) ++ flag 6 (mon_mono x1 r1 x2 r2)
  | C5Round s di x y x' => flag 0 (round_corr s di x y x') ++ flag 7 (mon_round x y x')
  | C5Bucket b4q ei fee sp target liq rem obs =>
      flag 0 (bucket_corr b4q ei fee sp target liq rem obs) ++ flag 8 (mon_bucket b4q ei fee sp target liq rem obs)
  end.
Definition run := run_cases c05_check.
