(* The delegator-deduction tally shared by
     - cosmossdk.io/x/gov v0.2.0-rc.1 keeper/tally.go  defaultCalculateVoteResultsAndVotingPower
     - /repo app/gov/gov.go                             ProvideCalculateVoteResultsAndVotingPowerFn
     - /repo x/liquidityincentive/keeper/keeper_tally.go Tally
   All three run the same two passes over a map validator -> (bonded tokens, delegator shares,
   deductions, own vote):
     pass 1, per vote in store order: record the vote if the voter is a validator operator;
             for every delegation of the voter to a validator of the map: deductions += shares,
             power = shares.MulInt(tokens).Quo(delegatorShares), results[key] += power.Mul(weight)
             for every weighted key of the vote, total += power;
     pass 2, per validator that voted: power = (shares - deductions).MulInt(tokens).Quo(shares),
             same accumulation with the validator's own weights.
   Keys are vote options (gov) or pool ids (gauges). Arithmetic is LegacyDec (Base/Dec.v); every
   range assertion / division by zero of the Go code is a [None] here (= panic).
   Addresses are integers chosen by the harness; a validator operator and the account with the
   same address bytes carry the same integer. *)
From Coq Require Import ZArith Bool List.
Import ListNotations.
From Sunrise Require Import Base.Outcome Base.Dec.
Local Open Scope Z_scope.
Local Open Scope res_scope.

(* a bonded validator as the tally sees it *)
Record val := { v_id : Z; v_tok : Z (* BondedTokens, math.Int *); v_sh : Z (* DelegatorShares, raw dec *) }.

(* ValidatorGovInfo *)
Record vinfo := { vi_id : Z; vi_tok : Z; vi_sh : Z; vi_ded : Z; vi_vote : list (Z * Z) }.

(* one stored vote: voter, weighted keys (key, raw dec weight), and the voter's delegations
   (validator id, raw dec shares) in the order staking's IterateDelegations yields them *)
Record ballot := { b_voter : Z; b_w : list (Z * Z); b_dels : list (Z * Z) }.

Definition init_vi (v : val) : vinfo :=
  {| vi_id := v_id v; vi_tok := v_tok v; vi_sh := v_sh v; vi_ded := 0; vi_vote := [] |}.
Definition set_ded (vi : vinfo) (d : Z) : vinfo :=
  {| vi_id := vi_id vi; vi_tok := vi_tok vi; vi_sh := vi_sh vi; vi_ded := d; vi_vote := vi_vote vi |}.
Definition set_vote (vi : vinfo) (w : list (Z * Z)) : vinfo :=
  {| vi_id := vi_id vi; vi_tok := vi_tok vi; vi_sh := vi_sh vi; vi_ded := vi_ded vi; vi_vote := w |}.

(* the Go map, as an association list with distinct ids *)
Fixpoint find_vi (id : Z) (vis : list vinfo) : option vinfo :=
  match vis with
  | [] => None
  | vi :: tl => if vi_id vi =? id then Some vi else find_vi id tl
  end.
Fixpoint upd_vi (nv : vinfo) (vis : list vinfo) : list vinfo :=
  match vis with
  | [] => []
  | vi :: tl => if vi_id vi =? vi_id nv then nv :: tl else vi :: upd_vi nv tl
  end.

(* results map key -> Dec, kept sorted by key (the gauge tally sorts by pool id at the end; the
   gov tally reads five fixed keys). A missing key is the nil Dec replaced by zero. *)
Fixpoint radd (k v : Z) (m : list (Z * Z)) : option (list (Z * Z)) :=
  match m with
  | [] => Some [(k, v)]
  | (k', v') :: tl =>
      if k =? k' then (let? s := dadd v' v in Some ((k', s) :: tl))
      else if k <? k' then Some ((k, v) :: m)
      else (let? tl' := radd k v tl in Some ((k', v') :: tl'))
  end.
Fixpoint rget (k : Z) (m : list (Z * Z)) : Z :=
  match m with
  | [] => 0
  | (k', v') :: tl => if k =? k' then v' else rget k tl
  end.
Definition rsum (m : list (Z * Z)) : Z := fold_right (fun kv a => snd kv + a) 0 m.

Fixpoint ofold {A B} (f : A -> B -> option A) (l : list B) (a : A) : option A :=
  match l with
  | [] => Some a
  | x :: tl => let? a' := f a x in ofold f tl a'
  end.

(* shares * tokens / delegatorShares:  shares.MulInt(tokens).Quo(delegatorShares) *)
Definition power (sh tok tsh : Z) : option Z :=
  let? m := dmul_int sh tok in dquo m tsh.

(* results[key] += power.Mul(weight) for every weighted key *)
Fixpoint apply_w (vp : Z) (w : list (Z * Z)) (res : list (Z * Z)) : option (list (Z * Z)) :=
  match w with
  | [] => Some res
  | (k, wt) :: tl =>
      let? sub := dmul vp wt in
      let? res' := radd k sub res in
      apply_w vp tl res'
  end.

Definition tstate : Type := list vinfo * list (Z * Z) * Z.   (* validators, results, total power *)

Definition deleg_step (w : list (Z * Z)) (st : tstate) (d : Z * Z) : option tstate :=
  let '(vis, res, tot) := st in
  let '(vid, sh) := d in
  match find_vi vid vis with
  | None => Some st
  | Some vi =>
      let? ded := dadd (vi_ded vi) sh in
      let vis' := upd_vi (set_ded vi ded) vis in
      let? vp := power sh (vi_tok vi) (vi_sh vi) in
      let? res' := apply_w vp w res in
      let? tot' := dadd tot vp in
      Some (vis', res', tot')
  end.

Definition ballot_step (st : tstate) (b : ballot) : option tstate :=
  let '(vis, res, tot) := st in
  let vis1 := match find_vi (b_voter b) vis with
              | Some vi => upd_vi (set_vote vi (b_w b)) vis
              | None => vis
              end in
  ofold (deleg_step (b_w b)) (b_dels b) (vis1, res, tot).

Definition phase1 (bs : list ballot) (st : tstate) : option tstate := ofold ballot_step bs st.

(* pass 2. Go ranges over the map in unspecified order; all additions are exact, so the result
   does not depend on it. *)
Definition val_step (st : list (Z * Z) * Z) (vi : vinfo) : option (list (Z * Z) * Z) :=
  let '(res, tot) := st in
  match vi_vote vi with
  | [] => Some st
  | w =>
      let? rem := dsub (vi_sh vi) (vi_ded vi) in
      let? vp := power rem (vi_tok vi) (vi_sh vi) in
      let? res' := apply_w vp w res in
      let? tot' := dadd tot vp in
      Some (res', tot')
  end.
Definition phase2 (vis : list vinfo) (res : list (Z * Z)) (tot : Z) : option (list (Z * Z) * Z) :=
  ofold val_step vis (res, tot).

(* both passes from a given validator map and results map: (total power, results, final map) *)
Definition core (vis0 : list vinfo) (res0 : list (Z * Z)) (bs : list ballot)
  : option (Z * list (Z * Z) * list vinfo) :=
  let? (st1) := phase1 bs (vis0, res0, 0) in
  let '(vis, res, tot) := st1 in
  let? (st2) := phase2 vis res tot in
  let '(res', tot') := st2 in
  Some (tot', res', vis).

(* shares of the delegations in [ds] that go to validator [id]; shares held at validator [id]
   by the voters of [bs] (= what pass 1 deducts from it) *)
Definition dels_to (id : Z) (ds : list (Z * Z)) : Z :=
  fold_right (fun d a => if fst d =? id then snd d + a else a) 0 ds.
Definition ded_of (id : Z) (bs : list ballot) : Z :=
  fold_right (fun b a => dels_to id (b_dels b) + a) 0 bs.
