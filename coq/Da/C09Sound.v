(* C09: the monitors of Da/C09Check.v demand nothing beyond what the proved model delivers.
   If the implementation's observation of an end blocker agrees with the model's prediction
   ([block_corr]), then monitors 1-3 hold on it.  Hence a monitor can only fire on a step on
   which the implementation already differs from the model. *)
From Coq Require Import ZArith List Bool Lia ZifyBool Permutation.
Import ListNotations.
From Sunrise Require Import Base.Outcome Base.Dec Base.Check Da.Tally Da.TallyProofs Da.C09Check.
Local Open Scope Z_scope.

Lemma zlist_eqb_eq a : forall b, zlist_eqb a b = true -> a = b.
Proof.
  induction a as [|x a IH]; destruct b as [|y b]; simpl; intros H; try discriminate; [reflexivity|].
  apply andb_true_iff in H. destruct H as [H1 H2]. apply Z.eqb_eq in H1. subst. f_equal. apply IH. exact H2.
Qed.

Lemma same_set_spec a b : same_set a b = true ->
  length a = length b /\ (forall x, In x a -> In x b) /\ (forall x, In x b -> In x a).
Proof.
  unfold same_set. intros H. apply andb_true_iff in H. destruct H as [H H3].
  apply andb_true_iff in H. destruct H as [H1 H2]. apply Nat.eqb_eq in H1.
  rewrite forallb_forall in H2, H3. split; [exact H1|]. split; intros x Hx; apply memz_In; auto.
Qed.

Lemma same_set_intro a b :
  length a = length b -> (forall x, In x a <-> In x b) -> same_set a b = true.
Proof.
  intros Hl Hm. unfold same_set. rewrite Hl, Nat.eqb_refl. simpl.
  apply andb_true_iff. split; apply forallb_forall; intros x Hx; apply memz_In; apply Hm; exact Hx.
Qed.

(* the list of slashed operators has no duplicates *)
Lemma slash_fold_nodup thr info : forall dom sl0 f0,
  NoDup dom -> NoDup sl0 -> (forall v, In v sl0 -> ~ In v dom) ->
  NoDup (fst (fold_left (slash_one true thr info) dom (sl0, f0))).
Proof.
  induction dom as [|u tl IH]; intros sl0 f0 Hd Hs Hdisj; [exact Hs|].
  cbn [fold_left]. inversion Hd as [|? ? Hn Hd']; subst.
  assert (Hcase : exists sl1 f1, slash_one true thr info (sl0, f0) u = (sl1, f1) /\ (sl1 = sl0 \/ sl1 = sl0 ++ [u])).
  { unfold slash_one. destruct (negb (vi_exists (info u))); [eexists; eexists; split; [reflexivity|left; reflexivity]|].
    destruct (vi_jailed (info u) || negb (vi_bonded (info u))); [eexists; eexists; split; [reflexivity|left; reflexivity]|].
    destruct (f0 u <=? thr); eexists; eexists; split; try reflexivity; [left|right]; reflexivity. }
  destruct Hcase as [sl1 [f1 [Hs1 Hor]]]. rewrite Hs1. apply IH; [exact Hd'| |].
  - destruct Hor as [->| ->]; [exact Hs|]. apply NoDup_snoc; [exact Hs|]. intros Hin. apply (Hdisj u Hin). left. reflexivity.
  - intros v Hin. destruct Hor as [->| ->].
    + intros Hv. apply (Hdisj v Hin). right. exact Hv.
    + apply in_app_iff in Hin. destruct Hin as [Hin|[<-|[]]]; [|exact Hn]. intros Hv. apply (Hdisj v Hin). right. exact Hv.
Qed.

Lemma slash_epoch_nodup sft info dom st sl st' :
  NoDup dom -> slash_epoch true sft info dom st = Some (sl, st') -> NoDup sl.
Proof.
  unfold slash_epoch. intros Hd H. destruct (slash_threshold sft (ts_cc st)) as [thr|]; simpl in H; [|discriminate].
  pose proof (slash_fold_nodup thr info dom [] (ts_fc st) Hd (NoDup_nil Z) (fun v (H0 : In v []) => match H0 with end)) as Hn.
  destruct (fold_left (slash_one true thr info) dom ([], ts_fc st)) as [sl1 f]. inversion H; subst. exact Hn.
Qed.

(* totality of the repaired item tally when the two thresholds are defined *)
Lemma tally_item1_total rf active it :
  item_wf it = true ->
  zkp_threshold rf (it_n it) (Z.of_nat (length active)) <> None ->
  safe_thr rf (it_n it) (it_parity it) <> None ->
  tally_item1 rf active it <> None.
Proof.
  intros Hwf Hz Hs. unfold tally_item1, tally_item.
  destruct (count_proofs true (it_proofs it)) as [cnt sub].
  destruct (zkp_threshold rf (it_n it) (Z.of_nat (length active))); [|congruence]. simpl.
  destruct (safe_thr rf (it_n it) (it_parity it)) as [t|] eqn:Ht; [|congruence].
  destruct (safe_fold rf it active sub t (wf_noskip it Hwf) Ht cnt [] []) as [fs [Hf _]].
  rewrite Hf. simpl.
  destruct (_ <? it_n it); discriminate.
Qed.

Lemma all_wf_Forall p : all_wf p = true -> Forall (fun it => item_wf it = true) (bp_items p).
Proof. unfold all_wf. intros H. apply Forall_forall. apply forallb_forall. exact H. Qed.

Lemma predict_total p : spec_defined p = true -> predict all_fixed p <> None.
Proof.
  unfold spec_defined, predict, end_block. simpl. intros H.
  apply andb_true_iff in H. destruct H as [H He]. apply andb_true_iff in H. destruct H as [Hwf Hthr].
  fold (tally_block (bp_rf p) (bp_active p) (bp_items p) (st_of p)).
  assert (Ht : exists st1 vs, tally_block (bp_rf p) (bp_active p) (bp_items p) (st_of p) = Some (st1, vs) /\
               ts_cc st1 = bp_cc p + Z.of_nat (length (tallied (bp_active p) (bp_items p)))).
  { destruct (bp_active p) as [|a0 act] eqn:Ea.
    - unfold tally_block. rewrite tally_items_noactive. eexists. eexists. split; [reflexivity|]. simpl. lia.
    - assert (Hne : a0 :: act <> []) by discriminate. simpl in Hthr.
      assert (Hall : Forall (fun it => tally_item1 (bp_rf p) (a0 :: act) it <> None) (bp_items p)).
      { apply Forall_forall. intros it Hin. rewrite forallb_forall in Hthr. specialize (Hthr it Hin).
        apply andb_true_iff in Hthr. destruct Hthr as [H1 H2].
        unfold all_wf in Hwf. rewrite forallb_forall in Hwf.
        apply tally_item1_total; [apply Hwf; exact Hin| |].
        - destruct (zkp_threshold _ _ _); [discriminate|discriminate H1].
        - destruct (safe_thr _ _ _); [discriminate|discriminate H2]. }
      destruct (tally_block_total _ _ Hne _ [] (st_of p) Hall) as [st1 [vs Ht]].
      exists st1, vs. split; [exact Ht|].
      destruct (tally_block_char _ _ Hne _ _ _ _ _ Ht) as (_ & Hc & _). exact Hc. }
  destruct Ht as [st1 [vs [Ht Hc]]]. rewrite Ht. simpl.
  destruct (bp_epoch p); [|discriminate].
  unfold slash_epoch. rewrite Hc.
  destruct (slash_threshold (bp_sft p) (bp_cc p + Z.of_nat (length (tallied (bp_active p) (bp_items p))))); [|discriminate He]. simpl.
  destruct (fold_left _ _ _). discriminate.
Qed.

Lemma verdict_codes rf active its vs :
  Forall2 (item_verdict rf active) its vs ->
  forallb (fun '(it, s) => if item_wf it then s =? vcode (verdict_spec rf it) else true)
          (combine its (map ocode vs)) = true.
Proof.
  induction 1 as [|it v tl vs' [r [Hr Hv]] _ IH]; [reflexivity|]. simpl. rewrite IH, andb_true_r.
  destruct (item_wf it) eqn:E; [|reflexivity].
  rewrite <- (verdict_eq_spec _ _ _ _ E Hr), Hv. apply Z.eqb_refl.
Qed.

Lemma F2_length {A B} (R : A -> B -> Prop) l l' : Forall2 R l l' -> length l = length l'.
Proof. induction 1; simpl; congruence. Qed.

Lemma nodupb_NoDup l : nodupb l = true -> NoDup l.
Proof.
  induction l as [|x tl IH]; simpl; intros H; [constructor|].
  apply andb_true_iff in H. destruct H as [H1 H2]. apply negb_true_iff in H1. apply memz_false in H1.
  constructor; [exact H1|apply IH; exact H2].
Qed.

Theorem monitors_sound p o :
  block_corr p o = true ->
  mon_verdict p o = true /\ mon_faults p o = true /\ mon_slash p o = true.
Proof.
  intros Hc. unfold block_corr, block_corr_with in Hc.
  apply andb_true_iff in Hc. destruct Hc as [Hc0 Hc].
  apply andb_true_iff in Hc0. destruct Hc0 as [Hnd _]. apply nodupb_NoDup in Hnd.
  destruct (predict all_fixed p) as [[[st' vs] sl]|] eqn:Hp.
  - (* the model predicts a completed block and the observation agrees with it *)
    repeat (apply andb_true_iff in Hc; destruct Hc as [Hc ?H]).
    apply negb_true_iff in Hc. rename Hc into Hpanic.
    rename H into Hothers, H0 into Htok, H1 into Hjail, H2 into Hjev, H3 into Hsev, H4 into Hcc, H5 into Hfc, H6 into Hleft, H7 into Hst.
    apply zlist_eqb_eq in Hst. apply Z.eqb_eq in Hcc. rewrite forallb_forall in Hfc.
    assert (Hfc' : forall v, In v (bp_ids p) -> lookup (bo_fc o) v = ts_fc st' v).
    { intros v Hv. specialize (Hfc v Hv). lia. }
    pose proof Hp as Hp0. unfold predict, end_block in Hp0. simpl in Hp0.
    fold (tally_block (bp_rf p) (bp_active p) (bp_items p) (st_of p)) in Hp0.
    destruct (tally_block (bp_rf p) (bp_active p) (bp_items p) (st_of p)) as [[st1 vs1]|] eqn:Ht; simpl in Hp0; [|discriminate].
    assert (Hvs : vs1 = vs).
    { destruct (bp_epoch p); [destruct (slash_epoch true _ _ _ st1) as [[? ?]|]; simpl in Hp0|]; inversion Hp0; reflexivity. }
    subst vs1.
    split; [|split].
    + unfold mon_verdict. rewrite Hpanic, <- Hst, map_length.
      destruct (bp_active p) as [|a0 act] eqn:Ea.
      * unfold tally_block in Ht. rewrite tally_items_noactive in Ht. inversion Ht; subst.
        rewrite map_length, Nat.eqb_refl. reflexivity.
      * assert (Hne : a0 :: act <> []) by discriminate.
        destruct (tally_block_char _ _ Hne _ _ _ _ _ Ht) as (Hv2 & _ & _).
        rewrite <- (F2_length _ _ _ Hv2), Nat.eqb_refl. simpl. apply (verdict_codes _ (a0 :: act)). exact Hv2.
    + unfold mon_faults. rewrite Hpanic. simpl.
      destruct (bp_epoch p) eqn:Ee; [reflexivity|]. simpl.
      destruct (all_wf p) eqn:Ew; [|reflexivity]. simpl.
      pose proof (end_block_spec _ _ _ _ _ _ _ _ _ _ _ (all_wf_Forall p Ew) Hnd Hp) as [_ Hs].
      rewrite Ee in Hs. destruct Hs as (_ & Hf & _).
      apply forallb_forall. intros v Hv. rewrite (Hfc' v Hv), Hf. simpl. unfold faults_of. lia.
    + unfold mon_slash. rewrite Hpanic. simpl.
      destruct (all_wf p) eqn:Ew; [|reflexivity]. simpl.
      pose proof (end_block_spec _ _ _ _ _ _ _ _ _ _ _ (all_wf_Forall p Ew) Hnd Hp) as [_ Hs].
      destruct (bp_epoch p) eqn:Ee; simpl.
      * destruct Hs as (Hm & Hz & Hcc0).
        fold (mid_state p) in Hm.
        match goal with |- match ?x with Some _ => _ | None => _ end = true => destruct x as [thr|] end; [|reflexivity].
        set (want := filter (slashed_spec (bp_sft p) (info_of (bp_vinfo p)) (mid_state p)) (bp_ids p)).
        assert (Hmem : forall v, In v sl <-> In v want).
        { intros v. unfold want. rewrite filter_In. apply Hm. }
        assert (Hlen : length sl = length want).
        { apply Permutation_length. apply NoDup_Permutation; [|apply NoDup_filter; exact Hnd|exact Hmem].
          destruct (slash_epoch true (bp_sft p) (info_of (bp_vinfo p)) (bp_ids p) st1) as [[sl2 st2]|] eqn:Hse; simpl in Hp0; [|discriminate].
          inversion Hp0; subst. apply (slash_epoch_nodup _ _ _ _ _ _ Hnd Hse). }
        assert (Hmz : forall v, memz v sl = memz v want).
        { intros v. destruct (memz v sl) eqn:E1, (memz v want) eqn:E2; try reflexivity.
          - apply memz_In in E1. apply Hmem in E1. apply memz_false in E2. contradiction.
          - apply memz_In in E2. apply Hmem in E2. apply memz_false in E1. contradiction. }
        destruct (same_set_spec _ _ Hsev) as (Hl1 & Ha1 & Hb1).
        destruct (same_set_spec _ _ Hjev) as (Hl2 & Ha2 & Hb2).
        assert (HA : same_set want (bo_slash_ev o) = true).
        { apply same_set_intro; [congruence|]. intros x. rewrite <- Hmem. split; auto. }
        assert (HB : same_set want (bo_jail_ev o) = true).
        { apply same_set_intro; [congruence|]. intros x. rewrite <- Hmem. split; auto. }
        assert (HC : forallb (fun v => Bool.eqb (memz v (bo_jailed o)) (memz v (jailed_pre p) || memz v want)) (bp_ids p) = true).
        { rewrite forallb_forall in Hjail. apply forallb_forall. intros v Hv. rewrite <- Hmz. apply Hjail. exact Hv. }
        assert (HD : forallb (fun v => memz v want) (bo_tokdec o) = true).
        { rewrite forallb_forall in Htok. apply forallb_forall. intros v Hv. rewrite <- Hmz. apply Htok. exact Hv. }
        assert (HE : forallb (fun v => lookup (bo_fc o) v =? 0) (bp_ids p) = true).
        { apply forallb_forall. intros v Hv. rewrite (Hfc' v Hv), (Hz v Hv). reflexivity. }
        assert (HF : (bo_cc o =? 0) = true) by (rewrite <- Hcc, Hcc0; reflexivity).
        rewrite HA, HB, HC, HD, HE, HF. reflexivity.
      * destruct Hs as (Hsl & _ & _). subst sl. rewrite Hsev, Hjev. reflexivity.
  - (* the model predicts a panic *)
    assert (Hpanic : bo_panic o = true) by exact Hc.
    split; [|split].
    + unfold mon_verdict. rewrite Hpanic.
      destruct (spec_defined p) eqn:E; [|reflexivity]. exfalso. apply (predict_total p E). exact Hp.
    + unfold mon_faults. rewrite Hpanic. reflexivity.
    + unfold mon_slash. rewrite Hpanic. reflexivity.
Qed.
