package amm

// Exported views of the package's helpers for the C06 harness (fee / incentive accrual):
// added by the C06 builder, nothing here changes the behaviour of the shared code.

import (
	"math/big"
	"sort"

	sdk "github.com/cosmos/cosmos-sdk/types"

	lptypes "github.com/sunriselayer/sunrise/x/liquiditypool/types"
)

// CoinVec renders sdk.Coins as the four denom slots of pool p.
func (p PoolInfo) CoinVec(cs sdk.Coins) []string { return p.coinVec(cs) }

// UserIndex maps an address to the index of the harness account (99 = unknown).
func (w *World) UserIndex(addr string) int { return w.userIndex(addr) }

// PositionsSorted returns the open positions of pool p in ascending id order.
func (w *World) PositionsSorted(ctx sdk.Context, p PoolInfo) []lptypes.Position {
	poss := w.positions(ctx, p)
	sort.Slice(poss, func(i, j int) bool { return poss[i].Id < poss[j].Id })
	return poss
}

// Raw parses a LegacyDec string to its raw 10^18-scaled integer.
func Raw(s string) *big.Int { return raw(s) }

// BalInts returns the balances of addr in the four denom slots of pool p.
func (w *World) BalInts(ctx sdk.Context, p PoolInfo, addr sdk.AccAddress) []*big.Int {
	v := make([]*big.Int, 4)
	for i, d := range p.Denoms {
		v[i] = w.H.Bal(ctx, addr, d).BigInt()
	}
	return v
}
