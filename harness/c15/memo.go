package c15

import (
	"context"
	"encoding/json"
	"fmt"
	"strings"
	"time"

	sdkmath "cosmossdk.io/math"
	minttypes "cosmossdk.io/x/mint/types"
	sdk "github.com/cosmos/cosmos-sdk/types"
	authtypes "github.com/cosmos/cosmos-sdk/x/auth/types"
	transfertypes "github.com/cosmos/ibc-go/v9/modules/apps/transfer/types"
	channeltypes "github.com/cosmos/ibc-go/v9/modules/core/04-channel/types"
	porttypes "github.com/cosmos/ibc-go/v9/modules/core/05-port/types"
	host "github.com/cosmos/ibc-go/v9/modules/core/24-host"
	exported "github.com/cosmos/ibc-go/v9/modules/core/exported"
	"github.com/gogo/protobuf/jsonpb"

	swapmodule "github.com/sunriselayer/sunrise/x/swap/module"
	swaptypes "github.com/sunriselayer/sunrise/x/swap/types"

	"verifharness/c15/shape"
	"verifharness/emit"
)

// ---------- Coq terms of Swap.Memo ----------

func fwdCoq(f *swaptypes.ForwardMetadata) string {
	return fmt.Sprintf("{| fw_receiver_empty := %s; fw_port_ok := %s; fw_chan_ok := %s |}",
		emit.Bool(f.Receiver == ""), emit.Bool(host.PortIdentifierValidator(f.Port) == nil),
		emit.Bool(host.ChannelIdentifierValidator(f.Channel) == nil))
}

func optInt(x sdkmath.Int) string {
	if x.IsNil() {
		return "None"
	}
	return emit.Some(emit.Z(x.BigInt()))
}

func amtCoq(m *swaptypes.SwapMetadata) string {
	switch a := m.AmountStrategy.(type) {
	case *swaptypes.SwapMetadata_ExactAmountIn:
		if a == nil || a.ExactAmountIn == nil {
			return "(AIn None)"
		}
		return "(AIn (Some " + optInt(a.ExactAmountIn.MinAmountOut) + "))"
	case *swaptypes.SwapMetadata_ExactAmountOut:
		if a == nil || a.ExactAmountOut == nil {
			return "(AOut None)"
		}
		ch := "None"
		if a.ExactAmountOut.Change != nil {
			ch = emit.Some(fwdCoq(a.ExactAmountOut.Change))
		}
		return "(AOut (Some (" + optInt(a.ExactAmountOut.AmountOut) + ", " + ch + ")))"
	}
	return "ANone"
}

func metaCoq(m *swaptypes.SwapMetadata) string {
	f := "None"
	if m.Forward != nil {
		f = emit.Some(fwdCoq(m.Forward))
	}
	return fmt.Sprintf("{| sm_route := %s; sm_amt := %s; sm_forward := %s |}", shape.RouteOpt(m.Route), amtCoq(m), f)
}

// obs codes: 0 ok, 1 ok with Forward.Next filled, 10+e error class e, -1 panic
const (
	eJSON   = 1
	eNoSwap = 2
	eShape  = 3
	ePB     = 4
	eRoute  = 5
	eMeta   = 6
)

// jsonpbOracle reproduces what DecodeSwapMetadata hands to jsonpb.Unmarshal (the memo, or the
// memo re-marshalled without swap.forward.next) and runs jsonpb on it.  genericOK = false when
// encoding/json rejects the memo for a map[string]interface{}.
func jsonpbOracle(memo string) (genericOK bool, pb string) {
	d := make(map[string]interface{})
	if err := json.Unmarshal([]byte(memo), &d); err != nil {
		return false, "PbErr"
	}
	in := memo
	if sw, ok := d["swap"].(map[string]interface{}); ok {
		if fw, ok := sw["forward"].(map[string]interface{}); ok && fw["next"] != nil {
			delete(fw, "next")
			bz, err := json.Marshal(d)
			if err != nil {
				return true, "PbErr"
			}
			in = string(bz)
		}
	}
	m := &swaptypes.PacketMetadata{}
	var err error
	func() {
		defer func() {
			if r := recover(); r != nil {
				err = fmt.Errorf("panic in jsonpb: %v", r)
			}
		}()
		err = jsonpb.Unmarshal(strings.NewReader(in), m)
	}()
	if err != nil {
		return true, "PbErr"
	}
	if m.Swap == nil {
		return true, "(PbOk None)"
	}
	return true, "(PbOk (Some " + metaCoq(m.Swap) + "))"
}

func classifyDecodeErr(genericOK bool, err error) int {
	msg := err.Error()
	switch {
	case !genericOK:
		return eJSON
	case strings.Contains(msg, "no swap filed in memo"):
		return eNoSwap
	case strings.Contains(msg, "must be an object"):
		return eShape
	default:
		return ePB
	}
}

// ---------- the middleware under a spy ----------

// spy stands for the transfer stack below the swap middleware: it records how it was called
// and emulates a successful receive (mints the received coins to the receiver).
type spy struct {
	porttypes.IBCModule
	w        *world
	calls    int
	lastData []byte
}

func (s *spy) OnRecvPacket(ctx context.Context, _ string, packet channeltypes.Packet, _ sdk.AccAddress) exported.Acknowledgement {
	s.calls++
	s.lastData = packet.GetData()
	var data transfertypes.FungibleTokenPacketData
	if err := transfertypes.ModuleCdc.UnmarshalJSON(packet.GetData(), &data); err != nil {
		return channeltypes.NewErrorAcknowledgement(err)
	}
	amt, ok := sdkmath.NewIntFromString(data.Amount)
	if !ok || !amt.IsPositive() || amt.BigInt().BitLen() > 120 {
		return channeltypes.NewErrorAcknowledgement(fmt.Errorf("invalid amount"))
	}
	recv, err := sdk.AccAddressFromBech32(data.Receiver)
	if err != nil {
		return channeltypes.NewErrorAcknowledgement(err)
	}
	denom := swaptypes.GetDenomForThisChain(packet.DestinationPort, packet.DestinationChannel, packet.SourcePort, packet.SourceChannel, data.Denom)
	if sdk.ValidateDenom(denom) != nil {
		return channeltypes.NewErrorAcknowledgement(fmt.Errorf("invalid denom"))
	}
	coins := sdk.NewCoins(sdk.NewCoin(denom, amt))
	if err := s.w.h.App.BankKeeper.MintCoins(ctx, minttypes.ModuleName, coins); err != nil {
		return channeltypes.NewErrorAcknowledgement(err)
	}
	// keeper-level send: the swap module account is on the bank block list in the pristine wiring
	if err := s.w.h.App.BankKeeper.SendCoins(ctx, authtypes.NewModuleAddress(minttypes.ModuleName), recv, coins); err != nil {
		return channeltypes.NewErrorAcknowledgement(err)
	}
	return channeltypes.NewResultAcknowledgement([]byte{1})
}

// recv codes: 0 passed down, 1 error acknowledgement, 2 continued (funds received), -1 panic
func (w *world) runRecv(data []byte) (code int, detail string) {
	sp := &spy{w: w}
	mw := swapmodule.NewIBCMiddleware(sp, &w.h.App.SwapKeeper)
	packet := channeltypes.Packet{Sequence: 1, SourcePort: "transfer", SourceChannel: "channel-7",
		DestinationPort: "transfer", DestinationChannel: "channel-9", Data: data,
		TimeoutTimestamp: uint64(w.h.Time.Add(time.Hour).UnixNano())}
	ctx, _ := w.h.Ctx().CacheContext()
	var ack exported.Acknowledgement
	cls, det := guard(func() error {
		ack = mw.OnRecvPacket(ctx, "ics20-1", packet, w.h.Accts[3].Addr)
		return nil
	})
	if cls == clsPanic {
		return -1, det
	}
	swapper := authtypes.NewModuleAddress(swaptypes.ModuleName).String()
	switch {
	case sp.calls == 0:
		if ack == nil || ack.Success() {
			return 3, "no call below and no error acknowledgement"
		}
		return 1, string(ack.Acknowledgement())
	case string(sp.lastData) == string(data):
		return 0, ""
	default:
		var od transfertypes.FungibleTokenPacketData
		if err := transfertypes.ModuleCdc.UnmarshalJSON(sp.lastData, &od); err != nil || od.Receiver != swapper {
			return 3, "unexpected call below"
		}
		if ack != nil {
			return 2, string(ack.Acknowledgement())
		}
		return 2, "nil ack (in flight)"
	}
}

// ---------- memo cases ----------

type memoCase struct {
	memo string
	tag  string
	// packet data around the memo
	denom, amount, receiver string
	rawData                 []byte // when set, used verbatim as packet data (memo ignored for recv)
}

// runMemo executes DecodeSwapMetadata, SwapMetadata.Validate on the decoded value and the
// middleware's OnRecvPacket, and returns the Coq case term.
func (w *world) runMemo(c memoCase) (term string, info map[string]any, classes []string) {
	info = map[string]any{"kind": "memo", "tag": c.tag, "memo": c.memo}
	doc := "None"
	if j := parseJSON(c.memo); j != nil {
		doc = emit.Some(j.coq())
	}
	genericOK, pb := jsonpbOracle(c.memo)
	// decode
	var m *swaptypes.PacketMetadata
	cls, det := guard(func() error {
		var err error
		m, err = swaptypes.DecodeSwapMetadata(c.memo)
		return err
	})
	dec := 0
	switch cls {
	case clsPanic:
		dec = -1
		info["decode_panic"] = det
	case clsErr:
		dec = 10 + classifyDecodeErr(genericOK, fmt.Errorf("%s", det))
		info["decode_err"] = det
	default:
		if m.Swap != nil && m.Swap.Forward != nil && m.Swap.Forward.Next != "" {
			dec = 1
		}
	}
	classes = append(classes, "decode:"+cls)
	// validate (on the decoded metadata)
	val := -2 // not applicable
	if cls == clsOk && m.Swap != nil {
		meta := *m.Swap
		vc, vd := guard(func() error { return meta.Validate() })
		switch vc {
		case clsPanic:
			val = -1
			info["validate_panic"] = vd
		case clsErr:
			val = 1
			info["validate_err"] = vd
		default:
			val = 0
		}
		classes = append(classes, "validate:"+vc)
	}
	// OnRecvPacket
	data := c.rawData
	if data == nil {
		fd := transfertypes.FungibleTokenPacketData{Denom: c.denom, Amount: c.amount, Sender: "cosmos1sender", Receiver: c.receiver, Memo: c.memo}
		data = transfertypes.ModuleCdc.MustMarshalJSON(&fd)
	}
	var parsed transfertypes.FungibleTokenPacketData
	dataOK := transfertypes.ModuleCdc.UnmarshalJSON(data, &parsed) == nil
	memoSeen := c.memo
	if dataOK {
		memoSeen = parsed.Memo
	}
	if memoSeen != c.memo {
		// raw packet data whose memo differs from c.memo: evaluate the model on what the middleware sees
		doc = "None"
		if j := parseJSON(memoSeen); j != nil {
			doc = emit.Some(j.coq())
		}
		_, pb = jsonpbOracle(memoSeen)
		dec, val = -3, -2 // decode / validate observations do not apply to this memo
	}
	denomMatches := false
	if dataOK {
		if mm, err := func() (mm *swaptypes.PacketMetadata, err error) {
			defer func() {
				if r := recover(); r != nil {
					err = fmt.Errorf("panic")
				}
			}()
			return swaptypes.DecodeSwapMetadata(memoSeen)
		}(); err == nil && mm.Swap != nil && mm.Swap.Route != nil {
			here := swaptypes.GetDenomForThisChain("transfer", "channel-9", "transfer", "channel-7", parsed.Denom)
			denomMatches = mm.Swap.Route.DenomIn == here
		}
	}
	rc, rd := w.runRecv(data)
	info["recv"] = rc
	if rd != "" {
		if len(rd) > 300 {
			rd = rd[:300]
		}
		info["recv_detail"] = rd
	}
	rcls := clsOk
	if rc == -1 {
		rcls = clsPanic
	}
	classes = append(classes, fmt.Sprintf("recv:%d", rc))
	_ = rcls
	term = fmt.Sprintf("CMemo %s %s %s %s %s %s %s", doc, pb, emit.ZI(int64(dec)), emit.ZI(int64(val)),
		emit.Bool(dataOK), emit.Bool(denomMatches), emit.ZI(int64(rc)))
	return term, info, classes
}

// ---------- generators ----------

func validForward(r *emit.Rand) *swaptypes.ForwardMetadata {
	return &swaptypes.ForwardMetadata{Receiver: "cosmos1qnk2n4nlkpw9xfqntladh74w6ujtulwn7j8za9", Port: "transfer",
		Channel: fmt.Sprintf("channel-%d", r.Intn(5)), Retries: uint32(r.Intn(4)), Timeout: time.Duration(r.Intn(3)) * time.Minute}
}

// genMeta builds a valid SwapMetadata over the pools of the world (denoms as seen on this chain).
func (w *world) genMeta(r *emit.Rand, denomIn string) *swaptypes.SwapMetadata {
	m := &swaptypes.SwapMetadata{Route: w.genRoute(r, denomIn, 2)}
	if r.Chance(1, 3) {
		m.InterfaceProvider = w.p.accAddrs[r.Intn(len(w.p.accAddrs))]
	}
	if r.Bool() {
		m.AmountStrategy = &swaptypes.SwapMetadata_ExactAmountIn{ExactAmountIn: &swaptypes.ExactAmountIn{MinAmountOut: sdkmath.NewInt(int64(1 + r.Intn(50)))}}
	} else {
		eo := &swaptypes.ExactAmountOut{AmountOut: sdkmath.NewInt(int64(1 + r.Intn(5000)))}
		if r.Bool() {
			eo.Change = validForward(r)
		}
		m.AmountStrategy = &swaptypes.SwapMetadata_ExactAmountOut{ExactAmountOut: eo}
	}
	if r.Chance(2, 5) {
		m.Forward = validForward(r)
	}
	return m
}

func metaJSON(m *swaptypes.SwapMetadata) jv {
	js, err := (&jsonpb.Marshaler{OrigName: true}).MarshalToString(&swaptypes.PacketMetadata{Swap: m})
	if err != nil {
		panic(err)
	}
	j := parseJSON(js)
	if j == nil {
		panic("jsonpb produced invalid JSON")
	}
	return *j
}

var garbageMemos = []string{"", " ", "null", "1", "\"swap\"", "[]", "[1,2]", "{", "{}", "{\"swap\"", "{\"swap\":}", "{\"swap\":null}",
	"{\"swap\":{}} trailing", "\xff\xfe", "{\"swap\":\"\\ud800\"}", "{\"Swap\":{}}", "{\"swap\":{},\"swap\":null}", "{\"swap\":null,\"swap\":{}}",
	"{\"wasm\":{\"contract\":\"x\"}}", "{\"forward\":{\"receiver\":\"x\"}}", "true", "{\"swap\":[{}]}", "{\"swap\":{\"forward\":[]}}",
	"{\"swap\":{\"forward\":{\"next\":{\"a\":1e999}}}}", "{\"swap\":{\"route\":null}}", "{\"swap\":{\"route\":{}}}",
	"{\"swap\":{\"route\":{\"pool\":null}}}", "{\"swap\":{\"route\":{\"series\":null}}}", "{\"swap\":{\"route\":{\"pool\":{},\"series\":{}}}}",
	"{\"swap\":{\"exact_amount_in\":null}}", "{\"swap\":{\"exact_amount_in\":{\"min_amount_out\":null}}}", "{\"swap\":{\"exact_amount_in\":{\"min_amount_out\":\"\"}}}",
	"{\"swap\":{\"exact_amount_in\":{\"min_amount_out\":\"-1\"}}}", "{\"swap\":{\"exact_amount_in\":{\"min_amount_out\":1}}}",
	"{\"swap\":{\"forward\":{\"timeout\":\"abc\"}}}", "{\"swap\":{\"forward\":{\"retries\":-1}}}", "{\"swap\":{\"forward\":{\"next\":null}}}"}

// genMemo: mostly valid memos, then structural mutations, then garbage.
func (w *world) genMemo(r *emit.Rand) memoCase {
	denomIn := "transfer/channel-9/" + emit.Pick(r, "uatom", "uosmo")
	c := memoCase{denom: emit.Pick(r, "uatom", "uosmo", "uatom", "transfer/channel-7/urise", "x"), amount: emit.Pick(r, "1000", "1", "100000", "0", "-5", "abc", "340282366920938463463374607431768211456"),
		receiver: w.p.accAddrs[r.Intn(len(w.p.accAddrs))]}
	// the denom this chain assigns to the incoming token
	here := swaptypes.GetDenomForThisChain("transfer", "channel-9", "transfer", "channel-7", c.denom)
	if r.Chance(3, 4) {
		denomIn = here
	}
	if sdk.ValidateDenom(denomIn) != nil {
		denomIn = "uusdc"
	}
	meta := w.genMeta(r, denomIn)
	doc := metaJSON(meta)
	if meta.Forward != nil && r.Bool() {
		// a nested memo for the next hop, as a JSON value
		next := emit.Pick(r, jobj(kv("wasm", jobj(kv("contract", jstr("c")), kv("msg", jobj())))), jstr("{\"x\":1}"), jnum("7"), jarr(jnum("1")), jnull(),
			jobj(kv("swap", jobj(kv("forward", jobj(kv("next", jnum("1"))))))))
		doc = doc.replaceAt([]int{0}, func(sw jv) jv {
			for i, e := range sw.obj {
				if e.k == "forward" {
					return sw.replaceAt([]int{i}, func(f jv) jv { return f.with("next", next) })
				}
			}
			return sw
		})
	}
	switch k := r.Intn(20); {
	case k < 9:
		c.memo, c.tag = doc.text(), "valid"
	case k < 17:
		md, tag := mutateJSON(r, doc)
		c.memo, c.tag = md.text(), tag
	case k < 19:
		c.memo, c.tag = garbageMemos[r.Intn(len(garbageMemos))], "garbage"
	default:
		// truncated or byte-flipped text
		t := []byte(doc.text())
		if r.Bool() && len(t) > 2 {
			t = t[:r.Intn(len(t))]
		} else if len(t) > 0 {
			t[r.Intn(len(t))] = byte(r.Intn(256))
		}
		c.memo, c.tag = string(t), "bytes"
	}
	if r.Chance(1, 25) {
		c.rawData = []byte(emit.Pick(r, "", "{}", "not json", "{\"denom\":1}", "{\"denom\":\"uatom\",\"amount\":\"1\",\"sender\":\"a\",\"receiver\":\"b\",\"memo\":5}",
			"{\"denom\":\"uatom\",\"amount\":\"1\",\"sender\":\"a\",\"receiver\":\"b\",\"memo\":\"{\\\"swap\\\":1}\"}", "\x00\x01"))
		c.tag = "rawdata"
	}
	return c
}
