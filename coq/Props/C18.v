(* C18 — Fees: only the fee token or bypass denoms, fully collected; burn is exact.
   Only statements, each closed by [exact]; proofs live in Econ/FeeProofs.v.
   Model: Econ/FeeAnte.v (x/fee/ante/fee.go, validator_tx_fee.go, x/fee/keeper/keeper_burn.go). *)
From Coq Require Import ZArith List Bool.
Import ListNotations.
From Sunrise Require Import Base.Outcome Base.Dec Base.Bank Econ.FeeAnte Econ.FeeProofs.
Local Open Scope Z_scope.

(* After genesis (height > 0) a transaction admitted in CheckTx mode pays exactly one fee coin
   whose denom is the configured fee denom or a configured bypass denom. *)
Theorem C18_admitted_fee_shape : forall i b b' p,
  ai_mode i = MCheck -> 0 < ai_height i -> ante_tx i b = (b', Ok p) ->
  exists d a fd byp, ai_fee i = [(d, a)] /\ ai_params i = Some (fd, byp) /\ (d = fd \/ In d byp).
Proof. exact admitted_fee_shape. Qed.
Print Assumptions C18_admitted_fee_shape.

(* ... and meets the node's minimum gas price: some fee coin has a configured positive price
   and amount >= price * gas (prices are raw LegacyDec values, i.e. scaled by P = 10^18). *)
Theorem C18_admitted_meets_min_price : forall i b b' p,
  ai_mode i = MCheck -> 0 <= ai_gas i < 2 ^ 63 -> all_zero (ai_mgp i) = false ->
  ante_tx i b = (b', Ok p) ->
  exists d a price, In (d, a) (ai_fee i) /\ In (d, price) (ai_mgp i) /\ 0 < price /\
                    price * ai_gas i <= a * P.
Proof. exact admitted_meets_min_price. Qed.
Print Assumptions C18_admitted_meets_min_price.

(* In every execution mode: either the declared fee moves in full from the payer, or from the
   named granter who is the payer or whose allowance accepted the fee, to the fee collector
   and nothing else changes; or the transaction is rejected and the ledger is unchanged. *)
Theorem C18_fee_collected_in_full_or_rejected : forall i b,
  (forall src, paid_by i src -> src <> ai_collector i) ->
  match ante_tx i b with
  | (b', Ok _) => exists src, paid_by i src /\ fee_moved (ai_fee i) src (ai_collector i) b b'
  | (b', _) => b' = b
  end.
Proof. exact fee_collected_in_full_or_rejected. Qed.
Print Assumptions C18_fee_collected_in_full_or_rejected.

(* Burn on a coin set (distinct denoms, amounts within math.Int) with ratio in [0,1]: success
   destroys exactly floor(ratio * amount) of the fee denom from the collector, supply drops by
   the same, nothing else changes; an error changes nothing and happens only when the
   collector cannot afford the amount; it never panics. *)
Theorem C18_burn_exact : forall fd ratio col fm fees b,
  0 <= ratio <= P -> col <> fm -> 0 <= bal b fm fd -> 0 <= bal b col fd ->
  NoDup (map fst fees) -> (forall c, In c fees -> 0 <= snd c <= INT_LIM) ->
  match burn_loop fd ratio col fm fees b with
  | (b', Ok _) => ratio * find_amt fees fd / P <= bal b col fd /\
                  burned fd col (ratio * find_amt fees fd / P) b b'
  | (b', Err _) => b' = b /\ bal b col fd < ratio * find_amt fees fd / P
  | (_, Panic) => False
  end.
Proof. exact burn_exact. Qed.
Print Assumptions C18_burn_exact.

(* non-vacuity: a check-mode transaction at height 7 paying 5000 of the fee denom (4) for
   200000 gas at price 0.025, through a consenting granter (2), is admitted and charged;
   a burn of half of 101 succeeds and takes 50. *)
Definition nv_bank : bank :=
  {| bal := fun a d => if (a =? 2) && (d =? 4) then 6000 else if (a =? 3) && (d =? 4) then 120 else 0;
     sup := fun d => if d =? 4 then 1000000 else 0 |}.
Definition nv_in : ante_in :=
  {| ai_mode := MCheck; ai_height := 7; ai_gas := 200000; ai_fee := [(4, 5000)];
     ai_mgp := [(4, 25000000000000000)]; ai_params := Some (4, [6]); ai_bad := [1; 8];
     ai_payer := 1; ai_granter := Some 2; ai_allow := Ok tt; ai_collector := 3 |}.
Example C18_nonvacuous_ante :
  ai_mode nv_in = MCheck /\ 0 < ai_height nv_in /\ 0 <= ai_gas nv_in < 2 ^ 63 /\
  all_zero (ai_mgp nv_in) = false /\
  (forall src, paid_by nv_in src -> src <> ai_collector nv_in) /\
  exists b', ante_tx nv_in nv_bank = (b', Ok 0) /\ bal b' 2 4 = 1000 /\ bal b' 3 4 = 5120.
Proof.
  repeat split; try (vm_compute; congruence).
  - intros src [[H _]|[H _]]; cbn in H; [discriminate|]. injection H as <-. cbn. discriminate.
  - eexists. split; [vm_compute; reflexivity|]. split; vm_compute; reflexivity.
Qed.
Example C18_nonvacuous_burn :
  let r := burn_loop 4 500000000000000000 3 5 [(2, 9); (4, 101)] nv_bank in
  snd r = Ok tt /\ bal (fst r) 3 4 = 70 /\ sup (fst r) 4 = 999950 /\
  NoDup (map fst [(2, 9); (4, 101)]).
Proof.
  repeat split; try (vm_compute; reflexivity).
  repeat constructor; cbn; intuition discriminate.
Qed.
