// Package c13: RISE/vRISE supply — mint function and conversion, driven on the real application.
package c13

import (
	"encoding/binary"
	"fmt"
	appmint "github.com/sunriselayer/sunrise/app/mint"
	"math/big"
	"time"

	"cosmossdk.io/core/header"
	sdkmath "cosmossdk.io/math"
	minttypes "cosmossdk.io/x/mint/types"
	sdk "github.com/cosmos/cosmos-sdk/types"
	authtypes "github.com/cosmos/cosmos-sdk/x/auth/types"

	litypes "github.com/sunriselayer/sunrise/x/liquidityincentive/types"
	tckeeper "github.com/sunriselayer/sunrise/x/tokenconverter/keeper"
	tctypes "github.com/sunriselayer/sunrise/x/tokenconverter/types"

	"verifharness/apph"
	"verifharness/emit"
)

const (
	bond = "uvrise"
	fee  = "urise"
)

var (
	capSupply  = new(big.Int).Mul(big.NewInt(1_000_000_000), big.NewInt(1_000_000))
	genesisSec = time.Date(2025, 1, 1, 0, 0, 0, 0, time.UTC).Unix()
	year       = int64(31536000)
)

type mintCase struct {
	FeeSupply, BondSupply *big.Int
	Last                  *int64
	NowNs                 *big.Int
	Ratio                 *big.Int // raw dec
}

func decStr(raw *big.Int) string {
	// raw scaled by 1e18 -> decimal string
	s := new(big.Int).Abs(raw).String()
	for len(s) < 19 {
		s = "0" + s
	}
	out := s[:len(s)-18] + "." + s[len(s)-18:]
	if raw.Sign() < 0 {
		out = "-" + out
	}
	return out
}

func genMint(r *emit.Rand) mintCase {
	var c mintCase
	// total supply
	var total *big.Int
	switch r.Intn(8) {
	case 0:
		total = big.NewInt(int64(r.Intn(3)))
	case 1:
		total = r.LogUniform(15)
	case 2: // just below the cap
		total = new(big.Int).Sub(capSupply, r.LogUniform(12))
	case 3:
		total = new(big.Int).Set(capSupply)
	case 4: // above the cap
		total = new(big.Int).Add(capSupply, r.LogUniform(14))
	case 5:
		total = new(big.Int).Sub(capSupply, big.NewInt(int64(r.Intn(5))))
	default:
		total = r.Big(capSupply)
	}
	if total.Sign() < 0 {
		total = big.NewInt(0)
	}
	c.FeeSupply = r.Big(new(big.Int).Add(total, big.NewInt(1)))
	if r.Chance(1, 6) {
		c.FeeSupply = big.NewInt(0)
	}
	c.BondSupply = new(big.Int).Sub(total, c.FeeSupply)
	// now
	var now int64
	switch r.Intn(6) {
	case 0: // before the genesis date
		now = genesisSec - 1 - r.Int63n(3*year)
	case 1: // on a year boundary +- 1 s
		now = genesisSec + int64(r.Intn(40))*year + int64(r.Intn(3)) - 1
	case 2:
		now = genesisSec + r.Int63n(200*year)
	default:
		now = genesisSec + r.Int63n(30*year)
	}
	if now < 100 {
		now = 100
	}
	ns := new(big.Int).Mul(big.NewInt(now), big.NewInt(1_000_000_000))
	ns.Add(ns, big.NewInt(r.Int63n(1_000_000_000)))
	c.NowNs = ns
	// last
	switch r.Intn(9) {
	case 0:
		c.Last = nil
	case 1:
		l := now - 60
		c.Last = &l
	case 2:
		l := now
		c.Last = &l
	case 3:
		l := now - year
		c.Last = &l
	case 4:
		l := now - year - 1 - r.Int63n(3*year)
		c.Last = &l
	case 5:
		l := now - year + 1
		c.Last = &l
	default:
		l := now - 1 - r.Int63n(7200)
		c.Last = &l
	}
	if c.Last != nil && *c.Last < 0 {
		z := int64(0)
		c.Last = &z
	}
	// ratio in [0,1]
	one := new(big.Int).Exp(big.NewInt(10), big.NewInt(18), nil)
	switch r.Intn(6) {
	case 0:
		c.Ratio = big.NewInt(0)
	case 1:
		c.Ratio = new(big.Int).Set(one)
	case 2:
		c.Ratio = new(big.Int).Div(one, big.NewInt(2))
	case 3:
		c.Ratio = big.NewInt(1)
	default:
		c.Ratio = r.Big(new(big.Int).Add(one, big.NewInt(1)))
	}
	return c
}

// setSupply mints/burns through the mint module account so that total supplies equal the targets.
func setSupply(h *apph.H, ctx sdk.Context, denom string, target *big.Int) error {
	cur := h.Supply(ctx, denom).BigInt()
	d := new(big.Int).Sub(target, cur)
	if d.Sign() > 0 {
		return h.App.BankKeeper.MintCoins(ctx, minttypes.ModuleName, sdk.NewCoins(sdk.NewCoin(denom, sdkmath.NewIntFromBigInt(d))))
	}
	if d.Sign() < 0 {
		d.Neg(d)
		coins := sdk.NewCoins(sdk.NewCoin(denom, sdkmath.NewIntFromBigInt(d)))
		// take the coins from the first account that can afford them
		for _, a := range h.Accts {
			if h.Bal(ctx, a.Addr, denom).BigInt().Cmp(d) >= 0 {
				// what bank's Msg/Burn does for a user
				return h.App.BankKeeper.BurnCoins(ctx, a.Addr, coins)
			}
		}
		return fmt.Errorf("cannot lower supply of %s by %s", denom, d)
	}
	return nil
}

func optZ(p *int64) string {
	if p == nil {
		return emit.None()
	}
	return emit.Some(emit.ZI(*p))
}

func (c mintCase) coq() string {
	return fmt.Sprintf("{| mi_fee_supply := %s; mi_bond_supply := %s; mi_last := %s; mi_now_ns := %s; mi_ratio := %s |}",
		emit.Z(c.FeeSupply), emit.Z(c.BondSupply), optZ(c.Last), emit.Z(c.NowNs), emit.Z(c.Ratio))
}

// boundaryMint builds a mint case whose annual provision A (computed by the application's own
// CalculateAnnualProvision) satisfies A*secs = k*year + off for off in {-g, 0, +g}, g = gcd(secs, year).
func boundaryMint(h *apph.H, r *emit.Rand, i int) (mintCase, bool) {
	secsList := []int64{60, 61, 59, 3600, 7, 86400, 1, 120, 90}
	secs := secsList[i%len(secsList)]
	off := int64(i/len(secsList))%3 - 1 // -1, 0, +1 (times g)
	now := genesisSec + r.Int63n(12*year) + 1000
	t := time.Unix(now, 0).UTC()
	ctx := h.CtxAt(t)
	annual := func(sup *big.Int) *big.Int {
		return appmint.CalculateAnnualProvision(ctx, appmint.InflationRateCapInitial, appmint.InflationRateCapMinimum, appmint.DisinflationRate,
			appmint.SupplyCap, appmint.Genesis, sdkmath.NewIntFromBigInt(sup)).BigInt()
	}
	// between 150M and 800M tokens
	s0 := new(big.Int).Add(new(big.Int).Mul(big.NewInt(150_000_000), big.NewInt(1_000_000)), r.Big(new(big.Int).Mul(big.NewInt(650_000_000), big.NewInt(1_000_000))))
	a0 := annual(s0)
	if a0.Sign() <= 0 {
		return mintCase{}, false
	}
	g := new(big.Int).GCD(nil, nil, big.NewInt(secs), big.NewInt(year)).Int64()
	m := year / g
	u := new(big.Int).ModInverse(big.NewInt((secs/g)%m), big.NewInt(m))
	if u == nil {
		u = big.NewInt(0) // secs/g = 0 mod m cannot happen for secs < year; m = 1 when secs divides... then every A works
	}
	want := new(big.Int).Mod(new(big.Int).Mul(big.NewInt(off), u), big.NewInt(m)) // A = off * inv(secs/g) (mod m)
	d := new(big.Int).Sub(want, new(big.Int).Mod(a0, big.NewInt(m)))
	d.Mod(d, big.NewInt(m))
	target := new(big.Int).Add(a0, d)
	// annual is floor(rate * supply) below the cap: monotone, search the supply that gives the target
	lo, hi := new(big.Int).Set(s0), new(big.Int).Add(s0, new(big.Int).Mul(new(big.Int).Add(d, big.NewInt(2)), big.NewInt(60)))
	if annual(hi).Cmp(target) < 0 {
		return mintCase{}, false
	}
	for lo.Cmp(hi) < 0 {
		mid := new(big.Int).Rsh(new(big.Int).Add(lo, hi), 1)
		if annual(mid).Cmp(target) < 0 {
			lo.Add(mid, big.NewInt(1))
		} else {
			hi.Set(mid)
		}
	}
	if annual(lo).Cmp(target) != 0 {
		return mintCase{}, false
	}
	last := now - secs
	one := new(big.Int).Exp(big.NewInt(10), big.NewInt(18), nil)
	c := mintCase{Last: &last, NowNs: new(big.Int).Mul(big.NewInt(now), big.NewInt(1_000_000_000)), Ratio: r.Big(new(big.Int).Add(one, big.NewInt(1)))}
	// keep both parts above the genesis floor of the test chain (runMint clamps to it)
	c.BondSupply = new(big.Int).Add(h.Supply(h.Ctx(), bond).BigInt(), r.Big(new(big.Int).Rsh(lo, 2)))
	c.FeeSupply = new(big.Int).Sub(lo, c.BondSupply)
	return c, true
}

// runMint executes the real MintFn for one case inside a discarded cache context.
func runMint(h *apph.H, c *mintCase) (obs string, info map[string]any) {
	base := h.Ctx()
	ctx, _ := base.CacheContext()
	sec := new(big.Int).Div(c.NowNs, big.NewInt(1_000_000_000)).Int64()
	nsec := new(big.Int).Mod(c.NowNs, big.NewInt(1_000_000_000)).Int64()
	t := time.Unix(sec, nsec).UTC()
	ctx = ctx.WithHeaderInfo(header.Info{Height: h.Height, Time: t, ChainID: apph.ChainID})
	info = map[string]any{"kind": "mint", "fee_supply": c.FeeSupply.String(), "bond_supply": c.BondSupply.String(),
		"now": t.Format(time.RFC3339Nano), "ratio": decStr(c.Ratio)}
	if c.Last != nil {
		info["last"] = *c.Last
	}
	// the genesis supply is the floor of what can be reached; clamp the case to it
	if f0 := h.Supply(ctx, fee).BigInt(); c.FeeSupply.Cmp(f0) < 0 {
		c.FeeSupply = f0
	}
	if b0 := h.Supply(ctx, bond).BigInt(); c.BondSupply.Cmp(b0) < 0 {
		c.BondSupply = b0
	}
	info["fee_supply"], info["bond_supply"] = c.FeeSupply.String(), c.BondSupply.String()
	if err := setSupply(h, ctx, fee, c.FeeSupply); err != nil {
		panic(err)
	}
	if err := setSupply(h, ctx, bond, c.BondSupply); err != nil {
		panic(err)
	}
	p, err := h.App.LiquidityincentiveKeeper.Params.Get(ctx)
	if err != nil {
		panic(err)
	}
	p.StakingRewardRatio = decStr(c.Ratio)
	if err := h.App.LiquidityincentiveKeeper.Params.Set(ctx, p); err != nil {
		panic(err)
	}
	_ = litypes.ModuleName
	minter := minttypes.Minter{}
	if c.Last != nil {
		minter.Data = make([]byte, 8)
		binary.BigEndian.PutUint64(minter.Data, uint64(*c.Last))
	}
	f0, b0 := h.Supply(ctx, fee).BigInt(), h.Supply(ctx, bond).BigInt()
	var rerr error
	panicked := false
	func() {
		defer func() {
			if r := recover(); r != nil {
				panicked = true
				info["panic"] = fmt.Sprint(r)
			}
		}()
		rerr = h.App.MintKeeper.MintFn(ctx, &minter, "minute", 1)
	}()
	if panicked {
		return "Panic", info
	}
	if rerr != nil {
		info["err"] = rerr.Error()
		return "(Err 1)", info
	}
	f1, b1 := h.Supply(ctx, fee).BigInt(), h.Supply(ctx, bond).BigInt()
	df, db := new(big.Int).Sub(f1, f0), new(big.Int).Sub(b1, b0)
	last := int64(binary.BigEndian.Uint64(minter.Data))
	info["fee_minted"], info["bond_minted"], info["new_last"] = df.String(), db.String(), last
	return fmt.Sprintf("(Ok (%s, %s, %s))", emit.Z(df), emit.Z(db), emit.ZI(last)), info
}

type convCase struct {
	Reverse bool
	Amount  *big.Int
	Holder  int
}

func view(h *apph.H, ctx sdk.Context, holder, byst sdk.AccAddress) []string {
	mod := authtypes.NewModuleAddress(tctypes.ModuleName)
	v := []*big.Int{
		h.Bal(ctx, holder, bond).BigInt(), h.Bal(ctx, holder, fee).BigInt(), h.Bal(ctx, holder, "uusdc").BigInt(),
		h.Bal(ctx, mod, bond).BigInt(), h.Bal(ctx, mod, fee).BigInt(),
		h.Supply(ctx, bond).BigInt(), h.Supply(ctx, fee).BigInt(),
		h.Bal(ctx, byst, bond).BigInt(), h.Bal(ctx, byst, fee).BigInt(),
	}
	out := make([]string, len(v))
	for i, x := range v {
		out[i] = emit.Z(x)
	}
	return out
}

// runConv executes a conversion on the live state (state persists across cases).
func runConv(h *apph.H, c convCase) (string, map[string]any) {
	ctx := h.Ctx()
	holder := h.Accts[c.Holder].Addr
	byst := h.Accts[(c.Holder+1)%len(h.Accts)].Addr
	pre := view(h, ctx, holder, byst)
	srv := tckeeper.NewMsgServerImpl(h.App.TokenconverterKeeper)
	var err error
	if c.Reverse {
		err = apph.Tx(ctx, func(ctx sdk.Context) error {
			return h.App.TokenconverterKeeper.ConvertReverse(ctx, sdkmath.NewIntFromBigInt(c.Amount), holder)
		})
	} else {
		err = apph.Tx(ctx, func(ctx sdk.Context) error {
			_, e := srv.Convert(ctx, &tctypes.MsgConvert{Sender: holder.String(), Amount: sdkmath.NewIntFromBigInt(c.Amount)})
			return e
		})
	}
	post := view(h, ctx, holder, byst)
	info := map[string]any{"kind": "convert", "reverse": c.Reverse, "amount": c.Amount.String(), "holder": c.Holder, "pre": pre, "post": post}
	if err != nil {
		info["err"] = err.Error()
	}
	term := fmt.Sprintf("{| co_reverse := %s; co_amount := %s; co_pre := %s; co_ok := %s; co_post := %s |}",
		emit.Bool(c.Reverse), emit.Z(c.Amount), emit.List(pre), emit.Bool(err == nil), emit.List(post))
	return term, info
}

// Run generates n cases (plus the fixed corpus) and writes cases + stats into outDir.
func Run(seed int64, n int, outDir string) error {
	r := emit.NewRand(seed)
	// modest balances so that supplies around the cap can be reached by mint/burn
	bal := sdk.NewCoins(sdk.NewCoin(fee, sdkmath.NewInt(2_000_000_000_000)), sdk.NewCoin(bond, sdkmath.NewInt(2_000_000_000_000)),
		sdk.NewCoin("uusdc", sdkmath.NewInt(1_000_000)))
	h := apph.New(apph.Options{NumAccounts: 3, Balances: bal})
	defer h.Close()
	// a second instance with a tiny genesis supply for the mint cases
	hm := apph.New(apph.Options{NumAccounts: 1, Balances: sdk.NewCoins(sdk.NewCoin(fee, sdkmath.NewInt(1)))})
	defer hm.Close()
	st := emit.NewStats("C13", seed, "mint: one real MintFn call on generated (supplies, last mint, block time, ratio); non-trivial when 0 < minted < cap - supply, distinct by (years since genesis, seconds bucket, ratio class). convert: real Msg/Convert and keeper ConvertReverse on live balances; non-trivial when it succeeded with 0 < amount <= balance, distinct by amount")
	cf := &emit.CasesFile{Import: "Econ.C13Check", Runner: "run", Type: "c13_case"}

	// corpus first: the long-gap witness of MintProofs.long_gap_witness
	corpus := []mintCase{}
	{
		l := int64(1800000000 - 3*31536000)
		corpus = append(corpus, mintCase{FeeSupply: big.NewInt(999999998000000), BondSupply: big.NewInt(1000000), Last: &l,
			NowNs: new(big.Int).Mul(big.NewInt(1800000000), big.NewInt(1_000_000_000)), Ratio: new(big.Int).Div(new(big.Int).Exp(big.NewInt(10), big.NewInt(18), nil), big.NewInt(2))})
	}
	doMint := func(c mintCase, tag string) {
		obs, info := runMint(hm, &c)
		info["tag"] = tag
		cf.Add(fmt.Sprintf("CMint %s %s", c.coq(), obs))
		st.Info(info)
		st.Count("mint")
		st.Evaluations++
		if fm, ok := info["fee_minted"].(string); ok {
			tot := new(big.Int)
			tot.SetString(fm, 10)
			bm := new(big.Int)
			bm.SetString(info["bond_minted"].(string), 10)
			tot.Add(tot, bm)
			room := new(big.Int).Sub(capSupply, new(big.Int).Add(c.FeeSupply, c.BondSupply))
			if tot.Sign() > 0 {
				st.Count("mint:minted>0")
			} else {
				st.Count("mint:minted=0")
			}
			if tot.Sign() > 0 && tot.Cmp(room) < 0 {
				sec := new(big.Int).Div(c.NowNs, big.NewInt(1_000_000_000)).Int64()
				yrs := (sec - genesisSec) / year
				st.Nontriv(fmt.Sprintf("mint/%d/%d/%s", yrs, tot.BitLen(), c.Ratio.String()))
			}
			st.Sample(info)
		} else {
			st.Count("mint:err-or-panic")
		}
	}
	for _, c := range corpus {
		doMint(c, "corpus:long-gap")
	}
	// supplies at which the pro-rated provision sits exactly on, just below and just above a whole
	// unit (annual x seconds = k x year - g, k x year, k x year + g): where any rounding of the year
	// fraction, instead of the exact integer quotient, shows
	for i := 0; i < 36; i++ {
		if c, ok := boundaryMint(hm, r, i); ok {
			doMint(c, "boundary")
		}
	}
	nm := n * 2 / 3
	for i := 0; i < nm; i++ {
		doMint(genMint(r), "gen")
	}
	// conversions on live state, interleaved with blocks
	for i := 0; i < n-nm; i++ {
		holder := r.Intn(len(h.Accts))
		c := convCase{Reverse: r.Chance(1, 3), Holder: holder}
		src := bond
		if c.Reverse {
			src = fee
		}
		balb := h.Bal(h.Ctx(), h.Accts[holder].Addr, src).BigInt()
		switch r.Intn(8) {
		case 0:
			c.Amount = big.NewInt(0)
		case 1:
			c.Amount = big.NewInt(-1 - int64(r.Intn(5)))
		case 2:
			c.Amount = new(big.Int).Add(balb, big.NewInt(1+int64(r.Intn(3))))
		case 3:
			c.Amount = new(big.Int).Set(balb)
		case 4:
			c.Amount = big.NewInt(1)
		default:
			c.Amount = r.Big(new(big.Int).Add(balb, big.NewInt(1)))
		}
		term, info := runConv(h, c)
		cf.Add("CConv " + term)
		st.Info(info)
		st.Evaluations++
		if _, bad := info["err"]; bad {
			st.Count("convert:err")
		} else {
			st.Count("convert:ok")
			if c.Amount.Sign() > 0 {
				st.Nontriv("conv/" + fmt.Sprint(c.Reverse) + "/" + c.Amount.String())
			}
			st.Sample(info)
		}
		if r.Chance(1, 10) {
			if _, err := h.NextBlock(time.Second * time.Duration(1+r.Intn(120))); err != nil {
				return fmt.Errorf("block failed: %w", err)
			}
		}
	}
	// real blocks: the mint as wired into the application (stored minter, epoch hook)
	if err := runMintBlocks(r, cf, st); err != nil {
		return err
	}
	// transfer-ban scenarios (fixed histories, every run)
	if err := runBan(seed, cf, st); err != nil {
		return err
	}
	if _, err := cf.Write(outDir, "cases", 500); err != nil {
		return err
	}
	return st.Write(outDir)
}

// runMintBlocks runs real blocks with varied time steps and records, per block, the supplies and
// the STORED minter before and after, so that persistence of the last-mint time is covered. The
// second history keeps the combined supply at the cap for a while (the provision is zero there)
// and then lowers it by burns of different sizes: what is minted afterwards is pro-rated to the
// time since the previous minute epoch, not to the time spent at the cap.
func runMintBlocks(r *emit.Rand, cf *emit.CasesFile, st *emit.Stats) error {
	steps := []time.Duration{time.Second, 30 * time.Second, 59 * time.Second, 61 * time.Second, 61 * time.Second, 2 * time.Minute, time.Hour, 61 * time.Second, 7 * time.Second, 90 * time.Second}
	if err := mintHistory("free", r, cf, st, 36, steps, nil); err != nil {
		return err
	}
	capSteps := []time.Duration{61 * time.Second, 61 * time.Second, 5 * time.Minute, 20 * time.Minute, time.Hour, 6 * time.Hour, 30 * time.Second}
	// block index -> change of the combined supply applied before that block (through the fee token)
	atCap := func(h *apph.H, i int) error {
		ctx := h.Ctx()
		total := new(big.Int).Add(h.Supply(ctx, fee).BigInt(), h.Supply(ctx, bond).BigInt())
		capv := mintCap()
		target := new(big.Int)
		switch {
		case i == 0 || i == 22:
			target.Set(capv) // exactly at the cap
		case i == 11:
			target.Sub(capv, new(big.Int).Div(capv, big.NewInt(8))) // a holder burns an eighth of the supply
		case i == 17:
			target.Add(capv, big.NewInt(12345)) // above the cap (another module minted)
		case i == 30:
			target.Sub(capv, big.NewInt(10_000_000)) // small burn: room of 10 tokens
		case i == 36:
			target.Sub(capv, big.NewInt(int64(1+r.Intn(2_000_000)))) // room so small that the minute provision truncates to zero
		default:
			return nil
		}
		d := new(big.Int).Sub(target, total)
		return setSupply(h, ctx, fee, new(big.Int).Add(h.Supply(ctx, fee).BigInt(), d))
	}
	return mintHistory("at-cap", r, cf, st, 44, capSteps, atCap)
}

func mintCap() *big.Int {
	return new(big.Int).Mul(big.NewInt(1_000_000_000), big.NewInt(1_000_000))
}

func mintHistory(name string, r *emit.Rand, cf *emit.CasesFile, st *emit.Stats, blocks int, steps []time.Duration, before func(h *apph.H, i int) error) error {
	h := apph.New(apph.Options{NumAccounts: 2, Balances: sdk.NewCoins(sdk.NewCoin(fee, sdkmath.NewInt(400_000_000_000_000)), sdk.NewCoin(bond, sdkmath.NewInt(50_000_000_000_000)))})
	defer h.Close()
	stored := func(ctx sdk.Context) string {
		m, err := h.App.MintKeeper.Minter.Get(ctx)
		if err != nil || len(m.Data) != 8 {
			return emit.None()
		}
		return emit.Some(emit.ZI(int64(binary.BigEndian.Uint64(m.Data))))
	}
	epoch := func(ctx sdk.Context) int64 {
		e, err := h.App.EpochsKeeper.EpochInfo.Get(ctx, "minute")
		if err != nil {
			return -1
		}
		return e.CurrentEpoch
	}
	var prevEpochTime *int64
	for i := 0; i < blocks; i++ {
		if before != nil {
			if err := before(h, i); err != nil {
				return fmt.Errorf("%s: supply change before block %d: %w", name, i, err)
			}
		}
		ctx := h.Ctx()
		f0, b0 := h.Supply(ctx, fee).BigInt(), h.Supply(ctx, bond).BigInt()
		s0 := stored(ctx)
		e0 := epoch(ctx)
		p, err := h.App.LiquidityincentiveKeeper.Params.Get(ctx)
		if err != nil {
			return err
		}
		ratio, _ := sdkmath.LegacyNewDecFromStr(p.StakingRewardRatio)
		dt := steps[r.Intn(len(steps))] + time.Duration(r.Intn(1000))*time.Millisecond
		if _, err := h.NextBlock(dt); err != nil {
			return fmt.Errorf("block failed: %w", err)
		}
		ctx = h.Ctx()
		f1, b1 := h.Supply(ctx, fee).BigInt(), h.Supply(ctx, bond).BigInt()
		s1 := stored(ctx)
		began := epoch(ctx) != e0
		df, db := new(big.Int).Sub(f1, f0), new(big.Int).Sub(b1, b0)
		nowNs := new(big.Int).SetInt64(h.Time.UnixNano())
		cf.Add(fmt.Sprintf("CMintBlock {| bk_fee := %s; bk_bond := %s; bk_stored := %s; bk_now_ns := %s; bk_ratio := %s; bk_dfee := %s; bk_dbond := %s; bk_stored' := %s; bk_epoch := %s; bk_prev_mint := %s |}",
			emit.Z(f0), emit.Z(b0), s0, emit.Z(nowNs), emit.Z(ratio.BigInt()), emit.Z(df), emit.Z(db), s1, emit.Bool(began), optZ(prevEpochTime)))
		room := new(big.Int).Sub(mintCap(), new(big.Int).Add(f0, b0))
		info := map[string]any{"kind": "mint-block", "history": name, "block": i, "dt": dt.String(), "fee_supply": f0.String(), "bond_supply": b0.String(), "room_under_cap": room.String(),
			"epoch_began": began, "fee_minted": df.String(), "bond_minted": db.String(), "stored_before": s0, "stored_after": s1}
		st.Info(info)
		st.Evaluations++
		switch {
		case df.Sign() > 0 || db.Sign() > 0:
			st.Count("mint-block:minted")
			st.Nontriv("mint-block/" + name + "/" + dt.Truncate(time.Second).String())
			st.Sample(info)
		case began:
			st.Count("mint-block:epoch-without-mint")
			st.Nontriv("mint-block/" + name + "/zero-provision/" + room.String())
		default:
			st.Count("mint-block:nothing")
		}
		if began {
			t := h.Time.Unix()
			prevEpochTime = &t
		}
	}
	return nil
}
