package amm

// Exported views of the package's helpers, used by the C02 harness (harness/c02).
// Add-only file: nothing here changes the behaviour of amm.go / gen.go. Names carry the
// C02 prefix so that they cannot collide with other builders' export files.

import (
	"math/big"

	sdk "github.com/cosmos/cosmos-sdk/types"

	lptypes "github.com/sunriselayer/sunrise/x/liquiditypool/types"
)

// C02Positions returns the open positions of pool p (store order).
func (w *World) C02Positions(ctx sdk.Context, p PoolInfo) []lptypes.Position {
	return w.positions(ctx, p)
}

// C02UserIndex maps a bech32 address to the index of the genesis account (99 = unknown).
func (w *World) C02UserIndex(addr string) int { return w.userIndex(addr) }

// C02Raw parses a LegacyDec string into its raw 10^18-scaled integer.
func C02Raw(s string) *big.Int { return raw(s) }

// C02Span is the tick span the generators use for the pool's price ratio.
func (p PoolInfo) C02Span() int64 { return p.span() }

// C02CoinVec renders sdk.Coins as the four denom slots of pool p (as Exec does for claims).
func (p PoolInfo) C02CoinVec(cs sdk.Coins) []string { return p.coinVec(cs) }
