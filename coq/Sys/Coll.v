(* C14: executable shapes of Go loops and Go maps used by the loop models. No proofs here.
   - foldM: a loop whose body may return an error or panic (first failure aborts the loop);
   - smap: a Go map with integer-coded keys in canonical form (strictly ascending keys), so that
     two maps with the same contents are the same term whatever the insertion order was — Go maps
     have no insertion order either;
   - isort_by: stable insertion sort = the function computed by sort.SliceStable with a `<` on the key
     (every stable sort computes the same function). *)
From Coq Require Import ZArith List Bool.
From Sunrise Require Import Base.Outcome.
Import ListNotations.
Local Open Scope Z_scope.

Fixpoint foldM {S A : Type} (f : S -> A -> res S) (l : list A) (s : S) : res S :=
  match l with
  | [] => Ok s
  | a :: tl => rbind (f s a) (foldM f tl)
  end.

Definition smap (V : Type) := list (Z * V).

Fixpoint sget {V} (k : Z) (m : smap V) : option V :=
  match m with
  | [] => None
  | (k', v) :: t => if k =? k' then Some v else sget k t
  end.

Fixpoint supd {V} (k : Z) (v : V) (m : smap V) : smap V :=
  match m with
  | [] => [(k, v)]
  | (k', v') :: t =>
      if k <? k' then (k, v) :: m
      else if k =? k' then (k, v) :: t
      else (k', v') :: supd k v t
  end.

Definition skeys {V} (m : smap V) : list Z := map fst m.

(* canonical form: keys strictly ascending *)
Fixpoint sm_ok {V} (m : smap V) : Prop :=
  match m with
  | [] => True
  | (k, _) :: t => (forall k', In k' (skeys t) -> k < k') /\ sm_ok t
  end.

Fixpoint sm_okb {V} (m : smap V) : bool :=
  match m with
  | [] => true
  | (k, _) :: t => forallb (fun k' => k <? k') (skeys t) && sm_okb t
  end.

Fixpoint insert_by {A} (key : A -> Z) (x : A) (l : list A) : list A :=
  match l with
  | [] => [x]
  | y :: t => if key x <=? key y then x :: l else y :: insert_by key x t
  end.

Fixpoint isort_by {A} (key : A -> Z) (l : list A) : list A :=
  match l with
  | [] => []
  | x :: t => insert_by key x (isort_by key t)
  end.

Fixpoint zmem (x : Z) (l : list Z) : bool :=
  match l with [] => false | y :: t => (x =? y) || zmem x t end.
