package c15

import (
	"fmt"
	"go/ast"
	"go/parser"
	"go/token"
	"math/big"
	"os"
	"path/filepath"
	"reflect"
	"sort"
	"strconv"
	"strings"

	sdkmath "cosmossdk.io/math"
	sdk "github.com/cosmos/cosmos-sdk/types"

	litypes "github.com/sunriselayer/sunrise/x/liquidityincentive/types"
	lptypes "github.com/sunriselayer/sunrise/x/liquiditypool/types"
	swaptypes "github.com/sunriselayer/sunrise/x/swap/types"

	"verifharness/emit"
)

// Boundary values of validated intervals.  A parameter is validated against constants (0, 1, -1,
// 1.0001, 1.5, ...); an off-by-one-ulp or a closed-instead-of-open interval shows only AT such a
// constant.  The constants are not listed here by field: they are collected from the sources of
// the custom modules (every decimal / integer literal handed to a LegacyDec constructor or
// compared with one in x/*/types and x/*/keeper), and every decimal place of every create / update
// message takes b - ulp, b, b + ulp for every collected b (and their negatives).

// boundConstants scans $VERIF_REPO/x/*/{types,keeper}/*.go (no tests, no generated code).
func boundConstants() []sdkmath.LegacyDec {
	set := map[string]sdkmath.LegacyDec{}
	add := func(d sdkmath.LegacyDec) {
		for _, x := range []sdkmath.LegacyDec{d, d.Neg()} {
			set[x.String()] = x
		}
	}
	for _, s := range []string{"0", "1", "2", "0.5"} {
		add(sdkmath.LegacyMustNewDecFromStr(s))
	}
	repo := os.Getenv("VERIF_REPO")
	if repo == "" {
		repo = "/repo"
	}
	var files []string
	for _, pat := range []string{"x/*/types/*.go", "x/*/keeper/*.go"} {
		m, _ := filepath.Glob(filepath.Join(repo, pat))
		files = append(files, m...)
	}
	intArg := func(e ast.Expr) (int64, bool) {
		neg := false
		if u, ok := e.(*ast.UnaryExpr); ok && u.Op == token.SUB {
			neg, e = true, u.X
		}
		lit, ok := e.(*ast.BasicLit)
		if !ok || lit.Kind != token.INT {
			return 0, false
		}
		v, err := strconv.ParseInt(strings.ReplaceAll(lit.Value, "_", ""), 0, 64)
		if err != nil {
			return 0, false
		}
		if neg {
			v = -v
		}
		return v, true
	}
	for _, f := range files {
		if strings.HasSuffix(f, "_test.go") || strings.Contains(f, ".pb.") {
			continue
		}
		file, err := parser.ParseFile(token.NewFileSet(), f, nil, 0)
		if err != nil {
			continue
		}
		ast.Inspect(file, func(n ast.Node) bool {
			call, ok := n.(*ast.CallExpr)
			if !ok {
				return true
			}
			name := ""
			switch fn := call.Fun.(type) {
			case *ast.SelectorExpr:
				name = fn.Sel.Name
			case *ast.Ident:
				name = fn.Name
			}
			switch name {
			case "LegacyNewDecWithPrec":
				if len(call.Args) == 2 {
					a, ok1 := intArg(call.Args[0])
					p, ok2 := intArg(call.Args[1])
					if ok1 && ok2 && p >= 0 && p <= 18 {
						add(sdkmath.LegacyNewDecWithPrec(a, p))
					}
				}
			case "LegacyNewDec", "LegacyNewDecFromInt64":
				if len(call.Args) == 1 {
					if a, ok := intArg(call.Args[0]); ok && a > -1_000_000 && a < 1_000_000 {
						add(sdkmath.LegacyNewDec(a))
					}
				}
			case "LegacyMustNewDecFromStr", "LegacyNewDecFromStr":
				if len(call.Args) == 1 {
					if lit, ok := call.Args[0].(*ast.BasicLit); ok && lit.Kind == token.STRING {
						if s, err := strconv.Unquote(lit.Value); err == nil {
							if d, err := sdkmath.LegacyNewDecFromStr(s); err == nil && d.Abs().LT(sdkmath.LegacyNewDec(1_000_000)) {
								add(d)
							}
						}
					}
				}
			}
			return true
		})
	}
	keys := make([]string, 0, len(set))
	for k := range set {
		keys = append(keys, k)
	}
	sort.Strings(keys)
	out := make([]sdkmath.LegacyDec, 0, len(keys))
	for _, k := range keys {
		out = append(out, set[k])
	}
	return out
}

// boundGrid: b - ulp, b, b + ulp for every constant.
func boundGrid(consts []sdkmath.LegacyDec) []sdkmath.LegacyDec {
	seen := map[string]bool{}
	var out []sdkmath.LegacyDec
	ulp := sdkmath.LegacySmallestDec()
	for _, b := range consts {
		for _, x := range []sdkmath.LegacyDec{b.Sub(ulp), b, b.Add(ulp)} {
			if !seen[x.String()] {
				seen[x.String()] = true
				out = append(out, x)
			}
		}
	}
	return out
}

// decLeaf is one decimal-valued place of a request: a LegacyDec field or a string field that
// holds a decimal in the valid base request.
type decLeaf struct {
	name string
	set  func(d sdkmath.LegacyDec)
}

func decLeaves(v reflect.Value, prefix string, out *[]decLeaf, depth int) {
	t := v.Type()
	switch {
	case t == tDec:
		*out = append(*out, decLeaf{prefix, func(d sdkmath.LegacyDec) { v.Set(reflect.ValueOf(d)) }})
		return
	case t == tInt || t == tTime || t == tRoute:
		return
	}
	switch t.Kind() {
	case reflect.String:
		s := v.String()
		if _, err := sdkmath.LegacyNewDecFromStr(s); err == nil && strings.ContainsAny(s, ".") || isDecName(prefix) && err == nil {
			*out = append(*out, decLeaf{prefix, func(d sdkmath.LegacyDec) { v.SetString(d.String()) }})
		}
	case reflect.Slice:
		if t.Elem().Kind() == reflect.Uint8 {
			return
		}
		for i := 0; i < v.Len() && i < 2; i++ {
			decLeaves(v.Index(i), fmt.Sprintf("%s[%d]", prefix, i), out, depth-1)
		}
	case reflect.Ptr:
		if !v.IsNil() && t.Elem().Kind() == reflect.Struct && depth > 0 {
			decLeaves(v.Elem(), prefix, out, depth-1)
		}
	case reflect.Struct:
		if depth <= 0 {
			return
		}
		for i := 0; i < t.NumField(); i++ {
			sf := t.Field(i)
			if sf.PkgPath != "" || strings.HasPrefix(sf.Name, "XXX_") {
				continue
			}
			name := sf.Name
			if prefix != "" {
				name = prefix + "." + sf.Name
			}
			decLeaves(v.Field(i), name, out, depth-1)
		}
	}
}

// a string field whose valid value is a whole number is still a decimal place when the message
// declares it as a rate / ratio / weight / offset / liquidity / threshold / factor / fraction
func isDecName(name string) bool {
	f := strings.ToLower(name)
	for _, k := range []string{"rate", "ratio", "weight", "offset", "liquidity", "threshold", "factor", "fraction"} {
		if strings.Contains(f, k) {
			return true
		}
	}
	return false
}

// isCreateOrUpdate: messages that create an object or set parameters other calls depend on.
func isCreateOrUpdate(m method) bool {
	if m.Kind != "Msg" {
		return false
	}
	for _, p := range []string{"Create", "Update", "Register", "Vote", "Publish"} {
		if strings.HasPrefix(m.Name, p) {
			return true
		}
	}
	return false
}

// boundProbes: every decimal place of every message (create / update messages first of all)
// x the boundary grid, everything else valid.
func (w *world) boundProbes(grid []sdkmath.LegacyDec) []headCase {
	var out []headCase
	for _, m := range w.ms {
		if m.Kind != "Msg" {
			continue
		}
		seed := int64(len(m.Key()))*104729 + 7
		probe := w.base(emit.NewRand(seed), m.Key())
		if probe == nil {
			continue
		}
		var ls []decLeaf
		decLeaves(reflect.ValueOf(probe).Elem(), "", &ls, 4)
		for li := range ls {
			for _, d := range grid {
				req := w.base(emit.NewRand(seed), m.Key())
				var cur []decLeaf
				decLeaves(reflect.ValueOf(req).Elem(), "", &cur, 4)
				if li >= len(cur) {
					continue
				}
				cur[li].set(d)
				out = append(out, headCase{m.Key(), req, "bound:" + ls[li].name})
			}
		}
	}
	return out
}

// ---------- follow-up batteries ----------

// followUp lists what is run, in the same scenario context, after a create / update message was
// accepted: for a new pool the standard life of a pool (positions around tick 0 and far away, the
// calculation queries, swaps and quotes both ways, claim, decrease); for every accepted message
// the base request of every method of the same module (they read the object / parameters just
// written).
func (w *world) followUp(m method, req any, resp any) []headCase {
	var out []headCase
	add := func(key string, r any, tag string) {
		out = append(out, headCase{key, r, "follow:" + m.Module + "." + m.Name + "/" + tag})
	}
	a0, a1 := w.p.accAddrs[0], w.p.accAddrs[1]
	if cp, ok := req.(*lptypes.MsgCreatePool); ok {
		if r, ok := resp.(*lptypes.MsgCreatePoolResponse); ok && r != nil {
			id := r.Id
			pos := func(lo, hi int64, b, q int64) *lptypes.MsgCreatePosition {
				return &lptypes.MsgCreatePosition{Sender: a0, PoolId: id, LowerTick: lo, UpperTick: hi,
					TokenBase: sdk.NewInt64Coin(cp.DenomBase, b), TokenQuote: sdk.NewInt64Coin(cp.DenomQuote, q),
					MinAmountBase: sdkmath.ZeroInt(), MinAmountQuote: sdkmath.ZeroInt()}
			}
			for _, rg := range [][2]int64{{-10, 10}, {0, 10}, {-10, 0}, {1000, 2000}, {-2000, -1000}} {
				for _, d := range []string{cp.DenomBase, cp.DenomQuote} {
					add("liquiditypool.Query.CalculationCreatePosition", &lptypes.QueryCalculationCreatePositionRequest{PoolId: id,
						LowerTick: fmt.Sprint(rg[0]), UpperTick: fmt.Sprint(rg[1]), Amount: "1000", Denom: d}, "calc before")
				}
			}
			add("liquiditypool.Msg.CreatePosition", pos(-10, 10, 100_000, 100_000), "position around 0")
			add("liquiditypool.Msg.CreatePosition", pos(1000, 2000, 100_000, 0), "position far up")
			add("liquiditypool.Msg.CreatePosition", pos(-2000, -1000, 0, 100_000), "position far down")
			for _, rg := range [][2]int64{{-10, 10}, {0, 10}, {-10, 0}, {1000, 2000}} {
				for _, d := range []string{cp.DenomBase, cp.DenomQuote} {
					add("liquiditypool.Query.CalculationCreatePosition", &lptypes.QueryCalculationCreatePositionRequest{PoolId: id,
						LowerTick: fmt.Sprint(rg[0]), UpperTick: fmt.Sprint(rg[1]), Amount: "1000", Denom: d}, "calc after")
				}
			}
			for _, dir := range [][2]string{{cp.DenomBase, cp.DenomQuote}, {cp.DenomQuote, cp.DenomBase}} {
				rt := poolRoute(dir[0], dir[1], id)
				r1, r2 := rt, rt
				add("swap.Query.CalculationSwapExactAmountIn", &swaptypes.QueryCalculationSwapExactAmountInRequest{Route: &r1, AmountIn: "100"}, "quote in")
				add("swap.Query.CalculationSwapExactAmountOut", &swaptypes.QueryCalculationSwapExactAmountOutRequest{Route: &r2, AmountOut: "100"}, "quote out")
				add("swap.Msg.SwapExactAmountIn", &swaptypes.MsgSwapExactAmountIn{Sender: a1, Route: rt, AmountIn: sdkmath.NewInt(100), MinAmountOut: sdkmath.OneInt()}, "swap in")
				add("swap.Msg.SwapExactAmountOut", &swaptypes.MsgSwapExactAmountOut{Sender: a1, Route: rt, MaxAmountIn: sdkmath.NewInt(1_000_000), AmountOut: sdkmath.NewInt(50)}, "swap out")
			}
			add("liquiditypool.Query.Pool", &lptypes.QueryPoolRequest{Id: id}, "pool")
			add("liquiditypool.Query.PoolPositions", &lptypes.QueryPoolPositionsRequest{PoolId: id}, "positions")
			add("liquidityincentive.Msg.VoteGauge", &litypes.MsgVoteGauge{Sender: a1, PoolWeights: []litypes.PoolWeight{{PoolId: id, Weight: "1"}}}, "vote")
			// claim / increase / decrease on whatever position ids exist by then are added by the caller (they depend on the state after the steps above)
		}
	}
	// the same module's methods with their base requests (the deep-path ones among them: valid
	// signer, valid proof, in-range index ...), TWICE: a second call in the same process is where
	// caches, memoised errors and lazily initialised state show
	out = append(out, w.moduleBattery(m, "module", 2)...)
	return out
}

// moduleBattery: the base request of every method of m's module, `passes` times in a row.
func (w *world) moduleBattery(m method, tag string, passes int) []headCase {
	var out []headCase
	r := emit.NewRand(int64(len(m.Key())) + 99)
	for pass := 1; pass <= passes; pass++ {
		for _, mm := range w.ms {
			if mm.Module != m.Module || strings.HasSuffix(mm.Name, "UpdateParams") {
				continue
			}
			if b := w.base(r, mm.Key()); b != nil {
				out = append(out, headCase{mm.Key(), b, fmt.Sprintf("follow:%s.%s/%s pass %d", m.Module, m.Name, tag, pass)})
			}
		}
	}
	return out
}

// restoreParams: the UpdateParams message that puts the module's parameters back to what the
// committed state holds (nil when m is not an UpdateParams).
func (w *world) restoreParams(m method) any {
	if m.Name != "UpdateParams" {
		return nil
	}
	over := w.over
	w.over = nil // base() reads the parameters of the committed state
	defer func() { w.over = over }()
	return w.base(emit.NewRand(1), m.Key())
}

// poolTail: claim, fees, increase and decrease on the positions of a pool, read from the scenario state.
func (w *world) poolTail(m method, poolID uint64) []headCase {
	var out []headCase
	ctx := w.stateCtx()
	ps, err := w.h.App.LiquiditypoolKeeper.GetPositionsByPool(ctx, poolID)
	if err != nil {
		return nil
	}
	tag := "follow:" + m.Module + "." + m.Name + "/tail"
	for _, p := range ps {
		out = append(out, headCase{"liquiditypool.Query.PositionFees", &lptypes.QueryPositionFeesRequest{Id: p.Id}, tag})
		out = append(out, headCase{"liquiditypool.Msg.ClaimRewards", &lptypes.MsgClaimRewards{Sender: p.Address, PositionIds: []uint64{p.Id}}, tag})
		out = append(out, headCase{"liquiditypool.Msg.IncreaseLiquidity", &lptypes.MsgIncreaseLiquidity{Sender: p.Address, Id: p.Id, AmountBase: sdkmath.NewInt(1000), AmountQuote: sdkmath.NewInt(1000),
			MinAmountBase: sdkmath.ZeroInt(), MinAmountQuote: sdkmath.ZeroInt()}, tag})
	}
	// ids may have changed (IncreaseLiquidity re-creates the position): decrease is read again by the caller
	return out
}

func (w *world) poolDecreases(m method, poolID uint64) []headCase {
	var out []headCase
	ps, err := w.h.App.LiquiditypoolKeeper.GetPositionsByPool(w.stateCtx(), poolID)
	if err != nil {
		return nil
	}
	tag := "follow:" + m.Module + "." + m.Name + "/decrease"
	for _, p := range ps {
		liq, err := sdkmath.LegacyNewDecFromStr(p.Liquidity)
		if err != nil {
			continue
		}
		out = append(out, headCase{"liquiditypool.Msg.DecreaseLiquidity", &lptypes.MsgDecreaseLiquidity{Sender: p.Address, Id: p.Id, Liquidity: liq.QuoInt64(2).String()}, tag})
		out = append(out, headCase{"liquiditypool.Msg.DecreaseLiquidity", &lptypes.MsgDecreaseLiquidity{Sender: p.Address, Id: p.Id, Liquidity: liq.Sub(liq.QuoInt64(2)).String()}, tag})
	}
	return out
}

var _ = big.NewInt
