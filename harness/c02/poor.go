package c02

// Poor accounts: every genesis account of the AMM world holds ~1e36 of every denom, so no transfer
// of a deposit, a swap input or an incentive ever fails for lack of funds.  These helpers move an
// account's holdings of a pool's denoms to a vault address (bank keeper, between steps, outside the
// observed cases) so that the acting account holds exactly a chosen amount: only quote, only base,
// exactly what the message needs, or one unit less of one side.  The model's [send] checks the dumped
// user balance, so "insufficient funds" is a modelled outcome and a success is a mismatch.

import (
	"fmt"
	"math/big"

	sdkmath "cosmossdk.io/math"
	sdk "github.com/cosmos/cosmos-sdk/types"

	"verifharness/amm"
)

var vault = sdk.AccAddress([]byte("c02-vault-address---"))

func (r *runner) move(ctx sdk.Context, from, to sdk.AccAddress, denom string, amt *big.Int) {
	if amt.Sign() <= 0 {
		return
	}
	if err := r.w.H.App.BankKeeper.SendCoins(ctx, from, to, sdk.NewCoins(sdk.NewCoin(denom, sdkmath.NewIntFromBigInt(amt)))); err != nil {
		panic(fmt.Sprintf("c02 funding helper: %v", err))
	}
}

// withBalances runs f while account `who` holds exactly want[i] of p.Denoms[i] (nil = leave alone),
// then gives back what was taken away.
func (r *runner) withBalances(ctx sdk.Context, p amm.PoolInfo, who int, want []*big.Int, f func()) {
	addr := r.w.H.Accts[who%len(r.w.H.Accts)].Addr
	taken := make([]*big.Int, len(want))
	for i, x := range want {
		if x == nil {
			continue
		}
		cur := r.w.H.Bal(ctx, addr, p.Denoms[i]).BigInt()
		taken[i] = new(big.Int).Sub(cur, x)
		if taken[i].Sign() < 0 {
			panic("c02 funding helper: account already poorer than requested")
		}
		r.move(ctx, addr, vault, p.Denoms[i], taken[i])
	}
	f()
	for i, t := range taken {
		if t != nil {
			r.move(ctx, vault, addr, p.Denoms[i], t)
		}
	}
}

// needs executes o in a discarded context with the rich account and returns what the sender paid net
// per trading denom (0 if it received), and whether the message succeeded.
func (r *runner) needs(ctx sdk.Context, p amm.PoolInfo, o amm.Op) (pay [2]*big.Int, ok bool) {
	addr := r.w.H.Accts[o.Sender%len(r.w.H.Accts)].Addr
	c, _ := ctx.CacheContext()
	var before [2]*big.Int
	for i := 0; i < 2; i++ {
		before[i] = r.w.H.Bal(c, addr, p.Denoms[i]).BigInt()
	}
	_, err := r.w.Exec(c, p, o)
	for i := 0; i < 2; i++ {
		pay[i] = new(big.Int).Sub(before[i], r.w.H.Bal(c, addr, p.Denoms[i]).BigInt())
		if pay[i].Sign() < 0 {
			pay[i].SetInt64(0)
		}
	}
	return pay, err == nil
}

// poorVariants: the balances to try for a message that needs pay[0] base and pay[1] quote.
func poorVariants(pay [2]*big.Int) (names []string, bals [][]*big.Int) {
	one := big.NewInt(1)
	z := func() *big.Int { return big.NewInt(0) }
	add := func(n string, b, q *big.Int) { names = append(names, n); bals = append(bals, []*big.Int{b, q}) }
	if pay[0].Sign() > 0 {
		add("only-quote", z(), new(big.Int).Set(pay[1]))
		add("one-base-unit-short", new(big.Int).Sub(pay[0], one), new(big.Int).Set(pay[1]))
	}
	if pay[1].Sign() > 0 {
		add("only-base", new(big.Int).Set(pay[0]), z())
		add("one-quote-unit-short", new(big.Int).Set(pay[0]), new(big.Int).Sub(pay[1], one))
	}
	add("exactly-enough", new(big.Int).Set(pay[0]), new(big.Int).Set(pay[1]))
	return
}

// poorStep commits o with the sender holding the k-th poor variant of what o needs (k < 0: all of
// them, the exact one last). Returns false if o does not succeed even for a rich sender.
func (r *runner) poorStep(ctx sdk.Context, p amm.PoolInfo, o amm.Op, k int) bool {
	pay, ok := r.needs(ctx, p, o)
	if !ok || (pay[0].Sign() == 0 && pay[1].Sign() == 0) {
		return false
	}
	names, bals := poorVariants(pay)
	run := func(i int) {
		oo := o
		oo.Tag = o.Tag + "/poor:" + names[i]
		r.withBalances(ctx, p, o.Sender, bals[i], func() {
			err := r.commit(ctx, p, oo)
			r.st.Count("poor-sender:" + names[i])
			if (err == nil) != (names[i] == "exactly-enough") {
				r.st.Count("poor-sender:UNEXPECTED-OUTCOME")
			}
		})
		r.st.Nontriv(fmt.Sprintf("poor/%d/%s/%s", p.ID, o.Kind, names[i]))
	}
	if k < 0 {
		for i := range names {
			run(i)
		}
	} else {
		run(k % len(names))
	}
	return true
}

// scenarioPoor: an honest wide provider, then a poor account as creator of in-range, below-range and
// above-range positions, as increaser, as swapper (exact in / exact out), as claimer and as incentive
// payer; finally everybody exits.
func (r *runner) scenarioPoor(ctx sdk.Context, maxOrders int, all bool) error {
	p, err := r.w.CreatePool("uusdc", "uosmo", "0.003", "1.0001", "0")
	if err != nil {
		return err
	}
	r.commit(ctx, p, create(0, -300, 300, bi("10000000"), bi("10000000"), "poor/honest-wide"))
	k := -1
	pick := func() int {
		if all {
			return -1
		}
		k++
		return k
	}
	// in range: both sides needed (all five variants always: this is the deposit path)
	r.poorStep(ctx, p, create(2, -100, 100, bi("1000000"), bi("1000000"), "poor/create-in-range"), -1)
	r.poorStep(ctx, p, create(2, -250, -150, bi("0"), bi("800000"), "poor/create-below-range"), pick())
	r.poorStep(ctx, p, create(2, 150, 250, bi("700000"), bi("0"), "poor/create-above-range"), pick()+1)
	// increase of the in-range position by its poor owner
	for _, q := range r.w.C02Positions(ctx, p) {
		if q.LowerTick == -100 && r.ownerIndex(q.Address) == 2 {
			o := amm.Op{Kind: "increase", Sender: 2, Pid: q.Id, Base: bi("50000"), Quote: bi("50000"), MinBase: big.NewInt(0), MinQuote: big.NewInt(0), Tag: "poor/increase"}
			r.poorStep(ctx, p, o, -1)
			break
		}
	}
	r.poorStep(ctx, p, swapOp(2, true, 0, bi("500000"), "poor/swap-exact-in"), pick())
	r.poorStep(ctx, p, swapOp(2, false, 1, bi("400000"), "poor/swap-exact-out"), pick()+1)
	// claiming only credits the claimer: a penniless owner must still be able to claim
	var mine []uint64
	for _, q := range r.w.C02Positions(ctx, p) {
		if r.ownerIndex(q.Address) == 2 {
			mine = append(mine, q.Id)
		}
	}
	if len(mine) > 0 {
		r.withBalances(ctx, p, 2, []*big.Int{big.NewInt(0), big.NewInt(0)}, func() {
			r.commit(ctx, p, amm.Op{Kind: "claim", Sender: 2, Pids: mine, Tag: "poor/claim-penniless"})
		})
	}
	// incentive paid by an account that holds one unit less than it offers
	coins := []*big.Int{bi("1000"), bi("2000"), big.NewInt(0), big.NewInt(0)}
	r.withBalances(ctx, p, 3, []*big.Int{bi("1000"), bi("1999")}, func() {
		r.commit(ctx, p, amm.Op{Kind: "allocate", Sender: 3, Coins: coins, Tag: "poor/allocate-one-unit-short"})
	})
	r.drainPool(ctx, p, 4, maxOrders, "poor")
	return nil
}

// poorGenerated: a generated create / increase / swap executed by a sender whose balances are one of
// the poor variants of what the message needs.
func (r *runner) poorGenerated(ctx sdk.Context, p amm.PoolInfo) bool {
	for try := 0; try < 6; try++ {
		o := r.w.GenOp(ctx, p)
		if o.Kind != "create" && o.Kind != "increase" && o.Kind != "swap" {
			continue
		}
		if r.poorStep(ctx, p, o, r.w.R.Intn(5)) {
			return true
		}
	}
	return false
}
