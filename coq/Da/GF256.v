(* GF(2^8) as klauspost/reedsolomon v1.12.3 uses it: polynomial x^8+x^4+x^3+x^2+1 (0x11D),
   generator 2.  Carrier: Coq's [byte] (exactly 256 inhabitants, so every law below is a
   statement about all field elements).  Addition is bitwise xor; multiplication goes through
   log/exp tables that are COMPUTED here from [xtime] (multiplication by the generator), not
   copied from the Go source.  No proofs in this file (see GF256Proofs.v). *)
From Coq Require Import NArith List Bool FMapPositive.
From Coq Require Import Init.Byte Strings.Byte.
Import ListNotations.

Definition gzero : byte := x00.
Definition gone : byte := x01.

Definition xor8 (s t : bool * (bool * (bool * (bool * (bool * (bool * (bool * bool)))))))
  : bool * (bool * (bool * (bool * (bool * (bool * (bool * bool)))))) :=
  let '(a0, (a1, (a2, (a3, (a4, (a5, (a6, a7))))))) := s in
  let '(b0, (b1, (b2, (b3, (b4, (b5, (b6, b7))))))) := t in
  (xorb a0 b0, (xorb a1 b1, (xorb a2 b2, (xorb a3 b3,
   (xorb a4 b4, (xorb a5 b5, (xorb a6 b6, xorb a7 b7))))))).

(* addition = subtraction = xor (galAdd / galSub) *)
Definition gadd (a b : byte) : byte := of_bits (xor8 (to_bits a) (to_bits b)).

(* multiplication by the generator 2: shift left, reduce by 0x11D (low byte 0x1D = bits 0,2,3,4) *)
Definition xtime (a : byte) : byte :=
  let '(a0, (a1, (a2, (a3, (a4, (a5, (a6, a7))))))) := to_bits a in
  of_bits (a7, (a0, (xorb a1 a7, (xorb a2 a7, (xorb a3 a7, (a4, (a5, a6))))))).

(* exp_list = [2^0; 2^1; ...; 2^509] (two periods, so that the sum of two logarithms
   indexes it without a reduction, as klauspost's expTable) *)
Fixpoint iter_list (n : nat) (a : byte) : list byte :=
  match n with O => [] | S n' => a :: iter_list n' (xtime a) end.
Definition exp_list : list byte := Eval vm_compute in iter_list 510 x01.

Fixpoint index_from (l : list byte) (i : N) : list (N * byte) :=
  match l with [] => [] | a :: tl => (i, a) :: index_from tl (N.succ i) end.

Definition exp_map : PositiveMap.t byte :=
  Eval vm_compute in
    fold_left (fun m ia => PositiveMap.add (N.succ_pos (fst ia)) (snd ia) m)
              (index_from exp_list 0%N) (PositiveMap.empty byte).
Definition log_map : PositiveMap.t N :=
  Eval vm_compute in
    fold_left (fun m ia => PositiveMap.add (N.succ_pos (to_N (snd ia))) (fst ia) m)
              (index_from (firstn 255 exp_list) 0%N) (PositiveMap.empty N).

(* gexp i = 2^i for 0 <= i < 510 ; glog a = discrete log (in [0,255)) of a <> 0 *)
Definition gexp (i : N) : byte :=
  match PositiveMap.find (N.succ_pos i) exp_map with Some b => b | None => x00 end.
Definition glog (a : byte) : N :=
  match PositiveMap.find (N.succ_pos (to_N a)) log_map with Some i => i | None => 0%N end.

Definition is_zero (a : byte) : bool := Byte.eqb a x00.

Definition gmul (a b : byte) : byte :=
  if is_zero a then x00 else if is_zero b then x00
  else gexp (glog a + glog b)%N.

Definition ginv (a : byte) : byte :=
  if is_zero a then x00 else gexp (255 - glog a)%N.

Definition gdiv (a b : byte) : byte := gmul a (ginv b).
Definition gopp (a : byte) : byte := a.

(* the field element klauspost writes byte(i): evaluation point number i *)
Definition pt (i : nat) : byte :=
  match Byte.of_nat i with Some b => b | None => x00 end.

Definition all_bytes : list byte := Eval vm_compute in map pt (seq 0 256).
