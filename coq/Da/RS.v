(* Executable model of x/da/erasurecoding/erasurecoding.go on top of
   klauspost/reedsolomon v1.12.3 (default options, GF(2^8), at most 256 shards).

   The library's default coding matrix is  vandermonde(n,k) * (top k rows)^-1  with
   vandermonde[r][c] = byte(r)^c.  Multiplying a data column d by it gives the values, at the
   points byte(0) .. byte(n-1), of the unique polynomial with k coefficients whose values at
   byte(0) .. byte(k-1) are d.  The model is written in that evaluation/interpolation form:
   parity shard r, column j = (interp (pt 0..pt (k-1)) column_j)(pt r).  Reconstruction takes
   the first k present shards (exactly the rows klauspost selects), interpolates every column
   through them and evaluates at the missing indices.  That this form produces the library's
   bytes is NOT proved here: it is what the correspondence check (C20Check.v, harness/c20)
   establishes byte-for-byte on every run.

   A shard is [option (list byte)]: [None] is Go's nil slice (a missing shard for Reconstruct,
   "reconstruct required" for Join); [Some []] is an empty non-nil slice.
   No proofs in this file. *)
From Coq Require Import ZArith List Bool.
From Coq Require Import Init.Byte.
From Sunrise Require Import Base.Outcome Da.Poly Da.GF256.
Import ListNotations.
Local Open Scope res_scope.
Local Open Scope Z_scope.

(* error classes (reedsolomon.Err...) *)
Definition E_INV_SHARD_NUM : Z := 1.        (* ErrInvShardNum *)
Definition E_SHARD_NO_DATA : Z := 2.        (* ErrShardNoData *)
Definition E_SHARD_SIZE : Z := 3.           (* ErrShardSize *)
Definition E_TOO_FEW : Z := 4.              (* ErrTooFewShards *)
Definition E_RECONSTRUCT_REQUIRED : Z := 5. (* ErrReconstructRequired *)
Definition E_SHORT_DATA : Z := 6.           (* ErrShortData *)
Definition E_LEOPARD : Z := 7.              (* more than 256 shards: other codec, not modelled *)

Definition geval (p : list byte) (x : byte) : byte := eval byte x00 gadd gmul p x.
Definition ginterp (xs ys : list byte) : list byte :=
  interp_fast byte x00 x01 gadd gmul gadd gopp gdiv xs ys.

Definition shard := option (list byte).
Definition slen (s : shard) : nat := match s with Some l => length l | None => 0 end.
Definition sbytes (s : shard) : list byte := match s with Some l => l | None => [] end.

(* reedsolomon.New(k, m) with default options *)
Definition rs_new (k m : Z) : res unit :=
  if 256 <? k + m then
    (if (k <=? 0) || (m <=? 0) then Err E_INV_SHARD_NUM else Err E_LEOPARD)
  else if (k <=? 0) || (m <? 0) then Err E_INV_SHARD_NUM
  else Ok tt.

(* k consecutive chunks of [size] bytes *)
Fixpoint chunks (size k : nat) (l : list byte) : list (list byte) :=
  match k with
  | O => []
  | S k' => firstn size l :: chunks size k' (skipn size l)
  end.

(* column j of a list of rows (rows have been checked to have > j bytes) *)
Definition column (rows : list (list byte)) (j : nat) : list byte :=
  map (fun r => nth j r x00) rows.

(* one interpolating polynomial per byte column *)
Definition col_polys (xs : list byte) (rows : list (list byte)) (size : nat) : list (list byte) :=
  map (fun j => ginterp xs (column rows j)) (seq 0 size).

(* shard number i of the codeword described by [polys] *)
Definition row (polys : list (list byte)) (i : nat) : list byte :=
  map (fun p => geval p (pt i)) polys.

(* Encode: parity shards k .. k+m-1 *)
Definition encode_parity (k m size : nat) (data : list (list byte)) : list (list byte) :=
  let polys := col_polys (map pt (seq 0 k)) data size in
  map (row polys) (seq k m).

(* erasurecoding.ErasureCode: (shardSize, shardCount, shards) *)
Definition erasure_code (blob : list byte) (k m : Z) : res (Z * Z * list (list byte)) :=
  let! _ := rs_new k m in
  let len := Z.of_nat (length blob) in
  let md := len mod k in
  let len' := if md =? 0 then len else len + (k - md) in
  let size := len' / k in
  let ext := blob ++ repeat x00 (Z.to_nat (len' - len)) in
  let data := chunks (Z.to_nat size) (Z.to_nat k) ext in
  if size =? 0 then Err E_SHARD_NO_DATA     (* Encode: checkShards, all shards empty *)
  else Ok (size, k + m, data ++ encode_parity (Z.to_nat k) (Z.to_nat m) (Z.to_nat size) data).
Local Close Scope Z_scope.

(* shardSize(): first non-zero length, 0 if none *)
Fixpoint shard_size (shards : list shard) : nat :=
  match shards with
  | [] => 0
  | s :: tl => if Nat.eqb (slen s) 0 then shard_size tl else slen s
  end.

(* checkShards(shards, nilok) *)
Definition check_shards (nilok : bool) (shards : list shard) : res unit :=
  let size := shard_size shards in
  if Nat.eqb size 0 then Err E_SHARD_NO_DATA
  else if forallb (fun s => Nat.eqb (slen s) size || (nilok && Nat.eqb (slen s) 0)) shards
       then Ok tt else Err E_SHARD_SIZE.

Definition present (shards : list shard) (i : nat) : bool :=
  negb (Nat.eqb (slen (nth i shards None)) 0).

(* reedSolomon.Reconstruct on a slice of exactly k+m shards (New succeeded with k, m) *)
Definition reconstruct (shards : list shard) (k : nat) : res (list shard) :=
  let n := length shards in
  let! _ := check_shards true shards in
  let size := shard_size shards in
  let pres := filter (present shards) (seq 0 n) in
  if Nat.eqb (length pres) n then Ok shards
  else if Nat.ltb (length pres) k then Err E_TOO_FEW
  else
    let valid := firstn k pres in
    let sub := map (fun i => sbytes (nth i shards None)) valid in
    let polys := col_polys (map pt valid) sub size in
    Ok (map (fun i => if present shards i then nth i shards None else Some (row polys i))
            (seq 0 n)).

Local Open Scope Z_scope.
(* first loop of Join: enough data? *)
Fixpoint join_scan (ds : list shard) (size out : Z) : res Z :=
  match ds with
  | [] => Ok size
  | None :: _ => Err E_RECONSTRUCT_REQUIRED
  | Some l :: tl =>
      let size' := size + Z.of_nat (length l) in
      if out <=? size' then Ok size' else join_scan tl size' out
  end.

(* reedSolomon.Join(dst, shards, outSize) for an encoder with k data shards *)
Definition join (shards : list shard) (k : nat) (out : Z) : res (list byte) :=
  if Nat.ltb (length shards) k then Err E_TOO_FEW
  else
    let ds := firstn k shards in
    let! size := join_scan ds 0 out in
    if size <? out then Err E_SHORT_DATA
    else if out <? 0 then Panic      (* shard[:write] with write < 0 *)
    else Ok (firstn (Z.to_nat out) (concat (map sbytes ds))).

(* erasurecoding.JoinShards *)
Definition join_shards (shards : list shard) (k out : Z) : res (list byte) :=
  let! _ := rs_new k (Z.of_nat (length shards) - k) in
  join shards (Z.to_nat k) out.

(* erasurecoding.ReconstructAndJoinShards: result and the caller's shard slice afterwards
   (Reconstruct fills the missing entries in place) *)
Definition reconstruct_and_join (shards : list shard) (k out : Z) : res (list byte) * list shard :=
  match rs_new k (Z.of_nat (length shards) - k) with
  | Ok _ =>
      match reconstruct shards (Z.to_nat k) with
      | Ok shards' => (join_shards shards' k out, shards')
      | Err e => (Err e, shards)
      | Panic => (Panic, shards)
      end
  | Err e => (Err e, shards)
  | Panic => (Panic, shards)
  end.

(* losing the shards whose indices are in E; a lost shard is handed over as nil, or -- for
   the indices in Zs -- as an empty non-nil slice (klauspost treats both as missing) *)
Definition erase_as (E Zs : list nat) (shards : list (list byte)) : list shard :=
  map (fun i => if existsb (Nat.eqb i) E
                then (if existsb (Nat.eqb i) Zs then Some [] else None)
                else Some (nth i shards []))
      (seq 0 (length shards)).

Definition erase (E : list nat) (shards : list (list byte)) : list shard := erase_as E [] shards.
