(* C02 — AMM custody: proofs over the bit-exact model Amm/Pool.v.
   1. rounding direction: the amount calculation is odd in the liquidity, deposits are rounded up
      and withdrawals truncated, so for the same price and range a withdrawal of l never exceeds
      the deposit for l (withdraw_le_deposit), also at the level of the messages (roundtrip).
   2. the bank: a send never makes a balance negative, conserves pool+fee+user per denom, and all
      operations move funds only through sends (dust_nonneg, pool_flows_accounted, swap_flows).
   3. owner checks: a non-owner decrease / claim / increase fails and changes nothing.
   4. custody: [Solvent] (the pool account covers what every open position can withdraw, by the
      module's own payout function) is preserved by creations, complete withdrawals, increases,
      claims and incentive allocations; under it no exit can fail at the pool-account send, and the
      amounts paid do not depend on the exit order. *)
From Coq Require Import ZArith Bool List Lia Sorted ZifyBool.
Import ListNotations.
From Sunrise Require Import Base.Outcome Base.Dec Base.DecLemmas Amm.Math Amm.Pool Amm.LiqDefs Amm.LiqLists
  Amm.LiqInv Amm.LiqSwap Amm.Custody.
Local Open Scope Z_scope.
Ltac Zify.zify_post_hook ::= Z.to_euclidean_division_equations.

(* ------------------------------------------------------------------------------------------ *)
(* 1. LegacyDec: sign symmetry and the Ceil / Truncate brackets                                  *)
(* ------------------------------------------------------------------------------------------ *)

Lemma chop_round_pos_0 : chop_round_pos 0 = 0.
Proof. reflexivity. Qed.

Lemma chop_round_opp d : chop_round (- d) = - chop_round d.
Proof.
  unfold chop_round.
  destruct (Z.ltb_spec (- d) 0) as [H1|H1]; destruct (Z.ltb_spec d 0) as [H2|H2]; try lia.
  - rewrite Z.opp_involutive. reflexivity.
  - assert (d = 0) by lia. subst d. reflexivity.
Qed.

Lemma chk_opp x : chk (- x) = option_map Z.opp (chk x).
Proof. unfold chk, Dec.in_range. rewrite Z.abs_opp. destruct (Z.abs x <=? DEC_LIM); reflexivity. Qed.

Lemma dmul_opp_r a b : dmul a (- b) = option_map Z.opp (dmul a b).
Proof. unfold dmul. rewrite Z.mul_opp_r, chop_round_opp, chk_opp. reflexivity. Qed.

Lemma dquo_opp_l a b : dquo (- a) b = option_map Z.opp (dquo a b).
Proof.
  unfold dquo. destruct (Z.eqb_spec b 0) as [E|E]; [reflexivity|].
  rewrite Z.mul_opp_l, Z.quot_opp_l by exact E. rewrite chop_round_opp, chk_opp. reflexivity.
Qed.

Lemma obind_opp_map {B} (x : option Z) (f : Z -> option B) :
  obind (option_map Z.opp x) f = obind x (fun v => f (- v)).
Proof. destruct x; reflexivity. Qed.

(* CalcAmountBaseDelta without the final rounding is odd in the liquidity *)
Lemma base_delta_opp liq sa sb :
  calc_amount_base_delta (- liq) sa sb false = option_map Z.opp (calc_amount_base_delta liq sa sb false).
Proof.
  unfold calc_amount_base_delta. destruct (order sa sb) as [a b].
  destruct (dsub b a) as [diff|]; cbn [obind option_map]; [|reflexivity].
  rewrite dmul_opp_r. destruct (dmul diff liq) as [m|]; cbn [obind option_map]; [|reflexivity].
  rewrite dquo_opp_l. destruct (dquo m b) as [q1|]; cbn [obind option_map]; [|reflexivity].
  rewrite dquo_opp_l. destruct (dquo q1 a) as [q2|]; cbn [obind option_map]; reflexivity.
Qed.
Lemma quote_delta_opp liq sa sb :
  calc_amount_quote_delta (- liq) sa sb false = option_map Z.opp (calc_amount_quote_delta liq sa sb false).
Proof.
  unfold calc_amount_quote_delta.
  destruct (dsub sb sa) as [d|]; cbn [obind option_map]; [|reflexivity].
  rewrite dmul_opp_r. destruct (dmul (Z.abs d) liq) as [m|]; cbn [obind option_map]; reflexivity.
Qed.

(* rounding up = the unrounded value, then Ceil *)
Lemma base_delta_up liq sa sb :
  calc_amount_base_delta liq sa sb true = obind (calc_amount_base_delta liq sa sb false) dceil.
Proof.
  unfold calc_amount_base_delta. destruct (order sa sb) as [a b].
  destruct (dsub b a) as [diff|]; cbn [obind]; [|reflexivity].
  destruct (dmul diff liq) as [m|]; cbn [obind]; [|reflexivity].
  destruct (dquo m b) as [q1|]; cbn [obind]; [|reflexivity].
  destruct (dquo q1 a) as [q2|]; cbn [obind]; reflexivity.
Qed.
Lemma quote_delta_up liq sa sb :
  calc_amount_quote_delta liq sa sb true = obind (calc_amount_quote_delta liq sa sb false) dceil.
Proof.
  unfold calc_amount_quote_delta.
  destruct (dsub sb sa) as [d|]; cbn [obind]; [|reflexivity].
  destruct (dmul (Z.abs d) liq) as [m|]; cbn [obind]; reflexivity.
Qed.

(* Ceil: an integer, never below its argument and less than one unit above;
   TruncateInt of the negated argument is never larger in magnitude *)
Lemma dceil_spec a c : dceil a = Some c ->
  a <= c < a + P /\ dtrunc_int c * P = c /\ Z.abs (dtrunc_int (- a)) <= Z.abs (dtrunc_int c).
Proof.
  unfold dceil. intros H. apply chk_some in H. destruct H as [-> _].
  unfold dtrunc_int.
  assert (HP : P = 1000000000000000000) by reflexivity.
  rewrite Z.quot_opp_l by (rewrite HP; lia).
  rewrite Z.quot_mul by (rewrite HP; lia).
  rewrite HP. destruct (Z.ltb_spec 0 (Z.rem a 1000000000000000000)); lia.
Qed.

Lemma abs_trunc_opp a : Z.abs (dtrunc_int (- a)) = Z.abs (dtrunc_int a).
Proof.
  unfold dtrunc_int. assert (HP : P <> 0) by (unfold P; lia).
  rewrite Z.quot_opp_l by exact HP. apply Z.abs_opp.
Qed.

(* ------------------------------------------------------------------------------------------ *)
(* 2. Rounding direction of Pool.CalcActualAmounts                                              *)
(* ------------------------------------------------------------------------------------------ *)

Lemma base_pair l sa sb d : calc_amount_base_delta l sa sb true = Some d ->
  exists x, calc_amount_base_delta (- l) sa sb false = Some (- x) /\ dceil x = Some d.
Proof.
  rewrite base_delta_up, base_delta_opp.
  destruct (calc_amount_base_delta l sa sb false) as [x|]; cbn [obind option_map]; [|discriminate].
  intros H. exists x. split; [reflexivity|exact H].
Qed.
Lemma quote_pair l sa sb d : calc_amount_quote_delta l sa sb true = Some d ->
  exists x, calc_amount_quote_delta (- l) sa sb false = Some (- x) /\ dceil x = Some d.
Proof.
  rewrite quote_delta_up, quote_delta_opp.
  destruct (calc_amount_quote_delta l sa sb false) as [x|]; cbn [obind option_map]; [|discriminate].
  intros H. exists x. split; [reflexivity|exact H].
Qed.

(* the amount calculation reads only the tick parameters, the current tick and the current price *)
Definition same_price (p p' : pool) : Prop :=
  p_tp p' = p_tp p /\ p_tick p' = p_tick p /\ p_sqrt p' = p_sqrt p.
Lemma same_price_refl p : same_price p p.
Proof. repeat split. Qed.
Lemma same_price_trans a b c : same_price a b -> same_price b c -> same_price a c.
Proof. unfold same_price. intros (A1&A2&A3) (B1&B2&B3). repeat split; congruence. Qed.
Lemma calc_actual_same_price p p' lo up d : same_price p p' ->
  calc_actual_amounts p' lo up d = calc_actual_amounts p lo up d.
Proof. intros (A&B&C). unfold calc_actual_amounts, Pool.in_range. rewrite A, B, C. reflexivity. Qed.

(* withdraw_le_deposit: same pool price, same range, same liquidity: what CalcActualAmounts pays out
   for -l (then TruncateInt, absolute value) never exceeds what it charges for +l (rounded up to a
   whole unit); and whenever the deposit is computable, so is the withdrawal. *)
Theorem withdraw_le_deposit p lo up l db dq :
  0 < l -> calc_actual_amounts p lo up l = Ok (db, dq) ->
  exists wb wq, calc_actual_amounts p lo up (- l) = Ok (wb, wq) /\
    Z.abs (dtrunc_int wb) <= Z.abs (dtrunc_int db) /\ Z.abs (dtrunc_int wq) <= Z.abs (dtrunc_int dq) /\
    dtrunc_int db * P = db /\ dtrunc_int dq * P = dq.
Proof.
  intros Hl H. unfold calc_actual_amounts in *.
  destruct (Z.eqb_spec l 0) as [E|_]; [lia|]. destruct (Z.eqb_spec (- l) 0) as [E|_]; [lia|].
  destruct (ticks_to_sqrt lo up (p_tp p)) as [[sl su]| |]; cbn [rbind] in *; try discriminate H.
  assert (Hu : (0 <? l) = true) by lia. assert (Hd : (0 <? - l) = false) by lia.
  rewrite Hu in H. rewrite Hd.
  destruct (Pool.in_range p lo up).
  - destruct (calc_amount_base_delta l (p_sqrt p) su true) as [b|] eqn:Eb; cbn [of_opt rbind] in H; [|discriminate H].
    destruct (calc_amount_quote_delta l (p_sqrt p) sl true) as [q|] eqn:Eq; cbn [of_opt rbind] in H; [|discriminate H].
    injection H as <- <-.
    destruct (base_pair _ _ _ _ Eb) as (x & Ex & Cx). destruct (quote_pair _ _ _ _ Eq) as (y & Ey & Cy).
    rewrite Ex, Ey. cbn [of_opt rbind]. exists (- x), (- y). split; [reflexivity|].
    destruct (dceil_spec _ _ Cx) as (_ & Ix & Ax). destruct (dceil_spec _ _ Cy) as (_ & Iy & Ay).
    repeat split; assumption.
  - destruct (p_tick p <? lo).
    + destruct (calc_amount_base_delta l sl su true) as [b|] eqn:Eb; cbn [of_opt rbind] in H; [|discriminate H].
      injection H as <- <-. destruct (base_pair _ _ _ _ Eb) as (x & Ex & Cx).
      rewrite Ex. cbn [of_opt rbind]. exists (- x), 0. split; [reflexivity|].
      destruct (dceil_spec _ _ Cx) as (_ & Ix & Ax). repeat split; try assumption; reflexivity.
    + destruct (calc_amount_quote_delta l sl su true) as [q|] eqn:Eq; cbn [of_opt rbind] in H; [|discriminate H].
      injection H as <- <-. destruct (quote_pair _ _ _ _ Eq) as (y & Ey & Cy).
      rewrite Ey. cbn [of_opt rbind]. exists 0, (- y). split; [reflexivity|].
      destruct (dceil_spec _ _ Cy) as (_ & Iy & Ay). repeat split; try assumption; reflexivity.
Qed.

(* ------------------------------------------------------------------------------------------ *)
(* 3. The bank: three accounts, sends                                                           *)
(* ------------------------------------------------------------------------------------------ *)

Definition bal3 := (vec * vec * vec)%type.
Definition bal_of (s : amm) : bal3 := (a_bal_pool s, a_bal_fee s, a_bal_user s).
Definition get3 (b : bal3) (a : acct) : vec :=
  match a with APool => fst (fst b) | AFee => snd (fst b) | AUser => snd b end.
Definition put3 (b : bal3) (a : acct) (v : vec) : bal3 :=
  match a with
  | APool => (v, snd (fst b), snd b)
  | AFee => (fst (fst b), v, snd b)
  | AUser => (fst (fst b), snd (fst b), v)
  end.
Definition send3 (b : bal3) (from to : acct) (am : vec) : bal3 :=
  let b1 := put3 b from (vminus (get3 b from) am) in
  put3 b1 to (vplus (get3 b1 to) am).

(* everything but the balances *)
Definition same_rest (s s' : amm) : Prop :=
  a_pool s' = a_pool s /\ a_positions s' = a_positions s /\ a_ticks s' = a_ticks s /\
  a_acc_value s' = a_acc_value s /\ a_acc_shares s' = a_acc_shares s /\ a_acc_pos s' = a_acc_pos s /\
  a_next_id s' = a_next_id s.

Lemma existsb_neg_nonneg am : existsb (fun x => x <? 0) am = false -> vnonneg am.
Proof.
  unfold vnonneg. induction am as [|x r IH]; cbn [existsb]; intros H; constructor.
  - destruct (Z.ltb_spec x 0); [discriminate|assumption].
  - apply IH. destruct (x <? 0); [discriminate|exact H].
Qed.

Lemma send_bal s from to am s' : send s from to am = Ok s' ->
  bal_of s' = send3 (bal_of s) from to am /\ vnonneg am /\ vle am (get3 (bal_of s) from) = true /\ same_rest s s'.
Proof.
  unfold send. intros H.
  destruct (existsb (fun x => x <? 0) am) eqn:En; [discriminate|].
  destruct (vle am (get_bal s from)) eqn:Ev; cbn [negb] in H; [|discriminate].
  injection H as <-.
  split; [|split; [apply existsb_neg_nonneg; exact En|split]].
  - destruct from; destruct to; reflexivity.
  - destruct from; exact Ev.
  - destruct from; destruct to; repeat split.
Qed.

(* a path of sends between the three accounts, each of a four-slot non-negative amount that the
   paying account holds *)
Inductive BalPath : bal3 -> bal3 -> Prop :=
| bp_refl b : BalPath b b
| bp_send b from to am b' :
    len4 am -> vnonneg am -> vle am (get3 b from) = true ->
    BalPath (send3 b from to am) b' -> BalPath b b'.

Lemma BalPath_trans a b c : BalPath a b -> BalPath b c -> BalPath a c.
Proof. intros H. induction H; intros Hbc; [exact Hbc|]. eapply bp_send; eauto. Qed.
Lemma BalPath_one b from to am : len4 am -> vnonneg am -> vle am (get3 b from) = true ->
  BalPath b (send3 b from to am).
Proof. intros. eapply bp_send; eauto. apply bp_refl. Qed.
Lemma BalPath_eq a b : a = b -> BalPath a b.
Proof. intros ->. apply bp_refl. Qed.

Definition nonneg3 (b : bal3) : Prop := vnonneg (fst (fst b)) /\ vnonneg (snd (fst b)) /\ vnonneg (snd b).
Definition len43 (b : bal3) : Prop := len4 (fst (fst b)) /\ len4 (snd (fst b)) /\ len4 (snd b).
Definition sum3 (b : bal3) (n : nat) : Z := nth n (fst (fst b)) 0 + nth n (snd (fst b)) 0 + nth n (snd b) 0.

Lemma vminus_nonneg : forall bal am, vle am bal = true -> vnonneg (vminus bal am).
Proof.
  unfold vnonneg, vminus. induction bal as [|x r IH]; intros am H; [constructor|].
  destruct am as [|y am']; cbn [combine map]; [constructor|].
  cbn [vle] in H. apply andb_prop in H. destruct H as [Hx Hr]. constructor; [lia|apply IH; exact Hr].
Qed.
Lemma vplus_nonneg : forall a b, vnonneg a -> vnonneg b -> vnonneg (vplus a b).
Proof.
  unfold vnonneg, vplus. induction a as [|x r IH]; intros b Ha Hb; [constructor|].
  destruct b as [|y b']; cbn [combine map]; [constructor|].
  inversion Ha; subst. inversion Hb; subst. constructor; [lia|apply IH; assumption].
Qed.

Lemma send3_nonneg b from to am : nonneg3 b -> vnonneg am -> vle am (get3 b from) = true ->
  nonneg3 (send3 b from to am).
Proof.
  intros (H1 & H2 & H3) Ha Hv. destruct b as [[bp bf] bu]. cbn [fst snd] in *.
  pose proof (vminus_nonneg _ _ Hv) as Hm.
  destruct from; destruct to; cbn [send3 get3 put3 fst snd] in *; repeat split;
    try assumption; try (apply vplus_nonneg; assumption).
Qed.

Lemma len4_destruct v : len4 v -> exists a b c d, v = [a; b; c; d].
Proof.
  unfold len4. destruct v as [|a [|b [|c [|d [|e r]]]]]; cbn; intros H; try discriminate.
  exists a, b, c, d. reflexivity.
Qed.
Lemma vplus_len4 a b : len4 a -> len4 b -> len4 (vplus a b).
Proof. intros Ha Hb. destruct (len4_destruct _ Ha) as (?&?&?&?&->). destruct (len4_destruct _ Hb) as (?&?&?&?&->). reflexivity. Qed.
Lemma vminus_len4 a b : len4 a -> len4 b -> len4 (vminus a b).
Proof. intros Ha Hb. destruct (len4_destruct _ Ha) as (?&?&?&?&->). destruct (len4_destruct _ Hb) as (?&?&?&?&->). reflexivity. Qed.
Lemma nth_vplus4 a b n : len4 a -> len4 b -> nth n (vplus a b) 0 = nth n a 0 + nth n b 0.
Proof.
  intros Ha Hb. destruct (len4_destruct _ Ha) as (?&?&?&?&->). destruct (len4_destruct _ Hb) as (?&?&?&?&->).
  do 5 (destruct n as [|n]; [cbn; lia|]). cbn. destruct n; reflexivity.
Qed.
Lemma nth_vminus4 a b n : len4 a -> len4 b -> nth n (vminus a b) 0 = nth n a 0 - nth n b 0.
Proof.
  intros Ha Hb. destruct (len4_destruct _ Ha) as (?&?&?&?&->). destruct (len4_destruct _ Hb) as (?&?&?&?&->).
  do 5 (destruct n as [|n]; [cbn; lia|]). cbn. destruct n; reflexivity.
Qed.

Lemma send3_len b from to am : len43 b -> len4 am -> len43 (send3 b from to am).
Proof.
  intros (H1 & H2 & H3) Ha. destruct b as [[bp bf] bu]. cbn [fst snd] in *.
  destruct from; destruct to; cbn [send3 get3 put3 fst snd]; repeat split;
    try assumption; repeat (first [apply vplus_len4 | apply vminus_len4]); assumption.
Qed.
Lemma send3_sum b from to am n : len43 b -> len4 am -> sum3 (send3 b from to am) n = sum3 b n.
Proof.
  intros (H1 & H2 & H3) Ha. destruct b as [[bp bf] bu]. cbn [fst snd] in *. unfold sum3.
  destruct from; destruct to; cbn [send3 get3 put3 fst snd];
    rewrite ?nth_vplus4, ?nth_vminus4 by (repeat (first [apply vplus_len4 | apply vminus_len4]); assumption);
    rewrite ?nth_vminus4 by assumption; lia.
Qed.

Lemma BalPath_nonneg a b : BalPath a b -> nonneg3 a -> nonneg3 b.
Proof. intros H. induction H; intros Hn; [exact Hn|]. apply IHBalPath. apply send3_nonneg; assumption. Qed.
Lemma BalPath_len a b : BalPath a b -> len43 a -> len43 b.
Proof. intros H. induction H; intros Hn; [exact Hn|]. apply IHBalPath. apply send3_len; assumption. Qed.
Lemma BalPath_sum a b n : BalPath a b -> len43 a -> sum3 b n = sum3 a n.
Proof.
  intros H. induction H; intros Hn; [reflexivity|].
  rewrite IHBalPath by (apply send3_len; assumption). apply send3_sum; assumption.
Qed.

(* ------------------------------------------------------------------------------------------ *)
(* 4. Well-formedness: every vector keeps the four denom slots                                  *)
(* ------------------------------------------------------------------------------------------ *)

Definition WFr (s : amm) : Prop :=
  len4 (a_acc_value s) /\ Forall (fun t => len4 (t_growth t)) (a_ticks s) /\
  Forall (fun a => len4 (ap_value a) /\ len4 (ap_unclaimed a)) (a_acc_pos s).
Lemma WF_split s : WF s <-> len43 (bal_of s) /\ WFr s.
Proof.
  split.
  - intros [H1 H2 H3 H4 H5 H6]. repeat split; assumption.
  - intros [(H1 & H2 & H3) (H4 & H5 & H6)]. constructor; assumption.
Qed.

Lemma vmap2_len f : forall a b r, vmap2 f a b = Some r -> length r = Nat.min (length a) (length b).
Proof.
  induction a as [|x a IH]; intros b r H; cbn [vmap2] in H.
  - injection H as <-. reflexivity.
  - destruct b as [|y b]; [injection H as <-; reflexivity|].
    destruct (f x y) as [z|]; cbn [obind] in H; [|discriminate].
    destruct (vmap2 f a b) as [r'|] eqn:E; cbn [obind] in H; [|discriminate].
    injection H as <-. cbn [length Nat.min]. f_equal. apply IH. exact E.
Qed.
Lemma vmap_len f : forall a r, vmap f a = Some r -> length r = length a.
Proof.
  induction a as [|x a IH]; intros r H; cbn [vmap] in H.
  - injection H as <-. reflexivity.
  - destruct (f x) as [z|]; cbn [obind] in H; [|discriminate].
    destruct (vmap f a) as [r'|]; cbn [obind] in H; [|discriminate].
    injection H as <-. cbn [length]. f_equal. apply IH. reflexivity.
Qed.
Lemma vmap2_len4 f a b r : len4 a -> len4 b -> vmap2 f a b = Some r -> len4 r.
Proof. unfold len4. intros Ha Hb H. rewrite (vmap2_len _ _ _ _ H), Ha, Hb. reflexivity. Qed.
Lemma vadd_len4 a b r : len4 a -> len4 b -> vadd a b = Some r -> len4 r.
Proof. apply vmap2_len4. Qed.
Lemma vsafe_sub_len4 a b r : len4 a -> len4 b -> vsafe_sub a b = Some r -> len4 r.
Proof. apply vmap2_len4. Qed.
Lemma vsub_len4 a b r : len4 a -> len4 b -> vsub a b = Some r -> len4 r.
Proof.
  unfold vsub. intros Ha Hb H. destruct (vsafe_sub a b) as [d|] eqn:E; cbn [obind] in H; [|discriminate].
  destruct (vany_neg d); [discriminate|]. injection H as <-. eapply vsafe_sub_len4; [exact Ha|exact Hb|exact E].
Qed.
Lemma vmul_dec_len4 a d r : len4 a -> vmul_dec a d = Some r -> len4 r.
Proof. unfold len4, vmul_dec. intros Ha H. rewrite (vmap_len _ _ _ H). exact Ha. Qed.
Lemma vquo_len4 a d r : len4 a -> vquo_dec_trunc a d = Some r -> len4 r.
Proof.
  unfold len4, vquo_dec_trunc. intros Ha H. destruct (d =? 0); [discriminate|].
  rewrite (vmap_len _ _ _ H). exact Ha.
Qed.
Lemma vzero_len4 : len4 vzero.
Proof. reflexivity. Qed.
Lemma vtrunc_len4 a : len4 a -> len4 (fst (vtrunc a)) /\ len4 (snd (vtrunc a)).
Proof. unfold len4, vtrunc. cbn [fst snd]. rewrite !map_length. auto. Qed.

Lemma find_tick_in l i t : find_tick l i = Some t -> In t l.
Proof.
  induction l as [|x l IH]; cbn [find_tick]; [discriminate|].
  destruct (t_index x =? i); [intros H; injection H as <-; left; reflexivity|intros H; right; apply IH; exact H].
Qed.
Lemma find_ap_in l i a : find_ap l i = Some a -> In a l.
Proof.
  induction l as [|x l IH]; cbn [find_ap]; [discriminate|].
  destruct (ap_id x =? i); [intros H; injection H as <-; left; reflexivity|intros H; right; apply IH; exact H].
Qed.
Lemma forall_put_tick (Q : tick -> Prop) l t : Forall Q l -> Q t -> Forall Q (put_tick l t).
Proof.
  intros H Ht. induction H as [|x l Hx Hl IH]; cbn [put_tick]; [constructor; [exact Ht|constructor]|].
  destruct (t_index x =? t_index t); [constructor; assumption|].
  destruct (t_index t <? t_index x); constructor; try assumption. constructor; assumption.
Qed.
Lemma forall_del_tick (Q : tick -> Prop) l i : Forall Q l -> Forall Q (del_tick l i).
Proof.
  intros H. induction H as [|x l Hx Hl IH]; cbn [del_tick]; [constructor|].
  destruct (t_index x =? i); [assumption|constructor; assumption].
Qed.
Lemma forall_put_ap (Q : accum_pos -> Prop) l t : Forall Q l -> Q t -> Forall Q (put_ap l t).
Proof.
  intros H Ht. induction H as [|x l Hx Hl IH]; cbn [put_ap]; [constructor; [exact Ht|constructor]|].
  destruct (ap_id x =? ap_id t); [constructor; assumption|].
  destruct (ap_id t <? ap_id x); constructor; try assumption. constructor; assumption.
Qed.
Lemma forall_del_ap (Q : accum_pos -> Prop) l i : Forall Q l -> Forall Q (del_ap l i).
Proof.
  intros H. induction H as [|x l Hx Hl IH]; cbn [del_ap]; [constructor|].
  destruct (ap_id x =? i); [assumption|constructor; assumption].
Qed.

Lemma get_tick_len s i : WFr s -> len4 (t_growth (get_tick s i)).
Proof.
  intros (Ha & Ht & _). unfold get_tick. destruct (find_tick (a_ticks s) i) as [t|] eqn:E.
  - rewrite Forall_forall in Ht. apply Ht. eapply find_tick_in; eassumption.
  - cbn [t_growth]. destruct (i <=? p_tick (a_pool s)); [exact Ha|exact vzero_len4].
Qed.

Lemma calc_fee_growth_len tg tgr cur glob up v : len4 tgr -> len4 glob ->
  calc_fee_growth tg tgr cur glob up = Some v -> len4 v.
Proof.
  unfold calc_fee_growth. intros H1 H2 H.
  destruct ((up && (tg <=? cur)) || (negb up && (cur <? tg))).
  - eapply vsub_len4; [exact H2|exact H1|exact H].
  - injection H as <-. exact H1.
Qed.
Lemma fee_growth_outside_len s lo up v : WFr s -> fee_growth_outside s lo up = Some v -> len4 v.
Proof.
  intros Hw H. unfold fee_growth_outside in H.
  pose proof (get_tick_len s lo Hw) as Hl. pose proof (get_tick_len s up Hw) as Hu.
  destruct Hw as (Ha & _ & _).
  destruct (calc_fee_growth up _ _ _ true) as [ab|] eqn:E1; cbn [obind] in H; [|discriminate].
  destruct (calc_fee_growth lo _ _ _ false) as [be|] eqn:E2; cbn [obind] in H; [|discriminate].
  eapply vadd_len4; [| |exact H].
  - eapply calc_fee_growth_len; [exact Hu|exact Ha|exact E1].
  - eapply calc_fee_growth_len; [exact Hl|exact Ha|exact E2].
Qed.
Lemma total_rewards_len acc ap v : len4 acc -> len4 (ap_value ap) -> len4 (ap_unclaimed ap) ->
  total_rewards acc ap = Some v -> len4 v.
Proof.
  unfold total_rewards. intros H1 H2 H3 H.
  destruct (ap_shares ap <=? 0); [injection H as <-; exact vzero_len4|].
  destruct (existsb _ _); [injection H as <-; exact vzero_len4|].
  destruct (vsub acc (ap_value ap)) as [d|] eqn:Ed; cbn [obind] in H; [|discriminate].
  destruct (vmul_dec d (ap_shares ap)) as [r|] eqn:Er; cbn [obind] in H; [|discriminate].
  eapply vadd_len4; [exact H3| |exact H]. eapply vmul_dec_len4; [|exact Er]. eapply vsub_len4; [exact H1|exact H2|exact Ed].
Qed.

(* ---- claims ---- *)
Lemma prepare_claim_wf s pid s1 c : WFr s -> prepare_claim s pid = Ok (s1, c) ->
  len4 c /\ WFr s1 /\ bal_of s1 = bal_of s.
Proof.
  intros Hw H. unfold prepare_claim in H.
  destruct (find_pos (a_positions s) pid) as [pos|]; [|discriminate].
  destruct (find_ap (a_acc_pos s) pid) as [ap0|] eqn:Eap; [|discriminate].
  step_res H. rename x into outside. apply of_opt_ok in E.
  step_res H. rename x into v1. apply of_opt_ok in E0.
  step_res H. rename x into tot. apply of_opt_ok in E1.
  unfold vtrunc in H.
  step_res H. rename x into inside. apply of_opt_ok in E2.
  pose proof (fee_growth_outside_len _ _ _ _ Hw E) as Lout.
  destruct Hw as (Ha & Ht & Hp).
  assert (Lap0 : len4 (ap_value ap0) /\ len4 (ap_unclaimed ap0)).
  { rewrite Forall_forall in Hp. apply Hp. eapply find_ap_in; eassumption. }
  destruct Lap0 as [Lv Lu].
  assert (Lv1 : len4 v1) by (eapply vadd_len4; [exact Lv|exact Lout|exact E0]).
  assert (Ltot : len4 tot) by (eapply total_rewards_len; [exact Ha| | |exact E1]; cbn; assumption).
  assert (Lin : len4 inside) by (eapply vsafe_sub_len4; [exact Ha|exact Lout|exact E2]).
  destruct (vtrunc_len4 tot Ltot) as [Lc Ld]. unfold vtrunc in Lc, Ld. cbn [fst snd] in Lc, Ld.
  set (s1' := if ap_shares {| ap_id := pid; ap_shares := ap_shares ap0; ap_value := v1; ap_unclaimed := ap_unclaimed ap0 |} =? 0
              then set_acc_pos s (del_ap (a_acc_pos s) pid)
              else set_acc_pos s (put_ap (a_acc_pos s)
                     {| ap_id := pid; ap_shares := ap_shares {| ap_id := pid; ap_shares := ap_shares ap0; ap_value := v1; ap_unclaimed := ap_unclaimed ap0 |};
                        ap_value := inside; ap_unclaimed := vzero |})) in *.
  assert (W1 : WFr s1' /\ bal_of s1' = bal_of s).
  { unfold s1'. destruct (_ =? 0); cbn; (split; [|reflexivity]); repeat split; try assumption.
    - apply forall_del_ap. exact Hp.
    - apply forall_put_ap; [exact Hp|]. cbn. split; [exact Lin|exact vzero_len4]. }
  destruct W1 as [W1 B1].
  destruct (vis_zero _); [injection H as <- <-; repeat split; try assumption; apply W1|].
  destruct (a_acc_shares s1' =? 0); [injection H as <- <-; repeat split; try assumption; apply W1|].
  step_res H. rename x into per. apply of_opt_ok in E3.
  step_res H. rename x into v. apply of_opt_ok in E4.
  injection H as <- <-.
  destruct W1 as (Ha1 & Ht1 & Hp1).
  assert (Lper : len4 per) by (eapply vquo_len4; [exact Ld|exact E3]).
  assert (Lvv : len4 v) by (eapply vadd_len4; [exact Ha1|exact Lper|exact E4]).
  repeat split; try assumption.
Qed.

Lemma send_wf s from to am s' : send s from to am = Ok s' -> WFr s -> WFr s'.
Proof.
  intros H (Ha & Ht & Hp). destruct (send_bal _ _ _ _ _ H) as (_ & _ & _ & (P & Po & T & V & Sh & AP & N)).
  unfold WFr. rewrite V, T, AP. repeat split; assumption.
Qed.

Lemma collect_fees_path s sender pid s1 c : WFr s -> collect_fees s sender pid = Ok (s1, c) ->
  BalPath (bal_of s) (bal_of s1) /\ WFr s1.
Proof.
  intros Hw H. unfold collect_fees in H.
  destruct (find_pos (a_positions s) pid) as [pos|]; [|discriminate].
  destruct (negb (pos_owner pos =? sender)); [discriminate|].
  step_res H. destruct x as [sa claimed].
  destruct (prepare_claim_wf _ _ _ _ Hw E) as (Lc & Wa & Ba).
  destruct (vis_zero claimed).
  - injection H as <- _. split; [rewrite Ba; apply bp_refl|exact Wa].
  - step_res H. injection H as <- _.
    destruct (send_bal _ _ _ _ _ E0) as (B & Hn & Hv & _).
    split; [|eapply send_wf; eassumption].
    rewrite B, <- Ba. apply BalPath_one; assumption.
Qed.

Lemma claim_loop_path ids : forall s sender tot s' c, WFr s ->
  claim_rewards_loop s sender ids tot = Ok (s', c) -> BalPath (bal_of s) (bal_of s') /\ WFr s'.
Proof.
  induction ids as [|i tl IH]; cbn [claim_rewards_loop]; intros s sender tot s' c Hw H.
  - injection H as <- _. split; [apply bp_refl|exact Hw].
  - step_res H. destruct x as [s1 c1].
    destruct (collect_fees_path _ _ _ _ _ Hw E) as [P1 W1].
    destruct (IH _ _ _ _ _ W1 H) as [P2 W2]. split; [eapply BalPath_trans; eassumption|exact W2].
Qed.
Lemma msg_claim_path s sender ids s' c : WFr s -> msg_claim_rewards s sender ids = Ok (s', c) ->
  BalPath (bal_of s) (bal_of s') /\ WFr s'.
Proof. unfold msg_claim_rewards. destruct ids; [discriminate|]. apply claim_loop_path. Qed.

(* ---- position updates never touch a balance ---- *)
Lemma upsert_tick_wf s i d up s' e : WFr s -> upsert_tick s i d up = Some (s', e) ->
  WFr s' /\ bal_of s' = bal_of s.
Proof.
  intros Hw H. pose proof (get_tick_len s i Hw) as Lg. unfold upsert_tick in H.
  destruct (dadd (t_gross (get_tick s i)) d) as [g|]; cbn [obind] in H; [|discriminate].
  destruct (if up then dsub (t_net (get_tick s i)) d else dadd (t_net (get_tick s i)) d) as [n|]; cbn [obind] in H; [|discriminate].
  injection H as <- _. destruct Hw as (Ha & Ht & Hp). split; [|reflexivity].
  repeat split; cbn; try assumption. apply forall_put_tick; [exact Ht|exact Lg].
Qed.

Lemma set_accum_position_wf s lo up pid d s' : WFr s -> set_accum_position s lo up pid d = Ok s' -> WFr s'.
Proof.
  intros Hw H. unfold set_accum_position in H.
  step_res H. rename x into outside. apply of_opt_ok in E.
  step_res H. rename x into inside. apply of_opt_ok in E0.
  pose proof (fee_growth_outside_len _ _ _ _ Hw E) as Lout.
  destruct Hw as (Ha & Ht & Hp).
  assert (Lin : len4 inside) by (eapply vsafe_sub_len4; [exact Ha|exact Lout|exact E0]).
  destruct (find_ap (a_acc_pos s) pid) as [ap0|] eqn:Eap.
  - assert (Lap0 : len4 (ap_value ap0) /\ len4 (ap_unclaimed ap0)).
    { rewrite Forall_forall in Hp. apply Hp. eapply find_ap_in; eassumption. }
    destruct Lap0 as [Lv Lu].
    step_res H. rename x into v1. apply of_opt_ok in E1.
    assert (Lv1 : len4 v1) by (eapply vadd_len4; [exact Lv|exact Lout|exact E1]).
    destruct (d =? 0); [discriminate|].
    destruct (d <? 0).
    + destruct (_ <? - d); [discriminate|].
      step_res H. rename x into un. apply of_opt_ok in E2.
      assert (Lun : len4 un) by (eapply total_rewards_len; [exact Ha| | |exact E2]; cbn; assumption).
      step_res H. step_res H. injection H as <-. repeat split; cbn; try assumption.
      apply forall_put_ap; [exact Hp|]. cbn. split; assumption.
    + step_res H. rename x into un. apply of_opt_ok in E2.
      assert (Lun : len4 un) by (eapply total_rewards_len; [exact Ha| | |exact E2]; cbn; assumption).
      step_res H. step_res H. injection H as <-. repeat split; cbn; try assumption.
      apply forall_put_ap; [exact Hp|]. cbn. split; assumption.
  - destruct (d <=? 0); [discriminate|]. step_res H. injection H as <-.
    repeat split; cbn; try assumption. apply forall_put_ap; [exact Hp|]. cbn. split; [exact Lin|exact vzero_len4].
Qed.

(* UpdatePosition: balances untouched; the returned amounts are TruncateInt of CalcActualAmounts at
   the pool of the pre-state *)
Lemma update_position_frame s lo up d pid s' ab aq le ue :
  update_position s lo up d pid = Ok (s', ab, aq, le, ue) ->
  bal_of s' = bal_of s /\ (WFr s -> WFr s') /\
  exists ab0 aq0, calc_actual_amounts (a_pool s) lo up d = Ok (ab0, aq0) /\ ab = dtrunc_int ab0 /\ aq = dtrunc_int aq0.
Proof.
  intros H. unfold update_position in H.
  rb H r1 E1. destruct r1 as [s1 le']. apply of_opt_ok in E1.
  rb H r2 E2. destruct r2 as [s2 ue']. apply of_opt_ok in E2.
  destruct (upsert_tick_spec _ _ _ _ _ _ E1) as (P1 & Q1 & _).
  destruct (upsert_tick_spec _ _ _ _ _ _ E2) as (P2 & Q2 & _).
  destruct (find_pos (a_positions s2) pid) as [pos|]; [|discriminate].
  rb H liq E3. destruct (liq <? 0); [discriminate|].
  rb H amts E4. destruct amts as [ab0 aq0].
  set (s3 := if liq =? 0 then set_positions s2 (del_pos (a_positions s2) pid)
             else set_positions s2 (put_pos (a_positions s2)
                    {| pos_id := pid; pos_owner := pos_owner pos; pos_lower := pos_lower pos;
                       pos_upper := pos_upper pos; pos_liq := liq |})) in *.
  rb H s4 E5. rb H s5 E6. injection H as <- <- <- _ _.
  assert (B3 : bal_of s3 = bal_of s2 /\ (WFr s2 -> WFr s3)).
  { unfold s3. destruct (liq =? 0); split; try reflexivity; intros W; exact W. }
  assert (B4 : bal_of s4 = bal_of s3 /\ (WFr s3 -> WFr s4)).
  { destruct (a_positions s3).
    - injection E5 as <-. split; [reflexivity|intros W; exact W].
    - destruct (Pool.in_range (a_pool s2) lo up).
      + rb E5 lq E7. injection E5 as <-. split; [reflexivity|intros W; exact W].
      + injection E5 as <-. split; [reflexivity|intros W; exact W]. }
  destruct (set_accum_position_spec _ _ _ _ _ _ E6) as (_ & _ & _ & _ & Bp & Bf & Bu & _).
  split; [|split].
  - unfold bal_of at 1. rewrite Bp, Bf, Bu. fold (bal_of s4).
    destruct B4 as [-> _]. destruct B3 as [-> _].
    unfold upsert_tick in E1, E2.
    repeat match goal with
    | H : obind ?c _ = Some _ |- _ => destruct c; cbn [obind] in H; [|discriminate H]
    end.
    injection E2 as <- _. injection E1 as <- _. reflexivity.
  - intros W. eapply set_accum_position_wf; [|exact E6]. apply B4, B3.
    eapply upsert_tick_wf; [|exact E2]. eapply upsert_tick_wf; [exact W|exact E1].
  - exists ab0, aq0. rewrite <- Q1, <- Q2. split; [exact E4|split; reflexivity].
Qed.

(* ---- every operation moves funds only through sends between the three accounts ---- *)
Lemma del_ticks_wf s i : WFr s -> WFr (set_ticks s (del_tick (a_ticks s) i)).
Proof. intros (Ha & Ht & Hp). repeat split; cbn; try assumption. apply forall_del_tick. exact Ht. Qed.

Lemma decrease_liquidity_path s sender pid l s' b q : WFr s ->
  decrease_liquidity s sender pid l = Ok (s', b, q) -> BalPath (bal_of s) (bal_of s') /\ WFr s'.
Proof.
  intros Hw H. unfold decrease_liquidity in H.
  destruct (find_pos (a_positions s) pid) as [pos|]; [|discriminate].
  repeat step_res H.
  match goal with E : collect_fees _ _ _ = Ok (?s1, _) |- _ => rename E into Ecf; rename s1 into sa end.
  match goal with E : update_position _ _ _ _ _ = Ok (?s2, _, _, ?le, ?ue) |- _ =>
    rename E into Eup; rename s2 into sb; rename le into le0; rename ue into ue0 end.
  match goal with E : send _ _ _ _ = Ok ?s3 |- _ => rename E into Esend; rename s3 into sc end.
  injection H as <- _ _.
  destruct (collect_fees_path _ _ _ _ _ Hw Ecf) as [Pa Wa].
  destruct (update_position_frame _ _ _ _ _ _ _ _ _ _ Eup) as (Bb & Wb & _).
  destruct (send_bal _ _ _ _ _ Esend) as (Bc & Hn & Hv & _).
  pose proof (send_wf _ _ _ _ _ Esend (Wb Wa)) as Wc.
  assert (Pc : BalPath (bal_of s) (bal_of sc)).
  { eapply BalPath_trans; [exact Pa|]. rewrite Bc, Bb. apply BalPath_one; [reflexivity|exact Hn|].
    rewrite <- Bb. exact Hv. }
  destruct le0; destruct ue0; (split; [exact Pc|]); repeat apply del_ticks_wf; exact Wc.
Qed.

Lemma create_position_path s sender lo up base quote mb mq s' r : WFr s ->
  create_position s sender lo up base quote mb mq = Ok (s', r) -> BalPath (bal_of s) (bal_of s') /\ WFr s'.
Proof.
  intros Hw H. unfold create_position in H.
  repeat step_res H.
  match goal with E : update_position ?s2 lo up _ _ = Ok (?s3, _, _, _, _) |- _ =>
    rename E into Eup; set (S2 := s2) in *; rename s3 into sc end.
  match goal with E : send _ _ _ _ = Ok ?s4 |- _ => rename E into Esend; rename s4 into sd end.
  match goal with E : (if has_position (a_pool s) then _ else _) = Ok ?s1 |- _ => rename E into Einit; rename s1 into sa end.
  assert (Ha : bal_of sa = bal_of s /\ WFr sa).
  { destruct (has_position (a_pool s)); [injection Einit as <-; split; [reflexivity|exact Hw]|].
    repeat step_res Einit. injection Einit as <-. split; [reflexivity|exact Hw]. }
  destruct Ha as [Ba Wa].
  assert (H2 : bal_of S2 = bal_of sa /\ WFr S2) by (split; [reflexivity|exact Wa]).
  destruct H2 as [B2 W2].
  destruct (update_position_frame _ _ _ _ _ _ _ _ _ _ Eup) as (Bc & Wc & _).
  destruct (send_bal _ _ _ _ _ Esend) as (Bd & Hn & Hv & _).
  injection H as <- _. split; [|eapply send_wf; [exact Esend|exact (Wc W2)]].
  rewrite Bd, Bc, B2, Ba. apply BalPath_one; [reflexivity|exact Hn|].
  rewrite <- Ba, <- B2, <- Bc. exact Hv.
Qed.

Lemma increase_liquidity_path s sender pid ab aq mb mq s' r : WFr s ->
  increase_liquidity s sender pid ab aq mb mq = Ok (s', r) -> BalPath (bal_of s) (bal_of s') /\ WFr s'.
Proof.
  intros Hw H. unfold increase_liquidity in H.
  destruct (find_pos (a_positions s) pid) as [pos|]; [|discriminate].
  repeat step_res H.
  match goal with E : decrease_liquidity _ _ _ _ = Ok _ |- _ =>
    destruct (decrease_liquidity_path _ _ _ _ _ _ _ Hw E) as [P1 W1] end.
  destruct (create_position_path _ _ _ _ _ _ _ _ _ _ W1 H) as [P2 W2].
  split; [eapply BalPath_trans; eassumption|exact W2].
Qed.

Lemma vsingle_len4 d v : (d =? 0) || (d =? 1) || (d =? 2) || (d =? 3) = true -> len4 (vsingle d v).
Proof.
  intros H. destruct (Z.eqb_spec d 0) as [->|]; [reflexivity|]. destruct (Z.eqb_spec d 1) as [->|]; [reflexivity|].
  destruct (Z.eqb_spec d 2) as [->|]; [reflexivity|]. destruct (Z.eqb_spec d 3) as [->|]; [reflexivity|]. discriminate.
Qed.

Lemma allocate_path s coins s' : WFr s -> len4 coins ->
  allocate_incentive s coins = Ok s' -> BalPath (bal_of s) (bal_of s') /\ WFr s'.
Proof.
  intros (Ha & Ht & Hp) Lc H. unfold allocate_incentive in H.
  destruct (negb (has_position (a_pool s))); [discriminate|].
  destruct (p_liq (a_pool s) <=? 0); [discriminate|].
  step_res H. rename x into g. apply of_opt_ok in E.
  step_res H. rename x into v. apply of_opt_ok in E0.
  assert (Lg : len4 g) by (eapply vquo_len4; [|exact E]; unfold len4; rewrite map_length; exact Lc).
  assert (Lv : len4 v) by (eapply vadd_len4; [exact Ha|exact Lg|exact E0]).
  destruct (send_bal _ _ _ _ _ H) as (B & Hn & Hv & _).
  split.
  - rewrite B. apply BalPath_one; assumption.
  - eapply send_wf; [exact H|]. repeat split; cbn; assumption.
Qed.

(* ---- swaps ---- *)
Definition tick_len4 (t : tick) : Prop := len4 (t_growth t).

Lemma swap_loop_wf fuel : forall exact_in b4q upd fee limit tp accv din iter st st',
  len4 accv -> (din =? 0) || (din =? 1) || (din =? 2) || (din =? 3) = true ->
  Forall tick_len4 (ss_ticks st) -> Forall tick_len4 iter ->
  swap_loop fuel exact_in b4q upd fee limit tp accv din iter st = Ok st' ->
  Forall tick_len4 (ss_ticks st').
Proof.
  induction fuel as [|f IH]; intros exact_in b4q upd fee limit tp accv din iter st st' La Hd Ht Hit H;
    cbn [swap_loop] in H.
  - destruct (negb ((0 <? ss_remaining st) && negb (ss_sqrt st =? limit))); [|discriminate].
    injection H as <-. exact Ht.
  - destruct (negb ((0 <? ss_remaining st) && negb (ss_sqrt st =? limit))); [injection H as <-; exact Ht|].
    destruct iter as [|nt iter']; [discriminate|].
    inversion Hit as [|? ? Hnt Hit']; subst.
    assert (Hcur : tick_len4 (match find_tick (ss_ticks st) (t_index nt) with Some t => t | None => nt end)).
    { destruct (find_tick (ss_ticks st) (t_index nt)) as [t|] eqn:Ef; [|exact Hnt].
      rewrite Forall_forall in Ht. apply Ht. eapply find_tick_in; eassumption. }
    repeat step_res H;
    match goal with
    | H : swap_loop f _ _ _ _ _ _ _ _ ?it ?stn = Ok st' |- _ => eapply (IH _ _ _ _ _ _ _ _ it stn st' La Hd); [| |exact H]
    end; cbn [ss_ticks];
    repeat match goal with
    | E : (if ?c then _ else _) = Ok _ |- _ => destruct c; try discriminate E
    | E : rbind ?c _ = Ok _ |- _ => let v := fresh "v" in let Ev := fresh "Ev" in
          destruct c as [v| |] eqn:Ev; cbn [rbind] in E; try discriminate E
    end;
    repeat match goal with
    | E : Ok _ = Ok _ |- _ => injection E; clear E; intros; subst
    end;
    try exact Ht; try exact Hit'; try exact Hit;
    try (apply forall_put_tick; [exact Ht|]; unfold tick_len4; cbn [t_growth];
         repeat match goal with E : of_opt _ = Ok _ |- _ => apply of_opt_ok in E end;
         match goal with
         | E1 : vadd accv (vsingle din _) = Some ?g1, E2 : vsub ?g1 _ = Some ?g2 |- len4 ?g2 =>
             eapply vsub_len4; [eapply vadd_len4; [exact La|apply vsingle_len4; exact Hd|exact E1]|exact Hcur|exact E2]
         end).
Qed.

Lemma iter_ticks_forall (Q : tick -> Prop) b4q l cur : Forall Q l -> Forall Q (iter_ticks b4q l cur).
Proof.
  intros H. rewrite Forall_forall in *. intros x Hx. apply H. unfold iter_ticks in Hx. destruct b4q.
  - apply in_rev in Hx. apply filter_In in Hx. tauto.
  - apply filter_In in Hx. tauto.
Qed.

Lemma compute_swap_spec s ei di do_ sp fee ml upd r : WFr s ->
  compute_swap s ei di do_ sp fee ml upd = Ok r ->
  ((di = 0 /\ do_ = 1) \/ (di = 1 /\ do_ = 0)) /\ Forall tick_len4 (sr_ticks r).
Proof.
  intros (La & Lt & _) H. unfold compute_swap in H. repeat step_res H.
  all: match goal with E : swap_loop _ _ _ _ _ _ _ _ _ _ ?st0 = Ok ?st |- _ =>
         assert (Hw : Forall tick_len4 (ss_ticks st))
           by (eapply swap_loop_wf; [exact La| | | |exact E]; cbn [ss_ticks];
               [lia|exact Lt|apply iter_ticks_forall; exact Lt]) end.
  all: injection H as <-; cbn [sr_ticks]; split; [lia|exact Hw].
Qed.

Lemma send_one_raw_path s from to d a s' : (d =? 0) || (d =? 1) || (d =? 2) || (d =? 3) = true ->
  send_one_raw s from to d a = Ok s' ->
  bal_of s' = send3 (bal_of s) from to (vsingle d a) /\ BalPath (bal_of s) (bal_of s') /\ same_rest s s' /\ 0 < a.
Proof.
  intros Hd H. unfold send_one_raw in H. destruct (Z.leb_spec a 0); [discriminate|].
  destruct (send_bal _ _ _ _ _ H) as (B & Hn & Hv & R).
  split; [exact B|]. split; [|split; [exact R|assumption]].
  rewrite B. apply BalPath_one; [apply vsingle_len4; exact Hd|exact Hn|exact Hv].
Qed.

Lemma same_rest_wfr s s' : same_rest s s' -> WFr s -> WFr s'.
Proof. intros (P & Po & T & V & Sh & AP & N) (Ha & Ht & Hp). unfold WFr. rewrite V, T, AP. repeat split; assumption. Qed.

Lemma swap_path s ei di do_ sp fe s' i o : WFr s ->
  swap s ei di do_ sp fe = Ok (s', i, o) -> BalPath (bal_of s) (bal_of s') /\ WFr s'.
Proof.
  intros Hw H. unfold swap in H. repeat step_res H.
  match goal with E : compute_swap _ _ _ _ _ _ _ _ = Ok ?r |- _ =>
    destruct (compute_swap_spec _ _ _ _ _ _ _ _ _ Hw E) as (Hden & Ltk); rename r into res end.
  assert (Hdi : (di =? 0) || (di =? 1) || (di =? 2) || (di =? 3) = true) by lia.
  assert (Hdo : (do_ =? 0) || (do_ =? 1) || (do_ =? 2) || (do_ =? 3) = true) by lia.
  match goal with E : of_opt (vadd (a_acc_value s) _) = Ok ?v |- _ => apply of_opt_ok in E; rename E into Eacc; rename v into accv end.
  destruct Hw as (La & Lt & Lp).
  assert (Lacc : len4 accv) by (eapply vadd_len4; [exact La|apply vsingle_len4; exact Hdi|exact Eacc]).
  set (s1 := set_acc (set_ticks s (sr_ticks res)) accv (a_acc_shares s)) in *.
  assert (W1 : WFr s1) by (repeat split; cbn; assumption).
  assert (B1 : bal_of s1 = bal_of s) by reflexivity.
  match goal with E : send_one_raw s1 AUser APool di _ = Ok ?s2 |- _ =>
    destruct (send_one_raw_path _ _ _ _ _ _ Hdi E) as (_ & P2 & R2 & _); rename s2 into sb end.
  match goal with E : (if _ then Ok sb else send_one_raw sb AUser AFee di _) = Ok ?s3 |- _ =>
    rename E into E3; rename s3 into sc end.
  assert (P3 : BalPath (bal_of sb) (bal_of sc) /\ same_rest sb sc).
  { destruct (dtrunc_int _ =? 0); [injection E3 as <-; split; [apply bp_refl|repeat split]|].
    destruct (send_one_raw_path _ _ _ _ _ _ Hdi E3) as (_ & P & R & _). split; assumption. }
  destruct P3 as [P3 R3].
  match goal with E : send_one_raw sc APool AUser do_ _ = Ok ?s4 |- _ =>
    destruct (send_one_raw_path _ _ _ _ _ _ Hdo E) as (_ & P4 & R4 & _); rename s4 into sd end.
  injection H as <- _ _. split.
  - rewrite <- B1. eapply BalPath_trans; [exact P2|]. eapply BalPath_trans; [exact P3|exact P4].
  - assert (W4 : WFr sd) by (eapply same_rest_wfr; [exact R4|]; eapply same_rest_wfr; [exact R3|]; eapply same_rest_wfr; [exact R2|exact W1]).
    destruct W4 as (A4 & T4 & P4'). repeat split; cbn; assumption.
Qed.

(* ------------------------------------------------------------------------------------------ *)
(* 5. pool_flows_accounted, dust_nonneg: every step, every history                              *)
(* ------------------------------------------------------------------------------------------ *)

Definition op_wf (o : op) : Prop := match o with OAllocate coins => len4 coins | _ => True end.

Theorem step_path s o : WF s -> op_wf o ->
  BalPath (bal_of s) (bal_of (fst (step s o))) /\ WF (fst (step s o)).
Proof.
  intros Hwf Ho. apply WF_split in Hwf. destruct Hwf as [Hb Hw].
  assert (K : forall s', BalPath (bal_of s) (bal_of s') /\ WFr s' -> BalPath (bal_of s) (bal_of s') /\ WF s').
  { intros s' [P W]. split; [exact P|]. apply WF_split. split; [eapply BalPath_len; eassumption|exact W]. }
  assert (K0 : BalPath (bal_of s) (bal_of s) /\ WF s).
  { split; [apply bp_refl|apply WF_split; split; assumption]. }
  unfold step. destruct o as [sender lo up b q mb mq|sender pid b q mb mq|sender pid l|sender ids|ei di do_ sp|coins].
  - destruct (create_position s sender lo up b q mb mq) as [[s' [[[id ab] aq] l]]| |] eqn:E; cbn; try exact K0.
    apply K. eapply create_position_path; eassumption.
  - destruct (increase_liquidity s sender pid b q mb mq) as [[s' [[[id ab] aq] l]]| |] eqn:E; cbn; try exact K0.
    apply K. eapply increase_liquidity_path; eassumption.
  - destruct (decrease_liquidity s sender pid l) as [[[s' b] q]| |] eqn:E; cbn; try exact K0.
    apply K. eapply decrease_liquidity_path; eassumption.
  - destruct (msg_claim_rewards s sender ids) as [[s' c]| |] eqn:E; cbn; try exact K0.
    apply K. eapply msg_claim_path; eassumption.
  - destruct (swap s ei di do_ sp true) as [[[s' i] o']| |] eqn:E; cbn; try exact K0.
    apply K. eapply swap_path; eassumption.
  - destruct (allocate_incentive s coins) as [s'| |] eqn:E; cbn; try exact K0.
    apply K. eapply allocate_path; eassumption.
Qed.

Lemma total3_sum3 s d : total3 s d = sum3 (bal_of s) (Z.to_nat d).
Proof. reflexivity. Qed.
Lemma BalNonneg_nonneg3 s : BalNonneg s <-> nonneg3 (bal_of s).
Proof. reflexivity. Qed.

(* pool_flows_accounted: a step moves funds only by sends between the acting user, the pool account
   and the pool's fee account (BalPath), hence conserves their sum for every denom *)
Theorem step_conserves s o : WF s -> op_wf o -> forall d, total3 (fst (step s o)) d = total3 s d.
Proof.
  intros Hwf Ho d. destruct (step_path s o Hwf Ho) as [P _]. rewrite !total3_sum3.
  apply BalPath_sum; [exact P|]. apply WF_split in Hwf. apply Hwf.
Qed.
(* dust_nonneg: no balance ever becomes negative *)
Theorem step_nonneg s o : WF s -> op_wf o -> BalNonneg s -> BalNonneg (fst (step s o)).
Proof.
  intros Hwf Ho Hn. destruct (step_path s o Hwf Ho) as [P _]. apply BalNonneg_nonneg3.
  eapply BalPath_nonneg; [exact P|exact Hn].
Qed.

Theorem run_custody_accounting ops : forall s, WF s -> Forall op_wf ops ->
  WF (run s ops) /\ (forall d, total3 (run s ops) d = total3 s d) /\ (BalNonneg s -> BalNonneg (run s ops)).
Proof.
  induction ops as [|o tl IH]; cbn [run]; intros s Hwf Ho.
  - split; [exact Hwf|]. split; [reflexivity|auto].
  - inversion Ho as [|? ? Ho1 Ho2]; subst.
    destruct (step_path s o Hwf Ho1) as [_ W1].
    destruct (IH _ W1 Ho2) as (W & C & N). split; [exact W|]. split.
    + intros d. rewrite C. apply step_conserves; assumption.
    + intros Hn. apply N. apply step_nonneg; assumption.
Qed.

(* swap_flows: a successful swap takes exactly [i] of the input denom from the user, of which
   [fee] goes to the fee account and the rest to the pool account, and pays exactly [o] of the
   output denom from the pool account to the user; nothing else moves *)
Theorem swap_flows s ei di do_ sp fe s' i o : WF s ->
  swap s ei di do_ sp fe = Ok (s', i, o) ->
  exists fee, 0 <= fee /\ fee < i /\ 0 < o /\
    bal_of s' = send3 (send3 (send3 (bal_of s) AUser APool (vsingle di (i - fee))) AUser AFee (vsingle di fee))
                      APool AUser (vsingle do_ o) /\
    ((di = 0 /\ do_ = 1) \/ (di = 1 /\ do_ = 0)).
Proof.
  intros Hwf H. apply WF_split in Hwf. destruct Hwf as [Hb Hw]. unfold swap in H. repeat step_res H.
  match goal with E : compute_swap _ _ _ _ _ _ _ _ = Ok ?r |- _ =>
    destruct (compute_swap_spec _ _ _ _ _ _ _ _ _ Hw E) as (Hden & _); rename r into res end.
  assert (Hdi : (di =? 0) || (di =? 1) || (di =? 2) || (di =? 3) = true) by lia.
  assert (Hdo : (do_ =? 0) || (do_ =? 1) || (do_ =? 2) || (do_ =? 3) = true) by lia.
  match goal with E : of_opt (dceil (sr_fees res)) = Ok ?v |- _ => set (fee := dtrunc_int v) in * end.
  match goal with E : send_one_raw ?s1 AUser APool di _ = Ok ?s2 |- _ =>
    destruct (send_one_raw_path _ _ _ _ _ _ Hdi E) as (B2 & _ & _ & Pos2); rename s2 into sb; set (S1 := s1) in * end.
  assert (B1 : bal_of S1 = bal_of s) by reflexivity.
  match goal with E : (if _ then Ok sb else send_one_raw sb AUser AFee di _) = Ok ?s3 |- _ =>
    rename E into E3; rename s3 into sc end.
  match goal with E : send_one_raw sc APool AUser do_ _ = Ok ?s4 |- _ =>
    destruct (send_one_raw_path _ _ _ _ _ _ Hdo E) as (B4 & _ & _ & Pos4); rename s4 into sd end.
  injection H as <- <- <-.
  assert (B3 : 0 <= fee /\ bal_of sc = send3 (bal_of sb) AUser AFee (vsingle di fee)).
  { destruct (Z.eqb_spec fee 0) as [Ez|Ez].
    - injection E3 as <-. split; [lia|]. rewrite Ez.
      assert (L2 : len43 (bal_of sb)).
      { rewrite B2, B1. apply send3_len; [exact Hb|apply vsingle_len4; exact Hdi]. }
      destruct (bal_of sb) as [[bp bf] bu]. destruct L2 as (L1 & L2 & L3). cbn [fst snd] in *.
      destruct (len4_destruct _ L1) as (?&?&?&?&->). destruct (len4_destruct _ L2) as (?&?&?&?&->).
      destruct (len4_destruct _ L3) as (?&?&?&?&->).
      destruct Hden as [[-> _]|[-> _]];
        [replace (vsingle 0 0) with vzero by reflexivity|replace (vsingle 1 0) with vzero by reflexivity];
        unfold vzero; cbn; repeat f_equal; lia.
    - destruct (send_one_raw_path _ _ _ _ _ _ Hdi E3) as (B & _ & _ & Pos). split; [lia|exact B]. }
  destruct B3 as [Hf B3].
  exists fee. split; [exact Hf|]. split; [lia|]. split; [exact Pos4|]. split; [|exact Hden].
  change (bal_of (set_pool sd _)) with (bal_of sd). rewrite B4, B3, B2, B1. reflexivity.
Qed.

(* ------------------------------------------------------------------------------------------ *)
(* 6. only_owner_moves_funds                                                                    *)
(* ------------------------------------------------------------------------------------------ *)

Lemma decrease_not_owner s sender pid l : not_owned s sender pid = true ->
  decrease_liquidity s sender pid l = Err E_UNAUTHORIZED.
Proof.
  unfold not_owned, decrease_liquidity. destruct (find_pos (a_positions s) pid) as [pos|]; [|discriminate].
  intros ->. reflexivity.
Qed.
Lemma collect_fees_not_owner s sender pid : not_owned s sender pid = true ->
  collect_fees s sender pid = Err E_NOT_OWNER.
Proof.
  unfold not_owned, collect_fees. destruct (find_pos (a_positions s) pid) as [pos|]; [|discriminate].
  intros ->. reflexivity.
Qed.
Lemma increase_not_owner s sender pid b q mb mq : not_owned s sender pid = true ->
  increase_liquidity s sender pid b q mb mq = Err E_UNAUTHORIZED.
Proof.
  unfold not_owned, increase_liquidity. destruct (find_pos (a_positions s) pid) as [pos|]; [|discriminate].
  intros ->. reflexivity.
Qed.
Lemma claim_loop_not_owner sender ids : forall s tot, existsb (not_owned s sender) ids = true ->
  is_ok (claim_rewards_loop s sender ids tot) = false.
Proof.
  induction ids as [|i tl IH]; cbn [existsb claim_rewards_loop]; intros s tot H; [discriminate|].
  destruct (not_owned s sender i) eqn:Ei.
  - rewrite (collect_fees_not_owner _ _ _ Ei). reflexivity.
  - cbn [orb] in H. destruct (collect_fees s sender i) as [[s1 c]| |] eqn:Ec; cbn [rbind]; try reflexivity.
    apply IH. destruct (collect_fees_same_book _ _ _ _ _ Ec) as (P & _).
    assert (Hx : existsb (not_owned s1 sender) tl = existsb (not_owned s sender) tl).
    { clear -P. induction tl as [|j tl IHt]; [reflexivity|]. cbn [existsb]. rewrite IHt. unfold not_owned. rewrite P. reflexivity. }
    rewrite Hx. exact H.
Qed.

(* a message that tries to reduce, or claim for, an existing position of somebody else fails and,
   by the transaction semantics of [step], changes nothing *)
Theorem only_owner_moves_funds s o : non_owner_op s o = true ->
  fst (step s o) = s /\ is_ok (snd (step s o)) = false.
Proof.
  unfold non_owner_op, step. destruct o as [sender lo up b q mb mq|sender pid b q mb mq|sender pid l|sender ids|ei di do_ sp|coins];
    try discriminate; intros H.
  - rewrite (increase_not_owner _ _ _ _ _ _ _ H). split; reflexivity.
  - rewrite (decrease_not_owner _ _ _ _ H). split; reflexivity.
  - pose proof (claim_loop_not_owner sender ids s vzero H) as Hc.
    unfold msg_claim_rewards. destruct ids as [|i tl]; [discriminate|].
    destruct (claim_rewards_loop s sender (i :: tl) vzero) as [[s' c]| |]; cbn in *; try discriminate; split; reflexivity.
Qed.

(* ------------------------------------------------------------------------------------------ *)
(* 7. Custody: the pool account covers what the open positions can withdraw                     *)
(* ------------------------------------------------------------------------------------------ *)

Lemma owed_pair_same_price p p' pos : same_price p p' -> owed_pair p' pos = owed_pair p pos.
Proof. intros H. unfold owed_pair. rewrite (calc_actual_same_price _ _ _ _ _ H). reflexivity. Qed.
Lemma owed_total_same_price p p' ps : same_price p p' -> owed_total p' ps = owed_total p ps.
Proof.
  intros H. induction ps as [|x r IH]; cbn [owed_total]; [reflexivity|].
  rewrite (owed_pair_same_price _ _ _ H), IH. reflexivity.
Qed.
Lemma owed_pair_nonneg p pos b q : owed_pair p pos = Some (b, q) -> 0 <= b /\ 0 <= q.
Proof.
  unfold owed_pair. destruct (calc_actual_amounts _ _ _ _) as [[x y]| |]; try discriminate.
  intros H. injection H as <- <-. split; apply Z.abs_nonneg.
Qed.
Lemma owed_total_nonneg p ps tb tq : owed_total p ps = Some (tb, tq) -> 0 <= tb /\ 0 <= tq.
Proof.
  revert tb tq. induction ps as [|x r IH]; cbn [owed_total]; intros tb tq H.
  - injection H as <- <-. lia.
  - destruct (owed_pair p x) as [[b q]|] eqn:E; [|discriminate].
    destruct (owed_total p r) as [[rb rq]|]; [|discriminate]. injection H as <- <-.
    destruct (owed_pair_nonneg _ _ _ _ E). destruct (IH _ _ eq_refl). lia.
Qed.

(* removing a position lowers the total by exactly what that position is owed *)
Lemma owed_total_del p ps pid pos tb tq :
  find_pos ps pid = Some pos -> owed_total p ps = Some (tb, tq) ->
  exists b q, owed_pair p pos = Some (b, q) /\ owed_total p (del_pos ps pid) = Some (tb - b, tq - q) /\
              0 <= b <= tb /\ 0 <= q <= tq.
Proof.
  revert tb tq. induction ps as [|x r IH]; cbn [find_pos owed_total del_pos]; intros tb tq Hf H; [discriminate|].
  destruct (owed_pair p x) as [[xb xq]|] eqn:Ex; [|discriminate].
  destruct (owed_total p r) as [[rb rq]|] eqn:Er; [|discriminate]. injection H as <- <-.
  destruct (owed_pair_nonneg _ _ _ _ Ex) as [Hxb Hxq]. destruct (owed_total_nonneg _ _ _ _ Er) as [Hrb Hrq].
  destruct (pos_id x =? pid).
  - injection Hf as <-. exists xb, xq. rewrite Ex, Er. split; [reflexivity|]. split; [f_equal; f_equal; lia|lia].
  - destruct (IH _ _ Hf eq_refl) as (b & q & E1 & E2 & Hb & Hq).
    exists b, q. split; [exact E1|]. cbn [owed_total]. rewrite Ex, E2. split; [f_equal; f_equal; lia|lia].
Qed.

(* appending a position with a fresh (largest) id adds exactly what it is owed *)
Lemma owed_total_put_fresh p ps np tb tq b q :
  Forall (fun y => pos_id y < pos_id np) ps -> owed_total p ps = Some (tb, tq) ->
  owed_pair p np = Some (b, q) -> owed_total p (put_pos ps np) = Some (tb + b, tq + q).
Proof.
  intros Hf. revert tb tq. induction Hf as [|x r Hx Hr IH]; cbn [owed_total put_pos]; intros tb tq H Hn.
  - injection H as <- <-. rewrite Hn. f_equal. f_equal; lia.
  - destruct (Z.eqb_spec (pos_id x) (pos_id np)); [lia|]. destruct (Z.ltb_spec (pos_id np) (pos_id x)); [lia|].
    cbn [owed_total]. destruct (owed_pair p x) as [[xb xq]|]; [|discriminate].
    destruct (owed_total p r) as [[rb rq]|]; [|discriminate]. injection H as <- <-.
    rewrite (IH _ _ eq_refl Hn). f_equal. f_equal; lia.
Qed.
Lemma put_pos_twice ps a b : pos_id a = pos_id b -> put_pos (put_pos ps a) b = put_pos ps b.
Proof.
  intros E. induction ps as [|x r IH]; cbn [put_pos].
  - rewrite E, Z.eqb_refl. reflexivity.
  - destruct (Z.eqb_spec (pos_id x) (pos_id a)) as [E1|E1].
    + cbn [put_pos]. rewrite E, Z.eqb_refl. destruct (Z.eqb_spec (pos_id x) (pos_id b)); [reflexivity|lia].
    + destruct (Z.ltb_spec (pos_id a) (pos_id x)) as [L|L].
      * cbn [put_pos]. rewrite E, Z.eqb_refl.
        destruct (Z.eqb_spec (pos_id x) (pos_id b)); [lia|]. destruct (Z.ltb_spec (pos_id b) (pos_id x)); [reflexivity|lia].
      * cbn [put_pos]. destruct (Z.eqb_spec (pos_id x) (pos_id b)); [lia|].
        destruct (Z.ltb_spec (pos_id b) (pos_id x)); [lia|]. rewrite IH. reflexivity.
Qed.

(* claims never touch the pool account *)
Lemma prepare_claim_bal s pid s1 c : prepare_claim s pid = Ok (s1, c) -> bal_of s1 = bal_of s.
Proof.
  unfold prepare_claim. intros H.
  repeat step_res H;
  repeat match goal with
  | H : (let '(a, b) := ?x in _) = Ok _ |- _ => destruct x
  end; repeat step_res H; injection H as <- _;
  repeat match goal with |- context [if ?c then _ else _] => destruct c end; reflexivity.
Qed.
Lemma collect_fees_pool_bal s sender pid s1 c : collect_fees s sender pid = Ok (s1, c) ->
  a_bal_pool s1 = a_bal_pool s.
Proof.
  unfold collect_fees. intros H. repeat step_res H.
  - injection H as <- _. match goal with E : prepare_claim _ _ = Ok _ |- _ => apply prepare_claim_bal in E; injection E as -> _ _ end. reflexivity.
  - injection H as <- _.
    match goal with E : prepare_claim _ _ = Ok _ |- _ => apply prepare_claim_bal in E; injection E as Ep _ _ end.
    match goal with E : send _ _ _ _ = Ok _ |- _ => destruct (send_bal _ _ _ _ _ E) as (B & _) end.
    injection B as -> _ _. exact Ep.
Qed.

Lemma vget_vminus4 a b d : len4 a -> len4 b -> vget (vminus a b) d = vget a d - vget b d.
Proof. unfold vget. apply nth_vminus4. Qed.
Lemma vget_vplus4 a b d : len4 a -> len4 b -> vget (vplus a b) d = vget a d + vget b d.
Proof. unfold vget. apply nth_vplus4. Qed.

(* a complete withdrawal pays exactly what the position is owed at the current price, leaves what
   the others are owed unchanged, and keeps the pool account solvent *)
Theorem decrease_full_solvent s sender pid pos s' b q :
  Inv s -> len4 (a_bal_pool s) -> Solvent s ->
  find_pos (a_positions s) pid = Some pos ->
  decrease_liquidity s sender pid (pos_liq pos) = Ok (s', b, q) ->
  Solvent s' /\ owed_pair (a_pool s) pos = Some (b, q) /\
  a_positions s' = del_pos (a_positions s) pid /\
  (a_positions s' <> [] -> same_price (a_pool s) (a_pool s')) /\
  vget (a_bal_pool s') 0 = vget (a_bal_pool s) 0 - b /\ vget (a_bal_pool s') 1 = vget (a_bal_pool s) 1 - q.
Proof.
  intros [[Hc Hp] Hst] L4 (tb & tq & Ho & Hb & Hq) Ef H. unfold decrease_liquidity in H. rewrite Ef in H.
  repeat step_res H.
  match goal with E : collect_fees _ _ _ = Ok (?s1, _) |- _ => rename E into Ecf; rename s1 into sa end.
  match goal with E : update_position _ _ _ _ _ = Ok (?s2, ?a1, ?a2, ?le, ?ue) |- _ =>
    rename E into Eup; rename s2 into sb; rename le into le0; rename ue into ue0; rename a1 into ab; rename a2 into aq end.
  match goal with E : send _ _ _ _ = Ok ?s3 |- _ => rename E into Esend; rename s3 into sc end.
  injection H as Hs' <- <-.
  destruct (collect_fees_same_book _ _ _ _ _ Ecf) as (P & Q & _).
  pose proof (collect_fees_pool_bal _ _ _ _ _ Ecf) as Bpa.
  assert (Hpok : 0 <= pos_liq pos /\ pos_lower pos < pos_upper pos).
  { destruct Hc as [H1 _ _ _ _ _ _ _ _ _]. rewrite Forall_forall in H1. apply H1. apply (find_pos_in _ _ _ Ef). }
  assert (Hne : pos_lower pos <> pos_upper pos) by lia.
  destruct (update_position_spec _ _ _ _ _ _ _ _ _ _ Hne Eup)
    as (pos' & Hf' & _ & _ & Ps & _ & _ & _ & _ & _ & _ & _ & _ & Pl).
  rewrite P, Ef in Hf'. injection Hf' as <-.
  destruct (update_position_frame _ _ _ _ _ _ _ _ _ _ Eup) as (Bb & _ & ab0 & aq0 & Ecalc & -> & ->).
  assert (Pdel : a_positions sb = del_pos (a_positions s) pid).
  { rewrite Ps, P. unfold new_positions. replace (pos_liq pos + - pos_liq pos) with 0 by lia. reflexivity. }
  assert (Eowed : owed_pair (a_pool s) pos = Some (Z.abs (dtrunc_int ab0), Z.abs (dtrunc_int aq0))).
  { unfold owed_pair. rewrite <- Q, Ecalc. reflexivity. }
  destruct (owed_total_del _ _ _ _ _ _ Ef Ho) as (b' & q' & Eo1 & Eo2 & Hb' & Hq').
  rewrite Eowed in Eo1. injection Eo1 as <- <-.
  destruct (send_bal _ _ _ _ _ Esend) as (Bc & _ & _ & (Rp & Rpos & _)).
  assert (Bpc : a_bal_pool sc = vminus (a_bal_pool s) [Z.abs (dtrunc_int ab0); Z.abs (dtrunc_int aq0); 0; 0]).
  { injection Bc as -> _ _. injection Bb as -> _ _. rewrite Bpa. reflexivity. }
  assert (Fin : a_positions s' = a_positions sc /\ a_pool s' = a_pool sc /\ a_bal_pool s' = a_bal_pool sc).
  { rewrite <- Hs'. destruct le0; destruct ue0; repeat split. }
  destruct Fin as (F1 & F2 & F3).
  assert (G0 : vget (a_bal_pool s') 0 = vget (a_bal_pool s) 0 - Z.abs (dtrunc_int ab0)).
  { rewrite F3, Bpc, vget_vminus4 by (try assumption; reflexivity). reflexivity. }
  assert (G1 : vget (a_bal_pool s') 1 = vget (a_bal_pool s) 1 - Z.abs (dtrunc_int aq0)).
  { rewrite F3, Bpc, vget_vminus4 by (try assumption; reflexivity). reflexivity. }
  assert (Hsp : a_positions s' <> [] -> same_price (a_pool s) (a_pool s')).
  { rewrite F1, F2, Rpos, Rp, Pl, Q. intros Hn. destruct (a_positions sb); [contradiction|].
    destruct (Pool.in_range (a_pool s) _ _); repeat split. }
  split; [|split; [exact Eowed|split; [rewrite F1, Rpos; exact Pdel|split; [exact Hsp|split; [exact G0|exact G1]]]]].
  unfold Solvent. rewrite F1, Rpos, Pdel.
  destruct (del_pos (a_positions s) pid) as [|hd rest] eqn:Ed.
  - exists 0, 0. cbn [owed_total]. split; [reflexivity|]. rewrite G0, G1. lia.
  - exists (tb - Z.abs (dtrunc_int ab0)), (tq - Z.abs (dtrunc_int aq0)).
    rewrite (owed_total_same_price (a_pool s)); [|apply Hsp; rewrite F1, Rpos, Pdel; discriminate].
    split; [exact Eo2|]. rewrite G0, G1. lia.
Qed.

Lemma put_pos_nonempty l p : put_pos l p <> [].
Proof. destruct l as [|x l]; cbn [put_pos]; [discriminate|]. destruct (_ =? _); [discriminate|]. destruct (_ <? _); discriminate. Qed.

(* a creation charges at least what the new position can withdraw again (withdraw_le_deposit) and
   changes nothing for the others *)
Theorem create_position_solvent s sender lo up base quote mb mq s' r :
  Inv s -> len4 (a_bal_pool s) -> Solvent s ->
  create_position s sender lo up base quote mb mq = Ok (s', r) -> Solvent s'.
Proof.
  intros [[Hc Hp] Hst] L4 (tb & tq & Ho & Hb & Hq) H. unfold create_position in H.
  destruct ((up <=? lo) || (lo <? TICK_MIN) || (TICK_MAX <? up)) eqn:Echk; [discriminate|].
  assert (Hlt : lo < up) by lia.
  repeat step_res H.
  match goal with E : update_position ?s2 lo up ?d ?pid = Ok (?s3, ?a1, ?a2, _, _) |- _ =>
    rename E into Eup; set (S2 := s2) in *; rename s3 into sc; rename d into delta; rename a1 into ab; rename a2 into aq end.
  match goal with E : send _ _ _ _ = Ok ?s4 |- _ => rename E into Esend; rename s4 into sd end.
  match goal with E : (if has_position (a_pool s) then _ else _) = Ok ?s1 |- _ => rename E into Einit; rename s1 into sa end.
  injection H as <- _.
  (* the state after the optional first-position initialisation *)
  assert (Ha : a_positions sa = a_positions s /\ a_next_id sa = a_next_id s /\ bal_of sa = bal_of s /\
               exists tb' tq', owed_total (a_pool sa) (a_positions s) = Some (tb', tq') /\
                               tb' <= vget (a_bal_pool s) 0 /\ tq' <= vget (a_bal_pool s) 1).
  { destruct (has_position (a_pool s)) eqn:Ehp.
    - injection Einit as <-. repeat split. exists tb, tq. repeat split; assumption.
    - assert (Hemp : a_positions s = []).
      { destruct (a_positions s) eqn:Eps; [reflexivity|]. exfalso.
        destruct Hc as [_ _ _ _ _ _ _ _ _ H10]. rewrite H10 in Ehp; [discriminate|rewrite Eps; discriminate]. }
      repeat step_res Einit. injection Einit as <-. repeat split.
      rewrite Hemp in *. cbn [owed_total] in *. injection Ho as <- <-. exists 0, 0. repeat split; assumption. }
  destruct Ha as (Pa & Na & Ba & tb' & tq' & Ho' & Hb' & Hq').
  set (np0 := {| pos_id := a_next_id sa; pos_owner := sender; pos_lower := lo; pos_upper := up; pos_liq := 0 |}) in *.
  assert (F2 : find_pos (a_positions S2) (a_next_id sa) = Some np0).
  { unfold S2. cbn [a_positions set_next_id set_positions]. rewrite find_put_pos. cbn [pos_id np0]. rewrite Z.eqb_refl. reflexivity. }
  assert (Hne : lo <> up) by lia.
  destruct (update_position_spec _ _ _ _ _ _ _ _ _ _ Hne Eup)
    as (pos' & Hf' & Hl0 & Hd & Ps & _ & _ & _ & _ & _ & _ & _ & _ & Pl).
  rewrite F2 in Hf'. injection Hf' as <-. cbn [pos_liq np0] in Hl0, Ps.
  assert (Hdpos : 0 < delta) by lia.
  set (npd := {| pos_id := a_next_id sa; pos_owner := sender; pos_lower := lo; pos_upper := up; pos_liq := 0 + delta |}) in *.
  assert (Psc : a_positions sc = put_pos (a_positions s) npd).
  { rewrite Ps. unfold new_positions. destruct (Z.eqb_spec (0 + delta) 0); [lia|].
    unfold S2. cbn [a_positions set_next_id set_positions pos_owner pos_lower pos_upper np0]. fold npd.
    rewrite put_pos_twice by reflexivity. rewrite Pa. reflexivity. }
  assert (Hsp : same_price (a_pool sa) (a_pool sc)).
  { rewrite Pl. destruct (a_positions sc) eqn:Eps; [exfalso; symmetry in Psc; eapply put_pos_nonempty; exact Psc|].
    change (a_pool S2) with (a_pool sa). destruct (Pool.in_range (a_pool sa) lo up); repeat split. }
  destruct (update_position_frame _ _ _ _ _ _ _ _ _ _ Eup) as (Bc & _ & ab0 & aq0 & Ecalc & -> & ->).
  change (a_pool S2) with (a_pool sa) in Ecalc.
  destruct (withdraw_le_deposit _ _ _ _ _ _ Hdpos Ecalc) as (wb & wq & Ew & Lb & Lq & _ & _).
  assert (Eowed : owed_pair (a_pool sa) npd = Some (Z.abs (dtrunc_int wb), Z.abs (dtrunc_int wq))).
  { unfold owed_pair. cbn [pos_lower pos_upper pos_liq npd]. replace (- (0 + delta)) with (- delta) by lia.
    rewrite Ew. reflexivity. }
  assert (Hfresh : Forall (fun y => pos_id y < pos_id npd) (a_positions s)).
  { cbn [pos_id npd]. rewrite Na. destruct Hc as [_ _ H3 _ _ _ _ _ _ _]. exact H3. }
  pose proof (owed_total_put_fresh _ _ _ _ _ _ _ Hfresh Ho' Eowed) as Etot.
  destruct (send_bal _ _ _ _ _ Esend) as (Bd & _ & _ & (Rp & Rpos & _)).
  assert (Bpd : a_bal_pool sd = vplus (a_bal_pool s) [dtrunc_int ab0; dtrunc_int aq0; 0; 0]).
  { injection Bd as -> _ _. injection Bc as -> _ _. change (a_bal_pool S2) with (a_bal_pool sa). injection Ba as -> _ _. reflexivity. }
  exists (tb' + Z.abs (dtrunc_int wb)), (tq' + Z.abs (dtrunc_int wq)).
  rewrite Rpos, Rp, Psc, (owed_total_same_price _ _ _ Hsp). split; [exact Etot|].
  rewrite Bpd, !vget_vplus4 by (try assumption; reflexivity).
  change (vget [dtrunc_int ab0; dtrunc_int aq0; 0; 0] 0) with (dtrunc_int ab0).
  change (vget [dtrunc_int ab0; dtrunc_int aq0; 0; 0] 1) with (dtrunc_int aq0).
  assert (0 <= dtrunc_int ab0 /\ 0 <= dtrunc_int aq0) by lia. lia.
Qed.

(* operations that leave positions, pool price and the pool account alone *)
Lemma solvent_frame s s' : a_positions s' = a_positions s -> a_pool s' = a_pool s ->
  a_bal_pool s' = a_bal_pool s -> Solvent s -> Solvent s'.
Proof. intros P Q B (tb & tq & H). exists tb, tq. rewrite P, Q, B. exact H. Qed.

Lemma claim_loop_pool_bal ids : forall s sender tot s' c,
  claim_rewards_loop s sender ids tot = Ok (s', c) -> a_bal_pool s' = a_bal_pool s.
Proof.
  induction ids as [|i tl IH]; cbn [claim_rewards_loop]; intros s sender tot s' c H.
  - injection H as <- _. reflexivity.
  - repeat step_res H. rewrite (IH _ _ _ _ _ H). eapply collect_fees_pool_bal; eassumption.
Qed.
Lemma msg_claim_solvent s sender ids s' c : msg_claim_rewards s sender ids = Ok (s', c) -> Solvent s -> Solvent s'.
Proof.
  intros H. destruct (msg_claim_same_book _ _ _ _ _ H) as (P & Q & _).
  apply solvent_frame; [exact P|exact Q|]. unfold msg_claim_rewards in H. destruct ids; [discriminate|].
  eapply claim_loop_pool_bal; eassumption.
Qed.
Lemma allocate_solvent s coins s' : allocate_incentive s coins = Ok s' -> Solvent s -> Solvent s'.
Proof.
  intros H. destruct (allocate_same_book _ _ _ H) as (P & Q & _).
  apply solvent_frame; [exact P|exact Q|]. unfold allocate_incentive in H. repeat step_res H.
  destruct (send_bal _ _ _ _ _ H) as (B & _). injection B as -> _ _. reflexivity.
Qed.

Theorem increase_liquidity_solvent s sender pid ab aq mb mq s' r :
  Inv s -> WF s -> Solvent s -> increase_liquidity s sender pid ab aq mb mq = Ok (s', r) -> Solvent s'.
Proof.
  intros Hi Hwf Hs H. unfold increase_liquidity in H.
  destruct (find_pos (a_positions s) pid) as [pos|] eqn:Ef; [|discriminate].
  repeat step_res H.
  match goal with E : decrease_liquidity _ _ _ _ = Ok (?s1, _, _) |- _ => rename E into Ed; rename s1 into sa end.
  apply WF_split in Hwf. destruct Hwf as [Hb Hw].
  destruct (decrease_full_solvent _ _ _ _ _ _ _ Hi (proj1 Hb) Hs Ef Ed) as (Sa & _).
  destruct (decrease_liquidity_path _ _ _ _ _ _ _ Hw Ed) as (Pa & _).
  pose proof (BalPath_len _ _ Pa Hb) as La.
  eapply create_position_solvent; [eapply decrease_liquidity_inv; eassumption|exact (proj1 La)|exact Sa|exact H].
Qed.

(* the operations for which custody is proved: everything except swaps and partial withdrawals *)
Definition custody_safe_op (s : amm) (o : op) : bool :=
  match o with
  | OSwap _ _ _ _ => false
  | ODecrease _ pid l =>
      match find_pos (a_positions s) pid with Some pos => l =? pos_liq pos | None => true end
  | _ => true
  end.

Theorem step_solvent s o : Inv s -> WF s -> Solvent s -> custody_safe_op s o = true ->
  Solvent (fst (step s o)).
Proof.
  intros Hi Hwf Hs Ho. pose proof Hwf as Hwf'. apply WF_split in Hwf'. destruct Hwf' as [Hb Hw].
  unfold step. destruct o as [sender lo up b q mb mq|sender pid b q mb mq|sender pid l|sender ids|ei di do_ sp|coins].
  - destruct (create_position s sender lo up b q mb mq) as [[s' [[[id ab] aq] l]]| |] eqn:E; cbn; try exact Hs.
    eapply create_position_solvent; [exact Hi|exact (proj1 Hb)|exact Hs|exact E].
  - destruct (increase_liquidity s sender pid b q mb mq) as [[s' [[[id ab] aq] l]]| |] eqn:E; cbn; try exact Hs.
    eapply increase_liquidity_solvent; eassumption.
  - destruct (decrease_liquidity s sender pid l) as [[[s' b] q]| |] eqn:E; cbn; try exact Hs.
    cbn [custody_safe_op] in Ho. destruct (find_pos (a_positions s) pid) as [pos|] eqn:Ef.
    + apply Z.eqb_eq in Ho. subst l. eapply decrease_full_solvent; eassumption || exact (proj1 Hb).
    + unfold decrease_liquidity in E. rewrite Ef in E. discriminate.
  - destruct (msg_claim_rewards s sender ids) as [[s' c]| |] eqn:E; cbn; try exact Hs.
    eapply msg_claim_solvent; eassumption.
  - discriminate.
  - destruct (allocate_incentive s coins) as [s'| |] eqn:E; cbn; try exact Hs.
    eapply allocate_solvent; eassumption.
Qed.

(* histories of creations, complete withdrawals, increases, claims and allocations, of any length *)
Fixpoint safe_ops (s : amm) (ops : list op) : Prop :=
  match ops with [] => True | o :: tl => custody_safe_op s o = true /\ safe_ops (fst (step s o)) tl end.

Theorem run_solvent ops : forall s, Inv s -> WF s -> Forall op_wf ops -> Solvent s -> safe_ops s ops ->
  Solvent (run s ops).
Proof.
  induction ops as [|o tl IH]; cbn [run safe_ops]; intros s Hi Hwf Hop Hs Hsafe; [exact Hs|].
  destruct Hsafe as [H1 H2]. inversion Hop as [|? ? Ho1 Ho2]; subst.
  apply IH; try assumption.
  - apply step_inv; [exact Hi|]. destruct o; try exact I. discriminate.
  - apply (step_path s o Hwf Ho1).
  - apply step_solvent; assumption.
Qed.

(* exit liveness at the pool account: under [Solvent], whatever the exit order, the send that pays a
   withdrawing provider out of the pool account cannot fail *)
Theorem exit_pool_send_covered s pid pos sa c sb ab aq le ue :
  Inv s -> WF s -> BalNonneg s -> Solvent s ->
  find_pos (a_positions s) pid = Some pos ->
  collect_fees s (pos_owner pos) pid = Ok (sa, c) ->
  update_position sa (pos_lower pos) (pos_upper pos) (- pos_liq pos) pid = Ok (sb, ab, aq, le, ue) ->
  exists sc, send sb APool AUser [Z.abs ab; Z.abs aq; 0; 0] = Ok sc.
Proof.
  intros Hi Hwf (Np & _ & _) (tb & tq & Ho & Hb & Hq) Ef Ecf Eup.
  apply WF_split in Hwf. destruct Hwf as [(L4 & _ & _) _]. cbn [bal_of fst snd] in L4.
  destruct (collect_fees_same_book _ _ _ _ _ Ecf) as (P & Q & _).
  pose proof (collect_fees_pool_bal _ _ _ _ _ Ecf) as Bpa.
  destruct (update_position_frame _ _ _ _ _ _ _ _ _ _ Eup) as (Bb & _ & ab0 & aq0 & Ecalc & -> & ->).
  assert (Eowed : owed_pair (a_pool s) pos = Some (Z.abs (dtrunc_int ab0), Z.abs (dtrunc_int aq0))).
  { unfold owed_pair. rewrite <- Q, Ecalc. reflexivity. }
  destruct (owed_total_del _ _ _ _ _ _ Ef Ho) as (b' & q' & Eo1 & _ & Hb' & Hq').
  rewrite Eowed in Eo1. injection Eo1 as <- <-.
  assert (Bpb : a_bal_pool sb = a_bal_pool s) by (injection Bb as -> _ _; exact Bpa).
  unfold send. cbn [existsb get_bal]. rewrite Bpb.
  destruct (len4_destruct _ L4) as (p0 & p1 & p2 & p3 & Ep). rewrite Ep in *.
  change (vget [p0; p1; p2; p3] 0) with p0 in Hb. change (vget [p0; p1; p2; p3] 1) with p1 in Hq.
  unfold vnonneg in Np. inversion Np as [|? ? N0 Np1]; subst. inversion Np1 as [|? ? N1 Np2]; subst.
  inversion Np2 as [|? ? N2 Np3]; subst. inversion Np3 as [|? ? N3 _]; subst.
  assert (Hneg : (Z.abs (dtrunc_int ab0) <? 0) || ((Z.abs (dtrunc_int aq0) <? 0) || ((0 <? 0) || ((0 <? 0) || false))) = false) by lia.
  rewrite Hneg. cbn [vle].
  assert (Hle : (Z.abs (dtrunc_int ab0) <=? p0) && ((Z.abs (dtrunc_int aq0) <=? p1) && ((0 <=? p2) && ((0 <=? p3) && true))) = true) by lia.
  rewrite Hle. cbn [negb]. eexists. reflexivity.
Qed.

(* message-level rounding direction: create a position and withdraw it completely right away:
   the provider never gets back more than was charged *)
Theorem roundtrip_no_profit s sender lo up base quote mb mq s1 pid ab aq l s2 wb wq :
  create_position s sender lo up base quote mb mq = Ok (s1, (pid, ab, aq, l)) ->
  decrease_liquidity s1 sender pid l = Ok (s2, wb, wq) ->
  0 <= wb <= ab /\ 0 <= wq <= aq.
Proof.
  intros H Hdec. unfold create_position in H.
  destruct ((up <=? lo) || (lo <? TICK_MIN) || (TICK_MAX <? up)) eqn:Echk; [discriminate|].
  assert (Hlt : lo < up) by lia.
  repeat step_res H.
  match goal with E : update_position ?s2 lo up ?d ?p = Ok (?s3, ?a1, ?a2, _, _) |- _ =>
    rename E into Eup; set (S2 := s2) in *; rename s3 into sc; rename d into delta; rename a1 into ab'; rename a2 into aq' end.
  match goal with E : send _ _ _ _ = Ok ?s4 |- _ => rename E into Esend; rename s4 into sd end.
  match goal with E : (if has_position (a_pool s) then _ else _) = Ok ?s1 |- _ => rename E into Einit; rename s1 into sa end.
  injection H as <- <- <- <- <-.
  assert (Pa : a_positions sa = a_positions s).
  { destruct (has_position (a_pool s)); [injection Einit as <-; reflexivity|]. repeat step_res Einit. injection Einit as <-. reflexivity. }
  set (np0 := {| pos_id := a_next_id sa; pos_owner := sender; pos_lower := lo; pos_upper := up; pos_liq := 0 |}) in *.
  assert (F2 : find_pos (a_positions S2) (a_next_id sa) = Some np0).
  { unfold S2. cbn [a_positions set_next_id set_positions]. rewrite find_put_pos. cbn [pos_id np0]. rewrite Z.eqb_refl. reflexivity. }
  assert (Hne : lo <> up) by lia.
  destruct (update_position_spec _ _ _ _ _ _ _ _ _ _ Hne Eup)
    as (pos' & Hf' & Hl0 & Hd & Ps & _ & _ & _ & _ & _ & _ & _ & _ & Pl).
  rewrite F2 in Hf'. injection Hf' as <-. cbn [pos_liq np0] in Hl0, Ps.
  assert (Hdpos : 0 < delta) by lia.
  set (npd := {| pos_id := a_next_id sa; pos_owner := sender; pos_lower := lo; pos_upper := up; pos_liq := 0 + delta |}) in *.
  assert (Psc : a_positions sc = put_pos (a_positions s) npd).
  { rewrite Ps. unfold new_positions. destruct (Z.eqb_spec (0 + delta) 0); [lia|].
    unfold S2. cbn [a_positions set_next_id set_positions pos_owner pos_lower pos_upper np0]. fold npd.
    rewrite put_pos_twice by reflexivity. rewrite Pa. reflexivity. }
  assert (Hsp : same_price (a_pool sa) (a_pool sc)).
  { rewrite Pl. destruct (a_positions sc) eqn:Eps; [exfalso; symmetry in Psc; eapply put_pos_nonempty; exact Psc|].
    change (a_pool S2) with (a_pool sa). destruct (Pool.in_range (a_pool sa) lo up); repeat split. }
  destruct (update_position_frame _ _ _ _ _ _ _ _ _ _ Eup) as (_ & _ & ab0 & aq0 & Ecalc & -> & ->).
  change (a_pool S2) with (a_pool sa) in Ecalc.
  destruct (withdraw_le_deposit _ _ _ _ _ _ Hdpos Ecalc) as (wb0 & wq0 & Ew & Lb & Lq & _ & _).
  destruct (send_bal _ _ _ _ _ Esend) as (_ & _ & _ & (Rp & Rpos & _)).
  assert (Fd : find_pos (a_positions sd) (a_next_id sa) = Some npd).
  { rewrite Rpos, Psc, find_put_pos. cbn [pos_id npd]. rewrite Z.eqb_refl. reflexivity. }
  rewrite Fd in Hdec. cbn [pos_liq npd] in Hdec.
  (* the withdrawal *)
  unfold decrease_liquidity in Hdec. rewrite Fd in Hdec. cbn [pos_owner pos_liq pos_lower pos_upper npd] in Hdec.
  repeat step_res Hdec.
  match goal with E : collect_fees _ _ _ = Ok (?x1, _) |- _ => rename E into Ecf; rename x1 into se end.
  match goal with E : update_position se _ _ _ _ = Ok _ |- _ => rename E into Eup2 end.
  injection Hdec as _ <- <-.
  destruct (collect_fees_same_book _ _ _ _ _ Ecf) as (_ & Q & _).
  destruct (update_position_frame _ _ _ _ _ _ _ _ _ _ Eup2) as (_ & _ & wb1 & wq1 & Ecalc2 & -> & ->).
  assert (Hsp2 : same_price (a_pool sa) (a_pool se)) by (rewrite Q, Rp; exact Hsp).
  rewrite (calc_actual_same_price _ _ _ _ _ Hsp2) in Ecalc2.
  replace (- (0 + delta)) with (- delta) in Ecalc2 by lia. rewrite Ew in Ecalc2. injection Ecalc2 as <- <-.
  match goal with Eb : (dtrunc_int ab0 <? 0) || (dtrunc_int aq0 <? 0) = false |- _ => rename Eb into Hpos end.
  lia.
Qed.

(* ------------------------------------------------------------------------------------------ *)
(* 8. The run-time monitors decide exactly the predicates of the theorems                       *)
(* ------------------------------------------------------------------------------------------ *)

Lemma solvent_b_iff s : solvent_b s = true <-> Solvent s.
Proof.
  unfold solvent_b, Solvent. destruct (owed_total (a_pool s) (a_positions s)) as [[tb tq]|].
  - split.
    + intros H. exists tb, tq. split; [reflexivity|lia].
    + intros (tb' & tq' & E & H1 & H2). injection E as <- <-. lia.
  - split; [discriminate|]. intros (tb' & tq' & E & _). discriminate.
Qed.
Lemma len4_b_iff v : len4_b v = true <-> len4 v.
Proof. unfold len4_b, len4. apply Nat.eqb_eq. Qed.
Lemma wf_b_iff s : wf_b s = true <-> WF s.
Proof.
  unfold wf_b. rewrite !andb_true_iff, !len4_b_iff, !forallb_forall. split.
  - intros (((((H1 & H2) & H3) & H4) & H5) & H6). constructor; try assumption.
    + apply Forall_forall. intros t Ht. apply len4_b_iff. apply H5. exact Ht.
    + apply Forall_forall. intros a Ha. specialize (H6 a Ha). rewrite andb_true_iff, !len4_b_iff in H6. exact H6.
  - intros [H1 H2 H3 H4 H5 H6]. rewrite Forall_forall in H5, H6. repeat split; try assumption.
    + intros t Ht. apply len4_b_iff. apply H5. exact Ht.
    + intros a Ha. rewrite andb_true_iff, !len4_b_iff. apply H6. exact Ha.
Qed.
Lemma vnonneg_b_iff v : vnonneg_b v = true <-> vnonneg v.
Proof.
  unfold vnonneg_b, vnonneg. rewrite forallb_forall, Forall_forall. split; intros H x Hx; specialize (H x Hx); lia.
Qed.
Lemma bal_nonneg_b_iff s : bal_nonneg_b s = true <-> BalNonneg s.
Proof. unfold bal_nonneg_b, BalNonneg. rewrite !andb_true_iff, !vnonneg_b_iff. tauto. Qed.

(* ------------------------------------------------------------------------------------------ *)
(* 9. Finding C02-F1: the faithful model refutes unconditional custody and exit liveness        *)
(* ------------------------------------------------------------------------------------------ *)
(* CalcAmountBaseDelta rounds its intermediate results half-even; at a sqrt price of 1e-9 half a
   unit in the last place of the second quotient is worth a whole base unit.  One quote-only
   position below the first price, two swaps selling base into it, and the pool account is one
   unit short of what the only position is owed: it cannot withdraw.  The same history fails in
   the same way on the implementation (harness scenario F1). *)
Definition f1_pool : amm :=
  fresh_pool 3000000000000000 {| price_ratio := 1100000000000000000; base_offset := 0 |} 0
    vzero vzero [10 ^ 36; 10 ^ 36; 0; 0].
Definition f1_ops : list op :=
  [OCreate 0 (-475) (-440) (10 ^ 21) 1000 0 0;
   OSwap true 0 1 333333333333333333333;
   OSwap true 0 1 250000000000000000000].

Lemma f1_reach0 : Reach0 f1_pool.
Proof.
  split; [apply fresh_pool_inv|]. split; [apply wf_b_iff; reflexivity|].
  split; [apply bal_nonneg_b_iff; reflexivity|]. repeat split.
Qed.
Lemma f1_witness :
  solvent_b (run f1_pool (firstn 2 f1_ops)) = true /\
  solvent_b (run f1_pool f1_ops) = false /\
  slack (run f1_pool f1_ops) = (-1, 2) /\
  map pos_id (a_positions (run f1_pool f1_ops)) = [0] /\
  drain (run f1_pool f1_ops) [0] = false.
Proof. vm_compute. repeat split. Qed.

Lemma f1_insolvent : solvent_b (run f1_pool f1_ops) = false.
Proof. exact (proj1 (proj2 f1_witness)). Qed.
Lemma f1_positions : map pos_id (a_positions (run f1_pool f1_ops)) = [0].
Proof. exact (proj1 (proj2 (proj2 (proj2 f1_witness)))). Qed.
Lemma f1_drain_fails : drain (run f1_pool f1_ops) [0] = false.
Proof. exact (proj2 (proj2 (proj2 (proj2 f1_witness)))). Qed.

Lemma custody_full_at_f1 : custody_full -> solvent_b (run f1_pool f1_ops) = true.
Proof. intros H. exact (proj1 (H f1_pool f1_ops f1_reach0)). Qed.
Theorem custody_full_refuted : ~ custody_full.
Proof. intros H. pose proof (custody_full_at_f1 H) as Hs. rewrite f1_insolvent in Hs. discriminate. Qed.

Lemma f1_perm : Permutation.Permutation [0] (map pos_id (a_positions (run f1_pool f1_ops))).
Proof. rewrite f1_positions. apply Permutation.Permutation_refl. Qed.
Lemma drain_full_at_f1 : drain_full -> drain (run f1_pool f1_ops) [0] = true.
Proof. intros H. exact (H f1_pool f1_ops [0] f1_reach0 f1_perm). Qed.
Theorem drain_full_refuted : ~ drain_full.
Proof. intros H. pose proof (drain_full_at_f1 H) as Hd. rewrite f1_drain_fails in Hd. discriminate. Qed.

(* ------------------------------------------------------------------------------------------ *)
(* 10. Non-vacuity: a reachable two-position state satisfying every hypothesis used above        *)
(* ------------------------------------------------------------------------------------------ *)
Definition ex_pool : amm :=
  fresh_pool 3000000000000000 {| price_ratio := 1000100000000000000; base_offset := 500000000000000000 |} 0
    vzero vzero [10 ^ 12; 10 ^ 12; 0; 0].
Definition ex_ops : list op :=
  [OCreate 1 (-100) 100 1000000 1000000 0 0; OCreate 2 (-50) 200 500000 700000 0 0].
Lemma ex_computed :
  wf_b (run ex_pool ex_ops) = true /\ bal_nonneg_b (run ex_pool ex_ops) = true /\
  solvent_b (run ex_pool ex_ops) = true /\ map pos_id (a_positions (run ex_pool ex_ops)) = [0; 1] /\
  non_owner_op (run ex_pool ex_ops) (ODecrease 2 0 1) = true /\
  custody_safe_op (run ex_pool ex_ops) (OClaim 1 [0]) = true /\
  drain (run ex_pool ex_ops) [1; 0] = true /\ drain (run ex_pool ex_ops) [0; 1] = true.
Proof. vm_compute. repeat split. Qed.
Lemma ex_reach0 : Reach0 ex_pool.
Proof.
  split; [apply fresh_pool_inv|]. split; [apply wf_b_iff; reflexivity|].
  split; [apply bal_nonneg_b_iff; reflexivity|]. repeat split.
Qed.
Lemma ex_inv : Inv (run ex_pool ex_ops).
Proof. apply reach_inv_positions; [apply fresh_pool_inv|reflexivity]. Qed.
Lemma nonvacuous_example :
  Reach0 ex_pool /\ Inv (run ex_pool ex_ops) /\ WF (run ex_pool ex_ops) /\ BalNonneg (run ex_pool ex_ops) /\
  Solvent (run ex_pool ex_ops) /\ map pos_id (a_positions (run ex_pool ex_ops)) = [0; 1] /\
  non_owner_op (run ex_pool ex_ops) (ODecrease 2 0 1) = true /\
  custody_safe_op (run ex_pool ex_ops) (OClaim 1 [0]) = true /\
  drain (run ex_pool ex_ops) [1; 0] = true /\ drain (run ex_pool ex_ops) [0; 1] = true.
Proof.
  split; [exact ex_reach0|]. split; [exact ex_inv|].
  split; [apply wf_b_iff; exact (proj1 ex_computed)|].
  split; [apply bal_nonneg_b_iff; exact (proj1 (proj2 ex_computed))|].
  split; [apply solvent_b_iff; exact (proj1 (proj2 (proj2 ex_computed)))|].
  exact (proj2 (proj2 (proj2 ex_computed))).
Qed.

(* ------------------------------------------------------------------------------------------ *)
(* 11. Frame: a message leaves every position (and its fee-accumulator record) of any other       *)
(*     owner exactly as it was                                                                    *)
(* ------------------------------------------------------------------------------------------ *)
Definition untouched (s s' : amm) (j : Z) : Prop :=
  find_pos (a_positions s') j = find_pos (a_positions s) j /\
  find_ap (a_acc_pos s') j = find_ap (a_acc_pos s) j.
Lemma untouched_refl s j : untouched s s j.
Proof. split; reflexivity. Qed.
Lemma untouched_trans a b c j : untouched a b j -> untouched b c j -> untouched a c j.
Proof. intros [A1 A2] [B1 B2]. split; congruence. Qed.

Lemma find_pos_del_other l i j : i <> j -> find_pos (del_pos l i) j = find_pos l j.
Proof.
  intros N. induction l as [|x l IH]; cbn [del_pos find_pos]; [reflexivity|].
  destruct (Z.eqb_spec (pos_id x) i) as [E|E].
  - destruct (Z.eqb_spec (pos_id x) j); [lia|reflexivity].
  - cbn [find_pos]. rewrite IH. reflexivity.
Qed.
Lemma find_ap_put l p i : find_ap (put_ap l p) i = if i =? ap_id p then Some p else find_ap l i.
Proof.
  induction l as [|x l IH]; cbn [put_ap find_ap].
  - rewrite (Z.eqb_sym (ap_id p) i). reflexivity.
  - destruct (Z.eqb_spec (ap_id x) (ap_id p)) as [E|E].
    + cbn [find_ap]. rewrite (Z.eqb_sym (ap_id p) i).
      destruct (Z.eqb_spec i (ap_id p)); [reflexivity|].
      destruct (Z.eqb_spec (ap_id x) i); [lia|reflexivity].
    + destruct (Z.ltb_spec (ap_id p) (ap_id x)).
      * cbn [find_ap]. rewrite (Z.eqb_sym (ap_id p) i). destruct (Z.eqb_spec i (ap_id p)); reflexivity.
      * cbn [find_ap]. destruct (Z.eqb_spec (ap_id x) i).
        -- destruct (Z.eqb_spec i (ap_id p)); [lia|reflexivity].
        -- apply IH.
Qed.
Lemma find_ap_del_other l i j : i <> j -> find_ap (del_ap l i) j = find_ap l j.
Proof.
  intros N. induction l as [|x l IH]; cbn [del_ap find_ap]; [reflexivity|].
  destruct (Z.eqb_spec (ap_id x) i) as [E|E].
  - destruct (Z.eqb_spec (ap_id x) j); [lia|reflexivity].
  - cbn [find_ap]. rewrite IH. reflexivity.
Qed.

Lemma same_rest_untouched s s' j : same_rest s s' -> untouched s s' j.
Proof. intros (_ & P & _ & _ & _ & A & _). split; [rewrite P|rewrite A]; reflexivity. Qed.
Lemma send_untouched s from to am s' j : send s from to am = Ok s' -> untouched s s' j.
Proof. intros H. apply same_rest_untouched. apply (send_bal _ _ _ _ _ H). Qed.

Lemma prepare_claim_untouched s pid s1 c j : prepare_claim s pid = Ok (s1, c) -> j <> pid -> untouched s s1 j.
Proof.
  intros H N. unfold prepare_claim in H.
  destruct (find_pos (a_positions s) pid) as [pos|]; [|discriminate].
  destruct (find_ap (a_acc_pos s) pid) as [ap0|]; [|discriminate].
  step_res H. step_res H. step_res H. unfold vtrunc in H. step_res H.
  match type of H with context [if ?c then set_acc_pos s ?l1 else set_acc_pos s ?l2] =>
    set (s1' := if c then set_acc_pos s l1 else set_acc_pos s l2) in * end.
  assert (U : untouched s s1' j).
  { unfold s1'. match goal with |- context [if ?c then _ else _] => destruct c end;
      (split; [reflexivity|]); cbn [a_acc_pos set_acc_pos].
    - apply find_ap_del_other. lia.
    - rewrite find_ap_put. cbn [ap_id]. destruct (Z.eqb_spec j pid); [lia|reflexivity]. }
  destruct (vis_zero _); [injection H as <- _; exact U|].
  destruct (a_acc_shares s1' =? 0); [injection H as <- _; exact U|].
  step_res H. step_res H. injection H as <- _. exact U.
Qed.
Lemma collect_fees_untouched s sender pid s1 c j : collect_fees s sender pid = Ok (s1, c) -> j <> pid -> untouched s s1 j.
Proof.
  intros H N. unfold collect_fees in H. repeat step_res H; injection H as <- _.
  - eapply prepare_claim_untouched; eassumption.
  - eapply untouched_trans; [eapply prepare_claim_untouched; eassumption|eapply send_untouched; eassumption].
Qed.
Lemma set_accum_position_untouched s lo up pid d s' j : set_accum_position s lo up pid d = Ok s' -> j <> pid ->
  untouched s s' j.
Proof.
  intros H N. pose proof (set_accum_position_spec _ _ _ _ _ _ H) as (P & _).
  split; [rewrite P; reflexivity|].
  unfold set_accum_position in H. cbn [ap_shares] in H.
  repeat step_res H; injection H as <-; cbn [a_acc_pos set_acc set_acc_pos];
  rewrite find_ap_put; cbn [ap_id]; (destruct (Z.eqb_spec j pid); [lia|reflexivity]).
Qed.
Lemma update_position_untouched s lo up d pid s' ab aq le ue j :
  update_position s lo up d pid = Ok (s', ab, aq, le, ue) -> j <> pid -> untouched s s' j.
Proof.
  intros H N. unfold update_position in H.
  rb H r1 E1. destruct r1 as [s1 le']. apply of_opt_ok in E1.
  rb H r2 E2. destruct r2 as [s2 ue']. apply of_opt_ok in E2.
  destruct (upsert_tick_spec _ _ _ _ _ _ E1) as (P1 & _ & _ & _ & A1 & _).
  destruct (upsert_tick_spec _ _ _ _ _ _ E2) as (P2 & _ & _ & _ & A2 & _).
  destruct (find_pos (a_positions s2) pid) as [pos|]; [|discriminate].
  rb H liq E3. destruct (liq <? 0); [discriminate|].
  rb H amts E4. destruct amts as [ab0 aq0].
  set (s3 := if liq =? 0 then set_positions s2 (del_pos (a_positions s2) pid)
             else set_positions s2 (put_pos (a_positions s2)
                    {| pos_id := pid; pos_owner := pos_owner pos; pos_lower := pos_lower pos;
                       pos_upper := pos_upper pos; pos_liq := liq |})) in *.
  rb H s4 E5. rb H s5 E6. injection H as <- _ _ _ _.
  assert (U3 : untouched s s3 j).
  { unfold s3. destruct (liq =? 0); (split; cbn [a_positions a_acc_pos set_positions]; [|rewrite A2, A1; reflexivity]).
    - rewrite find_pos_del_other by lia. rewrite P2, P1. reflexivity.
    - rewrite find_put_pos. cbn [pos_id]. destruct (Z.eqb_spec j pid); [lia|]. rewrite P2, P1. reflexivity. }
  assert (U4 : untouched s3 s4 j).
  { destruct (a_positions s3).
    - injection E5 as <-. split; reflexivity.
    - destruct (Pool.in_range (a_pool s2) lo up).
      + rb E5 lq E7. injection E5 as <-. split; reflexivity.
      + injection E5 as <-. split; reflexivity. }
  eapply untouched_trans; [exact U3|]. eapply untouched_trans; [exact U4|].
  eapply set_accum_position_untouched; eassumption.
Qed.

Lemma decrease_untouched s sender pid l s' b q j :
  decrease_liquidity s sender pid l = Ok (s', b, q) -> j <> pid -> untouched s s' j.
Proof.
  intros H N. unfold decrease_liquidity in H.
  destruct (find_pos (a_positions s) pid) as [pos|]; [|discriminate].
  repeat step_res H.
  match goal with E : collect_fees _ _ _ = Ok _ |- _ => pose proof (collect_fees_untouched _ _ _ _ _ j E N) as U1 end.
  match goal with E : update_position _ _ _ _ _ = Ok _ |- _ => pose proof (update_position_untouched _ _ _ _ _ _ _ _ _ _ j E N) as U2 end.
  match goal with E : send _ _ _ _ = Ok _ |- _ => pose proof (send_untouched _ _ _ _ _ j E) as U3 end.
  injection H as <- _ _.
  eapply untouched_trans; [exact U1|]. eapply untouched_trans; [exact U2|]. eapply untouched_trans; [exact U3|].
  match goal with |- untouched _ (if ?u then _ else _) _ => destruct u end;
  match goal with |- context [if ?l then _ else _] => destruct l end; split; reflexivity.
Qed.

Lemma create_untouched s sender lo up base quote mb mq s' r j :
  create_position s sender lo up base quote mb mq = Ok (s', r) -> j < a_next_id s -> untouched s s' j.
Proof.
  intros H N. unfold create_position in H. repeat step_res H.
  match goal with E : update_position ?s2 lo up _ ?pid = Ok (?s3, _, _, _, _) |- _ =>
    rename E into Eup; set (S2 := s2) in *; rename s3 into sc end.
  match goal with E : send _ _ _ _ = Ok ?s4 |- _ => rename E into Esend; rename s4 into sd end.
  match goal with E : (if has_position (a_pool s) then _ else _) = Ok ?s1 |- _ => rename E into Einit; rename s1 into sa end.
  injection H as <- _.
  assert (Ua : untouched s sa j /\ a_next_id sa = a_next_id s).
  { destruct (has_position (a_pool s)); [injection Einit as <-; split; [apply untouched_refl|reflexivity]|].
    repeat step_res Einit. injection Einit as <-. split; [split; reflexivity|reflexivity]. }
  destruct Ua as [Ua Na].
  assert (U2 : untouched sa S2 j).
  { unfold S2. split; cbn [a_positions a_acc_pos set_next_id set_positions]; [|reflexivity].
    rewrite find_put_pos. cbn [pos_id]. destruct (Z.eqb_spec j (a_next_id sa)); [lia|reflexivity]. }
  assert (Nj : j <> a_next_id sa) by lia.
  pose proof (update_position_untouched _ _ _ _ _ _ _ _ _ _ j Eup Nj) as U3.
  pose proof (send_untouched _ _ _ _ _ j Esend) as U4.
  eapply untouched_trans; [exact Ua|]. eapply untouched_trans; [exact U2|]. eapply untouched_trans; [exact U3|exact U4].
Qed.

Lemma update_position_next_id s lo up d pid s' ab aq le ue :
  update_position s lo up d pid = Ok (s', ab, aq, le, ue) -> a_next_id s' = a_next_id s.
Proof.
  intros H. unfold update_position in H.
  rb H r1 E1. destruct r1 as [s1 le']. apply of_opt_ok in E1.
  rb H r2 E2. destruct r2 as [s2 ue']. apply of_opt_ok in E2.
  destruct (upsert_tick_spec _ _ _ _ _ _ E1) as (_ & _ & _ & _ & _ & Nx1 & _).
  destruct (upsert_tick_spec _ _ _ _ _ _ E2) as (_ & _ & _ & _ & _ & Nx2 & _).
  destruct (find_pos (a_positions s2) pid) as [pos|]; [|discriminate].
  rb H liq E3. destruct (liq <? 0); [discriminate|].
  rb H amts E4. destruct amts as [ab0 aq0].
  set (s3 := if liq =? 0 then set_positions s2 (del_pos (a_positions s2) pid)
             else set_positions s2 (put_pos (a_positions s2)
                    {| pos_id := pid; pos_owner := pos_owner pos; pos_lower := pos_lower pos;
                       pos_upper := pos_upper pos; pos_liq := liq |})) in *.
  rb H s4 E5. rb H s5 E6. injection H as <- _ _ _ _.
  destruct (set_accum_position_spec _ _ _ _ _ _ E6) as (_ & _ & _ & N5 & _).
  assert (N3 : a_next_id s3 = a_next_id s2) by (unfold s3; destruct (liq =? 0); reflexivity).
  assert (N4 : a_next_id s4 = a_next_id s3).
  { destruct (a_positions s3).
    - injection E5 as <-. reflexivity.
    - destruct (Pool.in_range (a_pool s2) lo up).
      + rb E5 lq E7. injection E5 as <-. reflexivity.
      + injection E5 as <-. reflexivity. }
  congruence.
Qed.
Lemma decrease_next_id s sender pid l s' b q : decrease_liquidity s sender pid l = Ok (s', b, q) -> a_next_id s' = a_next_id s.
Proof.
  intros H. unfold decrease_liquidity in H.
  destruct (find_pos (a_positions s) pid) as [pos|]; [|discriminate].
  repeat step_res H.
  match goal with E : collect_fees _ _ _ = Ok _ |- _ => destruct (collect_fees_same_book _ _ _ _ _ E) as (_ & _ & _ & _ & N1) end.
  match goal with E : update_position _ _ _ _ _ = Ok _ |- _ => pose proof (update_position_next_id _ _ _ _ _ _ _ _ _ _ E) as N2 end.
  match goal with E : send _ _ _ _ = Ok _ |- _ => destruct (send_same_book _ _ _ _ _ E) as (_ & _ & _ & _ & N3) end.
  injection H as <- _ _.
  match goal with |- a_next_id (if ?u then _ else _) = _ => destruct u end;
  match goal with |- context [if ?l then _ else _] => destruct l end;
  cbn [a_next_id set_ticks]; congruence.
Qed.

Lemma increase_untouched s sender pid ab aq mb mq s' r j :
  increase_liquidity s sender pid ab aq mb mq = Ok (s', r) -> j <> pid -> j < a_next_id s -> untouched s s' j.
Proof.
  intros H N Nj. unfold increase_liquidity in H.
  destruct (find_pos (a_positions s) pid) as [pos|]; [|discriminate].
  repeat step_res H.
  match goal with E : decrease_liquidity _ _ _ _ = Ok _ |- _ =>
    pose proof (decrease_untouched _ _ _ _ _ _ _ j E N) as U1; pose proof (decrease_next_id _ _ _ _ _ _ _ E) as N1 end.
  eapply untouched_trans; [exact U1|]. eapply create_untouched; [exact H|lia].
Qed.

Lemma claim_loop_untouched ids : forall s sender tot s' c j,
  claim_rewards_loop s sender ids tot = Ok (s', c) -> ~ In j ids -> untouched s s' j.
Proof.
  induction ids as [|i tl IH]; cbn [claim_rewards_loop]; intros s sender tot s' c j H N.
  - injection H as <- _. apply untouched_refl.
  - repeat step_res H. eapply untouched_trans.
    + eapply collect_fees_untouched; [eassumption|]. intros ->. apply N. left. reflexivity.
    + eapply IH; [exact H|]. intros Hin. apply N. right. exact Hin.
Qed.

Lemma send_one_raw_untouched s from to d a s' j : send_one_raw s from to d a = Ok s' -> untouched s s' j.
Proof. unfold send_one_raw. destruct (a <=? 0); [discriminate|]. apply send_untouched. Qed.

Lemma swap_untouched s ei di do_ sp fe s' i o j : swap s ei di do_ sp fe = Ok (s', i, o) -> untouched s s' j.
Proof.
  intros H. unfold swap in H. repeat step_res H.
  repeat match goal with
  | E : send_one_raw _ _ _ _ _ = Ok _ |- _ => apply (send_one_raw_untouched _ _ _ _ _ _ j) in E
  end.
  injection H as <- _ _.
  match goal with E : (if ?c then Ok ?a else send_one_raw ?a _ _ _ _) = Ok ?b |- _ =>
    assert (U3 : untouched a b j) by (destruct c; [injection E as <-; apply untouched_refl|eapply send_one_raw_untouched; exact E]) end.
  match goal with U1 : untouched (set_acc (set_ticks s _) _ _) ?a j |- _ =>
    assert (U0 : untouched s a j) by (destruct U1 as [A B]; split; [exact A|exact B]) end.
  match goal with U4 : untouched ?c ?d j |- untouched s (set_pool ?d _) j =>
    eapply untouched_trans; [exact U0|]; eapply untouched_trans; [exact U3|]; destruct U4 as [A B]; split; [exact A|exact B] end.
Qed.

Lemma allocate_untouched s coins s' j : allocate_incentive s coins = Ok s' -> untouched s s' j.
Proof.
  intros H. unfold allocate_incentive in H. repeat step_res H.
  apply (send_untouched _ _ _ _ _ j) in H. destruct H as [A B]. split; [exact A|exact B].
Qed.

(* only a position's owner can reduce it or claim for it, as a frame property of the whole state
   machine: whatever message is executed, a position whose owner is not the sender (and the record
   of its accrued fees) is exactly what it was *)
Theorem others_untouched s o pos :
  Inv s -> In pos (a_positions s) -> (forall x, op_sender o = Some x -> pos_owner pos <> x) ->
  untouched s (fst (step s o)) (pos_id pos).
Proof.
  intros [[Hc _] _] Hin Hown.
  assert (Hf : find_pos (a_positions s) (pos_id pos) = Some pos).
  { apply in_find_sorted; [destruct Hc; assumption|exact Hin]. }
  assert (Hfresh : pos_id pos < a_next_id s).
  { destruct Hc as [_ _ H3 _ _ _ _ _ _ _]. rewrite Forall_forall in H3. apply H3. exact Hin. }
  unfold step. destruct o as [sender lo up b q mb mq|sender pid b q mb mq|sender pid l|sender ids|ei di do_ sp|coins].
  - destruct (create_position s sender lo up b q mb mq) as [[s' [[[id ab] aq] l]]| |] eqn:E; cbn [fst]; try apply untouched_refl.
    eapply create_untouched; eassumption.
  - destruct (increase_liquidity s sender pid b q mb mq) as [[s' [[[id ab] aq] l]]| |] eqn:E; cbn [fst]; try apply untouched_refl.
    destruct (Z.eq_dec (pos_id pos) pid) as [Ep|Ep].
    + exfalso. assert (Hn : not_owned s sender pid = true).
      { unfold not_owned. rewrite <- Ep, Hf. specialize (Hown sender eq_refl). lia. }
      rewrite (increase_not_owner _ _ _ _ _ _ _ Hn) in E. discriminate.
    + eapply increase_untouched; eassumption.
  - destruct (decrease_liquidity s sender pid l) as [[[s' b] q]| |] eqn:E; cbn [fst]; try apply untouched_refl.
    destruct (Z.eq_dec (pos_id pos) pid) as [Ep|Ep].
    + exfalso. assert (Hn : not_owned s sender pid = true).
      { unfold not_owned. rewrite <- Ep, Hf. specialize (Hown sender eq_refl). lia. }
      rewrite (decrease_not_owner _ _ _ _ Hn) in E. discriminate.
    + eapply decrease_untouched; eassumption.
  - destruct (msg_claim_rewards s sender ids) as [[s' c]| |] eqn:E; cbn [fst]; try apply untouched_refl.
    destruct (in_dec Z.eq_dec (pos_id pos) ids) as [Hi|Hi].
    + exfalso. assert (Hn : existsb (not_owned s sender) ids = true).
      { apply existsb_exists. exists (pos_id pos). split; [exact Hi|].
        unfold not_owned. rewrite Hf. specialize (Hown sender eq_refl). lia. }
      pose proof (claim_loop_not_owner sender ids s vzero Hn) as Hc'.
      unfold msg_claim_rewards in E. destruct ids; [discriminate|]. rewrite E in Hc'. discriminate.
    + unfold msg_claim_rewards in E. destruct ids; [discriminate|]. eapply claim_loop_untouched; eassumption.
  - destruct (swap s ei di do_ sp true) as [[[s' i] o']| |] eqn:E; cbn [fst]; try apply untouched_refl.
    eapply swap_untouched; eassumption.
  - destruct (allocate_incentive s coins) as [s'| |] eqn:E; cbn [fst]; try apply untouched_refl.
    eapply allocate_untouched; eassumption.
Qed.
