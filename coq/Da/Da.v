(* x/da: life cycle of published data.  Executable model of
     x/da/keeper/msg_server_publish_data.go, msg_server_submit_invalidity.go,
     msg_server_submit_validity_proof.go, msg_server_proof_deputy.go,
     x/da/keeper/abci.go (EndBlocker: the four phases in source order, without the slash epoch),
     x/da/keeper/store_published_data.go (second-truncated (status, unix) index scans),
   over the projection of the state that the harness dumps from the real keepers at every step.

   Conventions.  Addresses, URIs and denoms are integers chosen by the harness so that integer
   order = byte order of the store keys (URIs are fixed-width strings, principals are numbered in
   address-byte order; the module account is 0).  Coins are vectors: position d holds the amount of
   denom d, 0 = the denom is absent (sdk.Coins never holds a zero coin).  Times are nanoseconds.
   Status numbers are those of the protobuf enum.

   The record [fixes] selects between the code as found ([legacy]), the code as it is now
   ([repaired]: fix commits of C07-exact-deadlines, C08-reject-repeated-invalidity, the negative
   proof index guard and the C09 repairs) and the code with the still unapplied range check of
   SubmitInvalidity on top ([with_range_check], notes/patches/C07-shard-index-range.patch).
   The checks and the positive theorems use [repaired], the refutations use [legacy].

   Oracles (read from the running application, never axioms): existence / bonded status of the
   validator named in a proof message, and for every submitted proof whether gnark parses and
   verifies it against the published hash.  No proofs in this file. *)
From Coq Require Import ZArith List Bool.
Import ListNotations.
From Sunrise Require Import Base.Outcome Base.Dec Base.Bank.
Local Open Scope Z_scope.

(* ---------- constants ---------- *)
Definition ST_VER : Z := 1.   (* STATUS_VERIFIED *)
Definition ST_REJ : Z := 2.   (* STATUS_REJECTED *)
Definition ST_CP : Z := 3.    (* STATUS_CHALLENGE_PERIOD *)
Definition ST_CH : Z := 4.    (* STATUS_CHALLENGING *)
Definition MODULE : Z := 0.   (* the da module account *)
Definition NS : Z := 1000000000.
Definition unix (t : Z) : Z := t / NS.          (* time.Time.Unix() for times after 1970 *)

Definition E_NOT_CP : Z := 1101.
Definition E_CP_OVER : Z := 1102.
Definition E_NOT_CH : Z := 1103.
Definition E_PP_OVER : Z := 1104.
Definition E_IDX_OVERFLOW : Z := 1105.
Definition E_MISMATCH : Z := 1106.
Definition E_PARITY : Z := 1107.
Definition E_BAD_IDX : Z := 1108.
Definition E_EXISTS : Z := 1109.
Definition E_NOT_FOUND : Z := 1110.
Definition E_NO_DEPUTY : Z := 1111.
Definition E_BAD_DEPUTY : Z := 1112.
Definition E_NOT_BONDED : Z := 1115.
Definition E_DUP_INVALIDITY : Z := 1116.       (* added by C08-reject-repeated-invalidity *)
Definition E_OTHER : Z := 99.                  (* errors of staking / gnark, not registered in x/da *)

(* fx_zero / fx_distinct are the repairs of the C09 builder that reach into the payout code
   (notes/patches/C09-no-division-by-zero-challengers, C09-count-distinct-validators). *)
(* fx_range: negative proof index is an error instead of a panic (applied);
   fx_irange: SubmitInvalidity rejects indices outside [0, shards) (NOT applied: known finding). *)
Record fixes := Fx { fx_deadline : bool; fx_range : bool; fx_irange : bool; fx_dup : bool; fx_zero : bool; fx_distinct : bool }.
Definition repaired : fixes := Fx true true false true true true.
Definition with_range_check : fixes := Fx true true true true true true.
Definition legacy : fixes := Fx false false false false false false.

(* ---------- state ---------- *)
Record item := It { i_uri : Z; i_status : Z; i_ts : Z; i_n : Z; i_parity : Z; i_pub : Z;
                    i_pc : list Z;     (* publish collateral frozen at publication *)
                    i_ic : list Z }.   (* invalidity collateral frozen at publication *)
Record inval := Iv { v_uri : Z; v_sender : Z; v_idx : list Z }.
Record prf := Pf { p_uri : Z; p_val : Z; p_idx : list Z }.
Record params := Pm { pr_thr : Z; pr_rf : Z;                       (* raw LegacyDec *)
                      pr_cp : Z; pr_pp : Z; pr_rej : Z; pr_ver : Z;  (* durations, ns *)
                      pr_pc : list Z; pr_ic : list Z }.
Record dstate := St { s_prm : params; s_items : list item; s_invs : list inval;
                      s_prfs : list prf; s_deps : list (Z * Z) }.

Definition set_items (s : dstate) (x : list item) : dstate := St (s_prm s) x (s_invs s) (s_prfs s) (s_deps s).
Definition set_invs (s : dstate) (x : list inval) : dstate := St (s_prm s) (s_items s) x (s_prfs s) (s_deps s).
Definition set_prfs (s : dstate) (x : list prf) : dstate := St (s_prm s) (s_items s) (s_invs s) x (s_deps s).
Definition set_deps (s : dstate) (x : list (Z * Z)) : dstate := St (s_prm s) (s_items s) (s_invs s) (s_prfs s) x.
Definition set_status (it : item) (st now : Z) : item :=
  It (i_uri it) st now (i_n it) (i_parity it) (i_pub it) (i_pc it) (i_ic it).

(* ---------- ordered stores ---------- *)
Definition key := (Z * Z)%type.
Definition key_eqb (a b : key) : bool := (fst a =? fst b) && (snd a =? snd b).
Definition key_ltb (a b : key) : bool := (fst a <? fst b) || ((fst a =? fst b) && (snd a <? snd b)).
Fixpoint upsert {A} (kf : A -> key) (x : A) (l : list A) : list A :=
  match l with
  | [] => [x]
  | y :: l' => if key_eqb (kf y) (kf x) then x :: l'
               else if key_ltb (kf x) (kf y) then x :: y :: l'
               else y :: upsert kf x l'
  end.
Definition item_key (it : item) : key := (i_uri it, 0).
Definition inv_key (v : inval) : key := (v_uri v, v_sender v).
Definition prf_key (p : prf) : key := (p_uri p, p_val p).
Definition dep_key (d : Z * Z) : key := (fst d, 0).

Definition find_item (u : Z) (items : list item) : option item := find (fun it => i_uri it =? u) items.
Definition has_item (u : Z) (items : list item) : bool := existsb (fun it => i_uri it =? u) items.
Definition invs_of (u : Z) (invs : list inval) : list inval := filter (fun v => v_uri v =? u) invs.
Definition prfs_of (u : Z) (prfs : list prf) : list prf := filter (fun p => p_uri p =? u) prfs.
Definition has_inv (u a : Z) (invs : list inval) : bool := existsb (fun v => (v_uri v =? u) && (v_sender v =? a)) invs.
Fixpoint lookup (k : Z) (l : list (Z * Z)) : option Z :=
  match l with [] => None | (k', v) :: l' => if k' =? k then Some v else lookup k l' end.
Definition mem (x : Z) (l : list Z) : bool := existsb (Z.eqb x) l.

(* ---------- coins as vectors, bank sends ---------- *)
Fixpoint vadd (a b : list Z) : list Z :=
  match a, b with
  | [], _ => b
  | _, [] => a
  | x :: a', y :: b' => (x + y) :: vadd a' b'
  end.
Definition all_positive (v : list Z) : bool := existsb (fun x => 0 <? x) v.   (* Coins.IsAllPositive *)

(* subUnlockedCoins: coin after coin; an insufficient denom stops the loop and the denoms
   already debited stay debited (this only matters outside transactions, i.e. in EndBlock) *)
Fixpoint sub_vec (b : bank) (a d : Z) (v : list Z) : bank * bool :=
  match v with
  | [] => (b, true)
  | x :: v' =>
      if x =? 0 then sub_vec b a (d + 1) v'
      else if bal b a d <? x then (b, false)
      else sub_vec {| bal := upd2 (bal b) a d (bal b a d - x); sup := sup b |} a (d + 1) v'
  end.
Fixpoint add_vec (b : bank) (a d : Z) (v : list Z) : bank :=
  match v with
  | [] => b
  | x :: v' => add_vec {| bal := upd2 (bal b) a d (bal b a d + x); sup := sup b |} a (d + 1) v'
  end.
Definition send_vec (b : bank) (from to : Z) (v : list Z) : bank * bool :=
  let '(b1, ok) := sub_vec b from 0 v in
  if ok then (add_vec b1 to 0 v, true) else (b1, false).

(* ---------- messages ---------- *)
Inductive op :=
| OPublish (sender uri n parity : Z)
| OInval (sender uri : Z) (idx : list Z)
| OProof (sender val uri : Z) (idx : list Z) (orc : list (bool * bool)) (known bonded : bool)
| OReg (sender deputy : Z)
| OUnreg (sender : Z)
| OEndBlock.

Definition charge (b : bank) (sender : Z) (v : list Z) (s' : dstate) : res (dstate * bank) :=
  if all_positive v then
    match send_vec b sender MODULE v with
    | (b', true) => Ok (s', b')
    | (_, false) => Err E_INSUFFICIENT
    end
  else Ok (s', b).

Definition msg_publish (sender uri n parity now : Z) (s : dstate) (b : bank) : res (dstate * bank) :=
  if n <=? parity then Err E_PARITY
  else if has_item uri (s_items s) then Err E_EXISTS
  else
    let p := s_prm s in
    let it := It uri ST_CP now n parity sender (pr_pc p) (pr_ic p) in
    charge b sender (pr_pc p) (set_items s (upsert item_key it (s_items s))).

Definition idx_in_range (n i : Z) : bool := (0 <=? i) && (i <? n).

Definition msg_inval (fx : fixes) (sender uri : Z) (idx : list Z) (now : Z) (s : dstate) (b : bank)
  : res (dstate * bank) :=
  match idx with
  | [] => Err E_BAD_IDX
  | _ =>
    match find_item uri (s_items s) with
    | None => Err E_NOT_FOUND
    | Some it =>
      if negb (i_status it =? ST_CP) then Err E_NOT_CP
      else if fx_dup fx && has_inv uri sender (s_invs s) then Err E_DUP_INVALIDITY
      else if i_ts it + pr_cp (s_prm s) <? now then Err E_CP_OVER
      else if fx_irange fx && negb (forallb (idx_in_range (i_n it)) idx) then Err E_BAD_IDX
      else charge b sender (i_ic it) (set_invs s (upsert inv_key (Iv uri sender idx) (s_invs s)))
    end
  end.

(* the verification loop: parse, range test, verify, in this order per proof *)
Fixpoint check_proofs (fx : fixes) (n : Z) (idx : list Z) (orc : list (bool * bool)) : res unit :=
  match idx, orc with
  | j :: idx', (parse, ver) :: orc' =>
      if negb parse then Err E_OTHER
      else if n <=? j then Err E_IDX_OVERFLOW
      else if j <? 0 then (if fx_range fx then Err E_IDX_OVERFLOW else Panic)   (* slice index -1 *)
      else if negb ver then Err E_OTHER
      else check_proofs fx n idx' orc'
  | _, _ => Ok tt
  end.

Definition authorised (sender val : Z) (deps : list (Z * Z)) : res unit :=
  if sender =? val then Ok tt
  else match lookup val deps with
       | None => Err E_NO_DEPUTY
       | Some d => if d =? sender then Ok tt else Err E_BAD_DEPUTY
       end.

Definition msg_proof (fx : fixes) (sender val uri : Z) (idx : list Z) (orc : list (bool * bool))
           (known bonded : bool) (now : Z) (s : dstate) (b : bank) : res (dstate * bank) :=
  if negb known then Err E_OTHER
  else if negb bonded then Err E_NOT_BONDED
  else rbind (authorised sender val (s_deps s)) (fun _ =>
    if negb (Nat.eqb (length idx) (length orc)) then Err E_MISMATCH
    else match find_item uri (s_items s) with
         | None => Err E_NOT_FOUND
         | Some it =>
           if negb (i_status it =? ST_CH) then Err E_NOT_CH
           else if i_ts it + pr_pp (s_prm s) <? now then Err E_PP_OVER
           else rbind (check_proofs fx (i_n it) idx orc) (fun _ =>
                  Ok (set_prfs s (upsert prf_key (Pf uri val idx) (s_prfs s)), b))
         end).

Definition msg_reg (sender deputy : Z) (s : dstate) (b : bank) : res (dstate * bank) :=
  Ok (set_deps s (upsert dep_key (sender, deputy) (s_deps s)), b).
Definition msg_unreg (sender : Z) (s : dstate) (b : bank) : res (dstate * bank) :=
  match lookup sender (s_deps s) with
  | None => Err E_NO_DEPUTY
  | Some _ => Ok (set_deps s (filter (fun d => negb (fst d =? sender)) (s_deps s)), b)
  end.

(* ---------- EndBlocker ---------- *)
(* GetSpecificStatusDataBeforeTime: index key (status, unix(ts)) <= (status, unix(now - d)) *)
Definition in_index (st d now : Z) (it : item) : bool :=
  (i_status it =? st) && (unix (i_ts it) <=? unix (now - d)).
(* the guard added by C07-exact-deadlines: !ts.Add(d).After(now) *)
Definition expired (d now : Z) (it : item) : bool := negb (now <? i_ts it + d).
Definition due (fx : fixes) (st d now : Z) (it : item) : bool :=
  in_index st d now it && (negb (fx_deadline fx) || expired d now it).

(* walk order of the index: (unix(ts), uri) ascending *)
Definition idx_leb (a b : item) : bool :=
  (unix (i_ts a) <? unix (i_ts b)) || ((unix (i_ts a) =? unix (i_ts b)) && (i_uri a <=? i_uri b)).
Fixpoint ins_idx (x : item) (l : list item) : list item :=
  match l with
  | [] => [x]
  | y :: l' => if idx_leb x y then x :: l else y :: ins_idx x l'
  end.
Definition sort_idx (l : list item) : list item := fold_right ins_idx [] l.

Fixpoint map_opt {A B} (f : A -> option B) (l : list A) : option (list B) :=
  match l with
  | [] => Some []
  | x :: l' => match f x with
               | None => None
               | Some y => match map_opt f l' with None => None | Some r => Some (y :: r) end
               end
  end.

(* phase 3: ChangeToChallengingFromChallengePeriod *)
Definition disputed (u : Z) (invs : list inval) : list Z :=
  nodup Z.eq_dec (concat (map v_idx (invs_of u invs))).
Definition reaches (thr : Z) (it : item) (invs : list inval) : option bool :=
  match dmul_int thr (i_n it) with               (* thresholdDec.MulInt64(len(shards)), range-asserted *)
  | None => None
  | Some t => Some (t <=? dec_of_int (Z.of_nat (length (disputed (i_uri it) invs))))
  end.
Definition chal_one (now thr : Z) (invs : list inval) (it : item) : option item :=
  if i_status it =? ST_CP then
    match reaches thr it invs with
    | None => None
    | Some true => Some (set_status it ST_CH now)
    | Some false => Some it
    end
  else Some it.

(* phase 4: ChangeToVerifiedFromProofPeriod *)
Definition expire_one (fx : fixes) (cp now : Z) (it : item) : item :=
  if due fx ST_CP cp now it then set_status it ST_VER now else it.
Definition pay_expired (b : bank) (it : item) : bank := fst (send_vec b MODULE (i_pub it) (i_pc it)).

(* phase 5: TallyValidityProofs.  The verdict (safe shards) is the part of the tally owned by
   C09; it is written here exactly as the code computes it so that the step can be predicted, and
   every theorem about payouts quantifies over an arbitrary verdict. *)
Definition proof_count (fx : fixes) (i : Z) (pi : list prf) : Z :=
  fold_right (fun p acc => (if fx_distinct fx then (if mem i (p_idx p) then 1 else 0)
                            else Z.of_nat (count_occ Z.eq_dec (p_idx p) i)) + acc) 0 pi.
Definition safe_thr (rf n parity : Z) : option Z :=
  obind (dmul_int rf (n - parity)) (fun a =>
  obind (dquo_int a n) (fun r =>
  obind (dmul_int r 2) (fun c => dquo_int c 3))).
Definition safe_shards (fx : fixes) (rf : Z) (it : item) (pi : list prf) : option (list Z) :=
  let idxs := nodup Z.eq_dec (concat (map p_idx pi)) in
  match idxs with
  | [] => Some []
  | _ => if i_n it <? i_parity it then Some []
         else match safe_thr rf (i_n it) (i_parity it) with
              | None => None
              | Some t => Some (filter (fun i => t <=? dec_of_int (proof_count fx i pi)) idxs)
              end
  end.
Definition rejected (it : item) (safe : list Z) : bool :=
  Z.of_nat (length safe) + i_parity it <? i_n it.
Definition correct (v : inval) (safe : list Z) : bool := forallb (fun i => negb (mem i safe)) (v_idx v).

(* LegacyNewDecFromInt(a).QuoInt64(k).TruncateInt(); division by zero panics *)
Definition reward_amt (a k : Z) : option Z :=
  match dquo_int (dec_of_int a) k with None => None | Some q => Some (dtrunc_int q) end.
Definition reward_vec (fx : fixes) (pc : list Z) (k : Z) : option (list Z) :=
  if fx_zero fx && (k =? 0) then Some (map (fun _ => 0) pc)      (* guarded: nothing to divide *)
  else map_opt (fun a => if a =? 0 then Some 0 else reward_amt a k) pc.

Definition verdict := item -> list prf -> option (list Z).

(* would the tally of this item panic?  (verdict arithmetic, or zero challengers on rejection) *)
Definition tally_panics (fx : fixes) (vd : verdict) (invs : list inval) (prfs : list prf) (it : item) : bool :=
  match vd it (prfs_of (i_uri it) prfs) with
  | None => true
  | Some safe =>
      if rejected it safe then
        match reward_vec fx (i_pc it) (Z.of_nat (length (invs_of (i_uri it) invs))) with
        | None => true | Some _ => false end
      else false
  end.
Definition safe_of (vd : verdict) (prfs : list prf) (it : item) : list Z :=
  match vd it (prfs_of (i_uri it) prfs) with Some s => s | None => [] end.
Definition reward_of (fx : fixes) (it : item) (k : Z) : list Z :=
  match reward_vec fx (i_pc it) k with Some r => r | None => [] end.

Definition tally_one (fx : fixes) (vd : verdict) (pp now : Z) (prfs : list prf) (it : item) : item :=
  if due fx ST_CH pp now it then
    set_status it (if rejected it (safe_of vd prfs it) then ST_REJ else ST_VER) now
  else it.

(* payouts of one tallied item; returns the bank and whether the records were cleaned up *)
Definition pay_rejected (fx : fixes) (b : bank) (it : item) (vi : list inval) : bank :=
  let reward := reward_of fx it (Z.of_nat (length vi)) in
  fold_left (fun b v => fst (send_vec b MODULE (v_sender v) (vadd (i_ic it) reward))) vi b.
Definition pay_verified (b : bank) (it : item) (vi : list inval) (safe : list Z) : bank * bool :=
  let '(b1, refund) :=
    fold_left (fun '(b, r) v =>
                 if correct v safe then (fst (send_vec b MODULE (v_sender v) (i_ic it)), r)
                 else (b, vadd r (i_ic it))) vi (b, i_pc it) in
  send_vec b1 MODULE (i_pub it) refund.
Definition pay_tally (fx : fixes) (vd : verdict) (invs : list inval) (prfs : list prf)
           (st : bank * list Z) (it : item) : bank * list Z :=
  let '(b, cleaned) := st in
  let vi := invs_of (i_uri it) invs in
  let safe := safe_of vd prfs it in
  if rejected it safe then (pay_rejected fx b it vi, i_uri it :: cleaned)
  else let '(b', ok) := pay_verified b it vi safe in
       (b', if ok then i_uri it :: cleaned else cleaned).   (* a failed publisher send skips the cleanup *)

Definition end_block (fx : fixes) (vd : verdict) (now : Z) (s : dstate) (b : bank) : res (dstate * bank) :=
  let p := s_prm s in
  (* 1, 2: DeleteRejectedDataOvertime, DeleteVerifiedDataOvertime *)
  let items1 := filter (fun it => negb (due fx ST_REJ (pr_rej p) now it)) (s_items s) in
  let items2 := filter (fun it => negb (due fx ST_VER (pr_ver p) now it)) items1 in
  (* 3 *)
  match map_opt (chal_one now (pr_thr p) (s_invs s)) items2 with
  | None => Panic
  | Some items3 =>
    (* 4 *)
    let items4 := map (expire_one fx (pr_cp p) now) items3 in
    let b4 := fold_left pay_expired (sort_idx (filter (due fx ST_CP (pr_cp p) now) items3)) b in
    (* 5 *)
    let dueL := sort_idx (filter (due fx ST_CH (pr_pp p) now) items4) in
    if existsb (tally_panics fx vd (s_invs s) (s_prfs s)) dueL then Panic
    else
      let items5 := map (tally_one fx vd (pr_pp p) now (s_prfs s)) items4 in
      let '(b5, cleaned) := fold_left (pay_tally fx vd (s_invs s) (s_prfs s)) dueL (b4, []) in
      Ok (St p items5
             (filter (fun v => negb (mem (v_uri v) cleaned)) (s_invs s))
             (filter (fun q => negb (mem (p_uri q) cleaned)) (s_prfs s))
             (s_deps s), b5)
  end.

Definition code_verdict (fx : fixes) (rf : Z) : verdict := safe_shards fx rf.

(* one operation; messages are transactions (an error or panic leaves the state unchanged) *)
Definition step (fx : fixes) (o : op) (now : Z) (s : dstate) (b : bank) : res (dstate * bank) :=
  match o with
  | OPublish sender uri n parity => msg_publish sender uri n parity now s b
  | OInval sender uri idx => msg_inval fx sender uri idx now s b
  | OProof sender val uri idx orc known bonded => msg_proof fx sender val uri idx orc known bonded now s b
  | OReg sender deputy => msg_reg sender deputy s b
  | OUnreg sender => msg_unreg sender s b
  | OEndBlock => end_block fx (code_verdict fx (pr_rf (s_prm s))) now s b
  end.

Definition is_msg (o : op) : bool := match o with OEndBlock => false | _ => true end.

(* state after the step as the application sees it, and the result class
   (0 ok, -1 panic, otherwise the error code) *)
Definition apply_step (fx : fixes) (o : op) (now : Z) (s : dstate) (b : bank) : dstate * bank * Z :=
  match step fx o now s b with
  | Ok (s', b') => (s', b', 0)
  | Err e => (s, b, e)
  | Panic => (s, b, -1)
  end.

(* ---------- observations (shared by C07Check / C08Check) ---------- *)
Inductive da_case :=
| Case (pre : dstate) (preb : list (list Z)) (o : op) (now : Z) (result : Z)
       (post : dstate) (postb : list (list Z)).

Definition bank_of (rows : list (list Z)) : bank :=
  {| bal := fun a d => if (a <? 0) || (d <? 0) then 0
                       else nth (Z.to_nat d) (nth (Z.to_nat a) rows []) 0;
     sup := fun _ => 0 |}.
Fixpoint zrange (k : nat) (from : Z) : list Z :=
  match k with O => [] | S k' => from :: zrange k' (from + 1) end.
Definition view (rows : list (list Z)) (b : bank) : list (list Z) :=
  map (fun a => map (fun d => bal b a d) (zrange (length (nth (Z.to_nat a) rows [])) 0))
      (zrange (length rows) 0).

(* boolean equalities for the comparison of projections *)
Fixpoint list_eqb {A} (e : A -> A -> bool) (a b : list A) : bool :=
  match a, b with
  | [], [] => true
  | x :: a', y :: b' => e x y && list_eqb e a' b'
  | _, _ => false
  end.
Definition zl_eqb := list_eqb Z.eqb.
Definition item_eqb (a b : item) : bool :=
  (i_uri a =? i_uri b) && (i_status a =? i_status b) && (i_ts a =? i_ts b) && (i_n a =? i_n b) &&
  (i_parity a =? i_parity b) && (i_pub a =? i_pub b) && zl_eqb (i_pc a) (i_pc b) && zl_eqb (i_ic a) (i_ic b).
Definition inval_eqb (a b : inval) : bool :=
  (v_uri a =? v_uri b) && (v_sender a =? v_sender b) && zl_eqb (v_idx a) (v_idx b).
Definition prf_eqb (a b : prf) : bool :=
  (p_uri a =? p_uri b) && (p_val a =? p_val b) && zl_eqb (p_idx a) (p_idx b).
Definition params_eqb (a b : params) : bool :=
  (pr_thr a =? pr_thr b) && (pr_rf a =? pr_rf b) && (pr_cp a =? pr_cp b) && (pr_pp a =? pr_pp b) &&
  (pr_rej a =? pr_rej b) && (pr_ver a =? pr_ver b) && zl_eqb (pr_pc a) (pr_pc b) && zl_eqb (pr_ic a) (pr_ic b).
Definition dstate_eqb (a b : dstate) : bool :=
  params_eqb (s_prm a) (s_prm b) && list_eqb item_eqb (s_items a) (s_items b) &&
  list_eqb inval_eqb (s_invs a) (s_invs b) && list_eqb prf_eqb (s_prfs a) (s_prfs b) &&
  list_eqb (fun x y => (fst x =? fst y) && (snd x =? snd y)) (s_deps a) (s_deps b).

(* the correspondence: model prediction = observation (result class, x/da projection, balances) *)
Definition corr_state (c : da_case) : bool :=
  let '(Case pre preb o now r post postb) := c in
  let '(s', _, r') := apply_step repaired o now pre (bank_of preb) in
  (r' =? r) && dstate_eqb s' post.
Definition corr_bank (c : da_case) : bool :=
  let '(Case pre preb o now r post postb) := c in
  let '(_, b', _) := apply_step repaired o now pre (bank_of preb) in
  list_eqb zl_eqb (view postb b') postb.
