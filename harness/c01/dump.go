package c01

import (
	"encoding/binary"
	"fmt"
	"math/big"
	"sort"
	"strings"
	"time"

	sdkmath "cosmossdk.io/math"
	abci "github.com/cometbft/cometbft/abci/types"
	sdk "github.com/cosmos/cosmos-sdk/types"

	datypes "github.com/sunriselayer/sunrise/x/da/types"
	litypes "github.com/sunriselayer/sunrise/x/liquidityincentive/types"
	lptypes "github.com/sunriselayer/sunrise/x/liquiditypool/types"
	sctypes "github.com/sunriselayer/sunrise/x/shareclass/types"

	"verifharness/emit"
)

// denoms of the DA collateral vectors (the generator only uses these)
var daDenoms = []string{"urise", "uusdc"}

func raw(d sdkmath.LegacyDec) *big.Int { return d.BigInt() }
func decRaw(s string) *big.Int         { return decRawOr(s) } // a stored string that does not parse reads as 0 here (the model is told separately)
func decOpt(s string) string {
	d, err := sdkmath.LegacyNewDecFromStr(s)
	if err != nil {
		return "None"
	}
	return emit.Some(emit.Z(d.BigInt()))
}
func pair(a, b string) string { return "(" + a + ", " + b + ")" }

// ---------------------------------------------------------------- principals (DA, tallies)

// pid: 0 = da module account, accounts 1.., then the account addresses of genesis validators
func (w *world) pid(addr sdk.AccAddress) int64 {
	if addr.Equals(w.daMod) {
		return 0
	}
	for i, a := range w.h.Accts {
		if a.Addr.Equals(addr) {
			return int64(1 + i)
		}
	}
	for i, v := range w.genValAccs {
		if v.Equals(addr) {
			return int64(1 + len(w.h.Accts) + i)
		}
	}
	return 900 // nobody the model keeps a balance for
}

func (w *world) npids() int { return 1 + len(w.h.Accts) + len(w.genValAccs) }

func (w *world) pidAddr(id int) sdk.AccAddress {
	switch {
	case id == 0:
		return w.daMod
	case id <= len(w.h.Accts):
		return w.h.Accts[id-1].Addr
	default:
		return w.genValAccs[id-1-len(w.h.Accts)]
	}
}

func coinVec(c sdk.Coins) string {
	out := make([]string, len(daDenoms))
	for i, d := range daDenoms {
		out[i] = emit.Z(c.AmountOf(d).BigInt())
	}
	for _, coin := range c {
		known := false
		for _, d := range daDenoms {
			known = known || d == coin.Denom
		}
		if !known {
			panic("untracked collateral denom " + coin.Denom)
		}
	}
	return emit.List(out)
}

func zs64(xs []int64) string {
	out := make([]string, len(xs))
	for i, x := range xs {
		out[i] = emit.ZI(x)
	}
	return emit.List(out)
}

// ---------------------------------------------------------------- DA

type daDump struct {
	term     string // da_in
	statuses [][2]int64
	due      int // items whose deadline (cp / pp / retention) is <= the block time
	near     int // items with a deadline within 1 s of the block time
	nItems   int
}

func (w *world) uriID(u string) int64 {
	if id, ok := w.uriIDs[u]; ok {
		return id
	}
	return 999999
}

func (w *world) daStatuses(ctx sdk.Context) [][2]int64 {
	items, err := w.h.App.DaKeeper.GetAllPublishedData(ctx)
	if err != nil {
		panic(err)
	}
	var out [][2]int64
	for _, d := range items {
		out = append(out, [2]int64{w.uriID(d.MetadataUri), int64(d.Status)})
	}
	sort.Slice(out, func(i, j int) bool { return out[i][0] < out[j][0] })
	return out
}

func (w *world) dumpDA(ctx sdk.Context, now time.Time) daDump {
	k := w.h.App.DaKeeper
	p, err := k.Params.Get(ctx)
	if err != nil {
		panic(err)
	}
	var dd daDump
	prm := fmt.Sprintf("(Da.Pm %s %s %d %d %d %d %s %s)", emit.Z(decRaw(p.ChallengeThreshold)), emit.Z(decRaw(p.ReplicationFactor)),
		int64(p.ChallengePeriod), int64(p.ProofPeriod), int64(p.RejectedRemovalPeriod), int64(p.VerifiedRemovalPeriod),
		coinVec(p.PublishDataCollateral), coinVec(p.SubmitInvalidityCollateral))
	items, err := k.GetAllPublishedData(ctx)
	if err != nil {
		panic(err)
	}
	sort.Slice(items, func(i, j int) bool { return w.uriID(items[i].MetadataUri) < w.uriID(items[j].MetadataUri) })
	var its []string
	for _, d := range items {
		its = append(its, fmt.Sprintf("Da.It %d %d %d %d %d %d %s %s", w.uriID(d.MetadataUri), int(d.Status), d.Timestamp.UnixNano(),
			len(d.ShardDoubleHashes), d.ParityShardCount, w.pid(sdk.MustAccAddressFromBech32(d.Publisher)),
			coinVec(d.PublishDataCollateral), coinVec(d.SubmitInvalidityCollateral)))
		var dl time.Time
		switch d.Status {
		case datypes.Status_STATUS_CHALLENGE_PERIOD:
			dl = d.Timestamp.Add(p.ChallengePeriod)
		case datypes.Status_STATUS_CHALLENGING:
			dl = d.Timestamp.Add(p.ProofPeriod)
		case datypes.Status_STATUS_VERIFIED:
			dl = d.Timestamp.Add(p.VerifiedRemovalPeriod)
		case datypes.Status_STATUS_REJECTED:
			dl = d.Timestamp.Add(p.RejectedRemovalPeriod)
		}
		if !dl.After(now) {
			dd.due++
		}
		if diff := now.Sub(dl); diff > -time.Second && diff < time.Second {
			dd.near++
		}
	}
	dd.nItems = len(items)
	invs, err := k.GetAllInvalidities(ctx)
	if err != nil {
		panic(err)
	}
	type ivT struct {
		u, s int64
		idx  []int64
	}
	var ivs []ivT
	for _, v := range invs {
		ivs = append(ivs, ivT{w.uriID(v.MetadataUri), w.pid(sdk.MustAccAddressFromBech32(v.Sender)), v.Indices})
	}
	sort.Slice(ivs, func(i, j int) bool {
		if ivs[i].u != ivs[j].u {
			return ivs[i].u < ivs[j].u
		}
		return ivs[i].s < ivs[j].s
	})
	var ivt []string
	for _, v := range ivs {
		ivt = append(ivt, fmt.Sprintf("Da.Iv %d %d %s", v.u, v.s, zs64(v.idx)))
	}
	prfs, err := k.GetAllProofs(ctx)
	if err != nil {
		panic(err)
	}
	var pfs []ivT
	for _, v := range prfs {
		pfs = append(pfs, ivT{w.uriID(v.MetadataUri), w.pid(sdk.MustAccAddressFromBech32(v.Sender)), v.Indices})
	}
	sort.Slice(pfs, func(i, j int) bool {
		if pfs[i].u != pfs[j].u {
			return pfs[i].u < pfs[j].u
		}
		return pfs[i].s < pfs[j].s
	})
	var pft []string
	for _, v := range pfs {
		pft = append(pft, fmt.Sprintf("Da.Pf %d %d %s", v.u, v.s, zs64(v.idx)))
	}
	st := fmt.Sprintf("(Da.St %s %s %s %s [])", prm, emit.List(its), emit.List(ivt), emit.List(pft))
	// balances of the principals
	var rows []string
	for id := 0; id < w.npids(); id++ {
		row := make([]string, len(daDenoms))
		for j, d := range daDenoms {
			row[j] = emit.Z(w.h.Bal(ctx, w.pidAddr(id), d).BigInt())
		}
		rows = append(rows, emit.List(row))
	}
	nact := 0
	vs, err := w.h.App.StakingKeeper.GetBondedValidatorsByPower(ctx)
	if err != nil {
		panic(err)
	}
	nact = len(vs)
	dd.term = fmt.Sprintf("{| di_state := %s; di_bank := Da.bank_of %s; di_nact := %d; di_sft := %s; di_sfr := %s; di_cc := %d; di_slash_epoch := %d |}",
		st, emit.List(rows), nact, emit.Z(decRaw(p.SlashFaultThreshold)), decOpt(p.SlashFraction), k.GetChallengeCounter(ctx), p.SlashEpoch)
	return dd
}

// ---------------------------------------------------------------- liquidityincentive

func (w *world) poolStatus(ctx sdk.Context, id uint64) string {
	p, found, err := w.h.App.LiquiditypoolKeeper.GetPool(ctx, id)
	if err != nil || !found || !p.HasPosition(ctx) {
		return "Gauge.PoolErr"
	}
	liq, err := sdkmath.LegacyNewDecFromStr(p.CurrentTickLiquidity)
	if err != nil {
		return "Gauge.PoolErr"
	}
	if liq.IsZero() {
		return "Gauge.PoolZeroLiq"
	}
	return "Gauge.PoolOk"
}

func gaugeTerm(g litypes.Gauge) string {
	return fmt.Sprintf("Gauge.Build_gauge %d %d %s", g.PreviousEpochId, g.PoolId, emit.Z(g.Count.BigInt()))
}
func gaugesTerm(gs []litypes.Gauge) string {
	ts := make([]string, len(gs))
	for i, g := range gs {
		ts[i] = gaugeTerm(g)
	}
	return emit.List(ts)
}

type liDump struct {
	istate   string
	statusFn string
	last     *litypes.Epoch
	nGauges  int
	zeroLiq  int
	allZero  bool // the last epoch has gauges and every count is zero
	epochs   [][3]int64
}

func (w *world) epochsOf(ctx sdk.Context) [][3]int64 {
	es, err := w.h.App.LiquidityincentiveKeeper.GetAllEpoch(ctx)
	if err != nil {
		panic(err)
	}
	var out [][3]int64
	for _, e := range es {
		out = append(out, [3]int64{int64(e.Id), e.StartBlock, e.EndBlock})
	}
	return out
}

func (w *world) dumpLI(ctx sdk.Context) liDump {
	k := w.h.App.LiquidityincentiveKeeper
	es, err := k.GetAllEpoch(ctx)
	if err != nil {
		panic(err)
	}
	gs, err := k.GetAllGauges(ctx)
	if err != nil {
		panic(err)
	}
	var d liDump
	ets := make([]string, len(es))
	for i, e := range es {
		ets[i] = fmt.Sprintf("Gauge.Build_epoch %d %d %d %s", e.Id, e.StartBlock, e.EndBlock, gaugesTerm(e.Gauges))
	}
	d.istate = fmt.Sprintf("(Gauge.Build_istate %s %s)", emit.List(ets), gaugesTerm(gs))
	s := "Gauge.PoolErr"
	if len(es) > 0 {
		last := es[len(es)-1]
		d.last = &last
		d.nGauges = len(last.Gauges)
		d.allZero = len(last.Gauges) > 0
		for _, g := range last.Gauges {
			if !g.Count.IsZero() {
				d.allZero = false
			}
		}
		seen := map[uint64]bool{}
		for _, g := range last.Gauges {
			if seen[g.PoolId] {
				continue
			}
			seen[g.PoolId] = true
			ps := w.poolStatus(ctx, g.PoolId)
			if ps == "Gauge.PoolZeroLiq" {
				d.zeroLiq++
			}
			s = fmt.Sprintf("if p =? %d then %s else %s", g.PoolId, ps, s)
		}
	}
	d.statusFn = "(fun p => " + s + ")"
	d.epochs = w.epochsOf(ctx)
	return d
}

// graph dumps what Keeper.Tally reads: bonded validators, gauge votes with the voters' delegations
func (w *world) dumpGraph(ctx sdk.Context) (vals, ballots string, bonded sdkmath.Int) {
	sk := w.h.App.StakingKeeper
	var vt []string
	if err := sk.IterateBondedValidatorsByPower(ctx, func(_ int64, v sdk.ValidatorI) bool {
		bz, err := sk.ValidatorAddressCodec().StringToBytes(v.GetOperator())
		if err != nil {
			panic(err)
		}
		vt = append(vt, fmt.Sprintf("{| v_id := %d; v_tok := %s; v_sh := %s |}", w.gid(bz), emit.Z(v.GetBondedTokens().BigInt()), emit.Z(raw(v.GetDelegatorShares()))))
		return false
	}); err != nil {
		panic(err)
	}
	votes, err := w.h.App.LiquidityincentiveKeeper.GetAllVotes(ctx)
	if err != nil {
		panic(err)
	}
	var bt []string
	for _, vote := range votes {
		voter := sdk.MustAccAddressFromBech32(vote.Sender)
		var ws []string
		for _, pw := range vote.PoolWeights {
			wd, err := sdkmath.LegacyNewDecFromStr(pw.Weight)
			if err != nil {
				panic(err)
			}
			ws = append(ws, pair(fmt.Sprint(pw.PoolId), emit.Z(raw(wd))))
		}
		var dt []string
		if err := sk.IterateDelegations(ctx, voter, func(_ int64, d sdk.DelegationI) bool {
			bz, err := sk.ValidatorAddressCodec().StringToBytes(d.GetValidatorAddr())
			if err != nil {
				panic(err)
			}
			dt = append(dt, pair(emit.ZI(w.gid(bz)), emit.Z(raw(d.GetShares()))))
			return false
		}); err != nil {
			panic(err)
		}
		bt = append(bt, fmt.Sprintf("{| b_voter := %d; b_w := %s; b_dels := %s |}", w.gid(voter), emit.List(ws), emit.List(dt)))
	}
	bonded, err = sk.TotalBondedTokens(ctx)
	if err != nil {
		panic(err)
	}
	return emit.List(vt), emit.List(bt), bonded
}

// gid: ids of the staking graph (an operator and its account share one id, as in the keeper
// where both are the same bytes)
func (w *world) gid(addr []byte) int64 {
	k := string(addr)
	if id, ok := w.gids[k]; ok {
		return id
	}
	id := int64(len(w.gids) + 1)
	w.gids[k] = id
	return id
}

// ---------------------------------------------------------------- mint

type mintDump struct {
	term  string // option mint_in
	fires bool
	last  uint64
	has   bool
}

func (w *world) minterData(ctx sdk.Context) (uint64, bool) {
	m, err := w.h.App.MintKeeper.Minter.Get(ctx)
	if err != nil {
		panic(err)
	}
	if m.Data == nil {
		return 0, false
	}
	return binary.BigEndian.Uint64(m.Data), true
}

func (w *world) dumpMint(ctx sdk.Context, now time.Time) mintDump {
	var d mintDump
	ei, err := w.h.App.EpochsKeeper.EpochInfo.Get(ctx, "minute")
	if err != nil {
		return mintDump{term: "None"}
	}
	if now.Before(ei.StartTime) {
		return mintDump{term: "None"}
	}
	d.fires = !ei.EpochCountingStarted || now.After(ei.CurrentEpochStartTime.Add(ei.Duration))
	d.last, d.has = w.minterData(ctx)
	if !d.fires {
		d.term = "None"
		return d
	}
	lp, err := w.h.App.LiquidityincentiveKeeper.Params.Get(ctx)
	if err != nil {
		panic(err)
	}
	last := "None"
	if d.has {
		last = emit.Some(emit.Z(new(big.Int).SetUint64(d.last)))
	}
	d.term = fmt.Sprintf("(Some {| mi_fee_supply := %s; mi_bond_supply := %s; mi_last := %s; mi_now_ns := %d; mi_ratio := %s |})",
		emit.Z(w.h.Supply(ctx, fee).BigInt()), emit.Z(w.h.Supply(ctx, bond).BigInt()), last, now.UnixNano(), emit.Z(decRaw(lp.StakingRewardRatio)))
	return d
}

// minted sums the coins minted by the mint module in the block's begin/end events
func (w *world) minted(evs []abci.Event) (feeAmt, bondAmt *big.Int) {
	feeAmt, bondAmt = big.NewInt(0), big.NewInt(0)
	mintAddr := w.h.App.AuthKeeper.GetModuleAddress("mint").String()
	for _, ev := range evs {
		if ev.Type != "coinbase" {
			continue
		}
		minter, amt := "", ""
		for _, a := range ev.Attributes {
			switch a.Key {
			case "minter":
				minter = a.Value
			case "amount":
				amt = a.Value
			}
		}
		if minter != mintAddr || amt == "" {
			continue
		}
		cs, err := sdk.ParseCoinsNormalized(amt)
		if err != nil {
			panic(err)
		}
		feeAmt.Add(feeAmt, cs.AmountOf(fee).BigInt())
		bondAmt.Add(bondAmt, cs.AmountOf(bond).BigInt())
	}
	return
}

// ---------------------------------------------------------------- share class

type scDump struct {
	term      string
	ids       []int64
	due       int // entries completing at or before the block time
	sameSec   int // entries of the current second completing later than the block time
	released  *big.Int
	owed      *big.Int
	blocked   int // entries whose recipient is a blocked address
	slashLoss *big.Int
}

type scEntry struct {
	id   uint64
	u    sctypes.Unbonding
	unix int64
}

func (w *world) scQueue(ctx sdk.Context) []scEntry {
	var q []scEntry
	err := w.h.App.ShareclassKeeper.Unbondings.Walk(ctx, nil, func(id uint64, u sctypes.Unbonding) (bool, error) {
		q = append(q, scEntry{id: id, u: u, unix: u.CompletionTime.Unix()})
		return false, nil
	})
	if err != nil {
		panic(err)
	}
	// order of the completion-time index: (unix seconds, id)
	sort.Slice(q, func(i, j int) bool {
		if q[i].unix != q[j].unix {
			return q[i].unix < q[j].unix
		}
		return q[i].id < q[j].id
	})
	return q
}

func (w *world) dumpSC(ctx sdk.Context, now time.Time) scDump {
	var d scDump
	d.released, d.owed = big.NewInt(0), big.NewInt(0)
	var ts, blocked []string
	for _, e := range w.scQueue(ctx) {
		if w.h.App.BankKeeper.BlockedAddr(sdk.MustAccAddressFromBech32(e.u.Address)) {
			blocked = append(blocked, fmt.Sprint(e.id))
			d.blocked++
		}
		ts = append(ts, fmt.Sprintf("ShareClass.mkUnb %d %d %d %s", e.id, w.pid(sdk.MustAccAddressFromBech32(e.u.Address)), e.u.CompletionTime.UnixNano(), emit.Z(e.u.Amount.Amount.BigInt())))
		d.ids = append(d.ids, int64(e.id))
		if !e.u.CompletionTime.After(now) {
			d.due++
			d.owed.Add(d.owed, e.u.Amount.Amount.BigInt())
		} else if e.u.CompletionTime.Unix() == now.Unix() {
			d.sameSec++
		}
	}
	// what x/staking's end blocker will release to the module account in this block
	var stTimes []string
	loss := big.NewInt(0)
	for _, v := range w.vals {
		ubd, err := w.h.App.StakingKeeper.GetUnbondingDelegation(ctx, w.mod, v.Bytes)
		if err != nil {
			continue
		}
		for _, e := range ubd.Entries {
			stTimes = append(stTimes, fmt.Sprint(e.CompletionTime.UnixNano()))
			if !e.CompletionTime.After(now) {
				d.released.Add(d.released, e.Balance.BigInt())
				loss.Add(loss, new(big.Int).Sub(e.InitialBalance.BigInt(), e.Balance.BigInt()))
			}
		}
	}
	d.slashLoss = loss
	d.term = fmt.Sprintf("{| sc_queue := %s; sc_mod_bond := %s; sc_released := %s; sc_staking_times := %s; sc_slash_loss := %s; sc_blocked := %s |}", emit.List(ts),
		emit.Z(w.h.Bal(ctx, w.mod, bond).BigInt()), emit.Z(d.released), emit.List(stTimes), emit.Z(loss), emit.List(blocked))
	return d
}

func (w *world) scIDs(ctx sdk.Context) []int64 {
	var ids []int64
	for _, e := range w.scQueue(ctx) {
		ids = append(ids, int64(e.id))
	}
	return ids
}

// ---------------------------------------------------------------- pre-blocker

func (w *world) rawTerm(bz []byte) string {
	split := string(bz) == "METADATA"
	uri := "None"
	var m datypes.MetadataUriWrapper
	if err := m.Unmarshal(bz); err == nil && m.MetadataUri != "" {
		uri = emit.Some(emit.ZI(w.uriID(m.MetadataUri)))
	}
	return fmt.Sprintf("{| rt_splitter := %s; rt_uri := %s |}", emit.Bool(split), uri)
}

func (w *world) pds(ctx sdk.Context) [][2]int64 {
	items, err := w.h.App.DaKeeper.GetAllPublishedData(ctx)
	if err != nil {
		panic(err)
	}
	var out [][2]int64
	for _, d := range items {
		out = append(out, [2]int64{w.uriID(d.MetadataUri), d.VerifiedHeight})
	}
	// store order = key order of the metadata uri strings
	sort.Slice(out, func(i, j int) bool { return out[i][0] < out[j][0] })
	return out
}

func pdsTerm(p [][2]int64) string {
	ts := make([]string, len(p))
	for i, x := range p {
		ts[i] = fmt.Sprintf("{| pd_uri := %d; pd_verified_height := %d |}", x[0], x[1])
	}
	return emit.List(ts)
}

func pairsTerm(p [][2]int64) string {
	ts := make([]string, len(p))
	for i, x := range p {
		ts[i] = fmt.Sprintf("(%d, %d)", x[0], x[1])
	}
	return emit.List(ts)
}

func triplesTerm(p [][3]int64) string {
	ts := make([]string, len(p))
	for i, x := range p {
		ts[i] = fmt.Sprintf("(%d, %d, %d)", x[0], x[1], x[2])
	}
	return emit.List(ts)
}

func (w *world) feesBal(ctx sdk.Context, pool uint64) sdkmath.Int {
	return w.h.Bal(ctx, lptypes.NewPoolFeesAddress(pool), bond)
}

var _ = strings.Join
