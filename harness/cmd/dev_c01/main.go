// dev_c01: a harness binary containing only package c01 (fast, isolated iteration).
package main

import (
	"flag"
	"fmt"
	"os"

	"verifharness/c01"
)

func main() {
	fs := flag.NewFlagSet("c01", flag.ExitOnError)
	seed := fs.Int64("seed", 1, "PRNG seed")
	n := fs.Int("n", 100, "number of generated cases")
	out := fs.String("out", ".", "output directory")
	if len(os.Args) > 2 && os.Args[1] == "spike" {
		if err := c01.Spike(os.Args[2]); err != nil {
			fmt.Println("SPIKE-ERROR", err)
			os.Exit(3)
		}
		return
	}
	if len(os.Args) > 1 && os.Args[1] == "c01" {
		fs.Parse(os.Args[2:])
	} else {
		fs.Parse(os.Args[1:])
	}
	if err := os.MkdirAll(*out, 0o755); err != nil {
		panic(err)
	}
	if err := c01.Run(*seed, *n, *out); err != nil {
		fmt.Println("HARNESS-ERROR", err)
		os.Exit(3)
	}
}
