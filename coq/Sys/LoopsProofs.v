(* C01: termination bounds and divergence witnesses for the unmetered loops (Sys/Loops.v). *)
From Coq Require Import ZArith Bool List Lia ZifyBool.
Import ListNotations.
From Sunrise Require Import Base.Outcome Base.Dec Base.DecLemmas Amm.Math Amm.Pool Sys.Loops.
Local Open Scope Z_scope.
Ltac Zify.zify_post_hook ::= Z.div_mod_to_equations.

(* ------------------------------------------------------------------ the unguarded loops are Math.v's *)
Lemma search_up_g_false fuel : forall mp offset ratio t,
  search_up_g false fuel mp offset ratio t = search_up fuel mp offset ratio t.
Proof.
  induction fuel as [|f IH]; intros; cbn [search_up_g search_up]; [reflexivity|].
  destruct (mp <=? offset); [reflexivity|].
  destruct (dquo mp ratio) as [mp'|]; cbn; [apply IH|reflexivity].
Qed.
Lemma search_down_g_false fuel : forall mp offset ratio t,
  search_down_g false fuel mp offset ratio t = search_down fuel mp offset ratio t.
Proof.
  induction fuel as [|f IH]; intros; cbn [search_down_g search_down]; [reflexivity|].
  destruct (offset <=? mp); [reflexivity|].
  destruct (dmul mp ratio) as [mp'|]; cbn; [apply IH|reflexivity].
Qed.
Lemma multiplied_price_to_tick_g_false mp tp :
  multiplied_price_to_tick_g false SEARCH_FUEL mp tp = multiplied_price_to_tick mp tp.
Proof.
  unfold multiplied_price_to_tick_g, multiplied_price_to_tick.
  destruct (mp <? 0); [reflexivity|].
  destruct ((MAX_MULT_SPOT <? mp) || (mp <? MIN_MULT_SPOT)); [reflexivity|].
  destruct (lift_pow (pow (price_ratio tp) (base_offset tp))) as [pw| |]; cbn; try reflexivity.
  destruct (of_opt (dmul MULT pw)) as [o| |]; cbn; try reflexivity.
  destruct (mp =? o); [reflexivity|].
  destruct (o <? mp); [apply search_up_g_false|apply search_down_g_false].
Qed.

(* ------------------------------------------------------------------ one step of each search *)
Lemma dquo_step mp ratio mp' : 0 <= mp -> 0 < ratio -> dquo mp ratio = Some mp' ->
  2 * mp' * ratio <= 2 * mp * P + ratio /\ mp * P - ratio <= mp' * ratio /\ 0 <= mp'.
Proof.
  intros Hmp Hr H. unfold dquo in H.
  destruct (Z.eqb_spec ratio 0); [lia|]. apply chk_some in H. destruct H as [-> _].
  assert (Hn : 0 <= mp * (P * P)) by (unfold P; nia).
  rewrite Z.quot_div_nonneg by lia.
  set (q := mp * (P * P) / ratio).
  assert (Hq : q * ratio <= mp * (P * P) < q * ratio + ratio).
  { unfold q. pose proof (Z.div_mod (mp * (P * P)) ratio ltac:(lia)).
    pose proof (Z.mod_pos_bound (mp * (P * P)) ratio Hr). nia. }
  assert (Hq0 : 0 <= q) by (unfold q; apply Z.div_pos; lia).
  pose proof (chop_round_bracket q) as Hc. pose proof (chop_round_nonneg q Hq0) as Hc0.
  set (r := chop_round q) in *.
  assert (HP : P = 2 * HALF) by reflexivity.
  repeat split; try assumption.
  - (* r*P <= q + HALF ; q*ratio <= mp*P^2 *)
    assert (r * P * ratio <= (q + HALF) * ratio) by (apply Z.mul_le_mono_nonneg_r; lia).
    assert (2 * r * ratio * P <= 2 * mp * P * P + ratio * P) by nia.
    assert (0 < P) by reflexivity. nia.
  - assert ((q - HALF) * ratio <= r * P * ratio) by (apply Z.mul_le_mono_nonneg_r; lia).
    assert (mp * P * P - ratio - HALF * ratio < r * ratio * P) by nia.
    assert (0 < P) by reflexivity.
    assert (HH : HALF + 1 <= P) by (unfold HALF, P; lia).
    assert (mp * P * P - ratio * P < r * ratio * P) by nia.
    nia.
Qed.

Lemma dmul_step mp ratio mp' : 0 <= mp -> 0 < ratio -> dmul mp ratio = Some mp' ->
  2 * mp * ratio - P <= 2 * mp' * P /\ 2 * mp' * P <= 2 * mp * ratio + P /\ 0 <= mp'.
Proof.
  intros Hmp Hr H. pose proof (dmul_bracket _ _ _ H) as Hb.
  pose proof (dmul_nonneg _ _ _ Hmp ltac:(lia) H).
  assert (HP : P = 2 * HALF) by reflexivity. lia.
Qed.

(* potentials: Phi x = 2*d*x - ratio (upwards), Psi x = 2*d*x - P (downwards), d = ratio - P *)
Definition Phi (ratio x : Z) : Z := 2 * (ratio - P) * x - ratio.
Definition Psi (ratio x : Z) : Z := 2 * (ratio - P) * x - P.

Lemma Phi_step mp ratio mp' : 0 <= mp -> P <= ratio -> dquo mp ratio = Some mp' ->
  Phi ratio mp' * ratio <= Phi ratio mp * P.
Proof.
  intros Hmp Hr H. assert (0 < P) by reflexivity.
  destruct (dquo_step mp ratio mp' Hmp ltac:(lia) H) as (Hu & _ & _).
  unfold Phi. set (d := ratio - P). assert (0 <= d) by (unfold d; lia).
  assert (d * (2 * mp' * ratio) <= d * (2 * mp * P + ratio)) by (apply Z.mul_le_mono_nonneg_l; lia).
  replace ratio with (P + d) in * by (unfold d; lia). nia.
Qed.
Lemma Psi_step mp ratio mp' : 0 <= mp -> P <= ratio -> dmul mp ratio = Some mp' ->
  Psi ratio mp * ratio <= Psi ratio mp' * P.
Proof.
  intros Hmp Hr H. assert (0 < P) by reflexivity.
  destruct (dmul_step mp ratio mp' Hmp ltac:(lia) H) as (Hl & _ & _).
  unfold Psi. set (d := ratio - P). assert (0 <= d) by (unfold d; lia).
  assert (d * (2 * mp * ratio - P) <= d * (2 * mp' * P)) by (apply Z.mul_le_mono_nonneg_l; lia).
  replace ratio with (P + d) in * by (unfold d; lia). nia.
Qed.

Lemma E_FUEL_not_oob : E_PRICE_OUT_OF_BOUND <> E_FUEL.
Proof. discriminate. Qed.

(* if the search runs out of fuel, the potential has shrunk (grown) geometrically on the way *)
Lemma search_up_out_of_fuel g ratio offset : P <= ratio -> forall fuel mp t, 0 <= mp ->
  search_up_g g fuel mp offset ratio t = Err E_FUEL ->
  exists mpf, offset < mpf /\ Phi ratio mpf * ratio ^ Z.of_nat fuel <= Phi ratio mp * P ^ Z.of_nat fuel.
Proof.
  intros Hr. induction fuel as [|f IH]; intros mp t Hmp H; cbn [search_up_g] in H.
  - destruct (Z.leb_spec mp offset); [discriminate|]. exists mp. cbn. split; lia.
  - destruct (Z.leb_spec mp offset); [discriminate|].
    destruct (dquo mp ratio) as [mp'|] eqn:Hq; cbn in H; [|discriminate].
    destruct (g && negb (mp' <? mp)); [injection H as H; exfalso; exact (E_FUEL_not_oob H)|].
    pose proof (Phi_step mp ratio mp' Hmp Hr Hq) as Hs.
    destruct (dquo_step mp ratio mp' Hmp ltac:(unfold P in *; lia) Hq) as (_ & _ & Hmp').
    destruct (IH mp' (t + 1) Hmp' H) as (mpf & Hof & Hinv).
    exists mpf. split; [exact Hof|].
    rewrite Nat2Z.inj_succ, !Z.pow_succ_r by lia.
    assert (0 <= P ^ Z.of_nat f) by (apply Z.pow_nonneg; unfold P; lia).
    assert (0 < ratio) by (unfold P in *; lia).
    assert (Phi ratio mp' * ratio * P ^ Z.of_nat f <= Phi ratio mp * P * P ^ Z.of_nat f)
      by (apply Z.mul_le_mono_nonneg_r; lia).
    assert (Phi ratio mpf * ratio ^ Z.of_nat f * ratio <= Phi ratio mp' * P ^ Z.of_nat f * ratio)
      by (apply Z.mul_le_mono_nonneg_r; lia).
    lia.
Qed.

Lemma search_down_out_of_fuel g ratio offset : P <= ratio -> forall fuel mp t, 0 <= mp ->
  search_down_g g fuel mp offset ratio t = Err E_FUEL ->
  exists mpf, mpf < offset /\ Psi ratio mp * ratio ^ Z.of_nat fuel <= Psi ratio mpf * P ^ Z.of_nat fuel.
Proof.
  intros Hr. induction fuel as [|f IH]; intros mp t Hmp H; cbn [search_down_g] in H.
  - destruct (Z.leb_spec offset mp); [discriminate|]. exists mp. cbn. split; lia.
  - destruct (Z.leb_spec offset mp); [discriminate|].
    destruct (dmul mp ratio) as [mp'|] eqn:Hq; cbn in H; [|discriminate].
    destruct (g && negb (mp <? mp')); [injection H as H; exfalso; exact (E_FUEL_not_oob H)|].
    pose proof (Psi_step mp ratio mp' Hmp Hr Hq) as Hs.
    destruct (dmul_step mp ratio mp' Hmp ltac:(unfold P in *; lia) Hq) as (_ & _ & Hmp').
    destruct (IH mp' (t - 1) Hmp' H) as (mpf & Hof & Hinv).
    exists mpf. split; [exact Hof|].
    rewrite Nat2Z.inj_succ, !Z.pow_succ_r by lia.
    assert (0 <= ratio ^ Z.of_nat f) by (apply Z.pow_nonneg; unfold P in *; lia).
    assert (0 < P) by reflexivity.
    assert (Psi ratio mp * ratio * ratio ^ Z.of_nat f <= Psi ratio mp' * P * ratio ^ Z.of_nat f)
      by (apply Z.mul_le_mono_nonneg_r; lia).
    assert (Psi ratio mp' * ratio ^ Z.of_nat f * P <= Psi ratio mpf * P ^ Z.of_nat f * P)
      by (apply Z.mul_le_mono_nonneg_r; lia).
    lia.
Qed.

(* ------------------------------------------------------------------ (P+d)^m >= 2 P^m after ceil(P/d) steps *)
Lemma bernoulli d : 0 <= d -> forall n : nat,
  P ^ Z.of_nat n * (P + Z.of_nat n * d) <= P * (P + d) ^ Z.of_nat n.
Proof.
  intros Hd. assert (HP : 0 < P) by reflexivity. induction n as [|n IH].
  - cbn. lia.
  - rewrite Nat2Z.inj_succ, !Z.pow_succ_r by lia.
    set (a := P ^ Z.of_nat n) in *. set (b := (P + d) ^ Z.of_nat n) in *. set (k := Z.of_nat n) in *.
    assert (0 <= a) by (apply Z.pow_nonneg; lia). assert (0 <= k) by (unfold k; lia).
    assert ((P + d) * (a * (P + k * d)) <= (P + d) * (P * b)) by (apply Z.mul_le_mono_nonneg_l; lia).
    assert (P * a * (P + Z.succ k * d) <= (P + d) * (a * (P + k * d))).
    { replace (Z.succ k) with (k + 1) by lia.
      assert (0 <= a * k * d * d) by (repeat apply Z.mul_nonneg_nonneg; lia). nia. }
    nia.
Qed.

Lemma steps_to_double_spec d : 1 <= d -> 1 <= steps_to_double d /\ P <= steps_to_double d * d.
Proof. intros. unfold steps_to_double. assert (0 < P) by reflexivity. nia. Qed.

Lemma ratio_pow_doubles ratio : P + 1 <= ratio ->
  let m := steps_to_double (ratio - P) in 2 * P ^ m <= ratio ^ m.
Proof.
  intros Hr m. destruct (steps_to_double_spec (ratio - P) ltac:(lia)) as (Hm1 & Hm).
  fold m in Hm1, Hm. assert (HP : 0 < P) by reflexivity.
  pose proof (bernoulli (ratio - P) ltac:(lia) (Z.to_nat m)) as B.
  rewrite Z2Nat.id in B by lia. replace (P + (ratio - P)) with ratio in B by lia.
  assert (0 < P ^ m) by (apply Z.pow_pos_nonneg; lia).
  assert (P ^ m * (2 * P) <= P ^ m * (P + m * (ratio - P))) by (apply Z.mul_le_mono_nonneg_l; lia).
  nia.
Qed.

Lemma ratio_pow_grows ratio k : P + 1 <= ratio -> 0 <= k ->
  let m := steps_to_double (ratio - P) in 2 ^ k * P ^ (m * k) <= ratio ^ (m * k).
Proof.
  intros Hr Hk m. pose proof (ratio_pow_doubles ratio Hr) as Hd. fold m in Hd.
  destruct (steps_to_double_spec (ratio - P) ltac:(lia)) as (Hm1 & _). fold m in Hm1.
  assert (HP : 0 < P) by reflexivity.
  rewrite !Z.pow_mul_r by lia. rewrite <- Z.pow_mul_l.
  apply Z.pow_le_mono_l. split; [|exact Hd].
  assert (0 < P ^ m) by (apply Z.pow_pos_nonneg; lia). lia.
Qed.

(* running out of fuel with less fuel *)
Lemma search_up_fuel_mono g ratio offset : forall f1 f2 mp t, (f1 <= f2)%nat ->
  search_up_g g f2 mp offset ratio t = Err E_FUEL ->
  exists t', search_up_g g f1 mp offset ratio t = Err E_FUEL /\ t' = t.
Proof.
  induction f1 as [|f1 IH]; intros f2 mp t Hle H.
  - exists t. split; [|reflexivity]. destruct f2; cbn [search_up_g] in *.
    + exact H.
    + destruct (mp <=? offset); [discriminate|reflexivity].
  - destruct f2 as [|f2]; [lia|]. cbn [search_up_g] in *.
    destruct (mp <=? offset); [discriminate|].
    destruct (dquo mp ratio) as [mp'|]; cbn in *; [|discriminate].
    destruct (g && negb (mp' <? mp)); [exists t; split; [exact H|reflexivity]|].
    destruct (IH f2 mp' (t + 1) ltac:(lia) H) as (t' & Ht' & _). exists t. split; [exact Ht'|reflexivity].
Qed.
Lemma search_down_fuel_mono g ratio offset : forall f1 f2 mp t, (f1 <= f2)%nat ->
  search_down_g g f2 mp offset ratio t = Err E_FUEL ->
  search_down_g g f1 mp offset ratio t = Err E_FUEL.
Proof.
  induction f1 as [|f1 IH]; intros f2 mp t Hle H.
  - destruct f2; cbn [search_down_g] in *; [exact H|].
    destruct (offset <=? mp); [discriminate|reflexivity].
  - destruct f2 as [|f2]; [lia|]. cbn [search_down_g] in *.
    destruct (offset <=? mp); [discriminate|].
    destruct (dmul mp ratio) as [mp'|]; cbn in *; [|discriminate].
    destruct (g && negb (mp <? mp')); [exact H|].
    apply (IH f2); [lia|exact H].
Qed.

(* ------------------------------------------------------------------ the bounds *)
(* price_ratio >= 1 + 10^-18 and an offset price that is not below the fixed point of the rounded
   map (ratio <= 2*d*offset; for ratio 1.0001 this is offset >= 5001 * 10^-18): the upward search
   from any price ends within search_up_bound = ceil(10^18/d) * log2(2*d*mp0 - ratio) steps, with
   or without the no-progress guard. *)
Theorem search_up_terminates g ratio offset mp t fuel :
  P + 1 <= ratio -> 0 <= offset -> ratio <= 2 * (ratio - P) * offset ->
  search_up_bound ratio mp <= Z.of_nat fuel ->
  search_up_g g fuel mp offset ratio t <> Err E_FUEL.
Proof.
  intros Hr Ho Hfix Hfuel H.
  set (d := ratio - P) in *. set (m := steps_to_double d).
  destruct (Z.leb_spec mp offset) as [Hle|Hgt].
  { destruct fuel; cbn [search_up_g] in H; destruct (Z.leb_spec mp offset); try discriminate; lia. }
  assert (Hmp : 0 <= mp) by lia.
  assert (HPhi0 : 2 * d <= Phi ratio mp).
  { unfold Phi. fold d. assert (2 * d * (offset + 1) <= 2 * d * mp) by (apply Z.mul_le_mono_nonneg_l; lia). lia. }
  set (k := Z.log2 (Phi ratio mp)).
  assert (Hk : 0 <= k) by apply Z.log2_nonneg.
  destruct (steps_to_double_spec d ltac:(lia)) as (Hm1 & _). fold m in Hm1.
  assert (Hbound : search_up_bound ratio mp = m * k) by reflexivity.
  destruct (search_up_fuel_mono g ratio offset (Z.to_nat (m * k)) fuel mp t ltac:(lia) H) as (_ & H' & _).
  destruct (search_up_out_of_fuel g ratio offset ltac:(lia) _ mp t Hmp H') as (mpf & Hof & Hinv).
  rewrite Z2Nat.id in Hinv by lia.
  assert (HPhif : 2 * d <= Phi ratio mpf).
  { unfold Phi. fold d. assert (2 * d * (offset + 1) <= 2 * d * mpf) by (apply Z.mul_le_mono_nonneg_l; lia). lia. }
  pose proof (ratio_pow_grows ratio k Hr Hk) as Hg. fold d m in Hg.
  assert (HP : 0 < P) by reflexivity.
  assert (HPn : 0 < P ^ (m * k)) by (apply Z.pow_pos_nonneg; lia).
  assert (2 * (2 ^ k * P ^ (m * k)) <= Phi ratio mpf * ratio ^ (m * k)).
  { assert (2 * ratio ^ (m * k) <= Phi ratio mpf * ratio ^ (m * k)).
    { apply Z.mul_le_mono_nonneg_r; [apply Z.pow_nonneg; lia|lia]. }
    lia. }
  assert (Hc : 2 * 2 ^ k * P ^ (m * k) <= Phi ratio mp * P ^ (m * k)) by lia.
  assert (2 * 2 ^ k <= Phi ratio mp) by nia.
  pose proof (Z.log2_spec (Phi ratio mp) ltac:(lia)) as Hl. fold k in Hl.
  rewrite Z.pow_succ_r in Hl by lia. lia.
Qed.

(* downward search, started above the fixed point of the rounded map (10^18 < 2*d*mp0; for ratio
   1.0001 this is mp0 > 5000 * 10^-18): ends within ceil(10^18/d) * log2_up(2*d*offset - 10^18). *)
Theorem search_down_terminates g ratio offset mp t fuel :
  P + 1 <= ratio -> 0 <= mp -> P < 2 * (ratio - P) * mp ->
  search_down_bound ratio offset <= Z.of_nat fuel ->
  search_down_g g fuel mp offset ratio t <> Err E_FUEL.
Proof.
  intros Hr Hmp Hfix Hfuel H.
  set (d := ratio - P) in *. set (m := steps_to_double d).
  set (k := Z.log2_up (Psi ratio offset)).
  assert (Hk : 0 <= k) by apply Z.log2_up_nonneg.
  destruct (steps_to_double_spec d ltac:(lia)) as (Hm1 & _). fold m in Hm1.
  assert (Hbound : search_down_bound ratio offset = m * k) by reflexivity.
  pose proof (search_down_fuel_mono g ratio offset (Z.to_nat (m * k)) fuel mp t ltac:(lia) H) as H'.
  destruct (search_down_out_of_fuel g ratio offset ltac:(lia) _ mp t Hmp H') as (mpf & Hof & Hinv).
  rewrite Z2Nat.id in Hinv by lia.
  assert (HPsi0 : 1 <= Psi ratio mp) by (unfold Psi; fold d; lia).
  assert (HPsif : Psi ratio mpf + 2 * d <= Psi ratio offset).
  { unfold Psi. fold d. assert (2 * d * (mpf + 1) <= 2 * d * offset) by (apply Z.mul_le_mono_nonneg_l; lia). lia. }
  pose proof (ratio_pow_grows ratio k Hr Hk) as Hg. fold d m in Hg.
  assert (HP : 0 < P) by reflexivity.
  assert (HPn : 0 < P ^ (m * k)) by (apply Z.pow_pos_nonneg; lia).
  assert (ratio ^ (m * k) <= Psi ratio mp * ratio ^ (m * k)).
  { assert (0 <= ratio ^ (m * k)) by (apply Z.pow_nonneg; lia). nia. }
  assert (2 ^ k * P ^ (m * k) <= Psi ratio mpf * P ^ (m * k)) by lia.
  assert (2 ^ k <= Psi ratio mpf) by nia.
  assert (2 ^ k < Psi ratio offset) by lia.
  destruct (Z_le_gt_dec (Psi ratio offset) 1) as [Hsmall|Hbig].
  - assert (1 <= 2 ^ k) by (apply Z.pow_le_mono_r with (b := 0) (c := k) (a := 2) in Hk; lia). lia.
  - pose proof (Z.log2_up_spec (Psi ratio offset) ltac:(lia)) as Hl. fold k in Hl. lia.
Qed.

(* the number of iterations is the distance of the returned tick from the start *)
Lemma search_up_ticks g ratio offset : forall fuel mp t t',
  search_up_g g fuel mp offset ratio t = Ok t' ->
  t <= t' <= t + Z.of_nat fuel /\
  (forall f, (Z.of_nat f < t' - t) -> search_up_g g f mp offset ratio t = Err E_FUEL).
Proof.
  induction fuel as [|fu IH]; intros mp t t' H; cbn [search_up_g] in H.
  - destruct (Z.leb_spec mp offset); [|discriminate]. injection H as <-. split; [lia|]. intros f Hf. lia.
  - destruct (Z.leb_spec mp offset) as [Hle|Hgt].
    + injection H as <-. split; [lia|]. intros f Hf. lia.
    + destruct (dquo mp ratio) as [mp'|] eqn:Hq; cbn in H; [|discriminate].
      destruct (g && negb (mp' <? mp)) eqn:Hg; [discriminate|].
      destruct (IH mp' (t + 1) t' H) as (Hr & Hall). split; [lia|].
      intros f Hf. destruct f as [|f]; cbn [search_up_g].
      * destruct (Z.leb_spec mp offset); [lia|reflexivity].
      * destruct (Z.leb_spec mp offset); [lia|]. rewrite Hq. cbn. rewrite Hg. apply Hall. lia.
Qed.

Corollary search_up_iterations g ratio offset mp t t' fuel :
  P + 1 <= ratio -> 0 <= offset -> ratio <= 2 * (ratio - P) * offset ->
  0 <= search_up_bound ratio mp ->
  search_up_g g fuel mp offset ratio t = Ok t' -> t' - t <= search_up_bound ratio mp.
Proof.
  intros Hr Ho Hfix Hb H. destruct (search_up_ticks g ratio offset fuel mp t t' H) as (_ & Hall).
  destruct (Z_le_gt_dec (t' - t) (search_up_bound ratio mp)) as [|Hgt]; [assumption|exfalso].
  specialize (Hall (Z.to_nat (search_up_bound ratio mp)) ltac:(lia)).
  revert Hall. apply search_up_terminates; try assumption. lia.
Qed.

Lemma search_down_ticks g ratio offset : forall fuel mp t t',
  search_down_g g fuel mp offset ratio t = Ok t' ->
  t - Z.of_nat fuel <= t' <= t /\
  (forall f, (Z.of_nat f < t - t') -> search_down_g g f mp offset ratio t = Err E_FUEL).
Proof.
  induction fuel as [|fu IH]; intros mp t t' H; cbn [search_down_g] in H.
  - destruct (Z.leb_spec offset mp); [|discriminate]. injection H as <-. split; [lia|]. intros f Hf. lia.
  - destruct (Z.leb_spec offset mp) as [Hle|Hgt].
    + injection H as <-. split; [lia|]. intros f Hf. lia.
    + destruct (dmul mp ratio) as [mp'|] eqn:Hq; cbn in H; [|discriminate].
      destruct (g && negb (mp <? mp')) eqn:Hg; [discriminate|].
      destruct (IH mp' (t - 1) t' H) as (Hr & Hall). split; [lia|].
      intros f Hf. destruct f as [|f]; cbn [search_down_g].
      * destruct (Z.leb_spec offset mp); [lia|reflexivity].
      * destruct (Z.leb_spec offset mp); [lia|]. rewrite Hq. cbn. rewrite Hg. apply Hall. lia.
Qed.

Corollary search_down_iterations g ratio offset mp t t' fuel :
  P + 1 <= ratio -> 0 <= mp -> P < 2 * (ratio - P) * mp ->
  0 <= search_down_bound ratio offset ->
  search_down_g g fuel mp offset ratio t = Ok t' -> t - t' <= search_down_bound ratio offset.
Proof.
  intros Hr Hmp Hfix Hb H. destruct (search_down_ticks g ratio offset fuel mp t t' H) as (_ & Hall).
  destruct (Z_le_gt_dec (t - t') (search_down_bound ratio offset)) as [|Hgt]; [assumption|exfalso].
  specialize (Hall (Z.to_nat (search_down_bound ratio offset)) ltac:(lia)).
  revert Hall. apply search_down_terminates; try assumption. lia.
Qed.
