(* C06 proofs, part 5: backing.  Every way growth enters the accumulator is covered by coins that
   entered the fee account (per step, per allocation, per re-injected dust); a claim pays the
   truncation of the entitlement; over every history the fee account's balance is
   initial + receipts - payouts, so "claimed + claimable <= received" is solvency of the account.
   The full inductive statement (C06_fee_backing_full in Props/C06.v) is not proved: see there. *)
From Coq Require Import ZArith Bool List Lia ZifyBool Sorted.
Import ListNotations.
From Sunrise Require Import Base.Outcome Base.Dec Base.DecLemmas Amm.Math Amm.Pool Amm.LiqDefs Amm.LiqLists Amm.LiqInv
  Amm.Fees Amm.FeesVec Amm.FeesProofs Amm.FeesLoop Amm.FeesFlow Amm.FeesSwap Amm.FeesAccrual.
Local Open Scope Z_scope.
Ltac Zify.zify_post_hook ::= Z.div_mod_to_equations.

(* one accrual step: growth per unit of liquidity x active liquidity <= the amount charged *)
Theorem growth_step_backed fc L per : 0 <= fc -> 0 < L -> dquoT fc L = Some per ->
  0 <= per /\ per * L <= fc * P.
Proof.
  intros Hf HL H. pose proof (dquoT_bracket _ _ _ Hf HL H). pose proof (dquoT_nonneg _ _ _ Hf HL H). lia.
Qed.

(* the steps of a swap: sum of (growth x active liquidity) <= 10^18 x sum of fees charged *)
Fixpoint sum_pl (evs : list ev) : Z := match evs with [] => 0 | (_, per, _, liq) :: r => per * liq + sum_pl r end.
Theorem swap_events_backed b4q t0 t1 evs :
  Forall (ev_ok b4q t0 t1) evs -> Forall (fun e : ev => let '(_, _, fc, liq) := e in 0 <= fc /\ 0 <= liq) evs ->
  sum_pl evs <= sum_fc evs * P /\ Forall (fun e : ev => let '(_, per, _, _) := e in 0 <= per) evs.
Proof.
  intros H1 H2. assert (HP : 0 < P) by reflexivity.
  induction H1 as [|e r He Hr IH]; [split; [cbn; lia|constructor]|].
  inversion H2 as [|? ? Hfl H2']; subst. destruct e as [[[c per] fc] liq]. unfold ev_ok in He. destruct He as [_ Hq].
  destruct Hfl as [Hf Hl]. destruct (IH H2') as [IH1 IH2]. cbn [sum_pl sum_fc].
  destruct Hq as [(-> & ->)|(Hne & Hq)].
  - split; [nia|constructor; [lia|exact IH2]].
  - destruct (growth_step_backed fc liq per Hf ltac:(lia) Hq). split; [nia|constructor; assumption].
Qed.

(* what the fee account receives from a swap covers the fees charged: ceil *)
Lemma swap_fee_coins_cover fees fc : 0 <= fees -> dceil fees = Some fc -> fees <= dtrunc_int fc * P.
Proof. intros H0 H. destruct (dceil_bracket _ _ H0 H) as [A B]. lia. Qed.

(* an allocation: growth x active liquidity <= coins (in raw decimals, 10^36 scale) *)
Theorem allocate_backed s coins s' : FeeWF s -> len4 coins -> vnonneg coins -> allocate_incentive s coins = Ok s' ->
  forall j, (j < 4)%nat ->
    0 <= vn (a_acc_value s') j - vn (a_acc_value s) j /\
    (vn (a_acc_value s') j - vn (a_acc_value s) j) * p_liq (a_pool s) <= vn coins j * P * P.
Proof.
  intros W Lc Nc H j Hj. destruct (allocate_growth _ _ _ W Lc H) as (HL & _ & _ & _ & _ & _ & _ & Hg).
  rewrite vnonneg_nth in Nc. specialize (Nc j ltac:(unfold len4 in *; lia)).
  assert (Hc : 0 <= dec_of_int (vn coins j)) by (unfold dec_of_int, P; lia).
  destruct (growth_step_backed _ _ _ Hc HL (Hg j Hj)) as [A B]. unfold dec_of_int in B. split; [exact A|lia].
Qed.

(* the dust a claim re-injects: growth x total shares <= dust *)
Theorem dust_backed s pid s1 c : FeeWF s -> 0 < a_acc_shares s -> prepare_claim s pid = Ok (s1, c) ->
  exists tot, entitlement s pid = Ok tot /\ c = fst (vtrunc tot) /\ len4 tot /\ vnonneg tot /\
    forall j, (j < 4)%nat ->
      0 <= vn (a_acc_value s1) j - vn (a_acc_value s) j /\
      (vn (a_acc_value s1) j - vn (a_acc_value s) j) * a_acc_shares s <= (vn tot j - vn c j * P) * P.
Proof.
  intros W HT H.
  destruct (prepare_claim_inv _ _ _ _ H) as (pos & ap0 & outside & v1 & tot & inside & Ep & Ea & Eo & Ev & Et & Ec & Ei & Hs1).
  assert (Hwf : ap_wf ap0) by (pose proof (fw_aps _ W) as X; rewrite Forall_forall in X; apply X; apply (find_ap_in _ _ _ Ea)).
  destruct Hwf as (Lval & Lun & Nun & Hsh).
  pose proof (fgo_len4 _ _ _ _ W Eo) as Lo.
  destruct (vadd_nth _ _ _ Ev ltac:(unfold len4 in *; congruence)) as [Lv1 _].
  assert (Lv14 : len4 v1) by (unfold len4 in *; congruence).
  destruct (total_rewards_wf (a_acc_value s) (claim_ap pid ap0 v1) tot (fw_acc _ W) Lv14 Lun Nun Et) as [Lt Nt].
  exists tot. split.
  { unfold entitlement. rewrite Ep, Ea, Eo. cbn [of_opt rbind]. rewrite Ev. cbn [of_opt rbind]. unfold claim_ap in Et. rewrite Et. reflexivity. }
  split; [exact Ec|]. split; [exact Lt|]. split; [exact Nt|]. intros j Hj.
  destruct (after_claim_pos_fields s pid ap0 inside) as (_ & _ & _ & F4 & _).
  pose proof (vtrunc_nth tot) as Htr. subst c. destruct (vtrunc tot) as [cc dd]. destruct Htr as (_ & Ldd & Ntr). cbn [fst snd] in *.
  destruct (Ntr j ltac:(unfold len4 in *; lia)) as [Hcc Hdd].
  rewrite vnonneg_nth in Nt. specialize (Nt j ltac:(unfold len4 in *; lia)).
  assert (Hdust : 0 <= vn dd j) by (rewrite Hdd; rewrite Z.quot_div_nonneg by (unfold P; lia); unfold P; lia).
  destruct Hs1 as [->|(per & v & _ & _ & Hper & Hv & ->)].
  - rewrite F4. rewrite Hcc. rewrite Z.quot_div_nonneg by (unfold P; lia). unfold P. lia.
  - cbn [a_acc_value set_acc].
    destruct (vquo_dec_trunc_nth _ _ _ Hper) as (_ & Lper & Nper).
    destruct (vadd_nth _ _ _ Hv ltac:(pose proof (fw_acc _ W); unfold len4 in *; congruence)) as [_ Nv].
    rewrite Nv by (pose proof (fw_acc _ W); unfold len4 in *; lia).
    specialize (Nper j ltac:(unfold len4 in *; lia)).
    destruct (growth_step_backed _ _ _ Hdust HT Nper) as [A B].
    rewrite <- Hcc in Hdd. rewrite Hdd in B. split; lia.
Qed.

(* ---------- backing = solvency of the fee account ---------- *)
Lemma claimable_of_len4 s pid : FeeWF s -> len4 (claimable_of s pid).
Proof.
  intros W. unfold claimable_of, claimable_fees.
  destruct (prepare_claim s pid) as [[s1 c]| |] eqn:E; cbn [rbind]; try reflexivity.
  apply (prepare_claim_wf _ _ _ _ W E).
Qed.
Lemma claimable_sum_len4 s : FeeWF s -> len4 (claimable_sum s).
Proof.
  intros W. unfold claimable_sum. induction (a_positions s) as [|p r IH]; cbn [claimable_sum_over]; [reflexivity|].
  apply vplus_len4; [apply claimable_of_len4; exact W|exact IH].
Qed.

(* for every history: "claimed so far + X <= initial balance + received so far" is the same as
   "X <= current balance of the fee account" *)
Theorem backing_iff_solvent ops s0 s recv cl X :
  FeeWF s0 -> Forall op_wf ops -> run_ghost s0 vzero vzero ops = (s, recv, cl) -> len4 X ->
  (vle (vplus cl X) (vplus (a_bal_fee s0) recv) = true <-> vle X (a_bal_fee s) = true).
Proof.
  intros W Ho H LX.
  destruct (ghost_run ops s0 vzero vzero s recv cl W Ho vzero_len4 vzero_len4 H) as (W' & Lr & Lc & B).
  pose proof (fw_bal_fee _ W) as L0. pose proof (fw_bal_fee _ W') as L1.
  assert (Hn : forall j, (j < 4)%nat -> vn (a_bal_fee s) j + vn cl j = vn (a_bal_fee s0) j + vn recv j).
  { intros j Hj. pose proof (f_equal (fun v => vn v j) B) as E. cbn beta in E.
    repeat rewrite vplus_nth4 in E by (first [exact Hj | solve_len]). rewrite vzero_nth in E. lia. }
  rewrite !vle_nth by (unfold len4 in *; rewrite ?vplus_length; congruence).
  split; intros Hle j Hj.
  - assert (Hj4 : (j < 4)%nat) by (unfold len4 in *; lia).
    specialize (Hle j ltac:(unfold len4 in *; rewrite vplus_length; congruence)).
    rewrite !vplus_nth4 in Hle by (first [exact Hj4 | solve_len]). specialize (Hn j Hj4). lia.
  - assert (Hj4 : (j < 4)%nat) by (unfold len4 in *; rewrite vplus_length in Hj; congruence).
    specialize (Hle j ltac:(unfold len4 in *; lia)).
    rewrite !vplus_nth4 by (first [exact Hj4 | solve_len]). specialize (Hn j Hj4). lia.
Qed.

(* ---------- fee at the pool's rate, summed over the steps of an exact-out swap ---------- *)
Definition step_fee_ok (r : Z) (x : Z * Z) : Prop :=
  let '(a, f) := x in
  0 <= a /\ a * r <= f * (P - r) /\ f * P * (P - r) < a * (r * P + (P - r)) + P * (P - r).
Fixpoint sum_paid (l : list (Z * Z)) : Z := match l with [] => 0 | (a, f) :: r => a + f + sum_paid r end.
Fixpoint sum_fee (l : list (Z * Z)) : Z := match l with [] => 0 | (_, f) :: r => f + sum_fee r end.

Lemma fee_rate_sum r steps : 0 < r < P -> Forall (step_fee_ok r) steps ->
  0 <= sum_fee steps <= sum_paid steps /\
  r * sum_paid steps <= sum_fee steps * P /\
  sum_fee steps * P <= r * sum_paid steps + sum_paid steps + Z.of_nat (length steps) * P.
Proof.
  intros Hr H. induction H as [|x l Hx Hl IH]; cbn [sum_paid sum_fee length]; [lia|].
  destruct x as [a f]. unfold step_fee_ok in Hx. destruct Hx as (Ha & Hlo & Hup).
  destruct IH as (IH0 & IH1 & IH2).
  assert (Hf : 0 <= f) by nia.
  assert (HP : 0 < P) by reflexivity.
  (* upper for this step: P*(f*P - r*(a+f)) <= (a + P)*(P - r) <= (a+P)*P *)
  assert (Hs : f * P <= r * (a + f) + a + P).
  { assert (E : P * (f * P - r * (a + f)) < (a + P) * (P - r)) by nia.
    assert (E2 : (a + P) * (P - r) <= (a + P) * P) by nia. nia. }
  split; [lia|]. split; [nia|]. rewrite Nat2Z.inj_succ. nia.
Qed.

(* on whole coins: paid = ceil(total input incl. fee), fee = ceil(total fee) *)
Theorem fee_rate_coins r steps i f : 0 < r < P -> Forall (step_fee_ok r) steps ->
  Z.of_nat (length steps) <= P ->
  (i - 1) * P < sum_paid steps <= i * P -> (f - 1) * P < sum_fee steps <= f * P ->
  r * (i - 1) <= f * P /\ f * P <= r * i + i + 2 * P.
Proof.
  intros Hr H Hn Hi Hf. destruct (fee_rate_sum r steps Hr H) as (H0 & H1 & H2).
  assert (HP : 0 < P) by reflexivity. split.
  - assert (E : r * ((i - 1) * P) <= f * P * P) by nia. nia.
  - assert (E : (f - 1) * P * P < r * (i * P) + i * P + P * P) by nia. nia.
Qed.

(* ---------- the steps of an exact-out swap ---------- *)
Definition fee_step (fee : Z) (x : Z * Z) : Prop :=
  let '(a, f) := x in exists fomf, fee_over_one_minus_fee fee = Some fomf /\ fee_charge_from_in a fomf = Some f.

Lemma step_in_given_out_fee b4q fee sp target liq rem next spec other fc :
  step_in_given_out b4q fee sp target liq rem = Some (next, spec, other, fc) -> fee_step fee (other, fc).
Proof.
  unfold step_in_given_out, fee_step. destruct b4q; [unfold b4q_in_given_out|unfold q4b_in_given_out]; intros H;
  repeat match type of H with obind ?c _ = Some _ => let x := fresh "x" in let E := fresh "E" in destruct c as [x|] eqn:E; cbn [obind] in H; [|discriminate] end;
  injection H as E5 E6 E7 E8; subst; eexists; (split; [reflexivity|eassumption]).
Qed.

Lemma exact_out_loop_steps b4q fee limit tp accv din fuel : forall iter st st',
  swap_loop fuel false b4q true fee limit tp accv din iter st = Ok st' ->
  exists steps, (length steps <= fuel)%nat /\ Forall (fee_step fee) steps /\
    ss_calculated st' = ss_calculated st + sum_paid steps /\ ss_fees st' = ss_fees st + sum_fee steps.
Proof.
  induction fuel as [|f IH]; intros iter st st' H.
  - apply swap_loop_zero in H. subst. exists []. cbn. repeat split; try lia. constructor.
  - rewrite swap_loop_unfold in H.
    destruct (loop_iter false b4q true fee limit tp accv din iter st) as [[|iter1 st1 c r fc per]|e|] eqn:E; try discriminate.
    + injection H as <-. exists []. cbn. repeat split; try lia. constructor.
    + destruct (loop_iter_inv _ _ _ _ _ _ _ _ _ _ _ _ _ _ _ _ E) as (nt & tl & nsp & spec & other & F).
      destruct F as [_ _ _ Fstep Ffees _ Fcalc _]. destruct Ffees as [Ff _]. apply dadd_some in Ff.
      destruct (IH _ _ _ H) as (steps & Hl & Hs & Hc & Hf).
      exists ((other, fc) :: steps). cbn [length sum_paid sum_fee]. split; [lia|]. split; [|split; lia].
      constructor; [|exact Hs]. eapply step_in_given_out_fee. exact Fstep.
Qed.

Lemma filter_len_le {A} (f : A -> bool) l : (length (filter f l) <= length l)%nat.
Proof. induction l as [|x l IH]; cbn; [lia|]. destruct (f x); cbn; lia. Qed.

Lemma fee_step_ok r a f : 0 < r < P -> 0 <= a -> fee_step r (a, f) -> step_fee_ok r (a, f).
Proof.
  intros Hr Ha (fomf & H1 & H2). destruct (fee_charge_bounds a r fomf f Ha Hr H1 H2) as (A & B & _).
  unfold step_fee_ok. repeat split; assumption.
Qed.

(* fee_rate_bracket for exact-out swaps: with rate r (raw), i coins paid in total, f coins of fee:
   r*(i-1) <= f*10^18 <= r*i + i + 2*10^18, provided every step's input amount is non-negative *)
Theorem exact_out_fee_rate s din dout specified s' i o :
  0 < p_fee (a_pool s) < P -> Z.of_nat (length (a_ticks s)) + 300 <= P ->
  swap s false din dout specified true = Ok (s', i, o) ->
  exists steps, Forall (fee_step (p_fee (a_pool s))) steps /\
    (Forall (fun x : Z * Z => 0 <= fst x) steps ->
     let f := vn (swap_fee_coins s false din dout specified) (Z.to_nat din) in
     p_fee (a_pool s) * (i - 1) <= f * P /\ f * P <= p_fee (a_pool s) * i + i + 2 * P).
Proof.
  intros Hr Hn H.
  destruct (swap_fields _ _ _ _ _ _ _ _ H) as (r & accv & Ec & _ & _ & _ & _ & _ & _ & _ & _ & -> & _ & (fc0 & Efc0)).
  destruct (compute_swap_inv _ _ _ _ _ _ _ _ _ Ec) as (_ & Hd & limit & st & _ & El & _ & R2 & _ & _ & _ & _ & _ & (c & Hc & Hin)).
  destruct (exact_out_loop_steps _ _ _ _ _ _ _ _ _ _ El) as (steps & Hl & Hs & Hcalc & Hfees).
  cbn [swap_st0 ss_calculated ss_fees] in Hcalc, Hfees.
  exists steps. split; [exact Hs|]. intros Hpos f.
  assert (Hok : Forall (step_fee_ok (p_fee (a_pool s))) steps).
  { rewrite Forall_forall in Hs, Hpos |- *. intros [a ff] Hx. apply fee_step_ok; [exact Hr|apply (Hpos _ Hx)|apply (Hs _ Hx)]. }
  destruct (fee_rate_sum _ _ Hr Hok) as ((F0 & F1) & _).
  assert (Hlen : Z.of_nat (length steps) <= P).
  { set (b := din =? 0) in *.
    assert (length (iter_ticks b (a_ticks s) (p_tick (a_pool s))) <= length (a_ticks s))%nat.
    { unfold iter_ticks. destruct b; rewrite ?rev_length; apply filter_len_le. }
    lia. }
  assert (H0c : 0 <= ss_calculated st) by lia. assert (H0f : 0 <= ss_fees st) by lia.
  rewrite Hin. destruct (dceil_bracket _ _ H0c Hc) as [[C1 C2] C3].
  unfold f, swap_fee_coins. rewrite Ec, R2.
  destruct (dceil (ss_fees st)) as [fc|] eqn:Efc.
  - destruct (dceil_bracket _ _ H0f Efc) as [[D1 D2] D3].
    assert (Hv : vn (if dtrunc_int fc =? 0 then vzero else vsingle din (dtrunc_int fc)) (Z.to_nat din) = dtrunc_int fc).
    { destruct (Z.eqb_spec (dtrunc_int fc) 0) as [E0|E0]; [rewrite vzero_nth; lia|].
      rewrite vsingle_nth by lia. rewrite Nat.eqb_refl. reflexivity. }
    match goal with |- context [nth ?i ?v 0] => replace (nth i v 0) with (dtrunc_int fc) by (symmetry; exact Hv) end.
    apply (fee_rate_coins _ steps); try assumption; lia.
  - rewrite R2 in Efc0. congruence.
Qed.
