package c13

import (
	"fmt"
	"math/big"
	"strings"

	sdkmath "cosmossdk.io/math"
	bankkeeper "cosmossdk.io/x/bank/keeper"
	banktypes "cosmossdk.io/x/bank/types"
	sdk "github.com/cosmos/cosmos-sdk/types"

	lpkeeper "github.com/sunriselayer/sunrise/x/liquiditypool/keeper"
	lptypes "github.com/sunriselayer/sunrise/x/liquiditypool/types"
	sckeeper "github.com/sunriselayer/sunrise/x/shareclass/keeper"
	sctypes "github.com/sunriselayer/sunrise/x/shareclass/types"
	swapkeeper "github.com/sunriselayer/sunrise/x/swap/keeper"
	swaptypes "github.com/sunriselayer/sunrise/x/swap/types"

	"verifharness/apph"
	"verifharness/emit"
)

// banRun drives transfer attempts of the send-disabled bond token (uvrise) and of a share token
// through every message family a user has, step by step; after each step it records, for every
// user account that the step does not legitimately credit, how much of the token it gained.
type banRun struct {
	h     *apph.H
	cf    *emit.CasesFile
	st    *emit.Stats
	users []sdk.AccAddress
}

func (b *banRun) bals(ctx sdk.Context, denom string) []*big.Int {
	out := make([]*big.Int, len(b.users))
	for i, u := range b.users {
		out[i] = b.h.Bal(ctx, u, denom).BigInt()
	}
	return out
}

// step runs f as one transaction; `credited` is the index of the user the step may legitimately
// credit with the token (-1: nobody), e.g. the delegator receiving freshly minted share tokens.
func (b *banRun) step(name, denom string, plainSend bool, credited int, f func(ctx sdk.Context) error) error {
	ctx := b.h.Ctx()
	pre := b.bals(ctx, denom)
	err := apph.Tx(ctx, f)
	post := b.bals(ctx, denom)
	var gains []string
	maxGain := big.NewInt(0)
	for i := range b.users {
		if i == credited {
			continue
		}
		g := new(big.Int).Sub(post[i], pre[i])
		gains = append(gains, emit.Z(g))
		if g.Cmp(maxGain) > 0 {
			maxGain = g
		}
	}
	b.cf.Add(fmt.Sprintf("CBan {| bo_plain_send := %s; bo_ok := %s; bo_gains := %s |}", emit.Bool(plainSend), emit.Bool(err == nil), emit.List(gains)))
	info := map[string]any{"kind": "ban", "step": name, "denom": denom, "ok": err == nil, "max_gain_of_other_user": maxGain.String()}
	if err != nil {
		info["err"] = err.Error()
		b.st.Count("ban:rejected")
	} else {
		b.st.Count("ban:accepted")
	}
	b.st.Info(info)
	b.st.Evaluations++
	b.st.Nontriv("ban/" + name)
	b.st.Sample(info)
	return err
}

// runBanSpelling: on a fresh chain, the FIRST non-voting delegation to a validator is made under a
// non-canonical but decodable spelling of its address (all upper case); the share token that is
// minted (under the canonical denom) must be just as untransferable as after a canonical delegation.
func runBanSpelling(cf *emit.CasesFile, st *emit.Stats) error {
	h := apph.New(apph.Options{NumAccounts: 4})
	defer h.Close()
	b := &banRun{h: h, cf: cf, st: st}
	for _, a := range h.Accts {
		b.users = append(b.users, a.Addr)
	}
	A, B, C := h.Accts[0].Addr, h.Accts[1].Addr, h.Accts[2].Addr
	bank := bankkeeper.NewMsgServerImpl(h.App.BankKeeper)
	coin := func(d string, n int64) sdk.Coin { return sdk.NewCoin(d, sdkmath.NewInt(n)) }
	vals, err := h.App.StakingKeeper.GetAllValidators(h.Ctx())
	if err != nil || len(vals) == 0 {
		return nil
	}
	valAddr := vals[0].OperatorAddress
	sc := sckeeper.NewMsgServerImpl(h.App.ShareclassKeeper)
	for _, spelled := range []string{strings.ToUpper(valAddr), valAddr} {
		// the share denom of the validator, and the one a handler would derive from the raw string
		for _, share := range []string{sctypes.NonVotingShareTokenDenom(valAddr), sctypes.NonVotingShareTokenDenom(spelled)} {
			tag := "canonical"
			if spelled != valAddr {
				tag = "upper-case"
			}
			_ = b.step("shareclass/NonVotingDelegate "+tag+" validator spelling (mints share to A)", share, false, 0, func(ctx sdk.Context) error {
				_, err := sc.NonVotingDelegate(ctx, &sctypes.MsgNonVotingDelegate{Sender: A.String(), ValidatorAddress: spelled, Amount: coin(fee, 1_000_000)})
				return err
			})
			_ = b.step("bank/MsgSend share token after "+tag+" delegation", share, true, -1, func(ctx sdk.Context) error {
				amt := h.Bal(ctx, A, share)
				if !amt.IsPositive() {
					amt = sdkmath.NewInt(1)
				}
				_, err := bank.Send(ctx, &banktypes.MsgSend{FromAddress: A.String(), ToAddress: B.String(), Amount: sdk.NewCoins(sdk.NewCoin(share, amt.QuoRaw(2).AddRaw(1)))})
				return err
			})
			_ = b.step("bank/MsgMultiSend share token after "+tag+" delegation", share, true, -1, func(ctx sdk.Context) error {
				_, err := bank.MultiSend(ctx, &banktypes.MsgMultiSend{
					Inputs:  []banktypes.Input{{Address: A.String(), Coins: sdk.NewCoins(coin(share, 7))}},
					Outputs: []banktypes.Output{{Address: C.String(), Coins: sdk.NewCoins(coin(share, 7))}}})
				return err
			})
		}
	}
	return nil
}

func runBan(seed int64, cf *emit.CasesFile, st *emit.Stats) error {
	if err := runBanSpelling(cf, st); err != nil {
		return err
	}
	h := apph.New(apph.Options{NumAccounts: 4})
	defer h.Close()
	b := &banRun{h: h, cf: cf, st: st}
	for _, a := range h.Accts {
		b.users = append(b.users, a.Addr)
	}
	A, B, C := h.Accts[0].Addr, h.Accts[1].Addr, h.Accts[2].Addr
	bank := bankkeeper.NewMsgServerImpl(h.App.BankKeeper)
	coin := func(d string, n int64) sdk.Coin { return sdk.NewCoin(d, sdkmath.NewInt(n)) }

	// --- plain and multi sends of the bond token
	b.step("bank/MsgSend uvrise", bond, true, -1, func(ctx sdk.Context) error {
		_, err := bank.Send(ctx, &banktypes.MsgSend{FromAddress: A.String(), ToAddress: B.String(), Amount: sdk.NewCoins(coin(bond, 1000))})
		return err
	})
	b.step("bank/MsgSend uvrise+urise", bond, true, -1, func(ctx sdk.Context) error {
		_, err := bank.Send(ctx, &banktypes.MsgSend{FromAddress: A.String(), ToAddress: B.String(), Amount: sdk.NewCoins(coin(bond, 1), coin(fee, 5))})
		return err
	})
	b.step("bank/MsgMultiSend uvrise", bond, true, -1, func(ctx sdk.Context) error {
		_, err := bank.MultiSend(ctx, &banktypes.MsgMultiSend{
			Inputs:  []banktypes.Input{{Address: A.String(), Coins: sdk.NewCoins(coin(bond, 30))}},
			Outputs: []banktypes.Output{{Address: B.String(), Coins: sdk.NewCoins(coin(bond, 10))}, {Address: C.String(), Coins: sdk.NewCoins(coin(bond, 20))}}})
		return err
	})

	// --- share token: delegate through the share class, then try to send the share
	valAddr := ""
	vals, err := h.App.StakingKeeper.GetAllValidators(h.Ctx())
	if err == nil && len(vals) > 0 {
		valAddr = vals[0].OperatorAddress
	}
	if valAddr != "" {
		sc := sckeeper.NewMsgServerImpl(h.App.ShareclassKeeper)
		share := sctypes.NonVotingShareTokenDenom(valAddr)
		b.step("shareclass/NonVotingDelegate (mints share to A)", share, false, 0, func(ctx sdk.Context) error {
			_, err := sc.NonVotingDelegate(ctx, &sctypes.MsgNonVotingDelegate{Sender: A.String(), ValidatorAddress: valAddr, Amount: coin(fee, 1_000_000)})
			return err
		})
		b.step("bank/MsgSend share token", share, true, -1, func(ctx sdk.Context) error {
			_, err := bank.Send(ctx, &banktypes.MsgSend{FromAddress: A.String(), ToAddress: B.String(), Amount: sdk.NewCoins(coin(share, 10))})
			return err
		})
		b.step("bank/MsgMultiSend share token", share, true, -1, func(ctx sdk.Context) error {
			_, err := bank.MultiSend(ctx, &banktypes.MsgMultiSend{
				Inputs:  []banktypes.Input{{Address: A.String(), Coins: sdk.NewCoins(coin(share, 10))}},
				Outputs: []banktypes.Output{{Address: C.String(), Coins: sdk.NewCoins(coin(share, 10))}}})
			return err
		})
	}

	// --- through a liquidity pool: deposits, swaps, fee claims, withdrawals, in both orientations
	lp := lpkeeper.NewMsgServerImpl(h.App.LiquiditypoolKeeper)
	sw := swapkeeper.NewMsgServerImpl(h.App.SwapKeeper)
	for _, orient := range []struct{ base, quote string }{{bond, fee}, {fee, bond}} {
		var pid uint64
		b.step("liquiditypool/CreatePool "+orient.base+"/"+orient.quote, bond, false, -1, func(ctx sdk.Context) error {
			res, err := lp.CreatePool(ctx, &lptypes.MsgCreatePool{Authority: A.String(), DenomBase: orient.base, DenomQuote: orient.quote, FeeRate: "0.01", PriceRatio: "1.0001", BaseOffset: "0"})
			if err == nil {
				pid = res.Id
			}
			return err
		})
		// in-range deposit: needs both tokens, one of them the bond token
		b.step("liquiditypool/CreatePosition in range", bond, false, -1, func(ctx sdk.Context) error {
			_, err := lp.CreatePosition(ctx, &lptypes.MsgCreatePosition{Sender: A.String(), PoolId: pid, LowerTick: -100, UpperTick: 100,
				TokenBase: coin(orient.base, 1_000_000), TokenQuote: coin(orient.quote, 1_000_000), MinAmountBase: sdkmath.ZeroInt(), MinAmountQuote: sdkmath.ZeroInt()})
			return err
		})
		// single-sided deposits that need only the fee token: range entirely on one side of the price
		for _, rng := range [][2]int64{{200, 400}, {-400, -200}} {
			rng := rng
			var posID uint64
			created := false
			b.step(fmt.Sprintf("liquiditypool/CreatePosition out of range [%d,%d)", rng[0], rng[1]), bond, false, -1, func(ctx sdk.Context) error {
				res, err := lp.CreatePosition(ctx, &lptypes.MsgCreatePosition{Sender: A.String(), PoolId: pid, LowerTick: rng[0], UpperTick: rng[1],
					TokenBase: coin(orient.base, 1_000_000), TokenQuote: coin(orient.quote, 1_000_000), MinAmountBase: sdkmath.ZeroInt(), MinAmountQuote: sdkmath.ZeroInt()})
				if err == nil {
					posID, created = res.Id, true
				}
				return err
			})
			if !created {
				continue
			}
			other := orient.quote
			if other == bond {
				other = orient.base
			}
			// B pays the bond token into the pool (keeper API, as x/swap uses it), then through Msg/SwapExactAmountIn
			b.step("liquiditypool/SwapExactAmountIn uvrise in", bond, false, -1, func(ctx sdk.Context) error {
				pool, _, _ := h.App.LiquiditypoolKeeper.GetPool(ctx, pid)
				_, err := h.App.LiquiditypoolKeeper.SwapExactAmountIn(ctx, B, pool, coin(bond, 100_000), other, true)
				return err
			})
			b.step("swap/MsgSwapExactAmountIn uvrise in", bond, false, -1, func(ctx sdk.Context) error {
				_, err := sw.SwapExactAmountIn(ctx, &swaptypes.MsgSwapExactAmountIn{Sender: B.String(), Route: swaptypes.Route{DenomIn: bond, DenomOut: other,
					Strategy: &swaptypes.Route_Pool{Pool: &swaptypes.RoutePool{PoolId: pid}}}, AmountIn: sdkmath.NewInt(50_000), MinAmountOut: sdkmath.OneInt()})
				return err
			})
			b.step("liquiditypool/SwapExactAmountIn uvrise out", bond, false, -1, func(ctx sdk.Context) error {
				pool, _, _ := h.App.LiquiditypoolKeeper.GetPool(ctx, pid)
				_, err := h.App.LiquiditypoolKeeper.SwapExactAmountIn(ctx, C, pool, coin(other, 100_000), bond, true)
				return err
			})
			b.step("liquiditypool/ClaimRewards after the swaps", bond, false, -1, func(ctx sdk.Context) error {
				_, err := lp.ClaimRewards(ctx, &lptypes.MsgClaimRewards{Sender: A.String(), PositionIds: []uint64{posID}})
				return err
			})
			b.step("liquiditypool/DecreaseLiquidity after the swaps", bond, false, -1, func(ctx sdk.Context) error {
				pos, found, _ := h.App.LiquiditypoolKeeper.GetPosition(ctx, posID)
				if !found {
					return fmt.Errorf("position gone")
				}
				_, err := lp.DecreaseLiquidity(ctx, &lptypes.MsgDecreaseLiquidity{Sender: A.String(), Id: posID, Liquidity: pos.Liquidity})
				return err
			})
		}
	}
	return nil
}
