(* x/tokenconverter: Msg/Convert and keeper Convert / ConvertReverse over Bank.v *)
From Coq Require Import ZArith Bool.
From Sunrise Require Import Base.Outcome Base.Bank.
Local Open Scope Z_scope.

Definition E_INVALID_REQUEST : Z := 18.

Section Convert.
Variables (bond fee modacc : Z).

(* keeper.Convert: bond -> fee *)
Definition k_convert (amount addr : Z) (b : bank) : res (bank * unit) :=
  rbind (bank_send b addr modacc bond amount) (fun b1 =>
  rbind (bank_burn b1 modacc bond amount) (fun b2 =>
  let b3 := bank_mint b2 modacc fee amount in
  rbind (bank_send b3 modacc addr fee amount) (fun b4 => Ok (b4, tt)))).

(* keeper.ConvertReverse: fee -> bond *)
Definition k_convert_reverse (amount addr : Z) (b : bank) : res (bank * unit) :=
  rbind (bank_send b addr modacc fee amount) (fun b1 =>
  rbind (bank_burn b1 modacc fee amount) (fun b2 =>
  let b3 := bank_mint b2 modacc bond amount in
  rbind (bank_send b3 modacc addr bond amount) (fun b4 => Ok (b4, tt)))).

(* Msg/Convert handler: static validation then keeper call, as one transaction *)
Definition msg_convert (amount addr : Z) (b : bank) : bank * res unit :=
  tx (fun b => if amount <=? 0 then Err E_INVALID_REQUEST else k_convert amount addr b) b.
Definition do_convert_reverse (amount addr : Z) (b : bank) : bank * res unit :=
  tx (fun b => k_convert_reverse amount addr b) b.
End Convert.
