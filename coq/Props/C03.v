(* C03 -- Swaps honour the amounts and limits the user stated, on every route shape.
   Only statements, each closed by [exact]; proofs live in Swap/RouteProofs.v.

   The theorems are about the model Swap/Route.v of x/swap after the repairs
   notes/patches/C03-parallel-split-sum.patch and C03-exact-out-series-order.patch ([FIXED]);
   [PREFIX] is the code before them. The liquidity-pool keeper is an oracle with the contract
   [lp_contract] (accounts distinct; an executed hop moves exactly the exact amount; quote =
   execution on the same pool state; the pool computation never reports the bank's
   insufficient-funds class), which the correspondence check observes on every hop
   (C03-no-partial-fill.patch makes the "moves exactly the exact amount" clause true of the
   real pools). Routes are arbitrary trees: the proofs are structural inductions over
   [route] and its lists, for every depth and width. *)
From Coq Require Import ZArith List Bool.
Import ListNotations.
From Sunrise Require Import Base.Outcome Base.Dec Base.Bank Swap.Route Swap.RouteProofs.
Local Open Scope Z_scope.

Section C03.
  Variable PS : Type.
  Variables (pq_in pq_out : PS -> Z -> Z -> Z -> res Z) (px_in px_out : PS -> Z -> Z -> Z -> res (Z * Z)).
  Variables (pn_in pn_out : PS -> Z -> Z -> Z -> PS) (pacct : Z -> Z) (sender : Z).
  Variable rate : Z.                     (* params.InterfaceFeeRate *)
  Variable v : variant.                  (* which of the C15 repairs of Validate / the queries are in the code *)
  Notation contract := (lp_contract PS pq_in pq_out px_in px_out pacct sender).
  Notation MsgIn := (msg_swap_in PS px_in pn_in pacct FIXED rate v sender).
  Notation MsgOut := (msg_swap_out PS pq_out px_out pn_out pacct FIXED rate v sender).
  Notation QueryIn := (query_in PS pq_in FIXED rate v).
  Notation QueryOut := (query_out PS pq_out FIXED rate v).

  (* exact_in_amounts: a successful Msg/SwapExactAmountIn on any valid route. The response
     names the route's denoms, amount_in and (gross - fee); the net amount is >= min_amount_out;
     every account that is not a pool custody account changes by exactly [swap_delta]: the
     sender by -amount_in / +gross - fee, the provider by +fee, everybody else by 0. *)
  Theorem C03_exact_in_amounts : contract -> forall prov r a minout s s' resp,
    MsgIn prov r a minout s = Ok (s', resp) ->
    let t := sr_tree resp in
    0 < a /\ 0 < minout /\
    rr_din t = r_in r /\ rr_dout t = r_out r /\ rr_ain t = a /\
    sr_amount resp = rr_aout t - sr_fee resp /\ minout <= sr_amount resp /\ 0 <= sr_fee resp /\
    (forall addr d, (forall pid, addr <> pacct pid) ->
       bal (bk s') addr d = bal (bk s) addr d +
         swap_delta sender prov (r_in r) (r_out r) a (rr_aout t) (sr_fee resp) addr d) /\
    (prov = None -> sr_fee resp = 0).
  Proof. exact (fun C => b_exact_in_amounts PS pq_in pq_out px_in px_out pn_in pn_out pacct sender C rate v). Qed.

  (* the same for the sender alone, in the words of the property *)
  Theorem C03_exact_in_sender : contract -> forall prov r a minout s s' resp,
    prov <> Some sender -> MsgIn prov r a minout s = Ok (s', resp) ->
    rr_ain (sr_tree resp) = a /\ minout <= sr_amount resp /\
    forall d, bal (bk s') sender d = bal (bk s) sender d
                + (if d =? r_out r then sr_amount resp else 0) - (if d =? r_in r then a else 0).
  Proof. exact (fun C => b_exact_in_sender PS pq_in pq_out px_in px_out pn_in pn_out pacct sender C rate v). Qed.

  (* exact_out_amounts: a successful Msg/SwapExactAmountOut. The sender receives gross - fee =
     exactly amount_out and pays the quoted input, which is <= max_amount_in. *)
  Theorem C03_exact_out_amounts : contract -> forall prov r maxin aout s s' resp,
    MsgOut prov r maxin aout s = Ok (s', resp) ->
    let t := sr_tree resp in
    0 < aout /\ 0 < maxin /\
    rr_din t = r_in r /\ rr_dout t = r_out r /\
    rr_aout t = aout + sr_fee resp /\ sr_amount resp = aout /\ rr_ain t <= maxin /\ 0 <= sr_fee resp /\
    (forall addr d, (forall pid, addr <> pacct pid) ->
       bal (bk s') addr d = bal (bk s) addr d +
         swap_delta sender prov (r_in r) (r_out r) (rr_ain t) (rr_aout t) (sr_fee resp) addr d) /\
    (prov = None -> sr_fee resp = 0).
  Proof. exact (fun C => b_exact_out_amounts PS pq_in pq_out px_in px_out pn_in pn_out pacct sender C rate v). Qed.

  Theorem C03_exact_out_sender : contract -> forall prov r maxin aout s s' resp,
    prov <> Some sender -> MsgOut prov r maxin aout s = Ok (s', resp) ->
    sr_amount resp = aout /\ rr_ain (sr_tree resp) <= maxin /\
    forall d, bal (bk s') sender d = bal (bk s) sender d
                + (if d =? r_out r then aout else 0) - (if d =? r_in r then rr_ain (sr_tree resp) else 0).
  Proof. exact (fun C => b_exact_out_sender PS pq_in pq_out px_in px_out pn_in pn_out pacct sender C rate v). Qed.

  (* only_input_needed: a sender who holds the input (amount_in, resp. the quoted input) and
     nothing else never meets an insufficient-funds failure, provided the pools can pay what
     they quote. ([width_ok]: fewer than 2*10^18 branches per parallel node.) *)
  Theorem C03_only_input_needed_in : contract -> forall prov r a minout s e,
    width_ok r = true -> a <= bal (bk s) sender (r_in r) -> funded PS sender s ->
    solvent_in PS px_in pacct (pools_of r) s ->
    MsgIn prov r a minout s = Err e -> e <> E_INSUFFICIENT.
  Proof. exact (fun C => b_only_input_needed_in PS pq_in pq_out px_in px_out pn_in pn_out pacct sender C rate v). Qed.

  Theorem C03_only_input_needed_out : contract -> forall prov r maxin aout s e t fee,
    calc_out PS pq_out FIXED rate (is_some prov) r aout s = Ok (t, fee) ->
    rr_ain t <= bal (bk s) sender (r_in r) -> funded PS sender s ->
    solvent_out PS px_out pacct (pools_of r) s ->
    MsgOut prov r maxin aout s = Err e -> e <> E_INSUFFICIENT.
  Proof. exact (fun C => b_only_input_needed_out PS pq_in pq_out px_in px_out pn_out pacct sender C rate v). Qed.

  (* quote_equals_execution: the query on the pre-state returns the response of the message
     (for exact-out the query's third field is the input amount). *)
  Theorem C03_quote_equals_execution_in : contract -> forall prov r a minout s s' resp,
    MsgIn prov r a minout s = Ok (s', resp) -> QueryIn (is_some prov) r a s = Ok resp.
  Proof. exact (fun C => b_quote_equals_execution_in PS pq_in pq_out px_in px_out pn_in pn_out pacct sender C rate v). Qed.

  Theorem C03_quote_equals_execution_out : contract -> forall prov r maxin aout s s' resp,
    MsgOut prov r maxin aout s = Ok (s', resp) ->
    QueryOut (is_some prov) r aout s =
      Ok {| sr_tree := sr_tree resp; sr_fee := sr_fee resp; sr_amount := rr_ain (sr_tree resp) |}.
  Proof. exact (fun C => b_quote_equals_execution_out PS pq_in pq_out px_in px_out pn_out pacct sender C rate v). Qed.

  (* The same settlement when the swap arrives over IBC (Keeper.SwapIncomingFund, called by the
     middleware after the route was validated): [sender] is then the swap module account, which
     holds the incoming amount of the input denom. incoming_fund_amounts: the receiver's net
     output is exactly amount_out (exact-out) resp. >= min_amount_out (exact-in), at most the
     incoming amount is spent, and every non-pool account changes by swap + fee + hand-over
     ([forward_delta]); so the module account keeps nothing of the output denom. *)
  Theorem C03_incoming_fund_amounts : contract -> forall receiver prov out r amt_in x s s' resp,
    validate_rec r = true ->
    swap_incoming_fund PS pq_out px_in px_out pn_in pn_out pacct FIXED rate sender receiver prov out r amt_in x s = Ok (s', resp) ->
    let t := sr_tree resp in
    sr_amount resp = rr_aout t - sr_fee resp /\ 0 <= sr_fee resp /\ rr_ain t <= amt_in /\
    (if out then sr_amount resp = x else rr_ain t = amt_in /\ x <= sr_amount resp) /\
    (forall addr d, (forall pid, addr <> pacct pid) ->
       bal (bk s') addr d = bal (bk s) addr d
         + swap_delta sender prov (r_in r) (r_out r) (rr_ain t) (rr_aout t) (sr_fee resp) addr d
         + forward_delta sender receiver (r_out r) (sr_amount resp) addr d).
  Proof. exact (fun C => b_incoming_fund_amounts PS pq_in pq_out px_in px_out pn_in pn_out pacct sender C rate). Qed.

  (* incoming_only_input: holding only the incoming input, the module account never meets an
     insufficient-funds failure in the hops, the fee transfer or the hand-over: every settlement
     step is funded by the steps before it *)
  Theorem C03_incoming_only_input : contract -> forall receiver prov (out : bool) r amt_in x s e,
    validate_rec r = true -> NoDup (pools_of r) -> width_ok r = true -> 0 <= amt_in -> 0 < x ->
    funded PS sender s -> solvent_in PS px_in pacct (pools_of r) s -> solvent_out PS px_out pacct (pools_of r) s ->
    (if out then exists t fee, calc_out PS pq_out FIXED rate (is_some prov) r x s = Ok (t, fee) /\
                               rr_ain t <= bal (bk s) sender (r_in r)
     else amt_in <= bal (bk s) sender (r_in r)) ->
    swap_incoming_fund PS pq_out px_in px_out pn_in pn_out pacct FIXED rate sender receiver prov out r amt_in x s = Err e ->
    e <> E_INSUFFICIENT.
  Proof. exact (fun C => b_incoming_only_input PS pq_in pq_out px_in px_out pn_in pn_out pacct sender C rate). Qed.
End C03.
Print Assumptions C03_exact_in_amounts.
Print Assumptions C03_exact_in_sender.
Print Assumptions C03_exact_out_amounts.
Print Assumptions C03_exact_out_sender.
Print Assumptions C03_only_input_needed_in.
Print Assumptions C03_only_input_needed_out.
Print Assumptions C03_quote_equals_execution_in.
Print Assumptions C03_quote_equals_execution_out.
Print Assumptions C03_incoming_fund_amounts.
Print Assumptions C03_incoming_only_input.

(* parallel_split_sums: positive weights, a non-negative exact amount: the branch amounts are
   >= 0, sum to the exact amount, one per branch. *)
Theorem C03_parallel_split_sums : forall ws a amts,
  0 <= a -> Forall (fun w => 0 < w) ws -> Z.of_nat (length ws) < 2 * P ->
  split FIXED ws a = Some amts ->
  Forall (fun x => 0 <= x) amts /\ sumz amts = a /\ length amts = length ws.
Proof. exact split_nonneg. Qed.
Print Assumptions C03_parallel_split_sums.

(* ---- regression statements about the code before the repairs (witnesses are also corpus
   cases of the harness and were reproduced on the unrepaired application) *)

(* defect 1: amountsExactSum was never accumulated; the last branch got the whole amount *)
Theorem C03_parallel_overcharge_prefix_refuted :
  split PREFIX [P; P] 100 = Some [50; 100] /\
  exists s' resp, msg_swap_in unit toy_x toy_n toy_pacct PREFIX 0 V0 1 None par11 100 1 toy_st = Ok (s', resp) /\
    rr_ain (sr_tree resp) = 100 /\ bal (bk s') 1 1 = bal (bk toy_st) 1 1 - 150.
Proof. exact (conj (proj1 parallel_split_prefix_witness) (proj1 parallel_overcharge_prefix_witness)). Qed.
Print Assumptions C03_parallel_overcharge_prefix_refuted.

(* defect 2: exact-out series were executed last hop first: the quote exists, the sender holds
   the quoted input, and the message fails for lack of the intermediate denom *)
Theorem C03_exact_out_series_order_prefix_refuted :
  msg_swap_out unit toy_q toy_x toy_n toy_pacct PREFIX 0 V0 1 None ser2 1000 10 toy_st = Err E_INSUFFICIENT /\
  exists t, calc_out unit toy_q PREFIX 0 false ser2 10 toy_st = Ok (t, 0) /\ rr_ain t = 10.
Proof. exact (conj (proj1 exact_out_series_order_prefix_witness) (proj1 (proj2 exact_out_series_order_prefix_witness))). Qed.
Print Assumptions C03_exact_out_series_order_prefix_refuted.

(* defect 3: if a pool hop consumes less than the exact input (contract clause lc_full_in
   broken), the response still reports amount_in while the sender paid less *)
Theorem C03_partial_fill_refuted :
  exists s' resp, msg_swap_in unit toy_partial toy_n toy_pacct FIXED 0 V0 1 None (RPool 1 2 0) 100 1 toy_st = Ok (s', resp) /\
    rr_ain (sr_tree resp) = 100 /\ bal (bk s') 1 1 = bal (bk toy_st) 1 1 - 99.
Proof. exact partial_fill_witness. Qed.
Print Assumptions C03_partial_fill_refuted.

(* non-vacuity: the contract is satisfiable (constant-price pools), the preconditions of
   only_input_needed hold on a concrete state, and both messages succeed on a nested route of
   depth 3 (parallel of series of parallel) with an interface provider and a 1% fee *)
Example C03_nonvacuous :
  lp_contract unit toy_q toy_q toy_x toy_x toy_pacct 1 /\
  funded unit 1 toy_st /\ solvent_in unit toy_x toy_pacct (pools_of nested_example) toy_st /\
  solvent_out unit toy_x toy_pacct (pools_of nested_example) toy_st /\
  validate V0 nested_example = Ok tt /\ width_ok nested_example = true /\
  (exists s' resp, msg_swap_in unit toy_x toy_n toy_pacct FIXED 10000000000000000 V0 1 (Some 5) nested_example 999 1 toy_st = Ok (s', resp) /\
     0 < sr_fee resp /\ bal (bk s') 5 3 = bal (bk toy_st) 5 3 + sr_fee resp) /\
  (exists s' resp, msg_swap_out unit toy_q toy_x toy_n toy_pacct FIXED 10000000000000000 V0 1 (Some 5) nested_example 1000 500 toy_st = Ok (s', resp) /\
     sr_amount resp = 500).
Proof.
  split; [exact toy_contract|]. split; [exact toy_funded|]. split; [apply toy_solvent_in|].
  split; [apply toy_solvent_out|]. exact nested_example_runs.
Qed.

Example C03_incoming_nonvacuous :
  exists s' resp, swap_incoming_fund unit toy_q toy_x toy_x toy_n toy_n toy_pacct FIXED 10000000000000000 1 7 (Some 5) true
                    nested_example 1000 500 toy_st = Ok (s', resp) /\
    sr_amount resp = 500 /\ bal (bk s') 7 3 = bal (bk toy_st) 7 3 + 500 /\ bal (bk s') 1 3 = 0 /\
    bal (bk s') 1 1 = 1000 - rr_ain (sr_tree resp).
Proof. exact incoming_example_runs. Qed.
