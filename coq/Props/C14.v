(* C14 — Replicated execution is deterministic.
   Only statements, each closed by [exact]; proofs live in Sys/Perm.v and Sys/DeterminismProofs.v.

   Shape of the claim.  A Go `for k, v := range m` runs its body over SOME permutation of the
   entries of m.  For every such loop that exists in consensus code of sunrise (enumerated from
   the sources by harness/trans/sites into Gen/Sites_gen.v on every run) the theorems below say:
   for ALL entry lists l, ALL permutations l' of l and ALL accumulator states, the loop produces
   the same result — errors and panics included.  The coverage theorems say that the enumeration
   contains no map range (and no use of time, randomness, goroutines, channels, floats, pointer
   values) in consensus code other than the loops proved here (same source text, by hash) and the
   individually reviewed sites.

   PARTIAL with respect to the property text: the text quantifies over executions of the Go
   program, for which there is no formal semantics here.  Goroutine scheduling, pointer values and
   floating point and process-local mutable state (package-level variables that can change after
   init) are excluded by enumeration (theorem C14_no_sched_ptr_float_sites_partial: there is no
   such construct in consensus-zone files), not by a semantic theorem; wall-clock time
   and randomness by enumeration plus review (three telemetry timers, one explicitly seeded PCG).
   The Cosmos SDK, ibc-go and CometBFT code underneath is covered only by the N-process run. *)
From Coq Require Import ZArith List Bool Permutation String.
From Sunrise Require Import Base.Outcome Base.Dec Sys.Coll Sys.Sites Sys.Perm Sys.Determinism Sys.DeterminismProofs.
From Sunrise Require Gen.Sites_gen.
Import ListNotations.
Local Open Scope Z_scope.

(* ---- the general principle: a loop body that commutes with itself (failures included) gives
   the same result for every iteration order *)
Theorem C14_commuting_body_any_order :
  forall (S A : Type) (f : S -> A -> res S) (I : S -> Prop) (P : A -> Prop),
  (forall s a s', I s -> P a -> f s a = Ok s' -> I s') ->
  (forall s a b, I s -> P a -> P b ->
     rbind (f s a) (fun s' => f s' b) = rbind (f s b) (fun s' => f s' a)) ->
  forall l l', Permutation l l' -> Forall P l -> forall s, I s -> foldM f l s = foldM f l' s.
Proof. exact foldM_perm. Qed.
Print Assumptions C14_commuting_body_any_order.

(* ---- append in map order, then sort.SliceStable on a key that is unique among the entries *)
Theorem C14_append_then_sort_any_order :
  forall (A : Type) (key : A -> Z) (l l' : list A),
  Permutation l l' -> NoDup (map key l) -> isort_by key l = isort_by key l'.
Proof. exact (fun A key => isort_by_perm key). Qed.
Print Assumptions C14_append_then_sort_any_order.

(* ---- x/liquidityincentive Keeper.Tally, range over currValidators (keeper_tally.go:101-122).
   tval_ok false: every stored weight parses and is >= 0 (MsgVoteGauge validation),
   0 <= deductions <= shares, 0 <= bonded tokens (staking invariants). *)
Theorem C14_gauge_tally_order_independent : forall l l' s,
  Permutation l l' -> Forall (tval_ok false) l -> tstate_ok s ->
  gauge_tally_loop l s = gauge_tally_loop l' s.
Proof. exact (tally_loop_order_independent false). Qed.
Print Assumptions C14_gauge_tally_order_independent.

(* ---- NewTallyResultFromMap + sort.SliceStable (keeper_tally.go:134-151); map keys are distinct *)
Theorem C14_gauge_results_order_independent : forall l l',
  Permutation l l' -> NoDup (map fst l) -> tally_results l = tally_results l'.
Proof. exact tally_results_order_independent. Qed.
Print Assumptions C14_gauge_results_order_independent.

(* ---- app/gov custom tally, range over validators (gov.go:132-146) *)
Theorem C14_gov_tally_order_independent : forall l l' s,
  Permutation l l' -> Forall (tval_ok true) l -> tstate_ok s ->
  gov_tally_loop l s = gov_tally_loop l' s.
Proof. exact (tally_loop_order_independent true). Qed.
Print Assumptions C14_gov_tally_order_independent.

(* ---- x/da TallyValidityProofs, range over shardProofCount (abci.go:214-236): the slice of
   safe shard indices comes out in map order, the fault set is order-free ... *)
Theorem C14_da_safe_shards_loop : forall c l l' s,
  Permutation l l' -> sm_ok (snd s) -> res_da_equiv (da_safe_loop c l s) (da_safe_loop c l' s).
Proof. exact da_safe_loop_order_independent. Qed.
Print Assumptions C14_da_safe_shards_loop.

(* ... and everything the function derives from that slice (REJECTED/VERIFIED by its length, the
   per-challenger refund decision by membership — checkCorrectInvalidity) and the fault set are
   the same for every iteration order *)
Theorem C14_da_item_order_independent : forall c l l' invs fault0,
  Permutation l l' -> sm_ok fault0 -> da_item c l invs fault0 = da_item c l' invs fault0.
Proof. exact da_item_order_independent. Qed.
Print Assumptions C14_da_item_order_independent.

(* ---- x/da fault counters, range over faultValidators (abci.go:310-321): keyed store writes *)
Theorem C14_da_fault_counters_order_independent : forall l l' store,
  Permutation l l' -> sm_ok store -> fault_count_loop l store = fault_count_loop l' store.
Proof. exact fault_count_loop_order_independent. Qed.
Print Assumptions C14_da_fault_counters_order_independent.

(* ---- app.BlockedAddresses (app.go:429-431): set insertion *)
Theorem C14_blocked_addresses_order_independent : forall l l' s,
  Permutation l l' -> sm_ok s -> blocked_loop l s = blocked_loop l' s.
Proof. exact blocked_loop_order_independent. Qed.
Print Assumptions C14_blocked_addresses_order_independent.

(* ---- coverage of the enumeration generated from the current sources *)
Theorem C14_map_ranges_covered_partial : forall s, In s Gen.Sites_gen.sites ->
  s_zone s = ZConsensus -> s_kind s = KMapRange ->
  (exists id, In (s_file s, s_func s, s_hash s, id) proved_sites /\ loop_statement id) \/
  (exists why, In (s_file s, s_func s, KMapRange, s_hash s, why) reviewed_sites).
Proof. exact map_ranges_covered. Qed.
Print Assumptions C14_map_ranges_covered_partial.

Theorem C14_other_sites_reviewed_partial : forall s, In s Gen.Sites_gen.sites ->
  s_kind s <> KUnknown /\
  (s_zone s = ZConsensus -> s_kind s <> KMapRange -> s_kind s <> KAnchor ->
   exists why, In (s_file s, s_func s, s_kind s, s_hash s, why) reviewed_sites).
Proof. exact other_sites_reviewed. Qed.
Print Assumptions C14_other_sites_reviewed_partial.

(* the sort after NewTallyResultFromMap, checkCorrectInvalidity, and every use of the slices /
   maps filled in map order are the code the models were written against (by hash) *)
Theorem C14_anchors_present_partial :
  forallb (anchor_present Gen.Sites_gen.sites) required_anchors = true.
Proof. exact anchors_present. Qed.
Print Assumptions C14_anchors_present_partial.

Theorem C14_no_sched_ptr_float_sites_partial :
  forallb (fun s => negb (consensus_zone s && is_sched_ptr_float (s_kind s))) Gen.Sites_gen.sites = true.
Proof. exact no_sched_ptr_float_sites. Qed.
Print Assumptions C14_no_sched_ptr_float_sites_partial.

(* ---- non-vacuity: concrete entries meeting every hypothesis, on >= 2 elements, with a
   non-trivial successful result that is the same for two different orders *)
Definition ex_v1 : tval := {| tv_votes := [(0, Some 500000000000000000); (2, Some 500000000000000000)];
  tv_shares := 8000000000000000000000000; tv_deduct := 3000000000000000000000000; tv_bonded := 7999999 |}.
Definition ex_v2 : tval := {| tv_votes := [(2, Some 333333333333333333); (1, Some 666666666666666667)];
  tv_shares := 6000000000000000000000000; tv_deduct := 0; tv_bonded := 6000000 |}.
Definition ex_v3 : tval := {| tv_votes := []; tv_shares := 5000000000000000000000000; tv_deduct := 0; tv_bonded := 5000000 |}.

Example C14_nonvacuous_tally :
  Forall (tval_ok false) [ex_v1; ex_v2; ex_v3] /\ tstate_ok ([(2, 1000000000000000000)], 1000000000000000000) /\
  exists r tot, gauge_tally_loop [ex_v1; ex_v2; ex_v3] ([(2, 1000000000000000000)], 1000000000000000000) = Ok (r, tot) /\
                gauge_tally_loop [ex_v3; ex_v2; ex_v1] ([(2, 1000000000000000000)], 1000000000000000000) = Ok (r, tot) /\
                List.length r = 3%nat /\ 1000000000000000000 < tot.
Proof.
  split; [|split].
  - repeat constructor; cbn; try discriminate; intros; discriminate.
  - split; [|split]; cbn.
    + split; [intros k []|exact I].
    + intros k v. destruct (k =? 2); [intros H; injection H as <-; discriminate|discriminate].
    + discriminate.
  - eexists. eexists. split; [vm_compute; reflexivity|]. split; [vm_compute; reflexivity|]. split; [reflexivity|reflexivity].
Qed.

Definition ex_da : da_ctx := {| dc_n := 8; dc_parity := 2; dc_rf := 5000000000000000000;
  dc_indexed := [(0, [0; 1; 2]); (1, [1; 2]); (5, [0; 2])]; dc_submitted := [(0, 0); (1, 1); (5, 2)] |}.

Example C14_nonvacuous_da :
  exists out, da_item ex_da [(0, 3); (1, 1); (5, 4)] [[0; 7]; [1; 6]] [] = Ok out /\
              da_item ex_da [(5, 4); (1, 1); (0, 3)] [[0; 7]; [1; 6]] [] = Ok out /\
              out = (true, [false; true], [(0, 0); (1, 1); (2, 2)]).
Proof. eexists. split; [vm_compute; reflexivity|]. split; vm_compute; reflexivity. Qed.

Example C14_nonvacuous_results :
  NoDup (map fst [(7, 1500000000000000000); (2, 999999999999999999); (5, 0)]) /\
  tally_results [(7, 1500000000000000000); (2, 999999999999999999); (5, 0)] = [(2, 0); (5, 0); (7, 1)] /\
  tally_results [(5, 0); (7, 1500000000000000000); (2, 999999999999999999)] = [(2, 0); (5, 0); (7, 1)].
Proof.
  split; [|split; vm_compute; reflexivity].
  cbn. repeat constructor; cbn; intuition discriminate.
Qed.

(* the enumeration is not empty: the six expected loops are all present in the current sources *)
Example C14_nonvacuous_sites :
  List.length (filter (fun s => consensus_zone s && kind_eqb (s_kind s) KMapRange && in_proved s) Gen.Sites_gen.sites) = 6%nat.
Proof. vm_compute. reflexivity. Qed.

(* the element hypotheses of the two tally theorems are needed, not decoration: an entry whose
   weight does not parse (the gauge tally returns an error) and an entry with zero delegator
   shares (division by zero panic) fail the block in either order, but with a different kind of
   failure. Neither entry is reachable through MsgVoteGauge / x/staking. *)
Example C14_tally_hypotheses_needed :
  let bad_weight := {| tv_votes := [(0, None)]; tv_shares := P; tv_deduct := 0; tv_bonded := 1 |} in
  let zero_shares := {| tv_votes := [(0, Some P)]; tv_shares := 0; tv_deduct := 0; tv_bonded := 1 |} in
  gauge_tally_loop [bad_weight; zero_shares] ([], 0) = Err 1 /\
  gauge_tally_loop [zero_shares; bad_weight] ([], 0) = Panic.
Proof. split; vm_compute; reflexivity. Qed.
