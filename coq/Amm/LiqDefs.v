(* Definitions for the liquidity bookkeeping invariant (C04): sums over open positions,
   the tick store read as a function, and the invariant itself, with its decision procedure. *)
From Coq Require Import ZArith Bool List Lia Sorted.
Import ListNotations.
From Sunrise Require Import Base.Outcome Base.Dec Amm.Math Amm.Pool.
Local Open Scope Z_scope.

Definition bnd (p : position) (t : Z) : bool := (pos_lower p =? t) || (pos_upper p =? t).
Definition covers (p : position) (t : Z) : bool := (pos_lower p <=? t) && (t <? pos_upper p).

Fixpoint gross_at (ps : list position) (t : Z) : Z :=
  match ps with [] => 0 | p :: r => (if bnd p t then pos_liq p else 0) + gross_at r t end.
Fixpoint net_at (ps : list position) (t : Z) : Z :=
  match ps with
  | [] => 0
  | p :: r => (if pos_lower p =? t then pos_liq p else 0) - (if pos_upper p =? t then pos_liq p else 0) + net_at r t
  end.
Fixpoint active (ps : list position) (tk : Z) : Z :=
  match ps with [] => 0 | p :: r => (if covers p tk then pos_liq p else 0) + active r tk end.
Fixpoint total (ps : list position) : Z :=
  match ps with [] => 0 | p :: r => pos_liq p + total r end.

Definition stored_gross (ts : list tick) (t : Z) : Z :=
  match find_tick ts t with Some x => t_gross x | None => 0 end.
Definition stored_net (ts : list tick) (t : Z) : Z :=
  match find_tick ts t with Some x => t_net x | None => 0 end.

Definition tick_lt (a b : tick) : Prop := t_index a < t_index b.
Definition pos_lt (a b : position) : Prop := pos_id a < pos_id b.

(* The bookkeeping invariant. Clause numbers follow the property text:
   (1) active liquidity = sum over positions whose range contains the current tick
   (2) every initialised tick's gross/net equal the sums over positions bounded by it,
       and a tick bounding no position is absent
   (4) accumulator shares = total liquidity of open positions
   (5) no position left => the pool is fully reset *)
Record LiqCore (s : amm) : Prop := {
  li_pos_ok : Forall (fun p => 0 <= pos_liq p /\ pos_lower p < pos_upper p) (a_positions s);
  li_pos_sorted : StronglySorted pos_lt (a_positions s);
  li_pos_fresh : Forall (fun p => pos_id p < a_next_id s) (a_positions s);
  li_ticks_sorted : StronglySorted tick_lt (a_ticks s);
  li_gross : forall t, stored_gross (a_ticks s) t = gross_at (a_positions s) t;
  li_net : forall t, stored_net (a_ticks s) t = net_at (a_positions s) t;
  li_active : p_liq (a_pool s) = active (a_positions s) (p_tick (a_pool s));
  li_shares : a_acc_shares s = total (a_positions s);
  li_empty : a_positions s = [] -> p_tick (a_pool s) = 0 /\ p_sqrt (a_pool s) = 0;
  li_haspos : a_positions s <> [] -> has_position (a_pool s) = true
}.

(* a tick bounding no position is absent *)
Definition Present (s : amm) : Prop :=
  forall t x, find_tick (a_ticks s) t = Some x -> gross_at (a_positions s) t <> 0.
Definition LiqInv (s : amm) : Prop := LiqCore s /\ Present s.

(* open positions hold strictly positive liquidity (true at message boundaries; inside
   Msg/CreatePosition a zero-liquidity record exists for a moment) *)
Definition StrictPos (s : amm) : Prop := Forall (fun p => 0 < pos_liq p) (a_positions s).
Definition Inv (s : amm) : Prop := LiqInv s /\ StrictPos s.

(* ---- boolean decision procedure (the run-time monitor) ---- *)
Fixpoint sorted_b {A} (key : A -> Z) (l : list A) : bool :=
  match l with
  | [] => true
  | x :: r => match r with [] => true | y :: _ => (key x <? key y) && sorted_b key r end
  end.
Definition all_ticks_ok (ps : list position) (ts : list tick) : bool :=
  forallb (fun x => (t_gross x =? gross_at ps (t_index x)) && (t_net x =? net_at ps (t_index x)) &&
                    negb (gross_at ps (t_index x) =? 0)) ts.
Definition all_bounds_present (ps : list position) (ts : list tick) : bool :=
  forallb (fun p => match find_tick ts (pos_lower p), find_tick ts (pos_upper p) with
                    | Some _, Some _ => true | _, _ => false end) ps.
Definition liq_inv_b (s : amm) : bool :=
  forallb (fun p => (0 <? pos_liq p) && (pos_lower p <? pos_upper p) && (pos_id p <? a_next_id s)) (a_positions s) &&
  sorted_b pos_id (a_positions s) && sorted_b t_index (a_ticks s) &&
  all_ticks_ok (a_positions s) (a_ticks s) && all_bounds_present (a_positions s) (a_ticks s) &&
  (p_liq (a_pool s) =? active (a_positions s) (p_tick (a_pool s))) &&
  (a_acc_shares s =? total (a_positions s)) &&
  (match a_positions s with [] => (p_tick (a_pool s) =? 0) && (p_sqrt (a_pool s) =? 0) | _ => has_position (a_pool s) end).
