package c15

import (
	"fmt"
	"math/big"

	sdkmath "cosmossdk.io/math"
	sdk "github.com/cosmos/cosmos-sdk/types"
	query "github.com/cosmos/cosmos-sdk/types/query"

	datypes "github.com/sunriselayer/sunrise/x/da/types"
	feetypes "github.com/sunriselayer/sunrise/x/fee/types"
	litypes "github.com/sunriselayer/sunrise/x/liquidityincentive/types"
	lptypes "github.com/sunriselayer/sunrise/x/liquiditypool/types"
	sdtypes "github.com/sunriselayer/sunrise/x/selfdelegation/types"
	sctypes "github.com/sunriselayer/sunrise/x/shareclass/types"
	swaptypes "github.com/sunriselayer/sunrise/x/swap/types"
	tctypes "github.com/sunriselayer/sunrise/x/tokenconverter/types"

	"verifharness/emit"
)

// State-dependent boundary requests.  The values a request is built from are read from the
// running application: for every pool its current tick and the ticks next to it, the bounds
// of its positions and their neighbours, ids up to one past the last, the stored liquidity of
// a position and its neighbours.  Every query of every custom module is driven this way, and
// the messages that take ticks / ids / amounts.

type poolView struct {
	pool  lptypes.Pool
	ticks []int64 // boundary ticks of this pool
}

type stateView struct {
	pools      []poolView
	positions  []lptypes.Position
	nPools     uint64
	nPositions uint64
	nEpochs    uint64
	maxShard   uint64
}

func (w *world) view() stateView {
	ctx := w.h.Ctx()
	k := w.h.App.LiquiditypoolKeeper
	var v stateView
	pools, err := k.GetAllPools(ctx)
	must(err)
	positions, err := k.GetAllPositions(ctx)
	must(err)
	v.positions = positions
	v.nPools, _ = k.GetPoolCount(ctx)
	v.nPositions, _ = k.GetPositionCount(ctx)
	v.nEpochs, _ = w.h.App.LiquidityincentiveKeeper.GetEpochCount(ctx)
	if p, err := w.h.App.DaKeeper.Params.Get(ctx); err == nil {
		v.maxShard = p.MaxShardCount
	}
	for _, p := range pools {
		set := map[int64]bool{}
		add := func(t int64) {
			for _, d := range []int64{-1, 0, 1} {
				set[t+d] = true
			}
		}
		add(p.CurrentTick)
		add(0)
		for _, pos := range positions {
			if pos.PoolId == p.Id {
				add(pos.LowerTick)
				add(pos.UpperTick)
			}
		}
		for _, ti := range k.GetAllInitializedTicksForPool(ctx, p.Id) {
			add(ti.TickIndex)
		}
		pv := poolView{pool: p}
		for t := range set {
			pv.ticks = append(pv.ticks, t)
		}
		// deterministic order
		for i := range pv.ticks {
			for j := i + 1; j < len(pv.ticks); j++ {
				if pv.ticks[j] < pv.ticks[i] {
					pv.ticks[i], pv.ticks[j] = pv.ticks[j], pv.ticks[i]
				}
			}
		}
		pv.ticks = append(pv.ticks, -999_999, 999_999, -1<<63, 1<<63-1)
		v.pools = append(v.pools, pv)
	}
	return v
}

// amounts: 0 / 1 / ordinary / large but below the magnitude of known finding KF1 / absurd
var probeAmounts = []string{"0", "1", "2", "1000", "1000000000000000000", "1000000000000000000000000000000",
	"170141183460469231731687303715884105728", "340282366920938463463374607431768211456",
	"115792089237316195423570985008687907853269984665640564039457584007913129639935", "-1"}

func amountInt(s string) sdkmath.Int {
	x, _ := sdkmath.NewIntFromString(s)
	return x
}

var pageVariants = []*query.PageRequest{nil, {}, {Limit: 1}, {Limit: 1, CountTotal: true}, {Offset: 1_000_000}, {Key: []byte{0xff, 0x01}},
	{Key: []byte{1}, Offset: 1}, {Reverse: true}, {Limit: ^uint64(0), CountTotal: true}, {Offset: ^uint64(0), Limit: 2}}

func ids(n uint64) []uint64 {
	out := []uint64{}
	for i := uint64(0); i <= n+1 && i < 12; i++ {
		out = append(out, i)
	}
	return append(out, n, n+1, 1<<63, ^uint64(0))
}

// mustProbes: the boundary requests that are always run (every pool state x the edges of that state).
func (w *world) mustProbes() []headCase {
	v := w.view()
	var out []headCase
	add := func(key string, req any, tag string) { out = append(out, headCase{key, req, "probe:" + tag}) }
	a0, a1 := w.p.accAddrs[0], w.p.accAddrs[1]
	val := w.p.valAddrs[0]
	for _, pv := range v.pools {
		p := pv.pool
		cur := p.CurrentTick
		st := fmt.Sprintf("pool%d", p.Id)
		// CalculationCreatePosition: ranges that end / start at the current tick, at its neighbours, at position bounds
		for _, t := range pv.ticks[:len(pv.ticks)-4] {
			for _, amt := range []string{"0", "1", "1000"} {
				add("liquiditypool.Query.CalculationCreatePosition", &lptypes.QueryCalculationCreatePositionRequest{PoolId: p.Id,
					LowerTick: fmt.Sprint(t - 10), UpperTick: fmt.Sprint(t), Amount: amt, Denom: p.DenomBase}, st+"/upper=edge/base")
				add("liquiditypool.Query.CalculationCreatePosition", &lptypes.QueryCalculationCreatePositionRequest{PoolId: p.Id,
					LowerTick: fmt.Sprint(t), UpperTick: fmt.Sprint(t + 10), Amount: amt, Denom: p.DenomQuote}, st+"/lower=edge/quote")
			}
			add("liquiditypool.Query.CalculationCreatePosition", &lptypes.QueryCalculationCreatePositionRequest{PoolId: p.Id,
				LowerTick: fmt.Sprint(t - 10), UpperTick: fmt.Sprint(t), Amount: "1000", Denom: p.DenomQuote}, st+"/upper=edge/quote")
			add("liquiditypool.Query.CalculationCreatePosition", &lptypes.QueryCalculationCreatePositionRequest{PoolId: p.Id,
				LowerTick: fmt.Sprint(t), UpperTick: fmt.Sprint(t + 10), Amount: "1000", Denom: p.DenomBase}, st+"/lower=edge/base")
			add("liquiditypool.Query.CalculationCreatePosition", &lptypes.QueryCalculationCreatePositionRequest{PoolId: p.Id,
				LowerTick: fmt.Sprint(t), UpperTick: fmt.Sprint(t + 1), Amount: "1000", Denom: p.DenomBase}, st+"/width1/base")
			// the same ranges as messages (discarded context)
			add("liquiditypool.Msg.CreatePosition", &lptypes.MsgCreatePosition{Sender: a1, PoolId: p.Id, LowerTick: t - 10, UpperTick: t,
				TokenBase: sdk.NewInt64Coin(p.DenomBase, 1000), TokenQuote: sdk.NewInt64Coin(p.DenomQuote, 1000),
				MinAmountBase: sdkmath.ZeroInt(), MinAmountQuote: sdkmath.ZeroInt()}, st+"/msg upper=edge")
			add("liquiditypool.Msg.CreatePosition", &lptypes.MsgCreatePosition{Sender: a1, PoolId: p.Id, LowerTick: t, UpperTick: t + 10,
				TokenBase: sdk.NewInt64Coin(p.DenomBase, 1000), TokenQuote: sdk.NewInt64Coin(p.DenomQuote, 0),
				MinAmountBase: sdkmath.ZeroInt(), MinAmountQuote: sdkmath.ZeroInt()}, st+"/msg lower=edge")
		}
		_ = cur
		// quotes and swaps through this pool, both directions
		for _, dir := range [][2]string{{p.DenomBase, p.DenomQuote}, {p.DenomQuote, p.DenomBase}} {
			rt := poolRoute(dir[0], dir[1], p.Id)
			for _, amt := range []string{"1", "1000", "1000000000000000000000000000000"} {
				for _, fee := range []bool{false, true} {
					r1, r2 := rt, rt
					add("swap.Query.CalculationSwapExactAmountIn", &swaptypes.QueryCalculationSwapExactAmountInRequest{HasInterfaceFee: fee, Route: &r1, AmountIn: amt}, st+"/quote in")
					add("swap.Query.CalculationSwapExactAmountOut", &swaptypes.QueryCalculationSwapExactAmountOutRequest{HasInterfaceFee: fee, Route: &r2, AmountOut: amt}, st+"/quote out")
				}
				add("swap.Msg.SwapExactAmountIn", &swaptypes.MsgSwapExactAmountIn{Sender: a1, Route: rt, AmountIn: amountInt(amt), MinAmountOut: sdkmath.OneInt()}, st+"/swap in")
				add("swap.Msg.SwapExactAmountOut", &swaptypes.MsgSwapExactAmountOut{Sender: a1, Route: rt, MaxAmountIn: amountInt("1000000000000000000000000000000"), AmountOut: amountInt(amt)}, st+"/swap out")
			}
		}
		add("liquiditypool.Query.PoolPositions", &lptypes.QueryPoolPositionsRequest{PoolId: p.Id}, st)
	}
	// amounts around the one that carries pool 4 across an initialised tick (found by bisection in setup)
	if w.edgeAmount > 0 {
		rt := poolRoute("urise", "uosmo", 4)
		for d := int64(-48); d <= 48; d++ {
			amt := fmt.Sprint(w.edgeAmount + d)
			r1 := rt
			add("swap.Msg.SwapExactAmountIn", &swaptypes.MsgSwapExactAmountIn{Sender: a1, Route: rt, AmountIn: amountInt(amt), MinAmountOut: sdkmath.OneInt()}, "pool4/cross tick")
			add("swap.Query.CalculationSwapExactAmountIn", &swaptypes.QueryCalculationSwapExactAmountInRequest{Route: &r1, AmountIn: amt}, "pool4/cross tick")
		}
	}
	for _, id := range ids(v.nPools) {
		add("liquiditypool.Query.Pool", &lptypes.QueryPoolRequest{Id: id}, "id")
		add("liquiditypool.Query.PoolPositions", &lptypes.QueryPoolPositionsRequest{PoolId: id}, "id")
		add("liquidityincentive.Msg.VoteGauge", &litypes.MsgVoteGauge{Sender: a1, PoolWeights: []litypes.PoolWeight{{PoolId: id, Weight: "1"}}}, "poolid")
		for _, e := range ids(v.nEpochs)[:4] {
			add("liquidityincentive.Query.Gauge", &litypes.QueryGaugeRequest{PreviousEpochId: e, PoolId: id}, "ids")
		}
	}
	for _, id := range ids(v.nPositions) {
		add("liquiditypool.Query.Position", &lptypes.QueryPositionRequest{Id: id}, "id")
		add("liquiditypool.Query.PositionFees", &lptypes.QueryPositionFeesRequest{Id: id}, "id")
		add("liquiditypool.Msg.ClaimRewards", &lptypes.MsgClaimRewards{Sender: a0, PositionIds: []uint64{id, id}}, "id twice")
		for _, amt := range []string{"0", "1", "1000", "170141183460469231731687303715884105728"} {
			add("liquiditypool.Query.CalculationIncreaseLiquidity", &lptypes.QueryCalculationIncreaseLiquidityRequest{Id: id, AmountIn: amt, DenomIn: "urise"}, "id x amount")
			add("liquiditypool.Query.CalculationIncreaseLiquidity", &lptypes.QueryCalculationIncreaseLiquidityRequest{Id: id, AmountIn: amt, DenomIn: "uosmo"}, "id x amount")
			add("liquiditypool.Msg.IncreaseLiquidity", &lptypes.MsgIncreaseLiquidity{Sender: a0, Id: id, AmountBase: amountInt(amt), AmountQuote: amountInt(amt),
				MinAmountBase: sdkmath.ZeroInt(), MinAmountQuote: sdkmath.ZeroInt()}, "id x amount")
		}
	}
	for _, pos := range v.positions {
		add("liquiditypool.Query.CalculationIncreaseLiquidity", &lptypes.QueryCalculationIncreaseLiquidityRequest{Id: pos.Id, AmountIn: "1000", DenomIn: allPoolDenoms[pos.PoolId][0]}, "own base")
		add("liquiditypool.Query.CalculationIncreaseLiquidity", &lptypes.QueryCalculationIncreaseLiquidityRequest{Id: pos.Id, AmountIn: "1000", DenomIn: allPoolDenoms[pos.PoolId][1]}, "own quote")
		liq, err := sdkmath.LegacyNewDecFromStr(pos.Liquidity)
		if err != nil {
			continue
		}
		ulp := sdkmath.LegacySmallestDec()
		for _, l := range []sdkmath.LegacyDec{sdkmath.LegacyZeroDec(), ulp, liq.Sub(ulp), liq, liq.Add(ulp), liq.QuoInt64(2), liq.Neg()} {
			add("liquiditypool.Msg.DecreaseLiquidity", &lptypes.MsgDecreaseLiquidity{Sender: pos.Address, Id: pos.Id, Liquidity: l.String()}, "liquidity edge")
		}
	}
	for _, e := range ids(v.nEpochs) {
		add("liquidityincentive.Query.Epoch", &litypes.QueryEpochRequest{Id: e}, "id")
		add("liquidityincentive.Query.Gauges", &litypes.QueryGaugesRequest{PreviousEpochId: e}, "id")
	}
	for _, pg := range pageVariants {
		add("liquidityincentive.Query.Epochs", &litypes.QueryEpochsRequest{Pagination: pg}, "page")
		add("liquidityincentive.Query.Gauges", &litypes.QueryGaugesRequest{PreviousEpochId: 0, Pagination: pg}, "page")
		add("liquidityincentive.Query.Votes", &litypes.QueryVotesRequest{Pagination: pg}, "page")
		add("liquiditypool.Query.Pools", &lptypes.QueryPoolsRequest{Pagination: pg}, "page")
		add("liquiditypool.Query.Positions", &lptypes.QueryPositionsRequest{Pagination: pg}, "page")
		add("swap.Query.IncomingInFlightPackets", &swaptypes.QueryIncomingInFlightPacketsRequest{Pagination: pg}, "page")
		add("swap.Query.OutgoingInFlightPackets", &swaptypes.QueryOutgoingInFlightPacketsRequest{Pagination: pg}, "page")
	}
	for _, a := range w.p.accAddrs {
		add("liquidityincentive.Query.Vote", &litypes.QueryVoteRequest{Address: a}, "addr")
		add("liquiditypool.Query.AddressPositions", &lptypes.QueryAddressPositionsRequest{Address: a}, "addr")
		add("selfdelegation.Query.SelfDelegationProxyAccountByOwner", &sdtypes.QuerySelfDelegationProxyAccountByOwnerRequest{OwnerAddress: a}, "addr")
		add("selfdelegation.Query.LockupAccountsByOwner", &sdtypes.QueryLockupAccountsByOwnerRequest{OwnerAddress: a}, "addr")
		add("shareclass.Query.AddressBonded", &sctypes.QueryAddressBondedRequest{Address: a}, "addr")
		add("shareclass.Query.AddressUnbonding", &sctypes.QueryAddressUnbondingRequest{Address: a}, "addr")
		add("shareclass.Query.ClaimableRewards", &sctypes.QueryClaimableRewardsRequest{Address: a, ValidatorAddress: val}, "addr")
		add("da.Query.Invalidity", &datypes.QueryInvalidityRequest{MetadataUri: "ipfs://item0", SenderAddress: a}, "addr")
		add("shareclass.Msg.ClaimRewards", &sctypes.MsgClaimRewards{Sender: a, ValidatorAddress: val}, "addr")
		for _, amt := range []string{"0", "1", "4999999", "5000000", "5000001", "1000000000000000000000000000000"} {
			add("shareclass.Msg.NonVotingUndelegate", &sctypes.MsgNonVotingUndelegate{Sender: a, ValidatorAddress: val, Amount: sdk.NewCoin("urise", amountInt(amt))}, "amount edge")
		}
	}
	for _, amt := range probeAmounts {
		x := amountInt(amt)
		add("shareclass.Query.CalculateBondingAmount", &sctypes.QueryCalculateBondingAmountRequest{ValidatorAddress: val, Share: x}, "amount")
		add("shareclass.Query.CalculateShare", &sctypes.QueryCalculateShareRequest{ValidatorAddress: val, Amount: x}, "amount")
		add("shareclass.Query.CalculateShare", &sctypes.QueryCalculateShareRequest{ValidatorAddress: sdk.ValAddress(w.h.Accts[2].Addr).String(), Amount: x}, "amount, unknown validator")
	}
	for _, uri := range []string{"ipfs://item0", "ipfs://challenged", "ipfs://none", ""} {
		add("da.Query.PublishedData", &datypes.QueryPublishedDataRequest{MetadataUri: uri}, "uri")
		add("da.Query.AllValidityProofs", &datypes.QueryAllValidityProofsRequest{MetadataUri: uri}, "uri")
		add("da.Query.AllInvalidity", &datypes.QueryAllInvalidityRequest{MetadataUri: uri}, "uri")
		add("da.Query.ValidityProof", &datypes.QueryValidityProofRequest{MetadataUri: uri, ValidatorAddress: val}, "uri")
		add("da.Msg.SubmitInvalidity", &datypes.MsgSubmitInvalidity{Sender: a1, MetadataUri: uri, Indices: []int64{0, 2, 3, -1}}, "uri, index edge")
	}
	shard := []uint64{0, 1, 2, 3}
	if v.maxShard > 0 && v.maxShard <= 1<<20 {
		shard = append(shard, v.maxShard-1, v.maxShard)
	}
	shard = append(shard, v.maxShard+1)
	for _, c := range shard {
		add("da.Query.ValidatorShardIndices", &datypes.QueryValidatorShardIndicesRequest{ValidatorAddress: val, ShardCount: c}, "shard count edge")
		add("da.Query.ZkpProofThreshold", &datypes.QueryZkpProofThresholdRequest{ShardCount: c}, "shard count edge")
	}
	for _, idx := range []int64{0, 2, 3, -1} {
		for _, sender := range []string{sdk.AccAddress(w.valBytes).String(), w.deputy, a1} {
			add("da.Msg.SubmitValidityProof", &datypes.MsgSubmitValidityProof{Sender: sender, ValidatorAddress: val,
				MetadataUri: "ipfs://challenged", Indices: []int64{idx}, Proofs: [][]byte{w.proofs[0]}}, "index edge")
			// a valid first proof, then the edge index
			add("da.Msg.SubmitValidityProof", &datypes.MsgSubmitValidityProof{Sender: sender, ValidatorAddress: val,
				MetadataUri: "ipfs://challenged", Indices: []int64{1, idx}, Proofs: [][]byte{w.proofs[1], w.proofs[0]}}, "index edge, second")
		}
	}
	add("da.Query.ProofDeputy", &datypes.QueryProofDeputyRequest{ValidatorAddress: val}, "validator")
	add("da.Query.AllPublishedData", &datypes.QueryAllPublishedDataRequest{}, "")
	for _, seq := range []uint64{0, 1, ^uint64(0)} {
		add("swap.Query.IncomingInFlightPacket", &swaptypes.QueryIncomingInFlightPacketRequest{SrcPortId: "transfer", SrcChannelId: "channel-7", Sequence: seq}, "seq")
		add("swap.Query.OutgoingInFlightPacket", &swaptypes.QueryOutgoingInFlightPacketRequest{SrcPortId: "transfer", SrcChannelId: "channel-7", Sequence: seq}, "seq")
	}
	add("da.Query.Params", &datypes.QueryParamsRequest{}, "")
	add("fee.Query.Params", &feetypes.QueryParamsRequest{}, "")
	add("liquidityincentive.Query.Params", &litypes.QueryParamsRequest{}, "")
	add("liquiditypool.Query.Params", &lptypes.QueryParamsRequest{}, "")
	add("selfdelegation.Query.Params", &sdtypes.QueryParamsRequest{}, "")
	add("shareclass.Query.Params", &sctypes.QueryParamsRequest{}, "")
	add("swap.Query.Params", &swaptypes.QueryParamsRequest{}, "")
	add("tokenconverter.Query.Params", &tctypes.QueryParamsRequest{}, "")
	return out
}

// genProbe draws one request from the boundary grid (all combinations, not only the ones of mustProbes).
func (w *world) genProbe(r *emit.Rand, v *stateView) headCase {
	pv := v.pools[r.Intn(len(v.pools))]
	p := pv.pool
	tick := func() int64 { return pv.ticks[r.Intn(len(pv.ticks))] }
	amt := func() string { return probeAmounts[r.Intn(len(probeAmounts))] }
	denom := func() string { return emit.Pick(r, p.DenomBase, p.DenomQuote, p.DenomBase, p.DenomQuote, "uvrise", "") }
	st := fmt.Sprintf("grid:pool%d", p.Id)
	switch r.Intn(8) {
	case 0, 1, 2:
		return headCase{"liquiditypool.Query.CalculationCreatePosition", &lptypes.QueryCalculationCreatePositionRequest{PoolId: p.Id,
			LowerTick: fmt.Sprint(tick()), UpperTick: fmt.Sprint(tick()), Amount: amt(), Denom: denom()}, st}
	case 3:
		lo, hi := tick(), tick()
		if r.Bool() && lo > hi {
			lo, hi = hi, lo
		}
		return headCase{"liquiditypool.Msg.CreatePosition", &lptypes.MsgCreatePosition{Sender: w.p.accAddrs[r.Intn(len(w.p.accAddrs))], PoolId: p.Id, LowerTick: lo, UpperTick: hi,
			TokenBase: sdk.Coin{Denom: p.DenomBase, Amount: amountInt(amt())}, TokenQuote: sdk.Coin{Denom: p.DenomQuote, Amount: amountInt(amt())},
			MinAmountBase: amountInt(emit.Pick(r, "0", "0", "1", "1000")), MinAmountQuote: amountInt(emit.Pick(r, "0", "0", "1"))}, st}
	case 4:
		id := ids(v.nPositions)[r.Intn(len(ids(v.nPositions)))]
		return headCase{"liquiditypool.Query.CalculationIncreaseLiquidity", &lptypes.QueryCalculationIncreaseLiquidityRequest{Id: id, AmountIn: amt(), DenomIn: denom()}, "grid:position"}
	case 5:
		dir := [2]string{p.DenomBase, p.DenomQuote}
		if r.Bool() {
			dir = [2]string{p.DenomQuote, p.DenomBase}
		}
		rt := poolRoute(dir[0], dir[1], p.Id)
		if r.Bool() {
			return headCase{"swap.Query.CalculationSwapExactAmountIn", &swaptypes.QueryCalculationSwapExactAmountInRequest{HasInterfaceFee: r.Bool(), Route: &rt, AmountIn: amt()}, st}
		}
		return headCase{"swap.Query.CalculationSwapExactAmountOut", &swaptypes.QueryCalculationSwapExactAmountOutRequest{HasInterfaceFee: r.Bool(), Route: &rt, AmountOut: amt()}, st}
	case 6:
		id := ids(v.nPositions)[r.Intn(len(ids(v.nPositions)))]
		return headCase{"liquiditypool.Msg.IncreaseLiquidity", &lptypes.MsgIncreaseLiquidity{Sender: w.p.accAddrs[0], Id: id, AmountBase: amountInt(amt()), AmountQuote: amountInt(amt()),
			MinAmountBase: amountInt(emit.Pick(r, "0", "1")), MinAmountQuote: amountInt("0")}, "grid:position"}
	default:
		dir := [2]string{p.DenomBase, p.DenomQuote}
		if r.Bool() {
			dir = [2]string{p.DenomQuote, p.DenomBase}
		}
		rt := poolRoute(dir[0], dir[1], p.Id)
		if r.Bool() {
			return headCase{"swap.Msg.SwapExactAmountIn", &swaptypes.MsgSwapExactAmountIn{Sender: w.p.accAddrs[1], Route: rt, AmountIn: amountInt(amt()), MinAmountOut: amountInt(emit.Pick(r, "1", "1000"))}, st}
		}
		return headCase{"swap.Msg.SwapExactAmountOut", &swaptypes.MsgSwapExactAmountOut{Sender: w.p.accAddrs[1], Route: rt, MaxAmountIn: amountInt(amt()), AmountOut: amountInt(amt())}, st}
	}
}

// ---------- LiquidityBase / LiquidityQuote called directly ----------

func decRaw(d sdkmath.LegacyDec) *big.Int { return d.BigInt() }

// genLiq draws (base?, amount, sqrtPriceA, sqrtPriceB): zero-width pairs, pairs one ulp apart,
// the sqrt prices of boundary ticks of the pools, extreme prices.
func (w *world) genLiq(r *emit.Rand, v *stateView) (bool, sdkmath.Int, sdkmath.LegacyDec, sdkmath.LegacyDec) {
	price := func() sdkmath.LegacyDec {
		switch r.Intn(8) {
		case 0:
			return sdkmath.LegacyOneDec()
		case 1:
			return sdkmath.LegacySmallestDec()
		case 2:
			return sdkmath.LegacyNewDec(10_000_000_000).MulInt64(1_000_000_000) // 1e19
		case 3:
			return sdkmath.LegacyZeroDec()
		case 4:
			return sdkmath.LegacyNewDecFromBigIntWithPrec(r.LogUniform(30), 18)
		default:
			pv := v.pools[r.Intn(len(v.pools))]
			t := pv.ticks[r.Intn(len(pv.ticks)-4)]
			if sp, err := lptypes.TickToSqrtPrice(t, pv.pool.TickParams); err == nil {
				return sp
			}
			if sp, err := sdkmath.LegacyNewDecFromStr(pv.pool.CurrentSqrtPrice); err == nil {
				return sp
			}
			return sdkmath.LegacyOneDec()
		}
	}
	a := price()
	b := a
	switch r.Intn(5) {
	case 0, 1: // zero width
	case 2:
		b = a.Add(sdkmath.LegacySmallestDec())
	case 3:
		b = a.Sub(sdkmath.LegacySmallestDec())
	default:
		b = price()
	}
	return r.Bool(), amountInt(probeAmounts[r.Intn(len(probeAmounts))]), a, b
}

func (w *world) runLiq(base bool, amount sdkmath.Int, a, b sdkmath.LegacyDec) (string, map[string]any, string) {
	var res sdkmath.LegacyDec
	cls, det := guard(func() error {
		if base {
			res = lptypes.LiquidityBase(amount, a, b)
		} else {
			res = lptypes.LiquidityQuote(amount, a, b)
		}
		return nil
	})
	obs, v := 0, big.NewInt(0)
	switch {
	case cls == clsOk:
		v = decRaw(res)
	case det == "division by zero":
		obs = 3
	case det == "Int overflow":
		obs = 4
	default:
		obs = 2
	}
	info := map[string]any{"kind": "liq", "base": base, "amount": amount.String(), "a": a.String(), "b": b.String(), "class": cls, "detail": det}
	return fmt.Sprintf("CLiq %s %s %s %s %d %s", emit.Bool(base), emit.Z(amount.BigInt()), emit.Z(decRaw(a)), emit.Z(decRaw(b)), obs, emit.Z(v)), info, fmt.Sprintf("liq:%d", obs)
}
