package c10

import (
	"fmt"
	"time"

	sdkmath "cosmossdk.io/math"
	banktypes "cosmossdk.io/x/bank/types"
	bankkeeper "cosmossdk.io/x/bank/keeper"
	sdk "github.com/cosmos/cosmos-sdk/types"
	authtypes "github.com/cosmos/cosmos-sdk/x/auth/types"

	sckeeper "github.com/sunriselayer/sunrise/x/shareclass/keeper"
	sctypes "github.com/sunriselayer/sunrise/x/shareclass/types"

	"verifharness/apph"
)

// spike: exploratory run printing what the real application does (development aid).
func spike() error {
	w := newWorld(3, 5)
	defer w.h.Close()
	h := w.h
	srv := sckeeper.NewMsgServerImpl(h.App.ShareclassKeeper)
	fmt.Println("validators", w.vals)
	me, _ := h.App.StakingKeeper.MaxEntries(h.Ctx())
	ut, _ := h.App.StakingKeeper.UnbondingTime(h.Ctx())
	fmt.Println("max entries", me, "unbonding", ut)
	del := func(u int, v int, amt int64) error {
		err := apph.Tx(h.Ctx(), func(ctx sdk.Context) error {
			_, e := srv.NonVotingDelegate(ctx, &sctypes.MsgNonVotingDelegate{Sender: h.Accts[u].Addr.String(), ValidatorAddress: w.vals[v], Amount: sdk.NewCoin("urise", sdkmath.NewInt(amt))})
			return e
		})
		fmt.Printf("delegate u%d v%d %d -> %v\n", u, v, amt, err)
		return err
	}
	undel := func(u int, v int, amt int64, rcp string) error {
		err := apph.Tx(h.Ctx(), func(ctx sdk.Context) error {
			r, e := srv.NonVotingUndelegate(ctx, &sctypes.MsgNonVotingUndelegate{Sender: h.Accts[u].Addr.String(), ValidatorAddress: w.vals[v], Amount: sdk.NewCoin("urise", sdkmath.NewInt(amt)), Recipient: rcp})
			if e == nil {
				fmt.Println("   completion", r.CompletionTime.Format(time.RFC3339Nano))
			}
			return e
		})
		fmt.Printf("undelegate u%d v%d %d -> %v\n", u, v, amt, err)
		return err
	}
	claim := func(u int, v int) error {
		var got sdk.Coins
		err := apph.Tx(h.Ctx(), func(ctx sdk.Context) error {
			r, e := srv.ClaimRewards(ctx, &sctypes.MsgClaimRewards{Sender: h.Accts[u].Addr.String(), ValidatorAddress: w.vals[v]})
			if e == nil {
				got = r.Amount
			}
			return e
		})
		fmt.Printf("claim u%d v%d -> %s %v\n", u, v, got, err)
		return err
	}
	show := func() {
		ctx := h.Ctx()
		mod := authtypes.NewModuleAddress(sctypes.ModuleName)
		fmt.Println("  module bal", h.App.BankKeeper.GetAllBalances(ctx, mod))
		for v, va := range w.vals {
			saver := sctypes.RewardSaverAddress(va)
			fmt.Printf("  v%d saver %s supply %s deleg %v entries %d\n", v, h.App.BankKeeper.GetAllBalances(ctx, saver),
				h.Supply(ctx, sctypes.NonVotingShareTokenDenom(va)), w.delegated(ctx, v), w.entries(ctx, v))
			valb, _ := h.App.StakingKeeper.ValidatorAddressCodec().StringToBytes(va)
			for _, d := range []string{"urise", "uvrise", "uusdc"} {
				m, err := h.App.ShareclassKeeper.RewardMultiplier.Get(ctx, collJoin(valb, d))
				if err == nil {
					fmt.Printf("     mult %s = %s\n", d, m)
				}
			}
		}
		ubs, _ := h.App.ShareclassKeeper.GetAllUnbondings(ctx)
		for _, u := range ubs {
			fmt.Println("  unbonding", u.Address[:14], u.CompletionTime.Format(time.RFC3339Nano), u.Amount)
		}
	}
	blk := func(dt time.Duration, fees sdk.Coins) error {
		if !fees.IsZero() {
			if err := h.App.BankKeeper.SendCoinsFromAccountToModule(h.Ctx(), h.Accts[4].Addr, authtypes.FeeCollectorName, fees); err != nil {
				return err
			}
		}
		err := w.block(dt)
		fmt.Printf("block +%v (h=%d t=%s) -> %v\n", dt, h.Height, h.Time.Format(time.RFC3339Nano), err)
		return err
	}
	fees := sdk.NewCoins(sdk.NewCoin("urise", sdkmath.NewInt(3_000_000)), sdk.NewCoin("uusdc", sdkmath.NewInt(500_000)))
	del(0, 0, 1_000_000)
	del(1, 0, 3_000_000)
	del(2, 1, 2_000_000)
	show()
	blk(1300*time.Millisecond, fees)
	blk(1300*time.Millisecond, nil)
	show()
	claim(0, 0)
	claim(0, 0)
	claim(0, 0)
	show()
	claim(1, 0)
	del(1, 0, 1)
	// transfer attempt
	bsrv := bankkeeper.NewMsgServerImpl(h.App.BankKeeper)
	err := apph.Tx(h.Ctx(), func(ctx sdk.Context) error {
		_, e := bsrv.Send(ctx, &banktypes.MsgSend{FromAddress: h.Accts[0].Addr.String(), ToAddress: h.Accts[3].Addr.String(),
			Amount: sdk.NewCoins(sdk.NewCoin(sctypes.NonVotingShareTokenDenom(w.vals[0]), sdkmath.NewInt(5)))})
		return e
	})
	fmt.Println("MsgSend share ->", err)
	// unbonding with sub-second completion
	undel(2, 1, 500_000, h.Accts[3].Addr.String())
	show()
	// 7 tiny undelegations in distinct blocks by user 0 on validator 0, then user 1 tries
	for i := 0; i < 7; i++ {
		undel(0, 0, 1, "")
		blk(1100*time.Millisecond, nil)
	}
	undel(1, 0, 1000, "")
	show()
	// jump to the same second as the first completion but before it
	ubs, _ := h.App.ShareclassKeeper.GetAllUnbondings(h.Ctx())
	first := ubs[0].CompletionTime
	target := time.Unix(first.Unix(), 0).UTC().Add(100 * time.Millisecond)
	fmt.Println("first completion", first.Format(time.RFC3339Nano), "target", target.Format(time.RFC3339Nano))
	if err := blk(target.Sub(h.Time), nil); err != nil {
		fmt.Println("EndBlock failed as suspected; retrying after completion")
		h.Height--
		h.Time = h.Time.Add(-target.Sub(h.Time))
	}
	show()
	blk(2*time.Second, nil)
	show()
	fmt.Println("recipient balance", h.App.BankKeeper.GetAllBalances(h.Ctx(), h.Accts[3].Addr))
	return nil
}
