#!/bin/sh
# confirm_mutant.sh <ID>: confirm a seeded change in its scratch worktree /tmp/mut/<ID>:
# builds, existing tests pass (demo skipped), demo fails with the change and passes without it.
id=$1; M=${MUTDIR:-/tmp/mut}; wt=$M/$id; out=$M/out/$id
export GOPROXY=off GOSUMDB=off GOTOOLCHAIN=local
cd $wt || exit 2
demo=$(git status --short | grep '_test.go' | awk '{print $2}' | head -5 | tr '\n' ' ')
echo "demo files: $demo"
run=$(grep -o "go test[^\"']*-run [A-Za-z0-9_|^]*[^\"']*" $out/demo/README* 2>/dev/null | head -1)
[ -z "$run" ] && run=$(python3 -c "import json;print([c for c in json.load(open('$out/meta.json'))['ran'] if '-run' in str(c)][0])" 2>/dev/null)
echo "demo cmd: $run"
echo "--- build"; timeout 1200 go build ./... && echo BUILD-OK
pk=$(git diff --name-only | grep -v _test.go | xargs -n1 dirname | sort -u | sed 's|^|./|' | tr '\n' ' ')
tname=$(echo "$run" | grep -o "\-run [^ ]*" | awk '{print $2}' | tr -d "'\"")
echo "--- existing tests of touched packages ($pk), demo skipped ($tname)"; timeout 2400 go test -vet=off -count=1 -skip "$tname" $pk 2>&1 | tail -5
echo "--- demo WITH change"; timeout 2400 sh -c "$run" 2>&1 | tail -4
git diff -- . ':(exclude)*_test.go' > $M/$id.srcpatch; git checkout -- $(git diff --name-only | grep -v _test.go)
echo "--- demo WITHOUT change"; timeout 2400 sh -c "$run" 2>&1 | tail -4
git apply $M/$id.srcpatch && echo "patch re-applied"
