(* Correspondence + monitors for C13 (mint, conversion). Evaluated by generated cases files. *)
From Coq Require Import ZArith List Bool.
Import ListNotations.
From Sunrise Require Export Base.Outcome Base.Dec Base.Bank Base.Check Econ.Mint Econ.Convert Econ.Ban.
Local Open Scope Z_scope.

(* observation of one MintFn call: fee minted, bond minted, stored last-mint second *)
Definition mint_obs := res (Z * Z * Z).

Definition mint_corr (i : mint_in) (o : mint_obs) : bool :=
  match mint_fn i, o with
  | Some m, Ok (f, b, l) => (mo_fee_minted m =? f) && (mo_bond_minted m =? b) && (mo_last m =? l)
  | None, Panic => true
  | _, _ => false
  end.

(* monitors: the statements of Props/C13.v on observed values *)
Definition mon_nonneg (o : mint_obs) : bool :=
  match o with Ok (f, b, _) => (0 <=? f) && (0 <=? b) | _ => true end.
Definition mon_cap (i : mint_in) (o : mint_obs) : bool :=
  match o with
  | Ok (f, b, _) =>
      let t := mi_fee_supply i + mi_bond_supply i in
      if t <=? SUPPLY_CAP then t + f + b <=? SUPPLY_CAP else (f + b =? 0)
  | _ => true end.
Definition secs_in (i : mint_in) : Z :=
  match mi_last i with Some l => unix (mi_now_ns i) - l | None => 60 end.
(* minted * year * 10^18 <= rate * supply * seconds *)
Definition mon_prorated (i : mint_in) (o : mint_obs) : bool :=
  match o, inflation_rate_cap (years_since_genesis GENESIS_NS (mi_now_ns i)) with
  | Ok (f, b, _), Some rate =>
      (f + b) * SECONDS_PER_YEAR * P <=? rate * (mi_fee_supply i + mi_bond_supply i) * secs_in i
  | _, _ => true end.
(* fee part is floor(ratio * minted): nothing lost, split by the ratio *)
Definition mon_split (i : mint_in) (o : mint_obs) : bool :=
  match o with
  | Ok (f, b, _) => (f * P <=? mi_ratio i * (f + b)) && (mi_ratio i * (f + b) <? f * P + P)
  | _ => true end.

(* nothing lost: fee part + bond part = the provision due (C13_mint_total_is_provision) *)
Definition mon_total (i : mint_in) (o : mint_obs) : bool :=
  match o, provision_of i with
  | Ok (f, b, _), Some p => f + b =? (if 0 <? p then p else 0)
  | _, _ => true end.

Record conv_obs := {
  co_reverse : bool; co_amount : Z;
  co_pre : list Z;    (* holder bond, holder fee, holder other, module bond, module fee,
                         supply bond, supply fee, bystander bond, bystander fee *)
  co_ok : bool;
  co_post : list Z }.

Definition BOND := 1. Definition FEE := 2. Definition OTHER := 3.
Definition HOLDER := 1. Definition MODACC := 2. Definition BYST := 3.
Definition nthz (l : list Z) (n : nat) : Z := nth n l 0.
Definition bank_of (l : list Z) : bank :=
  {| bal := fun a d =>
       if a =? HOLDER then (if d =? BOND then nthz l 0 else if d =? FEE then nthz l 1 else if d =? OTHER then nthz l 2 else 0)
       else if a =? MODACC then (if d =? BOND then nthz l 3 else if d =? FEE then nthz l 4 else 0)
       else if a =? BYST then (if d =? BOND then nthz l 7 else if d =? FEE then nthz l 8 else 0)
       else 0;
     sup := fun d => if d =? BOND then nthz l 5 else if d =? FEE then nthz l 6 else 0 |}.
Definition view (b : bank) : list Z :=
  [bal b HOLDER BOND; bal b HOLDER FEE; bal b HOLDER OTHER; bal b MODACC BOND; bal b MODACC FEE;
   sup b BOND; sup b FEE; bal b BYST BOND; bal b BYST FEE].

Definition conv_corr (c : conv_obs) : bool :=
  let b := bank_of (co_pre c) in
  let '(b', r) := if co_reverse c then do_convert_reverse BOND FEE MODACC (co_amount c) HOLDER b
                  else msg_convert BOND FEE MODACC (co_amount c) HOLDER b in
  Bool.eqb (is_ok r) (co_ok c) && zlist_eqb (view b') (co_post c).

(* monitor: exactly 1:1, atomic, nothing else moves *)
Definition mon_conv (c : conv_obs) : bool :=
  let p := co_pre c in let q := co_post c in let a := co_amount c in
  if co_ok c then
    let '(src, dst, ssrc, sdst) := if co_reverse c then (1, 0, 6, 5)%nat else (0, 1, 5, 6)%nat in
    (nthz q src =? nthz p src - a) && (nthz q dst =? nthz p dst + a) &&
    (nthz q ssrc =? nthz p ssrc - a) && (nthz q sdst =? nthz p sdst + a) &&
    (nthz q 2 =? nthz p 2) && (nthz q 3 =? nthz p 3) && (nthz q 4 =? nthz p 4) &&
    (nthz q 7 =? nthz p 7) && (nthz q 8 =? nthz p 8) && (0 <=? a)
  else zlist_eqb p q.

(* one step of a transfer-ban scenario: [gains] = for every user account other than the
   account the step legitimately credits, the increase of its balance of the send-disabled
   denom (bond token or a share token) over the step; [plain_send] = the step was a bank
   Msg/Send or Msg/MultiSend of that denom, [ok] = it succeeded *)
Record ban_obs := { bo_plain_send : bool; bo_ok : bool; bo_gains : list Z }.
(* the model: a plain send of a send-disabled denom fails *)
Definition ban_corr (c : ban_obs) : bool :=
  if bo_plain_send c then
    negb (is_ok (snd (msg_send (fun _ => false) {| bal := fun _ _ => 1000; sup := fun _ => 0 |} 1 2 1 1))) && negb (bo_ok c)
  else true.
(* monitor: no user account gains the send-disabled token from another account, whatever message *)
Definition mon_ban (c : ban_obs) : bool := forallb (fun g => g <=? 0) (bo_gains c).

(* one real block (FinalizeBlock) as seen from the mint: supplies and the STORED minter data before,
   supply deltas and stored data after; [bk_epoch] = the minute epoch began in this block (read
   from x/epochs: the epoch number advanced), i.e. the mint function ran; [bk_prev_mint] = time (s)
   of the previous block in which the minute epoch began, tracked by the harness from x/epochs
   (ghost, independent of what the mint function stores) *)
Record block_obs := {
  bk_fee : Z; bk_bond : Z; bk_stored : option Z; bk_now_ns : Z; bk_ratio : Z;
  bk_dfee : Z; bk_dbond : Z; bk_stored' : option Z; bk_epoch : bool; bk_prev_mint : option Z }.
Definition oz_eqb (a b : option Z) : bool :=
  match a, b with Some x, Some y => x =? y | None, None => true | _, _ => false end.
(* the minute epoch did not begin in this block: nothing minted, nothing stored; it did: the mint
   function ran on the stored minter and its new last-mint time was persisted, minted or not *)
Definition block_corr (b : block_obs) : bool :=
  if bk_epoch b then
    match mint_fn {| mi_fee_supply := bk_fee b; mi_bond_supply := bk_bond b; mi_last := bk_stored b;
                     mi_now_ns := bk_now_ns b; mi_ratio := bk_ratio b |} with
    | Some m => (mo_fee_minted m =? bk_dfee b) && (mo_bond_minted m =? bk_dbond b) &&
                oz_eqb (bk_stored' b) (Some (mo_last m))
    | None => false
    end
  else (bk_dfee b =? 0) && (bk_dbond b =? 0) && oz_eqb (bk_stored b) (bk_stored' b).
(* monitor: what a block mints never exceeds the inflation cap pro-rated to the time since the
   mint function last ran (the previous minute epoch), nor lifts the combined supply above the cap
   it was under *)
Definition mon_block_prorated (b : block_obs) : bool :=
  match bk_prev_mint b, inflation_rate_cap (years_since_genesis GENESIS_NS (bk_now_ns b)) with
  | Some prev, Some rate =>
      (bk_dfee b + bk_dbond b) * SECONDS_PER_YEAR * P <=? rate * (bk_fee b + bk_bond b) * (unix (bk_now_ns b) - prev)
  | _, _ => true
  end &&
  (0 <=? bk_dfee b) && (0 <=? bk_dbond b) &&
  ((SUPPLY_CAP <? bk_fee b + bk_bond b) || (bk_fee b + bk_bond b + bk_dfee b + bk_dbond b <=? SUPPLY_CAP)) &&
  ((bk_fee b + bk_bond b <=? SUPPLY_CAP) || ((bk_dfee b =? 0) && (bk_dbond b =? 0))) &&
  (* nothing lost: a block in which the minute epoch began mints exactly the provision due since the
     previous one (ghost time), split by the ratio *)
  (if bk_epoch b then
     match bk_prev_mint b with
     | Some prev =>
       match provision_of {| mi_fee_supply := bk_fee b; mi_bond_supply := bk_bond b; mi_last := Some prev;
                             mi_now_ns := bk_now_ns b; mi_ratio := bk_ratio b |} with
       | Some p => (bk_dfee b + bk_dbond b =? (if 0 <? p then p else 0)) &&
                   (bk_dfee b * P <=? bk_ratio b * (bk_dfee b + bk_dbond b)) &&
                   (bk_ratio b * (bk_dfee b + bk_dbond b) <? bk_dfee b * P + P)
       | None => true end
     | None => true end
   else true).

Inductive c13_case :=
| CMintBlock (b : block_obs)
| CMint (i : mint_in) (o : mint_obs)
| CConv (c : conv_obs)
| CBan (c : ban_obs).

Definition c13_check (c : c13_case) : list Z :=
  match c with
  | CMint i o =>
      flag 0 (mint_corr i o) ++ flag 1 (mon_nonneg o) ++ flag 2 (mon_cap i o) ++
      flag 3 (mon_prorated i o) ++ flag 4 (mon_split i o) ++ flag 5 (mon_total i o)
  | CConv c => flag 0 (conv_corr c) ++ flag 6 (mon_conv c)
  | CMintBlock b => flag 0 (block_corr b) ++ flag 8 (mon_block_prorated b)
  | CBan c => flag 0 (ban_corr c) ++ flag 7 (mon_ban c)
  end.

Definition run := run_cases c13_check.
