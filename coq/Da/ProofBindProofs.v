(* Proofs about Da/ProofBind.v: the handler accepts iff the lists have equal length and every
   (proof_i, hash[index_i]) pair is in range, unmarshals and verifies -- for either setting
   of the negative-index guard; with the guard it never panics, without it it panics exactly
   when the first offending entry is a negative index. *)
From Coq Require Import ZArith List Bool Lia.
From Sunrise Require Import Base.Outcome Da.ProofBind.
Import ListNotations.
Local Open Scope Z_scope.

Section Handler.
Variables P H : Type.
Variable parse : P -> bool.
Variable verify : P -> H -> bool.
Variable g : bool.

Local Notation checks := (check_proofs P H parse verify g).
Local Notation accept := (all_pairs_verify P H parse verify).

Lemma check_proofs_accepts_iff : forall indices proofs hashes,
  length indices = length proofs ->
  (checks indices proofs hashes = Ok tt <-> accept indices proofs hashes).
Proof.
  induction indices as [|j is' IH]; intros proofs hashes Hlen; destruct proofs as [|p ps'];
    simpl in Hlen; try discriminate.
  - simpl. split; auto.
  - simpl. destruct (parse p) eqn:Ep; simpl.
    2:{ split; [discriminate|]. intros [[Hp _] _]. discriminate. }
    destruct (Z.of_nat (length hashes) <=? j) eqn:Eo.
    { apply Z.leb_le in Eo. split; [discriminate|]. intros [[_ [Hr _]] _]. lia. }
    apply Z.leb_gt in Eo.
    destruct (j <? 0) eqn:En.
    { apply Z.ltb_lt in En. split; [destruct g; discriminate|]. intros [[_ [Hr _]] _]. lia. }
    apply Z.ltb_ge in En.
    destruct (nth_error hashes (Z.to_nat j)) as [h|] eqn:Eh.
    2:{ apply nth_error_None in Eh. lia. }
    destruct (verify p h) eqn:Ev.
    + rewrite IH by (injection Hlen; auto). split.
      * intro Ha. split; [|exact Ha]. split; [reflexivity|]. split; [lia|].
        exists h. split; [reflexivity|exact Ev].
      * intros [_ Ha]. exact Ha.
    + split; [discriminate|]. intros [[_ [_ [h' [Eh' Ev']]]] _].
      inversion Eh'; subst h'. rewrite Ev in Ev'. discriminate.
Qed.

Lemma accept_length : forall indices proofs hashes,
  accept indices proofs hashes -> length indices = length proofs.
Proof.
  induction indices as [|j is' IH]; intros proofs hashes Ha; destruct proofs as [|p ps'];
    simpl in *; try contradiction; [reflexivity|].
  f_equal. apply (IH _ hashes). tauto.
Qed.

Theorem proof_accepts_iff : forall indices proofs hashes,
  submit_checks P H parse verify g indices proofs hashes = Ok tt <->
  accept indices proofs hashes.
Proof.
  intros indices proofs hashes. unfold submit_checks.
  destruct (Nat.eqb (length indices) (length proofs)) eqn:El.
  - apply Nat.eqb_eq in El. apply check_proofs_accepts_iff. exact El.
  - apply Nat.eqb_neq in El. split; [discriminate|].
    intro Ha. apply accept_length in Ha. contradiction.
Qed.

End Handler.

(* with the guard the checks never panic *)
Theorem guarded_never_panics : forall (P H : Type) parse verify indices proofs hashes,
  submit_checks P H parse verify true indices proofs hashes <> Panic.
Proof.
  intros P H parse verify indices proofs hashes. unfold submit_checks.
  destruct (Nat.eqb (length indices) (length proofs)) eqn:El; [|discriminate].
  apply Nat.eqb_eq in El. revert proofs El.
  induction indices as [|j is' IH]; intros proofs El; destruct proofs as [|p ps'];
    simpl in El; try discriminate; simpl.
  destruct (parse p); simpl; [|discriminate].
  destruct (Z.of_nat (length hashes) <=? j) eqn:Eo; [discriminate|].
  destruct (j <? 0) eqn:En; [discriminate|].
  apply Z.leb_gt in Eo. apply Z.ltb_ge in En.
  destruct (nth_error hashes (Z.to_nat j)) as [h|] eqn:Eh.
  - destruct (verify p h); [|discriminate]. apply IH. injection El; auto.
  - apply nth_error_None in Eh. lia.
Qed.

(* the code as it is: a negative index reached by the loop is a run-time panic *)
Theorem unguarded_negative_index_panics : forall (P H : Type) parse verify (p : P) (hashes : list H) j,
  parse p = true -> j < 0 ->
  submit_checks P H parse verify false [j] [p] hashes = Panic.
Proof.
  intros P H parse verify p hashes j Hp Hj. unfold submit_checks. simpl.
  rewrite Hp. simpl.
  assert (E1 : (Z.of_nat (length hashes) <=? j) = false) by (apply Z.leb_gt; lia).
  assert (E2 : (j <? 0) = true) by (apply Z.ltb_lt; lia).
  rewrite E1, E2. reflexivity.
Qed.
