(* C06 proofs, part 2: well-formedness of the fee state is preserved by every operation, and the
   pool's fee account moves by exactly [received] - [claimed_by] on every successful operation
   (fees_to_fee_account); hence over every history balance = initial + receipts - payouts. *)
From Coq Require Import ZArith Bool List Lia ZifyBool.
Import ListNotations.
From Sunrise Require Import Base.Outcome Base.Dec Base.DecLemmas Amm.Math Amm.Pool Amm.LiqDefs Amm.LiqLists Amm.LiqInv
  Amm.Fees Amm.FeesVec Amm.FeesProofs Amm.FeesLoop.
Local Open Scope Z_scope.
Ltac Zify.zify_post_hook ::= Z.div_mod_to_equations.

(* ---------- small list facts ---------- *)
Lemma put_ap_wf l a : Forall ap_wf l -> ap_wf a -> Forall ap_wf (put_ap l a).
Proof.
  intros Hl Ha. induction Hl as [|x l Hx Hl IH]; cbn [put_ap]; [constructor; [assumption|constructor]|].
  destruct (ap_id x =? ap_id a); [constructor; assumption|].
  destruct (ap_id a <? ap_id x); constructor; try assumption. constructor; assumption.
Qed.
Lemma del_ap_wf l i : Forall ap_wf l -> Forall ap_wf (del_ap l i).
Proof.
  intros Hl. induction Hl as [|x l Hx Hl IH]; cbn [del_ap]; [constructor|].
  destruct (ap_id x =? i); [assumption|constructor; assumption].
Qed.
Lemma del_tick_wf l i : Forall tick_wf l -> Forall tick_wf (del_tick l i).
Proof.
  intros Hl. induction Hl as [|x l Hx Hl IH]; cbn [del_tick]; [constructor|].
  destruct (t_index x =? i); [assumption|constructor; assumption].
Qed.
Lemma vzero_nonneg : vnonneg vzero.
Proof. repeat constructor; lia. Qed.

(* transport of FeeWF along field equalities *)
Lemma fee_wf_fields s s' :
  a_acc_value s' = a_acc_value s -> a_ticks s' = a_ticks s -> a_acc_pos s' = a_acc_pos s ->
  a_bal_fee s' = a_bal_fee s -> a_bal_pool s' = a_bal_pool s -> a_bal_user s' = a_bal_user s ->
  FeeWF s -> FeeWF s'.
Proof. intros V T A F Pp U [H1 H3 H4 H5 H6 H7]. constructor; rewrite ?V, ?T, ?A, ?F, ?Pp, ?U; assumption. Qed.

(* ---------- entitlements are well-formed ---------- *)
Lemma fgo_len4 s lo up o : FeeWF s -> fee_growth_outside s lo up = Some o -> len4 o.
Proof.
  intros W H. eapply fgo_nth; [exact H|apply (fw_acc _ W)| |]; apply tgrowth_len4; first [apply (fw_acc _ W)|apply (fw_ticks _ W)].
Qed.
Lemma total_rewards_wf acc ap tot :
  len4 acc -> len4 (ap_value ap) -> len4 (ap_unclaimed ap) -> vnonneg (ap_unclaimed ap) ->
  total_rewards acc ap = Some tot -> len4 tot /\ vnonneg tot.
Proof.
  intros La Lv Lu Nu H. destruct (total_rewards_nth _ _ _ H La Lv Lu) as [->|(Hs & Lt & Nt)]; [split; [reflexivity|apply vzero_nonneg]|].
  split; [exact Lt|]. apply vnonneg_nth. intros i Hi. destruct (Nt i ltac:(unfold len4 in *; lia)) as (r & Hd & Hr & ->).
  assert (0 <= r) by (eapply dmul_nonneg; [exact Hd| |exact Hr]; lia).
  rewrite vnonneg_nth in Nu. specialize (Nu i ltac:(unfold len4 in *; lia)). lia.
Qed.
Lemma vtrunc_wf tot : len4 tot -> vnonneg tot ->
  len4 (fst (vtrunc tot)) /\ vnonneg (fst (vtrunc tot)) /\ len4 (snd (vtrunc tot)) /\ vnonneg (snd (vtrunc tot)).
Proof.
  intros Lt Nt. pose proof (vtrunc_nth tot) as H. destruct (vtrunc tot) as [c d]. destruct H as (Lc & Ld & N). cbn [fst snd].
  rewrite vnonneg_nth in Nt.
  split; [unfold len4 in *; congruence|]. split; [|split; [unfold len4 in *; congruence|]].
  - apply vnonneg_nth. intros i Hi. destruct (N i ltac:(lia)) as [-> _]. specialize (Nt i ltac:(lia)).
    rewrite Z.quot_div_nonneg by (unfold P; lia). apply Z.div_pos; unfold P; lia.
  - apply vnonneg_nth. intros i Hi. destruct (N i ltac:(lia)) as [_ ->]. specialize (Nt i ltac:(lia)).
    rewrite Z.quot_div_nonneg by (unfold P; lia). unfold P. lia.
Qed.

(* ---------- prepare_claim / collect_fees / the claim loop ---------- *)
Lemma prepare_claim_wf s pid s1 c : FeeWF s -> prepare_claim s pid = Ok (s1, c) ->
  FeeWF s1 /\ len4 c /\ vnonneg c /\
  a_bal_fee s1 = a_bal_fee s /\ a_bal_pool s1 = a_bal_pool s /\ a_bal_user s1 = a_bal_user s.
Proof.
  intros W H.
  destruct (prepare_claim_inv _ _ _ _ H) as (pos & ap0 & outside & v1 & tot & inside & Ep & Ea & Eo & Ev & Et & Ec & Ei & Hs1).
  pose proof (fgo_len4 _ _ _ _ W Eo) as Lo.
  assert (Hwf : ap_wf ap0) by (pose proof (fw_aps _ W) as X; rewrite Forall_forall in X; apply X; apply (find_ap_in _ _ _ Ea)).
  destruct Hwf as (Lval & Lun & Nun & Hsh).
  destruct (vadd_nth _ _ _ Ev ltac:(unfold len4 in *; congruence)) as [Lv1 _].
  destruct (vsafe_sub_nth _ _ _ Ei ltac:(pose proof (fw_acc _ W); unfold len4 in *; congruence)) as [Lin _].
  assert (Lin4 : len4 inside) by (pose proof (fw_acc _ W); unfold len4 in *; congruence).
  assert (Lv14 : len4 v1) by (unfold len4 in *; congruence).
  destruct (total_rewards_wf (a_acc_value s) (claim_ap pid ap0 v1) tot (fw_acc _ W) Lv14 Lun Nun Et) as [Lt Nt].
  destruct (vtrunc_wf _ Lt Nt) as (Lc & Nc & Ld & Nd).
  destruct (after_claim_pos_fields s pid ap0 inside) as (F1 & F2 & F3 & F4 & F5 & F6 & F7 & F8 & F9).
  assert (WA : FeeWF (after_claim_pos s pid ap0 inside)).
  { destruct W as [H1 H3 H4 H5 H6 H7]. constructor; rewrite ?F1, ?F4, ?F6, ?F7, ?F8; try assumption.
    unfold after_claim_pos. destruct (ap_shares ap0 =? 0); cbn [a_acc_pos set_acc_pos].
    - apply del_ap_wf; assumption.
    - apply put_ap_wf; [assumption|]. unfold ap_wf. cbn [ap_value ap_unclaimed ap_shares].
      split; [assumption|]. split; [reflexivity|]. split; [apply vzero_nonneg|assumption]. }
  subst c. destruct Hs1 as [->|(per & v & _ & Hne & Hper & Hv & ->)].
  - split; [exact WA|]. repeat split; assumption.
  - destruct (vquo_dec_trunc_nth _ _ _ Hper) as (_ & Lper & Nper).
    destruct (vadd_nth _ _ _ Hv ltac:(pose proof (fw_acc _ W); unfold len4 in *; congruence)) as [Lv Nv].
    split; [|repeat split; assumption].
    destruct WA as [H1 H3 H4 H5 H6 H7]. constructor; cbn [a_acc_value a_ticks a_acc_pos a_bal_fee a_bal_pool a_bal_user set_acc]; try assumption.
    pose proof (fw_acc _ W). unfold len4 in *. congruence.
Qed.

(* ---------- algebra on four-slot vectors ---------- *)
Lemma vplus_nth4 a b i : len4 a -> len4 b -> (i < 4)%nat -> vn (vplus a b) i = vn a i + vn b i.
Proof. unfold len4. intros A B Hi. apply vplus_nth; lia. Qed.
Lemma vminus_nth4 a b i : len4 a -> len4 b -> (i < 4)%nat -> vn (vminus a b) i = vn a i - vn b i.
Proof. unfold len4. intros A B Hi. apply vminus_nth; lia. Qed.
Lemma vec_ext4 a b : len4 a -> len4 b -> (forall i, (i < 4)%nat -> vn a i = vn b i) -> a = b.
Proof. unfold len4. intros A B H. apply vec_ext; [congruence|]. intros i Hi. apply H. lia. Qed.
Lemma vzero_len4 : len4 vzero. Proof. reflexivity. Qed.

Ltac solve_len := repeat first [assumption | apply vzero_len4 | apply vplus_len4 | apply vminus_len4].
Ltac vsolve :=
  apply vec_ext4; [solve_len | solve_len |
    let i := fresh "i" in let Hi := fresh "Hi" in intros i Hi;
    repeat first [rewrite vplus_nth4 by (first [exact Hi | solve_len])
                 |rewrite vminus_nth4 by (first [exact Hi | solve_len])
                 |rewrite vzero_nth]; try lia].

Lemma vminus_zero_r a : len4 a -> vminus a vzero = a.
Proof. intros A. vsolve. Qed.
Lemma vplus_zero_r a : len4 a -> vplus a vzero = a.
Proof. intros A. vsolve. Qed.

(* ---------- collect_fees and the claim loop ---------- *)
Lemma collect_fees_flow s sender pid s1 c : FeeWF s -> collect_fees s sender pid = Ok (s1, c) ->
  FeeWF s1 /\ len4 c /\ vnonneg c /\ a_bal_fee s1 = vminus (a_bal_fee s) c.
Proof.
  intros W H. unfold collect_fees in H.
  destruct (find_pos (a_positions s) pid) as [pos|]; [|discriminate].
  destruct (negb (pos_owner pos =? sender)); [discriminate|].
  destruct (prepare_claim s pid) as [[s0 c0]| |] eqn:Ep; cbn [rbind] in H; try discriminate.
  destruct (prepare_claim_wf _ _ _ _ W Ep) as (W0 & Lc & Nc & Bf & Bp & Bu).
  destruct (vis_zero c0) eqn:Ez.
  - injection H as <- <-. split; [exact W0|]. split; [reflexivity|]. split; [apply vzero_nonneg|].
    rewrite Bf. symmetry. apply vminus_zero_r. apply (fw_bal_fee _ W).
  - destruct (send s0 AFee AUser c0) as [s2| |] eqn:Es; cbn [rbind] in H; try discriminate. injection H as <- <-.
    destruct (send_spec _ _ _ _ _ Es) as ((Q&Ps&T&V&Sh&Ap&N) & Bf2 & _).
    destruct (send_lens _ _ _ _ _ Es Lc (fw_bal_fee _ W0) (fw_bal_pool _ W0) (fw_bal_user _ W0)) as (L1 & L2 & L3).
    split; [|split; [exact Lc|split; [exact Nc|]]].
    + destruct W0 as [H1 H3 H4 H5 H6 H7]. constructor; rewrite ?V, ?T, ?Ap; assumption.
    + rewrite Bf2. cbn [fee_after]. rewrite Bf. reflexivity.
Qed.

Lemma claim_loop_flow ids : forall s sender total s' c, FeeWF s -> len4 total ->
  claim_rewards_loop s sender ids total = Ok (s', c) ->
  FeeWF s' /\ len4 c /\ vplus (a_bal_fee s') c = vplus (a_bal_fee s) total.
Proof.
  induction ids as [|i tl IH]; intros s sender total s' c W Lt H; cbn [claim_rewards_loop] in H.
  - injection H as <- <-. split; [exact W|]. split; [exact Lt|reflexivity].
  - destruct (collect_fees s sender i) as [[s1 c1]| |] eqn:Ec; cbn [rbind] in H; try discriminate.
    destruct (collect_fees_flow _ _ _ _ _ W Ec) as (W1 & L1 & N1 & B1).
    destruct (IH s1 sender (vplus total c1) s' c W1 (vplus_len4 _ _ Lt L1) H) as (W' & Lc & B').
    split; [exact W'|]. split; [exact Lc|]. rewrite B', B1.
    pose proof (fw_bal_fee _ W). vsolve.
Qed.

Lemma msg_claim_flow s sender ids s' c : FeeWF s -> msg_claim_rewards s sender ids = Ok (s', c) ->
  FeeWF s' /\ len4 c /\ a_bal_fee s' = vminus (a_bal_fee s) c.
Proof.
  intros W H. unfold msg_claim_rewards in H. destruct ids as [|i tl]; [discriminate|].
  destruct (claim_loop_flow _ _ _ _ _ _ W vzero_len4 H) as (W' & Lc & B).
  split; [exact W'|]. split; [exact Lc|].
  pose proof (fw_bal_fee _ W) as L0. pose proof (fw_bal_fee _ W') as L1.
  assert (Hn : forall j, (j < 4)%nat -> vn (a_bal_fee s') j + vn c j = vn (a_bal_fee s) j).
  { intros j Hj. pose proof (f_equal (fun v => vn v j) B) as E. cbn beta in E.
    rewrite !vplus_nth4 in E by (first [exact Hj | solve_len]). rewrite vzero_nth in E. lia. }
  apply vec_ext4; [solve_len|solve_len|]. intros j Hj. rewrite vminus_nth4 by (first [exact Hj|solve_len]).
  specialize (Hn j Hj). lia.
Qed.

(* ---------- set_accum_position / update_position ---------- *)
Lemma set_accum_position_wf s lo up pid delta s' : FeeWF s -> set_accum_position s lo up pid delta = Ok s' -> FeeWF s'.
Proof.
  intros W H.
  destruct (set_accum_position_spec _ _ _ _ _ _ H) as (Ps & Q & T & N & Bp & Bf & Bu & V & Sh).
  assert (Haps : Forall ap_wf (a_acc_pos s')).
  { unfold set_accum_position in H.
    destruct (of_opt (fee_growth_outside s lo up)) as [outside| |] eqn:Eo; cbn [rbind] in H; try discriminate.
    apply of_opt_ok in Eo. pose proof (fgo_len4 _ _ _ _ W Eo) as Lo.
    destruct (of_opt (vsafe_sub (a_acc_value s) outside)) as [inside| |] eqn:Ei; cbn [rbind] in H; try discriminate.
    apply of_opt_ok in Ei. pose proof (fw_acc _ W) as La.
    destruct (vsafe_sub_nth _ _ _ Ei ltac:(unfold len4 in *; congruence)) as [Lin _].
    assert (Lin4 : len4 inside) by (unfold len4 in *; congruence).
    destruct (find_ap (a_acc_pos s) pid) as [ap0|] eqn:Ea.
    - assert (Hwf : ap_wf ap0) by (pose proof (fw_aps _ W) as X; rewrite Forall_forall in X; apply X; apply (find_ap_in _ _ _ Ea)).
      destruct Hwf as (Lval & Lun & Nun & Hsh).
      destruct (of_opt (vadd (ap_value ap0) outside)) as [v1| |] eqn:Ev; cbn [rbind] in H; try discriminate.
      apply of_opt_ok in Ev. destruct (vadd_nth _ _ _ Ev ltac:(unfold len4 in *; congruence)) as [Lv1 _].
      assert (Lv14 : len4 v1) by (unfold len4 in *; congruence).
      cbn [ap_shares] in H.
      destruct (delta =? 0); [discriminate|].
      destruct (Z.ltb_spec delta 0).
      + destruct (Z.ltb_spec (ap_shares ap0) (- delta)); [discriminate|].
        match type of H with rbind (of_opt ?c) _ = _ => destruct c as [un|] eqn:Eun; cbn [of_opt rbind] in H; try discriminate end.
        destruct (total_rewards_wf (a_acc_value s) {| ap_id := pid; ap_shares := ap_shares ap0; ap_value := v1; ap_unclaimed := ap_unclaimed ap0 |}
                    un La Lv14 Lun Nun Eun) as [Lu' Nu'].
        destruct (of_opt (dsub (ap_shares ap0) (- delta))) as [sh1| |] eqn:Es; cbn [rbind] in H; try discriminate.
        apply of_opt_ok in Es. apply dsub_some in Es.
        destruct (of_opt (dsub (a_acc_shares s) (- delta))) as [tot| |]; cbn [rbind] in H; try discriminate.
        injection H as <-. cbn [a_acc_pos set_acc set_acc_pos]. apply put_ap_wf; [apply (fw_aps _ W)|].
        unfold ap_wf. cbn [ap_value ap_unclaimed ap_shares]. repeat split; try assumption. lia.
      + match type of H with rbind (of_opt ?c) _ = _ => destruct c as [un|] eqn:Eun; cbn [of_opt rbind] in H; try discriminate end.
        destruct (total_rewards_wf (a_acc_value s) {| ap_id := pid; ap_shares := ap_shares ap0; ap_value := v1; ap_unclaimed := ap_unclaimed ap0 |}
                    un La Lv14 Lun Nun Eun) as [Lu' Nu'].
        destruct (of_opt (dadd (ap_shares ap0) delta)) as [sh1| |] eqn:Es; cbn [rbind] in H; try discriminate.
        apply of_opt_ok in Es. apply dadd_some in Es.
        destruct (of_opt (dadd (a_acc_shares s) delta)) as [tot| |]; cbn [rbind] in H; try discriminate.
        injection H as <-. cbn [a_acc_pos set_acc set_acc_pos]. apply put_ap_wf; [apply (fw_aps _ W)|].
        unfold ap_wf. cbn [ap_value ap_unclaimed ap_shares]. repeat split; try assumption. lia.
    - destruct (Z.leb_spec delta 0); [discriminate|].
      destruct (of_opt (dadd (a_acc_shares s) delta)) as [sh| |]; cbn [rbind] in H; try discriminate.
      injection H as <-. cbn [a_acc_pos set_acc set_acc_pos]. apply put_ap_wf; [apply (fw_aps _ W)|].
      unfold ap_wf. cbn [ap_value ap_unclaimed ap_shares]. split; [assumption|]. split; [reflexivity|]. split; [apply vzero_nonneg|lia]. }
  destruct W as [H1 H3 H4 H5 H6 H7]. constructor; rewrite ?V, ?T, ?Bf, ?Bp, ?Bu; assumption.
Qed.

Lemma upsert_tick_wf s i delta upper s' e : FeeWF s -> upsert_tick s i delta upper = Some (s', e) -> FeeWF s'.
Proof.
  intros W H. destruct (upsert_tick_fields _ _ _ _ _ _ H) as (Q & Ps & V & Sh & Ap & N & Bf & Bp & Bu & t' & Tt & _ & Gt).
  pose proof W as [H1 H3 H4 H5 H6 H7]. constructor; rewrite ?V, ?Ap, ?Bf, ?Bp, ?Bu; try assumption.
  rewrite Tt. apply put_tick_wf; [assumption|]. unfold tick_wf. rewrite Gt. apply tgrowth_len4; assumption.
Qed.

Lemma update_position_wf s0 lo up delta pid s5 ab aq le ue : FeeWF s0 ->
  update_position s0 lo up delta pid = Ok (s5, ab, aq, le, ue) ->
  FeeWF s5 /\ a_bal_fee s5 = a_bal_fee s0 /\ a_bal_pool s5 = a_bal_pool s0 /\ a_bal_user s5 = a_bal_user s0.
Proof.
  intros W H.
  destruct (update_position_inv _ _ _ _ _ _ _ _ _ _ H)
    as (s2 & pos & s4 & Ef & Hliq & Hd & Hps & (e1 & s1 & e2 & U1 & U2) & T4 & V4 & Sh4 & A4 & N4 & Bf4 & Bp4 & Bu4 & _ & Hacc).
  pose proof (upsert_tick_wf _ _ _ _ _ _ W U1) as W1. pose proof (upsert_tick_wf _ _ _ _ _ _ W1 U2) as W2.
  destruct (upsert_tick_fields _ _ _ _ _ _ U1) as (_ & _ & Va & _ & Aa & _ & Bfa & Bpa & Bua & _).
  destruct (upsert_tick_fields _ _ _ _ _ _ U2) as (_ & _ & Vb & _ & Ab & _ & Bfb & Bpb & Bub & _).
  assert (W4 : FeeWF s4).
  { apply (fee_wf_fields s2 s4); try congruence; try exact W2. }
  destruct (set_accum_position_spec _ _ _ _ _ _ Hacc) as (_ & _ & _ & _ & Bp & Bf & Bu & _ & _).
  split; [eapply set_accum_position_wf; eassumption|]. repeat split; congruence.
Qed.

(* ---------- compute_swap, inverted ---------- *)
Definition swap_st0 (s : amm) (specified : Z) : swap_state :=
  {| ss_remaining := dec_of_int specified; ss_calculated := 0; ss_sqrt := p_sqrt (a_pool s);
     ss_tick := p_tick (a_pool s); ss_liq := p_liq (a_pool s); ss_growth := 0; ss_fees := 0;
     ss_ticks := a_ticks s; ss_noprog := 0 |}.

Lemma compute_swap_inv s ei din dout specified fee ml upd r :
  compute_swap s ei din dout specified fee ml upd = Ok r ->
  has_position (a_pool s) = true /\ ((din = 0 /\ dout = 1) \/ (din = 1 /\ dout = 0)) /\
  exists limit st,
    sqrt_price_limit ml (din =? 0) = Ok limit /\
    swap_loop (length (iter_ticks (din =? 0) (a_ticks s) (p_tick (a_pool s))) + 300) ei (din =? 0) upd fee limit
      (p_tp (a_pool s)) (a_acc_value s) din (iter_ticks (din =? 0) (a_ticks s) (p_tick (a_pool s))) (swap_st0 s specified) = Ok st /\
    sr_ticks r = ss_ticks st /\ sr_fees r = ss_fees st /\ sr_growth r = ss_growth st /\
    sr_tick r = ss_tick st /\ sr_liq r = ss_liq st /\ sr_sqrt r = ss_sqrt st /\ 0 <= ss_remaining st /\
    (if ei then True else exists c, dceil (ss_calculated st) = Some c /\ sr_in r = dtrunc_int c).
Proof.
  unfold compute_swap. intros H.
  destruct (has_position (a_pool s)); cbn [negb] in H; [|discriminate]. split; [reflexivity|].
  destruct (((din =? 0) && (dout =? 1)) || ((din =? 1) && (dout =? 0))) eqn:Ed; cbn [negb] in H; [|discriminate].
  split; [lia|].
  destruct (sqrt_price_limit ml (din =? 0)) as [limit| |] eqn:Elim; cbn [rbind] in H; try discriminate.
  match type of H with (if ?c then _ else _) = _ => destruct c; [discriminate|] end.
  fold (swap_st0 s specified) in H.
  match type of H with rbind ?c _ = _ => destruct c as [st| |] eqn:El; cbn [rbind] in H; try discriminate end.
  destruct (Z.ltb_spec (ss_remaining st) 0); [discriminate|].
  destruct (0 <? ss_remaining st); [discriminate|].
  exists limit, st. split; [reflexivity|]. split; [exact El|].
  destruct ei.
  - destruct (of_opt (dsub (dec_of_int specified) (ss_remaining st))) as [used| |]; cbn [rbind] in H; try discriminate.
    destruct (of_opt (dceil used)) as [c| |]; cbn [rbind] in H; try discriminate.
    injection H as <-. cbn. repeat split; try reflexivity; assumption.
  - destruct (dceil (ss_calculated st)) as [c|] eqn:Ec; cbn [of_opt rbind] in H; try discriminate.
    destruct (of_opt (dsub (dec_of_int specified) (ss_remaining st))) as [got| |]; cbn [rbind] in H; try discriminate.
    injection H as <-. cbn. repeat split; try reflexivity; try assumption. exists c. split; reflexivity.
Qed.

Lemma in_iter_ticks b4q l cur x : In x (iter_ticks b4q l cur) -> In x l.
Proof.
  unfold iter_ticks. destruct b4q; intros H.
  - apply in_rev in H. apply filter_In in H. tauto.
  - apply filter_In in H. tauto.
Qed.

Lemma swap_loop_ticks_wf ei b4q upd fee limit tp accv din fuel iter st st' :
  len4 accv -> 0 <= din < 4 -> Forall tick_wf (ss_ticks st) -> Forall tick_wf iter ->
  swap_loop fuel ei b4q upd fee limit tp accv din iter st = Ok st' -> Forall tick_wf (ss_ticks st').
Proof.
  intros La Hd Ht Hi H.
  destruct (swap_loop_inv0 (fun it x => Forall tick_wf (ss_ticks x) /\ Forall tick_wf it) ei b4q upd fee limit tp accv din) with
    (fuel := fuel) (iter := iter) (st := st) (st' := st') as [it' [R _]]; [|split; assumption|exact H|exact R].
  clear Ht Hi H iter st st'. intros iter st iter' st' c r fc per [Ht Hi] E.
  destruct (loop_iter_inv _ _ _ _ _ _ _ _ _ _ _ _ _ _ _ _ E) as (nt & tl & nsp & spec & other & F).
  destruct F as [Fi _ _ _ _ _ _ Fc]. subst iter. inversion Hi as [|? ? Hnt Htl]; subst.
  destruct Fc as [(_ & _ & _ & -> & _ & _ & Hu)|(_ & _ & -> & _ & -> & _)]; [|split; assumption].
  split; [|exact Htl]. destruct upd; [|rewrite Hu; exact Ht].
  destruct Hu as (g1 & g2 & E1 & E2 & ->). apply put_tick_wf; [exact Ht|]. unfold tick_wf. cbn [t_growth].
  assert (Hcur : len4 (t_growth (cross_cur st nt))).
  { unfold cross_cur. destruct (find_tick (ss_ticks st) (t_index nt)) as [t|] eqn:Ef; [|exact Hnt].
    rewrite Forall_forall in Ht. apply Ht. apply (find_tick_in _ _ _ Ef). }
  pose proof (vsingle_length din (ss_growth st') Hd) as Ls.
  destruct (vadd_nth _ _ _ E1 ltac:(unfold len4 in *; congruence)) as [L1 _].
  destruct (vsub_nth _ _ _ E2 ltac:(unfold len4 in *; congruence)) as [L2 _].
  unfold len4 in *. congruence.
Qed.

Lemma compute_swap_ticks_wf s ei din dout specified fee ml upd r : FeeWF s ->
  compute_swap s ei din dout specified fee ml upd = Ok r -> Forall tick_wf (sr_ticks r) /\ 0 <= din < 2 /\ 0 <= dout < 2.
Proof.
  intros W H. destruct (compute_swap_inv _ _ _ _ _ _ _ _ _ H) as (_ & Hd & limit & st & _ & El & -> & _).
  split; [|lia]. refine (swap_loop_ticks_wf _ _ _ _ _ _ _ _ _ _ (swap_st0 s specified) st (fw_acc _ W) _ (fw_ticks _ W) _ El); [lia|].
  apply Forall_forall. intros x Hx. apply in_iter_ticks in Hx. pose proof (fw_ticks _ W) as X. rewrite Forall_forall in X. apply X. exact Hx.
Qed.

(* ---------- swap ---------- *)
Lemma send_one_raw_wf s from to d a s' : FeeWF s -> 0 <= d < 4 -> send_one_raw s from to d a = Ok s' ->
  FeeWF s' /\ a_bal_fee s' = fee_after from to (a_bal_fee s) (vsingle d a).
Proof.
  intros W Hd H. unfold send_one_raw in H. destruct (a <=? 0); [discriminate|].
  destruct (send_spec _ _ _ _ _ H) as ((Q&Ps&T&V&Sh&Ap&N) & Bf & _).
  destruct (send_lens _ _ _ _ _ H (vsingle_length d a Hd) (fw_bal_fee _ W) (fw_bal_pool _ W) (fw_bal_user _ W)) as (L1 & L2 & L3).
  split; [|exact Bf]. destruct W as [H1 H3 H4 H5 H6 H7]. constructor; rewrite ?V, ?T, ?Ap; assumption.
Qed.

Lemma swap_flow s ei din dout specified s' i o : FeeWF s ->
  swap s ei din dout specified true = Ok (s', i, o) ->
  FeeWF s' /\ len4 (swap_fee_coins s ei din dout specified) /\
  a_bal_fee s' = vplus (a_bal_fee s) (swap_fee_coins s ei din dout specified).
Proof.
  intros W H. unfold swap in H.
  destruct (din =? dout); [discriminate|].
  destruct (compute_swap s ei din dout specified (p_fee (a_pool s)) (if din =? 0 then MIN_MULT_SPOT else MAX_MULT_SPOT) true)
    as [r| |] eqn:Ec; cbn [rbind] in H; try discriminate.
  destruct (compute_swap_ticks_wf _ _ _ _ _ _ _ _ _ W Ec) as (Tw & Hdi & Hdo).
  assert (Hdi4 : 0 <= din < 4) by lia. assert (Hdo4 : 0 <= dout < 4) by lia.
  match type of H with (if ?c then _ else _) = _ => destruct c; [discriminate|] end.
  destruct (vadd (a_acc_value s) (vsingle din (sr_growth r))) as [accv|] eqn:Ea; cbn [of_opt rbind] in H; [|discriminate].
  destruct (dceil (sr_fees r)) as [fc|] eqn:Efc; cbn [of_opt rbind] in H; [|discriminate].
  set (s1 := set_acc (set_ticks s (sr_ticks r)) accv (a_acc_shares s)) in *.
  assert (W1 : FeeWF s1).
  { pose proof (vsingle_length din (sr_growth r) Hdi4) as Ls.
    destruct (vadd_nth _ _ _ Ea ltac:(pose proof (fw_acc _ W); unfold len4 in *; congruence)) as [La _].
    destruct W as [H1 H3 H4 H5 H6 H7]. constructor; subst s1; cbn; try assumption. unfold len4 in *. congruence. }
  destruct (send_one_raw s1 AUser APool din (sr_in r - dtrunc_int fc)) as [s2| |] eqn:E2; cbn [rbind] in H; try discriminate.
  destruct (send_one_raw_wf _ _ _ _ _ _ W1 Hdi4 E2) as [W2 B2]. cbn [fee_after] in B2.
  match type of H with rbind ?c _ = _ => destruct c as [s3| |] eqn:E3; cbn [rbind] in H; try discriminate end.
  destruct (send_one_raw s3 APool AUser dout (sr_out r)) as [s4| |] eqn:E4; cbn [rbind] in H; try discriminate.
  assert (H3 : FeeWF s3 /\ a_bal_fee s3 = vplus (a_bal_fee s) (swap_fee_coins s ei din dout specified) /\
               len4 (swap_fee_coins s ei din dout specified)).
  { unfold swap_fee_coins. rewrite Ec, Efc.
    destruct (Z.eqb_spec (dtrunc_int fc) 0).
    - injection E3 as <-. split; [exact W2|]. split; [|reflexivity]. rewrite B2. subst s1. cbn.
      symmetry. apply vplus_zero_r. apply (fw_bal_fee _ W).
    - destruct (send_one_raw_wf _ _ _ _ _ _ W2 Hdi4 E3) as [W3 B3]. cbn [fee_after] in B3.
      split; [exact W3|]. split; [rewrite B3, B2; subst s1; reflexivity|]. apply vsingle_length. lia. }
  destruct H3 as (W3 & B3 & L3).
  destruct (send_one_raw_wf _ _ _ _ _ _ W3 Hdo4 E4) as [W4 B4]. cbn [fee_after] in B4.
  repeat (match type of H with (if ?c then _ else _) = _ => destruct c; [discriminate|] end).
  injection H as <- _ _.
  split; [|split; [exact L3|cbn; rewrite B4; exact B3]].
  destruct W4 as [H1 H3 H4 H5 H6 H7]. constructor; cbn; assumption.
Qed.

(* ---------- incentive allocation ---------- *)
Lemma allocate_flow s coins s' : FeeWF s -> len4 coins -> allocate_incentive s coins = Ok s' ->
  FeeWF s' /\ a_bal_fee s' = vplus (a_bal_fee s) coins.
Proof.
  intros W Lc H. unfold allocate_incentive in H.
  destruct (has_position (a_pool s)); cbn [negb] in H; [|discriminate].
  destruct (p_liq (a_pool s) <=? 0); [discriminate|].
  destruct (vquo_dec_trunc (map dec_of_int coins) (p_liq (a_pool s))) as [g|] eqn:Eg; cbn [of_opt rbind] in H; [|discriminate].
  destruct (vadd (a_acc_value s) g) as [v|] eqn:Ev; cbn [of_opt rbind] in H; [|discriminate].
  destruct (vquo_dec_trunc_nth _ _ _ Eg) as (_ & Lg & _). rewrite map_length in Lg.
  destruct (vadd_nth _ _ _ Ev ltac:(pose proof (fw_acc _ W); unfold len4 in *; congruence)) as [Lv _].
  assert (W1 : FeeWF (set_acc s v (a_acc_shares s))).
  { pose proof (fw_acc _ W). destruct W as [H1 H3 H4 H5 H6 H7]. constructor; cbn; try assumption. unfold len4 in *. congruence. }
  destruct (send_spec _ _ _ _ _ H) as ((Q&Ps&T&V&Sh&Ap&N) & Bf & _).
  destruct (send_lens _ _ _ _ _ H Lc (fw_bal_fee _ W1) (fw_bal_pool _ W1) (fw_bal_user _ W1)) as (L1 & L2 & L3).
  split; [|exact Bf]. destruct W1 as [H1 H3 H4 H5 H6 H7]. constructor; rewrite ?V, ?T, ?Ap; assumption.
Qed.

(* ---------- position operations ---------- *)
Lemma send_wf s from to amts s' : FeeWF s -> len4 amts -> send s from to amts = Ok s' ->
  FeeWF s' /\ a_bal_fee s' = fee_after from to (a_bal_fee s) amts.
Proof.
  intros W La H.
  destruct (send_spec _ _ _ _ _ H) as ((Q&Ps&T&V&Sh&Ap&N) & Bf & _).
  destruct (send_lens _ _ _ _ _ H La (fw_bal_fee _ W) (fw_bal_pool _ W) (fw_bal_user _ W)) as (L1 & L2 & L3).
  split; [|exact Bf]. destruct W as [H1 H3 H4 H5 H6 H7]. constructor; rewrite ?V, ?T, ?Ap; assumption.
Qed.

Lemma decrease_flow s sender pid liq s' b q : FeeWF s -> decrease_liquidity s sender pid liq = Ok (s', b, q) ->
  FeeWF s' /\ len4 (collected s sender pid) /\ a_bal_fee s' = vminus (a_bal_fee s) (collected s sender pid).
Proof.
  intros W H. unfold decrease_liquidity in H.
  destruct (find_pos (a_positions s) pid) as [pos|]; [|discriminate].
  destruct (negb (pos_owner pos =? sender)); [discriminate|].
  destruct (liq <? 0); [discriminate|]. destruct (pos_liq pos <? liq); [discriminate|].
  destruct (collect_fees s sender pid) as [[s1 c]| |] eqn:Ec; cbn [rbind] in H; try discriminate.
  destruct (collect_fees_flow _ _ _ _ _ W Ec) as (W1 & Lc & Nc & B1).
  destruct (update_position s1 (pos_lower pos) (pos_upper pos) (- liq) pid) as [[[[[s2 ab] aq] le] ue]| |] eqn:Eu;
    cbn [rbind] in H; try discriminate.
  destruct (update_position_wf _ _ _ _ _ _ _ _ _ _ W1 Eu) as (W2 & B2 & _ & _).
  destruct (of_opt (chk_int (Z.abs ab))) as [x| |]; cbn [rbind] in H; try discriminate.
  destruct (send s2 APool AUser [Z.abs ab; Z.abs aq; 0; 0]) as [s3| |] eqn:Es; cbn [rbind] in H; try discriminate.
  destruct (send_wf _ _ _ [Z.abs ab; Z.abs aq; 0; 0] _ W2 (eq_refl : len4 [Z.abs ab; Z.abs aq; 0; 0]) Es) as [W3 B3]. cbn [fee_after] in B3.
  injection H as <- _ _.
  unfold collected. rewrite Ec. split; [|split; [exact Lc|]].
  - assert (W4 : FeeWF (if le then set_ticks s3 (del_tick (a_ticks s3) (pos_lower pos)) else s3)).
    { destruct le; [|exact W3]. destruct W3 as [H1 H3 H4 H5 H6 H7]. constructor; cbn; try assumption. apply del_tick_wf. assumption. }
    destruct ue; [|exact W4]. destruct W4 as [H1 H3 H4 H5 H6 H7]. constructor; cbn; try assumption. apply del_tick_wf. assumption.
  - destruct le, ue; cbn; congruence.
Qed.

Lemma create_flow s sender lo up base quote mb mq s' r : FeeWF s ->
  create_position s sender lo up base quote mb mq = Ok (s', r) ->
  FeeWF s' /\ a_bal_fee s' = a_bal_fee s.
Proof.
  intros W H. destruct r as [[[pid ab] aq] l].
  destruct (create_position_inv' _ _ _ _ _ _ _ _ _ _ _ _ _ H)
    as (s1 & delta & s3 & le & ue & -> & Hlt & V1 & T1 & A1 & N1 & P1 & Sh1 & Bf1 & Bp1 & Bu1 & _ & Hu & Hs).
  assert (W1 : FeeWF (set_next_id (set_positions s1 (put_pos (a_positions s1) (new_pos (a_next_id s) sender lo up))) (a_next_id s + 1))).
  { apply (fee_wf_fields s); cbn; try assumption. }
  destruct (update_position_wf _ _ _ _ _ _ _ _ _ _ W1 Hu) as (W3 & B3 & _ & _). cbn in B3.
  destruct (send_wf _ _ _ [ab; aq; 0; 0] _ W3 (eq_refl : len4 [ab; aq; 0; 0]) Hs) as [W4 B4]. cbn [fee_after] in B4.
  split; [exact W4|congruence].
Qed.

Lemma increase_flow s sender pid ab aq mb mq s' r : FeeWF s ->
  increase_liquidity s sender pid ab aq mb mq = Ok (s', r) ->
  FeeWF s' /\ len4 (collected s sender pid) /\ a_bal_fee s' = vminus (a_bal_fee s) (collected s sender pid).
Proof.
  intros W H. unfold increase_liquidity in H.
  destruct (find_pos (a_positions s) pid) as [pos|]; [|discriminate].
  destruct (negb (pos_owner pos =? sender)); [discriminate|].
  destruct ((ab <? 0) || (aq <? 0)); [discriminate|]. destruct ((ab =? 0) && (aq =? 0)); [discriminate|].
  destruct (decrease_liquidity s sender pid (pos_liq pos)) as [[[s1 wb] wq]| |] eqn:Ed; cbn [rbind] in H; try discriminate.
  destruct (decrease_flow _ _ _ _ _ _ _ W Ed) as (W1 & Lc & B1).
  destruct (create_flow _ _ _ _ _ _ _ _ _ _ W1 H) as (W2 & B2).
  split; [exact W2|]. split; [exact Lc|congruence].
Qed.

(* ---------- every operation ---------- *)
Definition op_wf (o : op) : Prop := match o with OAllocate coins => len4 coins | _ => True end.

(* fees_to_fee_account: the fee account moves by exactly [received] - [claimed_by] *)
Theorem fee_account_flow s o s' out : FeeWF s -> op_wf o -> step s o = (s', Ok out) ->
  FeeWF s' /\ len4 (received s o) /\ len4 (claimed_by s o) /\
  a_bal_fee s' = vminus (vplus (a_bal_fee s) (received s o)) (claimed_by s o).
Proof.
  intros W Ho H. pose proof (fw_bal_fee _ W) as Lb. unfold step in H. destruct o as [sender lo up b q mb mq|sender pid b q mb mq|sender pid l|sender ids|ei di do_ sp|coins]; cbn [received claimed_by].
  - destruct (create_position s sender lo up b q mb mq) as [[s1 [[[id ab] aq] l]]| |] eqn:E; cbn [rbind] in H; try discriminate.
    injection H as <- _. destruct (create_flow _ _ _ _ _ _ _ _ _ _ W E) as [W1 B1].
    split; [exact W1|]. split; [reflexivity|]. split; [reflexivity|]. rewrite B1. vsolve.
  - destruct (increase_liquidity s sender pid b q mb mq) as [[s1 [[[id ab] aq] l]]| |] eqn:E; cbn [rbind] in H; try discriminate.
    injection H as <- _. destruct (increase_flow _ _ _ _ _ _ _ _ _ W E) as (W1 & Lc & B1).
    split; [exact W1|]. split; [reflexivity|]. split; [exact Lc|]. rewrite B1. vsolve.
  - destruct (decrease_liquidity s sender pid l) as [[[s1 b] q]| |] eqn:E; cbn [rbind] in H; try discriminate.
    injection H as <- _. destruct (decrease_flow _ _ _ _ _ _ _ W E) as (W1 & Lc & B1).
    split; [exact W1|]. split; [reflexivity|]. split; [exact Lc|]. rewrite B1. vsolve.
  - destruct (msg_claim_rewards s sender ids) as [[s1 c]| |] eqn:E; cbn [rbind] in H; try discriminate.
    injection H as <- _. destruct (msg_claim_flow _ _ _ _ _ W E) as (W1 & Lc & B1).
    split; [exact W1|]. split; [reflexivity|]. split; [exact Lc|]. rewrite B1. vsolve.
  - destruct (swap s ei di do_ sp true) as [[[s1 i] o']| |] eqn:E; cbn [rbind] in H; try discriminate.
    injection H as <- _. destruct (swap_flow _ _ _ _ _ _ _ _ W E) as (W1 & Lc & B1).
    split; [exact W1|]. split; [exact Lc|]. split; [reflexivity|]. rewrite B1. vsolve.
  - destruct (allocate_incentive s coins) as [s1| |] eqn:E; cbn [rbind] in H; try discriminate.
    injection H as <- _. destruct (allocate_flow _ _ _ W Ho E) as (W1 & B1).
    split; [exact W1|]. split; [exact Ho|]. split; [reflexivity|]. rewrite B1. vsolve.
Qed.

Lemma step_failed s o s' r : step s o = (s', r) -> (forall out, r <> Ok out) -> s' = s.
Proof.
  unfold step. intros H Hn.
  destruct o; match type of H with (match ?c with _ => _ end) = _ => destruct c as [[? ?]| |]; injection H as <- <- end;
    try reflexivity; exfalso; eapply Hn; reflexivity.
Qed.

Theorem step_fee_wf s o : FeeWF s -> op_wf o -> FeeWF (fst (step s o)).
Proof.
  intros W Ho. destruct (step s o) as [s' r] eqn:E. cbn [fst]. destruct r as [out|e|].
  - apply (fee_account_flow _ _ _ _ W Ho E).
  - rewrite (step_failed _ _ _ _ E); [exact W|discriminate].
  - rewrite (step_failed _ _ _ _ E); [exact W|discriminate].
Qed.

(* over every history: balance + everything paid out = initial balance + everything received *)
Theorem ghost_run ops : forall s recv cl s' recv' cl',
  FeeWF s -> Forall op_wf ops -> len4 recv -> len4 cl ->
  run_ghost s recv cl ops = (s', recv', cl') ->
  FeeWF s' /\ len4 recv' /\ len4 cl' /\
  vplus (a_bal_fee s') (vplus cl' recv) = vplus (a_bal_fee s) (vplus recv' cl).
Proof.
  induction ops as [|o tl IH]; intros s recv cl s' recv' cl' W Ho Lr Lc H; cbn [run_ghost] in H.
  - injection H as <- <- <-. split; [exact W|]. split; [exact Lr|]. split; [exact Lc|].
    pose proof (fw_bal_fee _ W). vsolve.
  - inversion Ho as [|? ? Ho1 Ho2]; subst. destruct (step s o) as [s1 r] eqn:E. destruct r as [out|e|].
    + destruct (fee_account_flow _ _ _ _ W Ho1 E) as (W1 & L1 & L2 & B1).
      destruct (IH _ _ _ _ _ _ W1 Ho2 (vplus_len4 _ _ Lr L1) (vplus_len4 _ _ Lc L2) H) as (W' & Lr' & Lc' & B').
      split; [exact W'|]. split; [exact Lr'|]. split; [exact Lc'|].
      pose proof (fw_bal_fee _ W) as Lb. pose proof (fw_bal_fee _ W') as Lb'. pose proof (fw_bal_fee _ W1) as Lb1.
      apply vec_ext4; [solve_len|solve_len|]. intros i Hi.
      pose proof (f_equal (fun v => vn v i) B') as E1. pose proof (f_equal (fun v => vn v i) B1) as E2. cbn beta in E1, E2.
      repeat first [rewrite vplus_nth4 in E1 by (first [exact Hi|solve_len]) | rewrite vminus_nth4 in E1 by (first [exact Hi|solve_len])].
      repeat first [rewrite vplus_nth4 in E2 by (first [exact Hi|solve_len]) | rewrite vminus_nth4 in E2 by (first [exact Hi|solve_len])].
      repeat first [rewrite vplus_nth4 by (first [exact Hi|solve_len]) | rewrite vminus_nth4 by (first [exact Hi|solve_len])].
      lia.
    + rewrite (step_failed _ _ _ _ E) in H by discriminate. eapply IH; eassumption.
    + rewrite (step_failed _ _ _ _ E) in H by discriminate. eapply IH; eassumption.
Qed.
