// Package c04: pool liquidity bookkeeping — histories on the real x/liquiditypool.
package c04

import (
	"fmt"
	"math/big"

	sdkmath "cosmossdk.io/math"
	sdk "github.com/cosmos/cosmos-sdk/types"

	"verifharness/amm"
	"verifharness/emit"
)

// gapCorpus (every run): a pool that keeps positions but none in range must keep its price when a
// new position arrives with another amount ratio; a pool whose LAST position is removed while it is
// out of range must be reset like any other emptied pool, and the next first position sets the price.
func gapCorpus(w *amm.World, cf *emit.CasesFile, st *emit.Stats) error {
	p, err := w.CreatePool("uusdc", "uosmo", "0.003", "1.0001", "0")
	if err != nil {
		return err
	}
	ctx := w.H.Ctx()
	e9 := big.NewInt(1_000_000_000)
	z := big.NewInt(0)
	var ids []uint64
	step := func(o amm.Op, must bool) error {
		term, err := w.Step(ctx, p, o, must)
		cf.Add(term)
		info := o.Info()
		info["pool"] = p.ID
		if err != nil {
			info["err"] = err.Error()
			st.Count(o.Kind + ":err")
		} else {
			st.Count(o.Kind + ":ok")
		}
		st.Info(info)
		st.Evaluations++
		st.Nontriv("corpus/" + o.Tag)
		// a step that should succeed and does not is an observation (c_must_ok), not a reason to stop
		return nil
	}
	create := func(s int, lo, up int64, b, q *big.Int, tag string) error {
		if err := step(amm.Op{Kind: "create", Sender: s, Lower: lo, Upper: up, Base: b, Quote: q, MinBase: z, MinQuote: z, Tag: tag}, true); err != nil {
			return err
		}
		poss, _ := w.K.GetPositionsByPool(ctx, p.ID)
		ids = ids[:0]
		for _, q := range poss {
			ids = append(ids, q.Id)
		}
		return nil
	}
	closeAll := func(idx int, tag string) error {
		poss, _ := w.K.GetPositionsByPool(ctx, p.ID)
		if idx >= len(poss) {
			return nil
		}
		q := poss[idx]
		owner := 0
		for i, a := range w.H.Accts {
			if a.Addr.String() == q.Address {
				owner = i
			}
		}
		d, err := sdkmath.LegacyNewDecFromStr(q.Liquidity)
		if err != nil {
			return fmt.Errorf("bad liquidity %q", q.Liquidity)
		}
		liq := d.BigInt()
		return step(amm.Op{Kind: "decrease", Sender: owner, Pid: q.Id, Liq: liq, Tag: tag}, true)
	}
	three := new(big.Int).Mul(big.NewInt(3), e9)
	if err := create(0, -50, 50, e9, e9, "gap/A-in-range"); err != nil {
		return err
	}
	if err := create(1, 200, 300, e9, z, "gap/B-above"); err != nil {
		return err
	}
	if err := create(2, -300, -200, z, e9, "gap/D-below"); err != nil {
		return err
	}
	if err := closeAll(0, "gap/A-withdrawn-leaves-gap"); err != nil {
		return err
	}
	// C offers amounts in the ratio of the price at tick 250 (inside B's range) on a range around it:
	// at the pool's real price (tick 0) that range is above the price and takes base only
	if err := create(0, 150, 350, e9, big.NewInt(1_025_300_000), "gap/C-created-in-gap-other-ratio"); err != nil {
		return err
	}
	if err := create(2, -20, 30, three, e9, "gap/E-created-around-the-price-other-ratio"); err != nil {
		return err
	}
	_ = step(amm.Op{Kind: "swap", Sender: 1, ExactIn: true, DenomIn: 0, Amount: big.NewInt(1000), Tag: "gap/swap-base-in"}, false)
	_ = step(amm.Op{Kind: "swap", Sender: 1, ExactIn: true, DenomIn: 1, Amount: big.NewInt(5000), Tag: "gap/swap-quote-in"}, false)
	// withdraw everything, the out-of-range position D last
	for _, tag := range []string{"gap/close-1", "gap/close-2", "gap/close-3"} {
		poss, _ := w.K.GetPositionsByPool(ctx, p.ID)
		idx := -1
		for i, q := range poss {
			if q.LowerTick != -300 {
				idx = i
			}
		}
		if idx < 0 {
			break
		}
		if err := closeAll(idx, tag); err != nil {
			return err
		}
	}
	if err := closeAll(0, "gap/last-position-out-of-range-withdrawn"); err != nil {
		return err
	}
	return create(1, -40, 60, e9, three, "gap/first-position-on-the-emptied-pool")
}

// sharedTickCorpus (seeded C04-r8): adjacent ranges that share a boundary tick - upper bound of one
// position, lower bound of another - with a withdrawal that makes the liquidity ending at that
// tick exactly equal to the liquidity starting there (net 0, gross > 0): the tick still bounds open
// positions and must stay, with gross and net equal to the sums over them; then further
// withdrawals touching it, a swap across it and the closing of everything. Both with the price
// inside the lower range and inside the upper one.
func sharedTickCorpus(w *amm.World, cf *emit.CasesFile, st *emit.Stats) error {
	z := big.NewInt(0)
	e9 := big.NewInt(1_000_000_000)
	for _, shared := range []int64{40, -40} {
		p, err := w.CreatePool("uatom", "uosmo", "0.003", "1.0001", "0")
		if err != nil {
			return err
		}
		ctx := w.H.Ctx()
		step := func(o amm.Op, must bool) {
			term, err := w.Step(ctx, p, o, must)
			cf.Add(term)
			info := o.Info()
			info["pool"] = p.ID
			if err != nil {
				info["err"] = err.Error()
				st.Count(o.Kind + ":err")
			} else {
				st.Count(o.Kind + ":ok")
			}
			st.Info(info)
			st.Evaluations++
			st.Nontriv(fmt.Sprintf("corpus/%s/%d", o.Tag, shared))
		}
		liqOf := func(lo, up int64) (uint64, *big.Int, int) {
			poss, _ := w.K.GetPositionsByPool(ctx, p.ID)
			for _, q := range poss {
				if q.LowerTick == lo && q.UpperTick == up {
					d, _ := sdkmath.LegacyNewDecFromStr(q.Liquidity)
					owner := 0
					for i, a := range w.H.Accts {
						if a.Addr.String() == q.Address {
							owner = i
						}
					}
					return q.Id, d.BigInt(), owner
				}
			}
			return 0, big.NewInt(0), 0
		}
		three := new(big.Int).Mul(big.NewInt(3), e9)
		// first position fixes the price at tick 0; A ends at the shared tick, B starts there
		step(amm.Op{Kind: "create", Sender: 0, Lower: -100, Upper: 100, Base: e9, Quote: e9, MinBase: z, MinQuote: z, Tag: "shared-tick/wide"}, true)
		lo, up := shared-30, shared+30
		step(amm.Op{Kind: "create", Sender: 1, Lower: lo, Upper: shared, Base: e9, Quote: e9, MinBase: z, MinQuote: z, Tag: "shared-tick/A-ends-there"}, true)
		step(amm.Op{Kind: "create", Sender: 2, Lower: shared, Upper: up, Base: three, Quote: three, MinBase: z, MinQuote: z, Tag: "shared-tick/B-starts-there"}, true)
		_, la, _ := liqOf(lo, shared)
		idB, lb, ownB := liqOf(shared, up)
		idA, _, ownA := liqOf(lo, shared)
		if lb.Cmp(la) > 0 {
			step(amm.Op{Kind: "decrease", Sender: ownB, Pid: idB, Liq: new(big.Int).Sub(lb, la), Tag: "shared-tick/B-decreased-to-A's-liquidity"}, true)
		} else if la.Cmp(lb) > 0 {
			step(amm.Op{Kind: "decrease", Sender: ownA, Pid: idA, Liq: new(big.Int).Sub(la, lb), Tag: "shared-tick/A-decreased-to-B's-liquidity"}, true)
		}
		// the tick now has net 0 and still bounds both: touch it again from each side
		_, la, _ = liqOf(lo, shared)
		step(amm.Op{Kind: "decrease", Sender: ownA, Pid: idA, Liq: new(big.Int).Div(la, big.NewInt(3)), Tag: "shared-tick/A-decreased-again"}, true)
		_, lb, _ = liqOf(shared, up)
		step(amm.Op{Kind: "decrease", Sender: ownB, Pid: idB, Liq: new(big.Int).Div(lb, big.NewInt(2)), Tag: "shared-tick/B-decreased-again"}, true)
		// a swap across the shared tick and back
		din := 1
		if shared < 0 {
			din = 0
		}
		step(amm.Op{Kind: "swap", Sender: 3, ExactIn: true, DenomIn: din, Amount: big.NewInt(30_000_000), Tag: "shared-tick/swap-across"}, false)
		step(amm.Op{Kind: "swap", Sender: 3, ExactIn: true, DenomIn: 1 - din, Amount: big.NewInt(30_000_000), Tag: "shared-tick/swap-back"}, false)
		step(amm.Op{Kind: "increase", Sender: ownA, Pid: idA, Base: big.NewInt(1000), Quote: big.NewInt(1000), MinBase: z, MinQuote: z, Tag: "shared-tick/A-increased"}, false)
		for _, r := range [][2]int64{{lo, shared}, {shared, up}, {-100, 100}} {
			id, l, own := liqOf(r[0], r[1])
			if l.Sign() > 0 {
				step(amm.Op{Kind: "decrease", Sender: own, Pid: id, Liq: l, Tag: "shared-tick/close"}, true)
			}
		}
	}
	return nil
}

// landingCorpus (every run): (1) swaps that end exactly on an initialised tick with nothing left
// (amounts from the keeper's own ComputeMaxInAmtGivenMaxTicksCrossed, and one unit more/less), both
// directions, exact-in and exact-out, each followed by a liquidity change bounded by that tick and a
// swap back across it; (2) a position closed in two steps, the second one removing a remainder so
// small that both refunds truncate to zero: its ticks must go all the same.
// With fee 0 the input of a step is a whole number, so "exactly the amount to the tick" leaves
// exactly nothing; with a fee the rounded-up total leaves a sub-unit remainder.
func landingCorpus(w *amm.World, cf *emit.CasesFile, st *emit.Stats, feeRate string) error {
	p, err := w.CreatePool("uatom", "uosmo", feeRate, "1.0001", "0")
	if err != nil {
		return err
	}
	ctx := w.H.Ctx()
	z := big.NewInt(0)
	e12 := new(big.Int).Exp(big.NewInt(10), big.NewInt(12), nil)
	step := func(c sdk.Context, o amm.Op) error {
		term, err := w.Step(c, p, o, false)
		cf.Add(term)
		info := o.Info()
		info["pool"] = p.ID
		if err != nil {
			info["err"] = err.Error()
			st.Count(o.Kind + ":err")
		} else {
			st.Count(o.Kind + ":ok")
		}
		st.Info(info)
		st.Evaluations++
		st.Nontriv("corpus/fee=" + feeRate + "/" + o.Tag)
		return err
	}
	for _, o := range []amm.Op{
		{Kind: "create", Sender: 0, Lower: -300, Upper: 300, Base: e12, Quote: e12, MinBase: z, MinQuote: z, Tag: "landing/A-wide"},
		{Kind: "create", Sender: 1, Lower: -300, Upper: -20, Base: z, Quote: new(big.Int).Mul(big.NewInt(7), e12), MinBase: z, MinQuote: z, Tag: "landing/B-below"},
		{Kind: "create", Sender: 1, Lower: 30, Upper: 300, Base: new(big.Int).Mul(big.NewInt(7), e12), Quote: z, MinBase: z, MinQuote: z, Tag: "landing/C-above"},
	} {
		if err := step(ctx, o); err != nil {
			return fmt.Errorf("landing corpus setup: %w", err)
		}
	}
	for din := 0; din < 2; din++ {
		maxIn, out, err := w.K.ComputeMaxInAmtGivenMaxTicksCrossed(ctx, p.ID, p.Denoms[din], 1)
		if err != nil {
			return fmt.Errorf("landing corpus: %w", err)
		}
		landed := int64(-20)
		if din == 1 {
			landed = 30
		}
		for _, exactIn := range []bool{true, false} {
			for d := int64(-1); d <= 1; d++ {
				c, _ := ctx.CacheContext()
				a := maxIn.Amount.BigInt()
				if !exactIn {
					a = out.Amount.BigInt()
				}
				a = new(big.Int).Add(a, big.NewInt(d))
				tag := fmt.Sprintf("landing/din=%d/exact_in=%v/to-tick%+d", din, exactIn, d)
				if err := step(c, amm.Op{Kind: "swap", Sender: 2, ExactIn: exactIn, DenomIn: din, Amount: a, Tag: tag}); err != nil {
					continue
				}
				_ = step(c, amm.Op{Kind: "create", Sender: 2, Lower: landed - 15, Upper: landed, Base: e12, Quote: e12, MinBase: z, MinQuote: z, Tag: tag + "/create-upper-on-landed-tick"})
				_ = step(c, amm.Op{Kind: "create", Sender: 2, Lower: landed, Upper: landed + 15, Base: e12, Quote: e12, MinBase: z, MinQuote: z, Tag: tag + "/create-lower-on-landed-tick"})
				_ = step(c, amm.Op{Kind: "swap", Sender: 2, ExactIn: true, DenomIn: 1 - din, Amount: new(big.Int).Div(a, big.NewInt(3)), Tag: tag + "/back"})
				_ = step(c, amm.Op{Kind: "swap", Sender: 2, ExactIn: true, DenomIn: din, Amount: new(big.Int).Div(a, big.NewInt(2)), Tag: tag + "/again"})
			}
		}
	}
	// dust close: D on its own ticks, all but a sliver withdrawn, then the sliver
	if err := step(ctx, amm.Op{Kind: "create", Sender: 2, Lower: -77, Upper: 91, Base: big.NewInt(5_000_000), Quote: big.NewInt(5_000_000), MinBase: z, MinQuote: z, Tag: "landing/D-for-dust-close"}); err == nil {
		poss, _ := w.K.GetPositionsByPool(ctx, p.ID)
		for _, q := range poss {
			if q.LowerTick == -77 && q.UpperTick == 91 {
				d, err := sdkmath.LegacyNewDecFromStr(q.Liquidity)
				if err != nil {
					break
				}
				liq := d.BigInt()
				sliver := big.NewInt(1000) // 1e-15 of liquidity: worth less than one unit of either token
				_ = step(ctx, amm.Op{Kind: "decrease", Sender: 2, Pid: q.Id, Liq: new(big.Int).Sub(liq, sliver), Tag: "landing/D-all-but-a-sliver"})
				_ = step(ctx, amm.Op{Kind: "decrease", Sender: 2, Pid: q.Id, Liq: sliver, Tag: "landing/D-dust-close"})
			}
		}
	}
	return nil
}

func Run(seed int64, n int, outDir string) error {
	w := amm.NewWorld(seed)
	defer w.H.Close()
	if err := w.SetupPools(4); err != nil {
		return err
	}
	st := emit.NewStats("C04", seed, "generated histories of create/increase/decrease/claim/swap/allocate over 4 pools with different fee and tick parameters, one case per operation (pre-state, op, result, post-state of the real module and bank), then two full drains; non-trivial = the step crossed an initialised tick, removed the last position, created a position on an emptied pool, or moved the price (distinct by pool and resulting price)")
	cf := &emit.CasesFile{Import: "Amm.C04Check", Runner: "run", Type: "amm_case"}
	if err := gapCorpus(w, cf, st); err != nil {
		return err
	}
	if err := sharedTickCorpus(w, cf, st); err != nil {
		return err
	}
	for _, feeRate := range []string{"0.003", "0"} {
		if err := landingCorpus(w, cf, st, feeRate); err != nil {
			return err
		}
	}
	if err := w.History(cf, st, n); err != nil {
		return err
	}
	if _, err := cf.Write(outDir, "cases", 12); err != nil {
		return err
	}
	return st.Write(outDir)
}
