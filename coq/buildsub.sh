#!/bin/sh
# Private incremental build for one builder: buildsub.sh <name> File1.v File2.v ...
# Compiles only the listed files (in dependency order) with a private makefile; files they
# depend on elsewhere (Base/*.vo, ...) must already be compiled. Full .vo builds only.
set -e
cd "$(dirname "$0")"
name=$1; shift
{ cat _CoqProject; for f in "$@"; do echo "$f"; done; } > ".sub_$name.project"
coq_makefile -f ".sub_$name.project" -o ".sub_$name.mk" >/dev/null
timeout 3000 make -f ".sub_$name.mk" -j8 2>&1 | grep -v '^WARNING conda'
